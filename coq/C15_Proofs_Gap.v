(** * C15 — the shift of the inverse iteration selects the eigenvalue it was asked for, on every spectrum of the quantifier
    Find_Eigenvector_Rayleigh inverts M - shift 1 with shift = lambda_i + c |M|, c = 1e-8.  The inverse scales the eigenvector of lambda_j by
    1 / (lambda_j - shift) (C15_inverse_scales_eigenvectors), so the iteration is drawn to the eigenvalue NEAREST to the shift.  Here: for every
    spectrum of the quantifier (sizes <= 7, neighbouring magnitude ratios in 0.1 .. 0.8, either sign; [graded]) and |M|^2 = sum lambda^2
    (Frobenius norm of a symmetric matrix; carried as a premise) the shift is nearer to lambda_i than to any other eigenvalue by the factor K
    whenever c (K + 1) <= 1.2e-6 (K = 100 for the library's 1e-8), and the bound on c is needed: with c = 1.5e-6 the shift for the smallest
    eigenvalue of 1, 1e-1, .., 1e-5, 8e-6 is nearer to its neighbour. *)
From Coq Require Import Reals List Lra Lia Arith.
From LP Require Import Num NumR C15_Model C15_Proofs C15_Proofs_Iter C15_Proofs_Diag.
Import ListNotations.
Local Open Scope R_scope.

(** spectra of the quantifier, in the order of decreasing magnitude: neighbouring ratios |b| / |a| in 0.1 .. 0.8 *)
Fixpoint graded (l : list R) : Prop :=
  match l with
  | a :: ((b :: _) as t) => a <> 0 /\ Rabs a / 10 <= Rabs b <= 8 / 10 * Rabs a /\ graded t
  | _ => True
  end.
Definition sumsq (l : list R) : R := fold_right (fun x s => x * x + s) 0 l.

Lemma graded_tl a t : graded (a :: t) -> graded t.
Proof. destruct t as [| b t]; [intros _; exact I|]. intros (_ & _ & G). exact G. Qed.

Lemma graded_later a t : graded (a :: t) -> forall x, In x t -> Rabs x <= 8 / 10 * Rabs a.
Proof.
  revert a. induction t as [| b t IH]; intros a G x Hx; [destruct Hx|].
  destruct G as (Ha & Hb & G). destruct Hx as [<- | Hx]; [lra|].
  pose proof (IH b G x Hx). pose proof (Rabs_pos b). lra.
Qed.

Lemma graded_nth_lower l : graded l -> forall k, (k < length l)%nat -> (1 / 10) ^ k * Rabs (nth 0 l 0) <= Rabs (nth k l 0).
Proof.
  induction l as [| a t IH]; intros G k Hk; [simpl in Hk; lia|].
  destruct k as [| k]; [simpl; lra|].
  destruct t as [| b t]; [simpl in Hk; lia|].
  destruct G as (Ha & Hb & G).
  assert (k < length (b :: t))%nat as Hk' by (simpl in Hk |- *; lia).
  specialize (IH G k Hk').
  change (nth (S k) (a :: b :: t) 0) with (nth k (b :: t) 0). change (nth 0 (a :: b :: t) 0) with a.
  change (nth 0 (b :: t) 0) with b in IH.
  assert (0 <= (1 / 10) ^ k) as Hp by (apply pow_le; lra).
  change ((1 / 10) ^ S k) with (1 / 10 * (1 / 10) ^ k).
  pose proof (Rabs_pos a). pose proof (Rabs_pos b). nra.
Qed.

Lemma graded_gap l : graded l -> forall i j, (i < j)%nat -> (j < length l)%nat ->
  2 / 10 * Rabs (nth i l 0) <= Rabs (nth i l 0 - nth j l 0).
Proof.
  induction l as [| a t IH]; intros G i j Hij Hj; [simpl in Hj; lia|].
  destruct j as [| j]; [lia|]. destruct i as [| i].
  - change (nth 0 (a :: t) 0) with a. change (nth (S j) (a :: t) 0) with (nth j t 0).
    assert (In (nth j t 0) t) as Hin by (apply nth_In; simpl in Hj; lia).
    pose proof (graded_later a t G _ Hin). pose proof (Rabs_triang_inv a (nth j t 0)). lra.
  - change (nth (S i) (a :: t) 0) with (nth i t 0). change (nth (S j) (a :: t) 0) with (nth j t 0).
    apply IH; [exact (graded_tl a t G) | lia | simpl in Hj; lia].
Qed.

Lemma sq_abs x : x * x = Rabs x * Rabs x.
Proof. unfold Rabs. destruct (Rcase_abs x); ring. Qed.

Lemma sumsq_nonneg l : 0 <= sumsq l.
Proof. induction l as [| a t IH]; simpl; [lra|]. pose proof (sq_abs a). pose proof (Rabs_pos a). nra. Qed.

Lemma sumsq_bound l : graded l -> sumsq l <= nth 0 l 0 * nth 0 l 0 * (100 / 36).
Proof.
  induction l as [| a t IH]; intros G; [simpl; lra|].
  destruct t as [| b t]; [simpl; pose proof (sq_abs a); pose proof (Rabs_pos a); nra|].
  destruct G as (Ha & Hb & G). specialize (IH G).
  change (sumsq (a :: b :: t)) with (a * a + sumsq (b :: t)). change (nth 0 (b :: t) 0) with b in IH.
  change (nth 0 (a :: b :: t) 0) with a.
  pose proof (sq_abs a). pose proof (sq_abs b). pose proof (Rabs_pos a). pose proof (Rabs_pos b).
  assert (Rabs b * Rabs b <= 64 / 100 * (Rabs a * Rabs a)) by nra. lra.
Qed.

Lemma pow_tenth_lower m : (m <= 5)%nat -> 1 / 100000 <= (1 / 10) ^ m.
Proof. intros H. do 6 (destruct m as [| m]; [simpl; lra|]). lia. Qed.

(** the smallest gap of a graded spectrum of at most 7 values, relative to the largest magnitude *)
Lemma graded_gap_abs l i j : graded l -> (length l <= 7)%nat -> (i < length l)%nat -> (j < length l)%nat -> i <> j ->
  2 / 1000000 * Rabs (nth 0 l 0) <= Rabs (nth i l 0 - nth j l 0).
Proof.
  intros G Hn Hi Hj Hij.
  assert (forall p q, (p < q)%nat -> (q < length l)%nat -> 2 / 1000000 * Rabs (nth 0 l 0) <= Rabs (nth p l 0 - nth q l 0)) as Hlt.
  { intros p q Hpq Hq.
    pose proof (graded_gap l G p q Hpq Hq) as H1.
    assert (p < length l)%nat as Hp by lia.
    pose proof (graded_nth_lower l G p Hp) as H2.
    assert (p <= 5)%nat as Hp5 by lia. pose proof (pow_tenth_lower p Hp5) as H3.
    pose proof (Rabs_pos (nth 0 l 0)). nra. }
  destruct (Nat.lt_ge_cases i j) as [H | H].
  - apply Hlt; assumption.
  - rewrite Rabs_minus_sym. apply Hlt; [lia | assumption].
Qed.

(** main lemma: offset c |M| with c (K + 1) <= 1.2e-6 keeps the shift K times nearer to lambda_i than to any other eigenvalue *)
Lemma shift_selects l c K nrm i j : graded l -> (length l <= 7)%nat -> 0 <= nrm -> nrm * nrm = sumsq l ->
  0 < c -> 0 <= K -> c * (K + 1) <= 12 / 10000000 ->
  (i < length l)%nat -> (j < length l)%nat -> i <> j ->
  let shift := nth i l 0 + c * nrm in
  0 < Rabs (nth i l 0 - shift) /\ K * Rabs (nth i l 0 - shift) <= Rabs (nth j l 0 - shift).
Proof.
  intros G Hn Hnrm Hsq Hc HK HcK Hi Hj Hij shift.
  pose proof (graded_gap_abs l i j G Hn Hi Hj Hij) as Hgap.
  pose proof (sumsq_bound l G) as Hb.
  set (a := nth 0 l 0) in *. set (A := Rabs a) in *.
  assert (0 <= A) as HA by apply Rabs_pos.
  assert (a * a = A * A) as Haa by apply sq_abs.
  assert (0 < A) as HA0.
  { destruct l as [| x [| y t]]; [simpl in Hi; lia | simpl in Hi, Hj; lia |].
    destruct G as (Hx & _ & _). subst A a. change (nth 0 (x :: y :: t) 0) with x. apply Rabs_pos_lt. exact Hx. }
  assert (nrm <= A * (10 / 6)) as Hnb.
  { destruct (Rle_lt_dec nrm (A * (10 / 6))) as [H | H]; [exact H | exfalso; nra]. }
  assert (0 < nrm) as Hnpos.
  { destruct l as [| x t]; [simpl in Hi; lia|]. subst a. change (nth 0 (x :: t) 0) with x in *.
    change (sumsq (x :: t)) with (x * x + sumsq t) in Hsq. pose proof (sumsq_nonneg t).
    destruct (Rle_lt_dec nrm 0) as [Hz | Hz]; [|exact Hz]. exfalso. assert (nrm = 0) by lra. subst nrm. nra. }
  set (d := c * nrm). assert (0 < d) as Hd by (unfold d; apply Rmult_lt_0_compat; assumption).
  assert ((K + 1) * d <= 2 / 1000000 * A) as Hkd.
  { unfold d.
    assert (c * (K + 1) * nrm <= c * (K + 1) * (A * (10 / 6))) by (apply Rmult_le_compat_l; [nra | exact Hnb]).
    assert (c * (K + 1) * (A * (10 / 6)) <= 12 / 10000000 * (A * (10 / 6))) by (apply Rmult_le_compat_r; [lra | exact HcK]).
    lra. }
  unfold shift. fold d.
  replace (nth i l 0 - (nth i l 0 + d)) with (- d) by ring. rewrite Rabs_Ropp, (Rabs_pos_eq d) by lra.
  split; [exact Hd|].
  replace (nth j l 0 - (nth i l 0 + d)) with (- (nth i l 0 - nth j l 0) - d) by ring.
  pose proof (Rabs_triang_inv (- (nth i l 0 - nth j l 0)) d) as Ht. rewrite Rabs_Ropp, (Rabs_pos_eq d) in Ht by lra.
  lra.
Qed.

(** the same for the model's own shift (offset 1e-8 |M|, |M| > 0): factor 100 *)
Lemma rayleigh_shift_selects (m : list (list R)) l i j : graded l -> (length l <= 7)%nat ->
  mnorm ROps m * mnorm ROps m = sumsq l ->
  (i < length l)%nat -> (j < length l)%nat -> i <> j ->
  nth i l 0 <> rayleigh_shift m (nth i l 0) /\
  100 * Rabs (nth i l 0 - rayleigh_shift m (nth i l 0)) <= Rabs (nth j l 0 - rayleigh_shift m (nth i l 0)).
Proof.
  intros G Hn Hsq Hi Hj Hij.
  assert (0 <= mnorm ROps m) as Hpos by (unfold mnorm; cbn [ROps nsqrt]; apply sqrt_pos).
  assert (0 < mnorm ROps m) as Hp.
  { destruct l as [| x [| y t]]; [simpl in Hi; lia | simpl in Hi, Hj; lia |].
    destruct G as (Hx & _ & _). change (sumsq (x :: y :: t)) with (x * x + sumsq (y :: t)) in Hsq.
    pose proof (sumsq_nonneg (y :: t)). pose proof (sq_abs x). pose proof (Rabs_pos_lt x Hx).
    destruct (Rle_lt_dec (mnorm ROps m) 0) as [Hz | Hz]; [|exact Hz]. exfalso.
    assert (mnorm ROps m = 0) as E by lra. rewrite E in Hsq. nra. }
  unfold rayleigh_shift. destruct (Rltb_spec 0 (mnorm ROps m)) as [_ | Hneg]; [|contradiction].
  assert (1 / 100000000 * (100 + 1) <= 12 / 10000000) as HcK by lra.
  destruct (shift_selects l (1 / 100000000) 100 (mnorm ROps m) i j G Hn Hpos Hsq ltac:(lra) ltac:(lra) HcK Hi Hj Hij) as [H1 H2].
  split; [|exact H2].
  intros E. rewrite <- E in H1 at 1.
  replace (nth i l 0 - nth i l 0) with 0 in H1 by ring. rewrite Rabs_R0 in H1. lra.
Qed.

(** consequence for the inverse: the factor 1 / (lambda_j - shift) by which M_inv scales the eigenvector of another eigenvalue is at most 1/100 of
    the factor for the eigenvalue asked for *)
Lemma rayleigh_amplification_ratio (m : list (list R)) l i j : graded l -> (length l <= 7)%nat ->
  mnorm ROps m * mnorm ROps m = sumsq l ->
  (i < length l)%nat -> (j < length l)%nat -> i <> j ->
  let s := rayleigh_shift m (nth i l 0) in
  nth j l 0 <> s /\ Rabs (/ (nth j l 0 - s)) <= / 100 * Rabs (/ (nth i l 0 - s)).
Proof.
  intros G Hn Hsq Hi Hj Hij s.
  destruct (rayleigh_shift_selects m l i j G Hn Hsq Hi Hj Hij) as [H1 H2]. fold s in H1, H2.
  assert (0 < Rabs (nth i l 0 - s)) as Hx by (apply Rabs_pos_lt; lra).
  assert (0 < Rabs (nth j l 0 - s)) as Hy by lra.
  assert (nth j l 0 <> s) as Hne.
  { intros E. rewrite E in Hy. replace (s - s) with 0 in Hy by ring. rewrite Rabs_R0 in Hy. lra. }
  split; [exact Hne|].
  rewrite !Rabs_Rinv by lra.
  rewrite <- Rinv_mult by lra.
  apply Rinv_le_contravar; lra.
Qed.

(** the bound on the offset is needed: with 1.5e-6 |M| the shift for the smallest eigenvalue of the graded spectrum 1, 1e-1, .., 1e-5, 8e-6
    (inside the quantifier) is nearer to the neighbouring eigenvalue 1e-5 *)
Definition close_tail_spectrum : list R := [1; 1 / 10; 1 / 100; 1 / 1000; 1 / 10000; 1 / 100000; 8 / 1000000].
Lemma close_tail_graded : graded close_tail_spectrum /\ length close_tail_spectrum = 7%nat.
Proof.
  split; [|reflexivity]. unfold close_tail_spectrum.
  repeat match goal with |- graded (_ :: _ :: _) => split; [lra | split; [rewrite !Rabs_pos_eq by lra; lra|]] end. exact I.
Qed.
Lemma larger_offset_selects_neighbour nrm : 0 <= nrm -> nrm * nrm = sumsq close_tail_spectrum ->
  let shift := nth 6 close_tail_spectrum 0 + 15 / 10000000 * nrm in
  Rabs (nth 5 close_tail_spectrum 0 - shift) < Rabs (nth 6 close_tail_spectrum 0 - shift).
Proof.
  intros Hn Hsq shift. unfold shift, close_tail_spectrum in *. cbn [nth]. cbn [sumsq fold_right] in Hsq.
  assert (1 <= nrm) by (destruct (Rle_lt_dec 1 nrm); [assumption | exfalso; nra]).
  assert (nrm <= 101 / 100) by (destruct (Rle_lt_dec nrm (101 / 100)); [assumption | exfalso; nra]).
  unfold Rabs. repeat destruct Rcase_abs; lra.
Qed.

(** non-vacuity of [rayleigh_shift_selects]: the diagonal matrix diag(1, 1/10, 8/100) (graded spectrum with a close pair at the small end) *)
Lemma shift_selects_example :
  let m := [[1; 0; 0]; [0; 1 / 10; 0]; [0; 0; 8 / 100]] in let l := [1; 1 / 10; 8 / 100] in
  graded l /\ (length l <= 7)%nat /\ mnorm ROps m * mnorm ROps m = sumsq l.
Proof.
  cbv zeta. split; [|split; [simpl; lia|]].
  - repeat match goal with |- graded (_ :: _ :: _) => split; [lra | split; [rewrite !Rabs_pos_eq by lra; lra|]] end. exact I.
  - unfold mnorm. cbn [fold_left ROps nsqrt nadd nmul n0 sumsq fold_right]. rewrite sqrt_sqrt; lra.
Qed.

(** ** the premise |M|^2 = sum lambda^2 holds for every diagonal matrix (the diagonal matrices of the quantifier): Matrix::Norm of diag(d) *)
Lemma fold_sq_map (g : nat -> R) l acc :
  fold_left (fun a c => a + c * c) (map g l) acc = fold_left (fun a k => a + g k * g k) l acc.
Proof. revert acc. induction l as [| k l IH]; intros acc; cbn [map fold_left]; [reflexivity | apply IH]. Qed.
Lemma fold_seq_rsum_acc (g : nat -> R) n acc : fold_left (fun a k => a + g k) (seq 0 n) acc = acc + rsum g n.
Proof.
  induction n as [| n IH]; [cbn; ring|].
  rewrite seq_S, fold_left_app, IH. cbn [fold_left rsum Nat.add]. ring.
Qed.
Lemma fold_rows_rsum (h : nat -> R) n acc :
  fold_left (fun a i => a + h i) (seq 0 n) acc = acc + rsum h n.
Proof. apply fold_seq_rsum_acc. Qed.
Lemma mnorm_sq_mk n (f : nat -> nat -> R) :
  mnorm ROps (mk n n f) * mnorm ROps (mk n n f) = rsum (fun i => rsum (fun j => f i j * f i j) n) n.
Proof.
  assert (forall l acc, fold_left (fun a row => fold_left (fun a' c => a' + c * c) row a) (map (fun i => map (fun j => f i j) (seq 0 n)) l) acc
                        = fold_left (fun a i => a + rsum (fun j => f i j * f i j) n) l acc) as E.
  { induction l as [| i l IH]; intros acc; cbn [map fold_left]; [reflexivity|].
    rewrite IH. f_equal. rewrite fold_sq_map. apply (fold_seq_rsum_acc (fun j => f i j * f i j)). }
  assert (0 <= rsum (fun i => rsum (fun j => f i j * f i j) n) n) as Hpos.
  { assert (forall g m, (forall k, 0 <= g k) -> 0 <= rsum g m) as P
      by (intros g m Hg; induction m as [| m IHm]; cbn [rsum]; [lra | pose proof (Hg m); lra]).
    apply P. intros i. apply P. intros j. pose proof (sq_abs (f i j)). pose proof (Rabs_pos (f i j)). nra. }
  unfold mnorm, mk. cbn [ROps nsqrt nadd nmul n0].
  rewrite E, fold_seq_rsum_acc, Rplus_0_l. apply sqrt_sqrt. exact Hpos.
Qed.
Lemma rsum_shift (g : nat -> R) n : rsum g (S n) = g 0%nat + rsum (fun k => g (S k)) n.
Proof. induction n as [| n IH]; [cbn; ring|]. change (rsum g (S (S n))) with (rsum g (S n) + g (S n)). rewrite IH. cbn [rsum]. ring. Qed.
Lemma rsum_sq_list (d : list R) : rsum (fun i => nth i d 0 * nth i d 0) (length d) = sumsq d.
Proof.
  induction d as [| a t IH]; [reflexivity|].
  change (length (a :: t)) with (S (length t)). rewrite rsum_shift. cbn [nth]. rewrite IH. reflexivity.
Qed.
Lemma mnorm_sq_diagm (d : list R) : mnorm ROps (diagm d) * mnorm ROps (diagm d) = sumsq d.
Proof.
  unfold diagm. rewrite mnorm_sq_mk, <- rsum_sq_list.
  apply rsum_ext. intros i Hi.
  rewrite (rsum_single _ (length d) i Hi).
  - rewrite Nat.eqb_refl. reflexivity.
  - intros k Hk Hne. destruct (Nat.eqb_spec i k); [subst; contradiction | ring].
Qed.

(** hence, with no premise on the norm, for every diagonal matrix of the quantifier whose diagonal is in the order of decreasing magnitude *)
Lemma rayleigh_shift_selects_diagonal (d : list R) i j : graded d -> (length d <= 7)%nat ->
  (i < length d)%nat -> (j < length d)%nat -> i <> j ->
  nth i d 0 <> rayleigh_shift (diagm d) (nth i d 0) /\
  100 * Rabs (nth i d 0 - rayleigh_shift (diagm d) (nth i d 0)) <= Rabs (nth j d 0 - rayleigh_shift (diagm d) (nth i d 0)).
Proof. intros G Hn. apply rayleigh_shift_selects; [exact G | exact Hn | apply mnorm_sq_diagm]. Qed.
