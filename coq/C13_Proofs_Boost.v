(** C13: theorems about the two boost back ends that are model terms (C13_Model2.v): gauss<double,30>::integrate and trapezoidal. *)
From Coq Require Import Reals ZArith List Lra Lia Bool.
From Coquelicot Require Import Coquelicot.
From LP Require Import Num NumR C13_Model C13_Model2 C13_Proofs C13_Proofs_Stack.
Import ListNotations.
Local Open Scope R_scope.

Definition oppf (f : R -> res R) : R -> res R := fun x => rmap Ropp (f x).

(** ** 1. from Integrate (ordered, distinct limits) the entry branches a == b and a > b of the boost functions are not taken *)
Lemma boost_gauss30_forward f a b : a < b -> boost_gauss30 ROps f a b = gauss30_core ROps f a b.
Proof.
  intros H. unfold boost_gauss30. cbn [neqb nltb ROps].
  destruct (Reqb_spec a b); [lra |]. destruct (Rltb_spec b a); [lra | reflexivity].
Qed.

Lemma boost_trapezoidal_forward f a b : a < b -> boost_trapezoidal ROps f a b = trap_core ROps f a b.
Proof.
  intros H. unfold boost_trapezoidal, ngtb. cbn [neqb nltb ROps].
  destruct (Reqb_spec a b); [lra |]. destruct (Rltb_spec b a); [lra | reflexivity].
Qed.

(** ** 2. gauss<30> is odd in its integrand (any table) *)
Lemma gauss_m1_1_opp (u : R -> res R) (tab : list (R * R)) : forall r,
  gauss_m1_1 ROps (oppf u) tab (- r) = rmap Ropp (gauss_m1_1 ROps u tab r).
Proof.
  induction tab as [|[x w] tab IH]; intros r; cbn -[oppf].
  - reflexivity.
  - unfold oppf at 1 2. destruct (u x) as [fp| | |]; cbn -[oppf]; try reflexivity.
    destruct (u (- x)) as [fm| | |]; cbn -[oppf]; try reflexivity.
    replace (- r + (- fp + - fm) * w) with (- (r + (fp + fm) * w)) by ring. apply IH.
Qed.

Lemma gauss30_core_opp f a b : gauss30_core ROps (oppf f) a b = rmap Ropp (gauss30_core ROps f a b).
Proof.
  unfold gauss30_core.
  change (fun z : R => oppf f (nadd ROps (nmul ROps (nadd ROps a b) (half ROps)) (nmul ROps (nmul ROps (nsub ROps b a) (half ROps)) z)))
    with (oppf (fun z : R => f (nadd ROps (nmul ROps (nadd ROps a b) (half ROps)) (nmul ROps (nmul ROps (nsub ROps b a) (half ROps)) z)))).
  replace (n0 ROps) with (- 0) at 1 by (cbn; ring).
  rewrite gauss_m1_1_opp. destruct (gauss_m1_1 ROps _ _ _) as [q| | |]; cbn; try reflexivity. f_equal. ring.
Qed.

Lemma boost_gauss30_odd f a b : boost_gauss30 ROps (oppf f) a b = rmap Ropp (boost_gauss30 ROps f a b).
Proof.
  unfold boost_gauss30. destruct (neqb ROps a b).
  - cbn. f_equal. ring.
  - destruct (nltb ROps b a).
    + rewrite gauss30_core_opp. destruct (gauss30_core ROps f b a); reflexivity.
    + apply gauss30_core_opp.
Qed.

(** ** 3. trapezoidal is odd in its integrand: the stopping test error > tol * IL1 sees |I0 - I1| and the sums of |y| only *)
Lemma trap_sum_opp (f : R -> res R) a h : forall cnt j s sa,
  trap_sum ROps cnt j (oppf f) a h (- s) sa = rmap (fun p => (- fst p, snd p)) (trap_sum ROps cnt j f a h s sa).
Proof.
  induction cnt as [|c IH]; intros j s sa; cbn -[oppf].
  - reflexivity.
  - unfold oppf at 1. destruct (f _) as [y| | |]; cbn -[oppf]; try reflexivity.
    replace (- s + - y) with (- (s + y)) by ring. rewrite Rabs_Ropp. apply IH.
Qed.

Lemma trap_loop_opp (f : R -> res R) a : forall fuel k h I0 I1 IL1 err,
  trap_loop ROps fuel k (oppf f) a h (- I0) (- I1) IL1 err = rmap Ropp (trap_loop ROps fuel k f a h I0 I1 IL1 err).
Proof.
  induction fuel as [|fu IH]; intros k h I0 I1 IL1 err; cbn -[oppf Z.pow Z.div Z.ltb ngtb trap_tol half].
  - destruct (_ || _); reflexivity.
  - destruct (_ || _); [| reflexivity].
    replace (n0 ROps) with (- 0) at 1 by (cbn; ring).
    rewrite trap_sum_opp. change (n0 ROps) with 0.
    destruct (trap_sum ROps _ 1 f a _ 0 0) as [[s sa]| | |]; cbn -[oppf Z.pow Z.div Z.ltb ngtb trap_tol half trap_loop]; try reflexivity.
    replace (- I1 * half ROps + - s * (h * half ROps)) with (- (I1 * half ROps + s * (h * half ROps))) by ring.
    replace (Rabs (- I1 - - (I1 * half ROps + s * (h * half ROps)))) with (Rabs (I1 - (I1 * half ROps + s * (h * half ROps))))
      by (rewrite <- Rabs_Ropp; f_equal; ring).
    apply IH.
Qed.

Lemma trap_core_opp f a b : trap_core ROps (oppf f) a b = rmap Ropp (trap_core ROps f a b).
Proof.
  unfold trap_core. cbn -[oppf trap_loop half]. unfold oppf at 1.
  destruct (f a) as [ya| | |]; cbn -[oppf trap_loop half]; try reflexivity.
  unfold oppf at 1. destruct (f b) as [yb| | |]; cbn -[oppf trap_loop half]; try reflexivity.
  unfold oppf at 1. destruct (f _) as [yh| | |]; cbn -[oppf trap_loop half]; try reflexivity.
  rewrite !Rabs_Ropp.
  set (h := (b - a) * half ROps).
  replace ((- ya + - yb) * h) with (- ((ya + yb) * h)) by ring.
  replace (- ((ya + yb) * h) * half ROps + - yh * h) with (- ((ya + yb) * h * half ROps + yh * h)) by ring.
  replace (Rabs (- ((ya + yb) * h) - - ((ya + yb) * h * half ROps + yh * h)))
    with (Rabs ((ya + yb) * h - ((ya + yb) * h * half ROps + yh * h))) by (rewrite <- Rabs_Ropp; f_equal; ring).
  apply trap_loop_opp.
Qed.

Lemma boost_trapezoidal_odd f a b : boost_trapezoidal ROps (oppf f) a b = rmap Ropp (boost_trapezoidal ROps f a b).
Proof.
  unfold boost_trapezoidal. destruct (neqb ROps a b).
  - cbn. f_equal. ring.
  - destruct (ngtb ROps a b).
    + rewrite trap_core_opp. destruct (trap_core ROps f b a); reflexivity.
    + apply trap_core_opp.
Qed.

(** ** 4. consequences for Integrate with the two back ends filled in *)
Lemma with_modelled_backends_odd I0 : backend_odd I0 -> backend_odd (with_modelled_backends ROps I0).
Proof.
  intros H B f a b. destruct B; cbn [with_modelled_backends];
    [apply boost_trapezoidal_odd | apply boost_gauss30_odd | apply H | apply H].
Qed.

Lemma named_odd_of_selected I m p : is_nested_method m = true ->
  (forall f a b, selected I m p (oppf f) a b = rmap Ropp (selected I m p f a b)) ->
  odd (fun g u v => integrate_named ROps I m g u v p).
Proof.
  intros Hm Hs f a b. change (fun x => rmap Ropp (f x)) with (oppf f).
  destruct (Rtotal_order a b) as [Hlt | [-> | Hgt]].
  - rewrite !(dispatch_forward I m _ a b p Hm Hlt), Hs. destruct (selected I m p f a b); reflexivity.
  - rewrite !(dispatch_equal I m _ b p Hm). cbn. f_equal. ring.
  - rewrite !(dispatch_reversed I m _ a b p Hm Hgt), Hs. destruct (selected I m p f b a); reflexivity.
Qed.

Lemma named_modelled_odd I0 m p : m = M_Trapezoidal \/ m = M_GaussLegendre \/ m = M_GaussLegendre2 \/ m = M_AdaptiveSimpson ->
  odd (fun g u v => integrate_named ROps (with_modelled_backends ROps I0) m g u v p).
Proof.
  intros [-> | [-> | H]]; [| | apply named_own_odd; exact H].
  - apply named_odd_of_selected; [reflexivity |]. intros f a b. apply boost_trapezoidal_odd.
  - apply named_odd_of_selected; [reflexivity |]. intros f a b. apply boost_gauss30_odd.
Qed.

Theorem stack_reverse_axis_modelled I0 m p (l1 l2 : list (R * R)) a b (f : list R -> res R) pt :
  m = M_Trapezoidal \/ m = M_GaussLegendre \/ m = M_GaussLegendre2 \/ m = M_AdaptiveSimpson ->
  let J := fun g u v => integrate_named ROps (with_modelled_backends ROps I0) m g u v p in
  nest_nd J (l1 ++ (b, a) :: l2) f pt = rmap Ropp (nest_nd J (l1 ++ (a, b) :: l2) f pt).
Proof.
  intros H J. apply nest_nd_reverse_level; [apply named_reversing | apply named_modelled_odd; exact H].
Qed.

(** ** 5. affine integrands: the trapezoidal rule is exact (every refinement level, wherever the loop stops), gauss<30> with the
    decimal literals of its table returns (1 + 2e-20) times the integral *)
Section Affine.
Variables k0 k1 : R.
Definition affine (x : R) : R := k0 + k1 * x.
Definition affine_int (a b : R) : R := (b - a) * (k0 + k1 * (a + b) / 2).

Lemma affine_is_RInt a b : is_RInt affine a b (affine_int a b).
Proof.
  replace (affine_int a b) with ((k0 * b + k1 * b ^ 2 / 2) - (k0 * a + k1 * a ^ 2 / 2)) by (unfold affine_int; field).
  apply (is_RInt_derive (fun x => k0 * x + k1 * x ^ 2 / 2) affine).
  - intros x _. unfold affine. auto_derive; [exact Logic.I|]. field.
  - intros x _. apply (@ex_derive_continuous R_AbsRing R_NormedModule). unfold affine. auto_derive. exact Logic.I.
Qed.
Lemma affine_RInt a b : RInt affine a b = affine_int a b.
Proof. apply is_RInt_unique, affine_is_RInt. Qed.

Lemma half_R : half ROps = 1 / 2.
Proof. reflexivity. Qed.

Lemma trap_sum_affine a h : forall cnt j s sa, exists sa',
  trap_sum ROps cnt j (okf affine) a h s sa
  = Ok (s + INR cnt * (k0 + k1 * a) + k1 * h * (INR cnt * IZR j + INR cnt * (INR cnt - 1)), sa').
Proof.
  induction cnt as [|c IH]; intros j s sa.
  - exists sa. cbn. f_equal. f_equal. ring.
  - cbn [trap_sum]. unfold okf at 1. cbn [rbind].
    destruct (IH (j + 2)%Z (nadd ROps s (affine (nadd ROps a (nmul ROps (nofZ ROps j) h)))) (nadd ROps sa (nabs ROps (affine (nadd ROps a (nmul ROps (nofZ ROps j) h)))))) as [sa' E].
    exists sa'. rewrite E. f_equal. f_equal. rewrite S_INR, plus_IZR. unfold affine. cbn. ring.
Qed.

Lemma trap_loop_affine a b : forall fuel k c h I0 I1 IL1 err,
  (2 <= k <= 12)%Z -> (12 - k <= Z.of_nat fuel)%Z -> c = (2 ^ (k - 1))%Z -> h * IZR c = b - a -> I1 = affine_int a b ->
  trap_loop ROps fuel k (okf affine) a h I0 I1 IL1 err = Ok (affine_int a b).
Proof.
  induction fuel as [|fu IH]; intros k c h I0 I1 IL1 err Hk Hf Hc Hh HI;
    cbn -[Z.pow Z.div Z.ltb ngtb trap_tol half trap_sum]; unfold trap_max_refinements;
    destruct ((k <? 5)%Z || ((k <? 12)%Z && ngtb ROps err (trap_tol ROps * IL1))) eqn:Hcond; try (f_equal; exact HI).
  - exfalso. apply orb_true_iff in Hcond. destruct Hcond as [H | H]; [apply Z.ltb_lt in H | apply andb_true_iff in H; destruct H as [H _]; apply Z.ltb_lt in H]; lia.
  - assert (Hk12 : (k < 12)%Z).
    { apply orb_true_iff in Hcond. destruct Hcond as [H | H]; [apply Z.ltb_lt in H | apply andb_true_iff in H; destruct H as [H _]; apply Z.ltb_lt in H]; lia. }
    assert (Hp : (2 ^ k = 2 * c)%Z).
    { subst c. replace k with (Z.succ (k - 1)) at 1 by lia. rewrite Z.pow_succ_r by lia. reflexivity. }
    assert (Hc0 : (0 < c)%Z) by (subst c; apply Z.pow_pos_nonneg; lia).
    replace (2 ^ k / 2)%Z with c by (rewrite Hp, Z.mul_comm, Z.div_mul; lia).
    destruct (trap_sum_affine a (h * half ROps) (Z.to_nat c) 1 (n0 ROps) (n0 ROps)) as [sa' E]. change (n0 ROps) with 0 in E. rewrite E. cbn [rbind].
    apply (IH (k + 1)%Z (2 * c)%Z); try lia.
    + replace (k + 1 - 1)%Z with k by lia. symmetry; exact Hp.
    + rewrite mult_IZR, half_R. rewrite <- Hh. field.
    + rewrite INR_IZR_INZ, Z2Nat.id by lia. rewrite half_R. subst I1.
      assert (HC : h * (1 / 2) * IZR c = (b - a) / 2) by (rewrite <- Hh; field).
      set (C := IZR c) in *. set (h' := h * (1 / 2)) in *.
      replace (affine_int a b * (1 / 2) + (0 + C * (k0 + k1 * a) + k1 * h' * (C * 1 + C * (C - 1))) * h')
        with (affine_int a b * (1 / 2) + (k0 + k1 * a) * (h' * C) + k1 * (h' * C) * (h' * C)) by ring.
      rewrite HC. unfold affine_int. field.
Qed.

Lemma trap_core_affine a b : trap_core ROps (okf affine) a b = Ok (affine_int a b).
Proof.
  unfold trap_core, okf at 1 2 3. cbn [rbind].
  apply (trap_loop_affine a b 12 2 2%Z); try lia; try reflexivity.
  - cbn. field.
  - unfold affine, affine_int. cbn. field.
Qed.

Theorem trapezoidal_affine_exact I0 a b p :
  integrate_named ROps (with_modelled_backends ROps I0) M_Trapezoidal (okf affine) a b p = Ok (RInt affine a b).
Proof.
  set (I := with_modelled_backends ROps I0).
  destruct (Rtotal_order a b) as [Hlt | [-> | Hgt]].
  - rewrite (dispatch_forward I M_Trapezoidal _ a b p eq_refl Hlt). cbn [selected]. unfold I. cbn [with_modelled_backends].
    rewrite boost_trapezoidal_forward, trap_core_affine, affine_RInt by exact Hlt. reflexivity.
  - rewrite (dispatch_equal I M_Trapezoidal _ b p eq_refl), affine_RInt. apply f_equal. unfold affine_int. field.
  - rewrite (dispatch_reversed I M_Trapezoidal _ a b p eq_refl Hgt). cbn [selected]. unfold I. cbn [with_modelled_backends].
    rewrite boost_trapezoidal_forward, trap_core_affine, affine_RInt by exact Hgt. cbn [rmap rbind]. apply f_equal. unfold affine_int. field.
Qed.

(** gauss<30>: the sum of the 30 weights as the header writes them is 1 + 2e-20 *)
Definition gauss30_weight_sum : R := 50000000000000000001 / 50000000000000000000.

Lemma gauss30_core_affine a b : gauss30_core ROps (okf affine) a b = Ok (gauss30_weight_sum * affine_int a b).
Proof.
  unfold gauss30_core, gauss30_table, okf, affine, affine_int, gauss30_weight_sum. cbn. f_equal. field.
Qed.

Theorem gauss_legendre_affine I0 a b p :
  integrate_named ROps (with_modelled_backends ROps I0) M_GaussLegendre (okf affine) a b p = Ok (gauss30_weight_sum * RInt affine a b).
Proof.
  set (I := with_modelled_backends ROps I0).
  destruct (Rtotal_order a b) as [Hlt | [-> | Hgt]].
  - rewrite (dispatch_forward I M_GaussLegendre _ a b p eq_refl Hlt). cbn [selected]. unfold I. cbn [with_modelled_backends].
    rewrite boost_gauss30_forward, gauss30_core_affine, affine_RInt by exact Hlt. reflexivity.
  - rewrite (dispatch_equal I M_GaussLegendre _ b p eq_refl), affine_RInt. apply f_equal. unfold affine_int. field.
  - rewrite (dispatch_reversed I M_GaussLegendre _ a b p eq_refl Hgt). cbn [selected]. unfold I. cbn [with_modelled_backends].
    rewrite boost_gauss30_forward, gauss30_core_affine, affine_RInt by exact Hgt. cbn [rmap rbind]. apply f_equal. unfold affine_int. field.
Qed.

Corollary gauss_legendre_affine_accuracy I0 a b p r :
  integrate_named ROps (with_modelled_backends ROps I0) M_GaussLegendre (okf affine) a b p = Ok r ->
  Rabs (r - RInt affine a b) <= 1 / 1000000000 * Rabs (RInt affine a b).
Proof.
  rewrite gauss_legendre_affine. intros E. injection E as <-.
  replace (gauss30_weight_sum * RInt affine a b - RInt affine a b) with (1 / 50000000000000000000 * RInt affine a b)
    by (unfold gauss30_weight_sum; field).
  rewrite Rabs_mult. rewrite (Rabs_pos_eq (1 / 50000000000000000000)) by lra.
  pose proof (Rabs_pos (RInt affine a b)). nra.
Qed.
End Affine.

(** ** 6. gauss<30> evaluates its integrand exactly once at each of the 30 points avg + scale * (+-x_i), in the order +x_i, -x_i, and nowhere else
    (any number type); over the reals these points lie within the limits, so the result depends on the integrand on [a, b] only *)
Section Samples.
Context {T : Type} (Ops : NumOps T).

Definition gauss_nodes (tab : list (T * T)) : list T := flat_map (fun p => [fst p; nneg Ops (fst p)]) tab.

Lemma gauss_m1_1_samples (u : T -> res T) : forall tab r res,
  gauss_m1_1 Ops u tab r = Ok res -> exists fv, Forall2 (fun z y => u z = Ok y) (gauss_nodes tab) fv.
Proof.
  induction tab as [|[x w] tab IH]; intros r res H; cbn in *.
  - exists []. constructor.
  - destruct (u x) as [fp| | |] eqn:E1; cbn in H; try discriminate.
    destruct (u (nneg Ops x)) as [fm| | |] eqn:E2; cbn in H; try discriminate.
    destruct (IH _ _ H) as [fv Hfv]. exists (fp :: fm :: fv). constructor; [exact E1 |]. constructor; [exact E2 | exact Hfv].
Qed.

Lemma Forall2_len {A B} (P : A -> B -> Prop) l l' : Forall2 P l l' -> List.length l = List.length l'.
Proof. induction 1; cbn; congruence. Qed.

Theorem gauss30_samples (f : T -> res T) a b r : gauss30_core Ops f a b = Ok r ->
  let avg := nmul Ops (nadd Ops a b) (half Ops) in
  let scale := nmul Ops (nsub Ops b a) (half Ops) in
  exists fv, List.length fv = 30%nat /\ List.length (gauss_nodes (gauss30_table Ops)) = 30%nat /\
    Forall2 (fun z y => f (nadd Ops avg (nmul Ops scale z)) = Ok y) (gauss_nodes (gauss30_table Ops)) fv.
Proof.
  intros H; intros avg scale; unfold gauss30_core in H.
  destruct (gauss_m1_1 Ops _ (gauss30_table Ops) (n0 Ops)) as [q| | |] eqn:E; try discriminate.
  destruct (gauss_m1_1_samples _ _ _ _ E) as [fv Hfv]. exists fv.
  assert (L : List.length (gauss_nodes (gauss30_table Ops)) = 30%nat) by reflexivity.
  split; [| split; [exact L | exact Hfv]].
  rewrite <- (Forall2_len _ _ _ Hfv). exact L.
Qed.
End Samples.

Lemma gauss_m1_1_ext (u v : R -> res R) : forall tab r,
  List.Forall (fun p => u (fst p) = v (fst p) /\ u (- fst p) = v (- fst p)) tab -> gauss_m1_1 ROps u tab r = gauss_m1_1 ROps v tab r.
Proof.
  induction tab as [|[x w] tab IH]; intros r H; cbn; [reflexivity |].
  inversion H as [|? ? [E1 E2] H']; subst. cbn in E1, E2. rewrite E1, E2.
  destruct (v x); cbn; try reflexivity. destruct (v (- x)); cbn; try reflexivity. apply IH. exact H'.
Qed.

Lemma gauss30_table_in_unit : List.Forall (fun p : R * R => 0 <= fst p <= 1) (gauss30_table ROps).
Proof. unfold gauss30_table. repeat constructor; cbn; lra. Qed.

Theorem gauss30_local (f g : R -> res R) a b : a < b -> (forall x, a <= x <= b -> f x = g x) ->
  boost_gauss30 ROps f a b = boost_gauss30 ROps g a b.
Proof.
  intros Hab Hfg. rewrite !boost_gauss30_forward by exact Hab. unfold gauss30_core.
  rewrite (gauss_m1_1_ext _ (fun z => g (nadd ROps (nmul ROps (nadd ROps a b) (half ROps)) (nmul ROps (nmul ROps (nsub ROps b a) (half ROps)) z)))); [reflexivity |].
  eapply Forall_impl; [| exact gauss30_table_in_unit].
  intros [x w] Hx. cbn in Hx. cbn. split; apply Hfg; nra.
Qed.

(** ** 7. the trapezoidal rule samples a, b and the points a + j (b - a) / 2^k, j odd, 0 < j < 2^k: all within the limits (over the reals) *)
Lemma trap_sum_ext (f g : R -> res R) a h : forall cnt j s sa,
  (forall i, (0 <= i < Z.of_nat cnt)%Z -> f (a + IZR (j + 2 * i) * h) = g (a + IZR (j + 2 * i) * h)) ->
  trap_sum ROps cnt j f a h s sa = trap_sum ROps cnt j g a h s sa.
Proof.
  induction cnt as [|c IH]; intros j s sa H; [reflexivity |].
  cbn [trap_sum]. change (nadd ROps a (nmul ROps (nofZ ROps j) h)) with (a + IZR j * h).
  generalize (H 0%Z ltac:(lia)). replace (j + 2 * 0)%Z with j by lia. intros ->.
  destruct (g (a + IZR j * h)) as [y| | |]; cbn [rbind]; try reflexivity.
  apply IH. intros i Hi. replace (j + 2 + 2 * i)%Z with (j + 2 * (i + 1))%Z by lia. apply H. lia.
Qed.

Lemma trap_loop_ext (f g : R -> res R) a b : a < b -> (forall x, a <= x <= b -> f x = g x) ->
  forall fuel k c h I0 I1 IL1 err, (2 <= k)%Z -> c = (2 ^ (k - 1))%Z -> h * IZR c = b - a ->
  trap_loop ROps fuel k f a h I0 I1 IL1 err = trap_loop ROps fuel k g a h I0 I1 IL1 err.
Proof.
  intros Hab Hfg. induction fuel as [|fu IH]; intros k c h I0 I1 IL1 err Hk Hc Hh;
    cbn -[Z.pow Z.div Z.ltb ngtb trap_tol half trap_sum]; destruct (_ || _); try reflexivity.
  assert (Hp : (2 ^ k = 2 * c)%Z).
  { subst c. replace k with (Z.succ (k - 1)) at 1 by lia. rewrite Z.pow_succ_r by lia. reflexivity. }
  assert (Hc0 : (0 < c)%Z) by (subst c; apply Z.pow_pos_nonneg; lia).
  replace (2 ^ k / 2)%Z with c by (rewrite Hp, Z.mul_comm, Z.div_mul; lia).
  assert (HC : 0 < IZR c) by (apply IZR_lt; exact Hc0).
  assert (Hh0 : 0 < h) by nra.
  rewrite (trap_sum_ext f g a (h * half ROps) (Z.to_nat c) 1 0 0).
  - destruct (trap_sum ROps (Z.to_nat c) 1 g a (h * half ROps) 0 0) as [[s sa]| | |]; cbn [rbind]; try reflexivity.
    apply (IH (k + 1)%Z (2 * c)%Z); try lia.
    + replace (k + 1 - 1)%Z with k by lia. symmetry; exact Hp.
    + rewrite mult_IZR, half_R. rewrite <- Hh. field.
  - intros i Hi. rewrite Z2Nat.id in Hi by lia. apply Hfg. rewrite half_R.
    assert (H1 : 1 <= IZR (1 + 2 * i)) by (apply IZR_le; lia).
    assert (H2 : IZR (1 + 2 * i) <= 2 * IZR c - 1) by (rewrite <- (mult_IZR 2 c), <- minus_IZR; apply IZR_le; lia).
    set (t := IZR (1 + 2 * i)) in *. set (C := IZR c) in *.
    assert (E : h * (1 / 2) * (2 * C) = b - a) by (rewrite <- Hh; field).
    set (h' := h * (1 / 2)) in *. assert (0 < h') by (unfold h'; lra).
    split; nra.
Qed.

Theorem trapezoidal_local (f g : R -> res R) a b : a < b -> (forall x, a <= x <= b -> f x = g x) ->
  boost_trapezoidal ROps f a b = boost_trapezoidal ROps g a b.
Proof.
  intros Hab Hfg. rewrite !boost_trapezoidal_forward by exact Hab. unfold trap_core.
  rewrite (Hfg a) by lra. destruct (g a) as [ya| | |]; cbn [rbind]; try reflexivity.
  rewrite (Hfg b) by lra. destruct (g b) as [yb| | |]; cbn [rbind]; try reflexivity.
  change (nadd ROps a (nmul ROps (nsub ROps b a) (half ROps))) with (a + (b - a) * (1 / 2)).
  rewrite (Hfg (a + (b - a) * (1 / 2))) by lra. destruct (g _) as [yh| | |]; cbn [rbind]; try reflexivity.
  apply (trap_loop_ext f g a b Hab Hfg 12 2 2%Z); try lia; try reflexivity.
  cbn. field.
Qed.

(** ** non-vacuity of the hypotheses above *)
Example gauss30_returns_example : gauss30_core ROps (okf (affine 1 2)) 0 1 = Ok (gauss30_weight_sum * affine_int 1 2 0 1).
Proof. apply gauss30_core_affine. Qed.
Example local_example : 1 < 2 /\ (forall x, 1 <= x <= 2 -> okf (fun x => x) x = okf (fun x => Rmax 0 x) x).
Proof. split; [lra |]. intros x Hx. unfold okf. rewrite Rmax_right by lra. reflexivity. Qed.
Example modelled_backends_odd_example : backend_odd (with_modelled_backends ROps (fun _ g u v => rmap (fun y => (v - u) * y) (g ((u + v) / 2)))).
Proof. apply with_modelled_backends_odd, midpoint_backend_odd. Qed.
