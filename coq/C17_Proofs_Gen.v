(** * C17: the property clauses stated directly about the terms generated from the C++ source (Gen_C17_More.v), no hand model in
    the statements: consequences of the T-tie lemmas of C17_GenTie.v (instantiated at the reals, where the literal laws hold) and
    of the theorems about the hand model. *)
From Coq Require Import Reals ZArith List Bool Lra Lia.
From Coquelicot Require Import Coquelicot.
From LP Require Import Num NumR Gen_C17_Formulas Gen_C17_More C17_Model C17_Defs C17_GenTie C17_Proofs C17_Proofs_Round C17_Proofs_InvErf C17_Proofs_Hist C17_Proofs_Series.
Import ListNotations.
Local Open Scope R_scope.

Section Gen.
Variables (pi_c : R) (sf : R -> Z) (s2f : R -> R -> R) (df : R -> R) (FR : (R -> R) -> R -> R -> R -> res R).

Definition gen_round (x : R) (d : Z) : res R := g_Round ROps pi_c (g_Sign ROps) s2f df FR x d.
Definition gen_dawson (c : list R) (x : R) : list R * R := g_Dawson_Integral ROps pi_c sf (g_Sign2 ROps) df FR c x.
Definition gen_inv_erf (p : R) : res R := g_Inv_Erf ROps pi_c sf s2f df FR p.

Lemma gen_round_eq x d : gen_round x d = round ROps x d.
Proof. apply (tie_Round ROps ROps_LitLaws). Qed.
Lemma gen_dawson_eq c x : gen_dawson c x = dawson_st ROps c x.
Proof. apply (tie_Dawson_Integral ROps ROps_LitLaws). Qed.
Lemma gen_inv_erf_eq p : gen_inv_erf p = inv_erf ROps FR p.
Proof. apply (tie_Inv_Erf ROps ROps_LitLaws). Qed.

(** Round, the generated term: half a unit / nearest multiple, odd, idempotent, monotone, zero and the digits guard *)
Theorem gen_round_clauses :
  (forall x d, x <> 0 -> (1 <= d <= 7)%Z ->
     let k := decade_of x in let q := powerRZ 10 (k - d + 1) in
     powerRZ 10 k <= Rabs x < powerRZ 10 (k + 1) /\
     exists r, gen_round x d = Ok r /\
       r = (if Rlt_dec 0 x then 1 else -1) * IZR (Int_part (Rabs x / q + / 2)) * q /\ Rabs (r - x) <= q / 2) /\
  (forall x d, gen_round (- x) d = rmap Ropp (gen_round x d)) /\
  (forall x d r, (1 <= d <= 7)%Z -> gen_round x d = Ok r -> gen_round r d = Ok r) /\
  (forall x y d rx ry, (1 <= d <= 7)%Z -> x <= y -> gen_round x d = Ok rx -> gen_round y d = Ok ry -> rx <= ry) /\
  (forall x d, ((d <= 7)%Z -> gen_round 0 d = Ok 0) /\ ((7 < d)%Z -> gen_round x d = Exit)).
Proof.
  repeat split; intros; rewrite ?gen_round_eq in *.
  - apply (round_spec x d); assumption.
  - apply (round_spec x d); assumption.
  - apply (round_spec x d); assumption.
  - apply round_odd.
  - eapply round_idempotent; eassumption.
  - eapply round_monotone; eassumption.
  - apply round_zero; assumption.
  - apply round_exit; assumption.
Qed.

(** Dawson_Integral, the generated term with its static table as state: from ANY table of six entries the value is odd in x, and on
    the whole series branch within (16/945)|x|^9 <= 2e-7 of Dawson's integral; the table keeps its six entries *)
Theorem gen_dawson_clauses (c : list R) (x : R) : length c = 6%nat ->
  snd (gen_dawson c (- x)) = - snd (gen_dawson c x) /\
  length (fst (gen_dawson c x)) = 6%nat /\
  snd (gen_dawson (fst (gen_dawson c x)) x) = snd (gen_dawson c x) /\
  (Rabs x < 1 / 5 -> Rabs (snd (gen_dawson c x) - dawson_def x) <= 16 / 945 * Rabs x ^ 9 /\
                     Rabs (snd (gen_dawson c x) - dawson_def x) <= 2 / 10000000).
Proof.
  intros H. rewrite !gen_dawson_eq.
  assert (L: length (fst (dawson_st ROps c x)) = 6%nat) by (rewrite dawson_st_length; exact H).
  rewrite !(dawson_st_value ROps) by assumption.
  split; [apply dawson_odd|]. split; [exact L|]. split; [reflexivity|].
  intros Hx. split; [apply dawson_series_error; exact Hx|apply dawson_series_accuracy; exact Hx].
Qed.

(** Inv_Erf, the generated term: the guards *)
Theorem gen_inv_erf_guards (p : R) :
  gen_inv_erf 1 = Ok 10 /\ gen_inv_erf (- (1)) = Ok (- (10)) /\
  (1 <= Rabs p -> 1 / 10000000000000000 <= Rabs (p - 1) -> 1 / 10000000000000000 <= Rabs (p + 1) -> gen_inv_erf p = Exit).
Proof.
  rewrite !gen_inv_erf_eq. exact (conj (inv_erf_one FR) (conj (inv_erf_minus_one FR) (inv_erf_guard FR p))).
Qed.
End Gen.

Example gen_dawson_nonvacuous : length (daw_table0 ROps) = 6%nat /\ Rabs (1 / 10) < 1 / 5.
Proof. split; [reflexivity|]. rewrite Rabs_right; lra. Qed.
