(** * C04 model, part 4: the ambient floating-point control state of the process.
    The answers of the Vector / Matrix operations are functions of their operands evaluated with IEEE arithmetic in the
    control state of the calling thread: flush-to-zero, denormals-are-zero, rounding direction.  That state is not a data
    member of any object; every function of the library that runs earlier in the process could write it.  [foreign] lists
    the other facilities of the library the harness calls before a request (`amb` cases of checks/C04.py, [foreign_call] of
    harness/C04.cpp); [foreign_step] is what each of them does to the control state AS THE LIBRARY IS IN /repo NOW: none
    of them writes it (no fesetenv / fesetround / _MM_SET_* / ldmxcsr / fldcw anywhere under src/ and include/).
    ocaml/C04_driver.ml runs [foreign_run] on the calls of an `amb` case and prints [fenv_diff] of the state it ends in
    against the state it started from, next to the request answered twice by the model (after the calls, and alone);
    the harness prints what the process really ends in and the answer of a pristine process. *)
From Coq Require Import List Bool.
Import ListNotations.

Inductive rounding := RNearest | RDownward | RUpward | RTowardZero.
Record fenv := mkFenv { fe_ftz : bool; fe_daz : bool; fe_round : rounding }.
Definition fenv_default : fenv := mkFenv false false RNearest.

(** the other facilities (the call the harness makes next to each) *)
Inductive foreign :=
| FEigenvalues        (* Eigenvalues(M) *)
| FEigensystem        (* Eigensystem(M) *)
| FEigenvectors       (* Eigenvectors(M) *)
| FQR                 (* QR_Decomposition(M) *)
| FDeterminant        (* M.Determinant() *)
| FInverse            (* M.Inverse() *)
| FInvertible         (* M.Invertible(), M.Orthogonal() *)
| FRotation           (* Rotation_Matrix(alpha, dim) *)
| FAngle              (* Angle(u, v) *)
| FSpherical          (* Spherical_Coordinates(r, theta, phi) *)
| FRound              (* Round(M) *)
| FIntegrate          (* Integrate(f, a, b, eps) *)
| FGaussLegendre      (* Integrate_Gauss_Legendre(f, a, b, n) *)
| FFindRoot           (* Find_Root(f, a, b, eps) *)
| FFindMinimum        (* Find_Minimum(f, a, b), Find_Maximum(-f, a, b) *)
| FInterpolation      (* Interpolation I(xs, fs); I(x); I.Derivative(x); I.Integrate(x0, x) *)
| FSpecial            (* Gamma, GammaLn, Erfi, Dawson_Integral, GammaQ, Inv_Erf, Factorial *)
| FStatistics         (* PDF/CDF_Gauss, Quantile_Gauss, CDF_Poisson, PDF_Chi_Square, CDF_Maxwell_Boltzmann, Arithmetic_Mean, Variance, Median *)
| FSample.            (* Sample_Gauss / Sample_Uniform / Sample_Poisson on a std::mt19937 *)

(** the control state after one call, one branch per facility *)
Definition foreign_step (e : fenv) (c : foreign) : fenv :=
  match c with
  | FEigenvalues => e | FEigensystem => e | FEigenvectors => e | FQR => e | FDeterminant => e | FInverse => e
  | FInvertible => e | FRotation => e | FAngle => e | FSpherical => e | FRound => e
  | FIntegrate => e | FGaussLegendre => e | FFindRoot => e | FFindMinimum => e | FInterpolation => e
  | FSpecial => e | FStatistics => e | FSample => e
  end.
Definition foreign_run (e : fenv) (cs : list foreign) : fenv := fold_left foreign_step cs e.

Definition rounding_eqb (a b : rounding) : bool :=
  match a, b with
  | RNearest, RNearest | RDownward, RDownward | RUpward, RUpward | RTowardZero, RTowardZero => true
  | _, _ => false
  end.
(** what the driver prints: 0 = the state is the one the process started with
    (bit 0 flush-to-zero, bit 1 denormals-are-zero, bit 2 rounding direction) *)
Definition fenv_diff (a b : fenv) : nat :=
  (if Bool.eqb (fe_ftz a) (fe_ftz b) then 0 else 1) + (if Bool.eqb (fe_daz a) (fe_daz b) then 0 else 2)
  + (if rounding_eqb (fe_round a) (fe_round b) then 0 else 4).

(** a request answered after the calls [cs], the same request answered alone, and the state the calls leave *)
Definition amb_answer {A : Type} (e0 : fenv) (cs : list foreign) (request : fenv -> A) : A * A * nat :=
  let e := foreign_run e0 cs in (request e, request e0, fenv_diff e e0).
