(** * C20 — second model file (seventh pass): the unit constants in ANY number type.

    C20_Model.v evaluates the initialisers of Natural_Units.cpp over the reals only ([eval]).  Here the same
    expression type is evaluated polymorphically in [NumOps T] — the double instance is extracted and compared,
    constant by constant, with the values the library holds after start-up:

    - [lit_me]: the conversion of a decimal literal num/den to the nearest double (ties to even), as the compiler does;
    - [evalN]: one initialiser, reading the other constants from memory (what a DYNAMIC initialiser does at start-up);
    - [foldN]: one initialiser with the initialisers of the constants it names inlined recursively (what the compiler
      does when it folds a STATIC constant; fuel = inlining depth, a name met again on the way = [Fuel]);
    - [startupN]: zero-initialisation + folded static constants, then the dynamic initialisers in textual order.
    Definitions only. *)
From Coq Require Import String.
From Coq Require Import ZArith Bool List.
From LP Require Import Num C20_Model.
Import ListNotations.
Local Open Scope list_scope.

(** nearest double m * 2^e (2^52 <= m <= 2^53, ties to even) of the positive rational num/den; (0,0) for 0.
    Normal range only (the literals of Natural_Units.cpp lie between 1e-45 and 1e40). *)
Definition lit_scaled (num den e : Z) : Z * Z :=
  if (0 <=? e)%Z then (num, den * 2 ^ e)%Z else (num * 2 ^ (- e), den)%Z.
Definition lit_me (num den : Z) : Z * Z :=
  if (num <=? 0)%Z || (den <=? 0)%Z then (0, 0)%Z
  else
    let e1 := (Z.log2 num - Z.log2 den - 52)%Z in
    let nd1 := lit_scaled num den e1 in
    let e := if (fst nd1 / snd nd1 <? 2 ^ 52)%Z then (e1 - 1)%Z else e1 in
    let nd := lit_scaled num den e in
    let m0 := (fst nd / snd nd)%Z in
    let r := (fst nd mod snd nd)%Z in
    let m := if (snd nd <? 2 * r)%Z then (m0 + 1)%Z
             else if (2 * r =? snd nd)%Z then (m0 + m0 mod 2)%Z else m0 in
    (m, e).

Fixpoint find_def (ds : defs_t) (x : string) : option expr :=
  match ds with
  | [] => None
  | (y, b) :: tl => if String.eqb x y then Some b else find_def tl x
  end.

Section EvalN.
Context {T : Type} (Ops : NumOps T).
Variable pi_c : T.                     (* M_PI *)

(** a (signed) decimal literal of the source *)
Definition litN (num den : Z) : T :=
  if (num <? 0)%Z
  then nneg Ops (nlit Ops (- num) den (fst (lit_me (- num) den)) (snd (lit_me (- num) den)))
  else nlit Ops num den (fst (lit_me num den)) (snd (lit_me num den)).

Definition envN := string -> T.

Fixpoint evalN (e : envN) (x : expr) : T :=
  match x with
  | ELit n d => litN n d
  | EPi => pi_c
  | ERef v => e v
  | EAdd a b => nadd Ops (evalN e a) (evalN e b)
  | ESub a b => nsub Ops (evalN e a) (evalN e b)
  | EMul a b => nmul Ops (evalN e a) (evalN e b)
  | EDiv a b => ndiv Ops (evalN e a) (evalN e b)
  | ENeg a => nneg Ops (evalN e a)
  | EPowZ a k => npowi Ops (evalN e a) k
  | EPowQ a n d => npow Ops (evalN e a) (litN n d)
  | ESqrt a => nsqrt Ops (evalN e a)
  end.

(** compile-time evaluation: the named constants' initialisers are inlined *)
Fixpoint foldN (fuel : nat) (ds : defs_t) (stack : list string) (x : expr) : res T :=
  match fuel with
  | O => Fuel
  | S f =>
      let bin (op : T -> T -> T) a b :=
        rbind (foldN f ds stack a) (fun u => rbind (foldN f ds stack b) (fun w => Ok (op u w))) in
      match x with
      | ELit n d => Ok (litN n d)
      | EPi => Ok pi_c
      | ERef v =>
          if existsb (String.eqb v) stack then Fuel
          else match find_def ds v with
               | None => OOB
               | Some b => foldN f ds (v :: stack) b
               end
      | EAdd a b => bin (nadd Ops) a b
      | ESub a b => bin (nsub Ops) a b
      | EMul a b => bin (nmul Ops) a b
      | EDiv a b => bin (ndiv Ops) a b
      | ENeg a => rbind (foldN f ds stack a) (fun u => Ok (nneg Ops u))
      | EPowZ a k => rbind (foldN f ds stack a) (fun u => Ok (npowi Ops u k))
      | EPowQ a n d => rbind (foldN f ds stack a) (fun u => Ok (npow Ops u (litN n d)))
      | ESqrt a => rbind (foldN f ds stack a) (fun u => Ok (nsqrt Ops u))
      end
  end.

(** inlining depth allowed: more than any chain of the 114 constants needs (each step consumes one unit) *)
Definition fold_fuel : nat := 400.
Definition fold_const (ds : defs_t) (x : string) : res T := foldN fold_fuel ds [] (ERef x).

Definition updN (e : envN) (x : string) (v : T) : envN := fun y => if String.eqb y x then v else e y.

(** start-up, given the values [den] the compiler folded the static constants to *)
Definition phase1N (st : string -> bool) (den : envN) : envN := fun x => if st x then den x else n0 Ops.
Fixpoint phase2N (st : string -> bool) (ds : defs_t) (e : envN) : envN :=
  match ds with
  | [] => e
  | (x, b) :: tl => phase2N st tl (if st x then e else updN e x (evalN e b))
  end.
Definition startupN (st : string -> bool) (ds : defs_t) (den : envN) : envN := phase2N st ds (phase1N st den).

(** ... with the folded values computed by [fold_const] (0 stands for a fold that does not terminate; the
    driver prints [fold_const] itself as well, so that case is visible) *)
Definition folded (ds : defs_t) : envN :=
  fun x => match fold_const ds x with Ok v => v | _ => n0 Ops end.
Definition startup_const (dyn : list string) (ds : defs_t) (x : string) : T :=
  startupN (static_except dyn) ds (folded ds) x.
End EvalN.
