(** * C16 proofs, fifth part: Angle(v1, v2) for vectors of every dimension (induction over the component lists:
    the Cauchy-Schwarz inequality for the library's Dot), and the angle by which a rotation turns a vector, measured
    with the library's own Angle. *)
From Coq Require Import Reals ZArith List Lra Lia Psatz Nsatz Bool.
From LP Require Import Num NumR C16_Model C16_Proofs C16_Proofs_Hist C16_Proofs_Chain.
Import ListNotations.
Local Open Scope R_scope.

(** the scalar product of two component lists (the shorter one decides), as a plain recursion *)
Fixpoint ldot (a b : list R) : R :=
  match a, b with x :: a', y :: b' => x * y + ldot a' b' | _, _ => 0 end.

Lemma vdot_fold (a b : list R) : forall acc,
  fold_left (fun acc p => nadd ROps acc (nmul ROps (fst p) (snd p))) (combine a b) acc = acc + ldot a b.
Proof.
  revert b. induction a as [| x a IH]; intros [| y b] acc; cbn [combine fold_left ldot]; try ring.
  rewrite IH. cbn. ring.
Qed.
(** Vector::Dot (result = 0; result += components[i] * rhs[i]) is the scalar product *)
Lemma vdot_ldot (a b : list R) : vdot ROps a b = ldot a b.
Proof. unfold vdot. rewrite vdot_fold. cbn. ring. Qed.
Lemma ldot_comm a : forall b, ldot a b = ldot b a.
Proof. induction a as [| x a IH]; intros [| y b]; cbn; try reflexivity. rewrite IH. ring. Qed.
Lemma ldot_self_nonneg a : 0 <= ldot a a.
Proof. induction a as [| x a IH]; cbn; [lra | nra]. Qed.
Definition nonzero_vec (a : list R) : Prop := Exists (fun x => x <> 0) a.
Lemma ldot_self_pos a : nonzero_vec a -> 0 < ldot a a.
Proof.
  induction 1 as [x a Hx | x a _ IH]; cbn; pose proof (ldot_self_nonneg a).
  - assert (0 < x * x) by nra. lra.
  - nra.
Qed.

Lemma cs_step x y d A B : 0 <= A -> 0 <= B -> d * d <= A * B -> 2 * (x * y * d) <= x * x * B + y * y * A.
Proof.
  intros HA HB Hd. set (u := 2 * (x * y * d)). set (v := x * x * B + y * y * A).
  assert (0 <= v) as Hv by (unfold v; nra).
  assert (0 <= x * x * (y * y)) as Hxy by (apply Rmult_le_pos; nra).
  assert (x * x * (y * y) * (d * d) <= x * x * (y * y) * (A * B)) as H1.
  { apply Rmult_le_compat_l; assumption. }
  assert (u * u <= v * v) as H2.
  { unfold u, v. pose proof (Rle_0_sqr (x * x * B - y * y * A)) as Q. unfold Rsqr in Q.
    replace (2 * (x * y * d) * (2 * (x * y * d))) with (4 * (x * x * (y * y) * (d * d))) by ring.
    replace ((x * x * B + y * y * A) * (x * x * B + y * y * A))
      with ((x * x * B - y * y * A) * (x * x * B - y * y * A) + 4 * (x * x * (y * y) * (A * B))) by ring. lra. }
  destruct (Rle_dec u v) as [L | N]; [exact L | exfalso]. assert (v < u) by lra. nra.
Qed.
(** Cauchy-Schwarz, for lists of every length *)
Lemma cauchy_schwarz a : forall b, ldot a b * ldot a b <= ldot a a * ldot b b.
Proof.
  induction a as [| x a IH]; intros [| y b]; cbn [ldot]; try (pose proof (ldot_self_nonneg (x :: a)); cbn [ldot] in *; nra); try lra.
  pose proof (IH b) as Hd. pose proof (ldot_self_nonneg a) as HA. pose proof (ldot_self_nonneg b) as HB.
  pose proof (cs_step x y (ldot a b) (ldot a a) (ldot b b) HA HB Hd). nra.
Qed.

Lemma clamp_id c : -1 <= c <= 1 -> nmax ROps (nmin ROps c 1) (- (1)) = c.
Proof. intros Hc. unfold nmax, nmin. cbn [nltb ROps]. destruct (Rltb_spec 1 c); [lra|]. destruct (Rltb_spec c (- (1))); lra. Qed.

Lemma vnorm_pos a : nonzero_vec a -> 0 < vnorm ROps a.
Proof. intros H. unfold vnorm. cbn [nsqrt ROps]. rewrite vdot_ldot. apply sqrt_lt_R0, ldot_self_pos, H. Qed.
Lemma vnorm_sq a : vnorm ROps a * vnorm ROps a = ldot a a.
Proof. unfold vnorm. cbn [nsqrt ROps]. rewrite vdot_ldot. apply sqrt_sqrt, ldot_self_nonneg. Qed.

(** Angle for two non-zero vectors of one dimension, whatever the dimension: the call returns an angle in [0, pi] whose cosine is
    v1.v2 / (|v1| |v2|) - the clamp to [-1, 1] in the source never changes the quotient over the reals -, and it is symmetric *)
Lemma angle_general a b : length a = length b -> nonzero_vec a -> nonzero_vec b ->
  exists th, angle ROps a b = Ok th /\ angle ROps b a = Ok th /\ 0 <= th <= PI /\
    vdot ROps a b = vnorm ROps a * vnorm ROps b * cos th /\
    th = acos (vdot ROps a b / (vnorm ROps a * vnorm ROps b)).
Proof.
  intros HL Ha Hb. pose proof (vnorm_pos a Ha) as Pa. pose proof (vnorm_pos b Hb) as Pb.
  pose proof (vnorm_sq a) as Sa. pose proof (vnorm_sq b) as Sb. pose proof (cauchy_schwarz a b) as CS.
  set (na := vnorm ROps a) in *. set (nb := vnorm ROps b) in *.
  set (m := na * nb). assert (0 < m) as Pm by (unfold m; nra).
  assert (ldot a b * ldot a b <= m * m) as CS' by (unfold m; nra).
  assert (- m <= ldot a b <= m) as Bd by (split; nra).
  set (q := ldot a b / m). assert (q * m = ldot a b) as Eq by (unfold q; field; lra).
  assert (-1 <= q <= 1) as Hq by (split; nra).
  exists (acos q). unfold angle, dot. rewrite <- HL, Nat.eqb_refl. cbn [rbind nacos ndiv nmul nneg n1 ROps].
  rewrite (vdot_ldot b a), (ldot_comm b a), (vdot_ldot a b). fold na nb. fold m. replace (nb * na) with m by (unfold m; ring). fold q.
  rewrite (clamp_id q Hq). repeat split; try reflexivity.
  - apply (acos_bound q).
  - apply (acos_bound q).
  - rewrite cos_acos by exact Hq. unfold m in Eq. unfold m. rewrite <- Eq. ring.
Qed.

(** Angle(v, v) = 0 and Angle(v, -v) = pi in every dimension *)
Lemma ldot_neg_r a : forall b, ldot a (map Ropp b) = - ldot a b.
Proof. induction a as [| x a IH]; intros [| y b]; cbn; try ring. rewrite IH. ring. Qed.
Lemma nonzero_vec_neg a : nonzero_vec a -> nonzero_vec (map Ropp a).
Proof. induction 1 as [x a Hx | x a _ IH]; cbn; [left; lra | right; exact IH]. Qed.
Lemma angle_self a : nonzero_vec a -> angle ROps a a = Ok 0 /\ angle ROps a (map Ropp a) = Ok PI.
Proof.
  intros Ha. pose proof (vnorm_pos a Ha) as Pa. pose proof (vnorm_sq a) as Sa. split.
  - destruct (angle_general a a eq_refl Ha Ha) as (th & E & _ & _ & _ & ->). rewrite E. f_equal.
    rewrite vdot_ldot, <- Sa. replace (vnorm ROps a * vnorm ROps a / (vnorm ROps a * vnorm ROps a)) with 1 by (field; lra). apply acos_1.
  - assert (length a = length (map Ropp a)) as HL by (rewrite map_length; reflexivity).
    destruct (angle_general a (map Ropp a) HL Ha (nonzero_vec_neg a Ha)) as (th & E & _ & _ & _ & ->). rewrite E. f_equal.
    assert (vnorm ROps (map Ropp a) = vnorm ROps a) as ->.
    { unfold vnorm. cbn [nsqrt ROps]. rewrite !vdot_ldot, ldot_neg_r, (ldot_comm (map Ropp a) a), ldot_neg_r. f_equal. ring. }
    rewrite vdot_ldot, ldot_neg_r, <- Sa.
    replace (- (vnorm ROps a * vnorm ROps a) / (vnorm ROps a * vnorm ROps a)) with (- (1)) by (field; lra). rewrite acos_opp, acos_1. ring.
Qed.

(** ** "turns vectors perpendicular to it by alpha": the library's own Angle between v and R v is |alpha| for alpha in [-pi, pi] *)
Lemma acos_cos_abs alpha : - PI <= alpha <= PI -> acos (cos alpha) = Rabs alpha.
Proof.
  intros H. unfold Rabs. destruct (Rcase_abs alpha) as [N | P].
  - rewrite <- cos_neg. apply acos_cos. lra.
  - apply acos_cos. lra.
Qed.
Lemma rod_turn c s n1 n2 n3 v0 v1 v2 : c * c + s * s = 1 -> n1 * n1 + n2 * n2 + n3 * n3 = 1 -> n1 * v0 + n2 * v1 + n3 * v2 = 0 ->
  let w := mvec ROps (rodrigues c s n1 n2 n3) [v0; v1; v2] in
  dot3 [v0; v1; v2] w = c * dot3 [v0; v1; v2] [v0; v1; v2] /\ dot3 w w = dot3 [v0; v1; v2] [v0; v1; v2].
Proof. intros cs nn nv. unfold rodrigues, mvec, vdot, dot3, cx, cy, cz. cbn. split; nsatz. Qed.

Lemma rot3_turn_angle alpha a0 a1 a2 Rm v0 v1 v2 : nonzero3 a0 a1 a2 -> rotation_matrix ROps alpha 3 [a0; a1; a2] = Ok Rm ->
  dot3 [a0; a1; a2] [v0; v1; v2] = 0 -> nonzero3 v0 v1 v2 -> - PI <= alpha <= PI ->
  angle ROps [v0; v1; v2] (mvec ROps Rm [v0; v1; v2]) = Ok (Rabs alpha) /\
  angle ROps (mvec ROps Rm [v0; v1; v2]) [v0; v1; v2] = Ok (Rabs alpha).
Proof.
  intros Hnz E Hp Hv Ha. pose proof (dot_axis_n a0 a1 a2 Hnz [v0; v1; v2] Hp) as Hn.
  pose proof (nhat_unit a0 a1 a2 Hnz) as U. rewrite rotation3_eq in E. injection E as <-.
  set (n := nhat [a0; a1; a2]) in *. unfold dot3 in U, Hn. change (cx [v0; v1; v2]) with v0 in Hn.
  change (cy [v0; v1; v2]) with v1 in Hn. change (cz [v0; v1; v2]) with v2 in Hn.
  destruct (rod_turn (cos alpha) (sin alpha) (cx n) (cy n) (cz n) v0 v1 v2 (cs1 alpha) U Hn) as [D1 D2].
  pose proof (nonzero3_pos v0 v1 v2 Hv) as PV.
  assert (dot3 [v0; v1; v2] [v0; v1; v2] = v0 * v0 + v1 * v1 + v2 * v2) as EV by reflexivity.
  set (V := dot3 [v0; v1; v2] [v0; v1; v2]) in *. assert (0 < sqrt V) as SP by (apply sqrt_lt_R0; lra).
  assert (sqrt V * sqrt V = V) as SS by (apply sqrt_sqrt; lra).
  assert (exists w0 w1 w2, mvec ROps (rodrigues (cos alpha) (sin alpha) (cx n) (cy n) (cz n)) [v0; v1; v2] = [w0; w1; w2]) as (w0 & w1 & w2 & EW).
  { unfold rodrigues, mvec. cbn [map]. repeat eexists. }
  rewrite EW in *.
  unfold angle, dot. cbn [length Nat.eqb rbind nacos ndiv nmul nneg n1 ROps]. unfold vnorm. cbn [nsqrt ROps].
  rewrite !vdot_dot3. rewrite (dot3_comm [w0; w1; w2] [v0; v1; v2]), D1, D2. fold V.
  replace (cos alpha * V / (sqrt V * sqrt V)) with (cos alpha) by (rewrite SS; field; lra).
  rewrite clamp_id by (pose proof (COS_bound alpha); lra). rewrite acos_cos_abs by exact Ha. split; reflexivity.
Qed.

(** non-vacuity *)
Example ex_angle_general : length [1; 2; 3; 4; 5] = length [0; 0; 0; 0; -2] /\ nonzero_vec [1; 2; 3; 4; 5] /\ nonzero_vec [0; 0; 0; 0; -2].
Proof. split; [reflexivity|]. split; [left; lra|]. do 4 right. left. lra. Qed.
Example ex_turn : nonzero3 0 0 2 /\ dot3 [0; 0; 2] [1; 1; 0] = 0 /\ nonzero3 1 1 0 /\ - PI <= -3 <= PI.
Proof.
  split; [right; right; lra|]. split; [unfold dot3, cx, cy, cz; cbn; ring|]. split; [left; lra|].
  pose proof PI2_3_2 as H3. unfold PI2 in H3. split; lra.
Qed.
