(** * C05 proofs: the model of Determinant / Invertible / Inverse over an arbitrary field.
    [F] is any MathComp [fieldType]; the model's operations are instantiated with the field operations,
    fabs / sqrt / < / <= stay arbitrary functions (so the soundness theorem holds for every pivoting rule). *)
From mathcomp Require Import all_ssreflect all_fingroup all_algebra.
From Coq Require List ZArith.
From LP Require Import Num C04_Model C05_Model C04_Proofs_Struct C04_Proofs_Laws.
Set Implicit Arguments. Unset Strict Implicit. Unset Printing Implicit Defensive.
Arguments tab : simpl never.
Arguments tab2 : simpl never.
Import GRing.Theory.
Local Open Scope ring_scope.

Section Field.
Variable F : fieldType.
Variables (absF sqrtF : F -> F) (ltF leF : F -> F -> bool).
Definition FOps : NumOps F := @ROps F (fun x y => x / y) absF sqrtF ltF leF.
Local Notation ment := (ment FOps).
Local Notation mx := (@mx_of F (fun x y => x / y) absF sqrtF ltF leF).

(** ** Determinant *)
Lemma evenE j : Nat.even j = ~~ odd j.
Proof.
  have [] : Nat.even j = ~~ odd j /\ Nat.even j.+1 = odd j; last by [].
  elim: j => [|j [H1 H2]] //; split; first by rewrite H2 /= negbK.
  by rewrite -[LHS]/(Nat.even j) H1.
Qed.
Lemma lap_signE j : lap_sign FOps j = (-1) ^+ j.
Proof. by rewrite /lap_sign evenE -signr_odd; case: (odd j); rewrite ?expr1 ?expr0. Qed.

(** a loop  acc += t j  in the [res] monad whose steps all succeed *)
Lemma foldl_res (step : res F -> nat -> res F) (t : nat -> F) n :
  (forall a j, (j < n)%N -> step (Ok a) j = Ok (a + t j)) ->
  foldl step (Ok 0) (iota 0 n) = Ok (\sum_(0 <= j < n) t j).
Proof.
  elim: n => [|n IH] H; first by rewrite big_geq.
  rewrite big_nat_recr // -addn1 iotaD foldl_cat IH /=; last by move=> a j Hj; apply: H; apply: ltnW.
  by rewrite add0n H // addn1.
Qed.

Lemma det2 (A : 'M[F]_2) : \det A = A 0 0 * A 1 1 - A 0 1 * A 1 0.
Proof.
  rewrite (expand_det_row _ ord0) !big_ord_recl big_ord0 /cofactor !det_mx11 !mxE /= addr0.
  have L (a : 'I_1) : lift (ord0 : 'I_2) a = 1 by apply: val_inj; rewrite /= [a]ord1.
  have L2 (a : 'I_1) : lift (1 : 'I_2) a = 0 by apply: val_inj; rewrite /= [a]ord1.
  rewrite !L !L2.
  by rewrite /= expr0 mul1r expr1 mulN1r mulrN.
Qed.

Lemma det_fuelS fuel (M : mat F) :
  det_fuel FOps fuel.+1 M =
  if ~~ square M then Exit
  else if (mrows M == 1)%N then Ok (ment M 0 0)
  else if (mrows M == 2)%N then Ok (ment M 0 0 * ment M 1 1 - ment M 0 1 * ment M 1 0)
  else foldl (fun acc j => rbind acc (fun a => rbind (sub_matrix M 0 j) (fun sm =>
                rbind (det_fuel FOps fuel sm) (fun d => Ok (a + (lap_sign FOps j * ment M 0 j) * d)))))
             (Ok 0) (iota 0 (mcols M)).
Proof. by rewrite /= !eqbE foldE seqE. Qed.

Lemma det_fuel_is_det n fuel (M : mat F) : wf_mat M -> mrows M = n.+1 -> mcols M = n.+1 -> (n < fuel)%N ->
  det_fuel FOps fuel M = Ok (\det (mx n.+1 n.+1 M)).
Proof.
  elim: fuel n M => [|fuel IH] n M // HM Hr Hc Hf.
  rewrite det_fuelS squareE Hr Hc eqxx [~~ true]/=.
  case: n Hr Hc Hf => [|[|n]] Hr Hc Hf.
  - by rewrite /= det_mx11 mxE.
  - by rewrite /= det2 !mxE.
  - rewrite (_ : (n.+3 == 1)%N = false) // (_ : (n.+3 == 2)%N = false) //.
    rewrite (@foldl_res _ (fun j => ((-1) ^+ j * ment M 0 j) * \det (mx n.+2 n.+2
                (mk_mat n.+2 n.+2 (fun a b => ment M (skip 0 a) (skip j b)))))); last first.
      move=> a j Hj; rewrite (sub_matrix_spec FOps) ?Hr ?Hc //= Hj /=.
      by rewrite (IH n.+1) ?wf_mk //= lap_signE.
    congr Ok; rewrite (expand_det_row _ ord0) big_mkord; apply: eq_bigr => j _.
    rewrite /cofactor !mxE add0n [_ * ment M _ _]mulrC -mulrA; congr (_ * (_ * \det _)).
    apply/matrixP => a b; rewrite !mxE ment_mk //=; congr (ment M _ _); rewrite /skip /bump //=.
    by case: (ltnP b j) => H; rewrite ?(leqNgt j b) ?H ?add0n ?add1n //= leqNgt ltnS H.
Qed.

(** Determinant() of every square matrix of size n >= 1 is the determinant *)
Theorem det_is_det n (M : mat F) : wf_mat M -> mrows M = n.+1 -> mcols M = n.+1 ->
  determinant FOps M = Ok (\det (mx n.+1 n.+1 M)).
Proof. by move=> HM Hr Hc; rewrite /determinant (@det_fuel_is_det n) // Hr. Qed.
Theorem det_nonsquare (M : mat F) : mrows M <> mcols M -> determinant FOps M = Exit.
Proof. by move=> /eqP H; rewrite /determinant /= squareE (negbTE H). Qed.

(** ** Corollaries of det_is_det (MathComp's determinant theory) *)
Theorem det_multiplicative n (A B C : mat F) dA dB :
  wf_mat A -> mrows A = n.+1 -> mcols A = n.+1 -> wf_mat B -> mrows B = n.+1 -> mcols B = n.+1 ->
  determinant FOps A = Ok dA -> determinant FOps B = Ok dB -> m_product FOps A B = Ok C ->
  determinant FOps C = Ok (dA * dB).
Proof.
  move=> HA Ar Ac HB Br Bc; rewrite (det_is_det HA Ar Ac) (det_is_det HB Br Bc) => -[<-] [<-] HC.
  have E := mx_of_product Ar Ac Br Bc HC.
  have [H1 [H2 H3]] : wf_mat C /\ mrows C = n.+1 /\ mcols C = n.+1.
    by move: HC; rewrite m_product_spec Ac Br eqxx => -[<-]; rewrite wf_mk /= Ar Bc.
  by rewrite (det_is_det H1 H2 H3) E det_mulmx.
Qed.
Theorem det_transpose n (A At : mat F) dA :
  wf_mat A -> mrows A = n.+1 -> mcols A = n.+1 -> determinant FOps A = Ok dA ->
  transpose FOps A = Ok At -> determinant FOps At = Ok dA.
Proof.
  move=> HA Ar Ac; rewrite (det_is_det HA Ar Ac) => -[<-] Ht.
  have E : mx n.+1 n.+1 At = (mx n.+1 n.+1 A)^T.
    by have := @mx_of_transpose _ _ _ _ _ _ A At _ Ht; rewrite Ac Ar; apply.
  have [H1 [H2 H3]] : wf_mat At /\ mrows At = n.+1 /\ mcols At = n.+1.
    by move: Ht; rewrite transpose_spec ?Ac // => -[<-]; rewrite wf_mk /= Ar Ac.
  by rewrite (det_is_det H1 H2 H3) E det_tr.
Qed.
(** exchanging two different rows changes the sign *)
Theorem det_row_swap n (M M' : mat F) (i j : 'I_n.+1) d :
  wf_mat M -> mrows M = n.+1 -> mcols M = n.+1 -> wf_mat M' -> mrows M' = n.+1 -> mcols M' = n.+1 ->
  i != j -> (forall (a b : 'I_n.+1), ment M' a b = ment M (tperm i j a) b) ->
  determinant FOps M = Ok d -> determinant FOps M' = Ok (- d).
Proof.
  move=> HM Mr Mc HM' Mr' Mc' Hij Hsw; rewrite (det_is_det HM Mr Mc) (det_is_det HM' Mr' Mc') => -[<-].
  have -> : mx n.+1 n.+1 M' = row_perm (tperm i j) (mx n.+1 n.+1 M).
    by apply/matrixP => a b; rewrite !mxE Hsw.
  by rewrite row_permE det_mulmx det_perm odd_tperm Hij expr1 mulN1r.
Qed.
(** triangular matrices: the product of the diagonal *)
Theorem det_triangular n (M : mat F) : wf_mat M -> mrows M = n.+1 -> mcols M = n.+1 ->
  (forall i j, (i < j < n.+1)%N -> ment M i j = 0) \/ (forall i j, (j < i < n.+1)%N -> ment M i j = 0) ->
  determinant FOps M = Ok (\prod_(0 <= i < n.+1) ment M i i).
Proof.
  move=> HM Mr Mc H; rewrite (det_is_det HM Mr Mc); congr Ok.
  have P (A : 'M[F]_n.+1) : (forall i, A i i = ment M i i) -> \prod_i A i i = \prod_(0 <= i < n.+1) ment M i i.
    by move=> HA; rewrite big_mkord; apply: eq_bigr => i _.
  case: H => H.
  - rewrite det_trig; first by apply: P => i; rewrite mxE.
    by apply/is_trig_mxP => i k Hik; rewrite mxE H // Hik ltn_ord.
  - rewrite -det_tr det_trig; first by apply: (P (mx n.+1 n.+1 M)^T) => i; rewrite !mxE.
    by apply/is_trig_mxP => i k Hik; rewrite !mxE H // Hik ltn_ord.
Qed.

(** ** Invertible() is true exactly when the determinant is non-zero *)
Theorem invertible_iff n (M : mat F) : wf_mat M -> mrows M = n.+1 -> mcols M = n.+1 ->
  invertible FOps M = Ok (\det (mx n.+1 n.+1 M) != 0) /\
  invertible FOps M = Ok (mx n.+1 n.+1 M \in unitmx).
Proof.
  move=> HM Mr Mc; rewrite /invertible squareE Mr Mc eqxx /= (det_is_det HM Mr Mc) /=.
  by rewrite unitmxE unitfE.
Qed.
Theorem invertible_nonsquare (M : mat F) : mrows M <> mcols M -> invertible FOps M = Ok false.
Proof. by move=> /eqP H; rewrite /invertible squareE (negbTE H). Qed.

(** ** Inverse: Gauss-Jordan with row exchanges.
    Invariant of the work array A = (L | R): every row satisfies  R_i * M = L_i  ("right block times M
    equals left block"): true for (M | 1), preserved by row exchanges and by adding multiples of one row
    to another.  Together with "the columns already treated are cleared off the diagonal and have a
    non-zero diagonal entry" it gives X * M = 1 for the returned X = (R_i / L_ii). *)
Local Notation tent := (tent FOps).
Lemma tent_tab2 r c (f : nat -> nat -> F) i j : (i < r)%N -> (j < c)%N -> tent (tab2 r c f) i j = f i j.
Proof. by move=> Hi Hj; rewrite /C04_Model.tent !nthE /tab2 nth_tab // nth_tab. Qed.

Lemma foldl_choice (b : nat -> nat -> bool) p0 l : foldl (fun p j => if b p j then j else p) p0 l \in p0 :: l.
Proof.
  elim: l p0 => [|j l IH] p0 /=; first by rewrite inE.
  by have := IH (if b p0 j then j else p0); rewrite !inE; case: (b p0 j) => /orP [->|->]; rewrite ?orbT.
Qed.

Section GJ.
Variable n : nat.
Variable M : mat F.
Hypothesis Mr : mrows M = n.
Let m c k := ment M c k.
Let lt2 k : (k < n)%N -> (k < 2 * n)%N. Proof. by move=> H; rewrite mul2n -addnn ltn_addr. Qed.
Let lt2r c : (c < n)%N -> (n + c < 2 * n)%N. Proof. by move=> H; rewrite mul2n -addnn ltn_add2l. Qed.

Definition RowInv (A : seq (seq F)) := forall i k, (i < n)%N -> (k < n)%N ->
  \sum_(0 <= c < n) tent A i (n + c) * m c k = tent A i k.
Definition Cleared (p : nat) (A : seq (seq F)) := forall c j, (c < p)%N -> (j < n)%N -> j != c -> tent A j c = 0.
Definition DiagNZ (p : nat) (A : seq (seq F)) := forall c, (c < p)%N -> tent A c c != 0.
Definition J p A := [/\ RowInv A, Cleared p A & DiagNZ p A].

Lemma tent_augment i k : (i < n)%N -> (k < 2 * n)%N ->
  tent (augment FOps M) i k = if (k < n)%N then ment M i k else if i == (k - n)%N then 1 else 0.
Proof. by move=> Hi Hk; rewrite /augment Mr ?natE tent_tab2 // ?natE. Qed.
Lemma tent_swap A i p j k : (j < n)%N -> (k < 2 * n)%N ->
  tent (swap_rows FOps n A i p) j k = tent A (if j == i then p else if j == p then i else j) k.
Proof. by move=> Hj Hk; rewrite /swap_rows ?natE tent_tab2 // ?natE. Qed.
Lemma tent_elim A i j k : (j < n)%N -> (k < 2 * n)%N ->
  tent (eliminate FOps n A i) j k =
  if j == i then tent A i k else tent A j k - (tent A j i / tent A i i) * tent A i k.
Proof. by move=> Hj Hk; rewrite /eliminate ?natE tent_tab2 // ?natE. Qed.

Lemma J_augment : J 0 (augment FOps M).
Proof.
  split=> // i k Hi Hk; rewrite tent_augment ?Hk ?lt2 //.
  rewrite (@eq_big_nat _ _ _ 0 n _ (fun c => if c == i then m c k else 0)).
    rewrite big_mkord (bigD1 (Ordinal Hi)) //= eqxx big1 ?addr0 // => c Hc.
    by rewrite -[(c : nat) == i]/(c == Ordinal Hi) (negbTE Hc).
  move=> c /andP [_ Hc]; rewrite tent_augment ?lt2r // ltnNge leq_addr /= addKn eq_sym.
  by case: eqP => _; rewrite ?mul1r ?mul0r.
Qed.

Lemma pivot_range A i : (i < n)%N -> (i <= pivot_row FOps n A i < n)%N.
Proof.
  move=> Hi; rewrite /pivot_row foldE seqE ?natE.
  have := foldl_choice (fun p j => nltb FOps (nabs FOps (tent A p i)) (nabs FOps (tent A j i))) i (iota i.+1 (n - i.+1)).
  rewrite inE mem_iota => /orP [/eqP ->|/andP [H1 H2]]; first by rewrite leqnn.
  by rewrite (ltnW H1) /=; move: H2; rewrite subnKC.
Qed.

Lemma gj_step_J A A' i : (i < n)%N -> J i A -> gj_step FOps n A i = Ok A' -> J i.+1 A'.
Proof.
  move=> Hi [HR HC HD]; rewrite /gj_step.
  set p := pivot_row _ _ _ _; have /andP [Hip Hpn] : (i <= p < n)%N by apply: pivot_range.
  set A1 := if _ then _ else A.
  pose s j := if j == i then p else if j == p then i else j.
  have Hs j : (j < n)%N -> (s j < n)%N by rewrite /s; case: eqP => // _; case: eqP.
  have E1 j k : (j < n)%N -> (k < 2 * n)%N -> tent A1 j k = tent A (s j) k.
    move=> Hj Hk; rewrite /A1 /s ?natE; case: (altP (p =P i)) => [Epi|_] /=; last by rewrite tent_swap.
    by rewrite Epi; case: eqP => [->|].
  have R1 : RowInv A1.
    move=> j k Hj Hk; rewrite E1 ?lt2 // -HR ?Hs //.
    by apply: eq_big_nat => c /andP [_ Hc]; rewrite E1 ?lt2r.
  have C1 : Cleared i A1.
    move=> c j Hc Hj Hjc; rewrite E1 ?lt2 ?(ltn_trans Hc) //; apply: HC; rewrite ?Hs // /s.
    case: (altP (j =P i)) => _; first by rewrite gtn_eqF // (leq_trans Hc).
    by case: (altP (j =P p)) => _ //; rewrite gtn_eqF.
  have D1 c : (c < i)%N -> tent A1 c c = tent A c c.
    move=> Hc; rewrite E1 ?lt2 ?(ltn_trans Hc) // /s ltn_eqF //.
    by rewrite ltn_eqF // (leq_trans Hc).
  rewrite /= -/(tent A1 i i); case: (altP (tent A1 i i =P 0)) => // Hp [<-] {A'}.
  set A2 := eliminate _ _ _ _.
  have E2 j k : (j < n)%N -> (k < 2 * n)%N -> tent A2 j k =
      if j == i then tent A1 i k else tent A1 j k - (tent A1 j i / tent A1 i i) * tent A1 i k.
    by move=> Hj Hk; rewrite tent_elim.
  split.
  - move=> j k Hj Hk; rewrite E2 ?lt2 //.
    rewrite (@eq_big_nat _ _ _ 0 n _ (fun c => (if j == i then tent A1 i (n + c)
              else tent A1 j (n + c) - (tent A1 j i / tent A1 i i) * tent A1 i (n + c)) * m c k)); last first.
      by move=> c /andP [_ Hc]; rewrite E2 ?lt2r.
    case: ifP => _; first exact: R1.
    rewrite (eq_bigr (fun c => tent A1 j (n + c) * m c k - (tent A1 j i / tent A1 i i) * (tent A1 i (n + c) * m c k))); last first.
      by move=> c _; rewrite mulrBl mulrA.
    by rewrite sumrB -mulr_sumr !R1.
  - move=> c j; rewrite ltnS leq_eqVlt => /orP [/eqP ->|Hc] Hj Hjc.
    + by rewrite E2 ?lt2 // (negbTE Hjc) divfK // subrr.
    + have Hcn : (c < n)%N by apply: ltn_trans Hc Hi.
      rewrite E2 ?lt2 //; case: (altP (j =P i)) => [Eji|_].
        by apply: C1 => //; rewrite gtn_eqF.
      by rewrite (C1 c j) // (C1 c i) ?mulr0 ?subr0 // gtn_eqF.
  - move=> c; rewrite ltnS leq_eqVlt => /orP [/eqP ->|Hc].
    + by rewrite E2 ?lt2 // eqxx.
    + have Hcn : (c < n)%N by apply: ltn_trans Hc Hi.
      rewrite E2 ?lt2 // ltn_eqF // (C1 c i) ?mulr0 ?subr0 ?D1 ?HD // gtn_eqF //.
Qed.

Lemma gauss_jordan_J A0 A : J 0 A0 -> gauss_jordan FOps n A0 = Ok A -> J n A.
Proof.
  move=> H0; rewrite /gauss_jordan foldE seqE.
  have G k : (k <= n)%N -> forall A', foldl (fun acc i => rbind acc (fun A => gj_step FOps n A i)) (Ok A0) (iota 0 k) = Ok A' -> J k A'.
    elim: k => [|k IH] Hk A'; first by move=> /= [<-].
    rewrite -addn1 iotaD foldl_cat /= add0n.
    case E: (foldl _ _ _) => [A''|||] //= Hst.
    by rewrite addn1; apply: (gj_step_J Hk _ Hst); apply: IH => //; apply: ltnW.
  exact: G.
Qed.

Lemma finish_left_inverse A : J n A -> mx n n (finish FOps n A) *m mx n n M = 1%:M.
Proof.
  move=> [HR HC HD]; apply/matrixP => i k; rewrite !mxE.
  rewrite (eq_bigr (fun c : 'I_n => (tent A i i)^-1 * (tent A i (n + c) * m c k))); last first.
    by move=> c _; rewrite !mxE /finish ment_mk //= mulrA [_^-1 * _]mulrC.
  rewrite -mulr_sumr -(big_mkord xpredT (fun c => tent A i (n + c) * m c k)) HR //.
  case: (altP (i =P k)) => [<-|Hik]; first by rewrite mulVf ?HD.
  by rewrite (HC k i) ?mulr0 // -val_eqE.
Qed.
End GJ.

(** whenever Inverse() returns X, X is the two-sided inverse *)
Theorem inverse_sound (M X : mat F) : inverse FOps M = Ok X ->
  let n := mrows M in
  [/\ mcols M = n, wf_mat X, mrows X = n & mcols X = n] /\
  (mx n n X *m mx n n M = 1%:M /\ mx n n M *m mx n n X = 1%:M).
Proof.
  rewrite /inverse squareE; case: eqP => //= Hsq.
  case: (invertible FOps M) => //= -[] //=.
  case E: (gauss_jordan _ _ _) => [A|||] //= -[<-].
  have HJ := gauss_jordan_J (J_augment (erefl (mrows M))) E.
  have L := finish_left_inverse HJ.
  by split; [split=> //; rewrite /finish wf_mk | split=> //; apply: mulmx1C].
Qed.
(** a singular or non-square matrix terminates with a diagnostic *)
Theorem inverse_exits (M : mat F) :
  (mrows M <> mcols M -> inverse FOps M = Exit) /\
  (forall n, wf_mat M -> mrows M = n.+1 -> mcols M = n.+1 -> \det (mx n.+1 n.+1 M) = 0 -> inverse FOps M = Exit).
Proof.
  split=> [/eqP H|n HM Mr Mc Hd]; first by rewrite /inverse squareE (negbTE H).
  by rewrite /inverse squareE Mr Mc eqxx /= (proj1 (invertible_iff HM Mr Mc)) Hd eqxx.
Qed.
End Field.
