(** C03 seventh pass: theorems about C03_Model2.v (diagnostics of Integrate, method guard, Integrate_2D / Integrate_3D). *)
From Coq Require Import Reals ZArith List Lra Lia Bool Arith FunctionalExtensionality.
From Coquelicot Require Import Coquelicot.
From LP Require Import Num NumR C03_Model C03_Model2 C03_Proofs C03_Proofs_Seq C03_Proofs_Bound.
Import ListNotations.

(** ** every arithmetic *)
Section Any.
Context {T : Type} (Ops : NumOps T).

(** the report is the modelled call plus the notices: value, warning and abscissae are those of [integrate] *)
Theorem report_agrees (f : T -> T) a b eps depth : fst (integrate_report Ops f a b eps depth) = integrate Ops f a b eps depth.
Proof.
  unfold integrate_report, integrate, check_limits.
  destruct (neqb Ops a b); [reflexivity|].
  destruct (ngtb Ops a b); cbn zeta;
    destruct (asr Ops f _ _ _ _ _ _ _ _) as [[v w] t]; destruct (result_diag Ops v); reflexivity.
Qed.

(** "Result is nan." and "Result is inf." are never both printed (else-if), and neither nor the swap notice for equal limits *)
Theorem diag_exclusive (f : T -> T) a b eps depth :
  let '(_, (notice, wnan, winf)) := integrate_report Ops f a b eps depth in
  wnan && winf = false /\ (neqb Ops a b = true -> notice = false /\ wnan = false /\ winf = false).
Proof.
  unfold integrate_report, check_limits.
  destruct (neqb Ops a b); [repeat split; reflexivity|].
  destruct (ngtb Ops a b); cbn zeta;
    destruct (asr Ops f _ _ _ _ _ _ _ _) as [[v w] t]; unfold result_diag;
    destruct (nisnan Ops v); [|destruct (ngtb Ops _ _)| |destruct (ngtb Ops _ _)]; split; try reflexivity; discriminate.
Qed.

(** the swap notice is printed exactly for limits a > b (that do not compare equal) *)
Theorem swap_notice_iff (f : T -> T) a b eps depth :
  fst (fst (snd (integrate_report Ops f a b eps depth))) = negb (neqb Ops a b) && ngtb Ops a b.
Proof.
  unfold integrate_report, check_limits.
  destruct (neqb Ops a b); [reflexivity|].
  destruct (ngtb Ops a b); cbn zeta;
    destruct (asr Ops f _ _ _ _ _ _ _ _) as [[v w] t]; destruct (result_diag Ops v); reflexivity.
Qed.

(** of the two orientations of two distinct ordered limits exactly one prints the swap notice *)
Theorem swap_notice_once (f : T -> T) a b eps depth :
  neqb Ops a b = false -> neqb Ops b a = false -> nltb Ops a b = negb (nltb Ops b a) ->
  fst (fst (snd (integrate_report Ops f a b eps depth))) = negb (fst (fst (snd (integrate_report Ops f b a eps depth)))).
Proof.
  intros E1 E2 L. rewrite !swap_notice_iff, E1, E2. unfold ngtb. rewrite L. cbn. destruct (nltb Ops b a); reflexivity.
Qed.

(** the method guard: an unrecognised name ends the process whatever the other arguments; "Adaptive-Simpson" never does *)
Theorem named_guard (f : T -> T) a b :
  integrate_named Ops MUnknown f a b = Exit /\
  integrate_named Ops MAdaptiveSimpson f a b = Ok (Some (integrate_method Ops f a b)) /\
  integrate_named Ops MOther f a b <> Exit.
Proof. repeat split. cbn. destruct (neqb Ops a b); discriminate. Qed.

(** Integrate_2D evaluates func only at points (x,y) with x an abscissa of the outer call and y an abscissa of the inner
    call made at x; their number is the sum of the inner counts *)
Theorem i2d_points (f : T -> T -> T) x1 x2 y1 y2 :
  let outer := integrate_method Ops (fun x => fst (fst (integrate_method Ops (fun y => f x y) y1 y2))) x1 x2 in
  forall p, In p (snd (integrate_2d Ops f x1 x2 y1 y2)) ->
    In (fst p) (snd outer) /\ In (snd p) (snd (integrate_method Ops (fun y => f (fst p) y) y1 y2)).
Proof.
  intros outer p. unfold integrate_2d. fold outer. destruct outer as [[v w] t]. cbn [snd].
  rewrite in_flat_map. intros [x [Hx Hp]]. rewrite in_map_iff in Hp. destruct Hp as [y [<- Hy]]. cbn. split; assumption.
Qed.
End Any.

(** ** the reals *)
Local Open Scope R_scope.

Lemma flat_map_length_le {A B} (g : A -> list B) (K : nat) (l : list A) :
  (forall x, length (g x) <= K)%nat -> (length (flat_map g l) <= length l * K)%nat.
Proof.
  intros H. induction l as [|x l IH]; cbn; [lia|]. rewrite app_length. specialize (H x). lia.
Qed.

(** Integrate_2D("Adaptive-Simpson"): every evaluation point lies in the closed rectangle, at most (2^22+4)^2 of them *)
Theorem i2d_inside_and_count (f : R -> R -> R) x1 x2 y1 y2 :
  List.Forall (fun p => Rmin x1 x2 <= fst p <= Rmax x1 x2 /\ Rmin y1 y2 <= snd p <= Rmax y1 y2) (trc (integrate_2d ROps f x1 x2 y1 y2)) /\
  (length (trc (integrate_2d ROps f x1 x2 y1 y2)) <= (2 ^ 22 + 4) * (2 ^ 22 + 4))%nat.
Proof.
  split.
  - apply Forall_forall. intros p Hp. apply (i2d_points ROps) in Hp. destruct Hp as [Hx Hy].
    split.
    + pose proof (method_points_inside (fun x => fst (fst (integrate_method ROps (fun y => f x y) y1 y2))) x1 x2) as P.
      rewrite Forall_forall in P. apply P. exact Hx.
    + pose proof (method_points_inside (fun y => f (fst p) y) y1 y2) as P.
      rewrite Forall_forall in P. apply P. exact Hy.
  - unfold integrate_2d.
    pose proof (method_count (fun x => fst (fst (integrate_method ROps (fun y => f x y) y1 y2))) x1 x2) as Po.
    destruct (integrate_method ROps _ x1 x2) as [[v w] t]. unfold trc in *. cbn [snd] in *.
    etransitivity.
    + apply (flat_map_length_le _ (2 ^ 22 + 4)%nat). intros x. rewrite map_length. apply (method_count (fun y => f x y) y1 y2).
    + apply Nat.mul_le_mono_r. exact Po.
Qed.

(** Integrate_2D("Adaptive-Simpson") is exact on every polynomial of degree <= 5 in y whose coefficients are functions of x such
    that the inner integral is a polynomial of degree <= 5 in x (in particular on sum c_ij x^i y^j, i, j <= 5): the inner calls
    return the exact inner integrals and the outer call integrates those exactly; limits in any orientation, or equal *)
Theorem i2d_quintic_exact (c0 c1 c2 c3 c4 c5 : R -> R) (d0 d1 d2 d3 d4 d5 x1 x2 y1 y2 : R) :
  (forall x, RInt (p5 (c0 x) (c1 x) (c2 x) (c3 x) (c4 x) (c5 x)) y1 y2 = p5 d0 d1 d2 d3 d4 d5 x) ->
  val (integrate_2d ROps (fun x y => p5 (c0 x) (c1 x) (c2 x) (c3 x) (c4 x) (c5 x) y) x1 x2 y1 y2)
  = RInt (p5 d0 d1 d2 d3 d4 d5) x1 x2.
Proof.
  intros H. unfold integrate_2d.
  replace (fun x => fst (fst (integrate_method ROps (fun y => p5 (c0 x) (c1 x) (c2 x) (c3 x) (c4 x) (c5 x) y) y1 y2)))
    with (p5 d0 d1 d2 d3 d4 d5).
  - rewrite <- (method_quintic_exact d0 d1 d2 d3 d4 d5 x1 x2).
    destruct (integrate_method ROps (p5 d0 d1 d2 d3 d4 d5) x1 x2) as [[v w] t]. reflexivity.
  - apply functional_extensionality. intros x. rewrite <- H.
    symmetry. exact (method_quintic_exact (c0 x) (c1 x) (c2 x) (c3 x) (c4 x) (c5 x) y1 y2).
Qed.

(** non-vacuity: func(x,y) = x*y over [0,1]x[0,2]: inner integral 2x, double integral 1 *)
Example i2d_quintic_xy :
  (forall x, RInt (p5 0 x 0 0 0 0) 0 2 = p5 0 2 0 0 0 0 x) /\
  val (integrate_2d ROps (fun x y => p5 0 x 0 0 0 0 y) 0 1 0 2) = 1.
Proof.
  assert (H : forall x, RInt (p5 0 x 0 0 0 0) 0 2 = p5 0 2 0 0 0 0 x).
  { intros x. rewrite (is_RInt_unique _ _ _ _ (P5_is_RInt 0 x 0 0 0 0 0 2)). unfold P5, p5. apply Rminus_diag_uniq. field. }
  split; [exact H|].
  rewrite (i2d_quintic_exact (fun _ => 0) (fun x => x) (fun _ => 0) (fun _ => 0) (fun _ => 0) (fun _ => 0) 0 2 0 0 0 0 0 1 0 2 H).
  rewrite (is_RInt_unique _ _ _ _ (P5_is_RInt 0 2 0 0 0 0 0 1)). unfold P5. field.
Qed.

(** over the reals "Result is nan." is never printed, and "Result is inf." (|result| > DBL_MAX) cannot be printed for an integrand
    bounded by M when (17/15) |b-a| M does not exceed the largest double *)
Theorem diag_real (f : R -> R) (M a b eps : R) (depth : Z) :
  (forall x, Rabs (f x) <= M) -> 17 / 15 * (Rabs (b - a) * M) <= dbl_max ROps ->
  snd (integrate_report ROps f a b eps depth) = (Rltb b a && negb (Reqb a b), false, false).
Proof.
  intros HM HB.
  pose proof (integrate_value_bounded f M a b eps depth HM) as V.
  rewrite <- (report_agrees ROps) in V. revert V.
  unfold integrate_report, check_limits, ngtb. cbn [neqb nltb ROps n1 nneg].
  destruct (Reqb a b); [intros _; rewrite andb_false_r; reflexivity|].
  rewrite andb_true_r.
  destruct (Rltb b a); cbn zeta;
    destruct (asr ROps f _ _ _ _ _ _ _ _) as [[v w] t]; unfold result_diag, ngtb; cbn [nisnan nltb nabs ROps];
    destruct (Rltb_spec (dbl_max ROps) (Rabs v)) as [L|L]; try reflexivity;
    unfold val; cbn [fst nmul ROps]; intros V; exfalso.
  - replace (- (1) * v) with (- v) in V by ring. rewrite Rabs_Ropp in V. lra.
  - replace (1 * v) with v in V by ring. lra.
Qed.

Example diag_real_premises :
  (forall x, Rabs ((fun _ : R => 3) x) <= 3) /\ 17 / 15 * (Rabs (2 - 0) * 3) <= dbl_max ROps.
Proof.
  split.
  - intros _. rewrite Rabs_pos_eq; lra.
  - unfold dbl_max. cbn [nlit ROps]. replace (2 - 0) with 2 by ring. rewrite Rabs_pos_eq by lra.
    assert (H : (7 <= (2 ^ 53 - 1) * 2 ^ 971)%Z).
    { assert (1 <= 2 ^ 971)%Z by (apply Z.lt_pred_le; apply Z.pow_pos_nonneg; lia).
      assert (2 ^ 53 - 1 = 9007199254740991)%Z by reflexivity. nia. }
    apply IZR_le in H. change (IZR 7) with 7 in H. change (IZR 1) with 1. lra.
Qed.
