(** * C15 model: Householder_Matrix, QR_Decomposition, Eigenvalues, Find_Eigenvector_Rayleigh, Eigensystem
    and the Matrix / Vector operations they call (src/Linear_Algebra.cpp), Sign (src/Special_Functions.cpp).  Hand-written, one Gallina expression per C++ expression (same operation
    order, same comparisons, same literals); tied to the code by the differential correspondence check
    (harness/C15.cpp vs the extraction of this file).  Matrices are lists of rows; every function below is
    applied to square matrices only (the entry points exit on anything else, see [qr_decomposition]). *)
From Coq Require Import ZArith List Bool.
From LP Require Import Num.
Import ListNotations.

Section C15.
Context {T : Type} (Ops : NumOps T).
Declare Scope num_scope.
Local Notation "x + y" := (nadd Ops x y) : num_scope.
Local Notation "x - y" := (nsub Ops x y) : num_scope.
Local Notation "x * y" := (nmul Ops x y) : num_scope.
Local Notation "x / y" := (ndiv Ops x y) : num_scope.
Local Notation "- x" := (nneg Ops x) : num_scope.
Delimit Scope num_scope with num.
Local Open Scope num_scope.
Let zero := n0 Ops.
Let one := n1 Ops.
Let two := nofZ Ops 2.

Definition mat := list (list T).
Definition nrows (m : mat) : nat := length m.
Definition ncols (m : mat) : nat := match m with [] => 0%nat | r :: _ => length r end.
Definition ment (m : mat) (i j : nat) : T := nth0 Ops (nth i m []) j.
(** the matrix with entries f i j *)
Definition mk (r c : nat) (f : nat -> nat -> T) : mat := map (fun i => map (fun j => f i j) (seq 0 c)) (seq 0 r).
Definition is_square (m : mat) : bool := forallb (fun row => Nat.eqb (length row) (length m)) m.
Definition delta (i j : nat) : T := if Nat.eqb i j then one else zero.

(** Vector::Dot: result = 0; result += components[i] * rhs[i] *)
Definition vdot (a b : list T) : T := fold_left (fun acc p => acc + fst p * snd p) (combine a b) zero.
Definition vnorm (a : list T) : T := nsqrt Ops (vdot a a).
(** Vector::Normalize: components[i] / norm *)
Definition vnormalize (a : list T) : list T := let norm := vnorm a in map (fun c => c / norm) a.

(** Identity_Matrix(dim): the diagonal constructor, 0.0 off the diagonal and 1.0 on it *)
Definition identity (n : nat) : mat := mk n n delta.
(** Matrix::Transpose *)
Definition mtranspose (m : mat) : mat := mk (ncols m) (nrows m) (fun j i => ment m i j).
(** Matrix::Product(const Matrix&): result[i][j] starts at 0.0 and adds components[i][k] * M[k][j] for k ascending *)
Definition mcol (m : mat) (j : nat) : list T := map (fun row => nth0 Ops row j) m.
Definition mmul (a b : mat) : mat := map (fun row => map (fun j => vdot row (mcol b j)) (seq 0 (ncols b))) a.
(** Matrix::Product(const Vector&) *)
Definition mvec (a : mat) (v : list T) : list T := map (fun row => vdot row v) a.
(** Matrix::Sub_Matrix(0, 0): Delete_Row(0), Delete_Column(0) *)
Definition sub00 (m : mat) : mat := map (@tl T) (tl m).
(** Matrix::Sub_Matrix(0, j) of a matrix given without... the general column: remove entry j of every row but the first *)
Fixpoint remove_nth (j : nat) (l : list T) : list T :=
  match l, j with
  | [], _ => []
  | _ :: r, O => r
  | a :: r, S j' => a :: remove_nth j' r
  end.

(** Householder_Matrix(M):
      x = M.Return_Column(0); alpha = Sign(x.Norm(), -x[0]); e1 = (1,0,..,0); u = x - alpha * e1; u.Normalize();
      Q = Identity_Matrix(x.Size()) - 2.0 * Outer_Vector_Product(u, u)
    with operator*(double s, Vector v) = v[i] * s, operator*(double s, Matrix M) = s * M[i][j]. *)
Definition householder_alpha (x : list T) : T := sign2 Ops (vnorm x) (- nth0 Ops x 0).
Definition householder_u (x : list T) : list T :=
  let alpha := householder_alpha x in
  vnormalize (map (fun i => nth0 Ops x i - delta i 0 * alpha) (seq 0 (length x))).
Definition householder (m : mat) : mat :=
  let x := mcol m 0 in
  let u := householder_u x in
  let n := length x in
  mk n n (fun i j => delta i j - two * (nth0 Ops u i * nth0 Ops u j)).

(** the block matrix {{Identity_Matrix(i), Zero_1}, {Zero_2, P_submatrix}} assembled by the block constructor
    (all entries 0.0, then every block copied to its offset) *)
Definition embed (i n : nat) (p : mat) : mat :=
  map (fun r => map (fun c => delta r c) (seq 0 n)) (seq 0 i) ++ map (fun row => repeat zero i ++ row) p.
(** for(j = i + 1; j < m; j++) R[j][i] = 0.0 *)
Fixpoint set_nth (l : list T) (i : nat) (v : T) : list T :=
  match l, i with
  | [], _ => []
  | _ :: r, O => v :: r
  | a :: r, S i' => a :: set_nth r i' v
  end.
Definition zero_below (i : nat) (r : mat) : mat :=
  map (fun p => if Nat.ltb i (fst p) then set_nth (snd p) i zero else snd p) (combine (seq 0 (length r)) r).

(** QR_Decomposition(M): the loop body for i, i+1, ..., i+k-1 *)
Fixpoint qr_loop (k i n : nat) (q r rsub : mat) : mat * mat :=
  match k with
  | O => (q, r)
  | S k' =>
      let psub := householder rsub in
      let rsub' := sub00 (mmul psub rsub) in
      let p := embed i n psub in
      let r' := zero_below i (mmul p r) in
      let q' := mmul q p in
      qr_loop k' (S i) n q' r' rsub'
  end.
(** For an m x n matrix with m <> n (and n > 0) the block constructor rejects the blocks in the first sweep
    ("Block matrices do not have valid dimensions") and the library exits. *)
Definition qr_decomposition (m : mat) : res (mat * mat) :=
  let n := nrows m in
  if is_square m && Nat.ltb 0 n then Ok (qr_loop n 0 n (identity n) m m) else Exit.

(** Eigenvalues(M): unshifted QR iteration, at most 200 sweeps, convergence test only when i > 10 *)
Definition abs_diag_sum (a : mat) : T :=
  fold_left (fun acc j => acc + nabs Ops (ment a j j)) (seq 0 (nrows a)) zero.
Definition abs_lower_sum (a : mat) : T :=
  fold_left (fun acc j => fold_left (fun acc' k => acc' + nabs Ops (ment a k j)) (seq (S j) (nrows a - S j)) acc)
            (seq 0 (nrows a)) zero.
Definition diagonal (a : mat) : list T := map (fun j => ment a j j) (seq 0 (nrows a)).
Fixpoint eig_loop (fuel : nat) (i : Z) (a : mat) : res (list T) :=
  match fuel with
  | O => Exit                                   (* "The QR algorithm did not converge in 200 steps": std::exit *)
  | S f =>
      let n := nrows a in
      let qr := qr_loop n 0 n (identity n) a a in
      let a' := mmul (snd qr) (fst qr) in
      if (10 <? i)%Z then
        let eigenvalues_sum := abs_diag_sum a' in
        let off_diagonal_sum := abs_lower_sum a' in
        if nltb Ops (off_diagonal_sum / eigenvalues_sum) (ndec Ops 1 1000000000000) then Ok (diagonal a')
        else eig_loop f (i + 1)%Z a'
      else eig_loop f (i + 1)%Z a'
  end.
Definition eigenvalues (m : mat) : res (list T) :=
  if is_square m && Nat.ltb 0 (nrows m) then eig_loop 200 0%Z m else Exit.

(** Matrix::Determinant: 1x1, 2x2 directly, otherwise Laplace expansion along the first row:
    factors[j] = sign * components[0][j]; det = 0.0; det += factors[j] * Sub_Matrix(0,j).Determinant().
    [k] is fuel >= the number of rows. *)
Fixpoint determinant (k : nat) (m : mat) : T :=
  match k with
  | O => zero
  | S k' =>
      match m with
      | [] => zero
      | [row0] => nth0 Ops row0 0
      | [r0; r1] => nth0 Ops r0 0 * nth0 Ops r1 1 - nth0 Ops r0 1 * nth0 Ops r1 0
      | row0 :: rest =>
          fold_left (fun det j =>
                       let sign := if Nat.even j then one else - one in
                       det + sign * nth0 Ops row0 j * determinant k' (map (remove_nth j) rest))
                    (seq 0 (length row0)) zero
      end
  end.

(** Matrix::Inverse: exits when Determinant() != 0.0 is false; otherwise Gauss-Jordan elimination on (A | 1)
    with partial pivoting, exit on a zero pivot, division of the right half by the diagonal. *)
Definition swap_rows (a : mat) (i j : nat) : mat :=
  map (fun k => if Nat.eqb k i then nth j a [] else if Nat.eqb k j then nth i a [] else nth k a []) (seq 0 (length a)).
Definition pivot_row (a : mat) (i n : nat) : nat :=
  fold_left (fun ip j => if ngtb Ops (nabs Ops (ment a j i)) (nabs Ops (ment a ip i)) then j else ip) (seq (S i) (n - S i)) i.
Definition eliminate (a : mat) (i : nat) : mat :=
  let rowi := nth i a [] in
  let piv := nth0 Ops rowi i in
  map (fun p => if Nat.eqb (fst p) i then snd p
                else let ratio := nth0 Ops (snd p) i / piv in
                     map (fun q => fst q - ratio * snd q) (combine (snd p) rowi))
      (combine (seq 0 (length a)) a).
Fixpoint gauss_jordan (k i n : nat) (a : mat) : res mat :=
  match k with
  | O => Ok a
  | S k' =>
      let ip := pivot_row a i n in
      let a1 := if Nat.eqb ip i then a else swap_rows a i ip in
      if neqb Ops (ment a1 i i) zero then Exit
      else gauss_jordan k' (S i) n (eliminate a1 i)
  end.
Definition inverse (m : mat) : res mat :=
  let n := nrows m in
  if negb (nneb Ops (determinant n m) zero) then Exit
  else
    let aug := map (fun p => snd p ++ map (fun j => delta (fst p) j) (seq 0 n)) (combine (seq 0 n) m) in
    rbind (gauss_jordan n 0 n aug)
          (fun a => Ok (map (fun p => let d := nth0 Ops (snd p) (fst p) in map (fun x => x / d) (skipn n (snd p)))
                            (combine (seq 0 n) a))).

(** Matrix::Norm: squared_norm = 0.0; += components[i][j] * components[i][j] row by row; sqrt *)
Definition mnorm (m : mat) : T :=
  nsqrt Ops (fold_left (fun acc row => fold_left (fun acc' c => acc' + c * c) row acc) m zero).

(** the for(iteration < 100) loop of Find_Eigenvector_Rayleigh:
      b_before = b; b = M_inv * b; b.Normalize(); if(b * b_before < 0.0) b = -1.0 * b;
      if((b - b_before).Norm() < 1.0e-15) break; *)
Fixpoint inverse_iteration (k : nat) (minv : mat) (b : list T) : list T :=
  match k with
  | O => b
  | S k' =>
      let b_before := b in
      let b1 := vnormalize (mvec minv b) in
      let b2 := if nltb Ops (vdot b1 b_before) zero then map (fun c => c * (- one)) b1 else b1 in
      if nltb Ops (vnorm (map (fun p => fst p - snd p) (combine b2 b_before))) (ndec Ops 1 1000000000000000) then b2
      else inverse_iteration k' minv b2
  end.

(** Find_Eigenvector_Rayleigh(M, eigenvalue): inverse iteration with the fixed shift eigenvalue + 1e-8 |M|, start vector
    b[i] = 1/(1+i) normalised, at most 100 iterations; returns (b * (M * b), b) *)
Definition start_vector (n : nat) : list T :=
  vnormalize (map (fun i => one / (one + nofZ Ops (Z.of_nat i))) (seq 0 n)).
Definition find_eigenvector_rayleigh (m : mat) (eigenvalue : T) : res (T * list T) :=
  let n := nrows m in
  let norm := mnorm m in
  let shift := eigenvalue + ndec Ops 1 100000000 * (if ngtb Ops norm zero then norm else one) in
  rbind (inverse (mk n n (fun i j => ment m i j - shift * delta i j))) (fun minv =>
    let b := inverse_iteration 100 minv (start_vector n) in
    Ok (vdot b (mvec m b), b)).

(** Eigensystem(M): Eigenvalues, then one inverse iteration per eigenvalue (which also replaces the eigenvalue by the
    Rayleigh quotient of the vector found) *)
Fixpoint eigenvectors_of (m : mat) (evs : list T) : res (list (T * list T)) :=
  match evs with
  | [] => Ok []
  | ev :: rest =>
      rbind (find_eigenvector_rayleigh m ev) (fun p =>
      rbind (eigenvectors_of m rest) (fun ps => Ok (p :: ps)))
  end.
Definition eigensystem (m : mat) : res (list (T * list T)) :=
  rbind (eigenvalues m) (fun evs => eigenvectors_of m evs).
(** ** Sessions: several calls on one or two Matrix objects, with modifications written into the objects by the caller between the calls.
    Eigensystem / Eigenvectors take their argument by non-const reference, Eigenvalues / QR_Decomposition by const reference; none of them
    keeps anything between calls (no statics, no members), so a call is a function of the value the object has when it is made.
    The modifications the check drives (harness/C15.cpp, op "session"), entry by entry through operator[]:
      swap i j   std::swap of rows i, j and of columns i, j: the basis relabelled, P M P^T for the transposition P
      dswap i j  std::swap(M[i][i], M[j][j])
      neg        M[r][c] = -M[r][c]
      scale s    M[r][c] = M[r][c] * s
      transp     M = M.Transpose()
      copy       the other object is assigned the value of the current one;  other: the other object becomes the current one *)
Definition transp (i j k : nat) : nat := if Nat.eqb k i then j else if Nat.eqb k j then i else k.
Definition sym_swap (m : mat) (i j : nat) : mat := mk (nrows m) (nrows m) (fun r c => ment m (transp i j r) (transp i j c)).
Definition diag_swap (m : mat) (i j : nat) : mat :=
  mk (nrows m) (nrows m) (fun r c => if Nat.eqb r c then ment m (transp i j r) (transp i j c) else ment m r c).
Definition mat_neg (m : mat) : mat := map (map (fun c => - c)) m.
Definition mat_scale (s : T) (m : mat) : mat := map (map (fun c => c * s)) m.

Inductive sop : Type :=
| SSys | SVecs | SVals | SQR
| SSwap (i j : nat) | SDswap (i j : nat) | SNeg | SScale (s : T) | STransp | SCopy | SOther.
Inductive sout : Type :=
| OSys (r : res (list (T * list T)))
| OVecs (r : res (list (T * list T)))
| OVals (r : res (list T))
| OQR (r : res (mat * mat))
| ONone.
(** state = (value of the current object, value of the other object) *)
Definition sstate : Type := (mat * mat)%type.
Definition session_step (st : sstate) (o : sop) : sstate * sout :=
  let a := fst st in
  let b := snd st in
  match o with
  | SSys => (st, OSys (eigensystem a))
  | SVecs => (st, OVecs (eigensystem a))
  | SVals => (st, OVals (eigenvalues a))
  | SQR => (st, OQR (qr_decomposition a))
  | SSwap i j => ((sym_swap a i j, b), ONone)
  | SDswap i j => ((diag_swap a i j, b), ONone)
  | SNeg => ((mat_neg a, b), ONone)
  | SScale s => ((mat_scale s a, b), ONone)
  | STransp => ((mtranspose a, b), ONone)
  | SCopy => ((a, a), ONone)
  | SOther => ((b, a), ONone)
  end.
Fixpoint session_run (st : sstate) (ops : list sop) : list sout * sstate :=
  match ops with
  | [] => ([], st)
  | o :: rest =>
      let r := session_step st o in
      let r' := session_run (fst r) rest in
      (snd r :: fst r', snd r')
  end.
(** a session starts with both objects holding the matrix of the request *)
Definition session (m : mat) (ops : list sop) : list sout * sstate := session_run (m, m) ops.
End C15.
