(** * C05 proofs: call histories on one Matrix object ([srun] of C05_Model.v).
    The answers of Determinant / Invertible / Inverse depend on the current entries only, whatever was asked or
    changed before (first part: every [NumOps], in particular the IEEE doubles of the extracted model); after an
    in-place sum the determinant is the determinant of the sum (second part: every field). *)
From mathcomp Require Import all_ssreflect all_fingroup all_algebra.
From Coq Require List ZArith.
From LP Require Import Num C04_Model C05_Model C04_Proofs_Struct C04_Proofs_Laws C05_Proofs.
Set Implicit Arguments. Unset Strict Implicit. Unset Printing Implicit Defensive.
Arguments tab : simpl never.
Arguments tab2 : simpl never.

Section AnyOps.
Context {T : Type} (Ops : NumOps T).
Local Notation sop := (@sop T).
Local Notation sout := (@sout T).

(** one more call after a history *)
Lemma srun_snoc (h : list sop) (o : sop) (M0 : mat T) :
  srun Ops (h ++ [:: o]) M0 =
  rbind (srun Ops h M0) (fun st => rbind (sstep Ops st.1 o) (fun st' => Ok (st'.1, (st.2 ++ [:: st'.2])%list))).
Proof. by rewrite /srun List.fold_left_app. Qed.

(** a query answers from the entries and leaves them as they are *)
Lemma sstep_query (M : mat T) (q : sop) : is_query q -> sstep Ops M q = rbind (squery Ops M q) (fun a => Ok (M, a)).
Proof. by rewrite /sstep => ->. Qed.

(** the answer to a query after any history is the answer [squery M q] for the current entries M *)
Theorem seq_answer_after_history (h : list sop) (q : sop) (M0 M : mat T) (outs : list sout) :
  srun Ops h M0 = Ok (M, outs) -> is_query q ->
  srun Ops (h ++ [:: q]) M0 = rbind (squery Ops M q) (fun a => Ok (M, (outs ++ [:: a])%list)).
Proof. by move=> Hh Hq; rewrite srun_snoc Hh /= sstep_query //; case: (squery Ops M q). Qed.

(** two histories (on the same or on different objects) that lead to the same entries are answered alike *)
Theorem seq_history_independent (h1 h2 : list sop) (q : sop) (M1 M2 M : mat T) (o1 o2 : list sout) :
  srun Ops h1 M1 = Ok (M, o1) -> srun Ops h2 M2 = Ok (M, o2) -> is_query q ->
  (srun Ops (h1 ++ [:: q]) M1 = Exit <-> srun Ops (h2 ++ [:: q]) M2 = Exit) /\
  (forall a, srun Ops (h1 ++ [:: q]) M1 = Ok (M, (o1 ++ [:: a])%list) <->
             srun Ops (h2 ++ [:: q]) M2 = Ok (M, (o2 ++ [:: a])%list)).
Proof.
  move=> H1 H2 Hq; rewrite (seq_answer_after_history H1 Hq) (seq_answer_after_history H2 Hq).
  case: (squery Ops M q) => [b| | |] /=; split=> // a; split=> // -[] /(f_equal (@List.rev _));
    by rewrite !List.rev_app_distr /= => -[->].
Qed.

(** queries alone never change the entries *)
Theorem seq_queries_keep_entries (h : list sop) (M0 M : mat T) (outs : list sout) :
  List.forallb (@is_query T) h -> srun Ops h M0 = Ok (M, outs) -> M = M0.
Proof.
  elim/List.rev_ind: h M outs => [|q h IH] M outs; first by move=> _ [].
  rewrite List.forallb_app /= andbT => /andP[Hh Hq]; rewrite srun_snoc.
  case E: (srun Ops h M0) => [[M' o']| | |] //=; rewrite sstep_query //.
  by case: (squery Ops M' q) => //= a [<- _]; apply: (IH _ _ Hh E).
Qed.

(** *** several objects, calls interleaved ([mrun]) *)
Lemma mrun_snoc (h : list (nat * sop)) (o : nat * sop) (Ms0 : list (mat T)) :
  mrun Ops (h ++ [:: o]) Ms0 =
  rbind (mrun Ops h Ms0) (fun st => rbind (mstep Ops st.1 o) (fun st' => Ok (st'.1, (st.2 ++ [:: st'.2])%list))).
Proof. by rewrite /mrun List.fold_left_app. Qed.

Lemma mset_same (k : nat) (Ms : list (mat T)) (M : mat T) : List.nth_error Ms k = Some M -> mset k Ms M = Ms.
Proof.
  elim: Ms k => [|M' r IH] [|k] //=; first by case=> ->.
  by move=> /IH ->.
Qed.
Lemma mset_other (k k' : nat) (Ms : list (mat T)) (M' : mat T) :
  k <> k' -> List.nth_error (mset k' Ms M') k = List.nth_error Ms k.
Proof.
  elim: Ms k k' => [|M r IH] [|k] [|k'] //= H.
  by apply: IH => E; apply: H; rewrite E.
Qed.
Lemma mset_at (k : nat) (Ms : list (mat T)) (M M' : mat T) :
  List.nth_error Ms k = Some M -> List.nth_error (mset k Ms M') k = Some M'.
Proof. by elim: Ms k => [|M1 r IH] [|k] //=; apply: IH. Qed.

(** a call on object k is the one-object step [sstep] on the entries of object k *)
Theorem hist_step_is_sstep (Ms : list (mat T)) (k : nat) (o : sop) (M : mat T) :
  List.nth_error Ms k = Some M ->
  mstep Ops Ms (k, o) = rbind (sstep Ops M o) (fun st => Ok (mset k Ms st.1, st.2)).
Proof. by rewrite /mstep /= => ->. Qed.

(** the answer to a query put to object k after any interleaved history on all objects is the answer [squery M q]
    for the current entries M of object k, and no object changes *)
Theorem hist_answer_after_history (h : list (nat * sop)) (k : nat) (q : sop) (Ms0 Ms : list (mat T)) (M : mat T)
    (outs : list sout) :
  mrun Ops h Ms0 = Ok (Ms, outs) -> List.nth_error Ms k = Some M -> is_query q ->
  mrun Ops (h ++ [:: (k, q)]) Ms0 = rbind (squery Ops M q) (fun a => Ok (Ms, (outs ++ [:: a])%list)).
Proof.
  move=> Hh Hk Hq; rewrite mrun_snoc Hh /= (hist_step_is_sstep _ Hk) sstep_query //.
  by case: (squery Ops M q) => //= a; rewrite mset_same.
Qed.

(** a call on object k' leaves the entries of every other object k as they are, and sets those of k' as [sstep] says *)
Theorem hist_other_objects_untouched (Ms Ms' : list (mat T)) (k k' : nat) (o : sop) (a : sout) :
  mstep Ops Ms (k', o) = Ok (Ms', a) -> k <> k' -> List.nth_error Ms' k = List.nth_error Ms k.
Proof.
  rewrite /mstep /=; case: (List.nth_error Ms k') => // M.
  by case: (sstep Ops M o) => //= st [<- _] H; exact: mset_other.
Qed.
Theorem hist_called_object_updated (Ms Ms' : list (mat T)) (k : nat) (o : sop) (a : sout) (M : mat T) :
  List.nth_error Ms k = Some M -> mstep Ops Ms (k, o) = Ok (Ms', a) ->
  exists M', sstep Ops M o = Ok (M', a) /\ List.nth_error Ms' k = Some M'.
Proof.
  move=> Hk; rewrite (hist_step_is_sstep _ Hk); case: (sstep Ops M o) => //= -[M' a'] [<- <-].
  by exists M'; split=> //; apply: mset_at Hk.
Qed.
(** *** references into the object held by the caller across calls ([hrun]) *)
Local Notation hop := (@hop T).
Lemma hrun_snoc (h : list hop) (o : hop) (M0 : mat T) :
  hrun Ops (h ++ [:: o]) M0 =
  rbind (hrun Ops h M0) (fun st => rbind (hstep Ops st.1 o) (fun st' => Ok (st'.1, (st.2 ++ [:: st'.2])%list))).
Proof. by rewrite /hrun List.fold_left_app. Qed.

Lemma srun_one (M : mat T) (o : sop) : srun Ops [:: o] M = rbind (sstep Ops M o) (fun st => Ok (st.1, [:: st.2])).
Proof. by rewrite /srun /=; case: (sstep Ops M o). Qed.

Lemma hkeep_query (M : mat T) (q : sop) (r : href) : is_query q -> hkeep M q r.
Proof. by case: q. Qed.
Lemma filter_all A (p : A -> bool) (l : list A) : (forall x, p x) -> List.filter p l = l.
Proof. by move=> H; elim: l => //= x l ->; rewrite H. Qed.

(** a call by indices on an object into which references are held acts on the entries as [sstep] says *)
Theorem href_step_call (M : mat T) (tb : htab) (c : sop) :
  hstep Ops (M, tb) (HCall c) = rbind (sstep Ops M c) (fun st => Ok ((st.1, htable M tb (HCall c)), st.2)).
Proof. by rewrite /hstep /= srun_one; case: (sstep Ops M c). Qed.

(** a query answers from the current entries; entries and references stay as they are *)
Theorem href_step_query (M : mat T) (tb : htab) (q : sop) : is_query q ->
  hstep Ops (M, tb) (HCall q) = rbind (squery Ops M q) (fun a => Ok ((M, tb), a)).
Proof.
  move=> Hq; rewrite href_step_call sstep_query //=; case: (squery Ops M q) => //= a.
  by rewrite filter_all // => x; apply: hkeep_query.
Qed.

(** whatever references are held and whatever was written through them: the answer to a query is [squery M q]
    for the current entries M *)
Theorem href_answer_after_history (h : list hop) (q : sop) (M0 M : mat T) (tb : htab) (outs : list sout) :
  hrun Ops h M0 = Ok ((M, tb), outs) -> is_query q ->
  hrun Ops (h ++ [:: HCall q]) M0 = rbind (squery Ops M q) (fun a => Ok ((M, tb), (outs ++ [:: a])%list)).
Proof. by move=> Hh Hq; rewrite hrun_snoc Hh /= href_step_query //; case: (squery Ops M q). Qed.

(** r_h[j] = v  through a held row reference to row i is  M[i][j] = v;  the references stay *)
Theorem href_row_write (M : mat T) (tb : htab) (h i j : nat) (v : T) : hfind h tb = Some (HRow i) ->
  hstep Ops (M, tb) (HRowSet h j v) = rbind (supdate Ops M (USet i j v)) (fun M' => Ok ((M', tb), @ONone T)).
Proof. by move=> Hf; rewrite /hstep /= Hf /= srun_one /sstep /=; case: (PeanoNat.Nat.leb (mrows M) i) => //; case: (PeanoNat.Nat.leb (mcols M) j). Qed.
(** e_h = v  through a held entry reference to (i, j) is  M[i][j] = v *)
Theorem href_entry_write (M : mat T) (tb : htab) (h i j : nat) (v : T) : hfind h tb = Some (HElt i j) ->
  hstep Ops (M, tb) (HEltSet h v) = rbind (supdate Ops M (USet i j v)) (fun M' => Ok ((M', tb), @ONone T)).
Proof. by move=> Hf; rewrite /hstep /= Hf /= srun_one /sstep /=; case: (PeanoNat.Nat.leb (mrows M) i) => //; case: (PeanoNat.Nat.leb (mcols M) j). Qed.
(** std::swap(r_h1, r_h2)  through held references to rows i and j is  std::swap(M[i], M[j]) *)
Theorem href_row_swap (M : mat T) (tb : htab) (h1 h2 i j : nat) :
  hfind h1 tb = Some (HRow i) -> hfind h2 tb = Some (HRow j) ->
  hstep Ops (M, tb) (HRowSwap h1 h2) =
  rbind (supdate Ops M (USwap i j)) (fun M' => Ok ((M', List.filter (fun hr => is_hrow hr.2) tb), @ONone T)).
Proof. by move=> H1 H2; rewrite /hstep /= H1 H2 /= srun_one /sstep /=; case: (_ || _). Qed.

(** a history without references is the history [srun] *)
Theorem href_plain_calls (ops : list sop) (M0 : mat T) :
  hrun Ops (List.map (@HCall T) ops) M0 = rbind (srun Ops ops M0) (fun st => Ok ((st.1, [::]), st.2)).
Proof.
  elim/List.rev_ind: ops => [|o ops IH] //.
  rewrite List.map_app /= hrun_snoc srun_snoc IH.
  case: (srun Ops ops M0) => [[M outs]| | |] //=.
  by rewrite href_step_call; case: (sstep Ops M o) => [[M' a]| | |].
Qed.
End AnyOps.

Import GRing.Theory.
Local Open Scope ring_scope.

Section Field.
Variable F : fieldType.
Variables (absF sqrtF : F -> F) (ltF leF : F -> F -> bool).
Local Notation FOps := (FOps absF sqrtF ltF leF).
Local Notation ment := (ment FOps).
Local Notation mx := (@mx_of F (fun x y => x / y) absF sqrtF ltF leF).

(** Determinant() and Invertible() after an update that leaves the entries A' *)
Lemma det_after_step n (h : list (@sop F)) (u : @sop F) (M0 A' : mat F) (outs : list (@sout F)) (S : 'M[F]_n.+1) :
  srun FOps (h ++ [:: u]) M0 = Ok (A', (outs ++ [:: @ONone F])%list) ->
  wf_mat A' -> mrows A' = n.+1 -> mcols A' = n.+1 -> mx n.+1 n.+1 A' = S ->
  srun FOps (h ++ [:: u; @QDet F; @QInvertible F]) M0 =
  Ok (A', (outs ++ [:: @ONone F; ODet (\det S); @OFlag F (\det S != 0)])%list).
Proof.
  move=> Hu HA' Ar' Ac' E.
  have Hq : srun FOps ((h ++ [:: u]) ++ [:: @QDet F]) M0 = Ok (A', ((outs ++ [:: @ONone F]) ++ [:: ODet (\det S)])%list).
    by rewrite (seq_answer_after_history Hu) //= (@det_is_det F absF sqrtF ltF leF n A' HA' Ar' Ac') E.
  have := seq_answer_after_history (q := @QInvertible F) Hq isT.
  rewrite /= (proj1 (@invertible_iff F absF sqrtF ltF leF n A' HA' Ar' Ac')) E /=.
  by rewrite -!catA /= -!List.app_assoc /=.
Qed.

(** whatever was asked of the object before (in particular Determinant() itself): after  M += B  (M -= B)
    Determinant() is the determinant of the sum (difference), and the next Invertible() says whether it vanishes *)
Theorem seq_det_after_update n (h : list (@sop F)) (M0 A B : mat F) (outs : list (@sout F)) :
  srun FOps h M0 = Ok (A, outs) ->
  wf_mat A -> mrows A = n.+1 -> mcols A = n.+1 -> mrows B = n.+1 -> mcols B = n.+1 ->
  (exists A', [/\ wf_mat A', mx n.+1 n.+1 A' = mx n.+1 n.+1 A + mx n.+1 n.+1 B &
     srun FOps (h ++ [:: UAdd B; @QDet F; @QInvertible F]) M0 =
     Ok (A', (outs ++ [:: @ONone F; ODet (\det (mx n.+1 n.+1 A + mx n.+1 n.+1 B));
                          @OFlag F (\det (mx n.+1 n.+1 A + mx n.+1 n.+1 B) != 0)])%list)]) /\
  (exists A', [/\ wf_mat A', mx n.+1 n.+1 A' = mx n.+1 n.+1 A - mx n.+1 n.+1 B &
     srun FOps (h ++ [:: USub B; @QDet F; @QInvertible F]) M0 =
     Ok (A', (outs ++ [:: @ONone F; ODet (\det (mx n.+1 n.+1 A - mx n.+1 n.+1 B));
                          @OFlag F (\det (mx n.+1 n.+1 A - mx n.+1 n.+1 B) != 0)])%list)]).
Proof.
  move=> Hh HA Ar Ac Br Bc; split.
  - have E : mx n.+1 n.+1 (add_tab FOps A B) = mx n.+1 n.+1 A + mx n.+1 n.+1 B.
      by apply/matrixP => i j; rewrite !mxE ment_mk ?Ar ?Ac.
    exists (add_tab FOps A B); split=> //; first by rewrite wf_mk.
    apply: det_after_step => //; rewrite ?wf_mk //.
    by rewrite srun_snoc Hh /= /sstep /= m_add_assign_spec /same_shape Ar Ac Br Bc !eqxx.
  - have E : mx n.+1 n.+1 (sub_tab FOps A B) = mx n.+1 n.+1 A - mx n.+1 n.+1 B.
      by apply/matrixP => i j; rewrite !mxE ment_mk ?Ar ?Ac.
    exists (sub_tab FOps A B); split=> //; first by rewrite wf_mk.
    apply: det_after_step => //; rewrite ?wf_mk //.
    by rewrite srun_snoc Hh /= /sstep /= m_sub_assign_spec /same_shape Ar Ac Br Bc !eqxx.
Qed.
End Field.
