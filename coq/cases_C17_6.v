From Coq Require Import Reals Lra.
From Coquelicot Require Import Coquelicot.
From Interval Require Import Tactic.
From LP Require Import NumR C17_Defs.
Open Scope R_scope.
Lemma s3_6 : Rabs (dawson_def (IZR (15) * powerRZ 2 (1)) - (IZR (4806514759169403) * powerRZ 2 (-58))) <= 2 / 10000000.
Proof. unfold dawson_def. integral with (i_prec 60). Qed.
Lemma s3_16 : Rabs (dawson_def (IZR (-304934837047845) * powerRZ 2 (-48)) - (IZR (-2381200291465491) * powerRZ 2 (-52))) <= 2 / 10000000.
Proof. unfold dawson_def. integral with (i_prec 60). Qed.
Lemma s3_26 : Rabs (dawson_def (IZR (7205098009636795) * powerRZ 2 (-55)) - (IZR (877004408094513) * powerRZ 2 (-52))) <= 2 / 10000000.
Proof. unfold dawson_def. integral with (i_prec 60). Qed.
Lemma s3_36 : Rabs (dawson_def (IZR (223990831487809) * powerRZ 2 (-50)) - (IZR (3490770736023771) * powerRZ 2 (-54))) <= 2 / 10000000.
Proof. unfold dawson_def. integral with (i_prec 60). Qed.
Lemma s3_46 : Rabs ((IZR (1030025196928029) * powerRZ 2 (-52)) - erfi_def (IZR (7205460258029579) * powerRZ 2 (-55))) <= 1 / 1000000 * Rabs (erfi_def (IZR (7205460258029579) * powerRZ 2 (-55))).
Proof. apply rel_error_from_enclosure; [lra|interval|]. unfold erfi_def. split; integral with (i_prec 80). Qed.
Lemma s3_56 : Rerf ((IZR (973596819177819) * powerRZ 2 (-48)) - 1 / 10000) < (IZR (9007190247541737) * powerRZ 2 (-53)) < Rerf ((IZR (973596819177819) * powerRZ 2 (-48)) + 1 / 10000).
Proof. unfold Rerf. split; integral with (i_prec 80). Qed.
