(** * C16 proofs, seventh part: "determinant one" and the angle of a rotation, observed with the library's own
    Matrix::Determinant() (Laplace expansion along the first row, recursive) and Matrix::Trace(), for one rotation and for
    products of any number of rotations; Determinant() returns for every well-formed square matrix of every size (every
    number type); a product of rotations about one direction turns the axis-relative spherical vector by the sum of the
    angles; the 2-D turn measured with the library's Angle. *)
From Coq Require Import Reals ZArith List Lra Lia Psatz Nsatz Bool Arith.
From LP Require Import Num NumR C16_Model C16_Proofs C16_Proofs_Hist C16_Proofs_Chain C16_Proofs_Angle.
Import ListNotations.
Local Open Scope R_scope.

(** ** bridges: on 3x3 and 2x2 matrices Determinant() is det3 / det2 and Trace() the sum of the diagonal *)
Lemma mdet_3x3 m : is3x3 m -> mdet ROps m = Ok (det3 m).
Proof. intros H. open3 H. unfold mdet, det3, ent. cbn. f_equal. ring. Qed.
Lemma mtrace_3x3 m : is3x3 m -> mtrace ROps m = Ok (ent m 0 0 + ent m 1 1 + ent m 2 2).
Proof. intros H. open3 H. unfold mtrace, ent. cbn. f_equal. ring. Qed.
Lemma mdet_2x2 a b c d : mdet ROps [[a; b]; [c; d]] = Ok (a * d - b * c).
Proof. reflexivity. Qed.
Lemma mtrace_2x2 a b c d : mtrace ROps [[a; b]; [c; d]] = Ok (a + d).
Proof. unfold mtrace. cbn. f_equal. ring. Qed.

(** ** one rotation: Determinant() = 1, Trace() = 1 + 2 cos(alpha) (3-D), 2 cos(alpha) (2-D) *)
Lemma rotation3_det_trace alpha a0 a1 a2 : nonzero3 a0 a1 a2 ->
  rotation_det_trace ROps alpha 3 [a0; a1; a2] = Ok (1, 1 + 2 * cos alpha).
Proof.
  intros Hnz. destruct (rot3_proper alpha [a0; a1; a2]) as (Rm & E & (S3 & _ & _ & D)).
  { exists a0, a1, a2. split; [reflexivity | exact Hnz]. }
  pose proof (rot3_trace alpha a0 a1 a2 Rm Hnz E) as Tr.
  unfold rotation_det_trace. rewrite E. cbn [rbind]. rewrite (mdet_3x3 Rm S3), (mtrace_3x3 Rm S3). cbn [rbind].
  rewrite D, Tr. reflexivity.
Qed.
Lemma rotation2_det_trace alpha axis : rotation_det_trace ROps alpha 2 axis = Ok (1, 2 * cos alpha).
Proof.
  unfold rotation_det_trace. rewrite rot2_eq. cbn [rbind]. rewrite mdet_2x2, mtrace_2x2. cbn [rbind].
  pose proof (cs1 alpha) as CS. f_equal. f_equal; nra.
Qed.

(** ** products of any number of rotations *)
Lemma chain3_det_one fs : Forall (fun f => axis3_nonzero (snd f)) fs ->
  exists P t, rot_chain ROps 3 fs = Ok P /\ mdet ROps P = Ok 1 /\ mtrace ROps P = Ok t /\
              rot_chain_det_trace ROps 3 fs = Ok (1, t).
Proof.
  intros H. destruct (rot_chain_proper fs H) as (P & E & (S3 & _ & _ & D)).
  exists P, (ent P 0 0 + ent P 1 1 + ent P 2 2). unfold rot_chain_det_trace. rewrite E. cbn [rbind].
  rewrite (mdet_3x3 P S3), (mtrace_3x3 P S3), D. cbn [rbind]. repeat split; reflexivity.
Qed.
Lemma chain3_same_axis_det_trace a0 a1 a2 fs : nonzero3 a0 a1 a2 -> Forall (fun f => along a0 a1 a2 (snd f)) fs ->
  rot_chain_det_trace ROps 3 fs = Ok (1, 1 + 2 * cos (angle_sum ROps (map fst fs))).
Proof.
  intros Hnz H. pose proof (rotation3_det_trace (angle_sum ROps (map fst fs)) a0 a1 a2 Hnz) as Q.
  unfold rot_chain_det_trace. rewrite (rot_chain_same_axis a0 a1 a2 fs Hnz H). exact Q.
Qed.
Lemma chain2_det_trace fs : rot_chain_det_trace ROps 2 fs = Ok (1, 2 * cos (angle_sum ROps (map fst fs))).
Proof.
  pose proof (rotation2_det_trace (angle_sum ROps (map fst fs)) []) as Q.
  unfold rot_chain_det_trace. rewrite (rot_chain_2d fs []). exact Q.
Qed.

(** a product of rotations about one direction turns the axis-relative spherical vector by the sum of the angles *)
Lemma chain_turns_spherical a0 a1 a2 fs r theta phi P u u' : nonzero3 a0 a1 a2 -> Forall (fun f => along a0 a1 a2 (snd f)) fs ->
  rot_chain ROps 3 fs = Ok P ->
  spherical_axis ROps Rhypot r theta phi [a0; a1; a2] = Ok u ->
  spherical_axis ROps Rhypot r theta (phi + angle_sum ROps (map fst fs)) [a0; a1; a2] = Ok u' ->
  mvec ROps P u = u'.
Proof.
  intros Hnz H E. rewrite (rot_chain_same_axis a0 a1 a2 fs Hnz H) in E.
  exact (rotation_turns_spherical _ r theta phi a0 a1 a2 P u u' Hnz E).
Qed.

(** ** Determinant() and Trace() return exactly on square matrices - every number type, every size *)
Section AnyOps.
Context {T : Type} (Ops : NumOps T).
Definition wf_square (n : nat) (m : list (list T)) : Prop := length m = n /\ Forall (fun r => length r = n) m.

Lemma wf_square_dims n m : wf_square n m -> mrowsn m = n /\ mcolsn m = n.
Proof.
  intros [L F]. split; [exact L|]. unfold mcolsn. destruct m as [| r m]; [exact L|]. inversion F; assumption.
Qed.
Lemma ldel_length {A} j (l : list A) : (j < length l)%nat -> length (ldel j l) = pred (length l).
Proof. intros H. unfold ldel. rewrite app_length, firstn_length_le, skipn_length by lia. lia. Qed.
Lemma msub0_wf n m j : wf_square (S n) m -> (j < S n)%nat -> wf_square n (msub0 j m).
Proof.
  intros [L F] Hj. unfold msub0. destruct m as [| r m]; [discriminate|]. cbn [tl]. cbn in L. inversion F as [| ? ? _ F']; subst.
  split; [rewrite map_length; lia|]. apply Forall_map. eapply Forall_impl; [| exact F'].
  intros row Hr. cbv beta in Hr |- *. rewrite ldel_length by lia. lia.
Qed.
Lemma fold_ok_ok {A B} (f : res A -> B -> res A) (l : list B) (P : B -> Prop) :
  (forall a b, P b -> exists a', f (Ok a) b = Ok a') -> Forall P l -> forall a, exists a', fold_left f l (Ok a) = Ok a'.
Proof.
  intros Hf. induction 1 as [| b l Hb _ IH]; intros a; [exists a; reflexivity|].
  cbn [fold_left]. destruct (Hf a b Hb) as [a' ->]. apply IH.
Qed.
Lemma mdet_fuel_returns : forall fuel n m, wf_square n m -> (n < fuel)%nat -> exists d, mdet_fuel Ops fuel m = Ok d.
Proof.
  induction fuel as [| f IH]; intros n m W Hn; [lia|]. destruct (wf_square_dims n m W) as [Er Ec].
  cbn [mdet_fuel]. rewrite Er, Ec, Nat.eqb_refl. cbn [negb].
  destruct (Nat.eqb n 1) eqn:E1; [eexists; reflexivity|]. destruct (Nat.eqb n 2) eqn:E2; [eexists; reflexivity|].
  apply (fold_ok_ok _ _ (fun j => (j < n)%nat)).
  - intros a j Hj. cbn [rbind]. destruct n as [| n']; [lia|].
    destruct (IH n' (msub0 j m)) as [d ->]; [apply msub0_wf; assumption | lia |]. cbn [rbind]. eexists; reflexivity.
  - apply Forall_forall. intros j Hj. apply in_seq in Hj. lia.
Qed.
(** Determinant() returns (never Exit, never out of fuel) for every well-formed square matrix of every size; it and Trace() end the
    process exactly when rows <> columns *)
Lemma mdet_mtrace_guards (m : list (list T)) :
  (forall n, wf_square n m -> exists d, mdet Ops m = Ok d) /\
  (mrowsn m = mcolsn m -> exists t, mtrace Ops m = Ok t) /\
  (mrowsn m <> mcolsn m -> mdet Ops m = Exit /\ mtrace Ops m = Exit).
Proof.
  split; [| split].
  - intros n W. unfold mdet. destruct (wf_square_dims n m W) as [Er _]. apply (mdet_fuel_returns _ n m W). lia.
  - intros E. unfold mtrace. rewrite E, Nat.eqb_refl. eexists; reflexivity.
  - intros N. apply Nat.eqb_neq in N. unfold mdet, mtrace. cbn [mdet_fuel]. rewrite N. split; reflexivity.
Qed.
End AnyOps.

(** ** 2-D: "turns vectors by alpha", measured with the library's own Angle *)
Lemma rot2_turn_angle alpha axis Rm v0 v1 : rotation_matrix ROps alpha 2 axis = Ok Rm -> nonzero_vec [v0; v1] -> - PI <= alpha <= PI ->
  angle ROps [v0; v1] (mvec ROps Rm [v0; v1]) = Ok (Rabs alpha) /\ angle ROps (mvec ROps Rm [v0; v1]) [v0; v1] = Ok (Rabs alpha).
Proof.
  intros E Hv Ha. rewrite rot2_eq in E. injection E as <-.
  assert (mvec ROps [[cos alpha; - sin alpha]; [sin alpha; cos alpha]] [v0; v1] =
          [cos alpha * v0 - sin alpha * v1; sin alpha * v0 + cos alpha * v1]) as ->.
  { unfold mvec, vdot. cbn. list_eq; ring. }
  pose proof (cs1 alpha) as CS. set (c := cos alpha) in *. set (s := sin alpha) in *.
  pose proof (ldot_self_pos _ Hv) as PV. cbn [ldot] in PV.
  set (w := [c * v0 - s * v1; s * v0 + c * v1]).
  assert (ldot w w = ldot [v0; v1] [v0; v1]) as Eww. { unfold w. cbn [ldot]. transitivity ((c * c + s * s) * (v0 * v0 + (v1 * v1 + 0))); [ring | rewrite CS; ring]. }
  assert (ldot [v0; v1] w = c * ldot [v0; v1] [v0; v1]) as Evw. { unfold w. cbn [ldot]. ring. }
  assert (nonzero_vec w) as Hw.
  { unfold w. destruct (Req_dec (c * v0 - s * v1) 0) as [Z0 | N0]; [| left; exact N0].
    destruct (Req_dec (s * v0 + c * v1) 0) as [Z1 | N1]; [| right; left; exact N1].
    exfalso. unfold w in Eww. cbn [ldot] in Eww. rewrite Z0, Z1 in Eww. lra. }
  assert (vnorm ROps w = vnorm ROps [v0; v1]) as Enw. { unfold vnorm. cbn [nsqrt ROps]. rewrite !vdot_ldot, Eww. reflexivity. }
  pose proof (vnorm_sq [v0; v1]) as Sq. pose proof (vnorm_pos _ Hv) as Pn.
  destruct (angle_general [v0; v1] w eq_refl Hv Hw) as (th & E1 & E2 & _ & _ & ->). rewrite E1, E2.
  rewrite vdot_ldot, Evw, Enw.
  replace (c * ldot [v0; v1] [v0; v1] / (vnorm ROps [v0; v1] * vnorm ROps [v0; v1])) with c by (rewrite <- Sq; field; lra).
  unfold c. rewrite acos_cos_abs by exact Ha. split; reflexivity.
Qed.

(** ** non-vacuity *)
Example ex_det_square : wf_square 4 [[1; 2; 3; 4]; [0; 1; 0; 2]; [5; 0; 1; 0]; [0; 0; 0; 1]] /\
  mdet ROps [[1; 2; 3; 4]; [0; 1; 0; 2]; [5; 0; 1; 0]; [0; 0; 0; 1]] = Ok (-14) /\
  mrowsn [[1; 2; 3]; [4; 5; 6]] <> mcolsn [[1; 2; 3]; [4; 5; 6]].
Proof.
  split; [split; [reflexivity | repeat constructor]|]. split; [unfold mdet; cbn; f_equal; ring | cbn; lia].
Qed.
Example ex_turn2 : nonzero_vec [0; -2] /\ - PI <= 3 <= PI.
Proof. split; [right; left; lra|]. pose proof PI2_3_2 as H3. unfold PI2 in H3. split; lra. Qed.
