(** * C05 proofs, completeness of Inverse with partial pivoting:  det M != 0  ->  Inverse returns.
    Here the pivot rule matters, so fabs and > are interpreted: [R] is any real field (MathComp
    [realFieldType], e.g. the rationals, in which every double has its exact value), fabs = `|x|, > = the order.
    Argument: besides the soundness invariant J, the left block L of the work array always satisfies
    M = S * L for some S (row operations are reversible).  If at step i the pivot search (which selects a
    row of maximal |A[j][i]|, j >= i) finds 0, then column i of L vanishes from row i on while columns
    c < i are cleared off the diagonal with L_cc != 0: the vector v (v_c = -L_ci/L_cc for c < i, v_i = 1,
    0 beyond) is a non-zero kernel vector of L, so det L = 0 and det M = det S * det L = 0. *)
From mathcomp Require Import all_ssreflect all_fingroup all_algebra.
From Coq Require List ZArith.
From LP Require Import Num C04_Model C05_Model C04_Proofs_Struct C04_Proofs_Laws C05_Proofs.
Set Implicit Arguments. Unset Strict Implicit. Unset Printing Implicit Defensive.
Arguments tab : simpl never.
Arguments tab2 : simpl never.
Import Order.TTheory GRing.Theory Num.Theory.
Local Open Scope ring_scope.

Section Complete.
Variable R : realFieldType.
Variables (sqrtF : R -> R) (leF : R -> R -> bool).
Definition POps : NumOps R := @FOps R (fun x => `|x|) sqrtF (fun x y => x < y) leF.
Local Notation ment := (ment POps).
Local Notation tent := (tent POps).
Local Notation mx := (@mx_of R (fun x y => x / y) (fun x => `|x|) sqrtF (fun x y => x < y) leF).
Local Notation J := (@J R (fun x => `|x|) sqrtF (fun x y => x < y) leF).

(** the pivot search returns a row of maximal absolute value (strict comparison: the first one) *)
Lemma foldl_max (f : nat -> R) p0 l x :
  x \in p0 :: l -> f x <= f (foldl (fun p j => if f p < f j then j else p) p0 l).
Proof.
  elim: l p0 x => [|j l IH] p0 x /=; first by rewrite inE => /eqP ->.
  have Hc : f p0 <= f (if f p0 < f j then j else p0) /\ f j <= f (if f p0 < f j then j else p0).
    by case: (ltrP (f p0) (f j)) => H; split=> //; apply: ltW.
  rewrite inE => /orP [/eqP ->|]; first by apply: le_trans (proj1 Hc) (IH _ _ (mem_head _ _)).
  rewrite inE => /orP [/eqP ->|Hx]; first by apply: le_trans (proj2 Hc) (IH _ _ (mem_head _ _)).
  by apply: IH; rewrite inE Hx orbT.
Qed.

Section GJ.
Variable n : nat.
Variable M : mat R.
Hypothesis Mr : mrows M = n.
Let lt2 k : (k < n)%N -> (k < 2 * n)%N. Proof. by move=> H; rewrite mul2n -addnn ltn_addr. Qed.

Lemma pivot_max A i j : (i <= j < n)%N ->
  `|tent A j i| <= `|tent A (pivot_row POps n A i) i|.
Proof.
  move=> /andP [Hij Hj]; rewrite /pivot_row foldE seqE ?natE.
  apply: (@foldl_max (fun j => `|tent A j i|)); rewrite inE mem_iota.
  move: Hij; rewrite leq_eqVlt => /orP [/eqP ->|Hij]; first by rewrite eqxx.
  by rewrite Hij subnKC ?Hj ?orbT // (ltn_trans Hij Hj).
Qed.

(** left block of the work array, as a matrix *)
Definition Lmx (A : seq (seq R)) : 'M[R]_n := \matrix_(j, k) tent A j k.
Definition Sinv (A : seq (seq R)) := exists S : 'M[R]_n, mx n n M = S *m Lmx A.

Lemma Sinv_augment : Sinv (augment POps M).
Proof.
  exists 1%:M; rewrite mul1mx; apply/matrixP => j k.
  by rewrite !mxE (tent_augment _ _ _ _ Mr) ?lt2 // ltn_ord.
Qed.

Lemma kernel_det0 (L : 'M[R]_n) (v : 'cV[R]_n) (i : 'I_n) : L *m v = 0 -> v i 0 != 0 -> \det L = 0.
Proof.
  move=> HLv Hv; apply/eqP; apply: contraNT Hv => Hd.
  have HU : L \in unitmx by rewrite unitmxE unitfE.
  by rewrite -[v](mulKmx HU) HLv mulmx0 mxE.
Qed.

Lemma gj_step_ok A i : (i < n)%N -> J n M i A -> Sinv A -> \det (mx n n M) != 0 ->
  exists A', gj_step POps n A i = Ok A' /\ Sinv A'.
Proof.
  move=> Hi HJ [S HS] Hdet; have [HR HC HD] := HJ.
  rewrite /gj_step.
  set p := pivot_row _ _ _ _; have /andP [Hip Hpn] : (i <= p < n)%N by apply: pivot_range.
  set A1 := if _ then _ else A.
  pose s j := if j == i then p else if j == p then i else j.
  have Hs j : (j < n)%N -> (s j < n)%N by rewrite /s; case: eqP => // _; case: eqP.
  have Hsi j : (i <= j)%N -> (i <= s j)%N by rewrite /s; case: eqP => // _; case: eqP.
  have E1 j k : (j < n)%N -> (k < 2 * n)%N -> tent A1 j k = tent A (s j) k.
    move=> Hj Hk; rewrite /A1 /s ?natE; case: (altP (p =P i)) => [Epi|_] /=; last by rewrite tent_swap.
    by rewrite Epi; case: eqP => [->|].
  have C1 : forall c j, (c < i)%N -> (j < n)%N -> j != c -> tent A1 j c = 0.
    move=> c j Hc Hj Hjc; rewrite E1 ?lt2 ?(ltn_trans Hc) //; apply: HC; rewrite ?Hs // /s.
    case: (altP (j =P i)) => _; first by rewrite gtn_eqF // (leq_trans Hc).
    by case: (altP (j =P p)) => _ //; rewrite gtn_eqF.
  have D1 c : (c < i)%N -> tent A1 c c != 0.
    move=> Hc; rewrite E1 ?lt2 ?(ltn_trans Hc) // /s ltn_eqF //.
    by rewrite ltn_eqF ?HD // (leq_trans Hc).
  (* M = S1 * L1 *)
  pose pi : 'I_n := Ordinal Hi; pose pp : 'I_n := Ordinal Hpn.
  have HL1 : Lmx A1 = row_perm (tperm pi pp) (Lmx A).
    apply/matrixP => j k; rewrite !mxE E1 ?lt2 ?ltn_ord // permE /= /s.
    rewrite -!val_eqE /=; case: eqP => // _; by case: eqP.
  have HS1 : mx n n M = (S *m perm_mx (tperm pi pp)) *m Lmx A1.
    rewrite HL1 row_permE -mulmxA [perm_mx _ *m (_ *m _)]mulmxA -perm_mxM tperm2 perm_mx1 mul1mx; exact: HS.
  have Hd1 : \det (Lmx A1) != 0.
    by move: Hdet; rewrite HS1 det_mulmx mulf_eq0 negb_or => /andP [].
  (* the pivot is not zero *)
  have Hp : tent A1 i i != 0.
    apply/negP => /eqP Hz.
    have Hcol j : (i <= j < n)%N -> tent A1 j i = 0.
      move=> /andP [Hij Hj]; rewrite E1 ?lt2 //.
      have := @pivot_max A i (s j); rewrite Hsi ?Hs // => /(_ isT).
      have -> : tent A (pivot_row POps n A i) i = 0 by rewrite -/p -Hz E1 ?lt2 // /s eqxx.
      by rewrite normr0 normr_le0 => /eqP.
    pose v : 'cV[R]_n := \col_c (if (c < i)%N then - tent A1 c i / tent A1 c c else if (c : nat) == i then 1 else 0).
    have /negP := Hd1; apply; apply/eqP; apply: (@kernel_det0 _ v pi); last first.
      by rewrite mxE /= ltnn eqxx oner_neq0.
    apply/matrixP => j k; rewrite !mxE (bigD1 pi) //= !mxE /= ltnn eqxx mulr1.
    case: (ltnP j i) => Hji.
    - have Hjpi : j != pi by rewrite -val_eqE /= ltn_eqF.
      rewrite (bigD1 j) //= !mxE Hji big1 ?addr0.
        by rewrite [tent A1 j j * _]mulrC -mulrA mulVf ?D1 // mulr1 subrr.
      move=> c /andP [Hc1 Hc2]; rewrite !mxE; case: (ltnP c i) => Hci.
        by rewrite C1 ?mul0r // eq_sym.
      by rewrite -val_eqE /= in Hc1; rewrite (negbTE Hc1) mulr0.
    - rewrite Hcol ?Hji ?ltn_ord // add0r big1 // => c Hc; rewrite !mxE; case: (ltnP c i) => Hci.
        by rewrite C1 ?mul0r // gtn_eqF // (leq_trans Hci).
      by rewrite -val_eqE /= in Hc; rewrite (negbTE Hc) mulr0.
  rewrite /= -/(tent A1 i i) (negbTE Hp); eexists; split; first by [].
  (* M = S2 * L2 *)
  set A2 := eliminate _ _ _ _.
  pose r (j : 'I_n) := tent A1 j i / tent A1 i i.
  pose T : 'M[R]_n := \matrix_(j, c) (if ((c : nat) == i) && ((j : nat) != i) then r j else 0).
  have HL2 : Lmx A1 = (1%:M + T) *m Lmx A2.
    apply/matrixP => j k; rewrite mulmxDl mul1mx !mxE (bigD1 pi) //= big1 ?addr0; last first.
      by move=> c Hc; rewrite !mxE -val_eqE /= in Hc *; rewrite (negbTE Hc) mul0r.
    rewrite !mxE /= eqxx /= !(tent_elim _ _ _ _) ?lt2 ?ltn_ord // eqxx.
    case: (altP ((j : nat) =P i)) => [->|_] /=; first by rewrite mul0r addr0.
    by rewrite subrK.
  by exists (S *m perm_mx (tperm pi pp) *m (1%:M + T)); rewrite -mulmxA -HL2.
Qed.

Lemma gauss_jordan_ok : \det (mx n n M) != 0 -> exists A, gauss_jordan POps n (augment POps M) = Ok A.
Proof.
  move=> Hdet; rewrite /gauss_jordan foldE seqE.
  have G k : (k <= n)%N -> exists A', [/\ foldl (fun acc i => rbind acc (fun A => gj_step POps n A i))
                                           (Ok (augment POps M)) (iota 0 k) = Ok A', J n M k A' & Sinv A'].
    elim: k => [|k IH] Hk.
      by exists (augment POps M); split=> //; [apply: J_augment | apply: Sinv_augment].
    have [A' [E HJ HS]] := IH (ltnW Hk).
    have [A'' [Hst HS'']] := gj_step_ok Hk HJ HS Hdet.
    exists A''; split=> //; last exact: (gj_step_J Hk HJ Hst).
    by rewrite -addn1 iotaD foldl_cat E /= add0n.
  by have [A [E _ _]] := G n (leqnn n); exists A.
Qed.
End GJ.

(** for every invertible matrix, whatever the position of its zero entries, Inverse returns *)
Theorem inverse_complete n (M : mat R) : wf_mat M -> mrows M = n.+1 -> mcols M = n.+1 ->
  \det (mx n.+1 n.+1 M) != 0 -> exists X, inverse POps M = Ok X.
Proof.
  move=> HM Mr Mc Hdet; rewrite /inverse squareE Mr Mc eqxx /=.
  rewrite (proj1 (invertible_iff _ _ _ _ HM Mr Mc)) Hdet /=.
  have [A ->] := gauss_jordan_ok Mr Hdet; by eexists.
Qed.

(** soundness and completeness together *)
Theorem inverse_total n (M : mat R) : wf_mat M -> mrows M = n.+1 -> mcols M = n.+1 ->
  \det (mx n.+1 n.+1 M) != 0 ->
  exists X, [/\ inverse POps M = Ok X, wf_mat X, mx n.+1 n.+1 X *m mx n.+1 n.+1 M = 1%:M &
                mx n.+1 n.+1 M *m mx n.+1 n.+1 X = 1%:M].
Proof.
  move=> HM Mr Mc Hdet; have [X HX] := inverse_complete HM Mr Mc Hdet; exists X.
  by have [[_ HwX _ _]] := inverse_sound HX; rewrite Mr => -[H1 H2].
Qed.

(** non-vacuity: the exchange matrix ((0,1),(1,0)) - first pivot zero, the witness of the defect fixed
    by the row exchange - satisfies the hypotheses, so Inverse returns its inverse *)
Example exchange_matrix_inverts :
  let M := mk_mat 2 2 (fun i j => if i == j then 0 else 1 : R) in
  exists X, [/\ inverse POps M = Ok X, wf_mat X, mx 2 2 X *m mx 2 2 M = 1%:M & mx 2 2 M *m mx 2 2 X = 1%:M].
Proof.
  apply: (@inverse_total 1) => //.
  by rewrite det2 !mxE !ment_mk //= mul0r mul1r sub0r oppr_eq0 oner_neq0.
Qed.
End Complete.
