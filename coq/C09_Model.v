(** * C09 model: the index look-up of libphysica::Interpolation and its cache
    (src/Numerics.cpp: Interpolation::Bisection, Hunt, Locate, the query members that call Locate,
    Set_Prefactor, Multiply, copy/assignment; Interpolation_2D with its two helper objects).

    Hand-written, line by line after the C++ source; tied to the code by the differential
    correspondence check (harness/C09.cpp vs the extraction of this file).

    The table is immutable and is read through an index function [xv] with size [N]; every read goes
    through the checked accessor [getx] (outcome [OOB] when the C++ code would index outside the
    vector).  The mutable members are the explicit [state] = (jLast, correlated_calls, prefactor).
    C++ [int] / [unsigned int] conversions are written out ([i32], [u32]); in particular the
    [unsigned] difference in [fabs(j - jLast) < 10] wraps, so that the next call is "correlated"
    iff jLast <= j < jLast + 10.

    The *values* returned by Interpolate, Derivative, Integrate, Local_* and Global_* are computed
    by evaluation functions that are [Section] variables here (the Steffen coefficients are the
    subject of C01/C08): what this model fixes is which indices are located, in which order, how the
    cache evolves, and where the prefactor enters. *)
From Coq Require Import ZArith List Bool.
From LP Require Import Num.
Import ListNotations.
Local Open Scope Z_scope.
Local Open Scope res_scope.

(** value -> unsigned int, value -> int (two's complement, as g++ converts) *)
Definition u32 (z : Z) : Z := z mod 4294967296.
Definition i32 (z : Z) : Z := (z + 2147483648) mod 4294967296 - 2147483648.

Section Interp1D.
Context {T : Type} (Ops : NumOps T).
Variable N : Z.          (* unsigned int N = x_values.size() *)
Variable xv : Z -> T.    (* x_values[i]; domain = {x_values[0], x_values[N-1]} *)

Definition getx (i : Z) : res T := if (0 <=? i) && (i <? N) then Ok (xv i) else OOB.

Record state : Type := mkState { jLast : Z; correlated : bool; prefactor : T }.
(** the constructor: prefactor(1.0), jLast(0), correlated_calls(false) *)
Definition fresh (p : T) : state := mkState 0 false p.
Definition init : state := fresh (n1 Ops).

(** unsigned int Bisection(double x, int jLeft, int jRight)
      while((jRight - jLeft) > 1) { int jm = (jRight + jLeft) >> 1;
                                    if(x >= x_values[jm]) jLeft = jm; else jRight = jm; }
      return jLeft; *)
Fixpoint bisection (fuel : nat) (x : T) (jl jr : Z) : res Z :=
  if 1 <? jr - jl then
    match fuel with
    | O => Fuel
    | S f =>
        let jm := Z.shiftr (jr + jl) 1 in
        let* xm := getx jm in
        if ngeb Ops x xm then bisection f x jm jr else bisection f x jl jm
    end
  else Ok (u32 jl).
(** the loop halves jRight - jLeft; fuel jRight - jLeft is never exhausted (theorem) *)
Definition bisect (x : T) (jl jr : Z) : res Z := bisection (Z.to_nat (jr - jl)) x jl jr.

(** Hunt, upward loop:  int dj, jd; unsigned ju;
      while(x > x_values[ju]) { jd = ju; ju += dj;
                                if(ju > N - 1) { ju = N - 1; break; } else dj += dj; } *)
Fixpoint hunt_up (fuel : nat) (x : T) (jd ju dj : Z) : res (Z * Z) :=
  let* xu := getx ju in
  if ngtb Ops x xu then
    match fuel with
    | O => Fuel
    | S f =>
        let jd' := i32 ju in
        let ju' := u32 (ju + u32 dj) in
        if u32 (N - 1) <? ju' then Ok (jd', u32 (N - 1))
        else hunt_up f x jd' ju' (dj + dj)
    end
  else Ok (jd, ju).

(** Hunt, downward loop:
      while(x < x_values[jd]) { ju = jd; jd -= dj;
                                if(jd < 0) { jd = 0; break; } else dj += dj; } *)
Fixpoint hunt_down (fuel : nat) (x : T) (jd ju dj : Z) : res (Z * Z) :=
  let* xd := getx jd in
  if nltb Ops x xd then
    match fuel with
    | O => Fuel
    | S f =>
        let ju' := u32 jd in
        let jd' := jd - dj in
        if jd' <? 0 then Ok (0, ju') else hunt_down f x jd' ju' (dj + dj)
    end
  else Ok (jd, ju).

(** bisection phase of Hunt:  if((ju - jd) > 1) jd = Bisection(x, jd, ju);  return jd; *)
Definition hunt_finish (x : T) (p : Z * Z) : res Z :=
  let '(jd, ju) := p in
  if 1 <? u32 (ju - u32 jd) then
    let* r := bisect x jd (i32 ju) in Ok (u32 (i32 r))
  else Ok (u32 jd).

(** unsigned int Hunt(double x): starts from the member jLast.  Each loop strictly moves ju (jd)
    towards the end of the table, so N iterations are never exhausted (theorem). *)
Definition hunt (x : T) (jL : Z) : res Z :=
  let fuel := Z.to_nat N in
  let* xl := getx jL in
  if ngtb Ops x xl then
    (* jd = jLast; ju = jd + dj; *)
    let* p := hunt_up fuel x (i32 jL) (u32 (i32 jL + 1)) 1 in hunt_finish x p
  else if nltb Ops x xl then
    (* ju = jLast; jd = ju - dj; *)
    let* p := hunt_down fuel x (i32 (u32 (jL - u32 1))) jL 1 in hunt_finish x p
  else Ok jL.

(** unsigned int Locate(double x), the branch for x outside [domain[0], domain[1]]: one per cent of
    the first / last interval is tolerated, otherwise std::exit.  It reads neither jLast nor
    correlated_calls (no [state] argument). *)
Definition locate_outside (x d0 d1 : T) : res Z :=
  let* x1 := getx 1 in
  let* x0 := getx 0 in
  let tol_left := nmul Ops (ndec Ops 1 100) (nsub Ops x1 x0) in
  let* xn1 := getx (N - 1) in
  let* xn2 := getx (N - 2) in
  let tol_right := nmul Ops (ndec Ops 1 100) (nsub Ops xn1 xn2) in
  if nltb Ops (nabs Ops (nsub Ops x d0)) tol_left then Ok 0
  else if nltb Ops (nabs Ops (nsub Ops x d1)) tol_right then Ok (u32 (N - 2))
  else Exit.

(** the branch for x inside the domain:
      j = correlated_calls ? Hunt(x) : Bisection(x, 0, N - 1);
      if(j < N - 2 && x == x_values[j + 1]) j++; *)
Definition locate_inside (st : state) (x : T) : res Z :=
  let* j := if correlated st then hunt x (jLast st) else bisect x 0 (i32 (u32 (N - 1))) in
  if j <? u32 (N - 2) then
    let* xn := getx (j + 1) in
    if neqb Ops x xn then Ok (u32 (j + 1)) else Ok j
  else Ok j.

(** if(std::isnan(x)) { diagnostic; std::exit(EXIT_FAILURE); }  comes first *)
Definition locate_index (st : state) (x : T) : res Z :=
  if nisnan Ops x then Exit
  else
    let* d0 := getx 0 in
    let* d1 := getx (N - 1) in
    if nltb Ops x d0 || ngtb Ops x d1 then locate_outside x d0 d1 else locate_inside st x.

(** correlated_calls = (fabs(j - jLast) < 10): j - jLast is an unsigned int *)
Definition still_correlated (j jL : Z) : bool := u32 (j - jL) <? 10.

Definition locate (st : state) (x : T) : res (state * Z) :=
  let* j := locate_index st x in
  Ok (mkState j (still_correlated j (jLast st)) (prefactor st), j).

(** which search a call runs (model-side trace only; not observable on the implementation):
    0 extrapolation branch, 1 bisection, 2 hunt upwards, 3 hunt downwards, 4 hunt with x == x_values[jLast] *)
Definition locate_kind (st : state) (x : T) : Z :=
  if nltb Ops x (xv 0) || ngtb Ops x (xv (N - 1)) then 0
  else if negb (correlated st) then 1
  else if ngtb Ops x (xv (jLast st)) then 2
  else if nltb Ops x (xv (jLast st)) then 3 else 4.

(** ** Queries.  Evaluation of the spline on a located segment is a parameter. *)
Variable seg_eval : Z -> T -> T.                 (* j x: a[j] dx^3 + b[j] dx^2 + c[j] dx + d[j] *)
Variable seg_deriv : Z -> T -> Z -> T.           (* j x k, k = 1,2,3: the bracket after "prefactor *" *)
Variable integ_eval : Z -> Z -> T -> T -> T -> T. (* i_1 i_2 x_1 x_2 prefactor: the summation loop *)
Variable ext_eval : bool -> T -> T -> Z -> Z -> T -> T -> T -> T.
                                                 (* max? f_left f_right i_1 i_2 x_1 x_2 prefactor *)
Variable glob_eval : bool -> T -> T.             (* max? prefactor *)

(** double Interpolate(double x): int j = Locate(x); return prefactor * (...) *)
Definition interpolate (st : state) (x : T) : res (state * (Z * T)) :=
  let* (st1, j) := locate st x in
  Ok (st1, (j, nmul Ops (prefactor st1) (seg_eval (i32 j) x))).

(** double Derivative(double x, unsigned int derivation): Locate(x); derivation == 0 calls Interpolate(x) *)
Definition derivative (st : state) (x : T) (k : Z) : res (state * (list Z * T)) :=
  let* (st1, j) := locate st x in
  if k =? 0 then
    let* (st2, (j2, v)) := interpolate st1 x in Ok (st2, ([j; j2], v))
  else if k <=? 3 then Ok (st1, ([j], nmul Ops (prefactor st1) (seg_deriv (i32 j) x k)))
  else Ok (st1, ([j], n0 Ops)).

(** double Integrate(double x_1, double x_2): swap if x_1 > x_2, Locate(x_1), Locate(x_2), loop, sign * integral *)
Definition integrate (st : state) (x1 x2 : T) : res (state * (list Z * T)) :=
  let swap := ngtb Ops x1 x2 in
  let a := if swap then x2 else x1 in
  let b := if swap then x1 else x2 in
  let sign := if swap then nneg Ops (n1 Ops) else n1 Ops in
  let* (st1, i1) := locate st a in
  let* (st2, i2) := locate st1 b in
  Ok (st2, ([i1; i2], nmul Ops sign (integ_eval (i32 i1) (i32 i2) a b (prefactor st2)))).

(** double Local_Minimum / Local_Maximum(double x_1, double x_2):
    Check_For_Error(x_2 < x_1), Interpolate(x_1), Interpolate(x_2), Locate(x_1), Locate(x_2), knot loop *)
Definition local_ext (mx : bool) (st : state) (x1 x2 : T) : res (state * (list Z * T)) :=
  if nltb Ops x2 x1 then Exit
  else
    let* (st1, (ja, fl)) := interpolate st x1 in
    let* (st2, (jb, fr)) := interpolate st1 x2 in
    let* (st3, i1) := locate st2 x1 in
    let* (st4, i2) := locate st3 x2 in
    Ok (st4, ([ja; jb; i1; i2], ext_eval mx fl fr (i32 i1) (i32 i2) x1 x2 (prefactor st4))).

Inductive op : Type :=
| OpLocate (x : T)
| OpInterpolate (x : T)
| OpDerivative (x : T) (k : Z)
| OpIntegrate (x1 x2 : T)
| OpLocalMin (x1 x2 : T)
| OpLocalMax (x1 x2 : T)
| OpGlobalMin
| OpGlobalMax
| OpSetPrefactor (f : T)
| OpMultiply (f : T)
| OpCopy.            (* continue on a copy-constructed / assigned object: all members are duplicated *)

(** what the caller sees: the index (Locate), the value together with the indices located on the
    way (value queries), nothing (void members), or the end of the process *)
Inductive out : Type :=
| OIndex (j : Z)
| OValue (idx : list Z) (v : T)
| ONone
| OExit
| OOOB
| OFuel.

Definition wrap (st : state) (r : res (state * out)) : state * out :=
  match r with Ok p => p | Exit => (st, OExit) | OOB => (st, OOOB) | Fuel => (st, OFuel) end.

Definition step (st : state) (o : op) : state * out :=
  match o with
  | OpLocate x => wrap st (let* (s, j) := locate st x in Ok (s, OIndex j))
  | OpInterpolate x => wrap st (let* (s, (j, v)) := interpolate st x in Ok (s, OValue [j] v))
  | OpDerivative x k => wrap st (let* (s, (l, v)) := derivative st x k in Ok (s, OValue l v))
  | OpIntegrate x1 x2 => wrap st (let* (s, (l, v)) := integrate st x1 x2 in Ok (s, OValue l v))
  | OpLocalMin x1 x2 => wrap st (let* (s, (l, v)) := local_ext false st x1 x2 in Ok (s, OValue l v))
  | OpLocalMax x1 x2 => wrap st (let* (s, (l, v)) := local_ext true st x1 x2 in Ok (s, OValue l v))
  | OpGlobalMin => (st, OValue [] (glob_eval false (prefactor st)))
  | OpGlobalMax => (st, OValue [] (glob_eval true (prefactor st)))
  | OpSetPrefactor f => (mkState (jLast st) (correlated st) f, ONone)                          (* prefactor = factor *)
  | OpMultiply f => (mkState (jLast st) (correlated st) (nmul Ops (prefactor st) f), ONone)   (* prefactor *= factor *)
  | OpCopy => (st, ONone)
  end.

(** the object after a history of calls *)
Definition run (h : list op) (st : state) : state := fold_left (fun s o => fst (step s o)) h st.
(** the prefactor after a history, computed from the Set_Prefactor / Multiply calls alone *)
Definition prefactor_after (h : list op) (p : T) : T :=
  fold_left (fun p o => match o with OpSetPrefactor f => f | OpMultiply f => nmul Ops p f | _ => p end) h p.
End Interp1D.

Arguments state T : clear implicits.
Arguments op T : clear implicits.
Arguments out T : clear implicits.

(** ** Interpolation_2D: two helper Interpolation objects (x_int, y_int) used only for Locate,
    its own prefactor, bilinear interpolation on function_values[i][j] *)
Section Interp2D.
Context {T : Type} (Ops : NumOps T).
Variable Nx : Z. Variable xv : Z -> T.
Variable Ny : Z. Variable yv : Z -> T.
Variable fv : Z -> Z -> T.

Record state2 : Type := mkState2 { sx : state T; sy : state T; pf2 : T }.
Definition init2 : state2 := mkState2 (init Ops) (init Ops) (n1 Ops).

Definition getf (i j : Z) : res T :=
  if (0 <=? i) && (i <? Nx) && (0 <=? j) && (j <? Ny) then Ok (fv i j) else OOB.

Definition interpolate2 (st : state2) (x y : T) : res (state2 * (Z * Z * T)) :=
  let* (sx1, i) := locate Ops Nx xv (sx st) x in
  let* (sy1, j) := locate Ops Ny yv (sy st) y in
  let* xi := getx Nx xv i in
  let* xi1 := getx Nx xv (i + 1) in
  let* yj := getx Ny yv j in
  let* yj1 := getx Ny yv (j + 1) in
  let t := ndiv Ops (nsub Ops x xi) (nsub Ops xi1 xi) in
  let u := ndiv Ops (nsub Ops y yj) (nsub Ops yj1 yj) in
  let* f0 := getf i j in
  let* f1 := getf (i + 1) j in
  let* f2 := getf (i + 1) (j + 1) in
  let* f3 := getf i (j + 1) in
  let one := n1 Ops in
  let m := nmul Ops in
  let s := nsub Ops in
  let v := nmul Ops (pf2 st)
             (nadd Ops (nadd Ops (nadd Ops (m (m (s one t) (s one u)) f0) (m (m t (s one u)) f1))
                                 (m (m t u) f2))
                       (m (m (s one t) u) f3)) in
  Ok (mkState2 sx1 sy1 (pf2 st), (i, j, v)).

(** double Interpolation_2D::Global_Minimum() / Global_Maximum():
      for(auto& row : function_values) { row_minima.push_back( *std::min_element(row.begin(), row.end()));
                                         row_maxima.push_back( *std::max_element(row.begin(), row.end())); }
      f_min = *std::min_element(row_minima...);  f_max = *std::max_element(row_maxima...);
      return std::min(prefactor * f_min, prefactor * f_max);      (std::max for Global_Maximum)
    std::min_element / std::max_element return the FIRST smallest / largest element; dereferencing the end iterator of an
    empty range is [OOB].  The members read: function_values and prefactor — neither helper object. *)
Fixpoint min_from (cur : T) (l : list T) : T :=
  match l with [] => cur | v :: r => min_from (if nltb Ops v cur then v else cur) r end.
Fixpoint max_from (cur : T) (l : list T) : T :=
  match l with [] => cur | v :: r => max_from (if nltb Ops cur v then v else cur) r end.
Definition min_element (l : list T) : res T := match l with [] => OOB | a :: r => Ok (min_from a r) end.
Definition max_element (l : list T) : res T := match l with [] => OOB | a :: r => Ok (max_from a r) end.
Fixpoint map_res {A B : Type} (f : A -> res B) (l : list A) : res (list B) :=
  match l with
  | [] => Ok []
  | a :: r => let* b := f a in let* rest := map_res f r in Ok (b :: rest)
  end.
Definition zrange (n : Z) : list Z := map Z.of_nat (seq 0 (Z.to_nat n)).
Definition rows2 : list (list T) := map (fun i => map (fun j => fv i j) (zrange Ny)) (zrange Nx).
Definition glob2 (mx : bool) (p : T) : res T :=
  let* row_minima := map_res min_element rows2 in
  let* row_maxima := map_res max_element rows2 in
  let* f_min := min_element row_minima in
  let* f_max := max_element row_maxima in
  Ok ((if mx then nmax Ops else nmin Ops) (nmul Ops p f_min) (nmul Ops p f_max)).

Inductive op2 : Type :=
| Op2Interpolate (x y : T)
| Op2SetPrefactor (f : T)
| Op2Multiply (f : T)
| Op2Copy
| Op2GlobalMin
| Op2GlobalMax.

Inductive out2 : Type :=
| O2Value (i j : Z) (v : T)
| O2None
| O2Exit
| O2OOB
| O2Fuel
| O2Glob (v : T).

Definition wrap2 (st : state2) (r : res T) : state2 * out2 :=
  match r with Ok v => (st, O2Glob v) | Exit => (st, O2Exit) | OOB => (st, O2OOB) | Fuel => (st, O2Fuel) end.

Definition step2 (st : state2) (o : op2) : state2 * out2 :=
  match o with
  | Op2Interpolate x y =>
      match interpolate2 st x y with
      | Ok (s, (i, j, v)) => (s, O2Value i j v)
      | Exit => (st, O2Exit) | OOB => (st, O2OOB) | Fuel => (st, O2Fuel)
      end
  | Op2SetPrefactor f => (mkState2 (sx st) (sy st) f, O2None)
  | Op2Multiply f => (mkState2 (sx st) (sy st) (nmul Ops (pf2 st) f), O2None)
  | Op2Copy => (st, O2None)
  | Op2GlobalMin => wrap2 st (glob2 false (pf2 st))
  | Op2GlobalMax => wrap2 st (glob2 true (pf2 st))
  end.

Definition run2 (h : list op2) (st : state2) : state2 := fold_left (fun s o => fst (step2 s o)) h st.
End Interp2D.
Arguments state2 T : clear implicits.
Arguments op2 T : clear implicits.
Arguments out2 T : clear implicits.

(** ** Save_Function: an OUTPUT of the object (the table it writes must follow the prefactor and the history exactly as
    Interpolate does).
      void Interpolation::Save_Function(std::string filename, unsigned int points)
        { x_points = Linear_Space(domain[0], domain[1], points); for(auto& x : x_points) f << x << "\t" << Interpolate(x) << std::endl; }
      void Interpolation_2D::Save_Function(filename, x_points, y_points = 0)
        { if(y_points == 0) y_points = x_points; x_list = Linear_Space(domain[0][0], domain[0][1], x_points); y_list likewise;
          for(x) for(y) f << x << "\t" << y << "\t" << Interpolate(x, y) << std::endl; }
    Utilities.cpp  Linear_Space(min, max, steps): if(steps < 2 || min == max) return {min};
        step = (max - min) / (steps - 1.0);  for(unsigned i = 0; i < steps; i++) result.push_back(min + i * step);
    The calls Save_Function makes on the object are member calls of the model ([OpInterpolate] / [Op2Interpolate]), in this order;
    a row of the file is the argument and the value of the call (the text formatting is not modelled). *)
Section SaveFunction.
Context {T : Type} (Ops : NumOps T).

Definition linear_space (mn mx : T) (steps : Z) : list T :=
  if (steps <? 2) || neqb Ops mn mx then [mn]
  else
    let step := ndiv Ops (nsub Ops mx mn) (nsub Ops (nofZ Ops steps) (n1 Ops)) in
    map (fun i => nadd Ops mn (nmul Ops (nofZ Ops i) step)) (zrange steps).

(** domain = {x_values[0], x_values[N-1]} *)
Definition save_ops (N : Z) (xv : Z -> T) (points : Z) : list (op T) :=
  map (fun x => OpInterpolate x) (linear_space (xv 0) (xv (N - 1)) points).

Definition save_ops2 (Nx : Z) (xv : Z -> T) (Ny : Z) (yv : Z -> T) (x_points y_points : Z) : list (op2 T) :=
  let y_points' := if y_points =? 0 then x_points else y_points in
  let y_list := linear_space (yv 0) (yv (Ny - 1)) y_points' in
  flat_map (fun x => map (fun y => Op2Interpolate x y) y_list) (linear_space (xv 0) (xv (Nx - 1)) x_points).
End SaveFunction.

(** ** The constructors (every overload, with the unit arguments x_dim / y_dim / f_dim).
    The unit arguments enter the TABLES only (a factor > 0 multiplies every abscissa / function value,
    anything else — the default -1.0 included — leaves them alone); the members that the queries
    read besides the tables start as prefactor(1.0), jLast(0), correlated_calls(false), whatever the
    unit arguments are.  [domain] is the public data member {x_values[0], x_values[N-1]} (after the
    unit scaling).  The Steffen coefficients computed from the scaled tables are the subject of C01. *)
Section Construct.
Context {T : Type} (Ops : NumOps T).

(** the default argument of x_dim, y_dim, f_dim: -1.0 *)
Definition dflt_dim : T := nneg Ops (n1 Ops).

(** if(dim > 0.0) for(i ...) values[i] *= dim; *)
Definition scale_units (dim : T) (l : list T) : list T :=
  if ngtb Ops dim (n0 Ops) then map (fun v => nmul Ops v dim) l else l.

(** for(i = 1; i < N; i++) if(x_values[i] <= x_values[i - 1]) exit *)
Fixpoint strictly_increasing (l : list T) : bool :=
  match l with
  | a :: r => match r with
              | b :: _ => if nleb Ops b a then false else strictly_increasing r
              | [] => true
              end
  | [] => true
  end.

Record object1 : Type := mkObject1 {
  o_xs : list T;          (* x_values *)
  o_fs : list T;          (* function_values *)
  o_dom : T * T;          (* domain *)
  o_state : state T }.    (* jLast, correlated_calls, prefactor *)

(** Interpolation(arg_values, func_values, x_dim, f_dim): the two length checks, the unit conversion of both
    tables, THEN the strict-increase loop on the converted x_values (the units they are stored in), then
    domain = {x_values[0], x_values[N-1]} *)
Definition construct1 (xs fs : list T) (x_dim f_dim : T) : res object1 :=
  if negb (Nat.eqb (length xs) (length fs)) then Exit
  else if Nat.ltb (length xs) 2 then Exit
  else
    let xs' := scale_units x_dim xs in
    let fs' := scale_units f_dim fs in
    if negb (strictly_increasing xs') then Exit
    else Ok (mkObject1 xs' fs' (nth0 Ops xs' 0, nth0 Ops xs' (length xs - 1)) (init Ops)).

(** Interpolation(data, x_dim, f_dim): rows (x, f), then *this = Interpolation(x, f, x_dim, f_dim) *)
Fixpoint split_rows2 (data : list (list T)) : res (list T * list T) :=
  match data with
  | [] => Ok ([], [])
  | r :: rest =>
      match r with
      | [x; f] => let* xf := split_rows2 rest in Ok (x :: fst xf, f :: snd xf)
      | _ => Exit
      end
  end.
Definition construct1_rows (data : list (list T)) (x_dim f_dim : T) : res object1 :=
  let* xf := split_rows2 data in construct1 (fst xf) (snd xf) x_dim f_dim.

(** Interpolation(): the table {-1,0,1} -> {0,0,0} *)
Definition construct1_default : res object1 :=
  construct1 [nneg Ops (n1 Ops); n0 Ops; n1 Ops] [n0 Ops; n0 Ops; n0 Ops] dflt_dim dflt_dim.

Record object2 : Type := mkObject2 {
  o2_xs : list T; o2_ys : list T; o2_f : list (list T);
  o2_dom : (T * T) * (T * T);      (* domain = {x_int.domain, y_int.domain} *)
  o2_state : state2 T }.

(** Interpolation_2D(x_val, y_val, func_values, x_dim, y_dim, f_dim): dimension check, unit scaling of
    the three tables, prefactor(1.0), x_int = Interpolation(x_values, zeros), y_int likewise *)
Definition construct2 (xs ys : list T) (f : list (list T)) (x_dim y_dim f_dim : T) : res object2 :=
  let Nx := length xs in
  let Ny := length ys in
  if negb (Nat.eqb (length f) Nx && forallb (fun r => Nat.eqb (length r) Ny) f) then Exit
  else
    let xs' := scale_units x_dim xs in
    let ys' := scale_units y_dim ys in
    let f' := if ngtb Ops f_dim (n0 Ops) then map (map (fun v => nmul Ops v f_dim)) f else f in
    let* xi := construct1 xs' (repeat (n0 Ops) Nx) dflt_dim dflt_dim in
    let* yi := construct1 ys' (repeat (n0 Ops) Ny) dflt_dim dflt_dim in
    Ok (mkObject2 xs' ys' f' (o_dom xi, o_dom yi) (mkState2 (o_state xi) (o_state yi) (n1 Ops))).

(** Interpolation_2D(data_table, x_dim, y_dim, f_dim): rows (x, y, f) in row-major order.
    std::sort / std::unique on the x and the y column (insertion sort: on values without NaN every
    sorting algorithm returns the same sequence up to the sign of zeros; std::unique keeps the first
    element of a run), size check, then the table is filled row by row and every row is compared with
    the grid point it is stored at. *)
Fixpoint cols3 (data : list (list T)) : res (list T * list T) :=
  match data with
  | [] => Ok ([], [])
  | r :: rest =>
      match r with
      | [x; y; _] => let* xy := cols3 rest in Ok (x :: fst xy, y :: snd xy)
      | _ => Exit
      end
  end.
Fixpoint insert_sorted (v : T) (l : list T) : list T :=
  match l with
  | [] => [v]
  | a :: r => if nltb Ops v a then v :: l else a :: insert_sorted v r
  end.
Definition sort_list (l : list T) : list T := fold_right insert_sorted [] l.
Fixpoint unique_from (a : T) (l : list T) : list T :=
  match l with
  | [] => [a]
  | b :: r => if neqb Ops a b then unique_from a r else a :: unique_from b r
  end.
Definition unique_list (l : list T) : list T := match l with [] => [] | a :: r => unique_from a r end.

(** one row of f: for(i_y ...) { if(x[i_x] != data_table[i][0] || y[i_y] != data_table[i][1]) exit; f[i_x][i_y] = data_table[i][2]; i++; } *)
Fixpoint fill_row (x : T) (ys : list T) (rows : list (list T)) : res (list T * list (list T)) :=
  match ys with
  | [] => Ok ([], rows)
  | y :: ys' =>
      match rows with
      | [rx; ry; rf] :: rest =>
          if nneb Ops x rx || nneb Ops y ry then Exit
          else let* p := fill_row x ys' rest in Ok (rf :: fst p, snd p)
      | _ => OOB
      end
  end.
Fixpoint fill_table (xs ys : list T) (rows : list (list T)) : res (list (list T)) :=
  match xs with
  | [] => Ok []
  | x :: xs' =>
      let* p := fill_row x ys rows in
      let* rest := fill_table xs' ys (snd p) in Ok (fst p :: rest)
  end.
Definition construct2_rows (data : list (list T)) (x_dim y_dim f_dim : T) : res object2 :=
  let* xy := cols3 data in
  let x := unique_list (sort_list (fst xy)) in
  let y := unique_list (sort_list (snd xy)) in
  if negb (Nat.eqb (length x * length y) (length data)) then Exit
  else
    let* f := fill_table x y data in
    construct2 x y f x_dim y_dim f_dim.

(** Interpolation_2D(): the 3x3 table of zeros on {-1,0,1}^2 *)
Definition construct2_default : res object2 :=
  let g := [nneg Ops (n1 Ops); n0 Ops; n1 Ops] in
  construct2 g g (repeat (repeat (n0 Ops) 3) 3) dflt_dim dflt_dim dflt_dim.
End Construct.
Arguments object1 T : clear implicits.
Arguments object2 T : clear implicits.

(** ** Sessions: several objects alive in one process, holding possibly different tables.
    An object is the number of the table it holds plus its mutable members; the objects of the process
    live in numbered slots.  The compiler-generated copy constructor / copy assignment / move
    assignment / std::swap / destructor are member-wise: a copy receives the table AND the members of
    its source and shares nothing with it afterwards, so that whatever later happens to the source
    (further calls, assignment of another table, destruction) is invisible on the copy, and vice versa.
    Generic in the member state (1-D: [state], 2-D: [state2]); [tstep t] is the step function of an object
    holding table number t. *)
Section Session.
Variables (St Op Out : Type).
Variable tstep : nat -> St -> Op -> St * Out.
Variable tinit : St.          (* the members after construction: the same for every table *)
Variable onone : Out.         (* what a void operation shows *)

Record sobj : Type := mkSobj { so_tab : nat; so_st : St }.
Definition store : Type := list (option sobj).

Definition get_slot (k : nat) (s : store) : option sobj := nth k s None.
Fixpoint set_slot (k : nat) (v : option sobj) (s : store) : store :=
  match k with
  | O => v :: tl s
  | S k' => hd None s :: set_slot k' v (tl s)
  end.

Inductive sop : Type :=
| SQuery (k : nat) (q : Op)        (* a member call on the object in slot k *)
| SConstruct (k t : nat)           (* slot k = Interpolation(table t, ...): new object or assignment from a temporary *)
| SCopy (a b : nat)                (* slot b = copy of slot a: copy construction or copy assignment *)
| SSwap (a b : nat)                (* std::swap(slot a, slot b) *)
| SDestroy (k : nat).              (* the object in slot k is destroyed *)

Definition sstep (s : store) (o : sop) : store * Out :=
  match o with
  | SQuery k q =>
      match get_slot k s with
      | Some ob => let r := tstep (so_tab ob) (so_st ob) q in
                   (set_slot k (Some (mkSobj (so_tab ob) (fst r))) s, snd r)
      | None => (s, onone)
      end
  | SConstruct k t => (set_slot k (Some (mkSobj t tinit)) s, onone)
  | SCopy a b => (match get_slot a s with Some ob => set_slot b (Some ob) s | None => s end, onone)
  | SSwap a b => (set_slot a (get_slot b s) (set_slot b (get_slot a s) s), onone)
  | SDestroy k => (set_slot k None s, onone)
  end.

Definition srun (h : list sop) (s : store) : store := fold_left (fun s o => fst (sstep s o)) h s.
End Session.
Arguments mkSobj {St}. Arguments so_tab {St}. Arguments so_st {St}.
Arguments SQuery {Op}. Arguments SConstruct {Op}. Arguments SCopy {Op}. Arguments SSwap {Op}. Arguments SDestroy {Op}.
