(** * C09 model, part 2: the VALUE computations of the 1-D queries, line by line
    (src/Numerics.cpp: the bodies of Interpolation::Interpolate, Derivative, Integrate, Local_Minimum / Local_Maximum,
    Global_Minimum / Global_Maximum after their Locate calls).

    C09_Model.v keeps these five computations as Section variables (its history theorems hold for every choice of
    them).  Here they are written out after the source, over the tables the object holds: x_values (size N),
    function_values (size N) and the Steffen coefficient vectors a, b, c, d (size N - 1), each read through the
    checked accessor [geti] (outcome [OOB] where the C++ code would index outside the vector).  How the coefficient
    vectors are computed from the table (Compute_Steffen_Coefficients) is the subject of C01; the driver takes them from
    C01_Model.build.  [step_full] is the step function of C09_Model.v with these computations plugged in; it is the term
    the correspondence run compares with the library (indices AND values of every query). *)
From Coq Require Import ZArith List Bool.
From LP Require Import Num C09_Model.
Import ListNotations.
Local Open Scope Z_scope.
Local Open Scope res_scope.

Section Eval1D.
Context {T : Type} (Ops : NumOps T).
Variable N : Z.                  (* unsigned int N *)
Variable xv : Z -> T.            (* x_values[i], 0 <= i < N *)
Variable fv : Z -> T.            (* function_values[i], 0 <= i < N *)
Variables av bv cv dv : Z -> T.  (* a[j], b[j], c[j], d[j], 0 <= j < N - 1 *)

Local Notation "x + y" := (nadd Ops x y) : num_scope.
Local Notation "x - y" := (nsub Ops x y) : num_scope.
Local Notation "x * y" := (nmul Ops x y) : num_scope.
Local Notation "x / y" := (ndiv Ops x y) : num_scope.
Local Notation lit k := (nofZ Ops k).
Delimit Scope num_scope with num.

Definition geti (n : Z) (tab : Z -> T) (i : Z) : res T := if (0 <=? i) && (i <? n) then Ok (tab i) else OOB.

(** Interpolate after  int j = Locate(x):
      double x_j = x_values[j];
      prefactor * (a[j] * pow((x - x_j), 3.0) + b[j] * pow((x - x_j), 2.0) + c[j] * (x - x_j) + d[j])
    this is the bracket; the multiplication by the prefactor is in C09_Model.interpolate *)
Definition seg_value (j : Z) (x : T) : res T :=
  let* xj := geti N xv j in
  let* a := geti (N - 1) av j in
  let* b := geti (N - 1) bv j in
  let* c := geti (N - 1) cv j in
  let* d := geti (N - 1) dv j in
  let dx := (x - xj)%num in
  Ok (a * npowi Ops dx 3 + b * npowi Ops dx 2 + c * dx + d)%num.

(** Derivative after  int j = Locate(x); double x_j = x_values[j];  derivation = 1, 2, 3 (0 calls Interpolate, > 3 returns 0.0:
    both in C09_Model.derivative):
      1: 3.0 * a[j] * pow((x - x_j), 2.0) + 2.0 * b[j] * (x - x_j) + c[j]
      2: 6.0 * a[j] * (x - x_j) + 2.0 * b[j]
      3: 6.0 * a[j] *)
Definition deriv_value (j : Z) (x : T) (k : Z) : res T :=
  let* xj := geti N xv j in
  let dx := (x - xj)%num in
  if k =? 1 then
    let* a := geti (N - 1) av j in let* b := geti (N - 1) bv j in let* c := geti (N - 1) cv j in
    Ok (lit 3 * a * npowi Ops dx 2 + lit 2 * b * dx + c)%num
  else if k =? 2 then
    let* a := geti (N - 1) av j in let* b := geti (N - 1) bv j in
    Ok (lit 6 * a * dx + lit 2 * b)%num
  else
    let* a := geti (N - 1) av j in Ok (lit 6 * a)%num.

(** prefactor * (a[j] / 4.0 * pow((xq - x_j), 4.0) + b[j] / 3.0 * pow((xq - x_j), 3.0) + c[j] / 2.0 * pow((xq - x_j), 2.0) + d[j] * xq) *)
Definition stem (p xj a b c d xq : T) : T :=
  let dx := (xq - xj)%num in
  (p * (a / lit 4 * npowi Ops dx 4 + b / lit 3 * npowi Ops dx 3 + c / lit 2 * npowi Ops dx 2 + d * xq))%num.

(** Integrate after the two Locate calls:
      double integral = 0;
      for(int i = 0; i < (i_2 - i_1 + 1); i++)
      { int j = i_1 + i; double x_j = x_values[j];
        double x_left = (i == 0) ? x_1 : x_j;  double x_right = (i == (i_2 - i_1)) ? x_2 : x_values[j + 1];
        stemfunc_left = ...; stemfunc_right = ...;  integral += stemfunc_right - stemfunc_left; }
    [cnt] = iterations left (the loop bound i_2 - i_1 + 1 is fixed before the loop: no Fuel outcome) *)
Fixpoint integ_loop (cnt : nat) (i i1 i2 : Z) (x1 x2 p acc : T) : res T :=
  match cnt with
  | O => Ok acc
  | S cnt' =>
      let j := Z.add i1 i in
      let* xj := geti N xv j in
      let x_left := if i =? 0 then x1 else xj in
      let* x_right := if i =? Z.sub i2 i1 then Ok x2 else geti N xv (Z.add j 1) in
      let* a := geti (N - 1) av j in
      let* b := geti (N - 1) bv j in
      let* c := geti (N - 1) cv j in
      let* d := geti (N - 1) dv j in
      let stemfunc_left := stem p xj a b c d x_left in
      let stemfunc_right := stem p xj a b c d x_right in
      integ_loop cnt' (Z.add i 1) i1 i2 x1 x2 p (acc + (stemfunc_right - stemfunc_left))%num
  end.
Definition integ_value (i1 i2 : Z) (x1 x2 p : T) : res T :=
  integ_loop (Z.to_nat (Z.sub i2 i1 + 1)) 0 i1 i2 x1 x2 p (n0 Ops).

(** Local_Minimum / Local_Maximum after Interpolate(x_1), Interpolate(x_2), Locate(x_1), Locate(x_2):
      double minimum = std::min(f_left, f_right);
      for(int i = i_1; i <= i_2 + 1; i++)
        if(x_values[i] >= x_1 && x_values[i] <= x_2) minimum = std::min(minimum, prefactor * function_values[i]);
    (std::max for the maximum) *)
Fixpoint ext_scan (pick : T -> T -> T) (cnt : nat) (i : Z) (x1 x2 p m : T) : res T :=
  match cnt with
  | O => Ok m
  | S cnt' =>
      let* xi := geti N xv i in
      if ngeb Ops xi x1 && nleb Ops xi x2 then
        let* fi := geti N fv i in
        ext_scan pick cnt' (Z.add i 1) x1 x2 p (pick m (p * fi)%num)
      else ext_scan pick cnt' (Z.add i 1) x1 x2 p m
  end.
Definition ext_value (mx : bool) (fl fr : T) (i1 i2 : Z) (x1 x2 p : T) : res T :=
  let pick := if mx then nmax Ops else nmin Ops in
  ext_scan pick (Z.to_nat (Z.sub (Z.add i2 2) i1)) i1 x1 x2 p (pick fl fr).

(** Global_Minimum / Global_Maximum:
      double f_min = *std::min_element(function_values.begin(), function_values.end());
      double f_max = *std::max_element(function_values.begin(), function_values.end());
      return std::min(prefactor * f_min, prefactor * f_max);        (std::max for the maximum) *)
Definition fvalues : list T := map fv (zrange N).
Definition glob_value (mx : bool) (p : T) : res T :=
  let* f_min := min_element Ops fvalues in
  let* f_max := max_element Ops fvalues in
  Ok ((if mx then nmax Ops else nmin Ops) (p * f_min) (p * f_max))%num.

(** the evaluation parameters of C09_Model.step are total; an out-of-bounds read inside a value computation (excluded
    for the indices Locate returns: theorem C09_values_no_out_of_bounds) would surface as the value 0/0 *)
Definition ev_bad : T := (n0 Ops / n0 Ops)%num.
Definition ev_unres (r : res T) : T := match r with Ok v => v | _ => ev_bad end.

Definition step_full : state T -> op T -> state T * out T :=
  step Ops N xv
    (fun j x => ev_unres (seg_value j x))
    (fun j x k => ev_unres (deriv_value j x k))
    (fun i1 i2 x1 x2 p => ev_unres (integ_value i1 i2 x1 x2 p))
    (fun mx fl fr i1 i2 x1 x2 p => ev_unres (ext_value mx fl fr i1 i2 x1 x2 p))
    (fun mx p => ev_unres (glob_value mx p)).
Definition run_full : list (op T) -> state T -> state T :=
  run Ops N xv
    (fun j x => ev_unres (seg_value j x))
    (fun j x k => ev_unres (deriv_value j x k))
    (fun i1 i2 x1 x2 p => ev_unres (integ_value i1 i2 x1 x2 p))
    (fun mx fl fr i1 i2 x1 x2 p => ev_unres (ext_value mx fl fr i1 i2 x1 x2 p))
    (fun mx p => ev_unres (glob_value mx p)).
End Eval1D.
