(** * C10 proofs, part 6: every kind of request on an Interpolation object judged by Locate alone (Derivative of every
    order included), request sequences on an Interpolation_2D object, the method names spelled out, and the table
    constructor of Interpolation_2D *)
From Coq Require Import ZArith String List Bool Lia Reals Lra.
From LP Require Import Num NumR OrdLaws C10_Model C10_Proofs C10_Proofs_Num C10_Proofs_Hist.
Import ListNotations.
Local Open Scope Z_scope.

Section Requests.
Context {T : Type} (Ops : NumOps T).

(** what makes a request on an Interpolation object meaningless, in terms of Locate's domain test alone *)
Definition icall_refused (xs : list T) (c : icall (T := T)) : Prop :=
  match c with
  | ILocate x | IEval x | IDeriv x _ => locate Ops xs x = Exit
  | IIntegrate a b => locate Ops xs a = Exit \/ locate Ops xs b = Exit
  | ILocalMin a b | ILocalMax a b => nltb Ops b a = true \/ locate Ops xs a = Exit \/ locate Ops xs b = Exit
  | IGlobal => False
  | ISave n => guard_save_function Ops xs n = Exit
  end.

Lemma icall_outcome xs c : 2 <= zlen xs < 4294967296 ->
  (icall_refused xs c /\ guard_icall Ops xs c = Exit) \/ (~ icall_refused xs c /\ guard_icall Ops xs c = Ok tt).
Proof.
  intros HN. destruct c as [x|x|x n|a b|a b|a b| |n]; cbn [guard_icall icall_refused].
  - destruct (locate_range Ops xs x HN) as [E|(j & E & _)]; rewrite E; cbn [rbind]; [left; auto|right; split; [discriminate|reflexivity]].
  - destruct (interpolate_spec Ops xs x HN) as [[E G]|[E G]]; rewrite G; [left; auto|right; auto].
  - destruct (interpolate_spec Ops xs x HN) as [[E G]|[E G]]; rewrite G; cbn [rbind]; [left; auto|right; split; [exact E|]].
    destruct (n =? 0); reflexivity.
  - pose proof (interp_integrate_spec Ops xs a b HN) as S. cbv zeta in S.
    destruct (nltb Ops b a); destruct S as [[E G]|(E1 & E2 & G)]; rewrite G; [left|right|left|right]; split; auto; tauto.
  - destruct (local_extremum_spec Ops xs a b HN) as [[E G]|(E0 & E1 & E2 & G)]; rewrite G; [left; auto|right].
    split; [|reflexivity]. intros [A|[A|A]]; congruence.
  - destruct (local_extremum_spec Ops xs a b HN) as [[E G]|(E0 & E1 & E2 & G)]; rewrite G; [left; auto|right].
    split; [|reflexivity]. intros [A|[A|A]]; congruence.
  - right. split; [tauto|]. apply for_range_ok. intros i Hi. apply at_ok; lia.
  - destruct (save_function_safe Ops xs n HN) as [E|E]; rewrite E; [right; split; [discriminate|reflexivity]|left; auto].
Qed.

(** Derivative(x, n): the order n plays no role in the outcome *)
Lemma derivative_every_order xs x n : 2 <= zlen xs < 4294967296 ->
  (guard_icall Ops xs (IDeriv x n) = Exit <-> locate Ops xs x = Exit) /\
  (guard_icall Ops xs (IDeriv x n) = Ok tt <-> locate Ops xs x <> Exit) /\
  guard_icall Ops xs (IDeriv x n) = guard_icall Ops xs (IEval x).
Proof.
  intros HN.
  destruct (icall_outcome xs (IDeriv x n) HN) as [[R G]|[R G]]; destruct (icall_outcome xs (IEval x) HN) as [[R' G']|[R' G']];
    cbn [icall_refused] in *; rewrite G, G'; try contradiction; repeat split; intros; try assumption; try reflexivity; try discriminate; try contradiction.
Qed.

(** a sequence of requests returns iff none of them is refused *)
Lemma icalls_outcome xs cs : 2 <= zlen xs < 4294967296 ->
  ((exists c, In c cs /\ icall_refused xs c) /\ guard_icalls Ops xs cs = Exit) \/
  ((forall c, In c cs -> ~ icall_refused xs c) /\ guard_icalls Ops xs cs = Ok tt).
Proof.
  intros HN. induction cs as [|c r IH]; cbn [guard_icalls].
  - right. split; [intros c []|reflexivity].
  - destruct (icall_outcome xs c HN) as [[R G]|[R G]]; rewrite G; cbn [rbind].
    + left. split; [|reflexivity]. exists c. split; [now left|exact R].
    + destruct IH as [[(c' & Hin & Hc') H2]|[H1 H2]].
      * left. split; [|exact H2]. exists c'. split; [now right|exact Hc'].
      * right. split; [|exact H2]. intros c' [<-|Hin]; auto.
Qed.

(** Interpolation_2D::Interpolate(x, y) and sequences of such requests on one object *)
Lemma interpolate_2d_outcome xs ys x y : 2 <= zlen xs < 4294967296 -> 2 <= zlen ys < 4294967296 ->
  ((locate Ops xs x = Exit \/ locate Ops ys y = Exit) /\ guard_interpolate_2d Ops xs ys x y = Exit) \/
  (locate Ops xs x <> Exit /\ locate Ops ys y <> Exit /\ guard_interpolate_2d Ops xs ys x y = Ok tt).
Proof.
  intros Hx Hy. unfold guard_interpolate_2d.
  destruct (locate_range Ops xs x Hx) as [E|(i & E & Hi)]; rewrite E; cbn [rbind]; [left; auto|].
  destruct (locate_range Ops ys y Hy) as [E'|(j & E' & Hj)]; rewrite E'; cbn [rbind]; [left; auto|].
  right. split; [discriminate|]. split; [discriminate|].
  rewrite !at_ok by lia. reflexivity.
Qed.
Lemma icalls_2d_outcome xs ys pts : 2 <= zlen xs < 4294967296 -> 2 <= zlen ys < 4294967296 ->
  ((exists p, In p pts /\ (locate Ops xs (fst p) = Exit \/ locate Ops ys (snd p) = Exit)) /\ guard_icalls_2d Ops xs ys pts = Exit) \/
  ((forall p, In p pts -> locate Ops xs (fst p) <> Exit /\ locate Ops ys (snd p) <> Exit) /\ guard_icalls_2d Ops xs ys pts = Ok tt).
Proof.
  intros Hx Hy. induction pts as [|p r IH]; cbn [guard_icalls_2d].
  - right. split; [intros p []|reflexivity].
  - destruct (interpolate_2d_outcome xs ys (fst p) (snd p) Hx Hy) as [[R G]|(R1 & R2 & G)]; rewrite G; cbn [rbind].
    + left. split; [|reflexivity]. exists p. split; [now left|exact R].
    + destruct IH as [[(p' & Hin & Hp') H2]|[H1 H2]].
      * left. split; [|exact H2]. exists p'. split; [now right|exact Hp'].
      * right. split; [|exact H2]. intros p' [<-|Hin]; auto.
Qed.
End Requests.

(** ** the method names, spelled out: a name is accepted iff it IS one of the documented strings (character by character) *)
Lemma in_methods_1d m : In m methods_1d <->
  m = "Trapezoidal"%string \/ m = "Gauss-Legendre"%string \/ m = "Gauss-Kronrod"%string \/ m = "Tanh-Sinh"%string \/
  m = "Gauss-Legendre_2"%string \/ m = "Adaptive-Simpson"%string.
Proof.
  unfold methods_1d; cbn [In]. split.
  - intros [H|[H|[H|[H|[H|[H|[]]]]]]]; symmetry in H; auto 7.
  - intros [H|[H|[H|[H|[H|H]]]]]; symmetry in H; auto 7.
Qed.
Lemma in_methods_mc m : In m methods_mc <-> m = "Monte-Carlo"%string \/ m = "Vegas"%string \/ m = "Miser"%string.
Proof.
  unfold methods_mc; cbn [In]. split.
  - intros [H|[H|[H|[]]]]; symmetry in H; auto.
  - intros [H|[H|H]]; symmetry in H; auto.
Qed.
Lemma methods_spelled_out (m : string) :
  (guard_integrate m = Ok tt <->
     m = "Trapezoidal"%string \/ m = "Gauss-Legendre"%string \/ m = "Gauss-Kronrod"%string \/ m = "Tanh-Sinh"%string \/
     m = "Gauss-Legendre_2"%string \/ m = "Adaptive-Simpson"%string) /\
  (guard_integrate_mc m = Ok tt <-> m = "Monte-Carlo"%string \/ m = "Vegas"%string \/ m = "Miser"%string) /\
  (guard_integrate m = Ok tt \/ guard_integrate m = Exit) /\ (guard_integrate_mc m = Ok tt \/ guard_integrate_mc m = Exit) /\
  (guard_integrate_nd m = Ok tt <-> guard_integrate m = Ok tt \/ guard_integrate_mc m = Ok tt) /\
  (guard_integrate_nd m = Exit <-> guard_integrate m = Exit /\ guard_integrate_mc m = Exit).
Proof.
  rewrite <- in_methods_1d, <- in_methods_mc.
  unfold guard_integrate, guard_integrate_mc, guard_integrate_nd, exit_if.
  rewrite <- !str_in_In.
  destruct (str_in m methods_1d), (str_in m methods_mc); cbn [negb];
    repeat split; intros; try reflexivity; try discriminate; auto;
    repeat match goal with H : _ \/ _ |- _ => destruct H | H : _ /\ _ |- _ => destruct H end; try discriminate.
Qed.

(** ** Interpolation_2D(data_table): the constructor accepts exactly the tables whose rows hold three numbers and are the full
    grid (sorted distinct first entries) x (sorted distinct second entries) in row-major order, with at least two distinct
    values on each axis *)
Section Table2D.
Context {T : Type} (Ops : NumOps T).
Definition col0 (data : list (list T)) : list T := map (fun row => nth 0 row (n0 Ops)) data.
Definition col1 (data : list (list T)) : list T := map (fun row => nth 1 row (n0 Ops)) data.
Definition rows_of_three (data : list (list T)) : Prop := forall i, 0 <= i < zlen data -> zlen (nth (Z.to_nat i) data []) = 3.
(** row ix * |y| + iy of the table holds (x[ix], y[iy], .) *)
Definition row_major_grid (x y : list T) (data : list (list T)) : Prop :=
  forall ix, 0 <= ix < zlen x -> forall iy, 0 <= iy < zlen y ->
    neqb Ops (xv Ops x ix) (nth 0 (nth (Z.to_nat (ix * zlen y + iy)) data []) (n0 Ops)) = true /\
    neqb Ops (xv Ops y iy) (nth 1 (nth (Z.to_nat (ix * zlen y + iy)) data []) (n0 Ops)) = true.
Definition grid_table (data : list (list T)) : Prop :=
  let x := sort_unique Ops (col0 data) in
  let y := sort_unique Ops (col1 data) in
  rows_of_three data /\ zlen x * zlen y = zlen data /\ row_major_grid x y data /\
  (2 <= zlen x /\ increasing Ops x) /\ (2 <= zlen y /\ increasing Ops y).

Lemma insert_unique_length x l : (length (insert_unique Ops x l) <= S (length l))%nat.
Proof. induction l as [|a r IH]; cbn; [lia|]. destruct (nltb Ops x a); cbn; [lia|]. destruct (neqb Ops x a); cbn; lia. Qed.
Lemma sort_unique_length l : zlen (sort_unique Ops l) <= zlen l.
Proof.
  unfold zlen. induction l as [|a r IH]; cbn; [lia|].
  pose proof (insert_unique_length a (sort_unique Ops r)). unfold sort_unique in *. lia.
Qed.

Lemma rows_of_three_dec data : rows_of_three data \/ ~ rows_of_three data.
Proof. apply bounded_forall_dec. intros i _. destruct (Z.eq_dec (zlen (nth (Z.to_nat i) data [])) 3); tauto. Qed.
Lemma row_major_grid_dec x y data : row_major_grid x y data \/ ~ row_major_grid x y data.
Proof.
  apply bounded_forall_dec. intros ix _. apply bounded_forall_dec. intros iy _.
  destruct (neqb Ops (xv Ops x ix) _), (neqb Ops (xv Ops y iy) _); try (right; intros [? ?]; discriminate). left; auto.
Qed.

Lemma interpolation_2d_table_spec (L : OrdLaws Ops) (data : list (list T)) : zlen data < 4294967296 ->
  decides (guard_interpolation_2d_table Ops data) (grid_table data).
Proof.
  intros Hlen. unfold guard_interpolation_2d_table, grid_table. fold (col0 data) (col1 data).
  set (x := sort_unique Ops (col0 data)). set (y := sort_unique Ops (col1 data)). cbv zeta.
  assert (Hx : zlen x <= zlen data) by (subst x; etransitivity; [apply sort_unique_length|unfold col0, zlen; rewrite map_length; lia]).
  assert (Hy : zlen y <= zlen data) by (subst y; etransitivity; [apply sort_unique_length|unfold col1, zlen; rewrite map_length; lia]).
  assert (Hx0 : 0 <= zlen x) by (unfold zlen; lia). assert (Hy0 : 0 <= zlen y) by (unfold zlen; lia).
  apply decides_bind; [apply rows_of_three_dec| |intros Hrows].
  { apply for_range_decides.
    - intros i Hi. rewrite (getZ_nth data i []) by lia. cbn [rbind]. set (row := nth (Z.to_nat i) data []).
      destruct (Z.eqb_spec (zlen row) 3) as [E|E]; cbn [negb]; [|split; [tauto|reflexivity]].
      split; [intros _|tauto]. rewrite E. reflexivity.
    - intros i _. destruct (Z.eq_dec (zlen (nth (Z.to_nat i) data [])) 3); tauto. }
  eapply decides_iff; [|apply decides_if; intros Hb; apply neq_b in Hb].
  { rewrite neq_b. reflexivity. }
  apply decides_bind; [apply row_major_grid_dec| |intros Hgrid].
  { apply for_range_decides; [|intros ix _; apply bounded_forall_dec; intros iy _;
      destruct (neqb Ops (xv Ops x ix) _), (neqb Ops (xv Ops y iy) _); try (right; intros [? ?]; discriminate); left; auto].
    intros ix Hix. apply for_range_decides; [|intros iy _;
      destruct (neqb Ops (xv Ops x ix) _), (neqb Ops (xv Ops y iy) _); try (right; intros [? ?]; discriminate); left; auto].
    intros iy Hiy.
    assert (Hi : 0 <= ix * zlen y + iy < zlen data) by nia.
    rewrite (getZ_nth data _ []) by lia. cbn [rbind]. set (row := nth (Z.to_nat (ix * zlen y + iy)) data []).
    assert (Hrow : zlen row = 3) by (apply Hrows; lia).
    rewrite (getZ_xv Ops x ix), (getZ_xv Ops y iy) by lia. cbn [rbind].
    rewrite (getZ_nth row 0 (n0 Ops)), (getZ_nth row 1 (n0 Ops)) by lia. cbn [rbind].
    change (Z.to_nat 0) with 0%nat. change (Z.to_nat 1) with 1%nat.
    destruct (neqb Ops (xv Ops x ix) (nth 0 row (n0 Ops))), (neqb Ops (xv Ops y iy) (nth 1 row (n0 Ops))); cbn [negb orb];
      try (split; [intros [? ?]; discriminate|reflexivity]).
    split; [intros _|tauto]. rewrite !at_ok by lia. reflexivity. }
  eapply decides_iff; [|apply (interpolation_2d_spec Ops L x y (rect (zlen x) (zlen y))); lia].
  rewrite zlen_rect by lia. split; [tauto|]. intros H. split; [|exact H]. split; [reflexivity|].
  intros i Hi. rewrite nth_rect. destruct (Nat.ltb_spec (Z.to_nat i) (Z.to_nat (zlen x))); [reflexivity|lia].
Qed.
End Table2D.

(** ** the same domain stated without the constructor's own sorting: the full grid X x Y of two strictly increasing lists with
    at least two entries each, written row by row, is accepted (whatever the third entries are) *)
Section Grid.
Context {T : Type} (Ops : NumOps T) (L : OrdLaws Ops).
Fixpoint incr_list (l : list T) : Prop :=
  match l with
  | a :: (b :: _) as r => nltb Ops a b = true /\ incr_list r
  | _ => True
  end.
Definition grid (v : T -> T -> T) (X Y : list T) : list (list T) := flat_map (fun a => map (fun b => [a; b; v a b]) Y) X.

Lemma neqb_refl a : neqb Ops a a = true.
Proof. apply (ol_eq Ops L). split; apply (ol_irrefl Ops L). Qed.
Lemma lt_asym a b : nltb Ops a b = true -> nltb Ops b a = false.
Proof.
  intros H. destruct (nltb Ops b a) eqn:E; [|reflexivity].
  pose proof (ol_trans Ops L a b a H E) as C. rewrite (ol_irrefl Ops L) in C. discriminate.
Qed.
Lemma lt_neq a b : nltb Ops a b = true -> neqb Ops b a = false.
Proof.
  intros H. destruct (neqb Ops b a) eqn:E; [|reflexivity]. apply (ol_eq Ops L) in E. destruct E as [_ E]. congruence.
Qed.
Lemma incr_tail a l : incr_list (a :: l) -> incr_list l.
Proof. destruct l; cbn; tauto. Qed.
Lemma incr_head_lt a l : incr_list (a :: l) -> forall b, In b l -> nltb Ops a b = true.
Proof.
  revert a. induction l as [|c r IH]; intros a H b Hin; [destruct Hin|].
  destruct H as [H1 H2]. destruct Hin as [<-|Hin]; [exact H1|].
  apply (ol_trans Ops L a c b H1). apply IH; assumption.
Qed.
Lemma insert_front a l : incr_list (a :: l) -> insert_unique Ops a l = a :: l.
Proof. destruct l as [|b r]; cbn; [reflexivity|]. intros [H _]. rewrite H. reflexivity. Qed.
Lemma insert_same a l : insert_unique Ops a (a :: l) = a :: l.
Proof. cbn. rewrite (ol_irrefl Ops L), neqb_refl. reflexivity. Qed.
Lemma insert_member a s : incr_list s -> In a s -> insert_unique Ops a s = s.
Proof.
  induction s as [|b r IH]; intros Hs Hin; [destruct Hin|].
  destruct Hin as [->|Hin]; [apply insert_same|].
  pose proof (incr_head_lt b r Hs a Hin) as Hlt.
  cbn. rewrite (lt_asym b a Hlt), (lt_neq b a Hlt). f_equal. apply IH; [exact (incr_tail b r Hs)|exact Hin].
Qed.
Lemma fold_insert_members s l : incr_list s -> (forall a, In a l -> In a s) -> fold_right (insert_unique Ops) s l = s.
Proof.
  intros Hs. induction l as [|a r IH]; intros Hin; [reflexivity|]. cbn [fold_right].
  rewrite IH by (intros; apply Hin; now right). apply insert_member; [exact Hs|apply Hin; now left].
Qed.
Lemma sort_unique_app l1 l2 : sort_unique Ops (l1 ++ l2) = fold_right (insert_unique Ops) (sort_unique Ops l2) l1.
Proof. unfold sort_unique. apply fold_right_app. Qed.
Lemma sort_unique_self Y : incr_list Y -> sort_unique Ops Y = Y.
Proof.
  induction Y as [|a r IH]; intros H; [reflexivity|]. change (sort_unique Ops (a :: r)) with (insert_unique Ops a (sort_unique Ops r)).
  rewrite IH by exact (incr_tail a r H). apply insert_front, H.
Qed.
Lemma sort_unique_repeat a n s : incr_list (a :: s) -> fold_right (insert_unique Ops) s (repeat a (S n)) = a :: s.
Proof.
  intros H. induction n as [|n IH]; [cbn; apply insert_front, H|].
  change (repeat a (S (S n))) with (a :: repeat a (S n)). cbn [fold_right]. rewrite IH. apply insert_same.
Qed.
Lemma col0_grid v X Y : col0 Ops (grid v X Y) = flat_map (fun a => repeat a (length Y)) X.
Proof.
  unfold col0, grid. induction X as [|a r IH]; [reflexivity|]. cbn [flat_map]. rewrite map_app, IH. f_equal.
  rewrite map_map. cbn [nth]. clear. induction Y as [|b Y IH]; cbn; [reflexivity|now rewrite IH].
Qed.
Lemma col1_grid v X Y : col1 Ops (grid v X Y) = flat_map (fun _ => Y) X.
Proof.
  unfold col1, grid. induction X as [|a r IH]; [reflexivity|]. cbn [flat_map]. rewrite map_app, IH. f_equal.
  rewrite map_map. cbn [nth]. apply map_id.
Qed.
Lemma sort_unique_col0 X n : incr_list X -> sort_unique Ops (flat_map (fun a => repeat a (S n)) X) = X.
Proof.
  induction X as [|a r IH]; intros H; [reflexivity|]. cbn [flat_map]. rewrite sort_unique_app, IH by exact (incr_tail a r H).
  apply sort_unique_repeat, H.
Qed.
Lemma sort_unique_col1 (X Y : list T) : X <> [] -> incr_list Y -> sort_unique Ops (flat_map (fun _ => Y) X) = Y.
Proof.
  intros HX HY. induction X as [|a r IH]; [contradiction|]. cbn [flat_map]. rewrite sort_unique_app.
  destruct r as [|a' r']; [cbn [flat_map]; change (fold_right (insert_unique Ops) (sort_unique Ops []) Y) with (sort_unique Ops Y); apply sort_unique_self, HY|].
  rewrite IH by discriminate. apply fold_insert_members; auto.
Qed.
Lemma incr_list_increasing l : incr_list l -> increasing Ops l.
Proof.
  induction l as [|a r IH]; intros H i Hi; [unfold zlen in Hi; cbn in Hi; lia|].
  destruct r as [|b r']; [unfold zlen in Hi; cbn in Hi; lia|]. destruct H as [H1 H2].
  destruct (Z.eq_dec i 1) as [->|Hne]; [exact H1|].
  specialize (IH H2 (i - 1)). unfold xv in *.
  replace (Z.to_nat (i - 1)) with (S (Z.to_nat (i - 1 - 1))) by lia. replace (Z.to_nat i) with (S (Z.to_nat (i - 1))) by lia.
  cbn [nth]. apply IH. unfold zlen in *. cbn [length] in *. lia.
Qed.
Lemma grid_length v X Y : length (grid v X Y) = (length X * length Y)%nat.
Proof. unfold grid. induction X as [|a r IH]; [reflexivity|]. cbn [flat_map length]. rewrite app_length, map_length, IH. lia. Qed.
Lemma grid_nth v X Y i j : (i < length X)%nat -> (j < length Y)%nat ->
  nth (i * length Y + j) (grid v X Y) [] = [nth i X (n0 Ops); nth j Y (n0 Ops); v (nth i X (n0 Ops)) (nth j Y (n0 Ops))].
Proof.
  unfold grid. revert i. induction X as [|a r IH]; intros i Hi Hj; [cbn in Hi; lia|]. cbn [flat_map].
  destruct i as [|i].
  - cbn [Nat.mul Nat.add nth]. rewrite app_nth1 by (rewrite map_length; lia).
    rewrite (nth_indep _ [] [a; n0 Ops; v a (n0 Ops)]) by (rewrite map_length; lia).
    rewrite (map_nth (fun b => [a; b; v a b]) Y (n0 Ops) j). reflexivity.
  - rewrite app_nth2 by (rewrite map_length; lia). rewrite map_length.
    replace (S i * length Y + j - length Y)%nat with (i * length Y + j)%nat by lia. cbn [nth]. apply IH; [cbn in Hi; lia|exact Hj].
Qed.

Lemma grid_accepted v X Y : incr_list X -> incr_list Y -> 2 <= zlen X -> 2 <= zlen Y -> zlen X * zlen Y < 4294967296 ->
  guard_interpolation_2d_table Ops (grid v X Y) = Ok tt.
Proof.
  intros HX HY H2X H2Y Hsz.
  assert (Hlen : zlen (grid v X Y) = zlen X * zlen Y) by (unfold zlen; rewrite grid_length; lia).
  apply (interpolation_2d_table_spec Ops L); [lia|]. unfold grid_table.
  assert (Ex : sort_unique Ops (col0 Ops (grid v X Y)) = X).
  { rewrite col0_grid. destruct Y as [|b Y']; [unfold zlen in H2Y; cbn in H2Y; lia|]. cbn [length]. apply sort_unique_col0, HX. }
  assert (Ey : sort_unique Ops (col1 Ops (grid v X Y)) = Y).
  { rewrite col1_grid. apply sort_unique_col1; [|exact HY]. intros ->. unfold zlen in H2X; cbn in H2X; lia. }
  rewrite Ex, Ey. cbv zeta.
  assert (Hrow : forall ix iy, 0 <= ix < zlen X -> 0 <= iy < zlen Y ->
     nth (Z.to_nat (ix * zlen Y + iy)) (grid v X Y) [] = [xv Ops X ix; xv Ops Y iy; v (xv Ops X ix) (xv Ops Y iy)]).
  { intros ix iy Hix Hiy. unfold xv. rewrite <- (grid_nth v X Y (Z.to_nat ix) (Z.to_nat iy)) by (unfold zlen in *; lia).
    f_equal. unfold zlen in *. nia. }
  split; [|split; [lia|split; [|split; split; auto using incr_list_increasing]]].
  - intros i Hi. rewrite Hlen in Hi.
    assert (Hy0 : 0 < zlen Y) by lia.
    replace i with ((i / zlen Y) * zlen Y + i mod zlen Y) by (rewrite Z.mul_comm; symmetry; apply Z.div_mod; lia).
    rewrite Hrow; [reflexivity| |apply Z.mod_pos_bound; lia].
    split; [apply Z.div_pos; lia|apply Z.div_lt_upper_bound; lia].
  - intros ix Hix iy Hiy. rewrite (Hrow ix iy Hix Hiy). cbn [nth]. split; apply neqb_refl.
Qed.
End Grid.

(** ** Interpolation(x, f, x_dim, f_dim): the sizes are tested on the lists as given, the strict-increase test is made on the
    CONVERTED abscissae *)
Section UnitsCtor.
Context {T : Type} (Ops : NumOps T).
Lemma interpolation_units_eq xs nf d : guard_interpolation_units Ops xs nf d = guard_interpolation Ops (scale_units Ops d xs) nf.
Proof. unfold guard_interpolation_units, guard_interpolation. rewrite zlen_scale_units. reflexivity. Qed.
Lemma interpolation_units_default xs nf d : ngtb Ops d (n0 Ops) = false -> guard_interpolation_units Ops xs nf d = guard_interpolation Ops xs nf.
Proof. intros H. rewrite interpolation_units_eq. unfold scale_units. now rewrite H. Qed.
Lemma interpolation_units_spec (L : OrdLaws Ops) xs nf d : zlen xs < 4294967296 ->
  decides (guard_interpolation_units Ops xs nf d) (zlen xs = nf /\ 2 <= zlen xs /\ increasing Ops (scale_units Ops d xs)).
Proof.
  intros H. rewrite interpolation_units_eq. pose proof (interpolation_spec Ops L (scale_units Ops d xs) nf) as S.
  rewrite zlen_scale_units in S. exact (S H).
Qed.
Lemma interpolation_table_units_spec (L : OrdLaws Ops) (data : list (list T)) d : zlen data < 4294967296 ->
  let xs := map (fun row => nth 0 row (n0 Ops)) data in
  decides (guard_interpolation_table_units Ops data d)
    ((forall i, 0 <= i < zlen data -> zlen (nth (Z.to_nat i) data []) = 2) /\ 2 <= zlen data /\ increasing Ops (scale_units Ops d xs)).
Proof.
  intros Hlen xs. unfold guard_interpolation_table_units. fold xs.
  assert (Hx : zlen xs = zlen data) by (unfold xs, zlen; now rewrite map_length).
  apply decides_bind.
  - apply bounded_forall_dec. intros i _. destruct (Z.eq_dec (zlen (nth (Z.to_nat i) data [])) 2); tauto.
  - apply for_range_decides.
    + intros i Hi. rewrite (getZ_nth data i []) by lia. cbn [rbind]. set (row := nth (Z.to_nat i) data []).
      destruct (Z.eqb_spec (zlen row) 2) as [E|E]; cbn [negb]; [|split; [tauto|reflexivity]].
      split; [intros _|tauto]. rewrite E. reflexivity.
    + intros i _. destruct (Z.eq_dec (zlen (nth (Z.to_nat i) data [])) 2); tauto.
  - intros _. eapply decides_iff; [|apply (interpolation_units_spec L xs (zlen data) d); lia]. rewrite Hx. tauto.
Qed.
End UnitsCtor.
(** in exact arithmetic a positive unit changes nothing in the verdict: the converted table is strictly increasing iff the given one is *)
Lemma increasingR_increasing xs : increasingR xs <-> increasing ROps xs.
Proof.
  unfold increasingR, increasing, xv, xr. cbn. split; intros H i Hi; specialize (H i Hi).
  - apply NumR.Rltb_true. exact H.
  - apply NumR.Rltb_true in H. exact H.
Qed.
Lemma scaled_increasing_iff (d : Rdefinitions.RbaseSymbolsImpl.R) xs : increasing ROps (scale_units ROps d xs) <-> increasing ROps xs.
Proof.
  destruct (Rle_lt_dec d 0) as [Hd|Hd]; [now rewrite scale_units_default|].
  rewrite <- !increasingR_increasing. split; [|apply scale_units_increasing; exact Hd].
  rewrite scale_units_pos by exact Hd. intros H i Hi. specialize (H i). unfold zlen in H. rewrite map_length in H. specialize (H Hi).
  rewrite !xr_scaled in H by (unfold zlen in *; lia). apply (Rmult_lt_reg_r d); assumption.
Qed.
Lemma interpolation_units_R (d : Rdefinitions.RbaseSymbolsImpl.R) xs nf : zlen xs < 4294967296 ->
  guard_interpolation_units ROps xs nf d = guard_interpolation ROps xs nf.
Proof.
  intros H. destruct (interpolation_units_spec ROps ROps_OrdLaws xs nf d H) as [A1 A2]. destruct (interpolation_spec ROps ROps_OrdLaws xs nf H) as [B1 B2].
  rewrite scaled_increasing_iff in A1, A2.
  destruct (Z.eq_dec (zlen xs) nf), (Z_le_gt_dec 2 (zlen xs)), (increasing_dec ROps xs);
    try (rewrite A1, B1 by tauto; reflexivity); rewrite A2, B2; try reflexivity; intros (? & ? & ?); try tauto; lia.
Qed.

(** ** the whole life of an object: construction (with unit arguments), then any sequence of requests *)
Section Lifetime.
Context {T : Type} (Ops : NumOps T) (L : OrdLaws Ops).
Lemma interp_domain_ok (xs : list T) : 2 <= zlen xs < 4294967296 -> interp_domain xs = Ok (xv Ops xs 0, xv Ops xs (zlen xs - 1)).
Proof. intros H. unfold interp_domain. rewrite u32_id by lia. rewrite !(getZ_xv Ops) by lia. reflexivity. Qed.

Lemma interp_session_outcome xs nf xd fd cs : zlen xs < 4294967296 ->
  let xs' := scale_units Ops xd xs in
  let valid := zlen xs = nf /\ 2 <= zlen xs /\ increasing Ops xs' in
  let refused := exists c, In c cs /\ icall_refused Ops xs' c in
  ((~ valid \/ refused) /\ interp_session Ops xs nf xd fd cs = Exit) \/
  (valid /\ ~ refused /\ interp_session Ops xs nf xd fd cs = Ok (xv Ops xs' 0, xv Ops xs' (zlen xs - 1))).
Proof.
  intros Hlen xs' valid refused. unfold interp_session. fold xs'.
  destruct (interpolation_units_spec Ops L xs nf xd Hlen) as [A1 A2]. fold xs' in A1, A2. fold valid in A1, A2.
  assert (Dv : valid \/ ~ valid).
  { unfold valid. destruct (Z.eq_dec (zlen xs) nf), (Z_le_gt_dec 2 (zlen xs)), (increasing_dec Ops xs'); try tauto; right; intros (? & ? & ?); try tauto; lia. }
  destruct Dv as [V|NV]; [|left; split; [now left|rewrite (A2 NV); reflexivity]].
  rewrite (A1 V). cbn [rbind].
  assert (HN : 2 <= zlen xs' < 4294967296) by (unfold xs'; rewrite zlen_scale_units; destruct V as (_ & ? & _); lia).
  rewrite (interp_domain_ok xs' HN). cbn [rbind].
  replace (zlen xs') with (zlen xs) by (unfold xs'; now rewrite zlen_scale_units).
  destruct (icalls_outcome Ops xs' cs HN) as [[R G]|[R G]]; rewrite G; cbn [rbind].
  - left. split; [now right|reflexivity].
  - right. split; [exact V|]. split; [|reflexivity]. intros (c & Hin & Hc). exact (R c Hin Hc).
Qed.

Lemma interp2d_session_outcome xs ys lens xd yd pts : zlen xs < 4294967296 -> zlen ys < 4294967296 ->
  let xs' := scale_units Ops xd xs in
  let ys' := scale_units Ops yd ys in
  let valid := (zlen lens = zlen xs /\ forall i, 0 <= i < zlen lens -> nth (Z.to_nat i) lens 0 = zlen ys) /\
               (2 <= zlen xs /\ increasing Ops xs') /\ (2 <= zlen ys /\ increasing Ops ys') in
  let refused := exists p, In p pts /\ (locate Ops xs' (fst p) = Exit \/ locate Ops ys' (snd p) = Exit) in
  ((~ valid \/ refused) /\ interp2d_session Ops xs ys lens xd yd pts = Exit) \/
  (valid /\ ~ refused /\
   interp2d_session Ops xs ys lens xd yd pts = Ok ((xv Ops xs' 0, xv Ops xs' (zlen xs - 1)), (xv Ops ys' 0, xv Ops ys' (zlen ys - 1)))).
Proof.
  intros Hx Hy xs' ys' valid refused. unfold interp2d_session. fold xs' ys'.
  assert (Ex : zlen xs' = zlen xs) by (unfold xs'; now rewrite zlen_scale_units).
  assert (Ey : zlen ys' = zlen ys) by (unfold ys'; now rewrite zlen_scale_units).
  destruct (interpolation_2d_spec Ops L xs' ys' lens ltac:(lia) ltac:(lia)) as [A1 A2]. rewrite Ex, Ey in A1, A2. fold valid in A1, A2.
  assert (Dv : valid \/ ~ valid).
  { unfold valid.
    assert (D1 : (forall i, 0 <= i < zlen lens -> nth (Z.to_nat i) lens 0 = zlen ys) \/ ~ (forall i, 0 <= i < zlen lens -> nth (Z.to_nat i) lens 0 = zlen ys)).
    { apply bounded_forall_dec. intros i _. destruct (Z.eq_dec (nth (Z.to_nat i) lens 0) (zlen ys)); tauto. }
    destruct D1, (Z.eq_dec (zlen lens) (zlen xs)), (Z_le_gt_dec 2 (zlen xs)), (Z_le_gt_dec 2 (zlen ys)), (increasing_dec Ops xs'), (increasing_dec Ops ys');
      try tauto; right; intros ((? & ?) & (? & ?) & (? & ?)); try tauto; lia. }
  destruct Dv as [V|NV]; [|left; split; [now left|rewrite (A2 NV); reflexivity]].
  rewrite (A1 V). cbn [rbind].
  assert (HNx : 2 <= zlen xs' < 4294967296) by (destruct V as (_ & (? & _) & _); lia).
  assert (HNy : 2 <= zlen ys' < 4294967296) by (destruct V as (_ & _ & (? & _)); lia).
  rewrite (interp_domain_ok xs' HNx), (interp_domain_ok ys' HNy). cbn [rbind]. rewrite Ex, Ey.
  destruct (icalls_2d_outcome Ops xs' ys' pts HNx HNy) as [[R G]|[R G]]; rewrite G; cbn [rbind].
  - left. split; [now right|reflexivity].
  - right. split; [exact V|]. split; [|reflexivity]. intros (p & Hin & Hp). destruct (R p Hin). tauto.
Qed.
End Lifetime.
