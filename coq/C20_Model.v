(** * C20 — model of the unit constants' start-up, of In_Units / Round / Reduced_Mass and of the
    export / import functions of Utilities.cpp.  Definitions only (proofs are in C20_Proofs_*.v). *)
From Coq Require Import String.
From Coq Require Import ZArith Bool Reals List.
From LP Require Import Num.
Import ListNotations.
Local Open Scope list_scope.

(** ** Part 1.  Unit constants (src/Natural_Units.cpp, "const double X = expr;")

    The initialiser expressions.  Literals carry their exact decimal value [num/den] as integers, so
    that everything that is *computed* about the list of definitions ([safe]) never touches a real. *)
Inductive expr :=
| ELit (num den : Z)            (* a decimal literal of the source, exact value num/den *)
| EPi                           (* M_PI *)
| ERef (x : string)             (* another constant *)
| EAdd (a b : expr) | ESub (a b : expr) | EMul (a b : expr) | EDiv (a b : expr)
| ENeg (a : expr)
| EPowZ (a : expr) (k : Z)      (* pow(a, k), integer-valued literal exponent *)
| EPowQ (a : expr) (num den : Z)(* pow(a, num/den), non-integer literal exponent *)
| ESqrt (a : expr).

Definition env := string -> R.

Fixpoint eval (e : env) (x : expr) : R :=
  match x with
  | ELit n d => IZR n / IZR d
  | EPi => PI
  | ERef v => e v
  | EAdd a b => eval e a + eval e b
  | ESub a b => eval e a - eval e b
  | EMul a b => eval e a * eval e b
  | EDiv a b => eval e a / eval e b
  | ENeg a => - eval e a
  | EPowZ a k => powerRZ (eval e a) k
  | EPowQ a n d => Rpower (eval e a) (IZR n / IZR d)
  | ESqrt a => sqrt (eval e a)
  end%R.

Fixpoint refs (x : expr) : list string :=
  match x with
  | ELit _ _ | EPi => []
  | ERef v => [v]
  | EAdd a b | ESub a b | EMul a b | EDiv a b => refs a ++ refs b
  | ENeg a | EPowZ a _ | EPowQ a _ _ | ESqrt a => refs a
  end.

(** the definitions of one translation unit, in TEXTUAL order *)
Definition defs_t := list (string * expr).

Definition upd (e : env) (x : string) (v : R) : env := fun y => if String.eqb y x then v else e y.

(** An order-free denotation is any environment that solves all the defining equations. *)
Definition solves (den : env) (ds : defs_t) : Prop := forall x b, In (x, b) ds -> den x = eval den b.

(** C++ start-up of the translation unit ([basic.start.static]), given the compiler's choice [st] of the
    constants it initialises statically (constant-folded into .rodata):
    phase 1 — zero-initialisation, and the static constants hold the value of their folded initialiser;
    phase 2 — the remaining (dynamic) initialisers run in textual order, reading whatever is in memory. *)
Definition phase1 (st : string -> bool) (den : env) : env := fun x => if st x then den x else 0%R.
Fixpoint phase2 (st : string -> bool) (ds : defs_t) (e : env) : env :=
  match ds with
  | [] => e
  | (x, b) :: tl => phase2 st tl (if st x then e else upd e x (eval e b))
  end.
Definition startup (st : string -> bool) (ds : defs_t) (den : env) : env := phase2 st ds (phase1 st den).

(** The decidable check run on the regenerated list and the measured classification: a statically
    initialised constant is folded from static operands only; every constant read by a dynamic
    initialiser is static or textually earlier; names are distinct. *)
Fixpoint safe_from (st : string -> bool) (seen : list string) (ds : defs_t) : bool :=
  match ds with
  | [] => true
  | (x, b) :: tl =>
      (if st x then forallb st (refs b)
       else forallb (fun r => st r || existsb (String.eqb r) seen) (refs b))
      && negb (existsb (String.eqb x) seen) && safe_from st (x :: seen) tl
  end.
Definition safe (st : string -> bool) (ds : defs_t) : bool := safe_from st [] ds.

(** classification from the measured list of dynamically initialised names (.bss symbols) *)
Definition static_except (dyn : list string) (x : string) : bool := negb (existsb (String.eqb x) dyn).

(** association-list look-up used for the generated denotation *)
Fixpoint lookup (tbl : list (string * R)) (x : string) : R :=
  match tbl with
  | [] => 0%R
  | (y, v) :: tl => if String.eqb x y then v else lookup tl x
  end.

(** ** Part 2.  In_Units, Round, Reduced_Mass, and the file functions — polymorphic in the number type *)
Definition u32 (k : Z) : Z := (k mod 4294967296)%Z.       (* conversion to unsigned int *)

Definition is_nil {A} (l : list A) : bool := match l with [] => true | _ => false end.

Fixpoint mapM {A B} (f : A -> res B) (l : list A) : res (list B) :=
  match l with
  | [] => Ok []
  | a :: tl => rbind (f a) (fun b => rbind (mapM f tl) (fun r => Ok (b :: r)))
  end.

Fixpoint mapi_from {A B} (j : nat) (f : nat -> A -> B) (l : list A) : list B :=
  match l with [] => [] | a :: tl => f j a :: mapi_from (S j) f tl end.

Section Model.
Context {T : Type} (Ops : NumOps T).
Local Notation "x + y" := (nadd Ops x y).
Local Notation "x - y" := (nsub Ops x y).
Local Notation "x * y" := (nmul Ops x y).
Local Notation "x / y" := (ndiv Ops x y).

(** Special_Functions.cpp, Round(double N, unsigned int digits) — the copy In_Units calls *)
Definition round_m (N : T) (digits : Z) : res T :=
  if (7 <? digits)%Z then Exit                                          (* digits > digits_max: exit *)
  else if neqb Ops N (n0 Ops) then Ok (nofZ Ops 0)                     (* if(N == 0) return 0; *)
  else
    let sign := nofZ Ops (sign1 Ops N) in                               (* double sign = Sign(N); *)
    let N1 := N * sign in                                               (* N *= sign; *)
    let DecimalPower := nfloor Ops (nlog10 Ops N1) in                   (* floor(log10(N)) *)
    let prefactor := N1 * npow Ops (nofZ Ops 10) (nneg Ops DecimalPower) in   (* N * pow(10, -DecimalPower) *)
    let prefactor1 := nfloor Ops (prefactor * npow Ops (nofZ Ops 10) (nofZ Ops (u32 (digits - 1)%Z)) + ndec Ops 1 2) in
                                                                        (* floor(prefactor * pow(10.0, digits - 1) + 0.5), digits - 1 unsigned *)
    let prefactor2 := prefactor1 * npow Ops (nofZ Ops 10) (nofZ Ops (-1) * nofZ Ops digits + nofZ Ops 1) in
                                                                        (* prefactor * pow(10.0, -1.0 * digits + 1) *)
    Ok (sign * prefactor2 * npow Ops (nofZ Ops 10) DecimalPower).       (* sign * prefactor * pow(10, DecimalPower) *)

(** Natural_Units.cpp, In_Units(double quantity, double dimension, bool round, int digits);
    the int [digits] is converted to Round's unsigned parameter *)
Definition in_units (q dim : T) (round : bool) (digits : Z) : res T :=
  if negb round then Ok (q / dim) else round_m (q / dim) (u32 digits).

(** std::vector<double> overload (and the Vector overload: same loop over Size()) *)
Definition in_units_list (qs : list T) (dim : T) (round : bool) (digits : Z) : res (list T) :=
  mapM (fun q => in_units q dim round digits) qs.
Definition in_units_vector := in_units_list.

(** vector<vector<double>> with one dimension (and the Matrix overload: same double loop) *)
Definition in_units_table (qs : list (list T)) (dim : T) (round : bool) (digits : Z) : res (list (list T)) :=
  mapM (fun row => in_units_list row dim round digits) qs.
Definition in_units_matrix := in_units_table.

(** vector<vector<double>> with one dimension per column *)
Definition in_units_table_dims (qs : list (list T)) (dims : list T) (round : bool) (digits : Z) : res (list (list T)) :=
  mapM (fun row =>
          if Nat.eqb (length row) (length dims)
          then mapM (fun qd => in_units (fst qd) (snd qd) round digits) (combine row dims)
          else Exit) qs.

(** Reduced_Mass(m1, m2) = m1 * m2 / (m1 + m2) *)
Definition reduced_mass (m1 m2 : T) : T := m1 * m2 / (m1 + m2).

(** *** Files.  A file is the list of its lines as std::getline delivers them; a line is a list of
    whitespace-separated tokens; a token is either text that operator>>(double&) reads completely as a
    number — it is represented by the value read — or anything else ([Word]), at which reading stops. *)
Inductive tok := Num (x : T) | Word.
Definition line := list tok.
Definition file := list line.

(** [fmt6 y]: the double that `inputfile >> x` reads from the text `outputfile << y` wrote
    (default stream precision 6).  Abstract here; "%.6g" then strtod in the executable instance. *)
Variable fmt6 : T -> T.

(** the default-argument path of In_Units used by the writers: quantity / dimension *)
Definition in_units_plain (q dim : T) : T := q / dim.

(** `double dim = dimensions.empty() ? 1.0 : dimensions[j]` *)
Definition dim_at (dims : list T) (j : nat) : T :=
  match dims with [] => n1 Ops | _ => nth j dims (n0 Ops) end.

(** Export_List: the header (if non-empty) followed by endl — [header] is the list of the lines this
    produces, [] for the empty string —, then one line per value. *)
Definition export_list (header : list line) (data : list T) (dim : T) : file :=
  header ++ map (fun x => [Num (fmt6 (in_units_plain x dim))]) data.

Definition export_row (dims : list T) (row : list T) : line :=
  mapi_from 0 (fun j x => Num (fmt6 (in_units_plain x (dim_at dims j)))) row.

(** Export_Table: every row is checked against [dimensions] (exit on mismatch unless it is empty);
    columns are separated by tabs; endl follows the last column of every row but the last, so a row
    without columns writes nothing at all, and the last row is not terminated (getline still delivers it). *)
Fixpoint export_rows (dims : list T) (data : list (list T)) : res (list line) :=
  match data with
  | [] => Ok []
  | row :: tl =>
      if is_nil dims || Nat.eqb (length dims) (length row)
      then rbind (export_rows dims tl) (fun r => Ok (match row with [] => r | _ => export_row dims row :: r end))
      else Exit
  end.
Definition export_table (header : list line) (data : list (list T)) (dims : list T) : res file :=
  rbind (export_rows dims data) (fun r => Ok (header ++ r)).

(** Export_Function(filepath, func, x_list, dimensions, header) *)
Definition export_function_list (header : list line) (func : T -> T) (xs : list T) (dims : list T) : res file :=
  export_table header (map (fun x => [x; func x]) xs) dims.

(** Linear_Space / Log_Space as called by the second Export_Function *)
Definition linear_space (mn mx : T) (steps : nat) : list T :=
  if (Nat.ltb steps 2) || neqb Ops mn mx then [mn]
  else
    let step := (mx - mn) / (nofZ Ops (Z.of_nat steps) - n1 Ops) in
    map (fun i => mn + nofZ Ops (Z.of_nat i) * step) (seq 0 steps).
Definition log_space (mn mx : T) (steps : nat) : list T :=
  if (Nat.ltb steps 2) || neqb Ops mn mx then [mn]
  else
    let logmin := nln Ops mn in
    let dlog := (nln Ops mx - logmin) / (nofZ Ops (Z.of_nat steps) - n1 Ops) in
    map (fun i => nexp Ops (logmin + nofZ Ops (Z.of_nat i) * dlog)) (seq 0 steps).
Definition export_function_range (header : list line) (func : T -> T) (xmin xmax : T) (steps : nat)
    (dims : list T) (logarithmic : bool) : res file :=
  export_function_list header func
    (if logarithmic then log_space xmin xmax steps else linear_space xmin xmax steps) dims.

(** `while(inputfile >> x)`: numbers are read across line boundaries until the first token that is not one *)
Fixpoint read_nums (l : list tok) : list T :=
  match l with Num x :: tl => x :: read_nums tl | _ => [] end.

(** the tokens left after `ignored_initial_lines` calls of ignore(max,'\n') (each skips one line, whatever its length) *)
Definition after_header (f : file) (ignored : nat) : list tok := concat (skipn ignored f).

(** Import_List; [None] = the file cannot be opened *)
Definition import_list (f : option file) (dim : T) (ignored : nat) : res (list T) :=
  match f with
  | None => Exit
  | Some fl => Ok (map (fun x => x * dim) (read_nums (after_header fl ignored)))
  end.

(** Count_Lines (0 when the file cannot be opened) *)
Definition count_lines (f : option file) : Z :=
  match f with None => 0%Z | Some fl => u32 (Z.of_nat (length fl)) end.

Fixpoint chunks (rows cols : nat) (l : list T) : list (list T) :=
  match rows with
  | O => []
  | S r => firstn cols l :: chunks r cols (skipn cols l)
  end.

(** Import_Table: exits when the file has no line after the ignored ones or no number was read;
    rows = Count_Lines - ignored, columns = tokens / rows (unsigned division); exits when rows * columns
    (an unsigned int product) is not the number of tokens, when some line after the ignored ones does not
    start with exactly [columns] numbers (the file is re-read line by line; blank lines included), and when a
    non-empty [dimensions] has another length than columns; then the tokens are laid out row by row and multiplied by the column's dimension. *)
Definition import_table (f : option file) (dims : list T) (ignored : nat) : res (list (list T)) :=
  match f with
  | None => Exit
  | Some fl =>
      let aux := read_nums (after_header fl ignored) in
      let lines := count_lines f in
      if (lines <=? Z.of_nat ignored)%Z || is_nil aux then Exit
      else
        let rows := u32 (lines - Z.of_nat ignored)%Z in
        let columns := u32 (Z.of_nat (length aux) / rows)%Z in
        if negb (u32 (rows * columns)%Z =? Z.of_nat (length aux))%Z then Exit
        else if negb (forallb (fun l => (Z.of_nat (length (read_nums l)) =? columns)%Z) (skipn ignored fl)) then Exit
        else if negb (is_nil dims) && negb (Z.of_nat (length dims) =? columns)%Z then Exit
        else Ok (map (fun row => mapi_from 0 (fun j x => x * dim_at dims j) row)
                     (chunks (Z.to_nat rows) (Z.to_nat columns) aux))
  end.

(** the composite the property speaks about: write with Export_*, read back with Import_* using the same
    unit factors and the number of header lines written *)
Definition roundtrip_list (header : list line) (data : list T) (dim : T) : res (list T) :=
  import_list (Some (export_list header data dim)) dim (length header).
Definition roundtrip_table (header : list line) (data : list (list T)) (dims : list T) (ignored : nat) : res (Z * list (list T)) :=
  rbind (export_table header data dims) (fun f =>
  rbind (import_table (Some f) dims ignored) (fun t => Ok (count_lines (Some f), t))).
Definition roundtrip_function_list (header : list line) (func : T -> T) (xs : list T) (dims : list T) : res (Z * list (list T)) :=
  rbind (export_function_list header func xs dims) (fun f =>
  rbind (import_table (Some f) dims (length header)) (fun t => Ok (count_lines (Some f), t))).
Definition roundtrip_function_range (header : list line) (func : T -> T) (xmin xmax : T) (steps : nat)
    (dims : list T) (logarithmic : bool) : res (Z * list (list T)) :=
  rbind (export_function_range header func xmin xmax steps dims logarithmic) (fun f =>
  rbind (import_table (Some f) dims (length header)) (fun t => Ok (count_lines (Some f), t))).
End Model.

Arguments Num {T}. Arguments Word {T}.

(** ** Part 3.  Sessions: several calls of the export / import functions in one process.

    The files are state outside the functions: a file system maps a path (identified by a number: distinct numbers,
    distinct files) to its content.  Export_* opens its path with std::ofstream::open, which truncates: whatever the path
    held before — a longer file, a file of another kind — is gone, the new content is exactly what one call writes.
    Import_* and Count_Lines read the file at their path and leave every file as it is.  A call that terminates the
    process (std::exit) ends the session: no later call answers. *)
Section Sessions.
Context {T : Type} (Ops : NumOps T).
Variable fmt6 : T -> T.

Definition fsys := list (nat * @file T).
Fixpoint fs_get (fs : fsys) (p : nat) : option (@file T) :=
  match fs with
  | [] => None
  | (q, f) :: tl => if Nat.eqb p q then Some f else fs_get tl p
  end.
Definition fs_put (fs : fsys) (p : nat) (f : @file T) : fsys := (p, f) :: fs.

Inductive io_op :=
| OExportList (p : nat) (header : list (@line T)) (data : list T) (dim : T)
| OExportTable (p : nat) (header : list (@line T)) (data : list (list T)) (dims : list T)
| OExportFunction (p : nat) (header : list (@line T)) (func : T -> T) (xs : list T) (dims : list T)
| OExportFunctionRange (p : nat) (header : list (@line T)) (func : T -> T) (xmin xmax : T) (steps : nat) (dims : list T) (logarithmic : bool)
| OImportList (p : nat) (dim : T) (ignored : nat)
| OImportTable (p : nat) (dims : list T) (ignored : nat)
| OCountLines (p : nat)
| OFileExists (p : nat).

Inductive io_out := RUnit | RList (l : list T) | RTable (t : list (list T)) | RCount (n : Z) | RBool (b : bool).

(** File_Exists: stat() on the path succeeds, i.e. the path holds a file; nothing is opened, nothing is changed *)
Definition file_exists (f : option (@file T)) : bool := match f with Some _ => true | None => false end.

Definition io_step (fs : fsys) (o : io_op) : res (fsys * io_out) :=
  match o with
  | OExportList p h data dim => Ok (fs_put fs p (export_list Ops fmt6 h data dim), RUnit)
  | OExportTable p h data dims => rbind (export_table Ops fmt6 h data dims) (fun f => Ok (fs_put fs p f, RUnit))
  | OExportFunction p h func xs dims => rbind (export_function_list Ops fmt6 h func xs dims) (fun f => Ok (fs_put fs p f, RUnit))
  | OExportFunctionRange p h func a b steps dims lg =>
      rbind (export_function_range Ops fmt6 h func a b steps dims lg) (fun f => Ok (fs_put fs p f, RUnit))
  | OImportList p dim ign => rbind (import_list Ops (fs_get fs p) dim ign) (fun l => Ok (fs, RList l))
  | OImportTable p dims ign => rbind (import_table Ops (fs_get fs p) dims ign) (fun t => Ok (fs, RTable t))
  | OCountLines p => Ok (fs, RCount (count_lines (fs_get fs p)))
  | OFileExists p => Ok (fs, RBool (file_exists (fs_get fs p)))
  end.

Fixpoint io_run (fs : fsys) (ops : list io_op) : res (fsys * list io_out) :=
  match ops with
  | [] => Ok (fs, [])
  | o :: tl => rbind (io_step fs o) (fun r => rbind (io_run (fst r) tl) (fun s => Ok (fst s, snd r :: snd s)))
  end.

Definition writes (o : io_op) : option nat :=
  match o with
  | OExportList p _ _ _ | OExportTable p _ _ _ | OExportFunction p _ _ _ _ | OExportFunctionRange p _ _ _ _ _ _ _ => Some p
  | _ => None
  end.
End Sessions.
