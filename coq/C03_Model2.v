(** * C03 model, second part (seventh pass): what Integrate writes besides its value, and the nested integrators built on it.
    - Check_Integration_Limits (Integration.cpp:67-75) as a function of its own, with the notice it prints on stderr;
    - the diagnostics of Integrate (Integration.cpp:92-100): "did not converge", "Result is nan.", "Result is inf.";
    - the method guard of the string overload (Integration.cpp:176-217): unrecognised method -> std::exit;
    - Integrate_2D / Integrate_3D with method "Adaptive-Simpson" (Integration.cpp:221-232, 249-263): the string overload nested in itself.
    Line by line, no proofs; extracted and run against the library on every run (ops diag, named, i2d, i3d). *)
From Coq Require Import ZArith List Bool.
From LP Require Import Num C03_Model.
Import ListNotations.

Section Model2.
Context {T : Type} (Ops : NumOps T).
Declare Scope num2_scope.
Local Notation "x + y" := (nadd Ops x y) : num2_scope.
Local Notation "x - y" := (nsub Ops x y) : num2_scope.
Local Notation "x * y" := (nmul Ops x y) : num2_scope.
Local Notation "x / y" := (ndiv Ops x y) : num2_scope.
Local Open Scope num2_scope.
Local Notation "'#' k" := (nofZ Ops k) (at level 1, format "'#' k").

(** the largest finite double, (2^53 - 1) * 2^971: std::isinf(x) is modelled by its specification |x| > DBL_MAX *)
Definition dbl_max : T := nlit Ops ((2 ^ 53 - 1) * 2 ^ 971)%Z 1%Z (2 ^ 53 - 1)%Z 971%Z.

(** void Check_Integration_Limits(double& a, double& b, double& sign)
<<
	if(a > b) { std::cerr << "Warning ... Sign will get swapped." << std::endl;  std::swap(a, b);  sign = -1.0; }
>>
    Result: the three references after the call and whether the notice was printed. *)
Definition check_limits (a b sign : T) : T * T * T * bool :=
  if ngtb Ops a b then (b, a, nneg Ops (n1 Ops), true) else (a, b, sign, false).

(** the tail of Integrate:
<<
	if(std::isnan(result)) std::cout << "Warning in libphysica::Integrate(): Result is nan." << std::endl;
	else if(std::isinf(result)) std::cout << "Warning in libphysica::Integrate(): Result is inf." << std::endl;
>>
    Result: (nan notice, inf notice). *)
Definition result_diag (result : T) : bool * bool :=
  if nisnan Ops result then (true, false)
  else if ngtb Ops (nabs Ops result) dbl_max then (false, true)
  else (false, false).

(** Integrate(func, a, b, epsilon, maxRecursionDepth) with everything it writes:
    ((value, non-convergence warning, abscissae), (swap notice on stderr, nan notice, inf notice)). *)
Definition integrate_report (f : T -> T) (a b eps : T) (depth : Z) : (T * bool * list T) * (bool * bool * bool) :=
  let sign := n1 Ops in
  if neqb Ops a b then ((n0 Ops, false, []), (false, false, false))
  else
    let '(a', b', sign, notice) := check_limits a b sign in
    let c := (a' + b') / #2 in
    let h := b' - a' in
    let fa := f a' in
    let fb := f b' in
    let fc := f c in
    let S := (h / #6) * (fa + #4 * fc + fb) in
    let '(result, w, t) := asr Ops f (Z.to_nat depth) a' b' (nabs Ops eps) S fa fb fc in
    let '(wnan, winf) := result_diag result in
    ((sign * result, w, a' :: b' :: c :: t), (notice, wnan, winf)).

(** double Integrate(func, a, b, const std::string& method, int method_parameter): the guard on the method name
<<
	if(method != "Trapezoidal" && ... && method != "Adaptive-Simpson") { std::cerr << ...; std::exit(EXIT_FAILURE); }
	if(a == b) return 0.0;  else Check_Integration_Limits(a, b, sign);
	... else if(method == "Adaptive-Simpson") { double eps = Find_Epsilon(func, a, b, 1e-9);  return sign * Integrate(func, a, b, eps); }
>>
    The name is compared by the caller of the model (driver): [MAdaptiveSimpson], one of the five methods that are not part of
    this property ([MOther]: recognised, not modelled - no answer), or anything else ([MUnknown]). *)
Inductive method : Type := MAdaptiveSimpson | MOther | MUnknown.

Definition integrate_named (m : method) (f : T -> T) (a b : T) : res (option (T * bool * list T)) :=
  match m with
  | MUnknown => Exit
  | MOther => if neqb Ops a b then Ok (Some (n0 Ops, false, [])) else Ok None
  | MAdaptiveSimpson => Ok (Some (integrate_method Ops f a b))
  end.

(** double Integrate_2D(func, x1, x2, y1, y2, method, method_parameter) with method = "Adaptive-Simpson"
<<
	auto integrand_x = [&func, y1, y2, method, method_parameter](double x) {
		auto integrand_y = [&func, x](double y) { return func(x, y); };
		return Integrate(integrand_y, y1, y2, method, method_parameter);  };
	return Integrate(integrand_x, x1, x2, method, method_parameter);
>>
    Result: (value, some call - outer or inner - printed the non-convergence warning, the points (x,y) at which func was called). *)
Definition integrate_2d (f : T -> T -> T) (x1 x2 y1 y2 : T) : T * bool * list (T * T) :=
  let inner := fun x => integrate_method Ops (fun y => f x y) y1 y2 in
  let '(v, w, t) := integrate_method Ops (fun x => fst (fst (inner x))) x1 x2 in
  (v, w || existsb (fun x => snd (fst (inner x))) t, flat_map (fun x => map (pair x) (snd (inner x))) t).

(** double Integrate_3D(func, x1, x2, y1, y2, z1, z2, method, method_parameter) with method = "Adaptive-Simpson":
    integrand_x(x) = Integrate(y -> Integrate(z -> func(x,y,z), z1, z2, method), y1, y2, method), i.e. the value of the 2D
    integral of func(x,.,.).  Result: (value, some warning, number of calls of func). *)
Definition integrate_3d (f : T -> T -> T -> T) (x1 x2 y1 y2 z1 z2 : T) : T * bool * nat :=
  let inner := fun x => integrate_2d (fun y z => f x y z) y1 y2 z1 z2 in
  let '(v, w, t) := integrate_method Ops (fun x => fst (fst (inner x))) x1 x2 in
  (v, w || existsb (fun x => snd (fst (inner x))) t, fold_right (fun x n => (length (snd (inner x)) + n)%nat) O t).
End Model2.
