(** * C18 proofs, seventh pass: the generator (std::mt19937, std::generate_canonical) of C18_Model2.v. *)
From Coq Require Import ZArith List Bool Lia Reals Lra.
From LP Require Import Num NumR C18_Model C18_Model2 C18_Proofs C18_Proofs_Hist.
Import ListNotations.
Local Open Scope Z_scope.

(** ** 32-bit words *)
Definition b32 (z : Z) : Prop := 0 <= z < 4294967296.

Lemma b32_bits z : b32 z <-> (0 <= z /\ forall m, 32 <= m -> Z.testbit z m = false).
Proof.
  unfold b32. change 4294967296 with (2 ^ 32). split.
  - intros [H0 H1]. split; [assumption|]. intros m Hm.
    destruct (Z.eq_dec z 0) as [->|Hz]; [apply Z.bits_0|].
    apply Z.bits_above_log2; [assumption|]. assert (Z.log2 z < 32) by (apply Z.log2_lt_pow2; lia). lia.
  - intros [H0 H]. split; [assumption|].
    destruct (Z.eq_dec z 0) as [->|Hz]; [reflexivity|].
    apply Z.log2_lt_pow2; [lia|]. destruct (Z_lt_le_dec (Z.log2 z) 32) as [?|Hl]; [assumption|].
    specialize (H _ Hl). rewrite Z.bit_log2 in H by lia. discriminate.
Qed.

Lemma b32_lxor a b : b32 a -> b32 b -> b32 (Z.lxor a b).
Proof.
  rewrite !b32_bits. intros [Ha Ha'] [Hb Hb']. split; [apply Z.lxor_nonneg; tauto|].
  intros m Hm. rewrite Z.lxor_spec, Ha', Hb' by assumption. reflexivity.
Qed.
Lemma b32_lor a b : b32 a -> b32 b -> b32 (Z.lor a b).
Proof.
  rewrite !b32_bits. intros [Ha Ha'] [Hb Hb']. split; [apply Z.lor_nonneg; tauto|].
  intros m Hm. rewrite Z.lor_spec, Ha', Hb' by assumption. reflexivity.
Qed.
Lemma b32_land_r a b : b32 b -> b32 (Z.land a b).
Proof.
  rewrite !b32_bits. intros [Hb Hb']. split; [apply Z.land_nonneg; tauto|].
  intros m Hm. rewrite Z.land_spec, Hb' by assumption. apply andb_false_r.
Qed.
Lemma b32_shiftr a k : 0 <= k -> b32 a -> b32 (Z.shiftr a k).
Proof.
  rewrite !b32_bits. intros Hk [Ha Ha']. split; [apply Z.shiftr_nonneg; assumption|].
  intros m Hm. rewrite Z.shiftr_spec by lia. apply Ha'. lia.
Qed.
Lemma b32_mod z : b32 (z mod 4294967296).
Proof. unfold b32. apply Z.mod_pos_bound. lia. Qed.
Lemma b32_const z : (0 <=? z) && (z <? 4294967296) = true -> b32 z.
Proof. unfold b32. intros H. apply andb_true_iff in H. destruct H as [H1 H2]. apply Z.leb_le in H1. apply Z.ltb_lt in H2. lia. Qed.

Lemma b32_temper z : b32 z -> b32 (mt_temper z).
Proof.
  intros H. unfold mt_temper.
  repeat (first [apply b32_lxor | apply b32_land_r; apply b32_const; reflexivity | apply b32_shiftr; [lia|] | assumption]).
Qed.
Lemma b32_mix xm y : b32 xm -> b32 y -> b32 (mt_mix xm y).
Proof.
  intros H1 H2. unfold mt_mix. apply b32_lxor; [apply b32_lxor; [assumption|apply b32_shiftr; [lia|assumption]]|].
  destruct (Z.odd y); apply b32_const; reflexivity.
Qed.
Lemma b32_y a b : b32 (mt_y a b).
Proof. unfold mt_y. apply b32_lor; apply b32_land_r; apply b32_const; reflexivity. Qed.

(** ** the state: 624 words of 32 bits and a position *)
Definition words_ok (x : list Z) : Prop := length x = 624%nat /\ Forall b32 x.
Definition mt_wf (g : mt_state) : Prop := words_ok (fst g) /\ 0 <= snd g <= 624.

Lemma b32_nthZ x k : Forall b32 x -> b32 (nthZ x k).
Proof.
  intros H. unfold nthZ. destruct (nth_in_or_default (Z.to_nat k) x 0) as [Hin | ->].
  - rewrite Forall_forall in H. auto.
  - apply b32_const; reflexivity.
Qed.
Lemma upd_ok x : forall k v, b32 v -> Forall b32 x -> Forall b32 (upd x k v) /\ length (upd x k v) = length x.
Proof.
  induction x as [|a x IH]; intros k v Hv H; [split; [constructor|reflexivity]|].
  inversion H; subst. destruct k; simpl.
  - split; [constructor; assumption|reflexivity].
  - destruct (IH k v Hv H3) as [I1 I2]. split; [constructor; assumption|congruence].
Qed.
Lemma twist_loop_ok fuel : forall k x, words_ok x -> words_ok (twist_loop fuel k x).
Proof.
  induction fuel as [|f IH]; intros k x H; [exact H|].
  cbn [twist_loop]. apply IH. destruct H as [Hl Hf]. unfold updZ.
  destruct (upd_ok x (Z.to_nat k) (mt_mix (nthZ x ((k + mt_m) mod mt_n)) (mt_y (nthZ x k) (nthZ x ((k + 1) mod mt_n))))) as [I1 I2]; auto.
  - apply b32_mix; [apply b32_nthZ; assumption|apply b32_y].
  - split; [congruence|assumption].
Qed.

Lemma seed_loop_ok fuel : forall i prev, Forall b32 (seed_loop fuel i prev) /\ length (seed_loop fuel i prev) = fuel.
Proof.
  induction fuel as [|f IH]; intros i prev; [split; [constructor|reflexivity]|].
  cbn [seed_loop]. destruct (IH (i + 1) ((Z.lxor prev (Z.shiftr prev 30) * 1812433253 + i mod mt_n) mod 4294967296)) as [I1 I2].
  split; [constructor; [apply b32_mod|exact I1]|cbn [length]; congruence].
Qed.
Lemma mt_twist_ok x : words_ok x -> words_ok (mt_twist x).
Proof. unfold mt_twist. apply twist_loop_ok. Qed.
Opaque mt_twist mt_temper twist_loop seed_loop.

Theorem mt_seed_wf value : mt_wf (mt_seed value).
Proof.
  unfold mt_seed, mt_wf. cbv zeta. cbn [fst snd]. destruct (seed_loop_ok 623 1 (value mod 4294967296)) as [I1 I2].
  split; [split; [cbn [length]; rewrite I2; reflexivity|constructor; [apply b32_mod|exact I1]]|unfold mt_n; lia].
Qed.

Theorem mt_next_wf g : mt_wf g -> b32 (fst (mt_next g)) /\ mt_wf (snd (mt_next g)).
Proof.
  destruct g as [x p]. intros [Hw Hp]. cbn [fst snd] in *. unfold mt_next.
  destruct (p >=? mt_n) eqn:E.
  - assert (Hw' : words_ok (mt_twist x)) by (apply mt_twist_ok; exact Hw).
    unfold mt_wf. cbn [fst snd]. split; [apply b32_temper, b32_nthZ, Hw'|]. split; [exact Hw'|lia].
  - unfold mt_wf. cbn [fst snd]. rewrite Z.geb_leb in E. apply Z.leb_gt in E. unfold mt_n in E.
    split; [apply b32_temper, b32_nthZ, Hw|]. split; [exact Hw|lia].
Qed.

Lemma mt_discard_wf n : forall g, mt_wf g -> mt_wf (mt_discard n g).
Proof. induction n as [|n IH]; intros g H; [exact H|]. simpl. apply IH. apply mt_next_wf. exact H. Qed.

Lemma app_inv_length {X} (l1 : list X) : forall l2 r1 r2, l1 ++ r1 = l2 ++ r2 -> length l1 = length l2 -> r1 = r2.
Proof.
  induction l1 as [|a l1 IH]; intros [|b l2] r1 r2 H Hl; simpl in *; try discriminate; [exact H|].
  inversion H. eapply IH; eauto.
Qed.

(** ** the stream is a function of the state; the rest of it is the stream of the state left behind *)
Section AnyT.
Context {T : Type} (Ops : NumOps T).

Lemma mt_canon_discard g : snd (mt_canon Ops g) = mt_discard 2 g.
Proof. unfold mt_canon. cbn [mt_discard]. destruct (mt_next g) as [r1 g1]. cbn [snd]. destruct (mt_next g1) as [r2 g2]. reflexivity. Qed.

Lemma mt_discard_add n : forall m g, mt_discard (n + m) g = mt_discard m (mt_discard n g).
Proof. induction n as [|n IH]; intros m g; [reflexivity|]. simpl. apply IH. Qed.

Theorem mt_stream_app n : forall m g,
  mt_stream Ops (n + m) g = mt_stream Ops n g ++ mt_stream Ops m (mt_discard (2 * n) g).
Proof.
  induction n as [|n IH]; intros m g; [reflexivity|].
  replace (2 * S n)%nat with (2 + 2 * n)%nat by lia. rewrite mt_discard_add.
  cbn [Nat.add mt_stream]. pose proof (mt_canon_discard g) as Hd.
  destruct (mt_canon Ops g) as [u g']. cbn [snd] in Hd. subst g'. rewrite IH. reflexivity.
Qed.

Lemma mt_stream_length n : forall g, length (mt_stream Ops n g) = n.
Proof. induction n as [|n IH]; intros g; [reflexivity|]. cbn [mt_stream]. destruct (mt_canon Ops g). simpl. f_equal. apply IH. Qed.

(** a history run from a generator state: the answers are those of the stream model on the canonical uniforms of that state, the
    generator left behind is the state advanced by two raw outputs per canonical draw, and the part of the stream that was not
    read is exactly the stream of the generator left behind *)
Theorem run_from_spec g n cs a k g' :
  run_from Ops g n cs = Ok (a, k, g') ->
  exists j, k = Z.of_nat j /\ (j <= n)%nat /\ g' = mt_discard (2 * j) g /\
            run_calls Ops cs (mt_stream Ops n g) = Ok (a, mt_stream Ops (n - j) g') /\
            exists c, costs cs a c /\ c = k.
Proof.
  unfold run_from. destruct (run_calls Ops cs (mt_stream Ops n g)) as [[a' rest]| | |] eqn:E; try discriminate.
  intros H. inversion H; subst. clear H.
  destruct (history_consumption Ops cs _ _ _ E) as (c & Hc & pre & Hus & Hlen).
  pose proof (mt_stream_length n g) as Hn. rewrite Hus, app_length in Hn.
  set (j := (length (mt_stream Ops n g) - length rest)%nat).
  assert (Hj : j = length pre) by (unfold j; rewrite Hus, app_length; lia).
  exists j. split; [reflexivity|]. split; [lia|]. split; [reflexivity|]. split.
  - f_equal. f_equal. replace n with (j + (n - j))%nat in Hus at 1 by lia. rewrite mt_stream_app in Hus.
    apply app_inv_length in Hus; [symmetry; exact Hus|]. rewrite mt_stream_length. exact Hj.
  - exists c. split; [exact Hc|]. lia.
Qed.
End AnyT.
