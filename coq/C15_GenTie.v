(** * C15 T-tie: Sign(double), Sign(double, double) and Relative_Difference of src/Special_Functions.cpp, regenerated from clang's AST on
    every run of the check (Gen_C15_Formulas.v, tools/cxx2gallina.py), are the hand model: [sign_int], [sign_xy], [relative_difference]
    of C15_Model2.v and [sign1], [sign2] of Num.v (the term [householder_alpha] of C15_Model.v is built from).
    The generated terms spell the literals 0.0 and 1.0 as [nlit Ops 0 1 0 0] and [nlit Ops 1 1 1 0], the hand model writes [n0], [n1]:
    the two agree in every arithmetic satisfying [LitLaws] (the literal k.0 is the integer k).  The laws hold in the reals
    ([ROps_LitLaws]); in the double instance the literals are exactly the doubles 0 and 1, and that instance is compared with the
    library by the correspondence run (op scalars).  A change of a comparison, a branch, a literal or an operand order in one of the
    three C++ functions changes the generated term and breaks a lemma here before any case is run. *)
From Coq Require Import ZArith Bool Reals.
From LP Require Import Num NumR C15_Model C15_Model2 Gen_C15_Formulas.
Local Open Scope Z_scope.

Section Tie.
Context {T : Type} (Ops : NumOps T).
Record LitLaws : Prop := {
  lit_integer : forall k m e, nlit Ops k 1 m e = nofZ Ops k;
  ofZ_0 : nofZ Ops 0 = n0 Ops;
  ofZ_1 : nofZ Ops 1 = n1 Ops }.
Hypothesis LL : LitLaws.
Lemma lit0 m e : nlit Ops 0 1 m e = n0 Ops.
Proof. rewrite (lit_integer LL). apply (ofZ_0 LL). Qed.
Lemma lit1 m e : nlit Ops 1 1 m e = n1 Ops.
Proof. rewrite (lit_integer LL). apply (ofZ_1 LL). Qed.

Lemma tie_Sign x : g_Sign Ops x = sign_int Ops x.
Proof. unfold g_Sign, sign_int, ngtb. rewrite !lit0. reflexivity. Qed.
Lemma tie_Sign2 x y : g_Sign2 Ops x y = sign_xy Ops x y.
Proof. unfold g_Sign2, sign_xy. rewrite !tie_Sign, lit1. reflexivity. Qed.
Lemma tie_Relative_Difference a b : g_Relative_Difference Ops a b = relative_difference Ops a b.
Proof. unfold g_Relative_Difference, relative_difference. rewrite !lit0. reflexivity. Qed.
(** the model of C15_Model.v calls Num.sign2: the same term *)
Lemma sign_int_is_sign1 x : sign_int Ops x = sign1 Ops x.
Proof. reflexivity. Qed.
Lemma sign_xy_is_sign2 x y : sign_xy Ops x y = sign2 Ops x y.
Proof. reflexivity. Qed.
Lemma tie_householder_alpha (x : list T) :
  householder_alpha Ops x = g_Sign2 Ops (vnorm Ops x) (nneg Ops (nth0 Ops x 0)).
Proof. rewrite tie_Sign2. reflexivity. Qed.
End Tie.

Lemma ROps_LitLaws : LitLaws ROps.
Proof. split; cbn; intros; try reflexivity. unfold Rdiv. rewrite Rinv_1. ring. Qed.

(** over the reals, without any hypothesis *)
Lemma tie_R_Sign2 (x y : R) : g_Sign2 ROps x y = sign_xy ROps x y.
Proof. exact (tie_Sign2 ROps ROps_LitLaws x y). Qed.
Lemma tie_R_Relative_Difference (a b : R) : g_Relative_Difference ROps a b = relative_difference ROps a b.
Proof. exact (tie_Relative_Difference ROps ROps_LitLaws a b). Qed.
Lemma tie_R_householder_alpha (x : list R) :
  householder_alpha ROps x = g_Sign2 ROps (vnorm ROps x) (nneg ROps (nth0 ROps x 0)).
Proof. exact (tie_householder_alpha ROps ROps_LitLaws x). Qed.
