(** C17 — conjugation symmetry carried from the scalar harmonics to the vector harmonics, for ALL l >= 0, |m| <= l:
    if Y_{l,-m} = (-1)^m conj(Y_{l,m}) (premise: boost's scalar harmonics), then the summation loops give
    Vector_Y_{l,-m} = (-1)^m conj(Vector_Y_{l,m}) and Vector_Psi_{l,-m} = (-1)^m conj(Vector_Psi_{l,m}), component by component. *)
From Coq Require Import Reals ZArith Lra Lia Bool List Psatz.
From Coquelicot Require Import Coquelicot.
From LP Require Import Num NumR Gen_C17_Formulas C17_Model C17_Proofs_VSH.
Import ListNotations.
Local Open Scope Z_scope.

Definition cconj (z : R * R) : R * R := (fst z, - snd z)%R.
Definition sgn (m : Z) : R := if Z.even m then 1%R else (-1)%R.
(* z |-> (-1)^m conj z *)
Definition mirror (m : Z) (z : R * R) : R * R := cscale (sgn m) (cconj z).

Lemma sgn_succ m : sgn (m + 1) = (- sgn m)%R.
Proof. unfold sgn. rewrite Z.even_add. cbn. destruct (Z.even m); cbn; lra. Qed.
Lemma sgn_pred m : sgn (m - 1) = (- sgn m)%R.
Proof. unfold sgn. rewrite Z.even_sub. cbn. destruct (Z.even m); cbn; lra. Qed.
Lemma sgn_sq m : (sgn m * sgn m = 1)%R.
Proof. unfold sgn. destruct (Z.even m); lra. Qed.

Lemma sqrt_coef_comm (a b c d : R) : sqrt (1 / 1 * a * b / c / d) = sqrt (1 / 1 * b * a / c / d).
Proof. f_equal. unfold Rdiv. ring. Qed.

Lemma sqrt_coef_zero_LL (L : R) (a b : Z) (c d : R) : (a = 0 \/ b = 0)%Z -> sqrt (1 / 1 * L * L * IZR a * IZR b / c / d) = 0%R.
Proof.
  intros [-> | ->]; (replace (1 / 1 * L * L * _ * _ / c / d)%R with 0%R by (unfold Rdiv; ring)); apply sqrt_0.
Qed.

Ltac guard_side2 :=
  let Hg := fresh "Hg" in
  intros Hg; apply Z.leb_gt in Hg; cbn [fst snd cmul_r cdiv_r cneg ROps nmul ndiv nneg nsqrt nofZ nlit n0];
  try rewrite sqrt_coef_zero by lia; try rewrite sqrt_coef_zero_LL by lia; split; unfold Rdiv; ring.

Section Conj.
Variable Y : Z -> Z -> R * R.
Hypothesis Y_conj : forall lh mh, Y lh (- mh) = mirror mh (Y lh mh).

Ltac open_both :=
  unfold vsh_sum, vsh_term; cbn [rbind nofZ ROps];
  unfold g_VSH_Y_Component, g_VSH_Psi_Component; zeqb_resolve; cbn [andb orb negb rbind];
  repeat (rewrite guard_drop by guard_side2; cbn [rbind]);
  cbn [rmap rbind]; f_equal.

Ltac close_sum l m :=
  unfold mirror; rewrite ?sgn_succ, ?sgn_pred;
  repeat match goal with |- context [sqrt ?a] => generalize (sqrt a); intro end;
  generalize (sgn m); intro s;
  destruct (Y (l - 1) (m - 1)) as [a1 a2], (Y (l - 1) m) as [b1 b2], (Y (l - 1) (m + 1)) as [c1 c2],
           (Y (l + 1) (m - 1)) as [d1 d2], (Y (l + 1) m) as [e1 e2], (Y (l + 1) (m + 1)) as [f1 f2];
  unfold cscale, cconj, cadd, cmul, cmul_r, cdiv_r, cneg; cbn [fst snd ROps nadd nsub nmul ndiv nneg nsqrt nofZ nlit n0];
  rewrite ?opp_IZR, ?plus_IZR;
  f_equal; field.

Ltac mirror_sum l m :=
  open_both;
  replace (- m - 1) with (- (m + 1)) by lia; replace (- m + 1) with (- (m - 1)) by lia;
  rewrite !Y_conj;
  replace (l + - m) with (l - m) by lia; replace (l - - m) with (l + m) by lia;
  cbn [ROps nmul ndiv nneg nsqrt nofZ nlit n0];
  rewrite ?(sqrt_coef_comm (IZR (l + m + 1)) (IZR (l - m + 1))), ?(sqrt_coef_comm (IZR (l + m)) (IZR (l - m)));
  close_sum l m.


Lemma conj_sum_Y l m i : 0 <= l -> Z.abs m <= l -> (i = 0 \/ i = 1 \/ i = 2) ->
  vsh_sum ROps (g_VSH_Y_Component ROps) Y i l (- m) = rmap (mirror m) (vsh_sum ROps (g_VSH_Y_Component ROps) Y i l m).
Proof. intros Hl Hm [-> | [-> | ->]]; mirror_sum l m. Qed.

Lemma conj_sum_Psi l m i : 0 <= l -> Z.abs m <= l -> (i = 0 \/ i = 1 \/ i = 2) ->
  vsh_sum ROps (g_VSH_Psi_Component ROps) Y i l (- m) = rmap (mirror m) (vsh_sum ROps (g_VSH_Psi_Component ROps) Y i l m).
Proof. intros Hl Hm [-> | [-> | ->]]; mirror_sum l m. Qed.

Theorem vsh_conjugation l m : 0 <= l -> Z.abs m <= l ->
  vector_spherical_harmonics_Y ROps Y l (- m) = rmap (map (mirror m)) (vector_spherical_harmonics_Y ROps Y l m) /\
  vector_spherical_harmonics_Psi ROps Y l (- m) = rmap (map (mirror m)) (vector_spherical_harmonics_Psi ROps Y l m).
Proof.
  intros Hl Hm. unfold vector_spherical_harmonics_Y, vector_spherical_harmonics_Psi, vsh_vector. split.
  - rewrite !conj_sum_Y by (assumption || lia).
    destruct (vsh_sum ROps (g_VSH_Y_Component ROps) Y 0 l m); cbn [rmap rbind]; try reflexivity.
    destruct (vsh_sum ROps (g_VSH_Y_Component ROps) Y 1 l m); cbn [rmap rbind]; try reflexivity.
    destruct (vsh_sum ROps (g_VSH_Y_Component ROps) Y 2 l m); cbn [rmap rbind]; reflexivity.
  - rewrite !conj_sum_Psi by (assumption || lia).
    destruct (vsh_sum ROps (g_VSH_Psi_Component ROps) Y 0 l m); cbn [rmap rbind]; try reflexivity.
    destruct (vsh_sum ROps (g_VSH_Psi_Component ROps) Y 1 l m); cbn [rmap rbind]; try reflexivity.
    destruct (vsh_sum ROps (g_VSH_Psi_Component ROps) Y 2 l m); cbn [rmap rbind]; reflexivity.
Qed.
End Conj.
