(** * C06 proofs, part 4: non-vacuity of the hypotheses of the theorems (concrete inputs satisfying them). *)
From Coq Require Import Reals ZArith List Lia Lra Bool.
From Interval Require Import Tactic.
From LP Require Import Num NumR C06_Model C06_Proofs_Fact C06_Proofs_Gamma C06_Proofs_Quad C06_Proofs_Inv C06_Proofs_Ser.
Local Open Scope R_scope.

Lemma loop_fuel_SS : exists f, loop_fuel = S (S f).
Proof. exists (Z.to_nat 99998). unfold loop_fuel. lia. Qed.

Lemma dbl_eps_bounds : 0 < dbl_eps ROps < 1.
Proof.
  unfold dbl_eps, pow2_52. cbn [nlit ROps]. replace (2 ^ 52)%Z with 4503599627370496%Z by reflexivity.
  split; lra.
Qed.

Lemma gammaln_defined a : 0 < a -> exists g, gammaln ROps a = Ok g.
Proof. intros H. unfold gammaln. cbn [nleb n0 ROps]. destruct (Rleb_spec a 0); [lra|]. eexists; reflexivity. Qed.

(** the invariant of the memo table is satisfiable: the initial table {1.0} *)
Example tbl_inv_example : tbl_inv_R (fact_init ROps).
Proof. exact (tbl_inv_init ROps Ffact FR0). Qed.

(** P + Q = 1 and Upper + Lower = Gamma: defined answers exist (x = 0, a = 2) *)
Example p_plus_q_example : gammap ROps 0 2 = Ok 0 /\ gammaq ROps 0 2 = Ok 1.
Proof. split; [apply gammap_at_zero|apply gammaq_at_zero]; lra. Qed.

Example upper_plus_lower_example : exists u l, upper_incomplete_gamma ROps 0 2 = Ok u /\ lower_incomplete_gamma ROps 0 2 = Ok l.
Proof.
  unfold upper_incomplete_gamma, lower_incomplete_gamma, gamma, rmap.
  destruct (gammaln_defined 2 ltac:(lra)) as [g Hg]. rewrite Hg. cbn [rbind].
  rewrite gammap_at_zero, gammaq_at_zero by lra. cbn [rbind]. eexists; eexists; split; reflexivity.
Qed.

(** the quadrature branch answers: x beyond the window *)
Example gammaq_int_example : gammaq_int ROps 1000 101 = Ok 0.
Proof.
  unfold gammaq_int. destruct (gammaln_defined 101 ltac:(lra)) as [g Hg]. rewrite Hg. cbn [rbind].
  unfold ngtb. cbn [nltb nadd nsub nmul nsqrt nofZ n1 n0 ROps].
  destruct (Rltb_spec (101 - 1 + 10 * sqrt 101) 1000) as [_|H]; [|exfalso; apply H; interval].
  cbn [rbind]. unfold nmin, nmax. cbn [nltb nsub n0 n1 ROps].
  destruct (Rltb_spec 0 1); [|lra]. destruct (Rltb_spec 1 1); [lra|]. f_equal. ring.
Qed.

(** GammaPser answers: x = 0, a = 1 stops after one iteration *)
Example gser_example : exists v, gammap_ser ROps 0 1 = Ok v.
Proof.
  pose proof dbl_eps_bounds as He.
  unfold gammap_ser. destruct (gammaln_defined 1 ltac:(lra)) as [g Hg]. rewrite Hg. cbn [rbind].
  destruct loop_fuel_SS as [f Hf]. rewrite Hf.
  cbn [gser_loop]. unfold ngtb. cbn [nltb nabs nmul nadd ndiv n1 ROps].
  replace (1 / 1) with 1 by field. rewrite Rabs_R1.
  destruct (Rltb_spec (1 * dbl_eps ROps) 1) as [_|H]; [|lra].
  replace (1 * (0 / (1 + 1))) with 0 by field. rewrite Rabs_R0.
  destruct (Rltb_spec (Rabs (1 + 0) * dbl_eps ROps) 0) as [H|_].
  - exfalso. assert (0 <= Rabs (1 + 0) * dbl_eps ROps) by (apply Rmult_le_pos; [apply Rabs_pos|lra]). lra.
  - cbn [rbind]. eexists; reflexivity.
Qed.

(** GammaQcf answers: for a = 1 the first partial numerator vanishes, del_1 = 1 and the loop stops after one iteration
    (Q(x,1) = e^-x); no clamp triggers *)
Example gammaq_cf_example : (exists v, gammaq_cf ROps 2 1 = Ok v) /\ lentz_noclamp 1 (lentz_run 2 1 0) /\ 2 + 1 - 1 <> 0.
Proof.
  pose proof dbl_eps_bounds as He. pose proof fpmin_pos as Hf0.
  assert (Hf1 : dbl_fpmin ROps < 1).
  { unfold dbl_fpmin, pow2_970. cbn [nlit ROps]. apply Rmult_lt_reg_r with (IZR (2 ^ 970)); [apply IZR_lt; apply Z.pow_pos_nonneg; lia|].
    unfold Rdiv. rewrite Rmult_assoc, Rinv_l by (apply not_0_IZR; apply Z.pow_nonzero; lia).
    rewrite !Rmult_1_l. apply IZR_lt. apply Z.pow_gt_1; lia. }
  split; [|split; [|lra]].
  - unfold gammaq_cf. destruct (gammaln_defined 1 ltac:(lra)) as [g Hg]. rewrite Hg. cbn [rbind].
    destruct loop_fuel_SS as [f Hf]. rewrite Hf.
    cbn [lentz_loop lentz_init lz_del]. unfold ngtb. cbn [nltb nabs nsub n0 n1 ROps].
    replace (Rabs (0 - 1)) with 1 by (rewrite Rabs_left; lra).
    destruct (Rltb_spec (dbl_eps ROps) 1) as [_|H]; [|lra].
    unfold lentz_body. cbn [lz_i lz_b lz_c lz_d lz_h lz_del lentz_init nneg n1 nmul nofZ nsub nadd ndiv nltb nabs ROps].
    replace (- (1) * 1 * (1 - 1)) with 0 by ring.
    replace (0 * (1 / (2 + 1 - 1)) + (2 + 1 - 1 + 2)) with 4 by field.
    replace (2 + 1 - 1 + 2 + 0 / (1 / dbl_fpmin ROps)) with 4 by (field; lra).
    rewrite (Rabs_pos_eq 4) by lra.
    destruct (Rltb_spec 4 (dbl_fpmin ROps)) as [H|_]; [lra|].
    replace (1 / 4 * 4 - 1) with 0 by field. rewrite Rabs_R0.
    destruct (Rltb_spec (dbl_eps ROps) 0) as [H|_]; [lra|].
    cbn [rbind]. eexists; reflexivity.
  - unfold lentz_noclamp. cbn [lentz_run lentz_init lz_i lz_b lz_c lz_d n1 nadd nsub ndiv ROps].
    replace (-1 * 1 * (1 - 1)) with 0 by ring.
    replace (0 * (1 / (2 + 1 - 1)) + (2 + 1 - 1 + 2)) with 4 by field.
    replace (2 + 1 - 1 + 2 + 0 / (1 / dbl_fpmin ROps)) with 4 by (field; lra).
    rewrite (Rabs_pos_eq 4) by lra. split; lra.
Qed.

(** ** second part *)
(** C06_gammaq_int_regions: a shape with a non-empty window and an x inside it (a = 400: window [199, 599]) *)
Example gammaq_int_window_example : 0 < 400 /\ q_tmin 400 <= 400 <= q_tmax 400 /\ q_tmin 400 = 199.
Proof.
  assert (E : sqrt 400 = 20) by (replace 400 with (20 * 20) by ring; apply sqrt_square; lra).
  unfold q_tmin, q_tmax. rewrite E. replace (400 - 1 - 10 * 20) with 199 by ring. rewrite Rmax_right by lra. lra.
Qed.

(** C06_halley_fixed_point / C06_halley_positive / C06_halley_trace: a positive x at which GammaP answers, i.e. a p for which x is an
    exact solution (x = 1000, a = 101: right of the quadrature window, P = 1) *)
Example halley_example : 0 < 1000 /\ exists p, gammap ROps 1000 101 = Ok p /\
  forall gln a1 lna1 afac, halley ROps p 101 gln a1 lna1 afac 12 1000 = Ok 1000.
Proof.
  split; [lra|]. destruct (gammaq_large_a_total 1000 101 ltac:(lra) ltac:(lra)) as (q & Eq & _).
  exists (1 - q). assert (Ep : gammap ROps 1000 101 = Ok (1 - q)) by (unfold gammap, rmap; rewrite Eq; reflexivity).
  split; [exact Ep|]. intros. apply halley_fixed_point; [lra|exact Ep].
Qed.

(** C06_inverse_positive: the hypothesis "Inv_GammaP answers" holds e.g. for every a > 100 (p = 1/2, a = 101) *)
Example inverse_positive_example : exists r, inv_gammap ROps (1 / 2) 101 = Ok r /\ 0 < r.
Proof.
  destruct (inv_gammap_large_a_total (1 / 2) 101 ltac:(lra)) as (r & E & _ & P). exists r. split; [exact E|apply P; lra].
Qed.

(** C06_binomial_large / C06_binomial_symmetry_all beyond 170 *)
Example binomial_large_example : exists b, binomial ROps 200 3 = Ok b /\ binomial ROps 200 197 = Ok b.
Proof.
  destruct (binomial_large_defined (fact_init ROps) 200 3 ltac:(lia) ltac:(lia)) as (g1 & g2 & g3 & _ & _ & _ & E).
  eexists. split.
  - unfold binomial. rewrite E. reflexivity.
  - rewrite (binomial_symmetry_all 200 197) by lia. replace (200 - 197)%Z with 3%Z by lia. unfold binomial. rewrite E. reflexivity.
Qed.

(** C06_gser_integer_shape: GammaPser answers at an integer shape and a positive x (a = 1, x = 1e-18: the second term is below 2^-52) *)
Example gser_integer_example : 0 < 1 / 1000000000000000000 /\ exists v, gammap_ser ROps (1 / 1000000000000000000) (INR 1) = Ok v.
Proof.
  split; [lra|]. change (INR 1) with 1.
  assert (He : dbl_eps ROps = 1 / 4503599627370496).
  { unfold dbl_eps, pow2_52. cbn [nlit ROps]. replace (2 ^ 52)%Z with 4503599627370496%Z by reflexivity. reflexivity. }
  unfold gammap_ser. destruct (gammaln_defined 1 ltac:(lra)) as [g Hg]. rewrite Hg. cbn [rbind].
  destruct loop_fuel_SS as [f Hf]. rewrite Hf.
  cbn [gser_loop]. unfold ngtb. cbn [nltb nabs nmul nadd ndiv n1 ROps]. rewrite He.
  replace (1 / 1) with 1 by field. rewrite Rabs_R1.
  destruct (Rltb_spec (1 * (1 / 4503599627370496)) 1) as [_|H]; [|lra].
  set (d := 1 * (1 / 1000000000000000000 / (1 + 1))).
  assert (Hd : d = 1 / 2000000000000000000) by (unfold d; field).
  rewrite Hd. rewrite (Rabs_pos_eq (1 + 1 / 2000000000000000000)) by lra. rewrite (Rabs_pos_eq (1 / 2000000000000000000)) by lra.
  destruct (Rltb_spec ((1 + 1 / 2000000000000000000) * (1 / 4503599627370496)) (1 / 2000000000000000000)) as [H|_]; [lra|].
  cbn [rbind]. eexists; reflexivity.
Qed.

(** C06_gamma_no_threshold: an argument beyond the range of doubles (x = 172 > 171.6243, Gamma(172) = 171! > DBL_MAX) still gets exp(GammaLn x) > 0 from the model over R,
    and it is larger than the answer at 171 exactly when GammaLn is *)
Example gamma_no_threshold_example : 0 < 172 /\ exists g v, gammaln ROps 172 = Ok g /\ gamma ROps 172 = Ok v /\ ln v = g /\ 0 < v.
Proof.
  split; [lra|]. destruct (gamma_no_threshold 172 ltac:(lra)) as (g & v & Hg & Hv & Hl & _ & _).
  exists g, v. repeat split; try assumption.
  destruct (proj2 (gamma_domain 172) ltac:(lra)) as (g' & Hg' & Hv' & Hp). rewrite Hv in Hv'. injection Hv' as ->. exact Hp.
Qed.
