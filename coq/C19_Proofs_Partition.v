(** * C19 proofs: (1) Workload_Distribution is a partition of the tasks: every task index belongs to the half-open block of
    exactly one worker; (2) algebra of the list templates: Sub_List with its inclusive upper index cuts a list into
    adjacent pieces that Combine_Lists puts together again, Sub_List undoes Combine_Lists, List_Contains is the
    non-emptiness of Find_Indices, the number of indices found is the number of occurrences, Transpose_Lists is an
    involution on rectangular tables. *)
From Coq Require Import ZArith List Bool Lia Arith.
From LP Require Import Num C19_Model C19_Proofs C19_Proofs_Lists.
Import ListNotations.

(** ** 1. Partition *)
Section Cover.
Local Open Scope Z_scope.
Variable f : nat -> Z.
Variable w : nat.
Hypothesis step_le : forall k, (k < w)%nat -> f k <= f (S k).

Lemma chain_mono : forall k k', (k <= k')%nat -> (k' <= w)%nat -> f k <= f k'.
Proof.
  intros k k' H. induction H as [|m H IH]; intros Hw; [lia|].
  specialize (step_le m ltac:(lia)). specialize (IH ltac:(lia)). lia.
Qed.

Lemma chain_cover (j : Z) : f 0%nat <= j < f w -> exists k, (k < w)%nat /\ f k <= j < f (S k).
Proof.
  clear step_le. induction w as [|m IH]; intros H; [lia|].
  destruct (Z_lt_le_dec j (f m)) as [Hlt|Hge].
  - destruct IH as (k & Hk & Hj); [lia|]. exists k. split; [lia|assumption].
  - exists m. split; [lia|lia].
Qed.

Lemma chain_unique (j : Z) (k k' : nat) :
  (k < w)%nat -> (k' < w)%nat -> f k <= j < f (S k) -> f k' <= j < f (S k') -> k = k'.
Proof.
  intros Hk Hk' H H'.
  destruct (Nat.lt_trichotomy k k') as [L|[E|L]]; [|assumption|].
  - pose proof (chain_mono (S k) k' ltac:(lia) ltac:(lia)). lia.
  - pose proof (chain_mono (S k') k ltac:(lia) ltac:(lia)). lia.
Qed.
End Cover.

Theorem workload_partition (w t : nat) : (1 <= w)%nat ->
  exists l, workload w t = Ok l /\
  forall j, (0 <= j < Z.of_nat t)%Z ->
    (exists k, (k < w)%nat /\ (nth k l 0 <= j < nth (S k) l 0)%Z) /\
    (forall k k', (k < w)%nat -> (k' < w)%nat ->
       (nth k l 0 <= j < nth (S k) l 0)%Z -> (nth k' l 0 <= j < nth (S k') l 0)%Z -> k = k').
Proof.
  intros Hw. destruct (workload_spec w t Hw) as (l & Hl & _ & H0 & Hwt & _ & Hd).
  exists l. split; [assumption|]. intros j Hj.
  assert (Hstep : forall k, (k < w)%nat -> (nth k l 0 <= nth (S k) l 0)%Z).
  { intros k Hk. specialize (Hd k Hk). cbv zeta in Hd. lia. }
  split.
  - apply (chain_cover (fun k => nth k l 0%Z) w j). rewrite H0, Hwt. exact Hj.
  - intros k k'. apply (chain_unique (fun k => nth k l 0%Z) w Hstep j k k').
Qed.

Example workload_partition_ex : (1 <= 3)%nat /\ workload 3 10 = Ok [0; 3; 6; 10]%Z.
Proof. split; [lia|reflexivity]. Qed.

(** ** 2. List templates against each other *)
Section ListAlgebra.
Context {A : Type}.

Lemma sub_list_whole (v : list A) : sub_list v 0 (Z.of_nat (length v) - 1) = v.
Proof.
  destruct v as [|a r] eqn:E; [reflexivity|]. rewrite <- E.
  assert (Hn : (1 <= length v)%nat) by (rewrite E; simpl; lia).
  rewrite sub_list_inner by lia. cbn [Z.to_nat skipn].
  replace (Z.to_nat (Z.of_nat (length v) - 1 - 0 + 1)) with (length v) by lia. apply firstn_all.
Qed.

(** Sub_List undoes Combine_Lists *)
Theorem sub_list_combine_left (v1 v2 : list A) :
  sub_list (combine_lists v1 v2) 0 (Z.of_nat (length v1) - 1) = v1.
Proof.
  unfold combine_lists. destruct v1 as [|a r] eqn:E; [apply sub_list_empty; cbn; lia|]. rewrite <- E.
  assert (Hn : (1 <= length v1)%nat) by (rewrite E; simpl; lia).
  rewrite sub_list_inner by (rewrite ?app_length; lia). cbn [Z.to_nat skipn].
  replace (Z.to_nat (Z.of_nat (length v1) - 1 - 0 + 1)) with (length v1 + 0)%nat by lia.
  rewrite firstn_app_2. cbn. apply app_nil_r.
Qed.

Theorem sub_list_combine_right (v1 v2 : list A) :
  sub_list (combine_lists v1 v2) (Z.of_nat (length v1)) (Z.of_nat (length v1 + length v2) - 1) = v2.
Proof.
  unfold combine_lists. destruct v2 as [|a r] eqn:E.
  - apply sub_list_empty. rewrite app_length. cbn. lia.
  - rewrite <- E. assert (Hn : (1 <= length v2)%nat) by (rewrite E; simpl; lia).
    rewrite sub_list_inner by (rewrite ?app_length; lia).
    rewrite Nat2Z.id. rewrite skipn_app, skipn_all, Nat.sub_diag. cbn [skipn app].
    replace (Z.to_nat (Z.of_nat (length v1 + length v2) - 1 - Z.of_nat (length v1) + 1)) with (length v2) by lia.
    apply firstn_all.
Qed.

(** the inclusive upper index: entries 0..k and k+1..n-1 are adjacent pieces of the list *)
Theorem sub_list_split (v : list A) (k : Z) : (0 <= k < Z.of_nat (length v))%Z ->
  combine_lists (sub_list v 0 k) (sub_list v (k + 1) (Z.of_nat (length v) - 1)) = v.
Proof.
  intros Hk. unfold combine_lists. rewrite (sub_list_inner v 0 k) by lia. cbn [Z.to_nat skipn].
  replace (Z.to_nat (k - 0 + 1)) with (Z.to_nat (k + 1)) by lia.
  destruct (Z.eq_dec (k + 1) (Z.of_nat (length v))) as [E|NE].
  - rewrite (sub_list_empty v) by (cbv zeta; lia). rewrite app_nil_r.
    rewrite E, Nat2Z.id. apply firstn_all.
  - rewrite (sub_list_inner v (k + 1)) by lia.
    replace (Z.to_nat (Z.of_nat (length v) - 1 - (k + 1) + 1)) with (length (skipn (Z.to_nat (k + 1)) v))
      by (rewrite skipn_length; lia).
    rewrite firstn_all. apply firstn_skipn.
Qed.

Example sub_list_split_ex : (0 <= 1 < Z.of_nat (length [5; 6; 7]))%Z.
Proof. simpl. lia. Qed.

Context (eqb : A -> A -> bool).

Lemma find_indices_from_length (l : list A) (x : A) : forall z,
  length (find_indices_from eqb l x z) = length (filter (fun a => eqb a x) l).
Proof.
  induction l as [|a r IH]; intros z; [reflexivity|]. cbn [find_indices_from filter].
  destruct (eqb a x); cbn [length]; now rewrite IH.
Qed.

(** the number of indices found is the number of elements equal to the value *)
Theorem find_indices_count (l : list A) (x : A) :
  length (find_indices eqb l x) = length (filter (fun a => eqb a x) l).
Proof. apply find_indices_from_length. Qed.

(** List_Contains says whether Find_Indices finds anything *)
Theorem list_contains_iff_indices (l : list A) (x : A) :
  list_contains eqb l x = negb (Nat.eqb (length (find_indices eqb l x)) 0).
Proof.
  rewrite find_indices_count. induction l as [|a r IH]; [reflexivity|].
  cbn [list_contains filter]. destruct (eqb a x); [reflexivity|exact IH].
Qed.

(** Flatten_List of two rows is Combine_Lists *)
Theorem flatten_pair_is_combine (v1 v2 : list A) : flatten_list [v1; v2] = combine_lists v1 v2.
Proof. unfold combine_lists. cbn. now rewrite app_nil_r. Qed.

Theorem flatten_length (v : list (list A)) : length (flatten_list v) = fold_right (fun r n => (length r + n)%nat) 0%nat v.
Proof. induction v as [|r v IH]; [reflexivity|]. cbn [flatten_list fold_right]. now rewrite app_length, IH. Qed.
End ListAlgebra.

(** Transpose_Lists twice is the identity on rectangular tables with at least one row and one column *)
Lemma list_ext2 {A} (d : A) (t u : list (list A)) :
  length t = length u ->
  (forall i, (i < length t)%nat -> length (nth i t []) = length (nth i u [])) ->
  (forall i j, (i < length t)%nat -> (j < length (nth i t []))%nat -> nth j (nth i t []) d = nth j (nth i u []) d) ->
  t = u.
Proof.
  intros HL HR HE. apply (nth_ext _ _ [] []); [assumption|]. intros i Hi.
  apply (nth_ext _ _ d d); [now apply HR|]. intros j Hj. now apply HE.
Qed.

Theorem transpose_involution {A : Type} (d : A) (lists : list (list A)) (l0 : list A) (rest : list (list A)) :
  lists = l0 :: rest -> l0 <> [] -> Forall (fun l => length l = length l0) lists ->
  exists t, transpose_lists d lists = Ok t /\ transpose_lists d t = Ok lists.
Proof.
  intros E Hne HF.
  destruct (transpose_spec d lists) as [H1 _].
  destruct (H1 l0 rest E HF) as (t & Ht & Hlen & Hrows & Hent). cbv zeta in *.
  exists t. split; [assumption|].
  assert (Hm : (1 <= length l0)%nat) by (destruct l0; [congruence|simpl; lia]).
  destruct t as [|t0 trest] eqn:Et; [simpl in Hlen; lia|]. rewrite <- Et in *.
  assert (Ht0 : length t0 = length lists).
  { specialize (Hrows 0%nat ltac:(lia)). rewrite Et in Hrows. exact Hrows. }
  assert (HFt : Forall (fun l => length l = length t0) t).
  { apply Forall_forall. intros r Hr. destruct (In_nth _ _ [] Hr) as (j & Hj & <-).
    rewrite Ht0. apply Hrows. lia. }
  destruct (transpose_spec d t) as [H2 _].
  destruct (H2 t0 trest Et HFt) as (u & Hu & Hulen & Hurows & Huent). cbv zeta in *.
  rewrite Hu. f_equal. apply (list_ext2 d).
  - lia.
  - intros i Hi. rewrite Hurows by lia. rewrite Hlen.
    rewrite Forall_forall in HF. symmetry. apply HF. apply nth_In. lia.
  - intros i j Hi Hj. rewrite Hurows in Hj by lia.
    rewrite Huent by lia. apply Hent; lia.
Qed.

Example transpose_involution_ex :
  transpose_lists 0%Z [[1; 2; 3]; [4; 5; 6]]%Z = Ok [[1; 4]; [2; 5]; [3; 6]]%Z /\
  transpose_lists 0%Z [[1; 4]; [2; 5]; [3; 6]]%Z = Ok [[1; 2; 3]; [4; 5; 6]]%Z.
Proof. split; reflexivity. Qed.
