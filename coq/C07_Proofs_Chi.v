(** * C07 proofs, part 3: chi-square, chi-bar-square mixtures, Quantile_Gauss, KDE tabulation *)
From Coq Require Import Reals ZArith List Bool Lra Lia Psatz.
From Coquelicot Require Import Coquelicot.
From LP Require Import Num NumR C07_Model C07_Proofs_Cont.
Import ListNotations.
Local Open Scope R_scope.

Lemma lit_1em6_R : lit_1em6 ROps = 1 / 1000000.
Proof. reflexivity. Qed.

(** ** 1.5 Chi-square *)
Section Chi2.
Variable gammaLn : R -> res R.
Variable gammaP : R -> R -> res R.

Lemma chi2_pdf_zero x dof : x <= 0 \/ dof < 1 / 1000000 -> pdf_chi_square ROps gammaLn x dof = Ok 0.
Proof.
  intros H. unfold pdf_chi_square. rewrite lit_1em6_R. cbn [nleb nltb n0 ROps].
  destruct (Rleb_spec x 0), (Rltb_spec dof (1 / 1000000)); cbn [orb]; auto; lra.
Qed.

Lemma chi2_pdf_nonneg x dof v : pdf_chi_square ROps gammaLn x dof = Ok v -> 0 <= v.
Proof.
  unfold pdf_chi_square. destruct (_ || _); [intros [= <-]; cbn; lra|].
  destruct (gammaLn _); cbn; try discriminate. intros [= <-]. left; apply exp_pos.
Qed.

(* the log-space expression is the textbook density, given GammaLn(k/2) = ln Gamma(k/2) =: ln G *)
Lemma chi2_pdf_formula x dof G : 0 < x -> 1 / 1000000 <= dof -> 0 < G ->
  gammaLn (dof / 2) = Ok (ln G) ->
  pdf_chi_square ROps gammaLn x dof = Ok (Rpower x (dof / 2 - 1) * exp (- x / 2) / (Rpower 2 (dof / 2) * G)).
Proof.
  intros Hx Hd HG HL. unfold pdf_chi_square. rewrite lit_1em6_R. cbn [nleb nltb n0 n1 ROps nofZ ndiv nneg nmul nsub nadd nln nexp].
  destruct (Rleb_spec x 0); [lra|]. destruct (Rltb_spec dof (1 / 1000000)); [lra|]. cbn [orb].
  rewrite HL. cbn [rbind]. f_equal.
  unfold Rpower.
  replace (exp ((dof / 2 - 1) * ln x) * exp (- x / 2) / (exp (dof / 2 * ln 2) * G))
    with (exp ((dof / 2 - 1) * ln x) * exp (- x / 2) * (exp (- (dof / 2 * ln 2)) * exp (- ln G))).
  2:{ rewrite !exp_Ropp, exp_ln by auto. field. split; [lra|]. apply Rgt_not_eq, exp_pos. }
  rewrite <- !exp_plus. f_equal. field.
Qed.

Lemma chi2_cdf_cases x dof :
  (x < 0 -> cdf_chi_square ROps gammaP x dof = Ok 0) /\
  (0 <= x -> Rabs dof < 1 / 1000000 -> cdf_chi_square ROps gammaP x dof = Ok 1) /\
  (0 <= x -> 1 / 1000000 <= Rabs dof -> cdf_chi_square ROps gammaP x dof = gammaP (x / 2) (dof / 2)).
Proof.
  unfold cdf_chi_square. rewrite lit_1em6_R. cbn [nleb nltb n0 n1 ROps nofZ ndiv nabs].
  destruct (Rltb_spec x 0), (Rltb_spec (Rabs dof) (1 / 1000000)); repeat split; intros; auto; lra.
Qed.

(* dof = 0: CDF is the step function, the density is identically 0 *)
Lemma chi2_dof0 x : (0 <= x -> cdf_chi_square ROps gammaP x 0 = Ok 1) /\ pdf_chi_square ROps gammaLn x 0 = Ok 0.
Proof.
  split.
  - intros Hx. apply chi2_cdf_cases; auto. rewrite Rabs_R0. lra.
  - apply chi2_pdf_zero. right; lra.
Qed.

(* CDF' = density, given that GammaP returns a function P whose derivative in its first argument is the
   integrand t^(a-1) e^-t / Gamma(a) (the defining property of the regularised lower incomplete gamma function) *)
Lemma chi2_cdf_derive (P : R -> R -> R) dof G x : 0 < x -> 1 / 1000000 <= dof -> 0 < G ->
  (forall t a, gammaP t a = Ok (P t a)) ->
  gammaLn (dof / 2) = Ok (ln G) ->
  (forall t, 0 < t -> is_derive (fun t => P t (dof / 2)) t (Rpower t (dof / 2 - 1) * exp (- t) / G)) ->
  is_derive (fun x => val (cdf_chi_square ROps gammaP x dof)) x (val (pdf_chi_square ROps gammaLn x dof)).
Proof.
  intros Hx Hd HG HP HL HD.
  rewrite (chi2_pdf_formula x dof G) by auto. cbn [val].
  apply (is_derive_ext_loc (fun x => P (x / 2) (dof / 2))).
  - apply (loc_above _ 0); auto. intros y Hy.
    destruct (chi2_cdf_cases y dof) as [_ [_ H3]]. rewrite H3, HP; [reflexivity|lra|].
    rewrite Rabs_pos_eq; lra.
  - set (a := dof / 2) in *.
    replace (Rpower x (a - 1) * exp (- x / 2) / (Rpower 2 a * G))
      with (scal (1 / 2) (Rpower (x / 2) (a - 1) * exp (- (x / 2)) / G)).
    + apply (is_derive_comp (fun t => P t a) (fun x => x / 2)).
      * apply HD. lra.
      * auto_derive; auto.
    + unfold scal; cbn; unfold mult; cbn.
      replace (Rpower 2 a) with (Rpower 2 (a - 1) * 2).
      2:{ replace a with ((a - 1) + 1) at 2 by ring. rewrite Rpower_plus, Rpower_1 by lra. reflexivity. }
      replace x with (x / 2 * 2) at 3 by field.
      rewrite <- (Rpower_mult_distr (x / 2) 2) by lra.
      replace (- x / 2) with (- (x / 2)) by field.
      assert (0 < Rpower 2 (a - 1)) by apply exp_pos.
      field. split; lra.
Qed.
Lemma chi2_is_RInt (P : R -> R -> R) dof G u v : 0 < u -> u <= v -> 1 / 1000000 <= dof -> 0 < G ->
  (forall t a, gammaP t a = Ok (P t a)) ->
  gammaLn (dof / 2) = Ok (ln G) ->
  (forall t, 0 < t -> is_derive (fun t => P t (dof / 2)) t (Rpower t (dof / 2 - 1) * exp (- t) / G)) ->
  is_RInt (fun x => val (pdf_chi_square ROps gammaLn x dof)) u v
          (val (cdf_chi_square ROps gammaP v dof) - val (cdf_chi_square ROps gammaP u dof)).
Proof.
  intros Hu Huv Hd HG HP HL HD.
  change (val (cdf_chi_square ROps gammaP v dof) - val (cdf_chi_square ROps gammaP u dof))
    with (minus ((fun x => val (cdf_chi_square ROps gammaP x dof)) v) ((fun x => val (cdf_chi_square ROps gammaP x dof)) u)).
  apply (is_RInt_derive (fun x => val (cdf_chi_square ROps gammaP x dof)) (fun x => val (pdf_chi_square ROps gammaLn x dof)));
    rewrite Rmin_left, Rmax_right by lra; intros x Hx.
  - apply (chi2_cdf_derive P dof G x); auto; lra.
  - apply (continuous_ext_loc _ (fun x => Rpower x (dof / 2 - 1) * exp (- x / 2) / (Rpower 2 (dof / 2) * G))).
    + apply (loc_above _ 0); [lra|]. intros y Hy. rewrite (chi2_pdf_formula y dof G) by auto. reflexivity.
    + apply (ex_derive_continuous (fun x => Rpower x (dof / 2 - 1) * exp (- x / 2) / (Rpower 2 (dof / 2) * G))).
      unfold Rpower. auto_derive. repeat split; auto; lra.
Qed.
End Chi2.

(** ** chi-bar-square: mixtures *)
Fixpoint mixsum (g : Z -> R) (ws : list R) (d : Z) : R :=
  match ws with [] => 0 | w :: r => w * g d + mixsum g r (d + 1) end.

Lemma mix_loop_val (f : R -> R -> res R) (g : Z -> R) x :
  (forall d, f x (IZR d) = Ok (g d)) ->
  forall ws d acc, mix_loop ROps f x ws d acc = Ok (acc + mixsum g ws d).
Proof.
  intros Hf ws; induction ws as [|w r IH]; intros d acc; cbn [mix_loop mixsum].
  - f_equal; ring.
  - cbn [nofZ ROps]. rewrite Hf. cbn [rbind]. rewrite IH. cbn [nadd nmul ROps]. f_equal; ring.
Qed.

Section ChiBar.
Variable gammaLn : R -> res R.
Variable gammaP : R -> R -> res R.

Lemma chibar_pdf_mixture x ws (p : Z -> R) : 0 < x ->
  (forall d, pdf_chi_square ROps gammaLn x (IZR d) = Ok (p d)) ->
  pdf_chi_bar_square ROps gammaLn x ws = Ok (mixsum p (tl ws) 1).
Proof.
  intros Hx Hp. unfold pdf_chi_bar_square. cbn [nleb n0 ROps].
  destruct (Rleb_spec x 0); [lra|]. rewrite (mix_loop_val _ p) by auto. f_equal; ring.
Qed.

Lemma chibar_cdf_mixture x ws (c : Z -> R) : 0 <= x ->
  (forall d, cdf_chi_square ROps gammaP x (IZR d) = Ok (c d)) ->
  cdf_chi_bar_square ROps gammaP x ws = Ok (Rmin 1 (mixsum c ws 0)).
Proof.
  intros Hx Hc. unfold cdf_chi_bar_square. cbn [nltb n0 ROps].
  destruct (Rltb_spec x 0); [lra|]. rewrite (mix_loop_val _ c) by auto. cbn [rbind]. f_equal.
  unfold ngtb; cbn [nltb n1 n0 ROps]. rewrite Rplus_0_l.
  destruct (Rltb_spec 1 (mixsum c ws 0)); [rewrite Rmin_left; lra|rewrite Rmin_right; lra].
Qed.

Lemma chibar_outside x ws :
  (x <= 0 -> pdf_chi_bar_square ROps gammaLn x ws = Ok 0) /\ (x < 0 -> cdf_chi_bar_square ROps gammaP x ws = Ok 0).
Proof.
  unfold pdf_chi_bar_square, cdf_chi_bar_square. cbn [nleb nltb n0 ROps].
  destruct (Rleb_spec x 0), (Rltb_spec x 0); split; intros; auto; lra.
Qed.

Lemma chibar_cdf_le_1 x ws v : cdf_chi_bar_square ROps gammaP x ws = Ok v -> v <= 1.
Proof.
  unfold cdf_chi_bar_square. cbn [nltb n0 ROps]. destruct (Rltb_spec x 0); [intros [= <-]; lra|].
  destruct (mix_loop _ _ _ _ _ _); cbn [rbind]; try discriminate. intros [= <-].
  unfold ngtb; cbn [nltb n1 ROps]. destruct (Rltb_spec 1 a); lra.
Qed.

(* the dof-0 component enters the CDF with weight w0 as the constant 1 and does not enter the density *)
Lemma mixsum_dof0 (c : Z -> R) w0 r : c 0%Z = 1 -> mixsum c (w0 :: r) 0 = w0 + mixsum c r 1.
Proof. intros H. cbn [mixsum]. rewrite H. change (0 + 1)%Z with 1%Z. ring. Qed.

(* linearity carries the coherence of each component to the mixture: where the clamp is inactive,
   (mixture CDF)' = mixture density, the dof-0 step contributing nothing for x > 0 *)
Lemma mixsum_derive (c p : Z -> R -> R) ws : forall d x,
  (forall k, is_derive (c k) x (p k x)) ->
  is_derive (fun y => mixsum (fun k => c k y) ws d) x (mixsum (fun k => p k x) ws d).
Proof.
  induction ws as [|w r IH]; intros d x H; cbn [mixsum].
  - apply @is_derive_const.
  - apply (is_derive_plus (fun y => w * c d y) (fun y => mixsum (fun k => c k y) r (d + 1))).
    + replace (w * p d x) with (scal w (p d x)) by reflexivity.
      apply (is_derive_scal (c d) x w). apply H.
    + apply IH; auto.
Qed.
End ChiBar.

(** ** Quantile_Gauss *)
Section Quantile.
Variable inv_erf : R -> res R.

Lemma quantile_val p mu s e : inv_erf (2 * p - 1) = Ok e ->
  quantile_gauss ROps inv_erf p mu s = Ok (mu + sqrt 2 * s * e).
Proof. intros H. unfold quantile_gauss. cbn [nmul nsub nofZ n1 ROps]. rewrite H. reflexivity. Qed.

(* with the exact inverse error function the quantile inverts the CDF exactly *)
Lemma quantile_exact p mu s t : 0 < s -> inv_erf (2 * p - 1) = Ok t -> Rerf t = 2 * p - 1 ->
  exists q, quantile_gauss ROps inv_erf p mu s = Ok q /\ cdf_gauss ROps q mu s = p.
Proof.
  intros Hs Hi Ht. exists (mu + sqrt 2 * s * t). split; [apply quantile_val; auto|].
  unfold cdf_gauss. cbn. pose proof sqrt2_pos.
  replace ((mu + sqrt 2 * s * t - mu) / (sqrt 2 * s)) with t by (field; split; lra).
  rewrite Ht. field.
Qed.

(* an Inv_Erf that is accurate to delta gives a quantile accurate to sqrt(2) sigma delta *)
Lemma quantile_error p mu s e t delta : 0 <= s -> inv_erf (2 * p - 1) = Ok e -> Rabs (e - t) <= delta ->
  exists q, quantile_gauss ROps inv_erf p mu s = Ok q /\ Rabs (q - (mu + sqrt 2 * s * t)) <= sqrt 2 * s * delta.
Proof.
  intros Hs Hi Hd. exists (mu + sqrt 2 * s * e). split; [apply quantile_val; auto|].
  replace (mu + sqrt 2 * s * e - (mu + sqrt 2 * s * t)) with (sqrt 2 * s * (e - t)) by ring.
  pose proof sqrt2_pos. rewrite Rabs_mult, Rabs_pos_eq by nra.
  apply Rmult_le_compat_l; [nra|auto].
Qed.

Lemma quantile_exit p mu s : inv_erf (2 * p - 1) = Exit -> quantile_gauss ROps inv_erf p mu s = Exit.
Proof. intros H. unfold quantile_gauss. cbn [nmul nsub nofZ n1 ROps]. rewrite H. reflexivity. Qed.
End Quantile.

(** ** 6. KDE tabulation: never out of bounds, and non-negative for non-negative weights *)
Lemma insert_dp_length d l : length (insert_dp ROps d l) = S (length l).
Proof. induction l as [|a r IH]; cbn; [reflexivity|]. destruct (Rltb _ _); cbn; auto. Qed.
Lemma sort_dp_length l : length (sort_dp ROps l) = length l.
Proof. induction l as [|a r IH]; cbn; [reflexivity|]. rewrite insert_dp_length. f_equal; apply IH. Qed.
Lemma insert_dp_Forall (Pd : R * R -> Prop) d l : Pd d -> List.Forall Pd l -> List.Forall Pd (insert_dp ROps d l).
Proof.
  intros Hd Hl; induction Hl as [|a r Ha Hr IH]; cbn; [repeat constructor; auto|].
  destruct (Rltb _ _); repeat constructor; auto.
Qed.
Lemma sort_dp_Forall (Pd : R * R -> Prop) l : List.Forall Pd l -> List.Forall Pd (sort_dp ROps l).
Proof. intros H; induction H; cbn; [constructor|]. apply insert_dp_Forall; auto. Qed.

Lemma getZ_ok {A} (l : list A) (i : Z) : (0 <= i < Z.of_nat (length l))%Z -> exists a, getZ l i = Ok a /\ In a l.
Proof.
  intros H. unfold getZ. destruct (Z.ltb_spec i 0); [lia|]. unfold get.
  destruct (nth_error l (Z.to_nat i)) eqn:E.
  - exists a; split; auto. eapply nth_error_In; eauto.
  - apply nth_error_None in E. lia.
Qed.

Lemma kernel_pos x : 0 < gaussian_kernel ROps PI x.
Proof. unfold gaussian_kernel. apply (gauss_pdf_pos 0 1). lra. Qed.

Lemma kde_inner_ok data npseudo x xmin bw :
  (forall j, 0 <= j < npseudo -> 3 * j < Z.of_nat (length data))%Z ->
  List.Forall (fun d => 0 <= snd d) data ->
  forall rest i kde, (0 <= i)%Z -> List.Forall (fun d => 0 <= snd d) rest -> 0 <= kde ->
  exists v, kde_inner ROps PI data rest i npseudo x xmin bw kde = Ok v /\ 0 <= v.
Proof.
  intros Hps Hw rest; induction rest as [|d r IH]; intros i kde Hi Hr Hk; cbn [kde_inner].
  - exists kde; auto.
  - inversion Hr as [|? ? Hd Hr']; subst.
    assert (K1 : 0 <= nadd ROps kde (nmul ROps (snd d) (gaussian_kernel ROps PI (ndiv ROps (nsub ROps x (fst d)) bw)))).
    { cbn [nadd nmul ROps]. pose proof (kernel_pos ((x - fst d) / bw)). cbn [ndiv nsub ROps]. nra. }
    destruct (Z.ltb_spec i npseudo) as [Hlt|Hge].
    + specialize (Hps i ltac:(lia)).
      destruct (getZ_ok data (2 * i)) as [d2 [E2 I2]]; [lia|].
      destruct (getZ_ok data (3 * i)) as [d3 [E3 I3]]; [lia|].
      rewrite E2, E3. cbn [rbind]. apply IH; [lia|auto|].
      rewrite Forall_forall in Hw. pose proof (Hw _ I2). pose proof (Hw _ I3).
      cbn [nadd nmul ndiv nsub nofZ ROps] in *.
      match goal with |- 0 <= _ + ?w * gaussian_kernel ROps PI ?z => pose proof (kernel_pos z); assert (0 <= w) end.
      { apply Rmult_le_pos; [lra|]. lra. }
      nra.
    + apply IH; [lia|auto|auto].
Qed.

Lemma kde_table_ok data npseudo xmin dx bw wsum :
  (forall j, 0 <= j < npseudo -> 3 * j < Z.of_nat (length data))%Z ->
  List.Forall (fun d => 0 <= snd d) data -> 0 < bw * wsum ->
  forall n j, exists t, kde_table ROps PI data npseudo xmin dx bw wsum j n = Ok t /\ length t = n /\
                        List.Forall (fun q => 0 <= snd q) t.
Proof.
  intros Hps Hw Hb n; induction n as [|n IH]; intros j; cbn [kde_table].
  - exists []; repeat split; constructor.
  - destruct (kde_inner_ok data npseudo (nadd ROps xmin (nmul ROps (nofZ ROps j) dx)) xmin bw Hps Hw data 0%Z 0) as [v [E Hv]];
      [lia|auto|cbn; lra|].
    cbn [n0 ROps] in *. rewrite E. cbn [rbind].
    destruct (IH (j + 1)%Z) as [t [Et [Lt Ft]]]. rewrite Et. cbn [rbind].
    eexists; repeat split; [cbn; f_equal; exact Lt|].
    constructor; auto. cbn [snd ndiv nmul ROps].
    apply Rmult_le_pos; [auto|]. left; apply Rinv_0_lt_compat; auto.
Qed.

Lemma trunc_third (N : nat) j : (0 <= j < ntrunc ROps (ndiv ROps (nofZ ROps (Z.of_nat N)) (nofZ ROps 3)))%Z ->
  (3 * j < Z.of_nat N)%Z.
Proof.
  cbn [ntrunc ndiv nofZ ROps]. intros [H0 H1].
  assert (Hn : 0 <= IZR (Z.of_nat N) / 3).
  { apply Rmult_le_pos; [apply IZR_le; lia|lra]. }
  destruct (Rle_dec 0 (IZR (Z.of_nat N) / 3)); [|lra].
  destruct (base_Int_part (IZR (Z.of_nat N) / 3)) as [B _].
  assert (H2 : (j + 1 <= Int_part (IZR (Z.of_nat N) / 3))%Z) by lia.
  apply IZR_le in H2. rewrite plus_IZR in H2.
  apply lt_IZR. rewrite mult_IZR. lra.
Qed.

(* Perform_KDE's tabulation never reads outside the sample, and with non-negative weights, a positive
   bandwidth and weight sum, every tabulated ordinate is non-negative (so is the Steffen interpolant, C01) *)
Lemma perform_kde_ok data xmin xmax bw :
  List.Forall (fun d => 0 <= snd d) data ->
  let wsum := fold_left (fun acc d => acc + snd d) data 0 in
  0 < kde_bandwidth ROps data wsum bw * wsum ->
  perform_kde ROps PI data xmin xmax bw = Exit \/
  exists t, perform_kde ROps PI data xmin xmax bw = Ok t /\ length t = 150%nat /\ List.Forall (fun q => 0 <= snd q) t.
Proof.
  intros Hw wsum Hb. unfold perform_kde.
  change (fold_left (fun acc d => nadd ROps acc (snd d)) data (n0 ROps)) with wsum.
  set (bw' := kde_bandwidth ROps data wsum bw) in *.
  destruct (kde_table_ok (sort_dp ROps data)
              (ntrunc ROps (ndiv ROps (nofZ ROps (Z.of_nat (length data))) (nofZ ROps 3)))
              xmin (ndiv ROps (nsub ROps xmax xmin) (nofZ ROps (kde_points - 1))) bw' wsum) with (n := Z.to_nat kde_points) (j := 0%Z)
    as [t [Et [Lt Ft]]].
  - intros j Hj. rewrite sort_dp_length. apply trunc_third; auto.
  - apply sort_dp_Forall; auto.
  - exact Hb.
  - rewrite Et. cbn [rbind]. destruct (strictly_increasing ROps t); [right|left; reflexivity].
    exists t; repeat split; auto.
Qed.
