(** * C03 proofs that hold in every arithmetic.
    The theorems of C03_Proofs.v are about the real-number instance [ROps], where an integrand value is always a
    finite number and every operation is exact.  The clauses proved here use no law of arithmetic at all, or only
    the few laws named in their statements, so they hold verbatim for the instance that is extracted and run against
    the C++ code (IEEE doubles, rounding, infinities and NaN integrand values included):
    - the number of integrand evaluations is 4 L + 1 with 1 <= L <= 2^depth (L = number of accepted panels), whatever
      the integrand returns (also NaN or infinities) and whatever the arithmetic does;
    - swapping two distinct, comparable limits negates the value *exactly* (same bits up to the sign) and leaves warning
      and evaluation points unchanged, given (-1) * r = - (1 * r) and - - r = r;
    - the sign of epsilon is irrelevant given |-eps| = |eps|; equal limits give zero without an evaluation;
    - every evaluation lies between the limits for every order in which the rounded midpoint of two ordered numbers
      stays between them;
    - the default depth and the "Adaptive-Simpson" method of the string overload: the same count shape;
    - sequences of calls, some of them abandoned by their integrand: every completed call is answered as if made alone. *)
From Coq Require Import ZArith Lia List Bool Arith.
From LP Require Import Num C03_Model.
Import ListNotations.

Section AnyArith.
Context {T : Type} (Ops : NumOps T).

Definition aval (x : T * bool * list T) : T := fst (fst x).
Definition awrn (x : T * bool * list T) : bool := snd (fst x).
Definition atrc (x : T * bool * list T) : list T := snd x.

Lemma pow2_ge1 n : (1 <= 2 ^ n)%nat.
Proof. apply Nat.neq_0_lt_0, Nat.pow_nonzero. lia. Qed.

(** ** Shape of the evaluation count *)
Lemma asr_shape f n : forall a b eps S fa fb fc,
  exists L, (1 <= L <= 2 ^ n)%nat /\ (length (atrc (asr Ops f n a b eps S fa fb fc)) + 2 = 4 * L)%nat.
Proof.
  induction n as [|n IH]; intros a b eps S0 fa fb fc.
  - exists 1%nat. cbn. split; lia.
  - cbn [asr]. cbv zeta. pose proof (pow2_ge1 n) as P. cbn [Nat.pow].
    destruct (nleb Ops _ _).
    + exists 1%nat. cbn. split; lia.
    + match goal with |- context [asr Ops f n ?a1 ?b1 ?e1 ?S1 ?x1 ?y1 ?z1] =>
        destruct (IH a1 b1 e1 S1 x1 y1 z1) as (L1 & B1 & E1);
        destruct (asr Ops f n a1 b1 e1 S1 x1 y1 z1) as [[v1 w1] t1] end.
      match goal with |- context [asr Ops f n ?a1 ?b1 ?e1 ?S1 ?x1 ?y1 ?z1] =>
        destruct (IH a1 b1 e1 S1 x1 y1 z1) as (L2 & B2 & E2);
        destruct (asr Ops f n a1 b1 e1 S1 x1 y1 z1) as [[v2 w2] t2] end.
      exists (L1 + L2)%nat. unfold atrc in *. cbn [snd length] in *. rewrite app_length. split; lia.
Qed.

Theorem integrate_count_shape f a b eps depth :
  neqb Ops a b = false ->
  exists L, (1 <= L <= 2 ^ Z.to_nat depth)%nat /\
            length (atrc (integrate Ops f a b eps depth)) = (4 * L + 1)%nat.
Proof.
  intros E. unfold integrate. rewrite E.
  match goal with |- context [asr Ops f ?n ?a1 ?b1 ?e1 ?S1 ?x1 ?y1 ?z1] =>
    destruct (asr_shape f n a1 b1 e1 S1 x1 y1 z1) as (L & B & EL);
    destruct (asr Ops f n a1 b1 e1 S1 x1 y1 z1) as [[v w] t] end.
  exists L. unfold atrc in *. cbn [snd length] in *. split; lia.
Qed.

Theorem integrate_equal_limits f a b eps depth :
  neqb Ops a b = true -> integrate Ops f a b eps depth = (n0 Ops, false, []).
Proof. intros E. unfold integrate. rewrite E. reflexivity. Qed.

(** "at most 2^(depth+2)+1 times", every integrand value, every arithmetic, no premise *)
Theorem integrate_count_any f a b eps depth :
  (length (atrc (integrate Ops f a b eps depth)) <= 2 ^ (Z.to_nat depth + 2) + 1)%nat.
Proof.
  destruct (neqb Ops a b) eqn:E.
  - rewrite integrate_equal_limits by exact E. cbn. lia.
  - destruct (integrate_count_shape f a b eps depth E) as (L & B & EL). rewrite EL.
    replace (Z.to_nat depth + 2)%nat with (S (S (Z.to_nat depth))) by lia. cbn [Nat.pow]. lia.
Qed.

Theorem default_count_shape f a b eps :
  neqb Ops a b = false ->
  exists L, (1 <= L <= 2 ^ 20)%nat /\ length (atrc (integrate_default Ops f a b eps)) = (4 * L + 1)%nat.
Proof. intros E. exact (integrate_count_shape f a b eps 20%Z E). Qed.

(** the string overload: three evaluations of Find_Epsilon, then those of the integration proper *)
Theorem method_count_shape f a b :
  neqb Ops a b = false ->
  (neqb Ops (if ngtb Ops a b then b else a) (if ngtb Ops a b then a else b) = false) ->
  exists L, (1 <= L <= 2 ^ 20)%nat /\ length (atrc (integrate_method Ops f a b)) = (4 * L + 4)%nat.
Proof.
  intros E E'. unfold integrate_method. rewrite E.
  set (a' := if ngtb Ops a b then b else a) in *. set (b' := if ngtb Ops a b then a else b) in *.
  cbv zeta.
  match goal with |- context [integrate_default Ops f a' b' ?e] =>
    destruct (default_count_shape f a' b' e E') as (L & B & EL);
    destruct (integrate_default Ops f a' b' e) as [[v w] t] end.
  exists L. unfold atrc in *. cbn [snd length] in *. split; lia.
Qed.

(** ** Limits *)
(** "Swapping the limits negates the result exactly": the two calls run the same recursion on the same ordered limits
    and differ in the final multiplication by +1 / -1 only. *)
Theorem swap_negates_any f a b eps depth :
  neqb Ops a b = false -> neqb Ops b a = false ->
  nltb Ops a b = negb (nltb Ops b a) ->
  (forall r, nmul Ops (nneg Ops (n1 Ops)) r = nneg Ops (nmul Ops (n1 Ops) r)) ->
  (forall r, nneg Ops (nneg Ops r) = r) ->
  aval (integrate Ops f b a eps depth) = nneg Ops (aval (integrate Ops f a b eps depth)) /\
  awrn (integrate Ops f b a eps depth) = awrn (integrate Ops f a b eps depth) /\
  atrc (integrate Ops f b a eps depth) = atrc (integrate Ops f a b eps depth).
Proof.
  intros E1 E2 L N NN. unfold integrate, ngtb. rewrite E1, E2, L.
  destruct (nltb Ops b a); cbn [negb];
    match goal with |- context [asr Ops f ?n ?a1 ?b1 ?e1 ?S1 ?x1 ?y1 ?z1] =>
      destruct (asr Ops f n a1 b1 e1 S1 x1 y1 z1) as [[v w] t] end;
    unfold aval, awrn, atrc; cbn [fst snd]; repeat split.
  - rewrite N, NN. reflexivity.
  - apply N.
Qed.

Theorem eps_sign_any f a b eps depth :
  nabs Ops (nneg Ops eps) = nabs Ops eps ->
  integrate Ops f a b (nneg Ops eps) depth = integrate Ops f a b eps depth.
Proof. intros E. unfold integrate. rewrite E. reflexivity. Qed.

(** a non-positive depth is depth 0 *)
Theorem nonpositive_depth_any f a b eps depth :
  (depth <= 0)%Z -> integrate Ops f a b eps depth = integrate Ops f a b eps 0%Z.
Proof. intros H. unfold integrate. replace (Z.to_nat depth) with (Z.to_nat 0) by lia. reflexivity. Qed.

(** ** Location of the evaluations, from the order alone *)
Section Location.
Let le (x y : T) : Prop := nleb Ops x y = true.
Let mid (x y : T) : T := ndiv Ops (nadd Ops x y) (nofZ Ops 2).
Hypothesis le_trans : forall x y z, le x y -> le y z -> le x z.
(** the rounded midpoint of two ordered numbers, with the operands of the sum in either order, stays between them *)
Hypothesis mid_between : forall x y, le x y -> le x (mid x y) /\ le (mid x y) y /\ le x (mid y x) /\ le (mid y x) y.

Lemma asr_inside f n : forall a b eps S fa fb fc, le a b ->
  Forall (fun x => le a x /\ le x b) (atrc (asr Ops f n a b eps S fa fb fc)).
Proof.
  induction n as [|n IH]; intros a b eps S0 fa fb fc H;
    destruct (mid_between a b H) as (Hac & Hcb & _ & _); fold (mid a b) in *;
    destruct (mid_between a (mid a b) Hac) as (Had & Hdc & _ & _);
    destruct (mid_between (mid a b) b Hcb) as (_ & _ & Hce & Heb).
  - cbn. repeat constructor; eauto.
  - cbn [asr]. cbv zeta. fold (mid a b). destruct (nleb Ops _ _).
    + cbn. repeat constructor; eauto.
    + match goal with |- context [asr Ops f n a ?b1 ?e1 ?S1 ?x1 ?y1 ?z1] =>
        pose proof (IH a b1 e1 S1 x1 y1 z1 Hac) as I1;
        destruct (asr Ops f n a b1 e1 S1 x1 y1 z1) as [[v1 w1] t1] end.
      match goal with |- context [asr Ops f n ?a1 b ?e1 ?S1 ?x1 ?y1 ?z1] =>
        pose proof (IH a1 b e1 S1 x1 y1 z1 Hcb) as I2;
        destruct (asr Ops f n a1 b e1 S1 x1 y1 z1) as [[v2 w2] t2] end.
      unfold atrc in *. cbn [snd] in *.
      constructor; [split; eauto|]. constructor; [split; eauto|].
      apply Forall_app. split.
      * eapply Forall_impl; [|exact I1]. cbv beta. intros x [? ?]. split; eauto.
      * eapply Forall_impl; [|exact I2]. cbv beta. intros x [? ?]. split; eauto.
Qed.

(** lo, hi: the limits as ordered by Check_Integration_Limits *)
Theorem integrate_inside_any f a b eps depth :
  let lo := if ngtb Ops a b then b else a in
  let hi := if ngtb Ops a b then a else b in
  le lo lo -> le hi hi -> le lo hi ->
  Forall (fun x => le lo x /\ le x hi) (atrc (integrate Ops f a b eps depth)).
Proof.
  intros lo hi Hll Hhh Hlh. unfold integrate. destruct (neqb Ops a b); [constructor|].
  fold lo hi.
  match goal with |- context [asr Ops f ?n lo hi ?e1 ?S1 ?x1 ?y1 ?z1] =>
    pose proof (asr_inside f n lo hi e1 S1 x1 y1 z1 Hlh) as I;
    destruct (asr Ops f n lo hi e1 S1 x1 y1 z1) as [[v w] t] end.
  destruct (mid_between lo hi Hlh) as (Hac & Hcb & _ & _).
  unfold atrc in *. cbn [snd] in *.
  repeat (constructor; [split; assumption|]). exact I.
Qed.
End Location.

(** ** Sequences with abandoned calls *)
Theorem history_free_ab (pre post : list (call (T := T) * nat)) (c : call (T := T)) :
  nth_error (run_seq_ab Ops tt (pre ++ (c, 0%nat) :: post)) (length pre) = Some (Some (run_call Ops c)).
Proof.
  induction pre as [|[c0 k0] pre IH]; cbn [app length run_seq_ab nth_error].
  - unfold step_ab, run_call_ab. cbn. reflexivity.
  - unfold step_ab at 1. exact IH.
Qed.

(** a call that is not abandoned (k = 0, or k beyond its number of evaluations) is answered as if made alone; an abandoned
    one is not answered; nothing else depends on k *)
Theorem run_call_ab_spec (c : call (T := T)) (k : nat) :
  run_call_ab Ops c k =
  if ((1 <=? k) && (k <=? length (atrc (run_call Ops c))))%nat then None else Some (run_call Ops c).
Proof. reflexivity. Qed.

Theorem run_seq_ab_pointwise (cs : list (call (T := T) * nat)) :
  run_seq_ab Ops tt cs = map (fun ck => run_call_ab Ops (fst ck) (snd ck)) cs.
Proof.
  induction cs as [|[c k] cs IH]; [reflexivity|].
  cbn [run_seq_ab map fst snd]. unfold step_ab at 1. rewrite IH. reflexivity.
Qed.
End AnyArith.
