(** * C15 proofs, part 2: the column loop of QR_Decomposition and the sweeps of Eigenvalues, over the reals, any dimension.
    The loop of [qr_loop] (C15_Model.v) composes the embedded Householder reflections into an orthogonal Q and an
    upper-triangular R with Q R = M; the sweeps of [eig_loop] are orthogonal similarities of the input. *)
From Coq Require Import Reals ZArith List Lra Lia Psatz Bool Arith.
From LP Require Import Num NumR C15_Model C15_Proofs.
Import ListNotations.
Local Open Scope R_scope.

(** ** n x n matrices as index functions: product, transpose, equality on the n x n block, matrix * vector *)
Definition mm (n : nat) (f g : nat -> nat -> R) (a b : nat) : R := rsum (fun k => f a k * g k b) n.
Definition tr (f : nat -> nat -> R) (a b : nat) : R := f b a.
Definition eqn (n : nat) (f g : nat -> nat -> R) : Prop := forall a b, (a < n)%nat -> (b < n)%nat -> f a b = g a b.
Definition mv (n : nat) (f : nat -> nat -> R) (x : nat -> R) (a : nat) : R := rsum (fun j => f a j * x j) n.
(** Q^T Q = 1 and Q Q^T = 1 *)
Definition orth (n : nat) (q : nat -> nat -> R) : Prop := eqn n (mm n (tr q) q) dlt /\ eqn n (mm n q (tr q)) dlt.
(** M x = 0 -> x = 0 *)
Definition nonsing (n : nat) (a : nat -> nat -> R) : Prop :=
  forall x : nat -> R, (forall i, (i < n)%nat -> mv n a x i = 0) -> forall j, (j < n)%nat -> x j = 0.
Definition trace (n : nat) (a : nat -> nat -> R) : R := rsum (fun i => a i i) n.
Definition symm (n : nat) (a : nat -> nat -> R) : Prop := eqn n a (tr a).

Lemma eqn_refl n f : eqn n f f.
Proof. intros a b _ _. reflexivity. Qed.
Lemma eqn_sym n f g : eqn n f g -> eqn n g f.
Proof. intros H a b Ha Hb. symmetry. apply H; assumption. Qed.
Lemma eqn_trans n f g h : eqn n f g -> eqn n g h -> eqn n f h.
Proof. intros H1 H2 a b Ha Hb. rewrite (H1 a b Ha Hb). apply H2; assumption. Qed.

Lemma mm_assoc n f g h a b : mm n (mm n f g) h a b = mm n f (mm n g h) a b.
Proof.
  unfold mm.
  rewrite (rsum_ext _ (fun k => rsum (fun l => f a l * g l k * h k b) n)) by (intros; rewrite <- rsum_scal_r; reflexivity).
  rewrite rsum_switch. apply rsum_ext. intros l _. rewrite <- rsum_scal. apply rsum_ext. intros; ring.
Qed.
Lemma mm_eqn n f f' g g' : eqn n f f' -> eqn n g g' -> eqn n (mm n f g) (mm n f' g').
Proof. intros Hf Hg a b Ha Hb. unfold mm. apply rsum_ext. intros k Hk. rewrite (Hf a k Ha Hk), (Hg k b Hk Hb). reflexivity. Qed.
Lemma mm_dlt_l n f : eqn n (mm n dlt f) f.
Proof. intros a b Ha _. unfold mm. apply (rsum_dlt_r (fun k => f k b) n a Ha). Qed.
Lemma mm_dlt_r n f : eqn n (mm n f dlt) f.
Proof.
  intros a b _ Hb. unfold mm. rewrite (rsum_ext _ (fun k => dlt k b * f a k)) by (intros; ring).
  apply (rsum_dlt_l (fun k => f a k) n b Hb).
Qed.
Lemma tr_mm n f g a b : tr (mm n f g) a b = mm n (tr g) (tr f) a b.
Proof. unfold tr, mm. apply rsum_ext. intros; ring. Qed.
Lemma tr_eqn n f g : eqn n f g -> eqn n (tr f) (tr g).
Proof. intros H a b Ha Hb. unfold tr. apply H; assumption. Qed.

Lemma mv_mm n f g x a : mv n (mm n f g) x a = mv n f (mv n g x) a.
Proof.
  unfold mv, mm.
  rewrite (rsum_ext _ (fun j => rsum (fun k => f a k * g k j * x j) n)) by (intros; rewrite <- rsum_scal_r; reflexivity).
  rewrite rsum_switch. apply rsum_ext. intros k _. rewrite <- rsum_scal. apply rsum_ext. intros; ring.
Qed.
Lemma mv_eqn n f g x a : eqn n f g -> (a < n)%nat -> mv n f x a = mv n g x a.
Proof. intros H Ha. unfold mv. apply rsum_ext. intros j Hj. rewrite (H a j Ha Hj). reflexivity. Qed.
Lemma mv_ext n f x y a : (forall j, (j < n)%nat -> x j = y j) -> mv n f x a = mv n f y a.
Proof. intros H. unfold mv. apply rsum_ext. intros j Hj. rewrite (H j Hj). reflexivity. Qed.
Lemma mv_dlt n x a : (a < n)%nat -> mv n dlt x a = x a.
Proof. intros Ha. unfold mv. apply (rsum_dlt_r x n a Ha). Qed.
Lemma mv_zero n f x a : (forall j, (j < n)%nat -> x j = 0) -> mv n f x a = 0.
Proof.
  intros H. unfold mv. rewrite (rsum_ext _ (fun _ => 0)); [apply rsum_zero|]. intros j Hj. rewrite (H j Hj). ring.
Qed.

(** products of orthogonal matrices are orthogonal; the identity is *)
Lemma orth_dlt n : orth n dlt.
Proof.
  split; intros a b Ha Hb.
  - exact (rsum_dlt_l (fun k => dlt k b) n a Ha).
  - rewrite (dlt_sym a b). exact (rsum_dlt_r (fun k => dlt b k) n a Ha).
Qed.
Lemma orth_eqn n p q : eqn n p q -> orth n p -> orth n q.
Proof.
  intros E [H1 H2]. split.
  - eapply eqn_trans; [| exact H1]. apply mm_eqn; [apply tr_eqn|]; apply eqn_sym; exact E.
  - eapply eqn_trans; [| exact H2]. apply mm_eqn; [|apply tr_eqn]; apply eqn_sym; exact E.
Qed.
Lemma orth_mm n p q : orth n p -> orth n q -> orth n (mm n p q).
Proof.
  intros [P1 P2] [Q1 Q2]. split.
  - (* (pq)^T (pq) = q^T (p^T p) q *)
    intros a b Ha Hb.
    transitivity (mm n (mm n (tr q) (tr p)) (mm n p q) a b).
    { unfold mm at 1. unfold mm at 3. apply rsum_ext. intros k _. rewrite tr_mm. reflexivity. }
    rewrite mm_assoc.
    transitivity (mm n (tr q) (mm n (mm n (tr p) p) q) a b).
    { apply mm_eqn; [apply eqn_refl | | exact Ha | exact Hb]. intros c d _ _. symmetry. apply mm_assoc. }
    transitivity (mm n (tr q) q a b); [| apply Q1; assumption].
    apply mm_eqn; [apply eqn_refl | | exact Ha | exact Hb].
    eapply eqn_trans; [apply mm_eqn; [exact P1 | apply eqn_refl] | apply mm_dlt_l].
  - intros a b Ha Hb.
    transitivity (mm n (mm n p q) (mm n (tr q) (tr p)) a b).
    { unfold mm at 1. unfold mm at 3. apply rsum_ext. intros k _. rewrite tr_mm. reflexivity. }
    rewrite mm_assoc.
    transitivity (mm n p (mm n (mm n q (tr q)) (tr p)) a b).
    { apply mm_eqn; [apply eqn_refl | | exact Ha | exact Hb]. intros c d _ _. symmetry. apply mm_assoc. }
    transitivity (mm n p (tr p) a b); [| apply P2; assumption].
    apply mm_eqn; [apply eqn_refl | | exact Ha | exact Hb].
    eapply eqn_trans; [apply mm_eqn; [exact Q2 | apply eqn_refl] | apply mm_dlt_l].
Qed.

(** ** Splitting a sum; the block matrix diag(1_i, H) as an index function *)
Lemma rsum_split f i m : rsum f (i + m) = rsum f i + rsum (fun k => f (i + k)%nat) m.
Proof.
  induction m as [| m IH].
  - rewrite Nat.add_0_r. cbn. ring.
  - rewrite Nat.add_succ_r. cbn [rsum]. rewrite IH. ring.
Qed.
Lemma rsum_split_le f i n : (i <= n)%nat -> rsum f n = rsum f i + rsum (fun k => f (i + k)%nat) (n - i).
Proof. intros H. rewrite <- rsum_split. f_equal. lia. Qed.

Definition pf (i : nat) (h : nat -> nat -> R) (a b : nat) : R :=
  if (a <? i)%nat then dlt a b else if (b <? i)%nat then 0 else h (a - i)%nat (b - i)%nat.

(** rows of P G: the first i rows of G are kept, the others are H times the lower block *)
Lemma pf_mm_l n i h g a b : (i <= n)%nat -> (a < n)%nat ->
  mm n (pf i h) g a b = if (a <? i)%nat then g a b else rsum (fun k => h (a - i)%nat k * g (i + k)%nat b) (n - i).
Proof.
  intros Hi Ha. unfold mm. destruct (Nat.ltb_spec a i) as [L | L].
  - rewrite (rsum_ext _ (fun k => dlt a k * g k b)).
    + apply (rsum_dlt_r (fun k => g k b) n a Ha).
    + intros k _. unfold pf. destruct (Nat.ltb_spec a i); [reflexivity | lia].
  - rewrite (rsum_split_le _ i n Hi).
    rewrite (rsum_ext _ (fun _ => 0)), rsum_zero.
    + rewrite Rplus_0_l. apply rsum_ext. intros k _. unfold pf.
      destruct (Nat.ltb_spec a i); [lia|]. destruct (Nat.ltb_spec (i + k) i); [lia|].
      replace (i + k - i)%nat with k by lia. reflexivity.
    + intros k Hk. unfold pf. destruct (Nat.ltb_spec a i); [lia|]. destruct (Nat.ltb_spec k i); [ring | lia].
Qed.

Section Embedded.
Variables n i : nat.
Hypothesis Hin : (i <= n)%nat.
Variable h : nat -> nat -> R.
Hypothesis Hsym : forall a b, (a < n - i)%nat -> (b < n - i)%nat -> h a b = h b a.
Hypothesis Horth : forall a b, (a < n - i)%nat -> (b < n - i)%nat -> rsum (fun k => h k a * h k b) (n - i) = dlt a b.

Lemma pf_sym : eqn n (pf i h) (tr (pf i h)).
Proof.
  intros a b Ha Hb. unfold tr, pf.
  destruct (Nat.ltb_spec a i), (Nat.ltb_spec b i); try reflexivity.
  - apply dlt_sym.
  - unfold dlt. destruct (Nat.eqb_spec a b); [lia | reflexivity].
  - unfold dlt. destruct (Nat.eqb_spec b a); [lia | reflexivity].
  - apply Hsym; lia.
Qed.
Lemma pf_square : eqn n (mm n (pf i h) (pf i h)) dlt.
Proof.
  intros a b Ha Hb. rewrite (pf_mm_l n i h (pf i h) a b Hin Ha).
  destruct (Nat.ltb_spec a i) as [L | L].
  - unfold pf. destruct (Nat.ltb_spec a i); [reflexivity | lia].
  - destruct (Nat.ltb_spec b i) as [Lb | Lb].
    + rewrite (rsum_ext _ (fun _ => 0)), rsum_zero.
      * unfold dlt. destruct (Nat.eqb_spec a b); [lia | reflexivity].
      * intros k _. unfold pf. destruct (Nat.ltb_spec (i + k) i); [lia|]. destruct (Nat.ltb_spec b i); [ring | lia].
    + rewrite (rsum_ext _ (fun k => h k (a - i)%nat * h k (b - i)%nat)).
      * rewrite Horth by lia. unfold dlt. destruct (Nat.eqb_spec (a - i) (b - i)), (Nat.eqb_spec a b); try reflexivity; lia.
      * intros k Hk. unfold pf. destruct (Nat.ltb_spec (i + k) i); [lia|]. destruct (Nat.ltb_spec b i); [lia|].
        replace (i + k - i)%nat with k by lia. rewrite (Hsym (a - i)%nat k) by lia. reflexivity.
Qed.
Lemma pf_orth : orth n (pf i h).
Proof.
  split.
  - eapply eqn_trans; [| exact pf_square]. apply mm_eqn; [apply eqn_sym, pf_sym | apply eqn_refl].
  - eapply eqn_trans; [| exact pf_square]. apply mm_eqn; [apply eqn_refl | apply eqn_sym, pf_sym].
Qed.
End Embedded.

(** ** Back substitution: an upper-triangular system with non-zero diagonal has a solution *)
Lemma back_substitution i (U : nat -> nat -> R) :
  (forall a b, (b < a)%nat -> (a < i)%nat -> U a b = 0) -> (forall j, (j < i)%nat -> U j j <> 0) ->
  forall c : nat -> R, exists y : nat -> R, forall a, (a < i)%nat -> rsum (fun j => U a j * y j) i = c a.
Proof.
  induction i as [| i IH]; intros HL HD c.
  - exists (fun _ => 0). intros a Ha. lia.
  - set (yi := c i / U i i).
    destruct (IH (fun a b Hab Ha => HL a b Hab (Nat.lt_lt_succ_r _ _ Ha)) (fun j Hj => HD j (Nat.lt_lt_succ_r _ _ Hj))
                 (fun a => c a - U a i * yi)) as [y Hy].
    exists (fun j => if Nat.eqb j i then yi else y j).
    intros a Ha. cbn [rsum]. rewrite Nat.eqb_refl.
    destruct (Nat.eq_dec a i) as [-> | Hne].
    + rewrite (rsum_ext _ (fun _ => 0)), rsum_zero.
      * unfold yi. field. apply HD. lia.
      * intros j Hj. rewrite (HL i j Hj) by lia. ring.
    + rewrite (rsum_ext _ (fun j => U a j * y j)).
      * rewrite Hy by lia. ring.
      * intros j Hj. destruct (Nat.eqb_spec j i); [lia | reflexivity].
Qed.

(** a finite family of reals is all zero or has a non-zero member *)
Lemma all_zero_or_not (f : nat -> R) m : (forall k, (k < m)%nat -> f k = 0) \/ exists k, (k < m)%nat /\ f k <> 0.
Proof.
  induction m as [| m [IH | (k & Hk & Hne)]].
  - left. intros k Hk. lia.
  - destruct (Req_dec (f m) 0) as [Z | NZ].
    + left. intros k Hk. destruct (Nat.eq_dec k m) as [-> | ?]; [exact Z | apply IH; lia].
    + right. exists m. split; [lia | exact NZ].
  - right. exists k. split; [lia | exact Hne].
Qed.

(** ** The list model, entry by entry: mk, identity, mmul, embed, zero_below, sub00, householder *)
Lemma wf_mk n f : wf n (mk n n f).
Proof.
  split.
  - unfold mk. rewrite map_length, seq_length. reflexivity.
  - intros i Hi. unfold mk. rewrite nth_map_seq by exact Hi. rewrite map_length, seq_length. reflexivity.
Qed.
Lemma wf_identity n : wf n (identity ROps n).
Proof. apply wf_mk. Qed.
Lemma ment_identity n : eqn n (ment ROps (identity ROps n)) dlt.
Proof. intros a b Ha Hb. unfold identity. rewrite ment_mk by assumption. reflexivity. Qed.

Lemma wf_mmul n a b : (0 < n)%nat -> wf n a -> wf n b -> wf n (mmul ROps a b).
Proof.
  intros Hn [La Ra] [Lb Rb]. split.
  - unfold mmul. rewrite map_length. exact La.
  - intros i Hi. unfold mmul. rewrite (nth_map_lt _ a i [] []) by lia. rewrite map_length, seq_length.
    unfold ncols. destruct b as [| r0 b']; [cbn in Lb; lia|]. exact (Rb 0%nat Hn).
Qed.
Lemma ment_mmul_eqn n a b : (0 < n)%nat -> wf n a -> wf n b -> eqn n (ment ROps (mmul ROps a b)) (mm n (ment ROps a) (ment ROps b)).
Proof. intros Hn Wa Wb i j Hi Hj. apply ment_mmul; assumption. Qed.

Lemma wf_embed n i p : (i <= n)%nat -> wf (n - i) p -> wf n (embed ROps i n p).
Proof.
  intros Hi [Lp Rp]. split.
  - unfold embed. rewrite app_length, !map_length, seq_length. lia.
  - intros a Ha. unfold embed. destruct (Nat.lt_ge_cases a i) as [L | L].
    + rewrite app_nth1 by (rewrite map_length, seq_length; exact L).
      rewrite nth_map_seq by exact L. rewrite map_length, seq_length. reflexivity.
    + rewrite app_nth2 by (rewrite map_length, seq_length; exact L). rewrite map_length, seq_length.
      rewrite (nth_map_lt _ p (a - i) [] []) by lia. rewrite app_length, repeat_length, Rp by lia. lia.
Qed.
Lemma ment_embed n i p : (i <= n)%nat -> wf (n - i) p -> eqn n (ment ROps (embed ROps i n p)) (pf i (ment ROps p)).
Proof.
  intros Hi [Lp Rp] a b Ha Hb. unfold ment at 1, embed, nth0, pf. cbn [n0 ROps].
  destruct (Nat.ltb_spec a i) as [L | L].
  - rewrite app_nth1 by (rewrite map_length, seq_length; exact L).
    rewrite nth_map_seq by exact L. rewrite nth_map_seq by exact Hb. reflexivity.
  - rewrite app_nth2 by (rewrite map_length, seq_length; exact L). rewrite map_length, seq_length.
    rewrite (nth_map_lt _ p (a - i) [] []) by lia.
    destruct (Nat.ltb_spec b i) as [Lb | Lb].
    + rewrite app_nth1 by (rewrite repeat_length; exact Lb). apply nth_repeat.
    + rewrite app_nth2 by (rewrite repeat_length; exact Lb). rewrite repeat_length. reflexivity.
Qed.

Lemma set_nth_length (l : list R) i v : length (set_nth l i v) = length l.
Proof. revert i. induction l as [| x l IH]; intros [| i]; cbn; try reflexivity. rewrite IH. reflexivity. Qed.
Lemma set_nth_nth (l : list R) i v b d : (i < length l)%nat -> nth b (set_nth l i v) d = if Nat.eqb b i then v else nth b l d.
Proof.
  revert i b. induction l as [| x l IH]; intros i b Hi; [cbn in Hi; lia|].
  destruct i as [| i], b as [| b]; cbn; try reflexivity. apply IH. cbn in Hi. lia.
Qed.
Lemma nth_combine_seq (r : list (list R)) s a : (a < length r)%nat ->
  nth a (combine (seq s (length r)) r) (0%nat, []) = ((s + a)%nat, nth a r []).
Proof.
  revert s a. induction r as [| x r IH]; intros s a Ha; [cbn in Ha; lia|].
  destruct a as [| a]; cbn.
  - rewrite Nat.add_0_r. reflexivity.
  - rewrite IH by (cbn in Ha; lia). f_equal. lia.
Qed.
Lemma zero_below_row n i r a : wf n r -> (a < n)%nat ->
  nth a (zero_below ROps i r) [] = if (i <? a)%nat then set_nth (nth a r []) i 0 else nth a r [].
Proof.
  intros [Lr Rr] Ha. unfold zero_below.
  rewrite (nth_map_lt _ _ a (0%nat, []) []) by (rewrite combine_length, seq_length; lia).
  rewrite nth_combine_seq by lia. cbn [fst snd Nat.add n0 ROps]. reflexivity.
Qed.
Lemma wf_zero_below n i r : wf n r -> wf n (zero_below ROps i r).
Proof.
  intros W. pose proof W as [Lr Rr]. split.
  - unfold zero_below. rewrite map_length, combine_length, seq_length. lia.
  - intros a Ha. rewrite (zero_below_row n i r a W Ha). destruct (i <? a)%nat; [rewrite set_nth_length|]; apply Rr; exact Ha.
Qed.
Lemma ment_zero_below n i r a b : wf n r -> (i < n)%nat -> (a < n)%nat ->
  ment ROps (zero_below ROps i r) a b = if ((i <? a)%nat && Nat.eqb b i)%bool then 0 else ment ROps r a b.
Proof.
  intros W Hi Ha. pose proof W as [Lr Rr]. unfold ment, nth0. rewrite (zero_below_row n i r a W Ha). cbn [n0 ROps].
  destruct (i <? a)%nat; cbn [andb]; [| reflexivity].
  apply set_nth_nth. rewrite Rr by exact Ha. exact Hi.
Qed.

Lemma nth_tl {A} (l : list A) a d : nth a (tl l) d = nth (S a) l d.
Proof. destruct l; [destruct a; reflexivity | reflexivity]. Qed.
Lemma ment_sub00 (x : list (list R)) a b : ment ROps (sub00 x) a b = ment ROps x (S a) (S b).
Proof.
  unfold ment, sub00, nth0. change (@nil R) with (tl (@nil R)) at 1. rewrite map_nth, !nth_tl. reflexivity.
Qed.
Lemma wf_sub00 m x : wf (S m) x -> wf m (sub00 x).
Proof.
  intros [Lx Rx]. split.
  - unfold sub00. rewrite map_length. destruct x; cbn in *; lia.
  - intros a Ha. unfold sub00. change (@nil R) with (tl (@nil R)). rewrite map_nth, nth_tl.
    pose proof (Rx (S a) ltac:(lia)) as E. destruct (nth (S a) x []); cbn in *; lia.
Qed.

Lemma mcol_length (m : list (list R)) j : length (mcol ROps m j) = length m.
Proof. unfold mcol. apply map_length. Qed.
Lemma mcol0_nth (m : list (list R)) k : nth k (mcol ROps m 0) 0 = ment ROps m k 0.
Proof.
  unfold mcol, ment. change 0 with (nth0 ROps [] 0) at 1. rewrite (map_nth (fun row => nth0 ROps row 0%nat)). reflexivity.
Qed.
Lemma wf_householder (m : list (list R)) : wf (length m) (householder ROps m).
Proof. unfold householder. rewrite mcol_length. apply wf_mk. Qed.

(** ** The loop of QR_Decomposition *)
(** the hypothesis of one pass: the first column of the remaining block is not the zero vector (otherwise
    Householder_Matrix divides by zero) *)
Definition pivot_ok (rsub : list (list R)) : Prop :=
  exists k, (k < length (mcol ROps rsub 0))%nat /\ nth k (mcol ROps rsub 0) 0 <> 0.
(** ... in each of the k passes, along the blocks R_submatrix that the code itself computes *)
Fixpoint qr_pivots_ok (k : nat) (rsub : list (list R)) : Prop :=
  match k with
  | O => True
  | S k' => pivot_ok rsub /\ qr_pivots_ok k' (sub00 (mmul ROps (householder ROps rsub) rsub))
  end.

(** the loop invariant before pass i *)
Definition qr_inv (n i : nat) (M : nat -> nat -> R) (q r rsub : list (list R)) : Prop :=
  wf n q /\ wf n r /\ wf (n - i) rsub /\
  orth n (ment ROps q) /\
  eqn n (mm n (ment ROps q) (ment ROps r)) M /\
  (forall a b, (b < i)%nat -> (b < a)%nat -> (a < n)%nat -> ment ROps r a b = 0) /\
  (forall a b, (a < n - i)%nat -> (b < n - i)%nat -> ment ROps rsub a b = ment ROps r (i + a) (i + b)) /\
  (forall j, (j < i)%nat -> ment ROps r j j <> 0).

Lemma qr_inv_init n (M : list (list R)) : (0 < n)%nat -> wf n M -> qr_inv n 0 (ment ROps M) (identity ROps n) M M.
Proof.
  intros Hn W. unfold qr_inv. rewrite Nat.sub_0_r.
  split; [apply wf_identity|]. split; [exact W|]. split; [exact W|]. split.
  { apply (orth_eqn n dlt); [apply eqn_sym, ment_identity | apply orth_dlt]. }
  split.
  { eapply eqn_trans; [apply mm_eqn; [apply ment_identity | apply eqn_refl] | apply mm_dlt_l]. }
  split; [intros a b Hb; lia|]. split; [intros a b _ _; reflexivity | intros j Hj; lia].
Qed.

Lemma qr_step n i M q r rsub : (i < n)%nat -> qr_inv n i M q r rsub -> pivot_ok rsub ->
  let psub := householder ROps rsub in
  let p := embed ROps i n psub in
  qr_inv n (S i) M (mmul ROps q p) (zero_below ROps i (mmul ROps p r)) (sub00 (mmul ROps psub rsub)).
Proof.
  intros Hi (Wq & Wr & Ws & Oq & QR & Low & Link & Diag) Hpiv psub p.
  assert (0 < n)%nat as Hn by lia.
  set (m := (n - i)%nat) in *. assert (0 < m)%nat as Hm by (unfold m; lia).
  assert (length rsub = m) as Ls by (destruct Ws as [L _]; exact L).
  assert (length (mcol ROps rsub 0) = m) as Lc by (rewrite mcol_length; exact Ls).
  set (hf := ment ROps psub).
  assert (wf m psub) as Wh by (unfold psub; rewrite <- Ls; apply wf_householder).
  assert (forall a b, (a < m)%nat -> (b < m)%nat -> hf a b = hf b a) as Hsym.
  { intros a b Ha Hb. apply hm_symmetric; rewrite Lc; assumption. }
  assert (forall a b, (a < m)%nat -> (b < m)%nat -> rsum (fun k => hf k a * hf k b) m = dlt a b) as Horth.
  { intros a b Ha Hb. pose proof (hm_orthogonal rsub Hpiv a b) as E. rewrite Lc in E. apply E; assumption. }
  set (alpha := householder_alpha ROps (mcol ROps rsub 0)).
  assert (forall a, (a < m)%nat -> rsum (fun k => hf a k * ment ROps rsub k 0) m = dlt a 0 * alpha) as Hrefl.
  { intros a Ha. pose proof (hm_reflects rsub Hpiv a) as E. rewrite Lc in E. etransitivity; [| exact (E Ha)].
    apply rsum_ext. intros k _. rewrite mcol0_nth. reflexivity. }
  assert (alpha <> 0) as Halpha.
  { pose proof (hm_alpha rsub Hpiv) as [A1 _]. pose proof (hm_S2_pos rsub Hpiv) as P. fold alpha in A1.
    intro Z. rewrite Z in A1. lra. }
  assert (wf n p) as Wp by (apply wf_embed; [lia | exact Wh]).
  assert (eqn n (ment ROps p) (pf i hf)) as Ep by (apply ment_embed; [lia | exact Wh]).
  pose proof (pf_orth n i (Nat.lt_le_incl _ _ Hi) hf Hsym Horth) as Op.
  pose proof (pf_square n i (Nat.lt_le_incl _ _ Hi) hf Hsym Horth) as PP.
  set (pr := mmul ROps p r).
  assert (wf n pr) as Wpr by (apply wf_mmul; assumption).
  assert (eqn n (ment ROps pr) (mm n (pf i hf) (ment ROps r))) as Epr0.
  { eapply eqn_trans; [apply ment_mmul_eqn; assumption | apply mm_eqn; [exact Ep | apply eqn_refl]]. }
  assert (forall a b, (a < n)%nat -> (b < n)%nat ->
            ment ROps pr a b = if (a <? i)%nat then ment ROps r a b
                               else rsum (fun k => hf (a - i)%nat k * ment ROps r (i + k)%nat b) m) as Epr.
  { intros a b Ha Hb. rewrite (Epr0 a b Ha Hb). apply pf_mm_l; [lia | exact Ha]. }
  (* the processed column: H x = alpha e1 *)
  assert (forall a, (i <= a)%nat -> (a < n)%nat -> ment ROps pr a i = dlt (a - i) 0 * alpha) as Ecol.
  { intros a La Ha. rewrite (Epr a i Ha Hi). destruct (Nat.ltb_spec a i); [lia|].
    rewrite <- (Hrefl (a - i)%nat) by (unfold m; lia). apply rsum_ext. intros k Hk.
    rewrite (Link k 0%nat Hk Hm), Nat.add_0_r. reflexivity. }
  (* the overwriting with 0.0 changes nothing over the reals *)
  set (r' := zero_below ROps i pr).
  assert (eqn n (ment ROps r') (ment ROps pr)) as Er'.
  { intros a b Ha Hb. unfold r'. rewrite (ment_zero_below n i pr a b Wpr Hi Ha).
    destruct (Nat.ltb_spec i a) as [L | L]; cbn [andb]; [| reflexivity].
    destruct (Nat.eqb_spec b i) as [-> | ?]; [| reflexivity].
    rewrite (Ecol a) by lia. unfold dlt. destruct (Nat.eqb_spec (a - i) 0); [lia | ring]. }
  set (q' := mmul ROps q p).
  assert (eqn n (ment ROps q') (mm n (ment ROps q) (pf i hf))) as Eq'.
  { eapply eqn_trans; [apply ment_mmul_eqn; assumption | apply mm_eqn; [apply eqn_refl | exact Ep]]. }
  unfold qr_inv. fold pr r' q'.
  split; [apply wf_mmul; assumption|]. split; [apply wf_zero_below; exact Wpr|]. split.
  { apply wf_sub00. replace (S (n - S i)) with m by (unfold m; lia). apply wf_mmul; assumption. }
  split.
  { apply (orth_eqn n (mm n (ment ROps q) (pf i hf))); [apply eqn_sym; exact Eq' | apply orth_mm; assumption]. }
  split.
  { (* Q' R' = Q P P R = Q R = M *)
    eapply eqn_trans; [apply mm_eqn; [exact Eq' | eapply eqn_trans; [exact Er' | exact Epr0]]|].
    eapply eqn_trans; [intros a b _ _; apply mm_assoc|].
    eapply eqn_trans; [| exact QR]. apply mm_eqn; [apply eqn_refl|].
    eapply eqn_trans; [intros a b _ _; symmetry; apply mm_assoc|].
    eapply eqn_trans; [apply mm_eqn; [exact PP | apply eqn_refl] | apply mm_dlt_l]. }
  split.
  { (* zeros below the diagonal in columns <= i *)
    intros a b Hb Hab Ha. unfold r'. rewrite (ment_zero_below n i pr a b Wpr Hi Ha).
    destruct (Nat.ltb_spec i a) as [L | L]; destruct (Nat.eqb_spec b i) as [E | E]; cbn [andb]; try reflexivity; try lia.
    - rewrite (Epr a b Ha) by lia. destruct (Nat.ltb_spec a i); [lia|].
      rewrite (rsum_ext _ (fun _ => 0)); [apply rsum_zero|]. intros k Hk. rewrite (Low (i + k)%nat b) by (unfold m in Hk; lia). ring.
    - rewrite (Epr a b Ha) by lia. destruct (Nat.ltb_spec a i) as [L' | L'].
      + apply Low; lia.
      + rewrite (rsum_ext _ (fun _ => 0)); [apply rsum_zero|]. intros k Hk. rewrite (Low (i + k)%nat b) by (unfold m in Hk; lia). ring. }
  split.
  { (* the block the code carries along is the trailing block of R *)
    intros a b Ha Hb. rewrite ment_sub00.
    rewrite (ment_mmul m psub rsub (S a) (S b) Hm Wh Ws) by (unfold m; lia).
    rewrite (Er' (S i + a)%nat (S i + b)%nat) by lia. rewrite (Epr (S i + a)%nat (S i + b)%nat) by lia.
    destruct (Nat.ltb_spec (S i + a) i); [lia|]. replace (S i + a - i)%nat with (S a) by lia.
    apply rsum_ext. intros k Hk. fold hf. rewrite (Link k (S b) Hk) by (unfold m; lia).
    replace (i + S b)%nat with (S i + b)%nat by lia. reflexivity. }
  { (* diagonal entries of the finished columns are not zero *)
    intros j Hj. rewrite (Er' j j) by lia. destruct (Nat.eq_dec j i) as [-> | Hne].
    - rewrite (Ecol i) by lia. rewrite Nat.sub_diag. unfold dlt. cbn. lra.
    - rewrite (Epr j j) by lia. destruct (Nat.ltb_spec j i); [| lia]. apply Diag. lia. }
Qed.

(** what the loop returns *)
Definition qr_post (n : nat) (M : nat -> nat -> R) (q r : list (list R)) : Prop :=
  wf n q /\ wf n r /\ orth n (ment ROps q) /\
  eqn n (mm n (ment ROps q) (ment ROps r)) M /\
  (forall a b, (b < a)%nat -> (a < n)%nat -> ment ROps r a b = 0) /\
  (forall j, (j < n)%nat -> ment ROps r j j <> 0).

Lemma qr_loop_inv n M : forall k i q r rsub, (k + i = n)%nat -> qr_inv n i M q r rsub -> qr_pivots_ok k rsub ->
  qr_post n M (fst (qr_loop ROps k i n q r rsub)) (snd (qr_loop ROps k i n q r rsub)).
Proof.
  induction k as [| k IH]; intros i q r rsub E I P.
  - cbn. assert (i = n) by lia. subst i. destruct I as (Wq & Wr & _ & Oq & QR & Low & _ & Diag).
    unfold qr_post. split; [exact Wq|]. split; [exact Wr|]. split; [exact Oq|]. split; [exact QR|]. split; [| exact Diag].
    intros a b Hab Ha. apply Low; lia.
  - cbn [qr_loop]. cbv zeta. destruct P as [P1 P2].
    apply IH; [lia | apply qr_step; [lia | exact I | exact P1] | exact P2].
Qed.

(** *** non-singularity of M gives the pivot hypothesis in every pass *)
Lemma nonsing_pivot n i M q r rsub : (i < n)%nat -> qr_inv n i M q r rsub -> nonsing n M -> pivot_ok rsub.
Proof.
  intros Hi (Wq & Wr & Ws & Oq & QR & Low & Link & Diag) NS.
  assert (0 < n - i)%nat as Hm by lia.
  assert (length rsub = (n - i)%nat) as Ls by (destruct Ws as [L _]; exact L).
  destruct (all_zero_or_not (fun k => ment ROps rsub k 0) (n - i)) as [Z | (k & Hk & Hne)].
  2:{ exists k. split; [rewrite mcol_length, Ls; exact Hk | rewrite mcol0_nth; exact Hne]. }
  exfalso.
  destruct (back_substitution i (ment ROps r)
              (fun a b Hab Ha => Low a b ltac:(lia) Hab ltac:(lia)) Diag (fun a => - ment ROps r a i)) as [y Hy].
  set (yf := fun j => if (j <? i)%nat then y j else if Nat.eqb j i then 1 else 0).
  assert (forall a, (a < n)%nat -> mv n (ment ROps r) yf a = 0) as RY.
  { intros a Ha. unfold mv. rewrite (rsum_split_le _ i n) by lia.
    assert (rsum (fun k => ment ROps r a (i + k) * yf (i + k)%nat) (n - i) = ment ROps r a i) as E2.
    { rewrite (rsum_ext _ (fun k => dlt k 0 * ment ROps r a (i + k))).
      - rewrite (rsum_dlt_l (fun k => ment ROps r a (i + k)) (n - i) 0 Hm). rewrite Nat.add_0_r. reflexivity.
      - intros k Hk. unfold yf, dlt. destruct (Nat.ltb_spec (i + k) i); [lia|].
        destruct (Nat.eqb_spec (i + k) i), (Nat.eqb_spec k 0); try lia; ring. }
    rewrite E2.
    rewrite (rsum_ext _ (fun j => ment ROps r a j * y j)) by (intros j Hj; unfold yf; destruct (Nat.ltb_spec j i); [reflexivity | lia]).
    destruct (Nat.lt_ge_cases a i) as [L | L].
    - rewrite (Hy a L). ring.
    - rewrite (rsum_ext _ (fun _ => 0)), rsum_zero.
      + pose proof (Link (a - i)%nat 0%nat ltac:(lia) Hm) as Lk. rewrite Nat.add_0_r in Lk.
        replace (i + (a - i))%nat with a in Lk by lia. rewrite <- Lk, Z by lia. ring.
      + intros j Hj. rewrite (Low a j) by lia. ring. }
  assert (forall a, (a < n)%nat -> mv n M yf a = 0) as MY.
  { intros a Ha. rewrite <- (mv_eqn n _ M yf a QR Ha), mv_mm. apply mv_zero. exact RY. }
  pose proof (NS yf MY i Hi) as Yi. unfold yf in Yi. rewrite Nat.ltb_irrefl, Nat.eqb_refl in Yi. lra.
Qed.
Lemma nonsing_pivots n M : nonsing n M -> forall k i q r rsub, (k + i = n)%nat -> qr_inv n i M q r rsub -> qr_pivots_ok k rsub.
Proof.
  intros NS. induction k as [| k IH]; intros i q r rsub E I; cbn [qr_pivots_ok]; [exact Logic.I|].
  assert (pivot_ok rsub) as P by (apply (nonsing_pivot n i M q r rsub); [lia | exact I | exact NS]).
  split; [exact P|]. apply (IH (S i) _ _ _ ltac:(lia) (qr_step n i M q r rsub ltac:(lia) I P)).
Qed.

(** *** QR_Decomposition *)
Lemma wf_is_square n (M : list (list R)) : wf n M -> is_square M = true /\ nrows M = n.
Proof.
  intros [L Rw]. split; [| exact L]. unfold is_square. apply forallb_forall. intros row Hin.
  destruct (In_nth _ _ [] Hin) as (i & Hi & <-). rewrite Rw by lia. rewrite L. apply Nat.eqb_refl.
Qed.
Lemma qr_decomposition_eq n (M : list (list R)) : (0 < n)%nat -> wf n M ->
  qr_decomposition ROps M = Ok (qr_loop ROps n 0 n (identity ROps n) M M).
Proof.
  intros Hn W. destruct (wf_is_square n M W) as [Sq Nr]. unfold qr_decomposition. rewrite Sq, Nr.
  destruct (Nat.ltb_spec 0 n); [reflexivity | lia].
Qed.
Lemma qr_decomposition_pos n (M : list (list R)) x : wf n M -> qr_decomposition ROps M = Ok x -> (0 < n)%nat.
Proof.
  intros W. destruct (wf_is_square n M W) as [Sq Nr]. unfold qr_decomposition. rewrite Sq, Nr.
  destruct (Nat.ltb_spec 0 n); [intros; assumption | discriminate].
Qed.
Lemma qr_loop_post n (M : list (list R)) : (0 < n)%nat -> wf n M -> qr_pivots_ok n M ->
  qr_post n (ment ROps M) (fst (qr_loop ROps n 0 n (identity ROps n) M M)) (snd (qr_loop ROps n 0 n (identity ROps n) M M)).
Proof. intros Hn W P. apply qr_loop_inv; [lia | apply qr_inv_init; assumption | exact P]. Qed.
Lemma nonsing_qr_pivots n (M : list (list R)) : (0 < n)%nat -> wf n M -> nonsing n (ment ROps M) -> qr_pivots_ok n M.
Proof. intros Hn W NS. apply (nonsing_pivots n (ment ROps M) NS n 0%nat (identity ROps n) M M); [lia | apply qr_inv_init; assumption]. Qed.

Lemma qr_decomposition_post n (M Q Rm : list (list R)) : wf n M -> qr_pivots_ok n M ->
  qr_decomposition ROps M = Ok (Q, Rm) -> qr_post n (ment ROps M) Q Rm.
Proof.
  intros W P E. pose proof (qr_decomposition_pos n M _ W E) as Hn.
  rewrite (qr_decomposition_eq n M Hn W) in E. pose proof (qr_loop_post n M Hn W P) as Post.
  inversion E as [E']. rewrite E' in Post. exact Post.
Qed.

(** the property clauses, each under the pivot hypothesis and under non-singularity *)
Lemma qr_returns n (M : list (list R)) : (0 < n)%nat -> wf n M ->
  exists Q Rm, qr_decomposition ROps M = Ok (Q, Rm).
Proof. intros Hn W. rewrite (qr_decomposition_eq n M Hn W). destruct (qr_loop ROps n 0 n _ M M) as [Q Rm]. exists Q, Rm. reflexivity. Qed.
Lemma qr_orthogonal n (M Q Rm : list (list R)) : wf n M -> qr_pivots_ok n M -> qr_decomposition ROps M = Ok (Q, Rm) ->
  wf n Q /\
  (forall i j, (i < n)%nat -> (j < n)%nat -> rsum (fun k => ment ROps Q k i * ment ROps Q k j) n = dlt i j) /\
  (forall i j, (i < n)%nat -> (j < n)%nat -> rsum (fun k => ment ROps Q i k * ment ROps Q j k) n = dlt i j).
Proof. intros W P E. destruct (qr_decomposition_post n M Q Rm W P E) as (Wq & _ & [O1 O2] & _). split; [exact Wq|]. split; [exact O1 | exact O2]. Qed.
Lemma qr_upper_triangular n (M Q Rm : list (list R)) : wf n M -> qr_pivots_ok n M -> qr_decomposition ROps M = Ok (Q, Rm) ->
  wf n Rm /\ (forall i j, (j < i)%nat -> (i < n)%nat -> ment ROps Rm i j = 0) /\ (forall j, (j < n)%nat -> ment ROps Rm j j <> 0).
Proof. intros W P E. destruct (qr_decomposition_post n M Q Rm W P E) as (_ & Wr & _ & _ & Low & Diag). split; [exact Wr|]. split; [exact Low | exact Diag]. Qed.
Lemma qr_product n (M Q Rm : list (list R)) : wf n M -> qr_pivots_ok n M -> qr_decomposition ROps M = Ok (Q, Rm) ->
  forall i j, (i < n)%nat -> (j < n)%nat -> rsum (fun k => ment ROps Q i k * ment ROps Rm k j) n = ment ROps M i j.
Proof. intros W P E. destruct (qr_decomposition_post n M Q Rm W P E) as (_ & _ & _ & QR & _). exact QR. Qed.

Lemma qr_nonsingular n (M Q Rm : list (list R)) : wf n M -> nonsing n (ment ROps M) -> qr_decomposition ROps M = Ok (Q, Rm) ->
  wf n Q /\ wf n Rm /\
  (forall i j, (i < n)%nat -> (j < n)%nat -> rsum (fun k => ment ROps Q k i * ment ROps Q k j) n = dlt i j) /\
  (forall i j, (j < i)%nat -> (i < n)%nat -> ment ROps Rm i j = 0) /\
  (forall i j, (i < n)%nat -> (j < n)%nat -> rsum (fun k => ment ROps Q i k * ment ROps Rm k j) n = ment ROps M i j).
Proof.
  intros W NS E. pose proof (qr_decomposition_pos n M _ W E) as Hn.
  destruct (qr_decomposition_post n M Q Rm W (nonsing_qr_pivots n M Hn W NS) E) as (Wq & Wr & [O1 _] & QR & Low & _).
  split; [exact Wq|]. split; [exact Wr|]. split; [exact O1|]. split; [exact Low | exact QR].
Qed.

(** a left inverse gives non-singularity in the sense used here *)
Lemma left_inverse_nonsing n (a b : nat -> nat -> R) : eqn n (mm n b a) dlt -> nonsing n a.
Proof.
  intros BA x AX j Hj. rewrite <- (mv_dlt n x j Hj), <- (mv_eqn n _ dlt x j BA Hj), mv_mm. apply mv_zero. exact AX.
Qed.

(** ** The sweeps of Eigenvalues: A -> R Q is an orthogonal similarity; trace, symmetry and non-singularity are kept *)
Lemma eqn_pt n f g : (forall a b, f a b = g a b) -> eqn n f g.
Proof. intros H a b _ _. apply H. Qed.

(** A = Q R, Q orthogonal  ==>  R Q = Q^T A Q *)
Lemma sim_of_qr n q r a : orth n q -> eqn n (mm n q r) a -> eqn n (mm n r q) (mm n (tr q) (mm n a q)).
Proof.
  intros [O1 _] QR. apply eqn_sym.
  eapply eqn_trans; [apply mm_eqn; [apply eqn_refl | apply mm_eqn; [apply eqn_sym; exact QR | apply eqn_refl]]|].
  eapply eqn_trans; [apply mm_eqn; [apply eqn_refl | apply eqn_pt; intros; apply mm_assoc]|].
  eapply eqn_trans; [apply eqn_pt; intros; symmetry; apply mm_assoc|].
  eapply eqn_trans; [apply mm_eqn; [exact O1 | apply eqn_refl] | apply mm_dlt_l].
Qed.
(** similarities compose *)
Lemma sim_compose n a a1 a2 p q : eqn n a1 (mm n (tr p) (mm n a p)) -> eqn n a2 (mm n (tr q) (mm n a1 q)) ->
  eqn n a2 (mm n (tr (mm n p q)) (mm n a (mm n p q))).
Proof.
  intros E1 E2. eapply eqn_trans; [exact E2|].
  eapply eqn_trans; [apply mm_eqn; [apply eqn_refl | apply mm_eqn; [exact E1 | apply eqn_refl]]|].
  (* q^T ((p^T (a p)) q)  =  (q^T p^T) (a (p q)) *)
  apply eqn_sym.
  eapply eqn_trans; [apply mm_eqn; [apply eqn_pt; intros; apply tr_mm | apply eqn_refl]|].
  eapply eqn_trans; [apply eqn_pt; intros; apply mm_assoc|].
  apply mm_eqn; [apply eqn_refl|].
  eapply eqn_trans; [apply mm_eqn; [apply eqn_refl | apply eqn_pt; intros; symmetry; apply mm_assoc]|].
  apply eqn_pt. intros. symmetry. apply mm_assoc.
Qed.
Lemma trace_eqn n f g : eqn n f g -> trace n f = trace n g.
Proof. intros H. unfold trace. apply rsum_ext. intros i Hi. apply H; exact Hi. Qed.
Lemma trace_comm n f g : trace n (mm n f g) = trace n (mm n g f).
Proof. unfold trace, mm. rewrite rsum_switch. apply rsum_ext. intros k _. apply rsum_ext. intros i _. ring. Qed.
Lemma trace_similar n q a a' : orth n q -> eqn n a' (mm n (tr q) (mm n a q)) -> trace n a' = trace n a.
Proof.
  intros [_ O2] E. rewrite (trace_eqn n _ _ E), trace_comm.
  rewrite (trace_eqn n _ (mm n a (mm n q (tr q)))) by (apply eqn_pt; intros; apply mm_assoc).
  apply trace_eqn. eapply eqn_trans; [apply mm_eqn; [apply eqn_refl | exact O2] | apply mm_dlt_r].
Qed.
Lemma symm_similar n q a a' : eqn n a' (mm n (tr q) (mm n a q)) -> symm n a -> symm n a'.
Proof.
  intros E S i j Hi Hj. unfold tr. rewrite (E i j Hi Hj), (E j i Hj Hi).
  exact (sim_symmetric n q a (fun k l Hk Hl => S k l Hk Hl) i j).
Qed.
Lemma nonsing_similar n q a a' : orth n q -> eqn n a' (mm n (tr q) (mm n a q)) -> nonsing n a -> nonsing n a'.
Proof.
  intros [O1 O2] E NS x AX.
  (* q a' = a q on the block *)
  assert (eqn n (mm n q a') (mm n a q)) as QA.
  { eapply eqn_trans; [apply mm_eqn; [apply eqn_refl | exact E]|].
    eapply eqn_trans; [apply eqn_pt; intros; symmetry; apply mm_assoc|].
    eapply eqn_trans; [apply mm_eqn; [exact O2 | apply eqn_refl] | apply mm_dlt_l]. }
  assert (forall i, (i < n)%nat -> mv n a (mv n q x) i = 0) as AZ.
  { intros i Hi. rewrite <- mv_mm, <- (mv_eqn n _ _ x i QA Hi), mv_mm. apply mv_zero. exact AX. }
  pose proof (NS (mv n q x) AZ) as Zq.
  intros j Hj. rewrite <- (mv_dlt n x j Hj), <- (mv_eqn n _ dlt x j O1 Hj), mv_mm. apply mv_zero. exact Zq.
Qed.

(** sum of a list, and of the diagonal *)
Definition ls (l : list R) : R := fold_right Rplus 0 l.
Lemma ls_app l1 l2 : ls (l1 ++ l2) = ls l1 + ls l2.
Proof. unfold ls. induction l1 as [| x l1 IH]; cbn [app fold_right]; [ring|]. rewrite IH. ring. Qed.
Lemma ls_map_seq f n : ls (map f (seq 0 n)) = rsum f n.
Proof.
  induction n as [| n IH]; [reflexivity|]. rewrite seq_S, map_app, ls_app, IH. unfold ls. cbn. ring.
Qed.
Lemma ls_diagonal n (A : list (list R)) : wf n A -> ls (diagonal ROps A) = trace n (ment ROps A).
Proof. intros [L _]. unfold diagonal, nrows. rewrite L. apply ls_map_seq. Qed.

(** every matrix the loop of Eigenvalues can return the diagonal of is Q^T M Q for an orthogonal Q, and passed the
    convergence test *)
Definition eig_converged (A : list (list R)) : Prop :=
  nltb ROps (ndiv ROps (abs_lower_sum ROps A) (abs_diag_sum ROps A)) (ndec ROps 1 1000000000000) = true.

Lemma eig_loop_similar n : (0 < n)%nat -> forall fuel i (A : list (list R)) evs,
  wf n A -> nonsing n (ment ROps A) -> eig_loop ROps fuel i A = Ok evs ->
  exists (A' : list (list R)) (q : nat -> nat -> R),
    wf n A' /\ orth n q /\ eqn n (ment ROps A') (mm n (tr q) (mm n (ment ROps A) q)) /\
    evs = diagonal ROps A' /\ eig_converged A'.
Proof.
  intros Hn. induction fuel as [| f IH]; intros i A evs W NS E; [discriminate E|].
  cbn [eig_loop] in E. cbv zeta in E.
  assert (nrows A = n) as Nr by (destruct W as [L _]; exact L). rewrite Nr in E.
  pose proof (qr_loop_post n A Hn W (nonsing_qr_pivots n A Hn W NS)) as (Wq & Wr & Oq & QR & _).
  set (Q := fst (qr_loop ROps n 0 n (identity ROps n) A A)) in *.
  set (Rm := snd (qr_loop ROps n 0 n (identity ROps n) A A)) in *.
  set (A1 := mmul ROps Rm Q) in *.
  assert (wf n A1) as W1 by (apply wf_mmul; assumption).
  assert (eqn n (ment ROps A1) (mm n (tr (ment ROps Q)) (mm n (ment ROps A) (ment ROps Q)))) as S1.
  { eapply eqn_trans; [apply ment_mmul_eqn; assumption | apply sim_of_qr; assumption]. }
  assert (nonsing n (ment ROps A1)) as NS1 by (apply (nonsing_similar n (ment ROps Q) (ment ROps A)); assumption).
  assert (forall j, eig_loop ROps f j A1 = Ok evs ->
            exists (A' : list (list R)) (q : nat -> nat -> R),
              wf n A' /\ orth n q /\ eqn n (ment ROps A') (mm n (tr q) (mm n (ment ROps A) q)) /\
              evs = diagonal ROps A' /\ eig_converged A') as Rec.
  { intros j Ej. destruct (IH j A1 evs W1 NS1 Ej) as (A' & q & W' & Oq' & S' & Ev & Cv).
    exists A', (mm n (ment ROps Q) q). split; [exact W'|]. split; [apply orth_mm; assumption|].
    split; [exact (sim_compose n _ _ _ _ _ S1 S') | split; assumption]. }
  destruct (10 <? i)%Z; [| exact (Rec _ E)].
  destruct (nltb ROps _ _) eqn:Cv; [| exact (Rec _ E)].
  inversion E as [Ev]. exists A1, (ment ROps Q).
  split; [exact W1|]. split; [exact Oq|]. split; [exact S1|]. split; [reflexivity | exact Cv].
Qed.

(* the literal 200 is abstracted at once: no proof step may evaluate the loop *)
Lemma eigenvalues_fuel (M : list (list R)) evs : eigenvalues ROps M = Ok evs ->
  exists fuel, (0 < nrows M)%nat /\ eig_loop ROps fuel 0%Z M = Ok evs.
Proof.
  unfold eigenvalues. generalize 200%nat. intros fuel.
  destruct (is_square M); cbn [andb]; [| discriminate].
  destruct (Nat.ltb_spec 0 (nrows M)) as [Hn | Hn]; [| discriminate].
  intros E. exists fuel. split; [exact Hn | exact E].
Qed.
Lemma eigenvalues_similar n (M : list (list R)) evs : wf n M -> nonsing n (ment ROps M) -> eigenvalues ROps M = Ok evs ->
  exists (A : list (list R)) (q : nat -> nat -> R),
    wf n A /\ orth n q /\ eqn n (ment ROps A) (mm n (tr q) (mm n (ment ROps M) q)) /\
    evs = diagonal ROps A /\ eig_converged A.
Proof.
  intros W NS E. destruct (wf_is_square n M W) as [Sq Nr].
  destruct (eigenvalues_fuel M evs E) as (fuel & Hn & E'). rewrite Nr in Hn.
  exact (eig_loop_similar n Hn fuel 0%Z M evs W NS E').
Qed.

(** "sums to the trace": the returned values sum to trace(M), exactly over the reals; there are n of them; for a symmetric
    M the final iterate is symmetric *)
Lemma eigenvalues_trace n (M : list (list R)) evs : wf n M -> nonsing n (ment ROps M) -> eigenvalues ROps M = Ok evs ->
  length evs = n /\ ls evs = trace n (ment ROps M).
Proof.
  intros W NS E. destruct (eigenvalues_similar n M evs W NS E) as (A & q & WA & Oq & S & -> & _). split.
  - unfold diagonal, nrows. destruct WA as [L _]. rewrite map_length, seq_length. exact L.
  - rewrite (ls_diagonal n A WA). exact (trace_similar n q _ _ Oq S).
Qed.
Lemma eigenvalues_symmetric n (M : list (list R)) evs : wf n M -> nonsing n (ment ROps M) -> symm n (ment ROps M) ->
  eigenvalues ROps M = Ok evs ->
  exists (A : list (list R)) (q : nat -> nat -> R),
    wf n A /\ orth n q /\ eqn n (ment ROps A) (mm n (tr q) (mm n (ment ROps M) q)) /\ symm n (ment ROps A) /\
    evs = diagonal ROps A /\ eig_converged A.
Proof.
  intros W NS Sy E. destruct (eigenvalues_similar n M evs W NS E) as (A & q & WA & Oq & S & Ev & Cv).
  exists A, q. split; [exact WA|]. split; [exact Oq|]. split; [exact S|]. split; [exact (symm_similar n q _ _ S Sy)|]. split; assumption.
Qed.

(** ** Non-vacuity: a concrete non-singular 2 x 2 matrix *)
Example ex_M_wf : wf 2 ex_M.
Proof. split; [reflexivity|]. intros [| [| i]] Hi; cbn; try reflexivity; lia. Qed.
Example ex_M_nonsing : nonsing 2 (ment ROps ex_M).
Proof.
  intros x H. pose proof (H 0%nat ltac:(lia)) as H0. pose proof (H 1%nat ltac:(lia)) as H1.
  unfold mv, ment, nth0, ex_M in H0, H1. cbn in H0, H1.
  intros [| [| j]] Hj; [lra | lra | lia].
Qed.
Example ex_M_pivots : qr_pivots_ok 2 ex_M.
Proof. apply nonsing_qr_pivots; [lia | exact ex_M_wf | exact ex_M_nonsing]. Qed.
Definition ex_S : list (list R) := [[2; 1]; [1; 2]].
Example ex_S_hyp : wf 2 ex_S /\ nonsing 2 (ment ROps ex_S) /\ symm 2 (ment ROps ex_S).
Proof.
  split; [split; [reflexivity|]; intros [| [| i]] Hi; cbn; try reflexivity; lia|]. split.
  - intros x H. pose proof (H 0%nat ltac:(lia)) as H0. pose proof (H 1%nat ltac:(lia)) as H1.
    unfold mv, ment, nth0, ex_S in H0, H1. cbn in H0, H1.
    intros [| [| j]] Hj; [lra | lra | lia].
  - intros [| [| i]] [| [| j]] Hi Hj; try lia; reflexivity.
Qed.

(** ** Non-vacuity of "Eigenvalues returns": a 1 x 1 matrix (a), a <> 0, is returned unchanged after 12 sweeps *)
Lemma wf1_eq (A : list (list R)) : wf 1 A -> A = [[ment ROps A 0 0]].
Proof.
  intros [L Rw]. pose proof (Rw 0%nat ltac:(lia)) as R0. unfold ment, nth0.
  destruct A as [| r0 [| r1 A]]; cbn in L; try lia. cbn in R0 |- *.
  destruct r0 as [| x [| y r0]]; cbn in R0; try lia. reflexivity.
Qed.
Lemma wf1_single a : wf 1 [[a]].
Proof. split; [reflexivity|]. intros [| i] Hi; [reflexivity | lia]. Qed.
Lemma nonsing1_single a : a <> 0 -> nonsing 1 (ment ROps [[a]]).
Proof.
  intros Ha x H [| j] Hj; [| lia]. pose proof (H 0%nat ltac:(lia)) as H0. unfold mv, ment, nth0 in H0. cbn in H0.
  assert (a * x 0%nat = 0) as E by lra. destruct (Rmult_integral _ _ E); [contradiction | assumption].
Qed.
Lemma eig_sweep_1x1 a : a <> 0 ->
  let qr := qr_loop ROps 1 0 1 (identity ROps 1) [[a]] [[a]] in mmul ROps (snd qr) (fst qr) = [[a]].
Proof.
  intros Ha qr.
  pose proof (qr_loop_post 1 [[a]] ltac:(lia) (wf1_single a)
                (nonsing_qr_pivots 1 [[a]] ltac:(lia) (wf1_single a) (nonsing1_single a Ha))) as (Wq & Wr & Oq & QR & _).
  fold qr in Wq, Wr, Oq, QR.
  assert (wf 1 (mmul ROps (snd qr) (fst qr))) as W1 by (apply wf_mmul; [lia | assumption | assumption]).
  clearbody qr. rewrite (wf1_eq _ W1). do 2 f_equal.
  pose proof (eqn_trans 1 _ _ _ (ment_mmul_eqn 1 _ _ ltac:(lia) Wr Wq) (sim_of_qr 1 _ _ _ Oq QR) 0%nat 0%nat ltac:(lia) ltac:(lia)) as E.
  rewrite E. destruct Oq as [O1 _]. pose proof (O1 0%nat 0%nat ltac:(lia) ltac:(lia)) as U.
  unfold mm, tr in U |- *. cbn [rsum] in U |- *. unfold dlt in U. cbn [Nat.eqb] in U.
  change (ment ROps [[a]] 0 0) with a. set (q00 := ment ROps (fst qr) 0 0) in *.
  replace (0 + q00 * (0 + a * q00)) with (a * (0 + q00 * q00)) by ring. rewrite U. ring.
Qed.
Lemma eig_loop_1x1 a : a <> 0 -> forall fuel i, (0 < fuel)%nat -> (12 <= Z.of_nat fuel + i)%Z ->
  eig_loop ROps fuel i [[a]] = Ok [a].
Proof.
  intros Ha. induction fuel as [| f IH]; intros i Hi Hf; [lia|].
  cbn [eig_loop]. cbv zeta. change (nrows [[a]]) with 1%nat. rewrite (eig_sweep_1x1 a Ha).
  destruct (Z.ltb_spec 10 i) as [L | L].
  - assert (nltb ROps (ndiv ROps (abs_lower_sum ROps [[a]]) (abs_diag_sum ROps [[a]])) (ndec ROps 1 1000000000000) = true) as C.
    { unfold abs_lower_sum, abs_diag_sum, ndec, ment, nth0. cbn. apply Rltb_true.
      assert (0 < Rabs a) by (apply Rabs_pos_lt; exact Ha).
      replace (0 / (0 + Rabs a)) with 0 by (field; lra). lra. }
    rewrite C. reflexivity.
  - apply IH; lia.
Qed.
Lemma eigenvalues_unfold (M : list (list R)) :
  eigenvalues ROps M = if (is_square M && Nat.ltb 0 (nrows M))%bool then eig_loop ROps 200 0%Z M else Exit.
Proof. reflexivity. Qed.
Example eigenvalues_1x1 a : a <> 0 -> eigenvalues ROps [[a]] = Ok [a].
Proof.
  intros Ha. rewrite eigenvalues_unfold. replace (is_square [[a]] && Nat.ltb 0 (nrows [[a]]))%bool with true by reflexivity.
  apply (eig_loop_1x1 a Ha 200 0%Z); lia.
Qed.
Lemma two_neq_0 : 2 <> 0.
Proof. lra. Qed.
