(** * C11 proofs over the reals: psum holds the column sums of the simplex in every pass of the Nelder-Mead loop
    (amotry updates it incrementally, psum[j] += ptry[j] - p[ihi][j]; the shrink recomputes it), so the point c of
    C11_amotry_trial_point is the centroid of the other vertices. *)
From Coq Require Import ZArith List Bool Reals Lra Lia.
From LP Require Import Num NumR OrdLaws C11_Model C11_Proofs C11_Proofs_Box.
Import ListNotations.
Local Open Scope R_scope.

Definition colsum (p : list (list R)) (j : nat) : R := fold_left (fun s r => s + nth j r 0) p 0.

Lemma get_psum_R p ndim : get_psum ROps p ndim = map (colsum p) (seq 0 ndim).
Proof. reflexivity. Qed.

Lemma fold_add (g : list R -> R) : forall p a, fold_left (fun s r => s + g r) p a = a + fold_left (fun s r => s + g r) p 0.
Proof.
  induction p as [|r p IH]; intros a; cbn [fold_left]; [lra|]. rewrite (IH (a + g r)), (IH (0 + g r)). lra.
Qed.

Lemma colsum_updv : forall p i v j, (i < length p)%nat ->
  colsum (updv p i v) j = colsum p j + (nth j v 0 - nth j (nth i p []) 0).
Proof.
  unfold colsum. induction p as [|r p IH]; intros i v j Hi; [cbn in Hi; lia|].
  destruct i as [|i]; cbn [updv fold_left nth].
  - rewrite (fold_add (fun r => nth j r 0) p (0 + nth j v 0)), (fold_add (fun r => nth j r 0) p (0 + nth j r 0)). lra.
  - rewrite (fold_add (fun r => nth j r 0) (updv p i v) (0 + nth j r 0)), (fold_add (fun r => nth j r 0) p (0 + nth j r 0)).
    rewrite IH by (cbn in Hi; lia). lra.
Qed.

Lemma psum_update p ndim ihi ptry : (ihi < length p)%nat -> length ptry = ndim -> length (nth ihi p []) = ndim ->
  map (fun abc : R * R * R => fst (fst abc) + (snd (fst abc) - snd abc)) (combine (combine (get_psum ROps p ndim) ptry) (nth ihi p []))
  = get_psum ROps (updv p ihi ptry) ndim.
Proof.
  intros Hi Ht Hr. rewrite !get_psum_R.
  set (F := fun abc : R * R * R => fst (fst abc) + (snd (fst abc) - snd abc)).
  assert (L1 : length (map (colsum p) (seq 0 ndim)) = ndim) by (rewrite map_length, seq_length; reflexivity).
  apply (nth_ext _ _ 0 0).
  - rewrite !map_length, !combine_length, seq_length, L1. lia.
  - intros j Hj. rewrite map_length, !combine_length, L1 in Hj. assert (Hjn : (j < ndim)%nat) by lia.
    rewrite (nth_indep _ 0 (F ((0, 0), 0))) by (rewrite map_length, !combine_length, L1; lia).
    rewrite (map_nth F). rewrite combine_nth by (rewrite combine_length, L1; lia). rewrite combine_nth by lia. unfold F. cbn [fst snd].
    rewrite (nth_indep (map (colsum (updv p ihi ptry)) (seq 0 ndim)) 0 (colsum (updv p ihi ptry) 0%nat)) by (rewrite map_length, seq_length; lia).
    rewrite (map_nth (colsum (updv p ihi ptry))). rewrite seq_nth by lia. cbn [Nat.add].
    rewrite (nth_indep (map (colsum p) (seq 0 ndim)) 0 (colsum p 0%nat)) by lia.
    rewrite (map_nth (colsum p)), seq_nth by lia. cbn [Nat.add].
    rewrite colsum_updv by exact Hi. reflexivity.
Qed.

Definition Rect (ndim : nat) (p : list (list R)) : Prop := Forall (fun r => length r = ndim) p.
(** psum invariant: the simplex is rectangular and psum holds its column sums *)
Definition PSI (ndim : nat) (s : @nmst R) : Prop := Rect ndim (nm_p s) /\ nm_psum s = get_psum ROps (nm_p s) ndim.

Lemma Rect_nth ndim p i : Rect ndim p -> (i < length p)%nat -> length (nth i p []) = ndim.
Proof. intros H Hi. unfold Rect in H. rewrite Forall_forall in H. apply H. apply nth_In. exact Hi. Qed.

Lemma Rect_updv ndim : forall p i v, Rect ndim p -> length v = ndim -> Rect ndim (updv p i v).
Proof.
  unfold Rect. induction p as [|r p IH]; intros i v H Hv; [destruct i; constructor|].
  inversion H; subst. destruct i; cbn [updv]; constructor; auto.
Qed.

Lemma length_get_psum p ndim : length (get_psum ROps p ndim) = ndim.
Proof. rewrite get_psum_R, map_length, seq_length. reflexivity. Qed.

Section F.
Variable f : list R -> R.

Lemma amotry_psi ndim s ihi fac : (ihi < length (nm_p s))%nat -> PSI ndim s -> PSI ndim (fst (amotry ROps f s ndim ihi fac)).
Proof.
  intros Hi [HR HP]. unfold amotry.
  assert (Hlen : length (amotry_point ROps s ndim ihi fac) = ndim).
  { unfold amotry_point. rewrite map_length, combine_length, HP, length_get_psum. unfold row. rewrite (Rect_nth ndim _ _ HR Hi). lia. }
  destruct (nltb ROps _ _); cbn [fst]; [|split; assumption].
  split; cbn [nm_p nm_psum].
  - apply Rect_updv; assumption.
  - rewrite HP. unfold row. apply psum_update; [exact Hi|exact Hlen|apply (Rect_nth ndim _ _ HR Hi)].
Qed.

Lemma length_amotry_p ndim s ihi fac : length (nm_p (fst (amotry ROps f s ndim ihi fac))) = length (nm_p s).
Proof. unfold amotry. destruct (nltb ROps _ _); cbn [fst nm_p]; [apply length_updv|reflexivity]. Qed.

Lemma Rect_shrink ndim plo : length plo = ndim -> forall rows i ilo, Rect ndim rows -> Rect ndim (shrink_rows ROps rows i ilo plo).
Proof.
  intros Hl. unfold Rect. induction rows as [|r rows IH]; intros i ilo H; cbn [shrink_rows]; [constructor|].
  inversion H; subst. constructor; [|apply IH; assumption].
  destruct (Nat.eqb i ilo); [assumption|]. unfold midrow. rewrite map_length, combine_length. lia.
Qed.

(** one pass of the loop keeps the invariant *)
Theorem nm_iter_psi ftol ndim s : (2 <= length (nm_y s))%nat -> length (nm_p s) = length (nm_y s) -> PSI ndim s ->
  match nm_iter ROps f ftol ndim s with NNext s' => PSI ndim s' | _ => True end.
Proof.
  intros H2 Hpy HI. unfold nm_iter.
  destruct (nm_extremes ROps (nm_y s)) as [[ilo ihi] inhi] eqn:EX.
  destruct (nm_extremes_spec ROps ROps_OrdLaws _ _ _ _ H2 EX) as (Hlo & Hhi & _).
  destruct (nltb ROps _ ftol); [exact I|]. destruct (nm_nfunc s >=? nm_NMAX)%Z; [exact I|].
  set (s0 := mkNM (nm_p s) (nm_y s) (nm_psum s) (nm_nfunc s + 2)%Z (nm_tr s)).
  assert (H0 : PSI ndim s0) by exact HI.
  assert (Hi0 : (ihi < length (nm_p s0))%nat) by (cbn [s0 nm_p]; lia).
  pose proof (amotry_psi ndim s0 ihi (nneg ROps (one ROps)) Hi0 H0) as H1.
  pose proof (length_amotry_p ndim s0 ihi (nneg ROps (one ROps))) as L1.
  destruct (amotry ROps f s0 ndim ihi (nneg ROps (one ROps))) as [s1 ytry]. cbn [fst] in H1, L1.
  assert (Hi1 : (ihi < length (nm_p s1))%nat) by (rewrite L1; exact Hi0).
  destruct (nleb ROps ytry _).
  - apply amotry_psi; assumption.
  - destruct (ngeb ROps ytry _); [|exact H1].
    pose proof (amotry_psi ndim s1 ihi (half ROps) Hi1 H1) as H2'.
    pose proof (length_amotry_p ndim s1 ihi (half ROps)) as L2.
    destruct (amotry ROps f s1 ndim ihi (half ROps)) as [s2 ytry2]. cbn [fst] in H2', L2.
    destruct (ngeb ROps ytry2 _); [|exact H2'].
    split; cbn [nm_p nm_psum]; [|reflexivity].
    destruct H2' as [HR2 _]. apply Rect_shrink; [|exact HR2]. unfold row. apply (Rect_nth ndim _ _ HR2). rewrite L2, L1. cbn [s0 nm_p]. lia.
Qed.
End F.

(** the state minimize(pp, func) enters the loop with *)
Lemma initial_psi ndim (pp : list (list R)) y nf tr : Rect ndim pp -> PSI ndim (mkNM pp y (get_psum ROps pp ndim) nf tr).
Proof. intros H. split; [exact H|reflexivity]. Qed.

(** with mpts = ndim + 1 and psum the column sums, (psum[j] - p[ihi][j]) / ndim is the mean of the other ndim vertices *)
Lemma colsum_without p ihi j : (ihi < length p)%nat ->
  colsum p j - nth j (nth ihi p []) 0 = colsum (updv p ihi []) j.
Proof. intros Hi. rewrite colsum_updv by exact Hi. destruct j; cbn [nth]; lra. Qed.

(** the trial point of amotry under the invariant: coordinate j is c_j + fac*(p[ihi][j] - c_j) with c_j the sum of the j-th
    coordinates of the OTHER vertices divided by ndim - their centroid when the simplex has ndim + 1 vertices *)
Theorem amotry_point_centroid (s : @nmst R) ndim ihi fac : (0 < ndim)%nat -> PSI ndim s -> (ihi < length (nm_p s))%nat ->
  amotry_point ROps s ndim ihi fac =
  map (fun j => let c := colsum (updv (nm_p s) ihi []) j / IZR (Z.of_nat ndim) in c + fac * (nth j (nth ihi (nm_p s) []) 0 - c)) (seq 0 ndim).
Proof.
  intros Hn [HR HP] Hi. rewrite (amotry_point_R s ndim ihi fac Hn). rewrite HP, get_psum_R. unfold row.
  pose proof (Rect_nth ndim _ _ HR Hi) as Hl.
  set (F := fun ab : R * R => let c := (fst ab - snd ab) / IZR (Z.of_nat ndim) in c + fac * (snd ab - c)).
  set (G := fun j => let c := colsum (updv (nm_p s) ihi []) j / IZR (Z.of_nat ndim) in c + fac * (nth j (nth ihi (nm_p s) []) 0 - c)).
  assert (L1 : length (map (colsum (nm_p s)) (seq 0 ndim)) = ndim) by (rewrite map_length, seq_length; reflexivity).
  apply (nth_ext _ _ 0 0).
  - rewrite !map_length, combine_length, seq_length, L1. lia.
  - intros j Hj. rewrite map_length, combine_length, L1 in Hj. assert (Hjn : (j < ndim)%nat) by lia.
    rewrite (nth_indep _ 0 (F (0, 0))) by (rewrite map_length, combine_length, L1; lia).
    rewrite (map_nth F). rewrite combine_nth by lia.
    rewrite (nth_indep (map G (seq 0 ndim)) 0 (G 0%nat)) by (rewrite map_length, seq_length; lia).
    rewrite (map_nth G), seq_nth by lia. cbn [Nat.add].
    rewrite (nth_indep (map (colsum (nm_p s)) (seq 0 ndim)) 0 (colsum (nm_p s) 0%nat)) by lia.
    rewrite (map_nth (colsum (nm_p s))), seq_nth by lia. cbn [Nat.add].
    unfold F, G. cbn [fst snd]. rewrite <- (colsum_without (nm_p s) ihi j Hi). reflexivity.
Qed.

(** non-vacuity: the triangle (0,0), (1,0), (0,1) with its column sums (1,1); reflecting vertex 0 gives (1,1) *)
Example ex_reflect : let s := mkNM [[0; 0]; [1; 0]; [0; 1]] [0; 1; 1] (get_psum ROps [[0; 0]; [1; 0]; [0; 1]] 2) 0%Z [] in
  PSI 2 s /\ amotry_point ROps s 2 0 (-1) = [1; 1].
Proof.
  cbv zeta. split.
  - apply initial_psi. repeat constructor.
  - cbn. f_equal; [field|f_equal; field].
Qed.
