(** * C09: Save_Function — the file is an output of the object.
    Save_Function(filename, points) makes the member calls [save_ops N xv points] (C09_Model.v: Interpolate at every point of
    Linear_Space(domain[0], domain[1], points), in order) on the object itself and writes one row (x, Interpolate(x)) per call.
    Here: row number k written after ANY history h is the prefactor of the history (Set_Prefactor / Multiply calls alone) times
    the prefactor-free value of THE segment of the k-th point — whatever the history was and whatever rows were written before it. *)
From Coq Require Import ZArith List Bool Lia.
From LP Require Import Num OrdLaws C09_Model C09_Proofs.
Import ListNotations.
Local Open Scope Z_scope.

Section Save.
Context {T : Type} (Ops : NumOps T) (OL : OrdLaws Ops).
Variable N : Z.
Variable xv : Z -> T.
Hypothesis Hinc : increasing Ops N xv.
Hypothesis HN : size_ok N.
Variable E : evals T.

Lemma nth_traceE ops : forall k st d, (k < length ops)%nat ->
  nth k (traceE Ops N xv E ops st) d = snd (stepE Ops N xv E (runE Ops N xv E (firstn k ops) st) (nth k ops OpCopy)).
Proof.
  unfold traceE, stepE, runE.
  induction ops as [|q r IH]; intros k st d Hk; [cbn in Hk; lia|].
  destruct k as [|k]; [reflexivity|].
  cbn [trace nth firstn]. rewrite run_cons. apply IH. cbn in Hk. lia.
Qed.

Lemma runE_app h1 h2 st : runE Ops N xv E (h1 ++ h2) st = runE Ops N xv E h2 (runE Ops N xv E h1 st).
Proof. unfold runE, run. apply fold_left_app. Qed.

Lemma prefactor_after_interpolates l : forall p,
  prefactor_after Ops (map (fun x => OpInterpolate x) l) p = p.
Proof. induction l as [|x l IH]; intros p; [reflexivity|]. cbn. apply IH. Qed.

Lemma prefactor_after_app h1 h2 p :
  prefactor_after Ops (h1 ++ h2) p = prefactor_after Ops h2 (prefactor_after Ops h1 p).
Proof. unfold prefactor_after. apply fold_left_app. Qed.

(** rows of an arbitrary list of arguments *)
Theorem rows_after_history h (pts : list T) k x0 : (k < length pts)%nat ->
  let x := nth k pts x0 in
  nisnan Ops x = false -> in_domain Ops N xv x ->
  exists j, nth k (traceE Ops N xv E (map (fun x => OpInterpolate x) pts) (runE Ops N xv E h (init Ops))) ONone =
              OValue [j] (nmul Ops (prefactor_after Ops h (n1 Ops)) (ev_seg E j x)) /\
            canon Ops N xv x j.
Proof.
  intros Hk x Hnn Hd.
  rewrite nth_traceE by (rewrite map_length; exact Hk).
  rewrite <- runE_app, firstn_map.
  assert (Hn : nth k (map (fun x1 => OpInterpolate x1) pts) (@OpCopy T) = OpInterpolate x).
  { rewrite (nth_indep _ _ (OpInterpolate x0)) by (rewrite map_length; exact Hk).
    apply (map_nth (fun x1 => OpInterpolate x1)). }
  rewrite Hn.
  destruct (interpolate_after_history Ops OL N xv Hinc HN (ev_seg E) (ev_deriv E) (ev_integ E) (ev_ext E) (ev_glob E)
              (h ++ map (fun x1 => OpInterpolate x1) (firstn k pts)) x Hnn Hd) as (j & Hj & Hc).
  exists j. split; [|exact Hc].
  unfold stepE, runE. rewrite Hj. rewrite prefactor_after_app, prefactor_after_interpolates. reflexivity.
Qed.

(** Save_Function itself: the points are those of Linear_Space over the domain *)
Theorem save_function_rows h (points : Z) k x0 :
  let pts := linear_space Ops (xv 0) (xv (N - 1)) points in
  (k < length pts)%nat ->
  let x := nth k pts x0 in
  nisnan Ops x = false -> in_domain Ops N xv x ->
  exists j, nth k (traceE Ops N xv E (save_ops Ops N xv points) (runE Ops N xv E h (init Ops))) ONone =
              OValue [j] (nmul Ops (prefactor_after Ops h (n1 Ops)) (ev_seg E j x)) /\
            canon Ops N xv x j.
Proof. intros pts Hk x. unfold save_ops. fold pts. apply rows_after_history. exact Hk. Qed.

(** the object Save_Function leaves behind still carries the prefactor of the history: writing a file changes no later output *)
Theorem save_function_keeps_prefactor h points :
  prefactor (runE Ops N xv E (h ++ save_ops Ops N xv points) (init Ops)) = prefactor_after Ops h (n1 Ops).
Proof.
  unfold runE. rewrite (prefactor_run Ops OL N xv Hinc HN) by (apply inv_fresh; exact HN).
  unfold save_ops. rewrite prefactor_after_app, prefactor_after_interpolates. reflexivity.
Qed.
End Save.

(** non-vacuity on the integer instance of C09_Proofs.v (table 0, 10, .., 390; the history leaves jLast 7, correlated, prefactor -6):
    Save_Function(file, 40) evaluates at the 40 knots (step (390 - 0) / (40 - 1) = 10); row 3 holds -6 * (100 * 3 + 30) *)
Example ex_save_rows :
  linear_space ZOps (ex_xv 0) (ex_xv 39) 40 = map (fun i => 10 * i) (map Z.of_nat (seq 0 40)) /\
  nth 3 (traceE ZOps 40 ex_xv ex_evals (save_ops ZOps 40 ex_xv 40) (runE ZOps 40 ex_xv ex_evals ex_history (init ZOps))) ONone =
    OValue [3] (-6 * (100 * 3 + 30)) /\
  length (save_ops ZOps 40 ex_xv 1) = 1%nat /\
  length (save_ops2 ZOps 40 ex_xv 40 ex_xv 3 0) = 9%nat.
Proof. vm_compute. repeat split; reflexivity. Qed.
