(** * C18 proofs, part 6 (reals): Find_Root / Inverse_Transform_Sampling / Inv_Erf stay inside the bracket they are given,
    for EVERY function (monotone or not, continuous or not) -- the clause "returns values inside the requested domain"
    for Inverse_Transform_Sampling, and the truncation of Sample_Gauss at 10 sqrt(2) standard deviations;
    containment at every position of every history; a concrete history (non-vacuity). *)
From Coq Require Import ZArith List Bool Lia Arith Reals Lra Psatz.
From LP Require Import Num NumR C18_Model C18_Proofs C18_Proofs_R C18_Proofs_Hist.
Import ListNotations.
Local Open Scope R_scope.

Lemma nmax_R a b : nmax ROps a b = Rmax a b.
Proof. unfold nmax; cbn. unfold Rmax. destruct (Rltb_spec a b), (Rle_dec a b); try reflexivity; lra. Qed.

(** std::max(std::min(x1, x2), std::min(std::max(x1, x2), x)) lies between x1 and x2, whatever x is *)
Lemma clamp_in x1 x2 x lo hi : lo <= x1 <= hi -> lo <= x2 <= hi ->
  lo <= nmax ROps (nmin ROps x1 x2) (nmin ROps (nmax ROps x1 x2) x) <= hi.
Proof.
  intros H1 H2. rewrite !nmax_R, !nmin_R.
  assert (Hm : lo <= Rmin x1 x2 <= hi) by (unfold Rmin; destruct (Rle_dec x1 x2); lra).
  assert (HM : Rmax x1 x2 <= hi) by (unfold Rmax; destruct (Rle_dec x1 x2); lra).
  assert (Hz : Rmin (Rmax x1 x2) x <= hi) by (pose proof (Rmin_l (Rmax x1 x2) x); lra).
  split; [pose proof (Rmax_l (Rmin x1 x2) (Rmin (Rmax x1 x2) x)); lra|apply Rmax_lub; lra].
Qed.

Ltac dif H := match type of H with context [if ?c then _ else _] => destruct c eqn:?; cbv iota beta in H end.

Lemma ridder_in_bracket f acc lo hi : forall fuel x1 x2 f1 f2 result v,
  lo <= x1 <= hi -> lo <= x2 <= hi -> (fuel <> O \/ lo <= result <= hi) ->
  ridder ROps f acc fuel x1 x2 f1 f2 result = Ok v -> lo <= v <= hi.
Proof.
  induction fuel as [|fuel IH]; intros x1 x2 f1 f2 result v H1 H2 Hr H.
  - cbn in H. inversion H; subst. destruct Hr as [Hr|Hr]; [congruence|exact Hr].
  - cbn [ridder] in H.
    match type of H with context [nmax ROps (nmin ROps x1 x2) (nmin ROps (nmax ROps x1 x2) ?z)] =>
      set (x4 := nmax ROps (nmin ROps x1 x2) (nmin ROps (nmax ROps x1 x2) z)) in * end.
    assert (H4 : lo <= x4 <= hi) by (apply clamp_in; assumption).
    set (x3 := nadd ROps (nmul ROps (ndec ROps 1 2) x1) (nmul ROps (ndec ROps 1 2) x2)) in *.
    assert (H3 : lo <= x3 <= hi).
    { unfold x3, ndec. cbn [nadd nmul ndiv nofZ ROps]. lra. }
    clearbody x4 x3.
    dif H; [inversion H; subst; exact H4|].
    dif H; [dif H; [inversion H; subst; exact H4|eapply IH; [| |right; exact H4|exact H]; assumption]|].
    dif H; [dif H; [inversion H; subst; exact H4|eapply IH; [| |right; exact H4|exact H]; assumption]|].
    dif H; [dif H; [inversion H; subst; exact H4|eapply IH; [| |right; exact H4|exact H]; assumption]|].
    discriminate H.
Qed.

(** Find_Root returns a point between the two limits it was given (in either order) *)
Theorem find_root_in_range f a b acc v : find_root ROps f a b acc = Ok v -> Rmin a b <= v <= Rmax a b.
Proof.
  unfold find_root. intros H.
  assert (Hab : Rmin a b <= a <= Rmax a b /\ Rmin a b <= b <= Rmax a b).
  { unfold Rmin, Rmax. destruct (Rle_dec a b); lra. }
  destruct Hab as [Ha Hb].
  destruct (ngtb ROps a b).
  - dif H; [discriminate H|]. dif H.
    + dif H; [inversion H; subst; exact Hb|]. dif H; [inversion H; subst; exact Ha|discriminate H].
    + eapply ridder_in_bracket; [exact Hb|exact Ha| |exact H]. left. lia.
  - dif H; [discriminate H|]. dif H.
    + dif H; [inversion H; subst; exact Ha|]. dif H; [inversion H; subst; exact Hb|discriminate H].
    + eapply ridder_in_bracket; [exact Ha|exact Hb| |exact H]. left. lia.
Qed.

(** Inverse_Transform_Sampling returns a point of [xMin, xMax] -- for every cdf and every generator state *)
Theorem inverse_transform_in_range cdf a b us v r :
  inverse_transform ROps cdf a b us = Ok (v, r) -> Rmin a b <= v <= Rmax a b.
Proof.
  intros H. apply inverse_transform_inv in H. destruct H as (u & _ & H). eapply find_root_in_range; exact H.
Qed.

(** Inv_Erf returns a value in [-10, 10] *)
Theorem inv_erf_in_range p e : inv_erf ROps p = Ok e -> -10 <= e <= 10.
Proof.
  unfold inv_erf. intros H.
  dif H; [inversion H; subst; cbn; lra|].
  dif H; [inversion H; subst; cbn; lra|].
  dif H; [discriminate H|].
  apply find_root_in_range in H. cbn [nneg nofZ ROps] in H. unfold Rmin, Rmax in H.
  destruct (Rle_dec (- IZR 10) (IZR 10)); lra.
Qed.

(** Sample_Gauss is truncated: |x - mean| <= 10 sqrt(2) sd (the Gaussian law itself has no such bound; the mass outside is
    erfc(10) ~ 2e-45) *)
Theorem sample_gauss_truncated mean sd us v r : 0 <= sd ->
  sample_gauss ROps mean sd us = Ok (v, r) -> Rabs (v - mean) <= 10 * (sqrt 2 * sd).
Proof.
  intros Hsd H. apply sample_gauss_inv in H. destruct H as (u & _ & H).
  unfold gauss_of, quantile_gauss in H. destruct (inv_erf ROps _) as [e| | |] eqn:E; try discriminate H.
  cbn [rbind] in H. inversion H; subst. apply inv_erf_in_range in E.
  cbn [nadd nmul nsqrt nofZ ROps].
  replace (mean + sqrt (IZR 2) * sd * e - mean) with (e * (sqrt 2 * sd)) by ring.
  assert (0 <= sqrt 2 * sd) by (apply Rmult_le_pos; [apply sqrt_pos|exact Hsd]).
  apply Rabs_le. split; nra.
Qed.

(** containment at every position of every history: an inverse-transform call anywhere in any interleaving returns a point
    of its interval *)
Theorem history_inverse_transform_in_range cs : forall j us outs r cdf a b,
  nth_error cs j = Some (CInvT cdf a b) -> run_calls ROps cs us = Ok (outs, r) ->
  exists x, nth_error outs j = Some (AReal x) /\ Rmin a b <= x <= Rmax a b.
Proof.
  induction cs as [|c cs IH]; intros j us outs r cdf a b Hn H.
  - destruct j; discriminate.
  - apply run_calls_cons in H. destruct H as (a0 & r1 & l & Hc & Hl & ->). destruct j as [|j].
    + cbn in Hn. inversion Hn; subst. cbn [run_call] in Hc. apply ans_inv in Hc. destruct Hc as (v & Hv & ->).
      exists v. split; [reflexivity|]. eapply inverse_transform_in_range; exact Hv.
    + cbn in Hn |- *. eapply IH; eauto.
Qed.

(** a bounded Metropolis call anywhere in any interleaving returns points of its domain *)
Theorem history_metropolis_in_domain cs : forall j us outs r PDF sigma sample thin burn lo hi,
  nth_error cs j = Some (CMetro PDF sigma sample thin burn [lo; hi]) -> lo <= hi ->
  Forall (fun u => 0 <= u < 1) us -> run_calls ROps cs us = Ok (outs, r) ->
  exists l, nth_error outs j = Some (AReals l) /\ Forall (fun z => lo <= z <= hi) l.
Proof.
  induction cs as [|c cs IH]; intros j us outs r PDF sigma sample thin burn lo hi Hn Hlh Hus H.
  - destruct j; discriminate.
  - apply run_calls_cons in H. destruct H as (a0 & r1 & l & Hc & Hl & ->). destruct j as [|j].
    + cbn in Hn. inversion Hn; subst. cbn [run_call] in Hc. apply ans_inv in Hc. destruct Hc as (v & Hv & ->).
      exists v. split; [reflexivity|]. eapply metropolis_in_domain; eauto.
    + assert (Hr1 : Forall (fun u => 0 <= u < 1) r1).
      { apply run_call_cost in Hc. destruct Hc as (n & _ & pre & E & _). rewrite E in Hus. apply Forall_app in Hus. apply Hus. }
      cbn in Hn |- *. eapply IH; eauto.
Qed.

(** non-vacuity: three different samplers interleaved on one stream of four uniforms *)
Example history_ex :
  run_calls ROps [CUniform (-1) 3; CRej (fun x => 2 * x) 0 1 2; CMetro (fun x => x) 1 0 1 0 [0; 1]] [/2; /2; /4; /2]
  = Ok ([AReal 1; AReal (/2); AReals []], []).
Proof.
  cbn [run_calls run_call].
  replace (sample_uniform ROps (-1) 3 [/2; /2; /4; /2]) with (Ok (1, [/2; /4; /2]) : res (R * list R)).
  2:{ unfold sample_uniform. rewrite unif_R. do 2 f_equal. lra. }
  cbn [ans].
  replace (rejection_sampling ROps (fun x => 2 * x) 0 1 2 [/2; /4; /2]) with (Ok (/2, [/2]) : res (R * list R)).
  2:{ symmetry. unfold rejection_sampling. simpl rejection_loop. unfold unif, ngtb.
      cbn [nadd nsub nmul ndiv nltb nleb nisnan n0 n1 ROps].
      replace (/ 2 * (1 - 0) + 0) with (/2) by lra.
      destruct (Rltb_spec (2 * / 2) 0); [lra|]. simpl orb.
      destruct (Rltb_spec 2 (2 * / 2)); [lra|]. simpl andb.
      destruct (Rleb_spec (/ 4 * (2 - 0) + 0) (2 * / 2)); [reflexivity|lra]. }
  cbn [ans]. rewrite metropolis_ex. reflexivity.
Qed.
