(** * OrdLaws: the only facts about the number type used by the order-theoretic theorems.

    Theorems proved from [OrdLaws Ops] alone use no law of arithmetic (the arithmetic operations of
    [Ops] stay uninterpreted), so they hold verbatim for IEEE-754 doubles restricted to non-NaN values,
    rounding included.  [ROps_OrdLaws] shows the laws are satisfiable (by the reals). *)
From Coq Require Import Reals Bool Lra.
From LP Require Import Num NumR.

Record OrdLaws {T : Type} (Ops : NumOps T) : Prop := {
  ol_irrefl : forall x, nltb Ops x x = false;
  ol_trans : forall x y z, nltb Ops x y = true -> nltb Ops y z = true -> nltb Ops x z = true;
  ol_total : forall x y, nltb Ops x y = true \/ neqb Ops x y = true \/ nltb Ops y x = true;
  ol_le : forall x y, nleb Ops x y = negb (nltb Ops y x);
  ol_eq : forall x y, neqb Ops x y = true <-> (nltb Ops x y = false /\ nltb Ops y x = false);
  ol_eq_lt_l : forall x y z, neqb Ops x y = true -> nltb Ops x z = nltb Ops y z;
  ol_eq_lt_r : forall x y z, neqb Ops x y = true -> nltb Ops z x = nltb Ops z y
}.

Lemma ROps_OrdLaws : OrdLaws ROps.
Proof.
  constructor; cbn; intros.
  - apply Rltb_false; lra.
  - apply Rltb_true. apply Rltb_true in H, H0. lra.
  - destruct (Rtotal_order x y) as [H|[H|H]].
    + left; now apply Rltb_true.
    + right; left; now apply Reqb_true.
    + right; right; now apply Rltb_true.
  - destruct (Rleb_spec x y), (Rltb_spec y x); simpl; try reflexivity; lra.
  - split.
    + intros H; apply Reqb_true in H; subst; split; apply Rltb_false; lra.
    + intros [H1 H2]. apply Rltb_false in H1, H2. apply Reqb_true. lra.
  - apply Reqb_true in H; now subst.
  - apply Reqb_true in H; now subst.
Qed.
