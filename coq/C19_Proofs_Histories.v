(** * C19 proofs: (1) the two orientations of Linear_Space / Log_Space are mirror images of each other;
    (2) object histories: any sequence of Arithmetic_Mean / Variance / Standard_Deviation / Median calls on one vector
    (Median reorders the vector it is handed) answers every call as on the original data. *)
From Coq Require Import ZArith List Bool Lia Arith Reals Lra Sorting.Permutation Sorting.Sorted.
From LP Require Import Num NumR C19_Model C19_Proofs_Stats.
Import ListNotations.
Local Open Scope R_scope.

(** ** 1. Either orientation *)
Lemma map_seq_rev (f g : nat -> R) (n : nat) :
  (forall k, (k < n)%nat -> f k = g (n - 1 - k)%nat) ->
  map f (seq 0 n) = rev (map g (seq 0 n)).
Proof.
  intros H. apply (nth_ext _ _ 0 0).
  - now rewrite rev_length, !map_length.
  - intros k Hk. rewrite map_length, seq_length in Hk.
    rewrite rev_nth by (now rewrite map_length, seq_length).
    rewrite map_length, seq_length.
    rewrite (nth_map_seq f) by assumption. rewrite (nth_map_seq g) by lia.
    rewrite H by assumption. f_equal. lia.
Qed.

Theorem linear_space_reverse (mn mx : R) (steps : nat) : (2 <= steps)%nat ->
  linear_space ROps mx mn steps = rev (linear_space ROps mn mx steps).
Proof.
  intros Hs. destruct (Req_dec mn mx) as [->|Hne].
  - rewrite linear_space_degenerate by now right. reflexivity.
  - rewrite !linear_space_eq by (assumption || now apply not_eq_sym).
    apply map_seq_rev. intros k Hk. pose proof (INR_steps_m1_pos steps Hs).
    replace (steps - 1 - k)%nat with (steps - S k)%nat by lia.
    rewrite minus_INR by lia. rewrite S_INR. field. lra.
Qed.

Theorem log_space_reverse (mn mx : R) (steps : nat) : (2 <= steps)%nat ->
  log_space ROps mx mn steps = rev (log_space ROps mn mx steps).
Proof.
  intros Hs. destruct (Req_dec mn mx) as [->|Hne].
  - rewrite log_space_degenerate by now right. reflexivity.
  - rewrite !log_space_eq by (assumption || now apply not_eq_sym).
    apply map_seq_rev. intros k Hk. pose proof (INR_steps_m1_pos steps Hs).
    replace (steps - 1 - k)%nat with (steps - S k)%nat by lia.
    rewrite minus_INR by lia. rewrite S_INR. f_equal. field. lra.
Qed.

Example grid_reverse_ex : linear_space ROps 3 1 3 = rev (linear_space ROps 1 3 3) /\ (2 <= 3)%nat.
Proof. split; [apply linear_space_reverse|]; lia. Qed.

(** ** 2. Object histories *)
Lemma stat_answer_perm (o : stat_op) (l l' : list R) :
  Permutation l l' -> stat_answer ROps o l = stat_answer ROps o l'.
Proof.
  intros H. destruct o; cbn [stat_answer].
  - now apply mean_perm.
  - now apply variance_perm.
  - now apply stddev_perm.
  - now apply median_perm.
Qed.

Lemma stat_step_inv (l0 : list R) (st : list R * list R) (o : stat_op) :
  Permutation (fst st) l0 ->
  Permutation (fst (stat_step ROps st o)) l0 /\
  length (fst (stat_step ROps st o)) = length (fst st) /\
  snd (stat_step ROps st o) = snd st ++ [stat_answer ROps o l0].
Proof.
  destruct st as [l outs]. cbn [fst snd]. intros HP.
  destruct o; cbn [stat_step median_state fst snd].
  - repeat split; [assumption|]. f_equal. f_equal. now apply stat_answer_perm.
  - repeat split; [assumption|]. f_equal. f_equal. now apply stat_answer_perm.
  - repeat split; [assumption|]. f_equal. f_equal. now apply stat_answer_perm.
  - split; [|split].
    + eapply Permutation_trans; [apply sort_list_perm|assumption].
    + apply sort_list_length.
    + f_equal. f_equal. now apply (stat_answer_perm OpMedian).
Qed.

Lemma stat_fold_inv (l0 : list R) (ops : list stat_op) (st : list R * list R) :
  Permutation (fst st) l0 ->
  Permutation (fst (fold_left (stat_step ROps) ops st)) l0 /\
  snd (fold_left (stat_step ROps) ops st) = snd st ++ map (fun o => stat_answer ROps o l0) ops.
Proof.
  revert st. induction ops as [|o ops IH]; intros st HP.
  - cbn. split; [assumption|]. now rewrite app_nil_r.
  - cbn [fold_left map]. destruct (stat_step_inv l0 st o HP) as [H1 [_ H3]].
    destruct (IH _ H1) as [I1 I2]. split; [assumption|].
    rewrite I2, H3, <- app_assoc. reflexivity.
Qed.

(** every call of a history answers as the same call on the original data; the vector stays a permutation of them *)
Theorem stat_history_spec (l : list R) (ops : list stat_op) :
  Permutation (fst (stat_history ROps l ops)) l /\
  snd (stat_history ROps l ops) = map (fun o => stat_answer ROps o l) ops.
Proof.
  unfold stat_history. destruct (stat_fold_inv l ops (l, [])) as [H1 H2]; [apply Permutation_refl|].
  split; [assumption|]. rewrite H2. reflexivity.
Qed.

(** the state after a history: untouched while no Median was called, the sorted data afterwards (in the model; on the C++ side
    some permutation with the requested order statistics in place) *)
Theorem stat_history_state (l : list R) (ops : list stat_op) :
  fst (stat_history ROps l ops) = if existsb (fun o => match o with OpMedian => true | _ => false end) ops
                                  then sort_list ROps l else l.
Proof.
  unfold stat_history.
  assert (G : forall ops st, Permutation (fst st) l ->
             fst (fold_left (stat_step ROps) ops st)
             = if existsb (fun o => match o with OpMedian => true | _ => false end) ops then sort_list ROps l else fst st).
  { induction ops0 as [|o ops0 IH]; intros [l1 outs] HP; [reflexivity|].
    cbn [fold_left existsb]. destruct (stat_step_inv l (l1, outs) o HP) as [H1 _].
    rewrite IH by assumption. destruct o; cbn [stat_step median_state fst orb]; try reflexivity.
    cbn [fst] in HP. rewrite (sort_list_perm_invariant _ _ HP).
    destruct (existsb _ ops0); reflexivity. }
  apply (G ops (l, [])). apply Permutation_refl.
Qed.

(** two histories on the same data: a call answers the same whatever was called before it *)
Theorem stat_history_independent (l : list R) (h h' : list stat_op) (o : stat_op) :
  last (snd (stat_history ROps l (h ++ [o]))) 0 = last (snd (stat_history ROps l (h' ++ [o]))) 0.
Proof.
  destruct (stat_history_spec l (h ++ [o])) as [_ ->]. destruct (stat_history_spec l (h' ++ [o])) as [_ ->].
  rewrite !map_app. cbn [map]. now rewrite !last_last.
Qed.

Example stat_history_ex :
  snd (stat_history ROps [3; 1; 2] [OpMedian; OpMean; OpMedian; OpVariance])
  = [median ROps [3; 1; 2]; arithmetic_mean ROps [3; 1; 2]; median ROps [3; 1; 2]; variance ROps [3; 1; 2]].
Proof. now destruct (stat_history_spec [3; 1; 2] [OpMedian; OpMean; OpMedian; OpVariance]) as [_ ->]. Qed.

(** ** 3. Location statistics stay inside the range of the data *)
Theorem mean_between (lo hi : R) (l : list R) :
  l <> [] -> (forall x, In x l -> lo <= x <= hi) -> lo <= arithmetic_mean ROps l <= hi.
Proof.
  intros Hl H. rewrite mean_R. pose proof (INR_length_pos l Hl) as HN.
  assert (B : lo * INR (length l) <= Rsum l <= hi * INR (length l)).
  { clear Hl HN. induction l as [|x l IH].
    - unfold Rsum; simpl. lra.
    - destruct IH as [I1 I2]; [intros y Hy; apply H; now right|].
      destruct (H x (or_introl eq_refl)). change (length (x :: l)) with (S (length l)). rewrite S_INR.
      unfold Rsum in *. cbn [fold_right]. lra. }
  destruct B as [B1 B2]. split.
  - apply Rmult_le_reg_r with (INR (length l)); [assumption|]. unfold Rdiv. rewrite Rmult_assoc, Rinv_l by lra. lra.
  - apply Rmult_le_reg_r with (INR (length l)); [assumption|]. unfold Rdiv. rewrite Rmult_assoc, Rinv_l by lra. lra.
Qed.

Lemma sort_list_nth_In (l : list R) (k : nat) : (k < length l)%nat -> In (nth k (sort_list ROps l) 0) l.
Proof.
  intros Hk. apply (Permutation_in _ (sort_list_perm l)). apply nth_In. now rewrite sort_list_length.
Qed.

(** an odd number of data: the median is one of them, with as many data <= it as >= it (the middle order statistic) *)
Theorem median_odd_is_datum (l : list R) : Nat.even (length l) = false ->
  In (median ROps l) l /\ median ROps l = nth (length l / 2) (sort_list ROps l) 0.
Proof.
  intros Ev. rewrite median_R, Ev. split; [|reflexivity].
  apply sort_list_nth_In. destruct l; [discriminate Ev|]. apply Nat.div_lt; simpl; lia.
Qed.

Theorem median_between (lo hi : R) (l : list R) :
  l <> [] -> (forall x, In x l -> lo <= x <= hi) -> lo <= median ROps l <= hi.
Proof.
  intros Hl H. rewrite median_R.
  assert (Hn : (1 <= length l)%nat) by (destruct l; [congruence|simpl; lia]).
  destruct (even_half_bounds _ Hn) as [H1 H2].
  destruct (Nat.even (length l)) eqn:Ev.
  - pose proof (H _ (sort_list_nth_In l _ (H2 eq_refl))). pose proof (H _ (sort_list_nth_In l _ H1)). lra.
  - apply H, sort_list_nth_In, H1.
Qed.

Example location_between_ex : [4; 1; 3] <> ([] : list R) /\ (forall x, In x [4; 1; 3] -> 1 <= x <= 4).
Proof. split; [discriminate|]. intros x [<-|[<-|[<-|[]]]]; lra. Qed.
