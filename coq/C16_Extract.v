From Coq Require Import Extraction ExtrOcamlBasic ZArith List.
From LP Require Import Num C16_Model C16_Model2.
Extraction Language OCaml.
Extraction "C16_m.ml" vdot dot vnorm vnormalized cross mmul mvec rotation_matrix spherical spherical_axis angle vstep_apply vhistory mstep_apply mhistory vecm rotation_of_object spherical_of_object call_answer calls_run midentity angle_sum rot_chain mtrace mdet rot_chain_det_trace rotation_det_trace mtranspose msquare minvertible minverse meqb morthogonal mnorm rotation_inverse  Z.of_nat Z.to_nat.
