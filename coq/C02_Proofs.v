(** * C02 proofs: Find_Root (Ridder's method), over the real-number instance [ROps]
    (and one theorem over an arbitrary instance, for the NaN guard). *)
From Coq Require Import Reals ZArith Lra Lia List Psatz Bool.
From LP Require Import Num NumR C02_Model.
Import ListNotations.
Local Open Scope R_scope.

(** ** Sign(double) and Sign(double,double) on the reals *)
Lemma sign1_cases x :
  (0 < x /\ sign1 ROps x = 1%Z) \/ (x = 0 /\ sign1 ROps x = 0%Z) \/ (x < 0 /\ sign1 ROps x = (-1)%Z).
Proof.
  unfold sign1, ngtb. cbn.
  destruct (Rltb_spec 0 x); [left; auto|].
  destruct (Reqb_spec x 0); [right; left; auto|right; right; split; [lra|auto]].
Qed.

Lemma nneb_sign2_true a b : b <> 0 -> nneb ROps (sign2 ROps a b) a = true -> a * b < 0.
Proof.
  intros Hb. unfold nneb, sign2. destruct (Z.eqb _ _) eqn:E; cbn.
  - destruct (Reqb_spec a a); [discriminate|congruence].
  - apply Z.eqb_neq in E. destruct (Reqb_spec (- (1) * a) a) as [|Ha]; [discriminate|]. intros _.
    destruct (sign1_cases a) as [[A1 A2]|[[A1 A2]|[A1 A2]]], (sign1_cases b) as [[B1 B2]|[[B1 B2]|[B1 B2]]];
      rewrite A2, B2 in E; try congruence; try lra; nra.
Qed.

Lemma nneb_sign2_false a b : a <> 0 -> b <> 0 -> nneb ROps (sign2 ROps a b) a = false -> 0 < a * b.
Proof.
  intros Ha Hb. unfold nneb, sign2. destruct (Z.eqb _ _) eqn:E; cbn.
  - apply Z.eqb_eq in E. intros _.
    destruct (sign1_cases a) as [[A1 A2]|[[A1 A2]|[A1 A2]]], (sign1_cases b) as [[B1 B2]|[[B1 B2]|[B1 B2]]];
      rewrite A2, B2 in E; try discriminate; try lra; nra.
  - destruct (Reqb_spec (- (1) * a) a) as [H|H]; [|discriminate]. exfalso. lra.
Qed.

(** the sign test of the bracket ends: Sign(fl) * Sign(fr) >= 0 is fl * fr >= 0, without forming the product *)
Lemma sign_prod_geb a b : (sign1 ROps a * sign1 ROps b >=? 0)%Z = Rleb 0 (a * b).
Proof.
  destruct (sign1_cases a) as [[A1 A2]|[[A1 A2]|[A1 A2]]], (sign1_cases b) as [[B1 B2]|[[B1 B2]|[B1 B2]]];
    rewrite A2, B2; cbn; destruct (Rleb_spec 0 (a * b)); try reflexivity; exfalso; subst; nra.
Qed.

(** scaling the three function values by a positive number changes neither the sign of f1 - f2 nor the ratio
    f3 / sqrt(f3^2 - f1 f2): the scaled step of the source is Ridder's step *)
Lemma sign1_scaled x sc : 0 < sc -> sign1 ROps (x / sc) = sign1 ROps x.
Proof.
  intros Hs. assert (0 < / sc) by (apply Rinv_0_lt_compat; exact Hs).
  destruct (sign1_cases x) as [[A1 A2]|[[A1 A2]|[A1 A2]]], (sign1_cases (x / sc)) as [[B1 B2]|[[B1 B2]|[B1 B2]]];
    rewrite A2, B2; try reflexivity; exfalso; unfold Rdiv in *; subst; nra.
Qed.
Lemma ratio_scaled f1 f2 f3 sc : 0 < sc -> f1 * f2 < 0 ->
  f3 / sc / sqrt (f3 / sc * (f3 / sc) - f1 / sc * (f2 / sc)) = f3 / sqrt (f3 * f3 - f1 * f2).
Proof.
  intros Hs H12.
  assert (P : 0 < f3 * f3 - f1 * f2) by nra.
  replace (f3 / sc * (f3 / sc) - f1 / sc * (f2 / sc)) with ((f3 * f3 - f1 * f2) / (sc * sc)) by (field; lra).
  rewrite sqrt_div_alt by nra. rewrite sqrt_square by lra.
  assert (0 < sqrt (f3 * f3 - f1 * f2)) by (apply sqrt_lt_R0; exact P).
  field. split; lra.
Qed.
Lemma scale_pos f1 f2 f3 : f1 * f2 < 0 -> 0 < nmax ROps (Rabs f3) (nmax ROps (Rabs f1) (Rabs f2)).
Proof.
  intros H. assert (0 < Rabs f1) by (apply Rabs_pos_lt; intros Z; rewrite Z in H; lra).
  pose proof (Rabs_pos f2). pose proof (Rabs_pos f3).
  unfold nmax. cbn [nltb ROps]. destruct (Rltb_spec (Rabs f1) (Rabs f2)); match goal with |- context [Rltb ?a ?b] => destruct (Rltb_spec a b) end; lra.
Qed.

(** ** Geometry of one Ridder step *)
Lemma ridder_ratio a b c : a * b < 0 -> Rabs (c / sqrt (c * c - a * b)) < 1.
Proof.
  intros H. set (D := c * c - a * b). assert (HD : 0 < D) by (unfold D; nra).
  assert (Hs : 0 < sqrt D) by (apply sqrt_lt_R0; exact HD).
  unfold Rdiv. rewrite Rabs_mult, Rabs_inv. rewrite (Rabs_pos_eq (sqrt D)) by lra.
  apply Rmult_lt_reg_r with (sqrt D); [exact Hs|]. rewrite Rmult_assoc, Rinv_l by lra. rewrite Rmult_1_r, Rmult_1_l.
  rewrite <- sqrt_Rsqr_abs. apply sqrt_lt_1; unfold Rsqr, D; nra.
Qed.

(** x4 = x3 + (x3 - x1) * t with t = Sign(f1-f2) * f3/sqrt(f3^2 - f1 f2) in (-1,1), and t has the sign of f1*f3 *)
Lemma ridder_t x1 x2 f1 f2 f3 : f1 * f2 < 0 ->
  let x3 := (x1 + x2) / 2 in
  let x4 := x3 + (x3 - x1) * IZR (sign1 ROps (f1 - f2)) * f3 / sqrt (f3 * f3 - f1 * f2) in
  exists t, x4 = x3 + (x3 - x1) * t /\ -1 < t < 1 /\ (f1 * f3 < 0 -> t < 0) /\ (0 < f1 * f3 -> 0 < t) /\ (f3 = 0 -> t = 0).
Proof.
  intros H x3 x4.
  pose proof (ridder_ratio f1 f2 f3 H) as R. apply Rabs_def2 in R.
  assert (HD : 0 < sqrt (f3 * f3 - f1 * f2)) by (apply sqrt_lt_R0; nra).
  set (q := / sqrt (f3 * f3 - f1 * f2)) in *.
  assert (Hq : 0 < q) by (apply Rinv_0_lt_compat; exact HD).
  unfold Rdiv in R. fold q in R.
  assert (Sg : (IZR (sign1 ROps (f1 - f2)) = 1 /\ 0 < f1) \/ (IZR (sign1 ROps (f1 - f2)) = -1 /\ f1 < 0)).
  { destruct (sign1_cases (f1 - f2)) as [[A1 A2]|[[A1 A2]|[A1 A2]]]; rewrite A2.
    - left. split; [reflexivity|nra].
    - exfalso. nra.
    - right. split; [reflexivity|nra]. }
  exists (IZR (sign1 ROps (f1 - f2)) * (f3 * q)).
  split; [unfold x4, Rdiv; fold q; ring|].
  assert (Hq3 : forall y, 0 < y * f3 -> 0 < y * (f3 * q)).
  { intros y Hy. replace (y * (f3 * q)) with ((y * f3) * q) by ring. apply Rmult_lt_0_compat; assumption. }
  destruct Sg as [[-> Hf]|[-> Hf]].
  - split; [lra|]. split; [|split].
    + intros Hn. specialize (Hq3 (-1)). nra.
    + intros Hp. specialize (Hq3 1). nra.
    + intros ->. ring.
  - split; [lra|]. split; [|split].
    + intros Hn. specialize (Hq3 1). nra.
    + intros Hp. specialize (Hq3 (-1)). nra.
    + intros ->. ring.
Qed.

Ltac mm := unfold Rmin, Rmax, Rabs in *;
  repeat match goal with
         | |- context [Rle_dec ?a ?b] => destruct (Rle_dec a b)
         | |- context [Rcase_abs ?a] => destruct (Rcase_abs a)
         end.
Lemma geom_in x1 x2 t : -1 < t < 1 -> let x3 := (x1 + x2) / 2 in let x4 := x3 + (x3 - x1) * t in
  Rmin x1 x2 <= x3 <= Rmax x1 x2 /\ Rmin x1 x2 <= x4 <= Rmax x1 x2.
Proof. intros H x3 x4. unfold x4, x3. mm; nra. Qed.
Lemma geom_a x1 x2 t : -1 < t < 1 -> let x3 := (x1 + x2) / 2 in let x4 := x3 + (x3 - x1) * t in
  Rmin x1 x2 <= Rmin x3 x4 /\ Rmax x3 x4 <= Rmax x1 x2 /\ Rabs (x4 - x3) <= Rabs (x2 - x1) / 2.
Proof. intros H x3 x4. unfold x4, x3. mm; repeat split; nra. Qed.
Lemma geom_b x1 x2 t : -1 < t < 0 -> let x3 := (x1 + x2) / 2 in let x4 := x3 + (x3 - x1) * t in
  Rmin x1 x2 <= Rmin x1 x4 /\ Rmax x1 x4 <= Rmax x1 x2 /\ Rabs (x4 - x1) <= Rabs (x2 - x1) / 2.
Proof. intros H x3 x4. unfold x4, x3. mm; repeat split; nra. Qed.
Lemma geom_c x1 x2 t : 0 < t < 1 -> let x3 := (x1 + x2) / 2 in let x4 := x3 + (x3 - x1) * t in
  Rmin x1 x2 <= Rmin x4 x2 /\ Rmax x4 x2 <= Rmax x1 x2 /\ Rabs (x2 - x4) <= Rabs (x2 - x1) / 2.
Proof. intros H x3 x4. unfold x4, x3. mm; repeat split; nra. Qed.

(** std::min / std::max on the reals, and the clamp of Ridder's point into the bracket: the identity
    whenever the point is inside (always, in exact arithmetic; see [step_spec]) *)
Lemma nmin_R a b : nmin ROps a b = Rmin a b.
Proof. unfold nmin. cbn. destruct (Rltb_spec b a); unfold Rmin; destruct (Rle_dec a b); lra. Qed.
Lemma nmax_R a b : nmax ROps a b = Rmax a b.
Proof. unfold nmax. cbn. destruct (Rltb_spec a b); unfold Rmax; destruct (Rle_dec a b); lra. Qed.
Lemma clamp_id x1 x2 x : Rmin x1 x2 <= x <= Rmax x1 x2 ->
  nmax ROps (nmin ROps x1 x2) (nmin ROps (nmax ROps x1 x2) x) = x.
Proof.
  intros [H1 H2]. rewrite !nmin_R, !nmax_R.
  rewrite (Rmin_right (Rmax x1 x2) x) by exact H2. apply Rmax_right. exact H1.
Qed.

(** ** The loop invariant *)
Section Loop.
Variable f : R -> R.
Variable acc : R.

(** the state holds a bracket with a sign change *)
Definition Inv (s : @st R) : Prop := sf1 s = f (sx1 s) /\ sf2 s = f (sx2 s) /\ sf1 s * sf2 s < 0.
Definition blo (s : @st R) := Rmin (sx1 s) (sx2 s).
Definition bhi (s : @st R) := Rmax (sx1 s) (sx2 s).
Definition width (s : @st R) := Rabs (sx2 s - sx1 s).

Definition mid (s : @st R) : R := (sx1 s + sx2 s) / 2.
Definition ridder (s : @st R) : R :=
  mid s + (mid s - sx1 s) * IZR (sign1 ROps (sf1 s - sf2 s)) * f (mid s)
          / sqrt (f (mid s) * f (mid s) - sf1 s * sf2 s).

(** the loop body after the two abscissae x3 and (clamped) x4 have been computed *)
Definition step_tail (s : @st R) (x3 x4 : R) : (res (R * how) + @st R) * list R :=
  let f3 := f x3 in
  let f4 := f x4 in
  if Reqb f4 0 then (inl (Ok (x4, HF4Zero)), [x3; x4])
  else
    let next (s' : @st R) : (res (R * how) + @st R) * list R :=
      if Rltb (Rabs (sx2 s' - sx1 s')) acc then (inl (Ok (x4, HBracket)), [x3; x4])
      else (inr s', [x3; x4]) in
    if nneb ROps (sign2 ROps f3 f4) f3 then next (mkst x3 x4 f3 f4 x4)
    else if nneb ROps (sign2 ROps (sf1 s) f4) (sf1 s) then next (mkst (sx1 s) x4 (sf1 s) f4 x4)
    else if nneb ROps (sign2 ROps (sf2 s) f4) (sf2 s) then next (mkst x4 (sx2 s) f4 (sf2 s) x4)
    else (inl Exit, [x3; x4]).
Lemma step_eq s : sf1 s * sf2 s < 0 ->
  step ROps f acc s =
  step_tail s (mid s) (nmax ROps (nmin ROps (sx1 s) (sx2 s)) (nmin ROps (nmax ROps (sx1 s) (sx2 s)) (ridder s))).
Proof.
  intros Hs. unfold step. cbv zeta.
  change (nisnan ROps _) with false. cbv iota.
  pose proof (scale_pos (sf1 s) (sf2 s) (f ((sx1 s + sx2 s) / 2)) Hs) as Hsc.
  unfold ndec. cbn [nadd nsub nmul ndiv nabs nsqrt nofZ ROps] in *.
  (* the midpoint 0.5 * x1 + 0.5 * x2 of the source is (x1 + x2) / 2 *)
  replace (1 / 2 * sx1 s + 1 / 2 * sx2 s) with ((sx1 s + sx2 s) / 2) by lra.
  set (sc := nmax ROps (Rabs (f ((sx1 s + sx2 s) / 2))) (nmax ROps (Rabs (sf1 s)) (Rabs (sf2 s)))) in *.
  replace (sf1 s / sc - sf2 s / sc) with ((sf1 s - sf2 s) / sc) by (field; lra).
  rewrite (sign1_scaled _ sc Hsc).
  replace ((sx1 s + sx2 s) / 2 + ((sx1 s + sx2 s) / 2 - sx1 s) * IZR (sign1 ROps (sf1 s - sf2 s)) * (f ((sx1 s + sx2 s) / 2) / sc) /
             sqrt (f ((sx1 s + sx2 s) / 2) / sc * (f ((sx1 s + sx2 s) / 2) / sc) - sf1 s / sc * (sf2 s / sc)))
    with (ridder s).
  - reflexivity.
  - unfold ridder, mid. pose proof (ratio_scaled (sf1 s) (sf2 s) (f ((sx1 s + sx2 s) / 2)) sc Hsc Hs) as E.
    set (x3 := (sx1 s + sx2 s) / 2) in *. set (k := IZR (sign1 ROps (sf1 s - sf2 s))).
    replace (x3 + (x3 - sx1 s) * k * f x3 / sqrt (f x3 * f x3 - sf1 s * sf2 s))
      with (x3 + (x3 - sx1 s) * k * (f x3 / sqrt (f x3 * f x3 - sf1 s * sf2 s))) by (unfold Rdiv; ring).
    rewrite <- E. unfold Rdiv. ring.
Qed.

(** [s'] is the state after a re-bracketing of [s]: invariant kept, the Ridder point is one end of the new
    bracket and the remembered result, the new bracket lies in the old one and is at most half as wide *)
Definition Next (s s' : @st R) : Prop :=
  Inv s' /\ sres s' = ridder s /\ (ridder s = sx1 s' \/ ridder s = sx2 s') /\
  blo s <= blo s' /\ bhi s' <= bhi s /\ width s' <= width s / 2.

Lemma inv_distinct s : Inv s -> sx1 s <> sx2 s.
Proof. intros (E1 & E2 & H) E. rewrite E1, E2, E in H. nra. Qed.

Lemma width_pos s : Inv s -> blo s < bhi s /\ bhi s - blo s = width s.
Proof. intros H. pose proof (inv_distinct s H). unfold blo, bhi, width. mm; lra. Qed.

(** One pass of the loop body: the two evaluation points are the midpoint and the Ridder point, both in the
    closed current bracket; the pass ends with an exact zero, or re-brackets ([Next]) and then either returns
    because the new bracket is narrower than [acc] or continues.  The "does not reach the root" exit is
    impossible over the reals. *)
Lemma step_spec s : Inv s ->
  snd (step ROps f acc s) = [mid s; ridder s] /\
  blo s <= mid s <= bhi s /\ blo s <= ridder s <= bhi s /\
  ( (fst (step ROps f acc s) = inl (Ok (ridder s, HF4Zero)) /\ f (ridder s) = 0)
    \/ f (ridder s) <> 0 /\ exists s', Next s s' /\
         ( (fst (step ROps f acc s) = inl (Ok (ridder s, HBracket)) /\ width s' < acc)
           \/ (fst (step ROps f acc s) = inr s' /\ acc <= width s') ) ).
Proof.
  intros (E1 & E2 & Hs).
  destruct (ridder_t (sx1 s) (sx2 s) (sf1 s) (sf2 s) (f (mid s)) Hs) as (t & Et & Ht & Tneg & Tpos & T0).
  cbv zeta in Et. fold (mid s) in Et. fold (ridder s) in Et.
  pose proof (geom_in (sx1 s) (sx2 s) t Ht) as GI. cbv zeta in GI. fold (mid s) in GI. rewrite <- Et in GI.
  assert (Ecl : nmax ROps (nmin ROps (sx1 s) (sx2 s)) (nmin ROps (nmax ROps (sx1 s) (sx2 s)) (ridder s)) = ridder s)
    by (apply clamp_id; apply GI).
  rewrite (step_eq s Hs), Ecl. unfold step_tail. cbn.
  set (x3 := mid s) in *. set (x4 := ridder s) in *. set (f3 := f x3) in *. set (f4 := f x4) in *.
  destruct (Reqb_spec f4 0) as [Z4|Z4].
  { cbn [fst snd]. repeat split; try apply GI. left. split; [reflexivity|exact Z4]. }
  assert (Z3 : f3 <> 0).
  { intros Z. apply Z4. unfold f4. replace x4 with x3; [exact Z|]. rewrite Et, (T0 Z). ring. }
  assert (Z1 : sf1 s <> 0) by (intros Z; rewrite Z in Hs; lra).
  assert (Z2 : sf2 s <> 0) by (intros Z; rewrite Z in Hs; lra).
  assert (Fin : forall s', Next s s' ->
    snd (if Rltb (Rabs (sx2 s' - sx1 s')) acc then (@inl (res (R * how)) (@st R) (Ok (x4, HBracket)), [x3; x4]) else (inr s', [x3; x4])) = [x3; x4] /\
    blo s <= x3 <= bhi s /\ blo s <= x4 <= bhi s /\
    ((fst (if Rltb (Rabs (sx2 s' - sx1 s')) acc then (@inl (res (R * how)) (@st R) (Ok (x4, HBracket)), [x3; x4]) else (inr s', [x3; x4])) = inl (Ok (x4, HF4Zero)) /\ f4 = 0) \/
     f4 <> 0 /\ exists s'0, Next s s'0 /\
       ((fst (if Rltb (Rabs (sx2 s' - sx1 s')) acc then (@inl (res (R * how)) (@st R) (Ok (x4, HBracket)), [x3; x4]) else (inr s', [x3; x4])) = inl (Ok (x4, HBracket)) /\ width s'0 < acc) \/
        (fst (if Rltb (Rabs (sx2 s' - sx1 s')) acc then (@inl (res (R * how)) (@st R) (Ok (x4, HBracket)), [x3; x4]) else (inr s', [x3; x4])) = inr s'0 /\ acc <= width s'0)))).
  { intros s' N. destruct (Rltb_spec (Rabs (sx2 s' - sx1 s')) acc) as [Hw|Hw]; cbn [fst snd];
      (split; [reflexivity|]); (split; [apply GI|]); (split; [apply GI|]); right; (split; [exact Z4|]); exists s'; (split; [exact N|]).
    - left. split; [reflexivity|exact Hw].
    - right. split; [reflexivity|unfold width; lra]. }
  destruct (nneb ROps (sign2 ROps f3 f4) f3) eqn:Ca.
  { (* a) x3 and x4 bracket the root *)
    apply (Fin (mkst x3 x4 f3 f4 x4)). apply nneb_sign2_true in Ca; [|exact Z4].
    pose proof (geom_a (sx1 s) (sx2 s) t Ht) as G. cbv zeta in G. fold (mid s) in G. fold x3 in G. rewrite <- Et in G.
    unfold Next, Inv, blo, bhi, width. cbn [sx1 sx2 sf1 sf2 sres].
    repeat split; try reflexivity; try apply G; try exact Ca. right. reflexivity. }
  apply nneb_sign2_false in Ca; [|exact Z3|exact Z4].
  destruct (nneb ROps (sign2 ROps (sf1 s) f4) (sf1 s)) eqn:Cb.
  { (* b) x1 and x4 bracket the root *)
    apply (Fin (mkst (sx1 s) x4 (sf1 s) f4 x4)). apply nneb_sign2_true in Cb; [|exact Z4].
    assert (T : -1 < t < 0).
    { split; [lra|]. apply Tneg. fold f3. assert (0 < f4 * f4) by nra. nra. }
    pose proof (geom_b (sx1 s) (sx2 s) t T) as G. cbv zeta in G. fold (mid s) in G. fold x3 in G. rewrite <- Et in G.
    unfold Next, Inv, blo, bhi, width. cbn [sx1 sx2 sf1 sf2 sres].
    repeat split; try reflexivity; try apply G; try exact Cb; try exact E1. right. reflexivity. }
  apply nneb_sign2_false in Cb; [|exact Z1|exact Z4].
  assert (T : 0 < t < 1).
  { split; [|lra]. apply Tpos. fold f3. assert (0 < f4 * f4) by nra. nra. }
  assert (Cc' : sf2 s * f4 < 0).
  { assert (0 < f4 * f4) by nra. nra. }
  destruct (nneb ROps (sign2 ROps (sf2 s) f4) (sf2 s)) eqn:Cc.
  { (* c) x2 and x4 bracket the root *)
    apply (Fin (mkst x4 (sx2 s) f4 (sf2 s) x4)).
    pose proof (geom_c (sx1 s) (sx2 s) t T) as G. cbv zeta in G. fold (mid s) in G. fold x3 in G. rewrite <- Et in G.
    unfold Next, Inv, blo, bhi, width. cbn [sx1 sx2 sf1 sf2 sres].
    repeat split; try reflexivity; try apply G; try exact E2; try nra. left. reflexivity. }
  exfalso. apply nneb_sign2_false in Cc; [|exact Z2|exact Z4]. lra.
Qed.

(** a returned point [x] is an end of a bracket [u,v] inside [lo,hi] across which f changes sign *)
Definition Brk (lo hi u v x : R) : Prop :=
  lo <= u /\ u < v /\ v <= hi /\ f u * f v < 0 /\ (x = u \/ x = v).

Lemma brk_of_state lo hi s x : Inv s -> lo <= blo s -> bhi s <= hi -> (x = sx1 s \/ x = sx2 s) ->
  Brk lo hi (blo s) (bhi s) x.
Proof.
  intros H Hl Hh Hx. pose proof (width_pos s H) as [W _]. destruct H as (E1 & E2 & Hs).
  unfold Brk. repeat split; try assumption.
  - unfold blo, bhi in *. rewrite E1, E2 in Hs. mm; try lra; nra.
  - unfold blo, bhi in *. mm; lra.
Qed.

(** what the loop returns, for every fuel: the trace stays in [lo,hi]; the outcome is a number reached as an
    exact zero, or through a bracket narrower than acc, or (fuel exhausted) a bracket at most W/2^fuel wide *)
Definition loop_post (lo hi W : R) (n : nat) (o : res (R * how)) : Prop :=
  match o with
  | Ok (x, HF4Zero) => lo <= x <= hi /\ f x = 0
  | Ok (x, HBracket) => exists u v, Brk lo hi u v x /\ v - u < acc
  | Ok (x, HMaxIter) => exists u v, Brk lo hi u v x /\ v - u <= W / 2 ^ n
  | _ => False
  end.

Lemma loop_spec lo hi : forall n s W, Inv s -> lo <= blo s -> bhi s <= hi -> width s <= W ->
  (n = 0%nat -> sres s = sx1 s \/ sres s = sx2 s) ->
  List.Forall (fun x => lo <= x <= hi) (snd (loop ROps f acc n s)) /\ loop_post lo hi W n (fst (loop ROps f acc n s)).
Proof.
  induction n as [|n IH]; intros s W HI Hl Hh HW Hres.
  - cbn [loop fst snd]. specialize (Hres eq_refl).
    pose proof (brk_of_state lo hi s (sres s) HI Hl Hh Hres) as B.
    pose proof (width_pos s HI) as [_ Wd].
    split.
    + constructor; [|constructor]. unfold Brk in B. destruct B as (B1 & B2 & B3 & _ & [->| ->]); lra.
    + cbn. exists (blo s), (bhi s). split; [exact B|]. rewrite Wd. lra.
  - cbn [loop].
    destruct (step_spec s HI) as (Tr & In3 & In4 & Cases).
    destruct (step ROps f acc s) as [[o|s'] tr] eqn:Est; cbn [fst snd] in *; subst tr.
    + (* the pass returned *)
      split; [apply Forall_cons; [lra|]; apply Forall_cons; [lra|]; apply Forall_nil|].
      destruct Cases as [[Eo Z]|(_ & s' & N & [[Eo Hw]|[Eo _]])]; try discriminate; inversion Eo; subst o; cbn.
      * split; [lra|exact Z].
      * destruct N as (HI' & _ & Hx & Hl' & Hh' & _).
        exists (blo s'), (bhi s'). split.
        -- apply brk_of_state; try assumption; lra.
        -- pose proof (width_pos s' HI') as [_ Wd]. rewrite Wd. exact Hw.
    + (* next iteration *)
      destruct Cases as [[Eo _]|(_ & s'' & N & [[Eo _]|[Eo _]])]; try discriminate. inversion Eo; subst s''.
      destruct N as (HI' & Hr & Hx & Hl' & Hh' & Hw').
      specialize (IH s' (W / 2) HI' ltac:(lra) ltac:(lra) ltac:(lra) ltac:(intros _; rewrite Hr; exact Hx)).
      destruct (loop ROps f acc n s') as [o tr'] eqn:El. cbn [fst snd] in *.
      destruct IH as [IH1 IH2]. split.
      * constructor; [lra|]. constructor; [lra|]. exact IH1.
      * unfold loop_post in *. destruct o as [[x h]| | |]; try exact IH2. destruct h; try exact IH2.
        destruct IH2 as (u & v & B & Hv). exists u, v. split; [exact B|].
        replace (W / 2 ^ S n) with (W / 2 / 2 ^ n); [exact Hv|]. cbn [pow]. field. apply pow_nonzero. lra.
Qed.
End Loop.

Lemma Rmin_Rmax a b : Rmin a b <= Rmax a b.
Proof. unfold Rmin, Rmax. destruct (Rle_dec a b); lra. Qed.

Lemma max_iterations_S : max_iterations = S (Nat.pred max_iterations).
Proof. reflexivity. Qed.

(** ** Find_Root as a whole *)
Definition lit0 : R := nneg ROps (nlit ROps (99 * 10 ^ 98) 1 5096082013573349 280).

(** Find_Root after the initial swap: xl = min, xr = max *)
Definition frh_R (f : R -> R) (xl xr acc : R) : res (R * how) * list R :=
  if Rleb 0 (f xl * f xr) then
    if Reqb (f xl) 0 then (Ok (xl, HEndZero), [xl; xr])
    else if Reqb (f xr) 0 then (Ok (xr, HEndZero), [xl; xr])
    else (Exit, [xl; xr])
  else let '(o, tr) := loop ROps f acc max_iterations (mkst xl xr (f xl) (f xr) lit0) in (o, xl :: xr :: tr).

Lemma frh_eq f a b acc : find_root_h ROps f a b acc = frh_R f (Rmin a b) (Rmax a b) acc.
Proof.
  unfold find_root_h, frh_R. fold lit0.
  change (nisnan ROps _) with false. cbn [orb].
  rewrite !sign_prod_geb. cbn [nmul ROps].
  change (ngtb ROps a b) with (Rltb b a).
  destruct (Rltb_spec b a).
  - rewrite Rmin_right, Rmax_left by lra. reflexivity.
  - rewrite Rmin_left, Rmax_right by lra. reflexivity.
Qed.

Theorem order_irrelevant f a b acc : find_root ROps f a b acc = find_root ROps f b a acc.
Proof. unfold find_root. rewrite !frh_eq. rewrite (Rmin_comm a b), (Rmax_comm a b). reflexivity. Qed.

(** the full, tagged statement about [find_root_h] *)
Definition post (f : R -> R) (a b acc : R) (o : res (R * how)) : Prop :=
  let lo := Rmin a b in let hi := Rmax a b in
  match o with
  | Ok (x, HEndZero) => (x = lo \/ x = hi) /\ f x = 0 /\ 0 <= f lo * f hi
  | Ok (x, HF4Zero) => lo <= x <= hi /\ f x = 0 /\ f lo * f hi < 0
  | Ok (x, HBracket) => f lo * f hi < 0 /\ exists u v, Brk f lo hi u v x /\ v - u < acc
  | Ok (x, HMaxIter) => f lo * f hi < 0 /\ exists u v, Brk f lo hi u v x /\ v - u <= (hi - lo) / 2 ^ max_iterations
  | Exit => 0 < f lo * f hi
  | _ => False
  end.

Theorem find_root_h_spec f a b acc :
  List.Forall (fun x => Rmin a b <= x <= Rmax a b) (snd (find_root_h ROps f a b acc)) /\
  post f a b acc (fst (find_root_h ROps f a b acc)).
Proof.
  rewrite frh_eq. unfold post. cbv zeta.
  pose proof (Rmin_Rmax a b) as Hmm. set (lo := Rmin a b) in *. set (hi := Rmax a b) in *.
  assert (Ends : List.Forall (fun x => lo <= x <= hi) [lo; hi]) by (apply Forall_cons; [lra|]; apply Forall_cons; [lra|]; apply Forall_nil).
  unfold frh_R.
  destruct (Rleb_spec 0 (f lo * f hi)) as [Hp|Hp].
  - destruct (Reqb_spec (f lo) 0) as [Zl|Zl]; [|destruct (Reqb_spec (f hi) 0) as [Zr|Zr]]; cbn [fst snd]; (split; [exact Ends|]).
    + repeat split; auto.
    + repeat split; auto.
    + destruct Hp as [Hp|Hp]; [exact Hp|]. symmetry in Hp. apply Rmult_integral in Hp. tauto.
  - set (s0 := mkst lo hi (f lo) (f hi) lit0).
    assert (HI : Inv f s0) by (unfold Inv, s0; cbn; repeat split; lra).
    assert (Hne : lo < hi).
    { destruct Hmm as [Hmm|Hmm]; [exact Hmm|]. exfalso. rewrite Hmm in Hp. nra. }
    assert (Bl : blo s0 = lo) by (unfold blo, s0; cbn; apply Rmin_left; lra).
    assert (Bh : bhi s0 = hi) by (unfold bhi, s0; cbn; apply Rmax_right; lra).
    assert (Wd : width s0 = hi - lo) by (unfold width, s0; cbn; apply Rabs_pos_eq; lra).
    pose proof (loop_spec f acc lo hi max_iterations s0 (hi - lo) HI ltac:(lra) ltac:(lra) ltac:(lra)
                  ltac:(rewrite max_iterations_S; discriminate)) as [L1 L2].
    destruct (loop ROps f acc max_iterations s0) as [o tr]. cbn [fst snd] in *.
    split; [constructor; [lra|]; constructor; [lra|]; exact L1|].
    unfold loop_post in L2.
    destruct o as [[x h]| | |]; try contradiction. destruct h; try contradiction.
    + destruct L2. repeat split; try lra.
    + split; [lra|exact L2].
    + split; [lra|exact L2].
Qed.

(** *** evaluations_inside *)
Theorem evaluations_inside f a b acc :
  List.Forall (fun x => Rmin a b <= x <= Rmax a b) (snd (find_root ROps f a b acc)).
Proof.
  unfold find_root. pose proof (find_root_h_spec f a b acc) as [H _].
  destruct (find_root_h ROps f a b acc) as [o tr]. exact H.
Qed.

Lemma find_root_fst f a b acc : fst (find_root ROps f a b acc) = rmap fst (fst (find_root_h ROps f a b acc)).
Proof. unfold find_root. destruct (find_root_h ROps f a b acc) as [o tr]. reflexivity. Qed.

(** *** accuracy, full strength *)
Theorem accuracy f a b acc r : fst (find_root ROps f a b acc) = Ok r ->
  f r = 0 \/
  exists x1 x2, Rmin a b <= x1 /\ x1 < x2 /\ x2 <= Rmax a b /\ f x1 * f x2 < 0 /\ (r = x1 \/ r = x2) /\
                (x2 - x1 < acc \/ x2 - x1 <= (Rmax a b - Rmin a b) / 2 ^ max_iterations).
Proof.
  rewrite find_root_fst. pose proof (find_root_h_spec f a b acc) as [_ P].
  destruct (fst (find_root_h ROps f a b acc)) as [[x h]| | |]; cbn; try discriminate.
  intros E. inversion E; subst x. unfold post in P. cbv zeta in P. destruct h.
  - left. tauto.
  - left. tauto.
  - right. destruct P as (_ & u & v & (B1 & B2 & B3 & B4 & B5) & Hv). exists u, v. tauto.
  - right. destruct P as (_ & u & v & (B1 & B2 & B3 & B4 & B5) & Hv). exists u, v. tauto.
Qed.

(** the returned number lies in the bracket *)
Theorem result_inside f a b acc r : fst (find_root ROps f a b acc) = Ok r -> Rmin a b <= r <= Rmax a b.
Proof.
  rewrite find_root_fst. pose proof (find_root_h_spec f a b acc) as [_ P]. pose proof (Rmin_Rmax a b).
  destruct (fst (find_root_h ROps f a b acc)) as [[x h]| | |]; cbn; try discriminate.
  intros E. inversion E; subst x. unfold post in P. cbv zeta in P. destruct h.
  - destruct P as [[->| ->] _]; lra.
  - tauto.
  - destruct P as (_ & u & v & (B1 & B2 & B3 & B4 & [->| ->]) & _); lra.
  - destruct P as (_ & u & v & (B1 & B2 & B3 & B4 & [->| ->]) & _); lra.
Qed.

(** a sign change at the ends always yields a number (the "does not reach the root" exit is unreachable over R) *)
Theorem sign_change_returns f a b acc : f (Rmin a b) * f (Rmax a b) < 0 ->
  exists r, fst (find_root ROps f a b acc) = Ok r /\ Rmin a b <= r <= Rmax a b.
Proof.
  intros Hs. pose proof (result_inside f a b acc) as RI. revert RI.
  rewrite find_root_fst. pose proof (find_root_h_spec f a b acc) as [_ P].
  destruct (fst (find_root_h ROps f a b acc)) as [[x h]| | |]; cbn in *; try contradiction; try lra.
  intros RI. exists x. split; [reflexivity|apply RI; reflexivity].
Qed.

(** *** end zeros, bad brackets *)
Theorem end_zero_returned f a b acc :
  (f (Rmin a b) = 0 -> find_root ROps f a b acc = (Ok (Rmin a b), [Rmin a b; Rmax a b])) /\
  (f (Rmin a b) <> 0 -> f (Rmax a b) = 0 -> find_root ROps f a b acc = (Ok (Rmax a b), [Rmin a b; Rmax a b])).
Proof.
  unfold find_root. rewrite frh_eq. unfold frh_R. split.
  - intros Z. rewrite Z, Rmult_0_l. destruct (Rleb_spec 0 0); [|lra]. destruct (Reqb_spec 0 0); [reflexivity|congruence].
  - intros Zl Z. rewrite Z, Rmult_0_r. destruct (Rleb_spec 0 0); [|lra].
    destruct (Reqb_spec (f (Rmin a b)) 0); [contradiction|]. destruct (Reqb_spec 0 0); [reflexivity|congruence].
Qed.

Theorem no_sign_change_exits f a b acc : 0 < f (Rmin a b) * f (Rmax a b) ->
  find_root ROps f a b acc = (Exit, [Rmin a b; Rmax a b]).
Proof.
  intros H. unfold find_root. rewrite frh_eq. unfold frh_R.
  destruct (Rleb_spec 0 (f (Rmin a b) * f (Rmax a b))); [|lra].
  destruct (Reqb_spec (f (Rmin a b)) 0) as [Z|_]; [rewrite Z in H; lra|].
  destruct (Reqb_spec (f (Rmax a b)) 0) as [Z|_]; [rewrite Z in H; lra|]. reflexivity.
Qed.

(** NaN at an end: on every instance of the number interface (in particular IEEE doubles) *)
Theorem nan_end_exits {T : Type} (Ops : NumOps T) (f : T -> T) (a b acc : T) :
  let xl := if ngtb Ops a b then b else a in
  let xr := if ngtb Ops a b then a else b in
  nisnan Ops (f xl) = true \/ nisnan Ops (f xr) = true ->
  find_root Ops f a b acc = (Exit, [xl; xr]).
Proof.
  intros xl xr H. unfold find_root, find_root_h. fold xl xr.
  assert (E : nisnan Ops (f xl) || nisnan Ops (f xr) = true) by (apply orb_true_iff; exact H).
  rewrite E. reflexivity.
Qed.

(** *** linear functions *)
Theorem linear_exact m q a b acc : (m * Rmin a b + q) * (m * Rmax a b + q) < 0 ->
  find_root ROps (fun x => m * x + q) a b acc = (Ok (- q / m), [Rmin a b; Rmax a b; (Rmin a b + Rmax a b) / 2; - q / m]).
Proof.
  intros Hs. unfold find_root. rewrite frh_eq. unfold frh_R.
  set (lo := Rmin a b) in *. set (hi := Rmax a b) in *. set (f := fun x => m * x + q).
  change (m * lo + q) with (f lo) in *. change (m * hi + q) with (f hi) in *.
  destruct (Rleb_spec 0 (f lo * f hi)) as [Hp|_]; [lra|].
  assert (Hm : m <> 0). { intros ->. unfold f in Hs. nra. }
  assert (Hd : lo <> hi). { intros E. rewrite E in Hs. nra. }
  set (s0 := mkst lo hi (f lo) (f hi) lit0).
  assert (X4 : ridder f s0 = - q / m).
  { unfold ridder, mid, s0. cbn [sx1 sx2 sf1 sf2].
    set (f1 := f lo) in *. set (f2 := f hi) in *.
    assert (F3 : f ((lo + hi) / 2) = (f1 + f2) / 2) by (unfold f1, f2, f; field).
    rewrite F3.
    assert (Sq : sqrt ((f1 + f2) / 2 * ((f1 + f2) / 2) - f1 * f2) = Rabs (f1 - f2) / 2).
    { replace ((f1 + f2) / 2 * ((f1 + f2) / 2) - f1 * f2) with (Rsqr ((f1 - f2) / 2)) by (unfold Rsqr; field).
      rewrite sqrt_Rsqr_abs. unfold Rdiv. rewrite Rabs_mult. rewrite (Rabs_pos_eq (/ 2)) by lra. reflexivity. }
    rewrite Sq.
    destruct (sign1_cases (f1 - f2)) as [[A1 A2]|[[A1 A2]|[A1 A2]]]; rewrite A2.
    - rewrite Rabs_pos_eq by lra. unfold f1, f2, f in *. field. split; [exact Hm|]. intros E. apply Hd. nra.
    - exfalso. nra.
    - rewrite Rabs_left by lra. unfold f1, f2, f in *. field. split; [exact Hm|]. intros E. apply Hd. nra. }
  assert (HI : Inv f s0) by (unfold Inv, s0; cbn; repeat split; lra).
  destruct (step_spec f acc s0 HI) as (Tr & _ & _ & Cases).
  assert (Z : f (ridder f s0) = 0) by (rewrite X4; unfold f; field; exact Hm).
  assert (Est : step ROps f acc s0 = (inl (Ok (- q / m, HF4Zero)), [(lo + hi) / 2; - q / m])).
  { rewrite <- X4. change ((lo + hi) / 2) with (mid s0). rewrite <- Tr.
    destruct Cases as [[E _]|[NZ _]]; [|contradiction].
    rewrite <- E. destruct (step ROps f acc s0); reflexivity. }
  rewrite max_iterations_S. cbn [loop]. fold s0. rewrite Est. reflexivity.
Qed.

(** *** the corollary through the intermediate value theorem *)
Theorem accuracy_continuous f a b acc r : continuity f -> fst (find_root ROps f a b acc) = Ok r ->
  exists z, Rmin a b <= z <= Rmax a b /\ f z = 0 /\
            (z = r \/ Rabs (z - r) < acc \/ Rabs (z - r) <= (Rmax a b - Rmin a b) / 2 ^ max_iterations).
Proof.
  intros Hc Hr. pose proof (result_inside f a b acc r Hr) as RI.
  destruct (accuracy f a b acc r Hr) as [Z|(u & v & B1 & B2 & B3 & B4 & B5 & Hw)].
  - exists r. repeat split; try lra; auto.
  - destruct (IVT_cor f u v Hc ltac:(lra) ltac:(lra)) as (z & Hz & Zz).
    exists z. split; [lra|]. split; [exact Zz|]. right.
    assert (Rabs (z - r) <= v - u) by (destruct B5 as [->| ->]; apply Rabs_le; lra).
    destruct Hw; [left|right]; lra.
Qed.

(** ** Non-vacuity: a concrete run that returns through the bracket-width test.
    f(x) = -2x^2 + 6x - 3 on [0,2]: f(0) = -3, f(2) = 1, midpoint 1 with f = 1, radicand 1 + 3 = 4,
    Ridder point 1 - 1/2 = 1/2 with f = -1/2: case a), new bracket {1, 1/2} of width 1/2 < acc = 1. *)
Definition fq (x : R) : R := -2 * x * x + 6 * x - 3.
Example accuracy_nonvacuous : find_root_h ROps fq 0 2 (3 / 2) = (Ok (1 / 2, HBracket), [0; 2; 1; 1 / 2]).
Proof.
  rewrite frh_eq. rewrite Rmin_left, Rmax_right by lra. unfold frh_R.
  assert (F0 : fq 0 = -3) by (unfold fq; lra). assert (F2 : fq 2 = 1) by (unfold fq; lra).
  rewrite F0, F2. destruct (Rleb_spec 0 (-3 * 1)); [lra|].
  rewrite max_iterations_S. cbn [loop].
  set (s0 := mkst 0 2 (-3) 1 lit0).
  assert (M : mid s0 = 1) by (unfold mid, s0; cbn; lra).
  assert (F1 : fq 1 = 1) by (unfold fq; lra).
  assert (S4 : sqrt 4 = 2) by (replace 4 with (2 * 2) by lra; apply sqrt_square; lra).
  assert (X4 : ridder fq s0 = 1 / 2).
  { unfold ridder. rewrite M, F1. unfold s0. cbn [sx1 sx2 sf1 sf2].
    replace (1 * 1 - -3 * 1) with 4 by lra. rewrite S4.
    destruct (sign1_cases (-3 - 1)) as [[A1 A2]|[[A1 A2]|[A1 A2]]]; try lra. rewrite A2. lra. }
  assert (F4 : fq (1 / 2) = - (1 / 2)) by (unfold fq; lra).
  assert (HI : Inv fq s0) by (unfold Inv, s0; cbn; rewrite F0, F2; repeat split; lra).
  destruct (step_spec fq (3 / 2) s0 HI) as (Tr & _ & _ & Cases).
  rewrite X4, M in *.
  assert (W0 : width s0 = 2) by (unfold width, s0; cbn; rewrite Rabs_pos_eq; lra).
  destruct Cases as [[_ Z]|(_ & s' & N & [[E _]|[_ Hw]])].
  - rewrite F4 in Z. lra.
  - destruct (step ROps fq (3 / 2) s0) as [o tr]. cbn [fst snd] in *. subst o tr. reflexivity.
  - exfalso. destruct N as (_ & _ & _ & _ & _ & Hh). lra.
Qed.

(** the state Find_Root enters the loop with satisfies the invariant *)
Lemma initial_inv f lo hi r0 : f lo * f hi < 0 -> Inv f (mkst lo hi (f lo) (f hi) r0).
Proof. intros H. unfold Inv. cbn. repeat split; lra. Qed.

(** further concrete instances of the implications above *)
Example linear_example : find_root ROps (fun x => 2 * x + -2) 3 0 (1 / 1000) = (Ok 1, [0; 3; 3 / 2; 1]).
Proof.
  rewrite (linear_exact 2 (-2) 3 0 (1 / 1000)).
  - rewrite Rmin_right, Rmax_left by lra. repeat f_equal; lra.
  - rewrite Rmin_right, Rmax_left by lra. lra.
Qed.
Example end_zero_example : find_root ROps (fun x => x * (x - 5)) 5 1 (1 / 10) = (Ok 5, [1; 5]).
Proof.
  destruct (end_zero_returned (fun x => x * (x - 5)) 5 1 (1 / 10)) as [_ H].
  rewrite Rmin_right, Rmax_left in H by lra. apply H; lra.
Qed.
Example no_sign_change_example : find_root ROps (fun x => x * x + 1) (-1) 2 (1 / 10) = (Exit, [-1; 2]).
Proof.
  pose proof (no_sign_change_exits (fun x => x * x + 1) (-1) 2 (1 / 10)) as H.
  rewrite Rmin_left, Rmax_right in H by lra. apply H. lra.
Qed.
