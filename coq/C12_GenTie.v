(** * C12 T-tie: the formula sites of Compute_Gauss_Legendre_Roots_and_Weights, regenerated from clang's AST on every run
    (coq/Gen_C12_Formulas.v, tools/cxx2gallina_C12.py), are the terms of the hand model, for every number type.
    A change of a coefficient, operator, operand order, literal or cast in the source changes a generated definition and
    breaks a lemma below before any case is run; a change of the statement structure (loop bounds, order of the statements,
    which row/column a store goes to, the break condition's place) is refused by the generator itself. *)
From Coq Require Import ZArith List Bool Lia.
From LP Require Import Num C12_Model Gen_C12_Formulas.
Import ListNotations.

Section Tie.
Context {T : Type} (Ops : NumOps T).

Lemma gen_eps : g_gl_eps Ops = gl_eps Ops.
Proof. reflexivity. Qed.

Lemma gen_mid xmin xmax : g_gl_mid Ops xmin xmax = gl_mid Ops xmin xmax.
Proof. reflexivity. Qed.

Lemma gen_hw xmin xmax : g_gl_hw Ops xmin xmax = gl_hw Ops xmin xmax.
Proof. reflexivity. Qed.

(** double z = cos(M_PI * (i + 0.75) / (n + 0.5)): n and i enter through the int->double conversions clang makes explicit *)
Lemma gen_guess (n i : Z) : g_gl_guess Ops (m_pi Ops) n i = gl_guess Ops (nofZ Ops n) i.
Proof. reflexivity. Qed.

(** one pass of the inner for loop: p3 = p2; p2 = p1; p1 = ((2.0*j + 1.0)*z*p2 - j*p3)/(j + 1.0) *)
Lemma gen_legendre_step c j z p1 p2 :
  legendre Ops (S c) j z p1 p2 =
  legendre Ops c (j + 1)%Z z (g_gl_leg_step Ops j z (g_gl_p2 Ops p1) (g_gl_p3 Ops p2)) (g_gl_p2 Ops p1).
Proof. reflexivity. Qed.

(** one pass of the while loop: p1 = 1.0; p2 = 0.0; <inner loop>; pp = ...; z1 = z; z = z1 - p1/pp; if(fabs(z - z1) <= eps) break *)
Lemma gen_newton_step f n (nz : Z) z :
  newton Ops (S f) n (nofZ Ops nz) z =
  let '(p1, p2) := legendre Ops n 0%Z z (g_gl_p1_init Ops) (g_gl_p2_init Ops) in
  let pp := g_gl_pp Ops nz z p1 p2 in
  let z1 := g_gl_z1 Ops z in
  let z' := g_gl_newton_z Ops z1 p1 pp in
  if g_gl_stop Ops z' z1 (g_gl_eps Ops) then Ok (z', pp) else newton Ops f n (nofZ Ops nz) z'.
Proof. reflexivity. Qed.

(** the four stores after the Newton iteration *)
Lemma gen_store n xm hw tab i zp :
  gl_store Ops n xm hw tab i zp =
  let z := fst zp in let pp := snd zp in
  let k := (n - i - 1)%nat in
  let t1 := upd tab i (fun r => (g_gl_node_lo Ops xm hw z, snd r)) in
  let t2 := upd t1 k (fun r => (g_gl_node_hi Ops xm hw z, snd r)) in
  let t3 := upd t2 i (fun r => (fst r, g_gl_weight Ops hw z pp)) in
  upd t3 k (fun r => (fst r, snd (nth i t3 (zero Ops, zero Ops)))).
Proof. reflexivity. Qed.
End Tie.

(** int m = (n + 1) / 2 in unsigned arithmetic, and the mirrored row index n - i - 1 (unsigned, i converted): the nat
    expressions of the model for every order below 2^32 - 1 *)
Lemma gen_m {T} (Ops : NumOps T) n : (Z.of_nat n + 1 < 4294967296)%Z -> g_gl_m Ops (Z.of_nat n) = Z.of_nat (gl_m n).
Proof.
  intros H. unfold g_gl_m, gu32, gl_m. rewrite Z.mod_small by lia.
  rewrite Z.quot_div_nonneg by lia. rewrite Nat2Z.inj_div. f_equal. lia.
Qed.

Lemma gen_mirror_index n i : (i < n)%nat -> (Z.of_nat n < 4294967296)%Z ->
  g_gl_mirror_index (Z.of_nat n) (Z.of_nat i) = Z.of_nat (n - i - 1).
Proof. intros Hi Hn. unfold g_gl_mirror_index, gu32. rewrite (Z.mod_small (Z.of_nat i)) by lia.
  rewrite (Z.mod_small (Z.of_nat n - Z.of_nat i)) by lia. rewrite Z.mod_small by lia. lia. Qed.
