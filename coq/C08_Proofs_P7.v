(** * C08 proofs, part 7 (seventh pass):
    - the public member [domain] and operator() (C08_Model.domain1/domain2/call1/call2): "the whole domain" of the property is the
      member the objects carry, whatever the prefactor history; Global_Minimum/Maximum bound every call on it (1-D and 2-D);
    - the data-table constructor of Interpolation_2D accepts ONLY x-major listings of a grid over strictly increasing axes
      (converse of table_constructor8_grid), and the size check terminates the process for any number type;
    - floating point: with monotone multiplication, prefactor * f_k lies between Global_Minimum and Global_Maximum for EVERY entry. *)
From Coq Require Import Reals ZArith List Bool Lia Lra Sorted.
From LP Require Import Num NumR OrdLaws C01_Model C01_Proofs C01_Proofs_Global C08_Model C08_Proofs C08_Proofs_More C08_Proofs_Sel C08_Proofs_Ref.
Import ListNotations.
Local Open Scope R_scope.

(** ** 1. domain and operator() *)
Lemma domain1_ptab c xs ys : domain1 (ptab c xs ys) = [nth 0 xs 0; nth (length xs - 1) xs 0].
Proof. reflexivity. Qed.

Theorem domain_history xs ys ops :
  domain1 (fold_left apply_pop ops (tab xs ys)) = [nth 0 xs 0; nth (length xs - 1) xs 0].
Proof. change (tab xs ys) with (ptab 1 xs ys). rewrite (history_is_ptab xs ys ops 1). apply domain1_ptab. Qed.

Theorem global_bounds_whole_domain xs ys : valid_table xs ys -> forall c,
  exists mn mx, global_minimum ROps (ptab c xs ys) = Ok mn /\ global_maximum ROps (ptab c xs ys) = Ok mx /\
    forall x, nth 0 (domain1 (ptab c xs ys)) 0 <= x <= nth 1 (domain1 (ptab c xs ys)) 0 ->
      exists v, call1 ROps (ptab c xs ys) x = Ok v /\ interpolate ROps (ptab c xs ys) x = Ok v /\ mn <= v <= mx.
Proof.
  intros HV c.
  destruct (global_minimum_spec xs ys HV c) as (mn & E1 & B1 & _).
  destruct (global_maximum_spec xs ys HV c) as (mx & E2 & B2 & _).
  exists mn, mx. split; [exact E1|]. split; [exact E2|].
  intros x Hx. rewrite domain1_ptab in Hx. cbn [nth] in Hx.
  exists (pcurve c xs ys x). unfold call1. rewrite (interpolate_ptab xs ys HV c x Hx).
  split; [reflexivity|]. split; [reflexivity|]. split; [apply B1|apply B2]; exact Hx.
Qed.

Lemma domain2_pgrid c xs ys f :
  domain2 (pgrid c xs ys f) = [[nth 0 xs 0; nth (length xs - 1) xs 0]; [nth 0 ys 0; nth (length ys - 1) ys 0]].
Proof. reflexivity. Qed.

Theorem domain_history_2d xs ys f ops :
  domain2 (fold_left (fun o p => match p with SetP v => set_prefactor2 o v | Mul v => multiply2 ROps o v end) ops (pgrid 1 xs ys f))
  = [[nth 0 xs 0; nth (length xs - 1) xs 0]; [nth 0 ys 0; nth (length ys - 1) ys 0]].
Proof. rewrite (history2_is_pgrid xs ys f ops 1). apply domain2_pgrid. Qed.

Lemma cell_exists xs x : (2 <= length xs)%nat -> nth 0 xs 0 <= x <= nth (length xs - 1) xs 0 ->
  exists j, (S j < length xs)%nat /\ nth j xs 0 <= x <= nth (S j) xs 0.
Proof.
  intros HN Hx. destruct (locate_in_domain xs xs HN x Hx) as (j & _ & Hj & A & B).
  exists j. split; [exact Hj|]. split; [exact A|]. destruct B as [B|[_ B]]; lra.
Qed.

Theorem global_bounds_whole_domain_2d xs ys f : valid_grid xs ys f -> forall c,
  exists mn mx, global_minimum2 ROps (pgrid c xs ys f) = Ok mn /\ global_maximum2 ROps (pgrid c xs ys f) = Ok mx /\
    forall x y,
      nth 0 (nth 0 (domain2 (pgrid c xs ys f)) []) 0 <= x <= nth 1 (nth 0 (domain2 (pgrid c xs ys f)) []) 0 ->
      nth 0 (nth 1 (domain2 (pgrid c xs ys f)) []) 0 <= y <= nth 1 (nth 1 (domain2 (pgrid c xs ys f)) []) 0 ->
      exists v, call2 ROps (pgrid c xs ys f) x y = Ok v /\ mn <= v <= mx.
Proof.
  intros HG c. destruct (global_extrema2_spec xs ys f HG c) as (mn & mx & E1 & E2 & B & _).
  exists mn, mx. split; [exact E1|]. split; [exact E2|].
  intros x y Hx Hy. rewrite domain2_pgrid in Hx, Hy. cbn [nth] in Hx, Hy.
  destruct HG as (HNx & HNy & _).
  destruct (cell_exists xs x HNx Hx) as (i & Hi & Hxi).
  destruct (cell_exists ys y HNy Hy) as (j & Hj & Hyj).
  exact (B i j x y Hi Hj Hxi Hyj).
Qed.

(** ** 2. the data-table constructor of Interpolation_2D: what it accepts *)
Lemma fill_row_inv x : forall ys data row rest, fill_row ROps x ys data = Ok (row, rest) ->
  data = rows_of x ys row ++ rest /\ length row = length ys.
Proof.
  induction ys as [|y ys IH]; intros data row rest H; cbn [fill_row] in H.
  - injection H as <- <-. split; reflexivity.
  - destruct data as [|r data]; [discriminate|].
    destruct r as [|dx [|dy [|dz [|w r]]]]; try discriminate.
    unfold nneb in H. cbn [neqb ROps] in H.
    destruct (Reqb_spec x dx) as [<-|]; cbn [negb orb] in H; [|discriminate].
    destruct (Reqb_spec y dy) as [<-|]; cbn [negb orb] in H; [|discriminate].
    destruct (fill_row ROps x ys data) as [[row' rest']| | |] eqn:E; cbn [rbind fst snd] in H; try discriminate.
    injection H as <- <-. destruct (IH _ _ _ E) as [-> L]. cbn [rows_of app length]. split; [reflexivity|lia].
Qed.

Lemma fill_table_inv ys : forall xs data f, fill_table ROps xs ys data = Ok f ->
  exists rest, data = grid_rows xs ys f ++ rest /\ length f = length xs /\ Forall (fun row => length row = length ys) f.
Proof.
  induction xs as [|x xs IH]; intros data f H; cbn [fill_table] in H.
  - injection H as <-. exists data. repeat split; constructor.
  - destruct (fill_row ROps x ys data) as [[row rest1]| | |] eqn:E1; cbn [rbind fst snd] in H; try discriminate.
    destruct (fill_table ROps xs ys rest1) as [rows| | |] eqn:E2; cbn [rbind] in H; try discriminate.
    injection H as <-. destruct (fill_row_inv x ys data row rest1 E1) as [-> Lr].
    destruct (IH rest1 rows E2) as (rest & -> & Lf & Ff).
    exists rest. cbn [grid_rows length]. rewrite app_assoc. repeat split; [lia|constructor; assumption].
Qed.

Theorem table_constructor8_only_listings data xd yd fd o :
  C08_Model.construct2_table ROps data xd yd fd = Ok o ->
  exists xs ys f, StronglySorted Rlt xs /\ StronglySorted Rlt ys /\
    length f = length xs /\ Forall (fun row => length row = length ys) f /\
    data = grid_rows xs ys f /\ construct2 ROps xs ys f xd yd fd = Ok o.
Proof.
  unfold C08_Model.construct2_table. intros H.
  destruct (C08_Model.split_rows3 data) as [[a b]| | |]; cbn [rbind fst snd] in H; try discriminate.
  set (x := C08_Model.unique_list ROps (C08_Model.sort_list ROps a)) in *.
  set (y := C08_Model.unique_list ROps (C08_Model.sort_list ROps b)) in *.
  destruct (Nat.eqb (length x * length y) (length data)) eqn:EL; cbn [negb] in H; [|discriminate].
  apply Nat.eqb_eq in EL.
  destruct (fill_table ROps x y data) as [f| | |] eqn:EF; cbn [rbind] in H; try discriminate.
  destruct (fill_table_inv y x data f EF) as (rest & Hd & Lf & Ff).
  destruct (split_grid_rows y x f Lf Ff) as (_ & _ & _ & Lg & _).
  assert (Hrest : rest = []).
  { apply length_zero_iff_nil. apply (f_equal (@length _)) in Hd. rewrite app_length in Hd. lia. }
  subst rest. rewrite app_nil_r in Hd.
  exists x, y, f.
  split; [exact (proj1 (unique8_list_spec _ (sort8_sorted a)))|].
  split; [exact (proj1 (unique8_list_spec _ (sort8_sorted b)))|].
  repeat split; assumption.
Qed.

(** the size check, for any number type *)
Theorem table_constructor8_size_mismatch {T : Type} (Ops : NumOps T) (data : list (list T)) xd yd fd xy :
  C08_Model.split_rows3 data = Ok xy ->
  (length (C08_Model.unique_list Ops (C08_Model.sort_list Ops (fst xy))) *
   length (C08_Model.unique_list Ops (C08_Model.sort_list Ops (snd xy))) <> length data)%nat ->
  C08_Model.construct2_table Ops data xd yd fd = Exit.
Proof.
  intros E H. unfold C08_Model.construct2_table. rewrite E. cbn [rbind].
  apply Nat.eqb_neq in H. rewrite H. reflexivity.
Qed.

(** rows of three entries listing the grid in the wrong order (or with a repeated / missing node): the fill loop terminates the process.
    [fill_row] on a first row whose (x, y) is not the expected node *)
Theorem fill_row_wrong_node {T : Type} (Ops : NumOps T) xv yv ys' dx dy dz rest :
  nneb Ops xv dx || nneb Ops yv dy = true -> fill_row Ops xv (yv :: ys') ([dx; dy; dz] :: rest) = Exit.
Proof. intros H. cbn [fill_row]. rewrite H. reflexivity. Qed.

(** ** 3. floating point: no tabulated value outside the global extrema *)
Section FP.
Context {T : Type} (Ops : NumOps T) (OL : OrdLaws Ops).
Local Notation nle := (nle Ops).
(** premise (holds for IEEE doubles without NaN: correctly rounded multiplication by a fixed factor is monotone --
    non-decreasing for a factor >= 0, non-increasing for a factor <= 0) *)
Hypothesis mul_monotone : forall c a v b, nle a v -> nle v b ->
  (nle (nmul Ops c a) (nmul Ops c v) /\ nle (nmul Ops c v) (nmul Ops c b)) \/
  (nle (nmul Ops c b) (nmul Ops c v) /\ nle (nmul Ops c v) (nmul Ops c a)).

Lemma between_extrema c fmin fmax v : nle fmin v -> nle v fmax ->
  nle (nmin Ops (nmul Ops c fmin) (nmul Ops c fmax)) (nmul Ops c v) /\
  nle (nmul Ops c v) (nmax Ops (nmul Ops c fmin) (nmul Ops c fmax)).
Proof.
  intros A B. destruct (mul_monotone c fmin v fmax A B) as [[L U]|[L U]]; split.
  - eapply (nle_trans Ops OL); [apply (nmin_l Ops OL)|exact L].
  - eapply (nle_trans Ops OL); [exact U|apply (nmax_r Ops OL)].
  - eapply (nle_trans Ops OL); [apply (nmin_r Ops OL)|exact L].
  - eapply (nle_trans Ops OL); [exact U|apply (nmax_l Ops OL)].
Qed.

Theorem global_bounds_every_entry (o : itab) mn mx :
  global_minimum Ops o = Ok mn -> global_maximum Ops o = Ok mx ->
  forall v, In v (iys o) -> nle mn (nmul Ops (ipre o) v) /\ nle (nmul Ops (ipre o) v) mx.
Proof.
  intros E1 E2 v Hv.
  destruct (global_extrema_select Ops OL o) as [S1 S2].
  destruct (S1 mn E1) as (fmin & fmax & [_ Lmin] & [_ Lmax] & ->).
  destruct (S2 mx E2) as (fmin' & fmax' & [_ Lmin'] & [_ Lmax'] & ->).
  split.
  - exact (proj1 (between_extrema (ipre o) fmin fmax v (Lmin v Hv) (Lmax v Hv))).
  - exact (proj2 (between_extrema (ipre o) fmin' fmax' v (Lmin' v Hv) (Lmax' v Hv))).
Qed.

Theorem global_bounds_every_entry_2d (o : itab2) mn mx :
  global_minimum2 Ops o = Ok mn -> global_maximum2 Ops o = Ok mx ->
  forall row v, In row (jf o) -> In v row -> nle mn (nmul Ops (jpre o) v) /\ nle (nmul Ops (jpre o) v) mx.
Proof.
  intros E1 E2 row v Hr Hv.
  assert (He : entry (jf o) v) by (exists row; split; assumption).
  destruct (global_extrema2_select Ops OL o) as [S1 S2].
  destruct (S1 mn E1) as (fmin & fmax & [_ Lmin] & [_ Lmax] & ->).
  destruct (S2 mx E2) as (fmin' & fmax' & [_ Lmin'] & [_ Lmax'] & ->).
  split.
  - exact (proj1 (between_extrema (jpre o) fmin fmax v (Lmin v He) (Lmax v He))).
  - exact (proj2 (between_extrema (jpre o) fmin' fmax' v (Lmin' v He) (Lmax' v He))).
Qed.
End FP.

(** ** 4. Derivative scales with the prefactor exactly as Interpolate does (every order, every accepted point) *)
Theorem derivative_prefactor xs ys : valid_table xs ys -> forall c x k,
  nth 0 xs 0 - tolL xs < x < nth (length xs - 1) xs 0 + tolR xs ->
  exists d1, derivative ROps (tab xs ys) x k = Ok d1 /\ derivative ROps (ptab c xs ys) x k = Ok (c * d1).
Proof.
  intros HV c x k Hx.
  destruct (zlocate xs ys HV c x Hx) as (j & E & Hj & _).
  rewrite locate_ptab in E.
  pose proof (interpolate_ptab_zone xs ys HV c x Hx) as Ic.
  pose proof (interpolate_ptab_zone xs ys HV 1 x Hx) as I1.
  change (ptab 1 xs ys) with (tab xs ys) in I1.
  unfold derivative. rewrite locate_ptab, E. cbn [rbind]. rewrite segment_ptab.
  rewrite (segment_ok xs ys j (proj1 HV) Hj). cbn [rbind].
  destruct (k =? 0)%Z.
  { rewrite Ic, I1. eexists. split; [reflexivity|]. unfold pcurve. f_equal. ring. }
  destruct (k =? 1)%Z.
  { eexists. split; [reflexivity|]. f_equal. change (ipre (tab xs ys)) with 1. change (ipre (ptab c xs ys)) with c. cbn [nmul ROps]. ring. }
  destruct (k =? 2)%Z.
  { eexists. split; [reflexivity|]. f_equal. change (ipre (tab xs ys)) with 1. change (ipre (ptab c xs ys)) with c. cbn [nmul ROps]. ring. }
  destruct (k =? 3)%Z.
  { eexists. split; [reflexivity|]. f_equal. change (ipre (tab xs ys)) with 1. change (ipre (ptab c xs ys)) with c. cbn [nmul ROps]. ring. }
  eexists. split; [reflexivity|]. f_equal. cbn. ring.
Qed.

(** ** non-vacuity of the hypotheses used above *)
Lemma ROps_mul_monotone : forall c a v b : R, nle ROps a v -> nle ROps v b ->
  (nle ROps (nmul ROps c a) (nmul ROps c v) /\ nle ROps (nmul ROps c v) (nmul ROps c b)) \/
  (nle ROps (nmul ROps c b) (nmul ROps c v) /\ nle ROps (nmul ROps c v) (nmul ROps c a)).
Proof.
  intros c a v b A B. unfold nle in *. cbn [nltb nmul ROps] in *.
  apply Rltb_false in A. apply Rltb_false in B.
  destruct (Rle_dec 0 c) as [Hc|Hc]; [left|right]; split; apply Rltb_false; nra.
Qed.

Example C08_p7_example :
  (* a valid table and a valid grid (hypotheses of the whole-domain theorems) *)
  valid_table [0; 1; 2] [0; 1; 2] /\ valid_grid [0; 1] [0; 2] [[1; 2]; [3; 4]] /\
  (* an accepted data table (hypothesis of table_constructor8_only_listings) *)
  (exists o, C08_Model.construct2_table ROps [[0; 0; 1]; [0; 2; 2]; [1; 0; 3]; [1; 2; 4]] (-1) (-1) (-1) = Ok o) /\
  (* a data table that fails the size check: the node (0,0) listed twice *)
  (exists xy, C08_Model.split_rows3 [[0; 0; 1]; [0; 0; 2]] = Ok xy /\
     (length (C08_Model.unique_list ROps (C08_Model.sort_list ROps (fst xy))) *
      length (C08_Model.unique_list ROps (C08_Model.sort_list ROps (snd xy))) <> length [[0; 0; 1]; [0; 0; 2]])%nat) /\
  (* a row that is not the expected node *)
  nneb ROps 0 1 || nneb ROps 0 0 = true /\
  (* the order laws and monotone multiplication hold for the reals; objects on which the global extrema are defined exist *)
  OrdLaws ROps /\
  (exists mn mx, global_minimum ROps (skeleton ROps [0; 1; 2] [3; 1; 2] (-2)) = Ok mn /\
     global_maximum ROps (skeleton ROps [0; 1; 2] [3; 1; 2] (-2)) = Ok mx /\ In 1 (iys (skeleton ROps [0; 1; 2] [3; 1; 2] (-2)))).
Proof.
  assert (L00 : Rltb 0 0 = false) by (apply Rltb_false; lra).
  assert (E00 : Reqb 0 0 = true) by (apply Reqb_true; reflexivity).
  assert (E01 : Reqb 0 1 = false) by (apply Reqb_false; lra).
  split; [exact C08_Proofs_Ref.w_valid|]. split; [exact grid22_valid|]. split; [|split; [|split; [|split]]].
  - eexists. exact (proj1 (table_constructor8_object [0; 1] [0; 2] [[1; 2]; [3; 4]] (-1) (-1) (-1) grid22_valid)).
  - eexists. split; [reflexivity|]. cbn [fst snd C08_Model.sort_list fold_right sort_insert nltb ROps].
    rewrite L00. cbn [sort_insert C08_Model.unique_list unique_from neqb ROps]. rewrite E00. cbn. lia.
  - unfold nneb. cbn [neqb ROps]. rewrite E01. reflexivity.
  - exact ROps_OrdLaws.
  - unfold global_minimum, global_maximum. cbn [skeleton iys min_element max_element rbind].
    eexists. eexists. split; [reflexivity|]. split; [reflexivity|]. right; now left.
Qed.
