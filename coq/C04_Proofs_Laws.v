(** * C04 proofs, part 2: theorems that need arithmetic laws.
    Section [Exact*]: abstract number type, each theorem under exactly the laws it uses (commutativity of
    the product for transpose(A*B); the unit/zero laws for A*I, I*A, outer) -- no associativity, no
    distributivity, the code's own summation order: these equalities are therefore exact for IEEE
    doubles (as numbers) too.
    Section [Ring]: an arbitrary MathComp [comRingType]; the model is instantiated with the ring
    operations ([ROps]); sums become [\sum], and the list model is refined to MathComp matrices. *)
From mathcomp Require Import all_ssreflect all_algebra.
From Coq Require List ZArith.
From LP Require Import Num C04_Model C04_Proofs_Struct.
Set Implicit Arguments. Unset Strict Implicit. Unset Printing Implicit Defensive.
Arguments tab : simpl never.
Arguments tab2 : simpl never.

Section ExactComm.
Context {T : Type} (Ops : NumOps T).
Local Notation ment := (ment Ops).
Hypothesis mulC : forall x y : T, nmul Ops x y = nmul Ops y x.

(** transpose(A*B) = transpose(B)*transpose(A), for every conformable shape, using only x*y = y*x *)
Theorem transpose_product A B : mcols A = mrows B -> 0 < mrows B -> 0 < mcols B ->
  rbind (m_product Ops A B) (transpose Ops)
  = rbind (transpose Ops B) (fun Bt => rbind (transpose Ops A) (fun At => m_product Ops Bt At)) /\
  exists C, rbind (m_product Ops A B) (transpose Ops) = Ok C.
Proof.
  move=> Hp Hrb Hcb.
  rewrite m_product_spec Hp eqxx /= transpose_spec //= transpose_spec //= transpose_spec ?Hp //=.
  rewrite m_product_spec /= Hp eqxx; split; last by eexists.
  congr Ok; rewrite /tr_tab /=; apply: mk_mat_ext => j i Hj Hi.
  rewrite ment_mk // /dotk !foldE !seqE /= Hp; apply: foldl_iota_ext => acc k /andP [_]; rewrite add0n => Hk.
  by rewrite !ment_mk ?Hp // mulC.
Qed.
End ExactComm.

Section ExactUnit.
Context {T : Type} (Ops : NumOps T).
Local Notation ment := (ment Ops).
Local Notation zero := (n0 Ops).
Local Notation one := (n1 Ops).
Local Notation "x + y" := (nadd Ops x y).
Local Notation "x * y" := (nmul Ops x y).
Hypothesis add0l : forall x : T, zero + x = x.
Hypothesis add0r : forall x : T, x + zero = x.

Lemma identity_spec n : identity Ops n = mk_mat n n (fun i j => if i == j then one else zero).
Proof.
  rewrite /identity /mat_diag lengthE size_tab; apply: mk_mat_ext => i j Hi Hj.
  by rewrite eqbE; case: eqP => // _; rewrite nthE nth_tab.
Qed.

Section Right.
Hypothesis mul1 : forall x : T, x * one = x.
Hypothesis mul0 : forall x : T, x * zero = zero.
Lemma foldl_delta_r (a : nat -> T) j n :
  foldl (fun acc k => acc + a k * (if k == j then one else zero)) zero (iota 0 n) = if j < n then a j else zero.
Proof.
  elim: n => [|n IH] //; rewrite -addn1 iotaD foldl_cat IH /= add0n addn1 ltnS.
  case: (ltngtP j n) => Hj.
  - by rewrite mul0 add0r.
  - by rewrite mul0 add0r.
  - by rewrite Hj mul1 add0l.
Qed.
(** A * I = A exactly; laws used: x*1 = x, x*0 = 0, 0+x = x, x+0 = x *)
Theorem mul_identity A : wf_mat A -> m_product Ops A (identity Ops (mcols A)) = Ok A.
Proof.
  move=> HA; rewrite m_product_spec identity_spec /= eqxx; congr Ok.
  rewrite -[RHS](mk_mat_eta Ops HA); apply: mk_mat_ext => i j Hi Hj.
  rewrite /dotk foldE seqE.
  rewrite (@foldl_iota_ext _ _ (fun acc k => acc + ment A i k * (if k == j then one else zero))).
    by rewrite foldl_delta_r Hj.
  by move=> acc k /andP [_]; rewrite add0n => Hk; rewrite ment_mk.
Qed.
End Right.

Section Left.
Hypothesis mul1l : forall x : T, one * x = x.
Hypothesis mul0l : forall x : T, zero * x = zero.
Lemma foldl_delta_l (a : nat -> T) i n :
  foldl (fun acc k => acc + (if i == k then one else zero) * a k) zero (iota 0 n) = if i < n then a i else zero.
Proof.
  elim: n => [|n IH] //; rewrite -addn1 iotaD foldl_cat IH /= add0n addn1 ltnS.
  case: (ltngtP i n) => Hi.
  - by rewrite mul0l add0r.
  - by rewrite mul0l add0r.
  - by rewrite Hi mul1l add0l.
Qed.
(** I * A = A exactly; laws used: 1*x = x, 0*x = 0, 0+x = x, x+0 = x *)
Theorem identity_mul A : wf_mat A -> m_product Ops (identity Ops (mrows A)) A = Ok A.
Proof.
  move=> HA; rewrite m_product_spec identity_spec /= eqxx; congr Ok.
  rewrite -[RHS](mk_mat_eta Ops HA); apply: mk_mat_ext => i j Hi Hj.
  rewrite /dotk foldE seqE /=.
  rewrite (@foldl_iota_ext _ _ (fun acc k => acc + (if i == k then one else zero) * ment A k j)).
    by rewrite foldl_delta_l Hi.
  by move=> acc k /andP [_]; rewrite add0n => Hk; rewrite ment_mk.
Qed.
End Left.

(** Outer_Vector_Product(u,v) = (column u) * (row v); law used: 0 + x = x *)
Theorem outer_is_product u v :
  m_product Ops (col_mat Ops u) (row_mat Ops v) = Ok (outer Ops u v).
Proof.
  rewrite m_product_spec /=; congr Ok; rewrite /outer; apply: mk_mat_ext => i j Hi Hj.
  by rewrite /dotk /= add0l /col_mat /row_mat !ment_mk.
Qed.
End ExactUnit.

(** ** An arbitrary commutative ring *)
Import GRing.Theory.
Local Open Scope ring_scope.

Section Ring.
Variable R : comRingType.
(** the operations the algebra does not interpret stay arbitrary *)
Variables (divR : R -> R -> R) (absR sqrtR : R -> R) (ltR leR : R -> R -> bool).
Definition ROps : NumOps R :=
  @mkNumOps R 0 1 +%R (fun x y => x - y) *%R divR -%R absR sqrtR ltR leR (fun x y => x == y)
           (fun _ => 0) (fun _ => false) id id id id id id id id (fun x _ => x) (fun x _ => x)
           (fun _ _ _ _ => 0) (fun _ => BinNums.Z0).
Local Notation ment := (ment ROps).
Local Notation vent := (vent ROps).

Lemma ReqbP : forall x y : R, reflect (x = y) (neqb ROps x y).
Proof. by move=> x y; apply: eqP. Qed.

Lemma foldl_sum_acc (f : nat -> R) a p : foldl (fun acc k => acc + f k) a (iota 0 p) = a + \sum_(0 <= k < p) f k.
Proof.
  elim: p => [|p IH]; first by rewrite big_geq // addr0.
  by rewrite big_nat_recr // -addn1 iotaD foldl_cat IH /= add0n addrA.
Qed.
Lemma foldl_sum (f : nat -> R) p : foldl (fun acc k => acc + f k) 0 (iota 0 p) = \sum_(0 <= k < p) f k.
Proof. by rewrite foldl_sum_acc add0r. Qed.

(** products have entries sum_k a_ik * b_kj *)
Theorem product_entries A B : mcols A = mrows B ->
  exists2 C, m_product ROps A B = Ok C &
    [/\ wf_mat C, mrows C = mrows A, mcols C = mcols B &
        forall i j, (i < mrows A)%N -> (j < mcols B)%N ->
          ment C i j = \sum_(0 <= k < mcols A) ment A i k * ment B k j].
Proof.
  move=> Hp; rewrite m_product_spec Hp eqxx; eexists; first by [].
  split=> //; first exact: wf_mk.
  by move=> i j Hi Hj; rewrite ment_mk // /dotk foldE seqE -Hp foldl_sum.
Qed.
Theorem product_defined_iff A B :
  ((exists C, m_product ROps A B = Ok C) <-> mcols A = mrows B) /\
  (mcols A <> mrows B -> m_product ROps A B = Exit).
Proof.
  rewrite m_product_spec; case: eqP => [E|N]; split=> //.
  - by split=> // _; eexists.
  - by split=> // -[].
Qed.

Theorem dot_sum u v : vdim u = vdim v ->
  vdot ROps u v = Ok (\sum_(0 <= i < vdim u) vent u i * vent v i).
Proof. by move=> Hd; rewrite /vdot eqbE Hd eqxx /= foldE seqE -Hd foldl_sum. Qed.
Theorem matvec_entries A v : vdim v = mcols A ->
  m_product_v ROps A v = Ok (vec_of (tab (mrows A) (fun i => \sum_(0 <= j < mcols A) ment A i j * vent v j))).
Proof.
  move=> Hd; rewrite /m_product_v eqbE Hd eqxx /=; congr Ok; congr vec_of; apply: tab_ext => i Hi.
  by rewrite foldE seqE foldl_sum.
Qed.
Theorem vecmat_entries v A : vdim v = mrows A ->
  v_mul_m ROps v A = Ok (vec_of (tab (mcols A) (fun j => \sum_(0 <= i < mrows A) vent v i * ment A i j))).
Proof.
  move=> Hd; rewrite /v_mul_m eqbE Hd eqxx /=; congr Ok; congr vec_of; apply: tab_ext => i Hi.
  by rewrite foldE seqE foldl_sum.
Qed.

(** Trace and Norm^2 *)
Theorem trace_sum A : mrows A = mcols A -> trace ROps A = Ok (\sum_(0 <= i < mrows A) ment A i i).
Proof. by move=> Hsq; rewrite trace_spec Hsq eqxx -Hsq foldl_sum. Qed.
Theorem norm2_sum A : m_norm2 ROps A = \sum_(0 <= i < mrows A) \sum_(0 <= j < mcols A) ment A i j * ment A i j.
Proof.
  rewrite /m_norm2 foldE !seqE.
  have -> : foldl (fun acc i => List.fold_left (fun acc0 j => nadd ROps acc0 (nmul ROps (ment A i j) (ment A i j)))
                     (iota 0 (mcols A)) acc) (n0 ROps) (iota 0 (mrows A))
          = foldl (fun acc i => acc + \sum_(0 <= j < mcols A) ment A i j * ment A i j) 0 (iota 0 (mrows A)).
    by apply: foldl_iota_ext => acc i _; rewrite foldE foldl_sum_acc.
  by rewrite foldl_sum.
Qed.
Theorem norm_spec A : m_norm ROps A = sqrtR (\sum_(0 <= i < mrows A) \sum_(0 <= j < mcols A) ment A i j * ment A i j).
Proof. by rewrite /m_norm norm2_sum. Qed.
Theorem vnorm_sum v : vnorm ROps v = Ok (sqrtR (\sum_(0 <= i < vdim v) vent v i * vent v i)).
Proof. by rewrite vnorm_spec foldl_sum. Qed.

(** Antisymmetric() scans j >= i (diagonal included) and decides A = -A^T *)
Theorem antisymmetric_iff A :
  antisymmetric ROps A <->
  (mrows A = mcols A /\ forall i j, (i < mrows A)%N -> (j < mrows A)%N -> ment A i j = - ment A j i).
Proof.
  rewrite /antisymmetric squareE; case: eqP => /= [Hsq|Hn]; last by split=> // -[].
  rewrite forallbE seqE; split.
  - move=> /all_iota H; split=> // i j Hi Hj.
    have X : forall i j, (i < mrows A)%N -> (j < mrows A)%N -> (i <= j)%N -> ment A i j = - ment A j i.
      move=> {Hi Hj i j} i j Hi Hj Hij.
      have := H i; rewrite add0n Hi => /(_ isT); rewrite forallbE seqE ?natE => /all_iota /(_ j).
      by rewrite subnKC ?Hij -?Hsq ?Hj ?(ltnW Hi) // => /(_ isT) /eqP ->; rewrite mulN1r.
    case: (leqP i j) => Hij; first exact: X.
    by rewrite [in RHS]X ?opprK // ltnW.
  - move=> [_ H]; apply/all_iota => i; rewrite add0n => /andP [_ Hi].
    rewrite forallbE seqE ?natE; apply/all_iota => j; rewrite subnKC -?Hsq ?(ltnW Hi) // => /andP [_ Hj].
    by apply/eqP; rewrite /= mulN1r; apply: H.
Qed.

(** cross product: orthogonal to both factors *)
Lemma tele3 (X Y Z : R) : X - Y + (Z - X) + (Y - Z) = 0.
Proof. by apply/eqP; rewrite addr_eq0 opprB [X - Y + _]addrC addrA subrK. Qed.
Lemma cross_orth (a b c x y z : R) :
  0 + a * (b * z - c * y) + b * (c * x - a * z) + c * (a * y - b * x) = 0.
Proof. by rewrite add0r !mulrBr (mulrCA b a z) (mulrCA c a y) (mulrCA c b x) tele3. Qed.
Lemma cross_orth' (a b c x y z : R) :
  0 + x * (b * z - c * y) + y * (c * x - a * z) + z * (a * y - b * x) = 0.
Proof.
  rewrite add0r !mulrBr (mulrCA x b z) (mulrCA y c x) (mulrCA z a y) (mulrCA x c y) (mulrCA y a z) (mulrCA z b x).
  rewrite (mulrC z y) (mulrC x z) (mulrC y x).
  set X := b * _; set Y := c * _; set Z := a * _.
  by rewrite addrAC tele3.
Qed.

Theorem cross_orthogonal u v w : vcross ROps u v = Ok w ->
  vdot ROps u w = Ok 0 /\ vdot ROps v w = Ok 0.
Proof.
  rewrite vcross_spec; case: andP => // -[/eqP Hu /eqP Hv] [<-].
  rewrite /vdot /= !eqbE Hu Hv /= /C04_Model.vent /=.
  by split; congr Ok; [apply: cross_orth | apply: cross_orth'].
Qed.

(** ** Refinement to MathComp matrices *)
Definition mx_of (m n : nat) (A : mat R) : 'M[R]_(m, n) := \matrix_(i, j) ment A i j.
Definition cv_of (n : nat) (v : vec R) : 'cV[R]_n := \col_i vent v i.

Theorem mx_of_product m p n A B C :
  mrows A = m -> mcols A = p -> mrows B = p -> mcols B = n -> m_product ROps A B = Ok C ->
  mx_of m n C = mx_of m p A *m mx_of p n B.
Proof.
  move=> Hm Hp Hp' Hn; rewrite m_product_spec Hp Hp' eqxx => -[<-]; apply/matrixP => i j.
  rewrite !mxE ment_mk ?Hm ?Hn // /dotk foldE seqE foldl_sum Hp big_mkord.
  by apply: eq_bigr => k _; rewrite !mxE.
Qed.
Theorem mx_of_transpose A C : (0 < mcols A)%N -> transpose ROps A = Ok C ->
  mx_of (mcols A) (mrows A) C = (mx_of (mrows A) (mcols A) A)^T.
Proof. by move=> Hc; rewrite transpose_spec // => -[<-]; apply/matrixP => i j; rewrite !mxE ment_mk. Qed.
Theorem mx_of_plus A B C : (0 < mrows A)%N -> m_plus ROps A B = Ok C ->
  mx_of (mrows A) (mcols A) C = mx_of (mrows A) (mcols A) A + mx_of (mrows A) (mcols A) B.
Proof.
  move=> Hr; rewrite m_plus_spec //; case: same_shape => // -[<-]; apply/matrixP => i j.
  by rewrite !mxE ment_mk.
Qed.
Theorem mx_of_minus A B C : (0 < mrows A)%N -> m_minus ROps A B = Ok C ->
  mx_of (mrows A) (mcols A) C = mx_of (mrows A) (mcols A) A - mx_of (mrows A) (mcols A) B.
Proof.
  move=> Hr; rewrite m_minus_spec //; case: same_shape => // -[<-]; apply/matrixP => i j.
  by rewrite !mxE ment_mk.
Qed.
Theorem mx_of_scale A s C : (0 < mrows A)%N -> m_product_s ROps A s = Ok C ->
  mx_of (mrows A) (mcols A) C = s *: mx_of (mrows A) (mcols A) A.
Proof.
  move=> Hr; have [-> _ _ _ _] := scalar_spec ROps s Hr; move=> [<-]; apply/matrixP => i j.
  by rewrite !mxE ment_mk.
Qed.
Theorem mx_of_identity n : mx_of n n (identity ROps n) = 1%:M.
Proof.
  rewrite identity_spec; apply/matrixP => i j.
  by rewrite !mxE ment_mk // -val_eqE /=; case: eqP.
Qed.
Theorem mx_of_trace n A : mrows A = n -> mcols A = n -> trace ROps A = Ok (\tr (mx_of n n A)).
Proof.
  move=> Hr Hc; rewrite trace_sum ?Hr ?Hc //; congr Ok; rewrite /mxtrace big_mkord.
  by apply: eq_bigr => i _; rewrite mxE.
Qed.
Theorem mx_of_sub_matrix m n A (i : 'I_m.+1) (j : 'I_n.+1) C :
  wf_mat A -> mrows A = m.+1 -> mcols A = n.+1 -> sub_matrix A i j = Ok C ->
  mx_of m n C = row' i (col' j (mx_of m.+1 n.+1 A)).
Proof.
  move=> HA Hr Hc; rewrite (sub_matrix_spec ROps) ?Hr ?Hc // !ltn_ord /= => -[<-]; apply/matrixP => a b.
  rewrite !mxE ment_mk //=; congr (ment A _ _); rewrite /skip /bump.
  - by case: (ltnP a i) => H; rewrite ?(leqNgt i a) ?H ?add0n ?add1n //= leqNgt ltnS H.
  - by case: (ltnP b j) => H; rewrite ?(leqNgt j b) ?H ?add0n ?add1n //= leqNgt ltnS H.
Qed.
Theorem mx_of_matvec A v w : vdim v = mcols A -> m_product_v ROps A v = Ok w ->
  cv_of (mrows A) w = mx_of (mrows A) (mcols A) A *m cv_of (mcols A) v.
Proof.
  move=> Hd; rewrite matvec_entries // => -[<-]; apply/matrixP => i j.
  rewrite !mxE vent_tab // big_mkord; by apply: eq_bigr => k _; rewrite !mxE.
Qed.
End Ring.

(** ** Non-vacuity: the natural numbers satisfy the laws used above; concrete non-square instances *)
Definition NOps : NumOps nat :=
  @mkNumOps nat 0%N 1%N addn subn muln divn id id id ltn leq eqn (fun _ => 0%N) (fun _ => false)
            id id id id id id id id (fun x _ => x) (fun x _ => x) (fun _ _ _ _ => 0%N) (fun _ => BinNums.Z0).
Definition exA : mat nat := mk_mat 2 3 (fun i j => (i + 2 * j)%N).
Definition exB : mat nat := mk_mat 3 2 (fun i j => (3 * i + j + 1)%N).
Example transpose_product_instance :
  rbind (m_product NOps exA exB) (transpose NOps)
  = rbind (transpose NOps exB) (fun Bt => rbind (transpose NOps exA) (fun At => m_product NOps Bt At)) /\
  rbind (m_product NOps exA exB) (transpose NOps) = Ok (mkMat 2 2 [:: [:: 36; 48]; [:: 42; 57]]%N).
Proof.
  split; last by vm_compute.
  by have [] := @transpose_product nat NOps mulnC exA exB (erefl _) isT isT.
Qed.
Example mul_identity_instance :
  m_product NOps exA (identity NOps 3) = Ok exA /\ m_product NOps (identity NOps 2) exA = Ok exA.
Proof.
  split; first exact: (@mul_identity nat NOps add0n addn0 muln1 muln0 exA (wf_mk _ _ _)).
  exact: (@identity_mul nat NOps add0n addn0 mul1n mul0n exA (wf_mk _ _ _)).
Qed.
Example sum_shape_instance :
  m_plus NOps exA exA = Ok (mk_mat 2 3 (fun i j => (i + 2 * j + (i + 2 * j))%N)) /\
  m_plus NOps exA exB = Exit /\ m_add_assign NOps exA exB = Exit /\
  m_plus NOps exA (mk_mat 2 2 (fun _ _ => 1%N)) = Exit.
Proof. by vm_compute. Qed.
