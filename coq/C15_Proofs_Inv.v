(** * C15: Matrix::Inverse (Gauss-Jordan elimination with partial pivoting on (A | 1)) as called by Find_Eigenvector_Rayleigh.
    Whatever the model of Inverse returns for an n x n matrix A is a left inverse of A and maps no non-zero vector to zero
    (every n, induction over the elimination steps with the row-wise invariant
       "left half of a row = right half of that row times A; the finished columns are zero off the diagonal and non-zero on it;
        the right halves form a matrix with trivial kernel").
    Consequences for Find_Eigenvector_Rayleigh over the reals: the vector it returns is a unit vector (no hypothesis on the matrix),
    the inverse of the shifted matrix scales every eigenvector of M by 1 / (lambda - shift), is symmetric when M is, and hence the
    facts of C15_Proofs_Iter.v (start vector that is an eigenvector; orthogonal complement of an eigenvector) hold for the matrix the
    code actually computes. *)
From Coq Require Import Reals ZArith List Lra Lia Psatz Bool Arith.
From LP Require Import Num NumR C15_Model C15_Proofs C15_Proofs_QR C15_Proofs_Iter C15_Proofs_Session.
Import ListNotations.
Local Open Scope R_scope.

(** ** list helpers *)
Lemma nth_skipn_add {A} n (l : list A) k d : nth k (skipn n l) d = nth (n + k) l d.
Proof. revert l. induction n as [| n IH]; intros l; [reflexivity|]. destruct l; [destruct k; reflexivity | apply IH]. Qed.
Lemma nth_map_combine (f : R * R -> R) (a b : list R) c : (c < length a)%nat -> length a = length b ->
  nth c (map f (combine a b)) 0 = f (nth c a 0, nth c b 0).
Proof.
  intros Hc L. rewrite (nth_map_lt f (combine a b) c (0, 0) 0) by (rewrite combine_length; lia).
  rewrite combine_nth by exact L. reflexivity.
Qed.

Lemma nth_combine_seq_n n (a : list (list R)) r : length a = n -> (r < n)%nat ->
  nth r (combine (seq 0 n) a) (0%nat, []) = (r, nth r a []).
Proof. intros <- Hr. rewrite nth_combine_seq by exact Hr. reflexivity. Qed.

(** ** the invariant of the elimination *)
Definition wfa (n : nat) (a : list (list R)) : Prop :=
  length a = n /\ forall r, (r < n)%nat -> length (nth r a []) = (n + n)%nat.
Definition rnonsing (n : nat) (a : list (list R)) : Prop :=
  forall x : nat -> R, (forall r, (r < n)%nat -> rsum (fun k => ment ROps a r (n + k) * x k) n = 0) -> forall j, (j < n)%nat -> x j = 0.
Definition ginv (n : nat) (M : nat -> nat -> R) (i : nat) (a : list (list R)) : Prop :=
  wfa n a /\
  (forall r j, (r < n)%nat -> (j < n)%nat -> ment ROps a r j = rsum (fun k => ment ROps a r (n + k) * M k j) n) /\
  (forall r c, (r < n)%nat -> (c < i)%nat -> r <> c -> ment ROps a r c = 0) /\
  (forall c, (c < i)%nat -> ment ROps a c c <> 0) /\
  rnonsing n a.

(** std::swap(A[i], A[i_pivot]) *)
Lemma swap_rows_nth n (a : list (list R)) i j r : length a = n -> (r < n)%nat ->
  nth r (swap_rows a i j) [] = nth (transp i j r) a [].
Proof.
  intros L Hr. unfold swap_rows. rewrite L. rewrite (nth_map_seq _ n r [] Hr). unfold transp.
  destruct (Nat.eqb r i); [reflexivity|]. destruct (Nat.eqb r j); reflexivity.
Qed.
Lemma ginv_swap n M i ip a : (i <= ip)%nat -> (ip < n)%nat -> ginv n M i a -> ginv n M i (swap_rows a i ip).
Proof.
  intros Hi Hip ((La & Ra) & Lin & Z & D & NS).
  assert (i < n)%nat as Hin by lia.
  assert (forall r, (r < n)%nat -> nth r (swap_rows a i ip) [] = nth (transp i ip r) a []) as RW
      by (intros r Hr; apply (swap_rows_nth n); assumption).
  assert (forall r, (r < n)%nat -> (transp i ip r < n)%nat) as TL by (intros r Hr; apply transp_lt; assumption).
  repeat split.
  - unfold swap_rows. rewrite map_length, seq_length. exact La.
  - intros r Hr. rewrite (RW r Hr). apply Ra, TL, Hr.
  - intros r j Hr Hj. unfold ment. rewrite (RW r Hr). apply (Lin (transp i ip r) j (TL r Hr) Hj).
  - intros r c Hr Hc Hne. unfold ment. rewrite (RW r Hr). apply (Z (transp i ip r) c (TL r Hr) Hc).
    unfold transp. destruct (Nat.eqb_spec r i); [lia|]. destruct (Nat.eqb_spec r ip); [lia | exact Hne].
  - intros c Hc. unfold ment. rewrite (RW c ltac:(lia)).
    replace (transp i ip c) with c; [apply D; exact Hc|].
    unfold transp. destruct (Nat.eqb_spec c i); [lia|]. destruct (Nat.eqb_spec c ip); [lia | reflexivity].
  - intros x Hx. apply NS. intros r Hr.
    pose proof (Hx (transp i ip r) (TL r Hr)) as E. unfold ment in E. rewrite (RW _ (TL r Hr)), transp_invol in E. exact E.
Qed.

(** the search for the pivot row stays inside i .. n-1 *)
Lemma pivot_row_range (a : list (list R)) i n : (i < n)%nat -> (i <= pivot_row ROps a i n < n)%nat.
Proof.
  intros Hi. unfold pivot_row.
  assert (forall l init, (i <= init < n)%nat -> (forall j, In j l -> (i <= j < n)%nat) ->
          (i <= fold_left (fun ip j => if ngtb ROps (nabs ROps (ment ROps a j i)) (nabs ROps (ment ROps a ip i)) then j else ip) l init < n)%nat) as G.
  { induction l as [| j l IH]; intros init Hinit Hl; [exact Hinit|]. cbn [fold_left]. apply IH.
    - destruct (ngtb _ _ _); [apply Hl; left; reflexivity | exact Hinit].
    - intros j' Hj'. apply Hl. right. exact Hj'. }
  apply G; [lia|]. intros j Hj. apply in_seq in Hj. lia.
Qed.

(** A[j][k] = A[j][k] - ratio * A[i][k], j <> i *)
Lemma eliminate_row n (a : list (list R)) i r : length a = n -> (r < n)%nat ->
  nth r (eliminate ROps a i) [] =
  if Nat.eqb r i then nth r a []
  else map (fun q => fst q - ment ROps a r i / ment ROps a i i * snd q) (combine (nth r a []) (nth i a [])).
Proof.
  intros L Hr. unfold eliminate.
  rewrite (nth_map_lt _ _ r (0%nat, []) []) by (rewrite combine_length, seq_length; lia).
  rewrite nth_combine_seq by lia. cbn [fst snd Nat.add]. reflexivity.
Qed.
Lemma eliminate_entry n (a : list (list R)) i r c : wfa n a -> (i < n)%nat -> (r < n)%nat -> (c < n + n)%nat ->
  ment ROps (eliminate ROps a i) r c =
  if Nat.eqb r i then ment ROps a r c else ment ROps a r c - ment ROps a r i / ment ROps a i i * ment ROps a i c.
Proof.
  intros (La & Ra) Hi Hr Hc. unfold ment at 1. rewrite (eliminate_row n a i r La Hr).
  destruct (Nat.eqb r i); [reflexivity|]. unfold nth0. cbn [n0 ROps].
  rewrite nth_map_combine by (rewrite ?Ra by assumption; lia || reflexivity). cbn [fst snd]. reflexivity.
Qed.
Lemma ginv_eliminate n M i a : (i < n)%nat -> ginv n M i a -> ment ROps a i i <> 0 -> ginv n M (S i) (eliminate ROps a i).
Proof.
  intros Hi (W & Lin & Z & D & NS) Hp. pose proof W as (La & Ra).
  repeat split.
  - unfold eliminate. rewrite map_length, combine_length, seq_length. lia.
  - intros r Hr. rewrite (eliminate_row n a i r La Hr). destruct (Nat.eqb r i); [apply Ra; exact Hr|].
    rewrite map_length, combine_length, !Ra by assumption. lia.
  - intros r j Hr Hj. rewrite (eliminate_entry n a i r j W Hi Hr ltac:(lia)).
    rewrite (rsum_ext _ (fun k => if Nat.eqb r i then ment ROps a r (n + k) * M k j
                                  else ment ROps a r (n + k) * M k j - ment ROps a r i / ment ROps a i i * (ment ROps a i (n + k) * M k j))).
    2:{ intros k Hk. rewrite (eliminate_entry n a i r (n + k) W Hi Hr ltac:(lia)).
        destruct (Nat.eqb r i); ring. }
    destruct (Nat.eqb r i).
    + exact (Lin r j Hr Hj).
    + rewrite rsum_minus, rsum_scal. rewrite <- (Lin r j Hr Hj), <- (Lin i j Hi Hj). reflexivity.
  - intros r c Hr Hc Hne. rewrite (eliminate_entry n a i r c W Hi Hr ltac:(lia)).
    destruct (Nat.eqb_spec r i) as [-> | Hri].
    + apply Z; [exact Hi | lia | exact Hne].
    + destruct (Nat.eq_dec c i) as [-> | Hci].
      * field. exact Hp.
      * rewrite (Z r c Hr ltac:(lia) Hne), (Z i c Hi ltac:(lia) ltac:(lia)). ring.
  - intros c Hc. rewrite (eliminate_entry n a i c c W Hi ltac:(lia) ltac:(lia)).
    destruct (Nat.eqb_spec c i) as [-> | Hci]; [exact Hp|].
    rewrite (Z i c Hi ltac:(lia) ltac:(lia)). replace (ment ROps a c c - ment ROps a c i / ment ROps a i i * 0) with (ment ROps a c c) by ring.
    apply D. lia.
  - intros x Hx. apply NS.
    assert (rsum (fun k => ment ROps a i (n + k) * x k) n = 0) as Ei.
    { rewrite <- (Hx i Hi). apply rsum_ext. intros k Hk. rewrite (eliminate_entry n a i i (n + k) W Hi Hi ltac:(lia)), Nat.eqb_refl. reflexivity. }
    intros r Hr. destruct (Nat.eq_dec r i) as [-> | Hri]; [exact Ei|].
    pose proof (Hx r Hr) as E.
    rewrite (rsum_ext _ (fun k => ment ROps a r (n + k) * x k - ment ROps a r i / ment ROps a i i * (ment ROps a i (n + k) * x k))) in E.
    2:{ intros k Hk. rewrite (eliminate_entry n a i r (n + k) W Hi Hr ltac:(lia)).
        destruct (Nat.eqb_spec r i); [contradiction | ring]. }
    rewrite rsum_minus, rsum_scal, Ei in E. lra.
Qed.

(** all elimination steps *)
Lemma gauss_jordan_inv n M : forall k i a a', (k + i = n)%nat -> ginv n M i a -> gauss_jordan ROps k i n a = Ok a' -> ginv n M n a'.
Proof.
  induction k as [| k IH]; intros i a a' Hki G H.
  - cbn in H. inversion H. subst a'. cbn in Hki. subst i. exact G.
  - cbn [gauss_jordan] in H.
    pose proof (pivot_row_range a i n ltac:(lia)) as PR.
    set (ip := pivot_row ROps a i n) in *. cbn [neqb ROps n0] in H.
    match type of H with (if Reqb (ment ROps ?X i i) 0 then _ else _) = _ => set (a1 := X) in * end.
    assert (ginv n M i a1) as G1.
    { unfold a1. destruct (Nat.eqb ip i); [exact G | apply ginv_swap; [lia | lia | exact G]]. }
    destruct (Reqb (ment ROps a1 i i) 0) eqn:Hp; [discriminate|]. apply Reqb_false in Hp.
    apply (IH (S i) (eliminate ROps a1 i) a' ltac:(lia)); [| exact H]. apply ginv_eliminate; [lia | exact G1 | exact Hp].
Qed.

(** the start: (A | 1) *)
Lemma ginv_init n (m : list (list R)) : wf n m ->
  ginv n (ment ROps m) 0 (map (fun p => snd p ++ map (fun j => delta ROps (fst p) j) (seq 0 n)) (combine (seq 0 n) m)).
Proof.
  intros (Lm & Rm).
  set (aug := map _ _).
  assert (forall r, (r < n)%nat -> nth r aug [] = nth r m [] ++ map (fun j => delta ROps r j) (seq 0 n)) as RW.
  { intros r Hr. unfold aug. rewrite (nth_map_lt _ _ r (0%nat, []) []) by (rewrite combine_length, seq_length; lia).
    rewrite (nth_combine_seq_n n m r Lm Hr). reflexivity. }
  assert (forall r c, (r < n)%nat -> (c < n)%nat -> ment ROps aug r c = ment ROps m r c) as EL.
  { intros r c Hr Hc. unfold ment, nth0. rewrite (RW r Hr). apply app_nth1. rewrite Rm by exact Hr. exact Hc. }
  assert (forall r k, (r < n)%nat -> (k < n)%nat -> ment ROps aug r (n + k) = dlt r k) as ER.
  { intros r k Hr Hk. unfold ment, nth0. rewrite (RW r Hr). rewrite app_nth2 by (rewrite Rm by exact Hr; lia).
    rewrite Rm by exact Hr. replace (n + k - n)%nat with k by lia. rewrite (nth_map_seq _ n k _ Hk). apply delta_dlt. }
  repeat split.
  - unfold aug. rewrite map_length, combine_length, seq_length. lia.
  - intros r Hr. rewrite (RW r Hr), app_length, map_length, seq_length, Rm by exact Hr. reflexivity.
  - intros r j Hr Hj. rewrite (EL r j Hr Hj).
    rewrite (rsum_ext _ (fun k => dlt r k * ment ROps m k j)).
    + symmetry. exact (rsum_dlt_r (fun k => ment ROps m k j) n r Hr).
    + intros k Hk. rewrite (ER r k Hr Hk). reflexivity.
  - intros r c _ Hc. lia.
  - intros c Hc. lia.
  - intros x Hx j Hj. rewrite <- (Hx j Hj). symmetry.
    rewrite (rsum_ext _ (fun k => dlt j k * x k)) by (intros k Hk; rewrite (ER j k Hj Hk); reflexivity).
    exact (rsum_dlt_r x n j Hj).
Qed.

(** ** Matrix::Inverse: whatever it returns is a left inverse with trivial kernel *)
Lemma inverse_correct n (m minv : list (list R)) : wf n m -> inverse ROps m = Ok minv ->
  wf n minv /\ eqn n (mm n (ment ROps minv) (ment ROps m)) dlt /\ nonsing n (ment ROps minv).
Proof.
  intros W H. pose proof W as (Lm & Rm). unfold inverse in H. unfold nrows in H. rewrite Lm in H.
  destruct (negb _); [discriminate|]. apply rbind_ok in H. destruct H as (a & HG & H).
  apply (gauss_jordan_inv n (ment ROps m) n 0 _ a ltac:(lia) (ginv_init n m W)) in HG.
  destruct HG as ((La & Ra) & Lin & Z & D & NS). inversion H as [HM]. clear H HM.
  match goal with |- wf n (map ?F _) /\ _ => set (fin := F) end.
  assert (forall r, (r < n)%nat -> nth r (map fin (combine (seq 0 n) a)) [] = map (fun x => x / ment ROps a r r) (skipn n (nth r a []))) as RW.
  { intros r Hr. rewrite (nth_map_lt _ _ r (0%nat, []) []) by (rewrite combine_length, seq_length; lia).
    rewrite (nth_combine_seq_n n a r La Hr). reflexivity. }
  assert (forall r, (r < n)%nat -> length (skipn n (nth r a [])) = n) as LS by (intros r Hr; rewrite skipn_length, Ra by exact Hr; lia).
  assert (forall r k, (r < n)%nat -> (k < n)%nat -> ment ROps (map fin (combine (seq 0 n) a)) r k = ment ROps a r (n + k) / ment ROps a r r) as EN.
  { intros r k Hr Hk. unfold ment at 1, nth0. rewrite (RW r Hr). cbn [n0 ROps].
    rewrite (nth_map_lt _ _ k 0 0) by (rewrite LS by exact Hr; exact Hk). rewrite nth_skipn_add. reflexivity. }
  split; [| split].
  - split; [rewrite map_length, combine_length, seq_length; lia|].
    intros r Hr. rewrite (RW r Hr), map_length. apply LS, Hr.
  - intros r j Hr Hj. unfold mm.
    rewrite (rsum_ext _ (fun k => / ment ROps a r r * (ment ROps a r (n + k) * ment ROps m k j))).
    2:{ intros k Hk. rewrite (EN r k Hr Hk). unfold Rdiv. ring. }
    rewrite rsum_scal. rewrite <- (Lin r j Hr Hj).
    unfold dlt. destruct (Nat.eqb_spec r j) as [-> | Hne].
    + field. apply D. exact Hj.
    + rewrite (Z r j Hr Hj Hne). ring.
  - intros x Hx. apply NS. intros r Hr. pose proof (Hx r Hr) as E. unfold mv in E.
    rewrite (rsum_ext _ (fun k => / ment ROps a r r * (ment ROps a r (n + k) * x k))) in E.
    2:{ intros k Hk. rewrite (EN r k Hr Hk). unfold Rdiv. ring. }
    rewrite rsum_scal in E. apply Rmult_integral in E. destruct E as [E | E]; [| exact E].
    exfalso. apply (Rinv_neq_0_compat _ (D r Hr)). exact E.
Qed.

(** the inverse of a symmetric matrix is symmetric, and a right inverse as well:
    B A = 1 and A = A^T give A B^T = 1, hence B = B (A B^T) = (B A) B^T = B^T *)
Lemma inverse_symmetric n (m minv : list (list R)) : wf n m -> symm n (ment ROps m) -> inverse ROps m = Ok minv ->
  symm n (ment ROps minv) /\ eqn n (mm n (ment ROps m) (ment ROps minv)) dlt.
Proof.
  intros W S H. destruct (inverse_correct n m minv W H) as (_ & LI & _).
  set (A := ment ROps m) in *. set (B := ment ROps minv) in *.
  assert (eqn n (mm n A (tr B)) dlt) as RI.
  { intros a b Ha Hb. rewrite <- (mm_eqn n (tr A) A (tr B) (tr B) (eqn_sym _ _ _ S) (eqn_refl _ _) a b Ha Hb).
    rewrite <- tr_mm. unfold tr. rewrite (LI b a Hb Ha). apply dlt_sym. }
  assert (symm n B) as SB.
  { intros a b Ha Hb.
    rewrite <- (mm_dlt_r n B a b Ha Hb).
    rewrite (mm_eqn n B B dlt (mm n A (tr B)) (eqn_refl _ _) (eqn_sym _ _ _ RI) a b Ha Hb).
    rewrite <- mm_assoc.
    rewrite (mm_eqn n (mm n B A) dlt (tr B) (tr B) LI (eqn_refl _ _) a b Ha Hb).
    apply (mm_dlt_l n (tr B) a b Ha Hb). }
  split; [exact SB|].
  intros a b Ha Hb. rewrite (mm_eqn n A A B (tr B) (eqn_refl _ _) SB a b Ha Hb). apply RI; assumption.
Qed.

(** ** Find_Eigenvector_Rayleigh returns a unit vector *)
Lemma unit_has_nonzero n (b : list R) : length b = n -> vdot ROps b b = 1 -> exists k, (k < n)%nat /\ nth k b 0 <> 0.
Proof.
  intros Lb U. destruct (all_zero_or_not (fun k => nth k b 0) n) as [Z | E]; [| exact E].
  exfalso. rewrite (vdot_rsum b b n Lb Lb) in U.
  rewrite (rsum_ext _ (fun _ => 0)), rsum_zero in U by (intros k Hk; rewrite (Z k Hk); ring). lra.
Qed.
Lemma nonsing_image_nonzero n (minv : list (list R)) (b : list R) : wf n minv -> nonsing n (ment ROps minv) ->
  length b = n -> vdot ROps b b = 1 -> 0 < vdot ROps (mvec ROps minv b) (mvec ROps minv b).
Proof.
  intros W NS Lb U.
  assert (length (mvec ROps minv b) = n) as Lw by (rewrite mvec_length; exact (proj1 W)).
  rewrite (vdot_rsum _ _ n Lw Lw).
  destruct (all_zero_or_not (fun k => nth k (mvec ROps minv b) 0) n) as [Z | (k & Hk & Hne)].
  - exfalso. destruct (unit_has_nonzero n b Lb U) as (j & Hj & Hne). apply Hne.
    apply (NS (fun j => nth j b 0)); [| exact Hj]. intros i Hi. unfold mv. rewrite <- (nth_mvec minv b n i W Lb Hi). apply Z, Hi.
  - apply (rsum_pos_term _ n k); [intros j _; apply Rle_0_sqr | exact Hk |].
    assert (0 <= nth k (mvec ROps minv b) 0 * nth k (mvec ROps minv b) 0) by apply Rle_0_sqr. nra.
Qed.
Lemma inverse_iteration_unit_n n (minv : list (list R)) : wf n minv -> nonsing n (ment ROps minv) ->
  forall k b, length b = n -> vdot ROps b b = 1 ->
  length (inverse_iteration ROps k minv b) = n /\ vdot ROps (inverse_iteration ROps k minv b) (inverse_iteration ROps k minv b) = 1.
Proof.
  intros W NS. induction k as [| k IH]; intros b Lb Hb; [split; assumption|].
  cbn [inverse_iteration].
  set (b1 := vnormalize ROps (mvec ROps minv b)).
  assert (length b1 = n) as L1 by (unfold b1, vnormalize; rewrite map_length, mvec_length; exact (proj1 W)).
  assert (vdot ROps b1 b1 = 1) as U1 by (apply vnormalize_unit, (nonsing_image_nonzero n); assumption).
  set (b2 := if nltb ROps (vdot ROps b1 b) (n0 ROps) then map (fun c => nmul ROps c (nneg ROps (n1 ROps))) b1 else b1).
  assert (length b2 = n /\ vdot ROps b2 b2 = 1) as [L2 U2].
  { unfold b2. destruct (nltb ROps (vdot ROps b1 b) (n0 ROps)); [| split; assumption].
    split; [rewrite map_length; exact L1|]. cbn [ROps nmul nneg n1]. rewrite vdot_flip. exact U1. }
  clearbody b2. destruct (nltb ROps _ _); [split; assumption | apply IH; assumption].
Qed.
Lemma start_vector_length n : length (start_vector ROps n) = n.
Proof. unfold start_vector, vnormalize. rewrite !map_length, seq_length. reflexivity. Qed.
Lemma wf_shifted n m ev : wf n m -> wf n (shifted m ev).
Proof. intros (Lm & _). unfold shifted, nrows. rewrite Lm. apply wf_mk. Qed.
Lemma rayleigh_inverse n (m : list (list R)) ev lam b : wf n m -> find_eigenvector_rayleigh ROps m ev = Ok (lam, b) ->
  exists minv, inverse ROps (shifted m ev) = Ok minv /\ b = inverse_iteration ROps 100 minv (start_vector ROps n).
Proof.
  intros (Lm & _) H. unfold find_eigenvector_rayleigh in H. apply rbind_ok in H. destruct H as (minv & HI & H).
  exists minv. split; [exact HI|]. apply ok_pair_inj in H. destruct H as [_ H2]. unfold nrows in H2. rewrite Lm in H2. symmetry. exact H2.
Qed.
Lemma rayleigh_unit_vector n (m : list (list R)) ev lam b : (0 < n)%nat -> wf n m ->
  find_eigenvector_rayleigh ROps m ev = Ok (lam, b) -> length b = n /\ vdot ROps b b = 1.
Proof.
  intros Hn W H. destruct (rayleigh_inverse n m ev lam b W H) as (minv & HI & ->).
  destruct (inverse_correct n _ minv (wf_shifted n m ev W) HI) as (Wi & _ & NS).
  apply (inverse_iteration_unit_n n minv Wi NS); [apply start_vector_length | apply start_vector_unit; exact Hn].
Qed.

(** ** the matrix the code inverts: eigenvectors of M are eigenvectors of M_inv *)
Lemma ment_shifted n m ev i j : wf n m -> (i < n)%nat -> (j < n)%nat ->
  ment ROps (shifted m ev) i j = ment ROps m i j - rayleigh_shift m ev * dlt i j.
Proof.
  intros (Lm & _) Hi Hj. unfold shifted, nrows. rewrite Lm, ment_mk by assumption. rewrite delta_dlt. reflexivity.
Qed.
Lemma eigen_list_fun n (m : list (list R)) (v : list R) lam : wf n m -> length v = n -> mvec ROps m v = map (Rmult lam) v ->
  forall i, (i < n)%nat -> rsum (fun j => ment ROps m i j * nth j v 0) n = lam * nth i v 0.
Proof.
  intros W Lv HE i Hi. rewrite <- (nth_mvec m v n i W Lv Hi), HE.
  rewrite (nth_map_lt (Rmult lam) v i 0 0) by lia. reflexivity.
Qed.
Lemma inverse_maps_eigenvectors n (m minv : list (list R)) ev (v : list R) lam : wf n m ->
  inverse ROps (shifted m ev) = Ok minv -> length v = n -> (exists k, (k < n)%nat /\ nth k v 0 <> 0) ->
  mvec ROps m v = map (Rmult lam) v ->
  lam <> rayleigh_shift m ev /\ mvec ROps minv v = map (Rmult (/ (lam - rayleigh_shift m ev))) v.
Proof.
  intros W HI Lv (k0 & Hk0 & Hne) HE.
  destruct (inverse_correct n _ minv (wf_shifted n m ev W) HI) as (Wi & LI & _).
  set (s := rayleigh_shift m ev) in *.
  pose proof (eigen_list_fun n m v lam W Lv HE) as HEf.
  assert (lam <> s) as Hls.
  { intros ->. apply Hne.
    apply (left_inverse_nonsing n (ment ROps (shifted m ev)) (ment ROps minv) LI (fun j => nth j v 0)); [| exact Hk0].
    intros i Hi. unfold mv.
    rewrite (rsum_ext _ (fun j => ment ROps m i j * nth j v 0 - s * (dlt i j * nth j v 0)))
      by (intros j Hj; rewrite (ment_shifted n m ev i j W Hi Hj); fold s; ring).
    rewrite rsum_minus, rsum_scal, (HEf i Hi), (rsum_dlt_r (fun j => nth j v 0) n i Hi). ring. }
  split; [exact Hls|].
  apply (nth_ext _ _ 0 0); [rewrite mvec_length, map_length, (proj1 Wi); lia|].
  intros i Hi. rewrite mvec_length, (proj1 Wi) in Hi.
  rewrite (nth_mvec minv v n i Wi Lv Hi), (nth_map_lt (Rmult (/ (lam - s))) v i 0 0) by lia.
  rewrite (inverse_iteration_eigenvector n (ment ROps m) (ment ROps minv) s lam (fun j => nth j v 0)); [unfold Rdiv; ring | | exact HEf | exact Hls | exact Hi].
  intros a b Ha Hb. rewrite <- (LI a b Ha Hb). unfold mm. apply rsum_ext. intros k Hk.
  rewrite (ment_shifted n m ev k b W Hk Hb). reflexivity.
Qed.

(** if the start vector (1, 1/2, .., 1/n) / |..| is an eigenvector of M, every call returns it, whichever eigenvalue is passed *)
Lemma rayleigh_start_eigenvector n (m : list (list R)) ev lam l b : (0 < n)%nat -> wf n m ->
  mvec ROps m (start_vector ROps n) = map (Rmult lam) (start_vector ROps n) ->
  find_eigenvector_rayleigh ROps m ev = Ok (l, b) -> b = start_vector ROps n /\ l = lam.
Proof.
  intros Hn W HE H. pose proof W as (Lm & _).
  destruct (rayleigh_inverse n m ev l b W H) as (minv & HI & _).
  destruct (inverse_maps_eigenvectors n m minv ev (start_vector ROps n) lam W HI (start_vector_length n)
              (unit_has_nonzero n _ (start_vector_length n) (start_vector_unit n Hn)) HE) as (Hls & HM).
  assert (nrows m = n) as Nm by exact Lm.
  assert (/ (lam - rayleigh_shift m ev) <> 0) as Hmu by (apply Rinv_neq_0_compat; lra).
  rewrite <- Nm in HM, HE.
  pose proof (rayleigh_returns_start_vector m minv ev _ ltac:(rewrite Nm; exact Hn) HI Hmu HM) as F.
  rewrite F in H. apply ok_pair_inj in H. destruct H as [H1 H2]. rewrite Nm in *. split; [symmetry; exact H2|].
  rewrite <- H1, HE.
  rewrite (vdot_map_r _ _ (Rmult lam) lam (Rmult_as_scale lam)) by reflexivity.
  rewrite (start_vector_unit n Hn). ring.
Qed.

(** for a symmetric M the returned vector is orthogonal to every eigenvector of M that the start vector is orthogonal to *)
Lemma rayleigh_keeps_orthogonality n (m : list (list R)) ev (v : list R) lam l b : (0 < n)%nat -> wf n m -> symm n (ment ROps m) ->
  length v = n -> (exists k, (k < n)%nat /\ nth k v 0 <> 0) -> mvec ROps m v = map (Rmult lam) v ->
  vdot ROps v (start_vector ROps n) = 0 ->
  find_eigenvector_rayleigh ROps m ev = Ok (l, b) -> vdot ROps v b = 0.
Proof.
  intros Hn W S Lv Hv HE Hs H.
  destruct (rayleigh_inverse n m ev l b W H) as (minv & HI & ->).
  destruct (inverse_correct n _ minv (wf_shifted n m ev W) HI) as (Wi & _ & _).
  assert (symm n (ment ROps (shifted m ev))) as SS.
  { intros a c Ha Hc. unfold tr. rewrite !(ment_shifted n m ev) by assumption. rewrite (S a c Ha Hc), (dlt_sym a c). reflexivity. }
  destruct (inverse_symmetric n _ minv (wf_shifted n m ev W) SS HI) as (SB & _).
  destruct (inverse_maps_eigenvectors n m minv ev v lam W HI Lv Hv HE) as (_ & HM).
  apply (inverse_iteration_keeps_orthogonality n minv v _ Wi SB Lv HM 100 _ (start_vector_length n) Hs).
Qed.

(** ** Non-vacuity: P = [[16, -2], [-2, 19]] (symmetric, non-singular, |P| = 25): eigenvalue 15 with eigenvector (2, 1) — the direction of the
    start vector (1, 1/2) — and eigenvalue 20 with eigenvector (1, -2), orthogonal to the start vector.  The call for the eigenvalue 20 inverts
    P - (20 + 25e-8) * 1 (Inverse returns) and, over the reals, answers with the eigenpair of 15.  (The library, in floating point, answers this
    particular call correctly: rounding noise along (1, -2) is amplified by 2e7 per step; on [[-1,-2],[-2,2]] it is not — known finding K-C15-5.) *)
Definition ex_P : list (list R) := [[16; -2]; [-2; 19]].
Lemma ex_P_norm : mnorm ROps ex_P = 25.
Proof.
  unfold mnorm, ex_P. cbn [fold_left ROps nsqrt nadd nmul n0].
  replace (0 + 16 * 16 + -2 * -2 + -2 * -2 + 19 * 19) with (25 * 25) by ring. apply sqrt_square. lra.
Qed.
Lemma ex_P_shift ev : rayleigh_shift ex_P ev = ev + 25 / 100000000.
Proof. unfold rayleigh_shift. rewrite ex_P_norm. destruct (Rltb_spec 0 25); [field | lra]. Qed.
Ltac rtests :=
  repeat match goal with
  | |- context [Reqb ?a ?b] => let H := fresh in assert (Reqb a b = false) as H by (apply Reqb_false; lra); rewrite H; clear H
  | |- context [Rltb (Rabs ?a) (Rabs ?b)] =>
      let H := fresh in assert (Rltb (Rabs a) (Rabs b) = false) as H by (apply Rltb_false; unfold Rabs; repeat destruct Rcase_abs; lra); rewrite H; clear H
  end.
Example ex_P_inverse : exists minv, inverse ROps (shifted ex_P 20) = Ok minv.
Proof.
  unfold shifted. rewrite ex_P_shift. unfold ex_P, mk.
  cbn [nrows length seq map ment nth nth0 delta Nat.eqb ROps n0 n1].
  unfold inverse, nneb.
  cbn [nrows length determinant nth0 nth ROps nmul nsub n0 neqb negb].
  rtests. cbn [negb].
  cbn [seq combine map fst snd app delta Nat.eqb n1 n0 ROps].
  cbn [gauss_jordan pivot_row seq Nat.sub fold_left ment nth nth0 ngtb nltb nabs ROps n0].
  rtests. cbn [Nat.eqb neqb ROps]. cbn [ment nth nth0 n0 ROps].
  rtests.
  cbn [eliminate length seq combine map fst snd Nat.eqb nth nth0 ROps nsub nmul ndiv n0 ment].
  rtests. cbn [rbind]. eexists. reflexivity.
Qed.
Lemma ex_P_wf : wf 2 ex_P.
Proof. split; [reflexivity|]. intros [| [| i]] Hi; cbn; try reflexivity; lia. Qed.
Lemma ex_P_symm : symm 2 (ment ROps ex_P).
Proof. intros [| [| a]] [| [| b]] Ha Hb; try lia; reflexivity. Qed.
Lemma start2 : exists N, N <> 0 /\ start_vector ROps 2 = [1 / (1 + 0) / N; 1 / (1 + 1) / N].
Proof.
  pose proof (start_vector_unit 2 ltac:(lia)) as U. unfold start_vector, vnormalize in *.
  cbn [seq map ROps ndiv nadd n1 nofZ Z.of_nat Pos.of_succ_nat] in *.
  set (N := vnorm ROps _) in *. exists N. split; [| reflexivity].
  intros E. rewrite E in U. unfold vdot in U. cbn in U. unfold Rdiv in U. rewrite Rinv_0 in U. lra.
Qed.
Example ex_P_start_eigen : mvec ROps ex_P (start_vector ROps 2) = map (Rmult 15) (start_vector ROps 2).
Proof.
  destruct start2 as (N & HN & ->). unfold mvec, vdot, ex_P. cbn. f_equal; [field; exact HN | f_equal; field; exact HN].
Qed.
Example ex_P_other_eigen :
  let v := [1; -2] in
  length v = 2%nat /\ (exists k, (k < 2)%nat /\ nth k v 0 <> 0) /\ mvec ROps ex_P v = map (Rmult 20) v /\ vdot ROps v (start_vector ROps 2) = 0.
Proof.
  cbv zeta. split; [reflexivity|]. split; [exists 0%nat; cbn; split; [lia | lra]|]. split.
  - unfold mvec, vdot, ex_P. cbn. f_equal; [ring | f_equal; ring].
  - destruct start2 as (N & HN & ->). unfold vdot. cbn. field. exact HN.
Qed.
Example ex_P_returns : exists l b, find_eigenvector_rayleigh ROps ex_P 20 = Ok (l, b).
Proof.
  destruct ex_P_inverse as (minv & HI). unfold find_eigenvector_rayleigh.
  change (inverse ROps (mk (nrows ex_P) (nrows ex_P) _)) with (inverse ROps (shifted ex_P 20)). rewrite HI. cbn [rbind].
  eexists. eexists. reflexivity.
Qed.
(** asked for the eigenvalue 20 of P, the model of Find_Eigenvector_Rayleigh answers (15, start vector): the pair belongs to the other eigenvalue *)
Lemma rayleigh_wrong_pair_example :
  find_eigenvector_rayleigh ROps ex_P 20 = Ok (15, start_vector ROps 2) /\
  mvec ROps ex_P [1; -2] = map (Rmult 20) [1; -2] /\ vdot ROps [1; -2] (start_vector ROps 2) = 0.
Proof.
  destruct ex_P_returns as (l & b & H).
  destruct (rayleigh_start_eigenvector 2 ex_P 20 15 l b ltac:(lia) ex_P_wf ex_P_start_eigen H) as (-> & ->).
  split; [exact H|]. destruct ex_P_other_eigen as (_ & _ & E & O). split; assumption.
Qed.
Lemma rayleigh_each_eigenvalue_refuted :
  exists (m : list (list R)) (ev : R) (v : list R),
    wf 2 m /\ symm 2 (ment ROps m) /\ mvec ROps m v = map (Rmult ev) v /\ v = [1; -2] /\
    exists l b, find_eigenvector_rayleigh ROps m ev = Ok (l, b) /\ l <> ev /\ vdot ROps v b = 0.
Proof.
  exists ex_P, 20, [1; -2]. destruct rayleigh_wrong_pair_example as (H & E & O).
  split; [exact ex_P_wf|]. split; [exact ex_P_symm|]. split; [exact E|]. split; [reflexivity|].
  exists 15, (start_vector ROps 2). split; [exact H|]. split; [lra | exact O].
Qed.
