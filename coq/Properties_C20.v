(** C20 — property theorems only.  Each is closed by [exact] of a lemma proved in C20_Proofs_*.v.
    The unit theorems are stated on Gen_C20_Units.v, which tools/units2v.py regenerates from
    src/Natural_Units.cpp on every run. *)
From Coq Require Import String.
From Coq Require Import ZArith Bool Reals List.
From LP Require Import Num NumR C20_Model C20_Proofs_Init Gen_C20_Units C20_Proofs_Units C20_Proofs_IO C20_Proofs_Round C20_Proofs_Session C20_Proofs_Exists C20_Proofs_Repeat
  C20_Model2 C20_Proofs_EvalN C20_Proofs_EvalN_Units C20_Proofs_Content Gen_C20_Formulas C20_GenTie.
Import ListNotations.

(** "whichever compiler and optimisation level built the library": for ANY classification [st] of the
    constants of a translation unit into statically initialised ones (constant-folded, .rodata) and
    dynamically initialised ones (run in textual order at start-up, reading whatever is in memory), if the
    decidable check [safe st ds] succeeds then after start-up every constant holds its order-free
    denotation.  Generic in the list of definitions. *)
Theorem C20_init_order_sound (st : string -> bool) (ds : defs_t) (den : env) :
  solves den ds -> safe st ds = true ->
  forall x b, In (x, b) ds -> startup st ds den x = den x.
Proof. exact (init_order_sound st ds den). Qed.
Print Assumptions C20_init_order_sound.

(** ... and the regenerated real-valued definitions [u_X] ARE an order-free denotation of the regenerated
    list [defs] (textual order of the current source), so the theorem applies to the current source for
    every measured classification that passes the check (cases_C20_cfg.v, generated per run). *)
Theorem C20_units_startup_sound (st : string -> bool) :
  safe st defs = true ->
  forall x b, In (x, b) defs -> startup st defs Gen_C20_Units.den x = Gen_C20_Units.den x.
Proof. exact (units_startup_sound st). Qed.
Print Assumptions C20_units_startup_sound.

Theorem C20_units_denotation :
  solves Gen_C20_Units.den defs /\ Forall (fun p => Gen_C20_Units.den (fst p) = snd p) den_table.
Proof. exact (conj den_solves den_table_ok). Qed.
Print Assumptions C20_units_denotation.

Local Open Scope R_scope.
(** "every derived unit constant equals its defining product of base constants (Joule=kg m^2/s^2, Newton,
    Watt, Pascal, erg, dyne, ..., Hz" — decimal literals of the source are exact rationals *)
Theorem C20_derived_units_mechanical :
  u_Joule = u_kg * u_meter ^ 2 / u_sec ^ 2 /\ u_Newton = u_kg * u_meter / u_sec ^ 2 /\
  u_Watt = u_Joule / u_sec /\ u_Pa = u_Newton / u_meter ^ 2 /\
  u_erg = u_gram * u_cm ^ 2 / u_sec ^ 2 /\ u_erg = u_Joule / 10000000 /\
  u_dyne = u_gram * u_cm / u_sec ^ 2 /\ u_dyne = u_Newton / 100000 /\
  u_Hz * u_sec = 1 /\ u_kg = 1000 * u_gram /\ u_cal = 4184 / 1000 * u_Joule /\
  u_bar = 100000 * u_Pa /\ u_barye = u_Pa / 10 /\ u_meter / u_sec = 1 / 299792458 /\
  0 < u_gram /\ 0 < u_cm /\ 0 < u_sec.
Proof. exact derived_units_mechanical. Qed.
Print Assumptions C20_derived_units_mechanical.

(** "Volt*Coulomb=Joule, Ohm=Volt/Ampere, Tesla" *)
Theorem C20_derived_units_electrical :
  u_Volt * u_Coulomb = u_Joule /\ u_Ampere = u_Coulomb / u_sec /\ u_Ohm = u_Volt / u_Ampere /\
  u_Watt = u_Volt * u_Ampere /\ u_Farad = u_Coulomb / u_Volt /\ u_Siemens * u_Ohm = 1 /\
  u_Tesla = u_Newton * u_sec / (u_Coulomb * u_meter) /\ u_Tesla = u_kg / (u_Coulomb * u_sec) /\
  u_Tesla = u_Volt * u_sec / u_meter ^ 2 /\ u_Gauss = u_Tesla / 10000 /\ u_Weber = u_Volt * u_sec /\
  0 < u_Coulomb.
Proof. exact derived_units_electrical. Qed.
Print Assumptions C20_derived_units_electrical.

(** "time and length multiples" (and the energy multiples) *)
Theorem C20_unit_multiples :
  (u_ms = u_sec / 1000 /\ u_ns = u_sec / 1000000000 /\ u_minute = 60 * u_sec /\ u_hr = 3600 * u_sec /\
   u_day = 86400 * u_sec /\ u_week = 604800 * u_sec /\ u_year = 31557600 * u_sec) /\
  (u_cm = u_meter / 100 /\ u_mm = u_meter / 1000 /\ u_km = 1000 * u_meter /\
   u_fm = u_meter / 1000000000000000 /\ u_Angstrom = u_meter / 10000000000 /\
   u_inch = 254 / 10000 * u_meter /\ u_foot = 3048 / 10000 * u_meter /\ u_yard = 9144 / 10000 * u_meter /\
   u_mile = 1609344 / 1000 * u_meter) /\
  (u_meV = u_eV / 1000 /\ u_keV = 1000 * u_eV /\ u_MeV = 1000000 * u_eV /\ u_GeV = 1000000000 * u_eV /\
   u_TeV = 1000000000000 * u_eV /\ u_PeV = 1000000000000000 * u_eV /\ u_GeV = 1).
Proof. exact unit_multiples. Qed.
Print Assumptions C20_unit_multiples.

(** "In_Units undoes multiplication by a unit for scalars, lists, tables, vectors and matrices" (the Vector
    and Matrix overloads are the same loops over the same element function) *)
Theorem C20_in_units_undoes :
  (forall x dim d, dim <> 0 -> in_units ROps (x * dim) dim false d = Ok x) /\
  (forall xs dim d, dim <> 0 -> in_units_list ROps (map (fun x => x * dim) xs) dim false d = Ok xs) /\
  (forall xs dim d, dim <> 0 -> in_units_vector ROps (map (fun x => x * dim) xs) dim false d = Ok xs) /\
  (forall t dim d, dim <> 0 -> in_units_table ROps (map (map (fun x => x * dim)) t) dim false d = Ok t) /\
  (forall t dim d, dim <> 0 -> in_units_matrix ROps (map (map (fun x => x * dim)) t) dim false d = Ok t) /\
  (forall t dims d, Forall (fun dm => dm <> 0) dims -> Forall (fun row => length row = length dims) t ->
     in_units_table_dims ROps (map (fun row => map (fun xd => fst xd * snd xd) (combine row dims)) t) dims false d = Ok t).
Proof.
  exact (conj in_units_undoes (conj in_units_list_undoes (conj in_units_list_undoes
        (conj in_units_table_undoes (conj in_units_table_undoes in_units_table_dims_undoes))))).
Qed.
Print Assumptions C20_in_units_undoes.
Local Close Scope R_scope.

(** "(and rounds to the requested digits when asked)"; shapes are preserved and the element function is
    In_Units of the corresponding entry, for every number type (IEEE doubles included); a row whose length
    differs from the number of dimensions, more than 7 digits, or a negative digit count terminate the process *)
Theorem C20_in_units_elementwise {T} (Ops : NumOps T) :
  (forall q dim d, in_units Ops q dim false d = Ok (ndiv Ops q dim)) /\
  (forall q dim d, in_units Ops q dim true d = round_m Ops (ndiv Ops q dim) (u32 d)) /\
  (forall q dim d, (d < 0 \/ 7 < d)%Z -> (- 2147483648 <= d < 2147483648)%Z -> in_units Ops q dim true d = Exit) /\
  (forall qs dim r d l, in_units_list Ops qs dim r d = Ok l ->
     length l = length qs /\ Forall2 (fun q y => in_units Ops q dim r d = Ok y) qs l) /\
  (forall qs dim r d t, in_units_table Ops qs dim r d = Ok t ->
     length t = length qs /\
     Forall2 (fun row trow => length trow = length row /\
                Forall2 (fun q y => in_units Ops q dim r d = Ok y) row trow) qs t) /\
  (forall qs dims r d t, in_units_table_dims Ops qs dims r d = Ok t ->
     length t = length qs /\
     Forall2 (fun row trow => length row = length dims /\ length trow = length row /\
                Forall2 (fun qd y => in_units Ops (fst qd) (snd qd) r d = Ok y) (combine row dims) trow) qs t) /\
  (forall qs dims r d row, In row qs -> length row <> length dims -> in_units_table_dims Ops qs dims r d = Exit).
Proof.
  exact (conj (in_units_noround Ops) (conj (in_units_round Ops) (conj (in_units_round_exit Ops)
        (conj (in_units_list_spec Ops) (conj (in_units_table_spec Ops)
        (conj (in_units_table_dims_spec Ops) (in_units_table_dims_mismatch Ops))))))).
Qed.
Print Assumptions C20_in_units_elementwise.

(** "(and rounds to the requested digits when asked)", over the reals: for digits 1..7 the result of
    In_Units(q, dim, true, digits) is an integer multiple of 10^(k-digits+1), k = floor(log10 |q/dim|), at
    distance at most half that unit from q/dim; a zero quotient gives 0 *)
Theorem C20_in_units_rounds (q dim : R) (d : Z) : (1 <= d <= 7)%Z ->
  let v := (q / dim)%R in
  (v = 0%R -> in_units ROps q dim true d = Ok 0%R) /\
  (v <> 0%R ->
   let k := Int_part (ln (Rabs v) / ln 10) in
   let unit := powerRZ 10 (k - d + 1) in
   exists r, in_units ROps q dim true d = Ok r /\ (Rabs (r - v) <= unit / 2)%R /\ exists m : Z, r = (IZR m * unit)%R).
Proof. exact (in_units_rounds q dim d). Qed.
Print Assumptions C20_in_units_rounds.

(** "Writing a ... table ... with Export_Table and reading it back with Import_Table using the same unit
    factors and the number of header lines written returns the same shape": for every number type, every
    rectangular table with >= 1 row and >= 1 column, every header (any number of lines, any tokens, numbers
    included), no or one unit factor per column: Count_Lines = header lines + rows, and the table read back
    is, entry by entry, fmt6(x / dim_j) * dim_j.  [fmt6 y] = the number `>>` reads from the text `<<` wrote. *)
Theorem C20_roundtrip_table_shape {T} (Ops : NumOps T) (fmt6 : T -> T)
    (header : list (@line T)) (tbl : list (list T)) (dims : list T) (c : nat) :
  tbl <> [] -> (1 <= c)%nat -> rect c tbl -> dims = [] \/ length dims = c ->
  (Z.of_nat (length header + length tbl) < 4294967296)%Z -> (Z.of_nat (length tbl * c) < 4294967296)%Z ->
  roundtrip_table Ops fmt6 header tbl dims (length header) =
  Ok (Z.of_nat (length header + length tbl),
      map (mapi_from 0 (fun j x => nmul Ops (fmt6 (ndiv Ops x (dim_at Ops dims j))) (dim_at Ops dims j))) tbl).
Proof. exact (roundtrip_table_eq Ops fmt6 header tbl dims c). Qed.
Print Assumptions C20_roundtrip_table_shape.

(** "... and every value to six significant digits, for any finite values and units": over the reals, with
    the accuracy of the six-significant-digit text format as the premise [Hfmt] (that iostreams implement
    such an fmt6 is not a theorem; it is checked on every run). *)
Theorem C20_reshape_roundtrip (fmt6 : R -> R)
    (Hfmt : forall y, (Rabs (fmt6 y - y) <= 5 / 1000000 * Rabs y)%R)
    (header : list (@line R)) (tbl : list (list R)) (dims : list R) (c : nat) :
  tbl <> [] -> (1 <= c)%nat -> rect c tbl ->
  dims = [] \/ (length dims = c /\ Forall (fun d => d <> 0%R) dims) ->
  (Z.of_nat (length header + length tbl) < 4294967296)%Z -> (Z.of_nat (length tbl * c) < 4294967296)%Z ->
  exists t, roundtrip_table ROps fmt6 header tbl dims (length header) = Ok (Z.of_nat (length header + length tbl), t) /\
    length t = length tbl /\ rect c t /\
    forall i j, (i < length tbl)%nat -> (j < c)%nat ->
      let x := nth j (nth i tbl []) 0%R in
      let y := nth j (nth i t []) 0%R in
      (y = fmt6 (x / dim_at ROps dims j) * dim_at ROps dims j /\ Rabs (y - x) <= 5 / 1000000 * Rabs x)%R.
Proof. exact (reshape_roundtrip fmt6 Hfmt header tbl dims c). Qed.
Print Assumptions C20_reshape_roundtrip.

(** the same for Export_List / Import_List (any length, the empty list included) *)
Theorem C20_list_roundtrip (fmt6 : R -> R)
    (Hfmt : forall y, (Rabs (fmt6 y - y) <= 5 / 1000000 * Rabs y)%R)
    (header : list (@line R)) (data : list R) (dim : R) : dim <> 0%R ->
  exists l, roundtrip_list ROps fmt6 header data dim = Ok l /\ length l = length data /\
    forall i, (i < length data)%nat ->
      (Rabs (nth i l 0 - nth i data 0) <= 5 / 1000000 * Rabs (nth i data 0))%R.
Proof. exact (list_roundtrip fmt6 Hfmt header data dim). Qed.
Print Assumptions C20_list_roundtrip.

(** ... and for Export_Function: the rows read back are (x, f(x)) through the same format and units *)
Theorem C20_function_roundtrip {T} (Ops : NumOps T) (fmt6 : T -> T)
    (header : list (@line T)) (func : T -> T) (xs : list T) (dims : list T) :
  xs <> [] -> dims = [] \/ length dims = 2%nat ->
  (Z.of_nat (length header + length xs) < 4294967296)%Z -> (Z.of_nat (length xs * 2) < 4294967296)%Z ->
  roundtrip_function_list Ops fmt6 header func xs dims =
  Ok (Z.of_nat (length header + length xs),
      map (fun x => [back Ops fmt6 dims 0 x; back Ops fmt6 dims 1 (func x)]) xs).
Proof. exact (roundtrip_function_eq Ops fmt6 header func xs dims). Qed.
Print Assumptions C20_function_roundtrip.

(** Reduced_Mass *)
Theorem C20_reduced_mass (m1 m2 : R) :
  reduced_mass ROps m1 m2 = reduced_mass ROps m2 m1 /\
  ((0 < m1)%R -> (0 < m2)%R ->
   (0 < reduced_mass ROps m1 m2 /\ reduced_mass ROps m1 m2 < m1 /\ reduced_mass ROps m1 m2 < m2)%R).
Proof. exact (conj (reduced_mass_sym m1 m2) (reduced_mass_below m1 m2)). Qed.
Print Assumptions C20_reduced_mass.

(** ---------------------------------------------------------------------------------------------------------
    Fourth pass: the readers on ARBITRARY files, the guards, Export_Function over a range, and sessions of calls. *)

(** Export_List / Import_List for every number type (IEEE doubles included): the values read back, entry by entry, and
    Count_Lines = header lines + values (the empty list included). *)
Theorem C20_list_roundtrip_shape {T} (Ops : NumOps T) (fmt6 : T -> T) (header : list (@line T)) (data : list T) (dim : T) :
  (Z.of_nat (length header + length data) < 4294967296)%Z ->
  roundtrip_list Ops fmt6 header data dim = Ok (map (fun x => nmul Ops (fmt6 (ndiv Ops x dim)) dim) data) /\
  count_lines (Some (export_list Ops fmt6 header data dim)) = Z.of_nat (length header + length data).
Proof. exact (roundtrip_list_shape Ops fmt6 header data dim). Qed.
Print Assumptions C20_list_roundtrip_shape.

(** Export_Function(file, f, xMin, xMax, steps, units, logarithmic, header) then Import_Table: the grid has `steps` points
    (one point when steps < 2 or xMin == xMax), Count_Lines = header lines + points, and the rows read back are
    (x, f(x)) through the same format and units — for every number type, linear and logarithmic grids. *)
Theorem C20_function_range_roundtrip {T} (Ops : NumOps T) (fmt6 : T -> T)
    (header : list (@line T)) (func : T -> T) (mn mx : T) (steps : nat) (dims : list T) (lg : bool) :
  dims = [] \/ length dims = 2%nat ->
  (Z.of_nat (length header + Nat.max 1 steps) < 4294967296)%Z -> (Z.of_nat (Nat.max 1 steps * 2) < 4294967296)%Z ->
  let xs := grid Ops mn mx steps lg in
  (length xs = if (Nat.ltb steps 2) || neqb Ops mn mx then 1%nat else steps) /\
  roundtrip_function_range Ops fmt6 header func mn mx steps dims lg =
  Ok (Z.of_nat (length header + length xs), map (fun x => [back Ops fmt6 dims 0 x; back Ops fmt6 dims 1 (func x)]) xs).
Proof. exact (roundtrip_function_range_eq Ops fmt6 header func mn mx steps dims lg). Qed.
Print Assumptions C20_function_range_roundtrip.

(** Import_Table on ANY file (written by Export_Table or not), any units, any number of ignored lines: whenever it
    returns, there is at least one line after the ignored ones, every such line starts with exactly the same number
    cols >= 1 of numbers, the units are none or one per column, and the answer is these numbers in reading order, one row
    per line, each multiplied by its column's unit.  (Otherwise it terminates the process: the model has no third outcome.) *)
Theorem C20_import_table_sound {T} (Ops : NumOps T) (fl : @file T) (dims : list T) (ign : nat) (t : list (list T)) :
  (Z.of_nat (length fl) < 4294967296)%Z ->
  (Z.of_nat (length (read_nums (after_header fl ign))) < 4294967296)%Z ->
  import_table Ops (Some fl) dims ign = Ok t ->
  let nums := read_nums (after_header fl ign) in
  let rows := (length fl - ign)%nat in
  exists cols : nat,
    (1 <= rows)%nat /\ (1 <= cols)%nat /\ length nums = (rows * cols)%nat /\
    Forall (fun l => length (read_nums l) = cols) (skipn ign fl) /\
    (dims = [] \/ length dims = cols) /\
    t = map (mapi_from 0 (fun j x => nmul Ops x (dim_at Ops dims j))) (chunks rows cols nums) /\
    length t = rows /\ rect cols t /\ concat (chunks rows cols nums) = nums.
Proof. exact (import_table_sound Ops fl dims ign t). Qed.
Print Assumptions C20_import_table_sound.

(** the guards: a file that cannot be opened terminates both readers (Count_Lines gives 0); no line after the ignored
    ones, or no number, terminates Import_Table; a row whose length differs from the number of unit factors terminates
    Export_Table *)
Theorem C20_io_guards {T} (Ops : NumOps T) (fmt6 : T -> T) (dims : list T) (dim : T) (ign : nat) :
  (import_table Ops None dims ign = Exit /\ import_list Ops None dim ign = Exit /\ count_lines (@None (@file T)) = 0%Z /\
   (forall fl, (length fl <= ign)%nat -> (Z.of_nat (length fl) < 4294967296)%Z -> import_table Ops (Some fl) dims ign = Exit) /\
   (forall fl, read_nums (after_header fl ign) = [] -> import_table Ops (Some fl) dims ign = Exit)) /\
  (forall header data row, dims <> [] -> In row data -> length row <> length dims ->
     export_table Ops fmt6 header data dims = Exit).
Proof. exact (conj (import_guards Ops dims dim ign) (fun header data row => export_table_mismatch Ops fmt6 header data dims row)). Qed.
Print Assumptions C20_io_guards.

(** Sessions.  In ONE process: any calls [before] — exports to any path, the path p itself included, with longer or
    shorter content or of the other kind; imports; line counts — that do not terminate the process, then Export_Table to
    p, then any calls [between] that do not export to p, then Import_Table from p with the same units and the number of
    header lines written, and Count_Lines: the two answers are those of the single round trip, whatever came before
    (induction over both call sequences; the invariant is that a call not exporting to p leaves the file at p alone). *)
Theorem C20_session_table_roundtrip {T} (Ops : NumOps T) (fmt6 : T -> T)
    (fs : @fsys T) before fs1 outs1 p header tbl dims c between fs2 outs2 :
  io_run Ops fmt6 fs before = Ok (fs1, outs1) ->
  tbl <> [] -> (1 <= c)%nat -> rect c tbl -> dims = [] \/ length dims = c ->
  (Z.of_nat (length header + length tbl) < 4294967296)%Z -> (Z.of_nat (length tbl * c) < 4294967296)%Z ->
  forall fexp, export_table Ops fmt6 header tbl dims = Ok fexp ->
  io_run Ops fmt6 (fs_put fs1 p fexp) between = Ok (fs2, outs2) ->
  Forall (fun o => writes o <> Some p) between ->
  io_run Ops fmt6 fs (before ++ OExportTable p header tbl dims :: between ++ [OImportTable p dims (length header); OCountLines p]) =
  Ok (fs2, outs1 ++ RUnit :: outs2 ++ [RTable (map (mapi_from 0 (back Ops fmt6 dims)) tbl);
                                        RCount (Z.of_nat (length header + length tbl))]).
Proof. exact (session_table_roundtrip Ops fmt6 fs before fs1 outs1 p header tbl dims c between fs2 outs2). Qed.
Print Assumptions C20_session_table_roundtrip.

Theorem C20_session_list_roundtrip {T} (Ops : NumOps T) (fmt6 : T -> T)
    (fs : @fsys T) before fs1 outs1 p header data dim between fs2 outs2 :
  io_run Ops fmt6 fs before = Ok (fs1, outs1) ->
  (Z.of_nat (length header + length data) < 4294967296)%Z ->
  io_run Ops fmt6 (fs_put fs1 p (export_list Ops fmt6 header data dim)) between = Ok (fs2, outs2) ->
  Forall (fun o => writes o <> Some p) between ->
  io_run Ops fmt6 fs (before ++ OExportList p header data dim :: between ++ [OImportList p dim (length header); OCountLines p]) =
  Ok (fs2, outs1 ++ RUnit :: outs2 ++ [RList (map (fun x => nmul Ops (fmt6 (ndiv Ops x dim)) dim) data);
                                        RCount (Z.of_nat (length header + length data))]).
Proof. exact (session_list_roundtrip Ops fmt6 fs before fs1 outs1 p header data dim between fs2 outs2). Qed.
Print Assumptions C20_session_list_roundtrip.

(** the invariant itself, and: a session that is not terminated answers every call *)
Theorem C20_session_invariant {T} (Ops : NumOps T) (fmt6 : T -> T) (ops : list (@io_op T)) (fs fs' : @fsys T) outs :
  io_run Ops fmt6 fs ops = Ok (fs', outs) ->
  length outs = length ops /\
  forall p, Forall (fun o => writes o <> Some p) ops -> fs_get fs' p = fs_get fs p.
Proof. exact (fun H => conj (run_length Ops fmt6 ops fs fs' outs H) (fun p => run_preserves Ops fmt6 ops fs fs' outs p H)). Qed.
Print Assumptions C20_session_invariant.

(** non-vacuity: a 3 x 3 table is written to path 0 and read; then the (shorter) 1 x 2 table with a two-line header and two
    units goes to the same path, a list goes to path 1 and is read, and the table read back from path 0 is the short one *)
Example C20_session_example : session_example_stmt.
Proof. exact session_example. Qed.

(** ---------------------------------------------------------------------------------------------------------
    Fifth pass: Export_Function with ANY list of arguments, and as a call of a session.

    "Writing a ... tabulated function with Export_Function and reading it back ... returns the same shape": one row per
    argument of x_list.  There is NO premise on the arguments — unsorted lists, the same argument several times (two grids
    joined at their common end point, 0.0 next to -0.0), arguments the six-digit text cannot tell apart: the number of rows
    read back is the number of arguments, the line count is header lines + arguments, and equal arguments give equal rows. *)
Theorem C20_function_rows_one_per_argument {T} (Ops : NumOps T) (fmt6 : T -> T)
    (header : list (@line T)) (func : T -> T) (xs dims : list T) c t :
  xs <> [] -> dims = [] \/ length dims = 2%nat ->
  (Z.of_nat (length header + length xs) < 4294967296)%Z -> (Z.of_nat (length xs * 2) < 4294967296)%Z ->
  roundtrip_function_list Ops fmt6 header func xs dims = Ok (c, t) ->
  length t = length xs /\ c = Z.of_nat (length header + length xs) /\
  forall i j, (i < length xs)%nat -> (j < length xs)%nat -> nth i xs (n0 Ops) = nth j xs (n0 Ops) -> nth i t [] = nth j t [].
Proof. exact (function_rows_one_per_argument Ops fmt6 header func xs dims c t). Qed.
Print Assumptions C20_function_rows_one_per_argument.

(** In ONE process: any calls [before] that do not terminate it (exports of lists, tables, functions to any path, p
    included; imports; line counts), then Export_Function(p, f, x_list, units, header), then any calls [between] not
    exporting to p, then Import_Table from p with the same units and the header lines written, and Count_Lines: the rows are
    (x_i, f(x_i)) through format and units, one per argument in the order of x_list, whatever came before. *)
Theorem C20_session_function_roundtrip {T} (Ops : NumOps T) (fmt6 : T -> T)
    (fs : @fsys T) before fs1 outs1 p header (func : T -> T) xs dims between fs2 outs2 :
  io_run Ops fmt6 fs before = Ok (fs1, outs1) ->
  xs <> [] -> dims = [] \/ length dims = 2%nat ->
  (Z.of_nat (length header + length xs) < 4294967296)%Z -> (Z.of_nat (length xs * 2) < 4294967296)%Z ->
  forall fexp, export_function_list Ops fmt6 header func xs dims = Ok fexp ->
  io_run Ops fmt6 (fs_put fs1 p fexp) between = Ok (fs2, outs2) ->
  Forall (fun o => writes o <> Some p) between ->
  io_run Ops fmt6 fs (before ++ OExportFunction p header func xs dims :: between ++ [OImportTable p dims (length header); OCountLines p]) =
  Ok (fs2, outs1 ++ RUnit :: outs2 ++ [RTable (map (fun x => [back Ops fmt6 dims 0 x; back Ops fmt6 dims 1 (func x)]) xs);
                                        RCount (Z.of_nat (length header + length xs))]).
Proof. exact (session_function_roundtrip Ops fmt6 fs before fs1 outs1 p header func xs dims between fs2 outs2). Qed.
Print Assumptions C20_session_function_roundtrip.

(** ... and the range overload Export_Function(p, f, xMin, xMax, steps, units, logarithmic, header) as a call of a session:
    `steps` rows (one when steps < 2 or xMin == xMax) — also when the spacing is below the resolution of the number type and
    neighbouring grid points coincide. *)
Theorem C20_session_function_range_roundtrip {T} (Ops : NumOps T) (fmt6 : T -> T)
    (fs : @fsys T) before fs1 outs1 p header (func : T -> T) a b steps lg dims between fs2 outs2 :
  let xs := grid Ops a b steps lg in
  io_run Ops fmt6 fs before = Ok (fs1, outs1) ->
  dims = [] \/ length dims = 2%nat ->
  (Z.of_nat (length header + Nat.max 1 steps) < 4294967296)%Z -> (Z.of_nat (Nat.max 1 steps * 2) < 4294967296)%Z ->
  forall fexp, export_function_list Ops fmt6 header func xs dims = Ok fexp ->
  io_run Ops fmt6 (fs_put fs1 p fexp) between = Ok (fs2, outs2) ->
  Forall (fun o => writes o <> Some p) between ->
  (length xs = if (Nat.ltb steps 2) || neqb Ops a b then 1%nat else steps) /\
  io_run Ops fmt6 fs (before ++ OExportFunctionRange p header func a b steps dims lg :: between ++ [OImportTable p dims (length header); OCountLines p]) =
  Ok (fs2, outs1 ++ RUnit :: outs2 ++ [RTable (map (fun x => [back Ops fmt6 dims 0 x; back Ops fmt6 dims 1 (func x)]) xs);
                                        RCount (Z.of_nat (length header + length xs))]).
Proof. exact (session_function_range_roundtrip Ops fmt6 fs before fs1 outs1 p header func a b steps lg dims between fs2 outs2). Qed.
Print Assumptions C20_session_function_range_roundtrip.

(** non-vacuity: x -> x*x tabulated at 1, 2, 2, 3 over an older table at the same path; four rows read back, five lines *)
Example C20_session_function_example : session_function_example_stmt.
Proof. exact session_function_example. Qed.

(** ---------------------------------------------------------------------------------------------------------
    Sixth pass: File_Exists as a call of a session, and sessions that repeat a block of calls.

    The round trip is claimed "for any finite values and units" — in any program, also one that asks File_Exists(path)
    before importing (the usual idiom) and one that runs for a long time.  In the model File_Exists is stat(): it opens
    nothing, keeps nothing, changes nothing.  TRANSPARENCY: deleting every File_Exists call from ANY session gives a session
    that ends in the same way (terminated or not, same kind of termination), in the same file system, with the same answers
    of all other calls.  (That the library's File_Exists holds no per-process resource either is tested, not proved:
    `lsession` cases under a lowered descriptor limit.) *)
Theorem C20_file_exists_transparent {T} (Ops : NumOps T) (fmt6 : T -> T) (ops : list (@io_op T)) (fs : @fsys T) :
  io_run Ops fmt6 fs (without_fe ops) = rmap (fun s => (fst s, without_bool (snd s))) (io_run Ops fmt6 fs ops).
Proof. exact (file_exists_transparent Ops fmt6 ops fs). Qed.
Print Assumptions C20_file_exists_transparent.

(** its own answer: (a) any calls [before], a call [e] exporting to p (list, table, function list or range), ANY calls
    [after] — further exports to p included —, none terminating the process, then File_Exists(p): true;
    (b) after any calls none of which exports to p, File_Exists(p) answers as it would have at the start. *)
Theorem C20_file_exists_answer {T} (Ops : NumOps T) (fmt6 : T -> T) (fs : @fsys T) p :
  (forall before fs1 outs1 e fs2 r after fs3 outs3,
     io_run Ops fmt6 fs before = Ok (fs1, outs1) -> writes e = Some p -> io_step Ops fmt6 fs1 e = Ok (fs2, r) ->
     io_run Ops fmt6 fs2 after = Ok (fs3, outs3) ->
     io_run Ops fmt6 fs (before ++ e :: after ++ [OFileExists p]) = Ok (fs3, outs1 ++ r :: outs3 ++ [RBool true])) /\
  (forall ops fs1 outs1,
     io_run Ops fmt6 fs ops = Ok (fs1, outs1) -> Forall (fun o => writes o <> Some p) ops ->
     io_run Ops fmt6 fs (ops ++ [OFileExists p]) = Ok (fs1, outs1 ++ [RBool (file_exists (fs_get fs p))])).
Proof.
  exact (conj (fun before fs1 outs1 e fs2 r after fs3 outs3 => file_exists_after_export Ops fmt6 fs before fs1 outs1 e fs2 r p after fs3 outs3)
              (fun ops fs1 outs1 => file_exists_before_export Ops fmt6 fs ops fs1 outs1 p)).
Qed.
Print Assumptions C20_file_exists_answer.

Example C20_file_exists_example : exists_example_stmt.
Proof. exact exists_example. Qed.

(** REPETITION (long sessions).  A block of calls — exports, imports, line counts, File_Exists, over any paths — is made in
    a process and then a second time, neither terminating it.  Then it can be made ANY number n of further times: the
    process is never terminated, every repetition gives exactly the answers of the second one, and every path holds what
    the first time left there.  (Induction over n; the invariants: a call sees the file system only through the file at its
    path, and what a call writes does not depend on what the file system held.)  The first time may answer differently —
    it sees the files the process started with (Example below: File_Exists false, then true). *)
Theorem C20_session_repetition {T} (Ops : NumOps T) (fmt6 : T -> T) (block : list (@io_op T)) (fs fs1 fs2 : @fsys T) outs1 outs2 :
  io_run Ops fmt6 fs block = Ok (fs1, outs1) -> io_run Ops fmt6 fs1 block = Ok (fs2, outs2) ->
  forall n, exists fsn, io_run Ops fmt6 fs (block ++ times n block) = Ok (fsn, outs1 ++ times n outs2) /\ fs_eq fsn fs1.
Proof. exact (session_repetition Ops fmt6 block fs fs1 outs1 fs2 outs2). Qed.
Print Assumptions C20_session_repetition.

Example C20_session_repetition_example : repetition_example_stmt.
Proof. exact repetition_example. Qed.


(** ** Seventh pass *)

(** T-tie: "In_Units undoes multiplication by a unit for scalars ... (and rounds to the requested digits when asked)" — the scalar
    In_Units REGENERATED from src/Natural_Units.cpp by clang's AST on every run is the hand model, in every number type (Round, of
    Special_Functions.cpp, instantiated with the hand model round_m); for ANY Round it divides and, when asked, hands the quotient and
    the digits converted to unsigned to Round. *)
Theorem C20_generated_In_Units_is_model :
  forall (T : Type) (Ops : NumOps T) (q dim : T) (round : bool) (digits : Z),
    g_In_Units Ops (round_m Ops) q dim round digits = in_units Ops q dim round digits.
Proof. exact generated_In_Units_is_model. Qed.
Print Assumptions C20_generated_In_Units_is_model.

Theorem C20_generated_In_Units_shape :
  forall (T : Type) (Ops : NumOps T) (round_f : T -> Z -> res T) (q dim : T) (round : bool) (digits : Z),
    g_In_Units Ops round_f q dim round digits =
    if round then round_f (ndiv Ops q dim) (digits mod 4294967296)%Z else Ok (ndiv Ops q dim).
Proof. exact generated_In_Units_shape. Qed.
Print Assumptions C20_generated_In_Units_shape.

Theorem C20_generated_Reduced_Mass_is_model :
  forall (T : Type) (Ops : NumOps T) (round_f : T -> Z -> res T) (m1 m2 : T),
    g_Reduced_Mass Ops round_f m1 m2 = reduced_mass Ops m1 m2.
Proof. exact generated_Reduced_Mass_is_model. Qed.
Print Assumptions C20_generated_Reduced_Mass_is_model.

(** "every derived unit constant equals its defining product of base constants ... whichever compiler and optimisation level built the
    library" — now also for the number type the library computes in.  [evalN] evaluates an initialiser of Natural_Units.cpp in ANY number
    type (its double instance is run against the library's constants on every run); at the reals it is the [eval] of the theorems above. *)
Theorem C20_evalN_is_eval_at_reals (e : string -> R) (x : expr) : evalN ROps PI e x = eval e x.
Proof. exact (evalN_R e x). Qed.
Print Assumptions C20_evalN_is_eval_at_reals.

(** the start-up theorem in EVERY number type (doubles as they are — no law of the arithmetic is used): for any classification
    passing [safe], and any environment [den] solving the defining equations in that arithmetic, every constant holds den after start-up *)
Theorem C20_startup_any_number_type {T} (Ops : NumOps T) (pi_c : T) (st : string -> bool) (ds : defs_t) (den : string -> T) :
  solvesN Ops pi_c den ds -> safe st ds = true ->
  forall x b, In (x, b) ds -> startupN Ops pi_c st ds den x = den x.
Proof. exact (init_order_sound_N Ops pi_c st ds den). Qed.
Print Assumptions C20_startup_any_number_type.

(** compile-time folding (the initialisers of the named constants inlined recursively), in every number type: whenever it terminates
    it yields the denotation; hence a constant holds its folded value after start-up whatever safe classification the compiler chose *)
Theorem C20_fold_is_denotation {T} (Ops : NumOps T) (pi_c : T) (den : string -> T) (ds : defs_t) x v :
  solvesN Ops pi_c den ds -> fold_const Ops pi_c ds x = Ok v -> v = den x.
Proof. exact (fold_const_sound Ops pi_c den ds x v). Qed.
Print Assumptions C20_fold_is_denotation.

Theorem C20_startup_is_fold {T} (Ops : NumOps T) (pi_c : T) st ds (den : string -> T) x b v :
  solvesN Ops pi_c den ds -> safe st ds = true -> In (x, b) ds -> fold_const Ops pi_c ds x = Ok v ->
  startupN Ops pi_c st ds den x = v.
Proof. exact (startup_is_fold Ops pi_c st ds den x b v). Qed.
Print Assumptions C20_startup_is_fold.

(** ... on the regenerated definitions: the hypotheses are satisfiable (the real denotation solves them), folding Joule terminates *)
Theorem C20_units_fold_is_denotation x v : fold_const ROps PI defs x = Ok v -> v = den x.
Proof. exact (units_fold_is_denotation x v). Qed.
Print Assumptions C20_units_fold_is_denotation.
Example C20_units_solvesN : solvesN ROps PI den defs.
Proof. exact den_solvesN. Qed.
Example C20_fold_Joule_terminates : exists v, fold_const ROps PI defs "Joule"%string = Ok v.
Proof. exact fold_Joule_terminates. Qed.

(** "reading it back with Import_List/Import_Table ... returns the same shape and every value" in every program: what a reading call
    (Import_List, Import_Table, Count_Lines, File_Exists) answers depends on the CONTENT of the file at its path and on its arguments
    only — after two sessions of any calls from any file systems that leave the same content at the path the answers are the same, and
    they are the answers of a fresh process that holds nothing but this file.  (No memory of earlier files, paths, sizes or shapes.) *)
Theorem C20_import_depends_on_content_only {T} (Ops : NumOps T) (fmt6 : T -> T)
    (fsA fsB fs1 fs2 : @fsys T) (opsA opsB : list (@io_op T)) outsA outsB (o : @io_op T) p :
  io_run Ops fmt6 fsA opsA = Ok (fs1, outsA) -> io_run Ops fmt6 fsB opsB = Ok (fs2, outsB) ->
  reads o = Some p -> fs_get fs1 p = fs_get fs2 p ->
  answer Ops fmt6 fs1 o = answer Ops fmt6 fs2 o.
Proof. exact (session_read_depends_on_content_only Ops fmt6 fsA fsB fs1 fs2 opsA opsB outsA outsB o p). Qed.
Print Assumptions C20_import_depends_on_content_only.

Theorem C20_read_as_fresh_process {T} (Ops : NumOps T) (fmt6 : T -> T) (fs : @fsys T) (o : @io_op T) p f :
  reads o = Some p -> fs_get fs p = Some f -> answer Ops fmt6 fs o = answer Ops fmt6 (fs_put [] p f) o.
Proof. exact (read_as_fresh_process Ops fmt6 fs o p f). Qed.
Print Assumptions C20_read_as_fresh_process.
