(** C20 — property theorems only.  Each is closed by [exact] of a lemma proved in C20_Proofs_*.v.
    The unit theorems are stated on Gen_C20_Units.v, which tools/units2v.py regenerates from
    src/Natural_Units.cpp on every run. *)
From Coq Require Import String.
From Coq Require Import ZArith Reals List.
From LP Require Import Num NumR C20_Model C20_Proofs_Init Gen_C20_Units C20_Proofs_Units C20_Proofs_IO C20_Proofs_Round.
Import ListNotations.

(** "whichever compiler and optimisation level built the library": for ANY classification [st] of the
    constants of a translation unit into statically initialised ones (constant-folded, .rodata) and
    dynamically initialised ones (run in textual order at start-up, reading whatever is in memory), if the
    decidable check [safe st ds] succeeds then after start-up every constant holds its order-free
    denotation.  Generic in the list of definitions. *)
Theorem C20_init_order_sound (st : string -> bool) (ds : defs_t) (den : env) :
  solves den ds -> safe st ds = true ->
  forall x b, In (x, b) ds -> startup st ds den x = den x.
Proof. exact (init_order_sound st ds den). Qed.
Print Assumptions C20_init_order_sound.

(** ... and the regenerated real-valued definitions [u_X] ARE an order-free denotation of the regenerated
    list [defs] (textual order of the current source), so the theorem applies to the current source for
    every measured classification that passes the check (cases_C20_cfg.v, generated per run). *)
Theorem C20_units_startup_sound (st : string -> bool) :
  safe st defs = true ->
  forall x b, In (x, b) defs -> startup st defs Gen_C20_Units.den x = Gen_C20_Units.den x.
Proof. exact (units_startup_sound st). Qed.
Print Assumptions C20_units_startup_sound.

Theorem C20_units_denotation :
  solves Gen_C20_Units.den defs /\ Forall (fun p => Gen_C20_Units.den (fst p) = snd p) den_table.
Proof. exact (conj den_solves den_table_ok). Qed.
Print Assumptions C20_units_denotation.

Local Open Scope R_scope.
(** "every derived unit constant equals its defining product of base constants (Joule=kg m^2/s^2, Newton,
    Watt, Pascal, erg, dyne, ..., Hz" — decimal literals of the source are exact rationals *)
Theorem C20_derived_units_mechanical :
  u_Joule = u_kg * u_meter ^ 2 / u_sec ^ 2 /\ u_Newton = u_kg * u_meter / u_sec ^ 2 /\
  u_Watt = u_Joule / u_sec /\ u_Pa = u_Newton / u_meter ^ 2 /\
  u_erg = u_gram * u_cm ^ 2 / u_sec ^ 2 /\ u_erg = u_Joule / 10000000 /\
  u_dyne = u_gram * u_cm / u_sec ^ 2 /\ u_dyne = u_Newton / 100000 /\
  u_Hz * u_sec = 1 /\ u_kg = 1000 * u_gram /\ u_cal = 4184 / 1000 * u_Joule /\
  u_bar = 100000 * u_Pa /\ u_barye = u_Pa / 10 /\ u_meter / u_sec = 1 / 299792458 /\
  0 < u_gram /\ 0 < u_cm /\ 0 < u_sec.
Proof. exact derived_units_mechanical. Qed.
Print Assumptions C20_derived_units_mechanical.

(** "Volt*Coulomb=Joule, Ohm=Volt/Ampere, Tesla" *)
Theorem C20_derived_units_electrical :
  u_Volt * u_Coulomb = u_Joule /\ u_Ampere = u_Coulomb / u_sec /\ u_Ohm = u_Volt / u_Ampere /\
  u_Watt = u_Volt * u_Ampere /\ u_Farad = u_Coulomb / u_Volt /\ u_Siemens * u_Ohm = 1 /\
  u_Tesla = u_Newton * u_sec / (u_Coulomb * u_meter) /\ u_Tesla = u_kg / (u_Coulomb * u_sec) /\
  u_Tesla = u_Volt * u_sec / u_meter ^ 2 /\ u_Gauss = u_Tesla / 10000 /\ u_Weber = u_Volt * u_sec /\
  0 < u_Coulomb.
Proof. exact derived_units_electrical. Qed.
Print Assumptions C20_derived_units_electrical.

(** "time and length multiples" (and the energy multiples) *)
Theorem C20_unit_multiples :
  (u_ms = u_sec / 1000 /\ u_ns = u_sec / 1000000000 /\ u_minute = 60 * u_sec /\ u_hr = 3600 * u_sec /\
   u_day = 86400 * u_sec /\ u_week = 604800 * u_sec /\ u_year = 31557600 * u_sec) /\
  (u_cm = u_meter / 100 /\ u_mm = u_meter / 1000 /\ u_km = 1000 * u_meter /\
   u_fm = u_meter / 1000000000000000 /\ u_Angstrom = u_meter / 10000000000 /\
   u_inch = 254 / 10000 * u_meter /\ u_foot = 3048 / 10000 * u_meter /\ u_yard = 9144 / 10000 * u_meter /\
   u_mile = 1609344 / 1000 * u_meter) /\
  (u_meV = u_eV / 1000 /\ u_keV = 1000 * u_eV /\ u_MeV = 1000000 * u_eV /\ u_GeV = 1000000000 * u_eV /\
   u_TeV = 1000000000000 * u_eV /\ u_PeV = 1000000000000000 * u_eV /\ u_GeV = 1).
Proof. exact unit_multiples. Qed.
Print Assumptions C20_unit_multiples.

(** "In_Units undoes multiplication by a unit for scalars, lists, tables, vectors and matrices" (the Vector
    and Matrix overloads are the same loops over the same element function) *)
Theorem C20_in_units_undoes :
  (forall x dim d, dim <> 0 -> in_units ROps (x * dim) dim false d = Ok x) /\
  (forall xs dim d, dim <> 0 -> in_units_list ROps (map (fun x => x * dim) xs) dim false d = Ok xs) /\
  (forall xs dim d, dim <> 0 -> in_units_vector ROps (map (fun x => x * dim) xs) dim false d = Ok xs) /\
  (forall t dim d, dim <> 0 -> in_units_table ROps (map (map (fun x => x * dim)) t) dim false d = Ok t) /\
  (forall t dim d, dim <> 0 -> in_units_matrix ROps (map (map (fun x => x * dim)) t) dim false d = Ok t) /\
  (forall t dims d, Forall (fun dm => dm <> 0) dims -> Forall (fun row => length row = length dims) t ->
     in_units_table_dims ROps (map (fun row => map (fun xd => fst xd * snd xd) (combine row dims)) t) dims false d = Ok t).
Proof.
  exact (conj in_units_undoes (conj in_units_list_undoes (conj in_units_list_undoes
        (conj in_units_table_undoes (conj in_units_table_undoes in_units_table_dims_undoes))))).
Qed.
Print Assumptions C20_in_units_undoes.
Local Close Scope R_scope.

(** "(and rounds to the requested digits when asked)"; shapes are preserved and the element function is
    In_Units of the corresponding entry, for every number type (IEEE doubles included); a row whose length
    differs from the number of dimensions, more than 7 digits, or a negative digit count terminate the process *)
Theorem C20_in_units_elementwise {T} (Ops : NumOps T) :
  (forall q dim d, in_units Ops q dim false d = Ok (ndiv Ops q dim)) /\
  (forall q dim d, in_units Ops q dim true d = round_m Ops (ndiv Ops q dim) (u32 d)) /\
  (forall q dim d, (d < 0 \/ 7 < d)%Z -> (- 2147483648 <= d < 2147483648)%Z -> in_units Ops q dim true d = Exit) /\
  (forall qs dim r d l, in_units_list Ops qs dim r d = Ok l ->
     length l = length qs /\ Forall2 (fun q y => in_units Ops q dim r d = Ok y) qs l) /\
  (forall qs dim r d t, in_units_table Ops qs dim r d = Ok t ->
     length t = length qs /\
     Forall2 (fun row trow => length trow = length row /\
                Forall2 (fun q y => in_units Ops q dim r d = Ok y) row trow) qs t) /\
  (forall qs dims r d t, in_units_table_dims Ops qs dims r d = Ok t ->
     length t = length qs /\
     Forall2 (fun row trow => length row = length dims /\ length trow = length row /\
                Forall2 (fun qd y => in_units Ops (fst qd) (snd qd) r d = Ok y) (combine row dims) trow) qs t) /\
  (forall qs dims r d row, In row qs -> length row <> length dims -> in_units_table_dims Ops qs dims r d = Exit).
Proof.
  exact (conj (in_units_noround Ops) (conj (in_units_round Ops) (conj (in_units_round_exit Ops)
        (conj (in_units_list_spec Ops) (conj (in_units_table_spec Ops)
        (conj (in_units_table_dims_spec Ops) (in_units_table_dims_mismatch Ops))))))).
Qed.
Print Assumptions C20_in_units_elementwise.

(** "(and rounds to the requested digits when asked)", over the reals: for digits 1..7 the result of
    In_Units(q, dim, true, digits) is an integer multiple of 10^(k-digits+1), k = floor(log10 |q/dim|), at
    distance at most half that unit from q/dim; a zero quotient gives 0 *)
Theorem C20_in_units_rounds (q dim : R) (d : Z) : (1 <= d <= 7)%Z ->
  let v := (q / dim)%R in
  (v = 0%R -> in_units ROps q dim true d = Ok 0%R) /\
  (v <> 0%R ->
   let k := Int_part (ln (Rabs v) / ln 10) in
   let unit := powerRZ 10 (k - d + 1) in
   exists r, in_units ROps q dim true d = Ok r /\ (Rabs (r - v) <= unit / 2)%R /\ exists m : Z, r = (IZR m * unit)%R).
Proof. exact (in_units_rounds q dim d). Qed.
Print Assumptions C20_in_units_rounds.

(** "Writing a ... table ... with Export_Table and reading it back with Import_Table using the same unit
    factors and the number of header lines written returns the same shape": for every number type, every
    rectangular table with >= 1 row and >= 1 column, every header (any number of lines, any tokens, numbers
    included), no or one unit factor per column: Count_Lines = header lines + rows, and the table read back
    is, entry by entry, fmt6(x / dim_j) * dim_j.  [fmt6 y] = the number `>>` reads from the text `<<` wrote. *)
Theorem C20_roundtrip_table_shape {T} (Ops : NumOps T) (fmt6 : T -> T)
    (header : list (@line T)) (tbl : list (list T)) (dims : list T) (c : nat) :
  tbl <> [] -> (1 <= c)%nat -> rect c tbl -> dims = [] \/ length dims = c ->
  (Z.of_nat (length header + length tbl) < 4294967296)%Z -> (Z.of_nat (length tbl * c) < 4294967296)%Z ->
  roundtrip_table Ops fmt6 header tbl dims (length header) =
  Ok (Z.of_nat (length header + length tbl),
      map (mapi_from 0 (fun j x => nmul Ops (fmt6 (ndiv Ops x (dim_at Ops dims j))) (dim_at Ops dims j))) tbl).
Proof. exact (roundtrip_table_eq Ops fmt6 header tbl dims c). Qed.
Print Assumptions C20_roundtrip_table_shape.

(** "... and every value to six significant digits, for any finite values and units": over the reals, with
    the accuracy of the six-significant-digit text format as the premise [Hfmt] (that iostreams implement
    such an fmt6 is not a theorem; it is checked on every run). *)
Theorem C20_reshape_roundtrip (fmt6 : R -> R)
    (Hfmt : forall y, (Rabs (fmt6 y - y) <= 5 / 1000000 * Rabs y)%R)
    (header : list (@line R)) (tbl : list (list R)) (dims : list R) (c : nat) :
  tbl <> [] -> (1 <= c)%nat -> rect c tbl ->
  dims = [] \/ (length dims = c /\ Forall (fun d => d <> 0%R) dims) ->
  (Z.of_nat (length header + length tbl) < 4294967296)%Z -> (Z.of_nat (length tbl * c) < 4294967296)%Z ->
  exists t, roundtrip_table ROps fmt6 header tbl dims (length header) = Ok (Z.of_nat (length header + length tbl), t) /\
    length t = length tbl /\ rect c t /\
    forall i j, (i < length tbl)%nat -> (j < c)%nat ->
      let x := nth j (nth i tbl []) 0%R in
      let y := nth j (nth i t []) 0%R in
      (y = fmt6 (x / dim_at ROps dims j) * dim_at ROps dims j /\ Rabs (y - x) <= 5 / 1000000 * Rabs x)%R.
Proof. exact (reshape_roundtrip fmt6 Hfmt header tbl dims c). Qed.
Print Assumptions C20_reshape_roundtrip.

(** the same for Export_List / Import_List (any length, the empty list included) *)
Theorem C20_list_roundtrip (fmt6 : R -> R)
    (Hfmt : forall y, (Rabs (fmt6 y - y) <= 5 / 1000000 * Rabs y)%R)
    (header : list (@line R)) (data : list R) (dim : R) : dim <> 0%R ->
  exists l, roundtrip_list ROps fmt6 header data dim = Ok l /\ length l = length data /\
    forall i, (i < length data)%nat ->
      (Rabs (nth i l 0 - nth i data 0) <= 5 / 1000000 * Rabs (nth i data 0))%R.
Proof. exact (list_roundtrip fmt6 Hfmt header data dim). Qed.
Print Assumptions C20_list_roundtrip.

(** ... and for Export_Function: the rows read back are (x, f(x)) through the same format and units *)
Theorem C20_function_roundtrip {T} (Ops : NumOps T) (fmt6 : T -> T)
    (header : list (@line T)) (func : T -> T) (xs : list T) (dims : list T) :
  xs <> [] -> dims = [] \/ length dims = 2%nat ->
  (Z.of_nat (length header + length xs) < 4294967296)%Z -> (Z.of_nat (length xs * 2) < 4294967296)%Z ->
  roundtrip_function_list Ops fmt6 header func xs dims =
  Ok (Z.of_nat (length header + length xs),
      map (fun x => [back Ops fmt6 dims 0 x; back Ops fmt6 dims 1 (func x)]) xs).
Proof. exact (roundtrip_function_eq Ops fmt6 header func xs dims). Qed.
Print Assumptions C20_function_roundtrip.

(** Reduced_Mass *)
Theorem C20_reduced_mass (m1 m2 : R) :
  reduced_mass ROps m1 m2 = reduced_mass ROps m2 m1 /\
  ((0 < m1)%R -> (0 < m2)%R ->
   (0 < reduced_mass ROps m1 m2 /\ reduced_mass ROps m1 m2 < m1 /\ reduced_mass ROps m1 m2 < m2)%R).
Proof. exact (conj (reduced_mass_sym m1 m2) (reduced_mass_below m1 m2)). Qed.
Print Assumptions C20_reduced_mass.
