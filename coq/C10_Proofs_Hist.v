(** * C10 proofs, part 4: several requests on one object (call histories) and unit arguments *)
From Coq Require Import ZArith List Bool Lia Reals Lra.
From LP Require Import Num NumR C10_Model C10_Proofs C10_Proofs_Num.
Import ListNotations.
Local Open Scope Z_scope.

(** ** Factorial / Binomial_Coefficient: whatever the memo table holds, a request is judged by its own arguments *)
Definition fcall_meaningful (c : fcall) : Prop :=
  match c with FFact n => n <= 170 | FBinom n k => 0 <= n /\ 0 <= k end.
Definition fcall_unsigned (c : fcall) : Prop := match c with FFact n => 0 <= n | FBinom _ _ => True end.

Lemma factorial_call_spec memo c : fcall_unsigned c ->
  (fcall_meaningful c -> exists memo', factorial_call ROps memo c = Ok memo') /\
  (~ fcall_meaningful c -> factorial_call ROps memo c = Exit).
Proof.
  destruct c as [n|n k]; cbn [fcall_unsigned fcall_meaningful factorial_call]; intros Hu.
  - destruct (factorial_spec memo n Hu) as [H1 H2]. split; intros H.
    + rewrite (H1 H). cbn. eauto.
    + now rewrite (H2 H).
  - destruct (binomial_coefficient_spec memo n k) as [H1 H2]. split; intros H.
    + rewrite (H1 H). cbn. eauto.
    + now rewrite (H2 H).
Qed.
Lemma fcall_meaningful_dec c : fcall_meaningful c \/ ~ fcall_meaningful c.
Proof. destruct c; cbn; lia. Qed.
Lemma factorial_session_spec cs : forall memo, Forall fcall_unsigned cs ->
  decides (factorial_session ROps memo cs) (Forall fcall_meaningful cs).
Proof.
  induction cs as [|c r IH]; intros memo Hu.
  - split; [reflexivity|]. intros H; exfalso; apply H; constructor.
  - inversion Hu as [|? ? Hc Hr]; subst. cbn [factorial_session].
    destruct (factorial_call_spec memo c Hc) as [H1 H2].
    destruct (fcall_meaningful_dec c) as [Hm|Hm].
    + destruct (H1 Hm) as [memo' ->]. cbn [rbind]. destruct (IH memo' Hr) as [I1 I2]. split; intros H.
      * apply I1. now inversion H.
      * apply I2. intros Hf; apply H; now constructor.
    + rewrite (H2 Hm). cbn. split; intros H; [|reflexivity]. inversion H; contradiction.
Qed.

(** ** Vector: the two members stay equal, so the guards of section 1 apply to the object after any history *)
Definition vec_wf (v : vec) : Prop := v_len v = v_dim v.
Lemma vec_step_wf v o v' : vec_wf v -> vec_step v o = Ok v' -> vec_wf v'.
Proof.
  unfold vec_wf; destruct o; cbn; intros Hw H; try (inversion H; subst; cbn; congruence).
  destruct (negb (v_dim v =? d)); [discriminate|].
  destruct (for_range 0 (v_dim v) _); cbn in H; try discriminate. inversion H; subst; assumption.
Qed.
Lemma vec_history_wf ops : forall v v', vec_wf v -> vec_history v ops = Ok v' -> vec_wf v'.
Proof.
  induction ops as [|o r IH]; intros v v' Hw H; cbn in H; [inversion H; subst; assumption|].
  destruct (vec_step v o) as [v1| | |] eqn:E; cbn in H; try discriminate.
  eapply IH; [eapply vec_step_wf; eassumption|exact H].
Qed.
Lemma vec_addeq_spec v d : vec_wf v -> 0 <= v_dim v ->
  (v_dim v = d -> vec_step v (VAddEq d) = Ok v) /\ (v_dim v <> d -> vec_step v (VAddEq d) = Exit).
Proof.
  unfold vec_wf; intros Hw Hd; cbn [vec_step]. split; intros H.
  - destruct (Z.eqb_spec (v_dim v) d); [|contradiction]. cbn [negb]. rewrite Hw.
    rewrite for_range_ok; [reflexivity|]. intros i Hi. idx. reflexivity.
  - destruct (Z.eqb_spec (v_dim v) d); [contradiction|reflexivity].
Qed.
Lemma vec_probe_wf v : vec_wf v ->
  (forall i, vec_probe_guard v (VPAt i) = guard_vec_index (v_dim v) i) /\
  (forall d, vec_probe_guard v (VPBinary d) = guard_vec_binary (v_dim v) d) /\
  (forall d, vec_probe_guard v (VPCross d) = guard_cross (v_dim v) d).
Proof.
  unfold vec_wf, vec_probe_guard, vec_wfb; intros ->. rewrite Z.eqb_refl. cbn [negb]. repeat split.
Qed.
(** after any history the binary requests decide conformability with the object on EITHER side; Angle too;
    operator== always answers *)
Lemma vec_probe_sides v : vec_wf v ->
  (forall d, decides (vec_probe_guard v (VPBinary d)) (v_dim v = d)) /\
  (forall d, decides (vec_probe_guard v (VPBinaryR d)) (v_dim v = d)) /\
  (forall d, decides (vec_probe_guard v (VPAngle d)) (v_dim v = d)) /\
  (forall d, decides (vec_probe_guard v (VPAngleR d)) (v_dim v = d)) /\
  (forall d, decides (vec_probe_guard v (VPCrossR d)) (v_dim v = 3 /\ d = 3)) /\
  (forall d, vec_probe_guard v (VPEq d) = Ok tt /\ vec_probe_guard v (VPEqR d) = Ok tt).
Proof.
  unfold vec_wf, vec_probe_guard, vec_wfb; intros ->. rewrite Z.eqb_refl. cbn [negb].
  refine (conj _ (conj _ (conj _ (conj _ (conj _ _))))); intros d.
  - apply vec_binary_spec.
  - apply (decides_iff _ (d = v_dim v)); [split; congruence|apply vec_binary_spec].
  - apply angle_spec.
  - apply (decides_iff _ (d = v_dim v)); [split; congruence|apply angle_spec].
  - apply (decides_iff _ (d = 3 /\ v_dim v = 3)); [tauto|apply cross_spec].
  - split; apply vec_eq_returns.
Qed.
(** refinement of the history to the mathematical size: Resize / Assign / assignment set it, a copy keeps it,
    += keeps it and has no meaning for another size *)
Definition vec_op_dim (d : Z) (o : vec_op) : option Z :=
  match o with
  | VResize n | VAssign n | VSet n => Some n
  | VCopy => Some d
  | VAddEq n => if d =? n then Some d else None
  end.
Fixpoint vec_dims (d : Z) (ops : list vec_op) : option Z :=
  match ops with [] => Some d | o :: r => match vec_op_dim d o with Some d' => vec_dims d' r | None => None end end.
Lemma vec_history_refines ops : forall d,
  vec_history {| v_dim := d; v_len := d |} ops = match vec_dims d ops with Some d' => Ok {| v_dim := d'; v_len := d' |} | None => Exit end.
Proof.
  induction ops as [|o r IH]; intros d; cbn [vec_history vec_dims]; [reflexivity|].
  destruct o as [n|n| |n|n]; cbn [vec_step vec_op_dim vec_new v_dim v_len rbind]; try apply IH.
  destruct (Z.eqb_spec d n) as [->|Hn]; cbn [negb]; [|reflexivity].
  rewrite for_range_ok; [cbn [rbind]; apply IH|]. intros i Hi. idx. reflexivity.
Qed.
Lemma vec_session_refines d ops p :
  vec_session d ops p = match vec_dims d ops with
                        | Some d' => rbind (vec_probe_guard (vec_new d') p) (fun _ => Ok (vec_new d'))
                        | None => Exit end.
Proof.
  unfold vec_session, vec_new. rewrite vec_history_refines. destruct (vec_dims d ops); reflexivity.
Qed.
Lemma vec_session_wf d ops p v : vec_session d ops p = Ok v -> vec_wf v.
Proof.
  unfold vec_session; intros H. destruct (vec_history (vec_new d) ops) as [v1| | |] eqn:E; cbn in H; try discriminate.
  destruct (vec_probe_guard v1 p); cbn in H; try discriminate. inversion H; subst.
  eapply vec_history_wf; [|exact E]. reflexivity.
Qed.

(** ** Matrix: the representation invariant "components holds `rows` rows of `columns` entries" *)
Definition mat_wf (m : mat) : Prop := 0 <= m_rows m /\ 0 <= m_cols m /\ m_lens m = rect (m_rows m) (m_cols m).
(** sizes handed to Resize / Assign / the constructors of the right operands are not negative *)
Definition mat_op_sizes (o : mat_op) : Prop :=
  match o with
  | MResize r c | MAssign r c | MSet r c | MPlusEq r c | MSum r c | MProd r c => 0 <= r /\ 0 <= c
  | MDelRow i | MDelCol i => 0 <= i
  | MCopy | MTranspose => True
  end.
(** the domain of each member function, in terms of Rows() and Columns() *)
Definition mat_op_meaningful (m : mat) (o : mat_op) : Prop :=
  match o with
  | MDelRow i => i < m_rows m
  | MDelCol j => j < m_cols m
  | MPlusEq r c | MSum r c => m_rows m = r /\ m_cols m = c
  | MProd r c => m_cols m = r
  | MResize _ _ | MAssign _ _ | MSet _ _ | MCopy | MTranspose => True
  end.

Lemma forallb_rect r c : forallb (fun l => l =? c) (rect r c) = true.
Proof. unfold rect. induction (Z.to_nat r) as [|n IH]; cbn; [reflexivity|]. now rewrite Z.eqb_refl. Qed.
Lemma mat_wfb_true m : mat_wf m -> mat_wfb m = true.
Proof.
  intros (Hr & Hc & E). unfold mat_wfb. rewrite E, zlen_rect by assumption. rewrite Z.eqb_refl, forallb_rect. reflexivity.
Qed.
Lemma mat_new_wf r c : 0 <= r -> 0 <= c -> mat_wf (mat_new r c).
Proof. intros; unfold mat_wf, mat_new; cbn. auto. Qed.
Lemma rect_0 c : rect 0 c = [].
Proof. reflexivity. Qed.
Lemma mat_of_rows_rect_wf r c : 0 <= r -> 0 <= c -> mat_wf (mat_of_rows (rect r c)).
Proof.
  intros Hr Hc. unfold mat_wf, mat_of_rows; cbn [m_rows m_cols m_lens]. rewrite zlen_rect by assumption.
  destruct (Z.eqb_spec r 0) as [->|Hn]; [repeat split; lia|].
  rewrite nth_rect. destruct (Nat.ltb_spec 0 (Z.to_nat r)); [|lia]. repeat split; lia.
Qed.
Lemma map_const_repeat {A B} (l : list A) (b : B) : map (fun _ => b) l = repeat b (length l).
Proof. induction l; cbn; congruence. Qed.
Lemma vresize_length {A} n (l : list A) d : 0 <= n -> zlen (vresize n l d) = n.
Proof.
  intros Hn. unfold vresize, zlen. rewrite app_length, firstn_length, repeat_length.
  unfold zlen. destruct (Nat.le_ge_cases (Z.to_nat n) (length l)); lia.
Qed.
Lemma skipn_rect k r c : skipn k (rect r c) = repeat c (Z.to_nat r - k).
Proof. unfold rect. revert k; induction (Z.to_nat r) as [|n IH]; intros [|k]; cbn; auto. Qed.
Lemma firstn_rect k r c : firstn k (rect r c) = repeat c (Nat.min k (Z.to_nat r)).
Proof. unfold rect. revert k; induction (Z.to_nat r) as [|n IH]; intros [|k]; cbn; auto. now rewrite IH. Qed.
Lemma repeat_app' {A} (a : A) n k : repeat a n ++ repeat a k = repeat a (n + k).
Proof. induction n; cbn; congruence. Qed.
Lemma map_repeat {A B} (f : A -> B) a n : map f (repeat a n) = repeat (f a) n.
Proof. induction n; cbn; congruence. Qed.

(** every step of a history keeps the invariant *)
Lemma mat_step_wf m o m' : mat_wf m -> mat_op_sizes o -> mat_step m o = Ok m' -> mat_wf m'.
Proof.
  intros Hw Hs H. pose proof (mat_wfb_true m Hw) as Hb. destruct Hw as (Hr & Hc & E).
  destruct o; cbn [mat_step mat_op_sizes] in H, Hs; rewrite ?Hb in H; cbn [negb] in H.
  - (* Resize *)
    destruct (Z.ltb_spec r 0), (Z.ltb_spec c 0); cbn [orb] in H; try discriminate.
    destruct (for_range 0 r _); cbn in H; try discriminate. inversion H; subst; clear H.
    unfold mat_wf; cbn. repeat split; try assumption.
    rewrite map_const_repeat. unfold rect. f_equal.
    pose proof (vresize_length r (m_lens m) 0 ltac:(lia)) as L. unfold zlen in L. lia.
  - (* Assign *)
    destruct (Z.ltb_spec r 0), (Z.ltb_spec c 0); cbn [orb] in H; try discriminate.
    destruct (for_range 0 r _); cbn in H; try discriminate. inversion H; subst; clear H.
    unfold mat_wf; cbn. repeat split; try assumption.
    rewrite map_const_repeat. unfold rect. f_equal.
    pose proof (vresize_length r (m_lens m) 0 ltac:(lia)) as L. unfold zlen in L. lia.
  - (* Delete_Row *)
    destruct (Z.ltb_spec i 0), (Z.geb_spec i (m_rows m)); cbn [orb] in H; try discriminate.
    destruct (at_ _ i); cbn in H; try discriminate. inversion H; subst; clear H.
    unfold mat_wf; cbn. repeat split; try lia.
    rewrite E, firstn_rect, skipn_rect, repeat_app'. unfold rect. f_equal. lia.
  - (* Delete_Column *)
    destruct (Z.ltb_spec j 0), (Z.geb_spec j (m_cols m)); cbn [orb] in H; try discriminate.
    destruct (for_range 0 (m_rows m) _); cbn in H; try discriminate. inversion H; subst; clear H.
    unfold mat_wf; cbn. repeat split; try lia.
    rewrite E, firstn_rect, skipn_rect, map_repeat.
    replace (Z.to_nat (m_rows m) - Z.to_nat (m_rows m))%nat with O by lia. cbn [repeat]. rewrite app_nil_r.
    unfold rect. f_equal. lia.
  - inversion H; subst. unfold mat_wf; cbn. auto.
  - inversion H; subst. apply mat_new_wf; lia.
  - destruct (guard_mat_pluseq _ _ _ _); cbn in H; try discriminate. inversion H; subst. unfold mat_wf; auto.
  - destruct (guard_mat_plus _ _ _ _); cbn in H; try discriminate. inversion H; subst. now apply mat_of_rows_rect_wf.
  - destruct (guard_mat_product _ _ _ _); cbn in H; try discriminate. inversion H; subst. apply mat_new_wf; lia.
  - destruct (guard_transpose _ _); cbn in H; try discriminate. inversion H; subst. now apply mat_of_rows_rect_wf.
Qed.

(** on an object that satisfies the invariant every member function of the history language exits exactly outside its
    domain and otherwise returns: no access is out of bounds *)
Lemma mat_step_spec m o : mat_wf m -> mat_op_sizes o ->
  (mat_op_meaningful m o -> exists m', mat_step m o = Ok m') /\ (~ mat_op_meaningful m o -> mat_step m o = Exit).
Proof.
  intros Hw Hs. pose proof (mat_wfb_true m Hw) as Hb. destruct Hw as (Hr & Hc & E).
  destruct o; cbn [mat_step mat_op_sizes mat_op_meaningful] in *; rewrite ?Hb; cbn [negb].
  - destruct Hs as [H1 H2]. destruct (Z.ltb_spec r 0), (Z.ltb_spec c 0); try lia. cbn [orb].
    split; [intros _|tauto]. rewrite for_range_ok; [cbn; eauto|]. intros i Hi. apply at_ok. rewrite vresize_length; lia.
  - destruct Hs as [H1 H2]. destruct (Z.ltb_spec r 0), (Z.ltb_spec c 0); try lia. cbn [orb].
    split; [intros _|tauto]. rewrite for_range_ok; [cbn; eauto|]. intros i Hi. apply at_ok. rewrite vresize_length; lia.
  - destruct (Z.ltb_spec i 0), (Z.geb_spec i (m_rows m)); try lia; cbn [orb].
    + split; [lia|reflexivity].
    + split; [intros _|lia]. rewrite at_ok; [cbn; eauto|]. rewrite E, zlen_rect; lia.
  - destruct (Z.ltb_spec j 0), (Z.geb_spec j (m_cols m)); try lia; cbn [orb].
    + split; [lia|reflexivity].
    + split; [intros _|lia]. rewrite for_range_ok; [cbn; eauto|]. intros i Hi.
      rewrite (getZ_nth _ i 0) by (rewrite E, zlen_rect; lia). cbn [rbind]. rewrite E, nth_rect.
      destruct (Nat.ltb_spec (Z.to_nat i) (Z.to_nat (m_rows m))); [|lia]. apply at_ok; lia.
  - split; [eauto|tauto].
  - split; [eauto|tauto].
  - destruct (mat_pluseq_spec (m_rows m) (m_cols m) r c) as [H1 H2]. split; intros H.
    + rewrite (H1 H). cbn. eauto.
    + now rewrite (H2 H).
  - destruct (mat_plus_spec (m_rows m) (m_cols m) r c Hr) as [H1 H2]. split; intros H.
    + rewrite (H1 H). cbn. eauto.
    + now rewrite (H2 H).
  - destruct (mat_product_spec (m_rows m) (m_cols m) r c) as [H1 H2]. split; intros H.
    + rewrite (H1 H). cbn. eauto.
    + now rewrite (H2 H).
  - split; [intros _|tauto]. rewrite transpose_ok by assumption. cbn. eauto.
Qed.

Lemma mat_step_spec_wf m o : mat_wf m -> mat_op_sizes o ->
  (mat_op_meaningful m o -> exists m', mat_step m o = Ok m' /\ mat_wf m') /\ (~ mat_op_meaningful m o -> mat_step m o = Exit).
Proof.
  intros Hw Hs. destruct (mat_step_spec m o Hw Hs) as [H1 H2]. split; [|exact H2].
  intros H. destruct (H1 H) as [m' E]. exists m'. split; [exact E|]. eapply mat_step_wf; eassumption.
Qed.
Lemma mat_history_wf ops : forall m m', mat_wf m -> Forall mat_op_sizes ops -> mat_history m ops = Ok m' -> mat_wf m'.
Proof.
  induction ops as [|o r IH]; intros m m' Hw Hs H; cbn in H; [inversion H; subst; assumption|].
  inversion Hs; subst. destruct (mat_step m o) as [m1| | |] eqn:E; cbn in H; try discriminate.
  eapply IH; [eapply mat_step_wf; eassumption|assumption|exact H].
Qed.
Lemma mat_history_safe ops : forall m, mat_wf m -> Forall mat_op_sizes ops ->
  mat_history m ops <> OOB /\ mat_history m ops <> Fuel.
Proof.
  induction ops as [|o r IH]; intros m Hw Hs; cbn; [split; discriminate|].
  inversion Hs as [|? ? Ho Hr]; subst.
  destruct (mat_step_spec m o Hw Ho) as [H1 H2].
  assert (D : mat_op_meaningful m o \/ ~ mat_op_meaningful m o) by (destruct o; cbn; lia).
  destruct D as [D|D].
  - destruct (H1 D) as [m1 E]. rewrite E; cbn. apply IH; [eapply mat_step_wf; eassumption|assumption].
  - rewrite (H2 D); cbn. split; discriminate.
Qed.
Lemma mat_bad_rows_wf m : mat_wf m -> mat_bad_rows m = 0.
Proof.
  intros (Hr & Hc & E). unfold mat_bad_rows. rewrite E, firstn_rect.
  induction (Nat.min _ _) as [|n IH]; cbn; [reflexivity|]. rewrite Z.eqb_refl. cbn. exact IH.
Qed.
(** after any history the guards of section 2 are evaluated on (Rows(), Columns()) *)
Lemma mat_probe_wf m : mat_wf m ->
  (forall i, mat_probe_guard m (PAt i) = guard_mat_index (m_rows m) i) /\
  (forall r c, mat_probe_guard m (PPlus r c) = guard_mat_plus (m_rows m) (m_cols m) r c) /\
  (forall r c, mat_probe_guard m (PPlusEq r c) = guard_mat_pluseq (m_rows m) (m_cols m) r c) /\
  (forall r c, mat_probe_guard m (PMul r c) = guard_mat_product (m_rows m) (m_cols m) r c) /\
  (forall r c, mat_probe_guard m (PLMul r c) = guard_mat_product r c (m_rows m) (m_cols m)) /\
  (forall d, mat_probe_guard m (PMatVec d) = guard_mat_vec (m_rows m) (m_cols m) d) /\
  (forall d, mat_probe_guard m (PVecMat d) = guard_vec_mat d (m_rows m) (m_cols m)) /\
  mat_probe_guard m PTrace = guard_trace (m_rows m) (m_cols m) /\
  mat_probe_guard m PDet = guard_determinant (m_rows m) (m_cols m) /\
  mat_probe_guard m PTranspose = guard_transpose (m_rows m) (m_cols m) /\
  (forall i j, mat_probe_guard m (PSub i j) = guard_sub_matrix (m_rows m) (m_cols m) i j).
Proof. intros Hw. unfold mat_probe_guard. rewrite (mat_wfb_true m Hw). cbn [negb]. repeat split. Qed.
(** Vector(Columns()) + Return_Row(i) and Vector(Rows()) + Return_Column(j): the row / column handed out has the
    advertised size, so the sum is conformable *)
Lemma mat_probe_row_col m : mat_wf m ->
  (forall i, 0 <= i -> decides (mat_probe_guard m (PRow i)) (i < m_rows m)) /\
  (forall j, 0 <= j -> decides (mat_probe_guard m (PCol j)) (j < m_cols m)) /\
  mat_probe_guard m PEq = Ok tt.
Proof.
  intros Hw. pose proof (mat_wfb_true m Hw) as Hb. destruct Hw as (Hr & Hc & E).
  unfold mat_probe_guard. rewrite Hb. cbn [negb]. split; [|split].
  - intros i Hi. split; intros H.
    + rewrite row_ok by lia. cbn [rbind]. rewrite (getZ_nth _ i 0) by (rewrite E, zlen_rect; lia). cbn [rbind].
      rewrite E, nth_rect. destruct (Nat.ltb_spec (Z.to_nat i) (Z.to_nat (m_rows m))); [|lia].
      now apply (proj1 (vec_binary_spec _ _)).
    + destruct (row_spec (m_rows m) i Hi) as [_ H2]. now rewrite H2.
  - intros j Hj. split; intros H.
    + destruct (return_column_spec (m_rows m) (m_cols m) j Hr Hc Hj) as [H1 _]. rewrite (H1 H). cbn [rbind].
      now apply (proj1 (vec_binary_spec _ _)).
    + destruct (return_column_spec (m_rows m) (m_cols m) j Hr Hc Hj) as [_ H2]. now rewrite (H2 H).
  - loops.
Qed.
Lemma mat_session_wf r c ops p m : 0 <= r -> 0 <= c -> Forall mat_op_sizes ops ->
  mat_session r c ops p = Ok m -> mat_wf m /\ mat_bad_rows m = 0.
Proof.
  unfold mat_session; intros Hr Hc Hs H.
  destruct (mat_history (mat_new r c) ops) as [m1| | |] eqn:E; cbn in H; try discriminate.
  destruct (mat_probe_guard m1 p); cbn in H; try discriminate. inversion H; subst.
  assert (W : mat_wf m) by (eapply mat_history_wf; [apply mat_new_wf| |exact E]; assumption).
  split; [exact W|now apply mat_bad_rows_wf].
Qed.

(** ** Unit arguments of the Interpolation constructors (over the reals) *)
Section Units.
Local Open Scope R_scope.
Lemma scale_units_default (dim : R) xs : dim <= 0 -> scale_units ROps dim xs = xs.
Proof.
  intros H. unfold scale_units, ngtb. cbn [nltb n0 ROps]. destruct (Rltb_spec 0 dim); [lra|reflexivity].
Qed.
Lemma scale_units_pos (dim : R) xs : 0 < dim -> scale_units ROps dim xs = map (fun v => v * dim) xs.
Proof.
  intros H. unfold scale_units, ngtb. cbn [nltb n0 nmul ROps]. destruct (Rltb_spec 0 dim); [reflexivity|lra].
Qed.
Lemma zlen_map {A B} (f : A -> B) l : zlen (map f l) = zlen l.
Proof. unfold zlen. now rewrite map_length. Qed.
Lemma xr_scaled dim xs i : (0 <= i < zlen xs)%Z -> xr (map (fun v => v * dim) xs) i = xr xs i * dim.
Proof.
  intros H. unfold xr. rewrite (nth_indep _ 0 (0 * dim)) by (rewrite map_length; unfold zlen in H; lia).
  now rewrite (map_nth (fun v => v * dim)).
Qed.
Lemma scale_units_increasing dim xs : 0 < dim -> increasingR xs -> increasingR (scale_units ROps dim xs).
Proof.
  intros Hd Hi. rewrite scale_units_pos by assumption. intros i H. rewrite zlen_map in H.
  rewrite !xr_scaled by lia. specialize (Hi i H). nra.
Qed.
(** the domain against which every later request is judged is the CONVERTED first and last abscissa, and the 1 % tolerance
    is 1 % of the converted edge intervals *)
Lemma locate_units_exit_iff (dim : R) xs x : (2 <= zlen xs < 4294967296)%Z -> increasingR xs -> 0 < dim ->
  let N := zlen xs in
  let d0 := xr xs 0 * dim in let d1 := xr xs (N - 1) * dim in
  let tol_left := 1 / 100 * (xr xs 1 * dim - xr xs 0 * dim) in
  let tol_right := 1 / 100 * (xr xs (N - 1) * dim - xr xs (N - 2) * dim) in
  locate ROps (scale_units ROps dim xs) x = Exit <-> (x <= d0 - tol_left \/ d1 + tol_right <= x).
Proof.
  intros HN Hi Hd. cbv zeta.
  pose proof (locate_exit_iff_R (scale_units ROps dim xs) x) as L. cbv zeta in L.
  rewrite scale_units_pos in * by assumption. rewrite zlen_map in L.
  specialize (L HN). rewrite <- (scale_units_pos dim xs Hd) in L.
  specialize (L (scale_units_increasing dim xs Hd Hi)). rewrite scale_units_pos in L by assumption.
  rewrite !xr_scaled in L by lia. exact L.
Qed.
Lemma interp_domain_scaled (dim : R) xs : (2 <= zlen xs < 4294967296)%Z -> 0 < dim ->
  interp_domain (scale_units ROps dim xs) = Ok (xr xs 0 * dim, xr xs (zlen xs - 1) * dim).
Proof.
  intros HN Hd. rewrite scale_units_pos by assumption. unfold interp_domain. rewrite zlen_map.
  rewrite u32_id by lia.
  rewrite (getZ_nth _ 0 0), (getZ_nth _ (zlen xs - 1) 0) by (rewrite zlen_map; lia). cbn [rbind].
  fold (xr (map (fun v => v * dim) xs) 0). fold (xr (map (fun v => v * dim) xs) (zlen xs - 1)).
  rewrite !xr_scaled by lia. reflexivity.
Qed.
(** Save_Function(filename, points) in exact arithmetic: every sampling point a + i (b - a) / (points - 1), 0 <= i < points, lies in
    the domain [a, b], so the request returns for every number of points (in doubles the last point can overshoot b by an ulp:
    known finding K-C10-2) *)
Lemma save_function_returns_R xs n : (2 <= zlen xs < 4294967296)%Z -> increasingR xs -> guard_save_function ROps xs n = Ok tt.
Proof.
  intros HN Hi.
  assert (Hin : forall x, xr xs 0 <= x <= xr xs (zlen xs - 1) -> guard_interpolate ROps xs x = Ok tt).
  { intros x Hx. destruct (interpolate_spec ROps xs x HN) as [[E _]|[_ E]]; [|exact E]. exfalso.
    apply (locate_exit_iff_R xs x HN Hi) in E. cbv zeta in E.
    pose proof (Hi 1%Z ltac:(lia)) as H01. change (1 - 1)%Z with 0%Z in H01.
    pose proof (Hi (zlen xs - 1)%Z ltac:(lia)) as HN1. replace (zlen xs - 1 - 1)%Z with (zlen xs - 2)%Z in HN1 by lia.
    lra. }
  pose proof (increasingR_le xs 0 (zlen xs - 1) Hi ltac:(lia) ltac:(lia) ltac:(lia)) as Hab.
  unfold guard_save_function, interp_domain. rewrite u32_id by lia.
  rewrite (getZ_nth _ 0 0), (getZ_nth _ (zlen xs - 1) 0) by lia. cbn [rbind fst snd].
  fold (xr xs 0). fold (xr xs (zlen xs - 1)).
  destruct (Z.ltb_spec n 2) as [Hn|Hn]; cbn [orb].
  - apply Hin. lra.
  - cbn [neqb ROps]. destruct (Reqb_spec (xr xs 0) (xr xs (zlen xs - 1))) as [E|E]; [apply Hin; lra|].
    apply for_range_ok. intros i Hi'. apply Hin. unfold linear_space_point. cbn [nadd nsub nmul ndiv nofZ n1 ROps].
    assert (H1 : 1 <= IZR n - 1) by (apply IZR_le in Hn; lra).
    assert (H2 : 0 <= IZR i <= IZR n - 1).
    { split; [apply IZR_le; lia|]. replace (IZR n - 1) with (IZR (n - 1)) by (rewrite minus_IZR; reflexivity). apply IZR_le; lia. }
    set (a := xr xs 0) in *. set (b := xr xs (zlen xs - 1)) in *. set (t := IZR i) in *. set (m := IZR n - 1) in *.
    assert (Hq : 0 <= t / m <= 1).
    { split; [apply Rmult_le_pos; [lra|left; apply Rinv_0_lt_compat; lra]|].
      apply (Rmult_le_reg_r m); [lra|]. unfold Rdiv. rewrite Rmult_assoc, Rinv_l by lra. lra. }
    replace (a + t * ((b - a) / m)) with (a + (t / m) * (b - a)) by (field; lra).
    split; nra.
Qed.
End Units.

(** ** Several requests on one Interpolation object: each is judged on its own, and none reads out of bounds *)
Section Calls.
Context {T : Type} (Ops : NumOps T).
Lemma for__safe fuel lo (body : Z -> res unit) : (forall i, lo <= i < lo + Z.of_nat fuel -> body i = Ok tt \/ body i = Exit) ->
  for_ fuel lo body = Ok tt \/ for_ fuel lo body = Exit.
Proof.
  revert lo; induction fuel as [|f IH]; intros lo H; [left; reflexivity|].
  cbn [for_]. destruct (H lo ltac:(lia)) as [E|E]; rewrite E; cbn [rbind]; [|right; reflexivity].
  apply IH. intros i Hi; apply H; lia.
Qed.
Lemma save_function_safe xs n : 2 <= zlen xs < 4294967296 -> guard_save_function Ops xs n = Ok tt \/ guard_save_function Ops xs n = Exit.
Proof.
  intros HN. unfold guard_save_function, interp_domain.
  rewrite u32_id by lia.
  rewrite (getZ_nth _ 0 (n0 Ops)), (getZ_nth _ (zlen xs - 1) (n0 Ops)) by lia. cbn [rbind fst snd].
  match goal with |- context [if ?b then _ else _] => destruct b end.
  - destruct (interpolate_spec Ops xs (nth (Z.to_nat 0) xs (n0 Ops)) HN) as [[_ ->]|[_ ->]]; auto.
  - unfold for_range. apply for__safe. intros i _.
    match goal with |- context [guard_interpolate Ops xs ?x] => destruct (interpolate_spec Ops xs x HN) as [[_ ->]|[_ ->]]; auto end.
Qed.
Lemma icall_safe xs c : 2 <= zlen xs < 4294967296 -> guard_icall Ops xs c = Ok tt \/ guard_icall Ops xs c = Exit.
Proof.
  intros HN. destruct c as [x|x|x n|a b|a b|a b| |n]; cbn [guard_icall]; [| | | | | | |exact (save_function_safe xs n HN)].
  - destruct (locate_range Ops xs x HN) as [->|(j & -> & _)]; cbn; auto.
  - destruct (interpolate_spec Ops xs x HN) as [[_ ->]|[_ ->]]; auto.
  - destruct (interpolate_spec Ops xs x HN) as [[_ ->]|[_ ->]]; cbn; auto. destruct (n =? 0); auto.
  - destruct (interp_integrate_spec Ops xs a b HN) as [[_ ->]|(_ & _ & ->)]; auto.
  - destruct (local_extremum_spec Ops xs a b HN) as [[_ ->]|(_ & _ & _ & ->)]; auto.
  - destruct (local_extremum_spec Ops xs a b HN) as [[_ ->]|(_ & _ & _ & ->)]; auto.
  - left. apply for_range_ok. intros i Hi. apply at_ok; lia.
Qed.
Lemma icalls_spec xs cs : 2 <= zlen xs < 4294967296 ->
  ((forall c, In c cs -> guard_icall Ops xs c = Ok tt) /\ guard_icalls Ops xs cs = Ok tt) \/
  ((exists c, In c cs /\ guard_icall Ops xs c = Exit) /\ guard_icalls Ops xs cs = Exit).
Proof.
  intros HN. induction cs as [|c r IH]; cbn [guard_icalls].
  - left. split; [intros c []|reflexivity].
  - destruct (icall_safe xs c HN) as [E|E]; rewrite E; cbn [rbind].
    + destruct IH as [[H1 H2]|[(c' & Hin & Hc') H2]].
      * left. split; [|exact H2]. intros c' [<-|Hin]; auto.
      * right. split; [|exact H2]. exists c'. split; [now right|exact Hc'].
    + right. split; [|reflexivity]. exists c. split; [now left|exact E].
Qed.
(** the indices that the Locate requests of a sequence return: defined exactly when the sequence returns, and then every
    one of them is an interval of the table (0 .. N-2), i.e. a valid index of the N-1 Steffen coefficients *)
Lemma icalls_locs_spec xs cs : 2 <= zlen xs < 4294967296 ->
  (guard_icalls Ops xs cs = Ok tt /\ exists l, icalls_locs Ops xs cs = Ok l /\ Forall (fun j => 0 <= j <= zlen xs - 2) l) \/
  (guard_icalls Ops xs cs = Exit /\ icalls_locs Ops xs cs = Exit).
Proof.
  intros HN. induction cs as [|c r IH]; cbn [guard_icalls icalls_locs].
  - left. split; [reflexivity|]. exists []. split; [reflexivity|constructor].
  - assert (G : forall (k : res (list Z)),
        (guard_icall Ops xs c = Ok tt -> k = icalls_locs Ops xs r) ->
        (guard_icall Ops xs c = Exit -> k = Exit) ->
        (guard_icalls Ops xs (c :: r) = Ok tt /\ exists l, k = Ok l /\ Forall (fun j => 0 <= j <= zlen xs - 2) l) \/
        (guard_icalls Ops xs (c :: r) = Exit /\ k = Exit)).
    { intros k H1 H2. cbn [guard_icalls]. destruct (icall_safe xs c HN) as [E|E]; rewrite E; cbn [rbind].
      - rewrite (H1 E). exact IH.
      - right. split; [reflexivity|exact (H2 E)]. }
    destruct c as [x|x|x n|a b|a b|a b| |n].
    + (* Locate *)
      cbn [guard_icalls guard_icall].
      destruct (locate_range Ops xs x HN) as [E|(j & E & Hj)]; rewrite E; cbn [rbind].
      * right. split; reflexivity.
      * destruct IH as [[H1 (l & H2 & H3)]|[H1 H2]].
        -- left. split; [exact H1|]. exists (j :: l). rewrite H2. cbn [rbind]. split; [reflexivity|constructor; assumption].
        -- right. split; [exact H1|]. rewrite H2. reflexivity.
    + apply G; intros E; rewrite E; reflexivity.
    + apply G; intros E; rewrite E; reflexivity.
    + apply G; intros E; rewrite E; reflexivity.
    + apply G; intros E; rewrite E; reflexivity.
    + apply G; intros E; rewrite E; reflexivity.
    + apply G; intros E; rewrite E; reflexivity.
    + apply G; intros E; rewrite E; reflexivity.
Qed.
Lemma zlen_scale_units dim xs : zlen (scale_units Ops dim xs) = zlen xs.
Proof. unfold scale_units. destruct (ngtb Ops dim (n0 Ops)); [unfold zlen; now rewrite map_length|reflexivity]. Qed.
Lemma session_locs_spec xs dim cs : 2 <= zlen xs < 4294967296 ->
  (guard_icalls Ops (scale_units Ops dim xs) cs = Ok tt /\ exists l, session_locs Ops xs dim cs = Ok l /\ Forall (fun j => 0 <= j <= zlen xs - 2) l) \/
  (guard_icalls Ops (scale_units Ops dim xs) cs = Exit /\ session_locs Ops xs dim cs = Exit).
Proof.
  intros HN. unfold session_locs. pose proof (icalls_locs_spec (scale_units Ops dim xs) cs) as L.
  rewrite zlen_scale_units in L. exact (L HN).
Qed.
End Calls.
