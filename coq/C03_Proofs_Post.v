(** * C03 proofs: the error clause WITHOUT the "no warning" hypothesis, and distinctness of the abscissae (over [ROps]).
    - an a-priori bound valid for every depth and epsilon, warning or not:
        |value - integral| <= 4 |eps| + (b-a)^5 m / (14400 * 16^depth)
      (every panel on which the recursion stops, accepted or forced, is off by at most w^5 m / 14400, w its width);
    - an a-posteriori bound: |value - integral| <= (4/15) * sum over the panels of |S2 - S|;
    - the warning flag as a predicate on the panels of the composite rule;
    - no abscissa is evaluated twice (the inherited values fa, fb, fc are the only reuse). *)
From Coq Require Import Reals ZArith Lra Lia List Bool.
From Coquelicot Require Import Coquelicot.
From LP Require Import Num NumR C03_Model C03_Proofs C03_Proofs_Remainder C03_Proofs_Seq C03_Proofs_More.
Import ListNotations.
Local Open Scope R_scope.

(** ** Leaf algebra without the acceptance test *)
Lemma leaf_any_pos K m phi1 phib I S S2 :
  0 <= K -> 0 < m -> m <= phi1 <= 4 * m -> m <= phib <= 4 * m ->
  I - S = - K * phi1 -> I - S2 = - K * phib / 16 ->
  Rabs (S2 + (S2 - S) / 15 - I) <= K * m / 5 /\
  Rabs (S2 + (S2 - S) / 15 - I) <= 4 / 15 * Rabs (S2 - S).
Proof.
  intros HK Hm H1 Hb E1 E2.
  assert (D : S2 - S = K * (phib / 16 - phi1)) by lra.
  assert (R : S2 + (S2 - S) / 15 - I = - (K * (phi1 - phib) / 15)) by lra.
  rewrite R, Rabs_Ropp. rewrite D. split.
  - apply Rabs_le. split; nra.
  - assert (Hneg : K * (phib / 16 - phi1) <= 0) by nra.
    rewrite (Rabs_left1 (K * (phib / 16 - phi1))) by exact Hneg.
    apply Rabs_le. split; nra.
Qed.

Lemma leaf_any sg K m phi1 phib I S S2 :
  sg = 1 \/ sg = -1 ->
  0 <= K -> 0 < m -> m <= sg * phi1 <= 4 * m -> m <= sg * phib <= 4 * m ->
  I - S = - K * phi1 -> I - S2 = - K * phib / 16 ->
  Rabs (S2 + (S2 - S) / 15 - I) <= K * m / 5 /\
  Rabs (S2 + (S2 - S) / 15 - I) <= 4 / 15 * Rabs (S2 - S).
Proof.
  intros [->| ->] HK Hm H1 Hb E1 E2.
  - apply (leaf_any_pos K m phi1 phib); try assumption; lra.
  - replace (S2 + (S2 - S) / 15 - I) with (- ((- S2) + ((- S2) - (- S)) / 15 - (- I))) by lra.
    rewrite Rabs_Ropp.
    replace (S2 - S) with (- (- S2 - - S)) by lra. rewrite (Rabs_Ropp (- S2 - - S)).
    apply (leaf_any_pos K m (- phi1) (- phib)); try assumption; lra.
Qed.

(** the discrepancy |S2 - S| of a panel, and whether a panel of the composite rule fails the acceptance test of its level *)
Definition disc (f : R -> R) (p : R * R) : R := Rabs (S2of f (fst p) (snd p) - simp f (fst p) (snd p)).

Lemma sumR_disc_nonneg f l : 0 <= sumR (map (disc f) l).
Proof.
  induction l as [|p l IH]; cbn; [lra|]. unfold disc at 1. pose proof (Rabs_pos (S2of f (fst p) (snd p) - simp f (fst p) (snd p))).
  unfold sumR in IH. lra.
Qed.

Lemma pow16_pos n : 0 < 16 ^ n. Proof. apply pow_lt. lra. Qed.

Section ErrorAny.
Variable f : R -> R.
Variable Iab : R -> R -> R.
Variables lo hi m sg : R.
Hypothesis Hsg : sg = 1 \/ sg = -1.
Hypothesis Hm : 0 < m.
Hypothesis Hadd : forall u v, lo <= u -> u < v -> v <= hi -> Iab u v = Iab u ((u + v) / 2) + Iab ((u + v) / 2) v.
Hypothesis Hrem : forall u v, lo <= u -> u < v -> v <= hi ->
  exists phi, m <= sg * phi <= 4 * m /\ Iab u v - simp f u v = - ((v - u) ^ 5 / 2880) * phi.

Lemma leaf_err_any a b : lo <= a -> a < b -> b <= hi ->
  Rabs (leafval f a b - Iab a b) <= (b - a) ^ 5 * m / 14400 /\
  Rabs (leafval f a b - Iab a b) <= 4 / 15 * Rabs (S2of f a b - simp f a b).
Proof.
  intros Ha Hab Hb. set (c := (a + b) / 2).
  destruct (Hrem a b Ha Hab Hb) as (p1 & B1 & E1).
  destruct (Hrem a c) as (pl & Bl & El); [lra|unfold c; lra|unfold c; lra|].
  destruct (Hrem c b) as (pr & Br & Er); [unfold c; lra|unfold c; lra|lra|].
  pose proof (Hadd a b Ha Hab Hb) as A. fold c in A.
  unfold leafval.
  replace ((b - a) ^ 5 * m / 14400) with ((b - a) ^ 5 / 2880 * m / 5) by field.
  apply (leaf_any sg ((b - a) ^ 5 / 2880) m p1 ((pl + pr) / 2) (Iab a b) (simp f a b) (S2of f a b)); try assumption.
  - apply Rmult_le_pos; [|lra]. apply pow_le. lra.
  - destruct Hsg as [->| ->]; lra.
  - unfold S2of. fold c. rewrite A.
    replace (Iab a c + Iab c b - (simp f a c + simp f c b)) with ((Iab a c - simp f a c) + (Iab c b - simp f c b)) by ring.
    rewrite El, Er. unfold c. field.
Qed.

(** a-priori: accepted leaves are within 4 eps_k (sum <= 4 eps), forced leaves within w^5 m / 14400 with w = (b-a)/2^n *)
Lemma core_err_any n : forall a b eps, 0 <= eps -> lo <= a -> a < b -> b <= hi ->
  Rabs (val (core f a b eps n) - Iab a b) <= 4 * eps + (b - a) ^ 5 * m / (14400 * 16 ^ n).
Proof.
  induction n as [|n IH]; intros a b eps He Ha Hab Hb.
  - rewrite core_O, val_t. destruct (leaf_err_any a b Ha Hab Hb) as [L _].
    cbn [pow]. replace ((b - a) ^ 5 * m / (14400 * 1)) with ((b - a) ^ 5 * m / 14400) by field. lra.
  - assert (Hnn : 0 <= (b - a) ^ 5 * m / (14400 * 16 ^ S n)).
    { apply Rmult_le_pos.
      - apply Rmult_le_pos; [apply pow_le; lra|lra].
      - left. apply Rinv_0_lt_compat. pose proof (pow16_pos (S n)). lra. }
    rewrite core_S. destruct (Rleb_spec (Rabs (S2of f a b - simp f a b)) (15 * eps)) as [Hacc|Hacc].
    + rewrite val_t.
      pose proof (leaf_err f Iab lo hi m sg Hsg Hm Hadd Hrem a b eps Ha Hab Hb Hacc). lra.
    + cbv zeta. rewrite val_t.
      pose proof (IH a ((a + b) / 2) (eps / 2)) as I1. pose proof (IH ((a + b) / 2) b (eps / 2)) as I2.
      specialize (I1 ltac:(lra) ltac:(lra) ltac:(lra) ltac:(lra)). specialize (I2 ltac:(lra) ltac:(lra) ltac:(lra) ltac:(lra)).
      rewrite (Hadd a b Ha Hab Hb).
      match goal with |- Rabs ?e <= _ =>
        replace e with ((val (core f a ((a + b) / 2) (eps / 2) n) - Iab a ((a + b) / 2)) +
                        (val (core f ((a + b) / 2) b (eps / 2) n) - Iab ((a + b) / 2) b)) by ring end.
      eapply Rle_trans; [apply Rabs_triang|].
      pose proof (pow16_pos n) as P16.
      replace (4 * eps + (b - a) ^ 5 * m / (14400 * 16 ^ S n))
        with ((4 * (eps / 2) + ((a + b) / 2 - a) ^ 5 * m / (14400 * 16 ^ n)) +
              (4 * (eps / 2) + (b - (a + b) / 2) ^ 5 * m / (14400 * 16 ^ n))).
      * lra.
      * cbn [pow]. field. cbn [pow] in P16. lra.
Qed.

(** a-posteriori: (4/15) times the sum of the discrepancies of the panels on which the recursion stops *)
Lemma core_err_post n : forall a b eps, lo <= a -> a < b -> b <= hi ->
  Rabs (val (core f a b eps n) - Iab a b) <= 4 / 15 * sumR (map (disc f) (panels f n a b eps)).
Proof.
  assert (Leaf : forall a b, lo <= a -> a < b -> b <= hi ->
            Rabs (leafval f a b - Iab a b) <= 4 / 15 * sumR (map (disc f) [(a, b)])).
  { intros a b Ha Hab Hb. destruct (leaf_err_any a b Ha Hab Hb) as [_ L].
    cbn [map sumR fold_right]. unfold disc. cbn [fst snd]. lra. }
  induction n as [|n IH]; intros a b eps Ha Hab Hb.
  - rewrite core_O, val_t. cbn [panels]. apply Leaf; assumption.
  - rewrite core_S. cbn [panels]. destruct (Rleb _ _).
    + rewrite val_t. apply Leaf; assumption.
    + cbv zeta. rewrite val_t, map_app, sumR_app.
      pose proof (IH a ((a + b) / 2) (eps / 2)) as I1. pose proof (IH ((a + b) / 2) b (eps / 2)) as I2.
      specialize (I1 ltac:(lra) ltac:(lra) ltac:(lra)). specialize (I2 ltac:(lra) ltac:(lra) ltac:(lra)).
      rewrite (Hadd a b Ha Hab Hb).
      match goal with |- Rabs ?e <= _ =>
        replace e with ((val (core f a ((a + b) / 2) (eps / 2) n) - Iab a ((a + b) / 2)) +
                        (val (core f ((a + b) / 2) b (eps / 2) n) - Iab ((a + b) / 2) b)) by ring end.
      eapply Rle_trans; [apply Rabs_triang|]. lra.
Qed.

(** every discrepancy is at most w^5 m / 720 (w the width of the panel) ... *)
Lemma disc_bound a b : lo <= a -> a < b -> b <= hi ->
  Rabs (S2of f a b - simp f a b) <= (b - a) ^ 5 * m / 720.
Proof.
  intros Ha Hab Hb. set (c := (a + b) / 2).
  destruct (Hrem a b Ha Hab Hb) as (p1 & B1 & E1).
  destruct (Hrem a c) as (pl & Bl & El); [lra|unfold c; lra|unfold c; lra|].
  destruct (Hrem c b) as (pr & Br & Er); [unfold c; lra|unfold c; lra|lra|].
  pose proof (Hadd a b Ha Hab Hb) as A. fold c in A.
  set (K := (b - a) ^ 5 / 2880).
  assert (HK : 0 <= K). { unfold K. apply Rmult_le_pos; [|lra]. apply pow_le. lra. }
  assert (E : S2of f a b - simp f a b = K * ((pl + pr) / 32 - p1)).
  { unfold S2of. fold c.
    replace (simp f a c + simp f c b - simp f a b)
      with ((Iab a b - simp f a b) - ((Iab a c - simp f a c) + (Iab c b - simp f c b))) by (rewrite A; ring).
    rewrite E1, El, Er. unfold K, c. field. }
  rewrite E. replace ((b - a) ^ 5 * m / 720) with (K * (4 * m)) by (unfold K; field).
  apply Rabs_le. destruct Hsg as [->| ->]; split; nra.
Qed.

(** ... so a depth with (b-a)^5 m <= 10800 eps 16^depth is never exhausted with a failing test: no warning *)
Lemma core_no_warning n : forall a b eps, lo <= a -> a < b -> b <= hi ->
  (b - a) ^ 5 * m <= 10800 * eps * 16 ^ n -> wrn (core f a b eps n) = false.
Proof.
  induction n as [|n IH]; intros a b eps Ha Hab Hb Hd.
  - rewrite core_O, wrn_t. apply Rltb_false. pose proof (disc_bound a b Ha Hab Hb). cbn [pow] in Hd. lra.
  - rewrite core_S. destruct (Rleb _ _); [reflexivity|].
    cbv zeta. rewrite wrn_t. apply orb_false_iff. cbn [pow] in Hd. split; apply IH; try lra.
Qed.
End ErrorAny.

(** ** From the ordered recursion to Integrate, limits in either order or equal *)
Lemma integrate_err_lift (f : R -> R) (a b eps : R) (depth : Z) (Bd : R) :
  (forall u v, Rmin a b <= u -> u <= v -> v <= Rmax a b -> ex_RInt f u v) ->
  0 <= Bd ->
  (Rmin a b < Rmax a b ->
   Rabs (val (core f (Rmin a b) (Rmax a b) (Rabs eps) (Z.to_nat depth)) - RInt f (Rmin a b) (Rmax a b)) <= Bd) ->
  Rabs (val (integrate ROps f a b eps depth) - RInt f a b) <= Bd.
Proof.
  intros Hex HB Hc.
  destruct (Rtotal_order a b) as [H|[H|H]].
  - rewrite integrate_lt by exact H. rewrite val_t, Rmult_1_l.
    rewrite Rmin_left, Rmax_right in Hc by lra. apply Hc. exact H.
  - subst b. rewrite integrate_eq. unfold val. cbn [fst].
    rewrite RInt_point. unfold zero. cbn. rewrite Rminus_0_r, Rabs_R0. exact HB.
  - rewrite integrate_gt by exact H. rewrite val_t.
    rewrite Rmin_right, Rmax_left in * by lra.
    rewrite <- (opp_RInt_swap f b a) by (apply Hex; lra).
    change (opp (RInt f b a)) with (- RInt f b a).
    replace (- (1) * val (core f b a (Rabs eps) (Z.to_nat depth)) - - RInt f b a)
      with (- (val (core f b a (Rabs eps) (Z.to_nat depth)) - RInt f b a)) by ring.
    rewrite Rabs_Ropp. apply Hc. exact H.
Qed.

Section Regular.
Variables (f f1 f2 f3 f4 : R -> R) (lo' hi' a b m sg : R).
Hypothesis Hlo : lo' < Rmin a b.
Hypothesis Hhi : Rmax a b < hi'.
Hypothesis D0 : forall x, lo' < x < hi' -> is_derive f x (f1 x).
Hypothesis D1 : forall x, lo' < x < hi' -> is_derive f1 x (f2 x).
Hypothesis D2 : forall x, lo' < x < hi' -> is_derive f2 x (f3 x).
Hypothesis D3 : forall x, lo' < x < hi' -> is_derive f3 x (f4 x).
Hypothesis Hsg : sg = 1 \/ sg = -1.
Hypothesis Hm : 0 < m.
Hypothesis H4 : forall x, Rmin a b <= x <= Rmax a b -> m <= sg * f4 x <= 4 * m.

Lemma reg_ex : forall u v, Rmin a b <= u -> u <= v -> v <= Rmax a b -> ex_RInt f u v.
Proof.
  intros u v Hu Huv Hv. apply (ex_RInt_continuous (V := R_CompleteNormedModule)).
  intros x Hx. rewrite Rmin_left, Rmax_right in Hx by lra. apply (f_cont f f1 lo' hi' D0). lra.
Qed.

Lemma reg_add : forall u v, Rmin a b <= u -> u < v -> v <= Rmax a b ->
  RInt f u v = RInt f u ((u + v) / 2) + RInt f ((u + v) / 2) v.
Proof.
  intros u v Hu Huv Hv. symmetry.
  apply (RInt_Chasles (V := R_CompleteNormedModule)); apply reg_ex; lra.
Qed.

Lemma reg_rem : forall u v, Rmin a b <= u -> u < v -> v <= Rmax a b ->
  exists phi, m <= sg * phi <= 4 * m /\ RInt f u v - simp f u v = - ((v - u) ^ 5 / 2880) * phi.
Proof.
  intros u v Hu Huv Hv.
  apply (simpson_remainder f f1 f2 f3 f4 lo' hi' (Rmin a b) (Rmax a b) m sg); assumption.
Qed.

Theorem error_bound_any_depth (eps : R) (depth : Z) :
  Rabs (val (integrate ROps f a b eps depth) - RInt f a b)
  <= 4 * Rabs eps + (Rmax a b - Rmin a b) ^ 5 * m / (14400 * 16 ^ Z.to_nat depth).
Proof.
  assert (Hmm : Rmin a b <= Rmax a b) by apply Rminmax.
  apply integrate_err_lift.
  - exact reg_ex.
  - pose proof (Rabs_pos eps). apply Rplus_le_le_0_compat; [lra|].
    apply Rmult_le_pos.
    + apply Rmult_le_pos; [apply pow_le; lra|lra].
    + left. apply Rinv_0_lt_compat. pose proof (pow16_pos (Z.to_nat depth)). lra.
  - intros Hlt.
    apply (core_err_any f (RInt f) (Rmin a b) (Rmax a b) m sg Hsg Hm reg_add reg_rem); try lra. apply Rabs_pos.
Qed.

Theorem error_bound_posterior (eps : R) (depth : Z) :
  Rabs (val (integrate ROps f a b eps depth) - RInt f a b)
  <= 4 / 15 * sumR (map (disc f) (panels f (Z.to_nat depth) (Rmin a b) (Rmax a b) (Rabs eps))).
Proof.
  assert (Hmm : Rmin a b <= Rmax a b) by apply Rminmax.
  apply integrate_err_lift.
  - exact reg_ex.
  - pose proof (sumR_disc_nonneg f (panels f (Z.to_nat depth) (Rmin a b) (Rmax a b) (Rabs eps))). lra.
  - intros Hlt.
    apply (core_err_post f (RInt f) (Rmin a b) (Rmax a b) m sg Hsg Hm reg_add reg_rem); lra.
Qed.

(** a depth that suffices: no warning, hence the 4 |eps| bound *)
Theorem sufficient_depth (eps : R) (depth : Z) :
  (Rmax a b - Rmin a b) ^ 5 * m <= 10800 * Rabs eps * 16 ^ Z.to_nat depth ->
  wrn (integrate ROps f a b eps depth) = false /\ Rabs (val (integrate ROps f a b eps depth) - RInt f a b) <= 4 * Rabs eps.
Proof.
  intros Hd.
  assert (W : wrn (integrate ROps f a b eps depth) = false).
  { destruct (Rtotal_order a b) as [H|[H|H]].
    - rewrite integrate_lt by exact H. rewrite wrn_t.
      pose proof (core_no_warning f (RInt f) (Rmin a b) (Rmax a b) m sg Hsg reg_add reg_rem (Z.to_nat depth)
                    (Rmin a b) (Rmax a b) (Rabs eps)) as Q.
      rewrite Rmin_left, Rmax_right in Q, Hd by lra. apply Q; lra.
    - subst b. rewrite integrate_eq. reflexivity.
    - rewrite integrate_gt by exact H. rewrite wrn_t.
      pose proof (core_no_warning f (RInt f) (Rmin a b) (Rmax a b) m sg Hsg reg_add reg_rem (Z.to_nat depth)
                    (Rmin a b) (Rmax a b) (Rabs eps)) as Q.
      rewrite Rmin_right, Rmax_left in Q, Hd by lra. apply Q; lra. }
  split; [exact W|].
  exact (error_bound f f1 f2 f3 f4 lo' hi' a b eps m sg depth Hlo Hhi D0 D1 D2 D3 Hsg Hm H4 W).
Qed.
End Regular.

(** non-vacuity: x^4 on [0,1] at depth 0 with epsilon 0 (the leaf is forced, a warning is raised, [error_bound] says nothing):
    the value is exact here (five-point rule) and the bound is 24/14400 *)
Example error_bound_any_depth_x4 :
  wrn (integrate ROps x4 0 1 0 0) = true /\
  Rabs (val (integrate ROps x4 0 1 0 0) - RInt x4 0 1) <= 4 * Rabs 0 + (Rmax 0 1 - Rmin 0 1) ^ 5 * 24 / (14400 * 16 ^ Z.to_nat 0).
Proof.
  split.
  - rewrite integrate_lt by lra. rewrite wrn_t. cbn [Z.to_nat]. rewrite core_O, wrn_t.
    rewrite Rabs_R0. apply Rltb_true. rewrite Rmult_0_r.
    unfold S2of, simp, x4. replace ((0 + 1) / 2) with (1 / 2) by field.
    match goal with |- 0 < Rabs ?e => replace e with (- (1 / 128)) by field end.
    rewrite Rabs_Ropp, Rabs_right; lra.
  - apply (error_bound_any_depth x4 (fun x => 4 * x ^ 3) (fun x => 12 * x ^ 2) (fun x => 24 * x) (fun _ => 24) (-1) 2 0 1 24 1).
    + rewrite Rmin_left; lra.
    + rewrite Rmax_right; lra.
    + intros; unfold x4; auto_derive; auto; ring.
    + intros; auto_derive; auto; ring.
    + intros; auto_derive; auto; ring.
    + intros; auto_derive; auto; ring.
    + now left.
    + lra.
    + intros; lra.
Qed.

(** ** The warning flag as a predicate on the recursion: it is raised exactly when some panel forced by the depth limit
    fails the acceptance test of its level.  [forced_fail f n a b eps] lists, left to right, the panels of width
    (b-a)/2^n reached with exhausted depth together with the tolerance eps/2^n in force there, that fail the test. *)
Fixpoint forced_fail (f : R -> R) (n : nat) (a b eps : R) : list (R * R * R) :=
  match n with
  | O => if Rltb (15 * eps) (Rabs (S2of f a b - simp f a b)) then [(a, b, eps)] else []
  | S n' => if Rleb (Rabs (S2of f a b - simp f a b)) (15 * eps) then []
            else forced_fail f n' a ((a + b) / 2) (eps / 2) ++ forced_fail f n' ((a + b) / 2) b (eps / 2)
  end.

Lemma core_wrn_forced f n : forall a b eps,
  wrn (core f a b eps n) = negb (Nat.eqb (length (forced_fail f n a b eps)) 0).
Proof.
  induction n as [|n IH]; intros a b eps.
  - rewrite core_O, wrn_t. cbn [forced_fail]. destruct (Rltb _ _); reflexivity.
  - rewrite core_S. cbn [forced_fail]. destruct (Rleb _ _).
    + reflexivity.
    + cbv zeta. rewrite wrn_t, !IH, app_length.
      destruct (length (forced_fail f n a ((a + b) / 2) (eps / 2))); cbn; [|reflexivity].
      destruct (length (forced_fail f n ((a + b) / 2) b (eps / 2))); reflexivity.
Qed.

Lemma forced_fail_spec f n : forall a b eps,
  List.Forall (fun q => let '(u, v, e) := q in
                   v - u = (b - a) / 2 ^ n /\ e = eps / 2 ^ n /\ In (u, v) (panels f n a b eps) /\
                   15 * e < Rabs (S2of f u v - simp f u v)) (forced_fail f n a b eps).
Proof.
  induction n as [|n IH]; intros a b eps.
  - cbn [forced_fail]. destruct (Rltb_spec (15 * eps) (Rabs (S2of f a b - simp f a b))); [|constructor].
    constructor; [|constructor]. cbn. repeat split; try field; auto.
  - cbn [forced_fail panels]. destruct (Rleb _ _); [constructor|].
    apply Forall_app. split.
    + eapply Forall_impl; [|apply IH]. intros [[u v] e] (W & E & I & D). repeat split.
      * rewrite W. cbn [pow]. field. apply pow_nonzero. lra.
      * rewrite E. cbn [pow]. field. apply pow_nonzero. lra.
      * apply in_or_app. left. exact I.
      * exact D.
    + eapply Forall_impl; [|apply IH]. intros [[u v] e] (W & E & I & D). repeat split.
      * rewrite W. cbn [pow]. field. apply pow_nonzero. lra.
      * rewrite E. cbn [pow]. field. apply pow_nonzero. lra.
      * apply in_or_app. right. exact I.
      * exact D.
Qed.

Theorem warning_iff_forced_failure (f : R -> R) (a b eps : R) (depth : Z) :
  a <> b ->
  let lo := Rmin a b in let hi := Rmax a b in
  let ff := forced_fail f (Z.to_nat depth) lo hi (Rabs eps) in
  (wrn (integrate ROps f a b eps depth) = true <-> ff <> []) /\
  List.Forall (fun q => let '(u, v, e) := q in
                   v - u = (hi - lo) / 2 ^ Z.to_nat depth /\ e = Rabs eps / 2 ^ Z.to_nat depth /\
                   In (u, v) (panels f (Z.to_nat depth) lo hi (Rabs eps)) /\
                   15 * e < Rabs (S2of f u v - simp f u v)) ff.
Proof.
  intros Hne lo hi ff. subst lo hi ff. split; [|apply forced_fail_spec].
  assert (G : forall x y, wrn (core f x y (Rabs eps) (Z.to_nat depth)) = true <->
                          forced_fail f (Z.to_nat depth) x y (Rabs eps) <> []).
  { intros x y. rewrite core_wrn_forced. destruct (forced_fail f (Z.to_nat depth) x y (Rabs eps)); cbn; split; congruence. }
  destruct (Rtotal_order a b) as [H|[H|H]]; [|contradiction|].
  - rewrite Rmin_left, Rmax_right by lra. rewrite integrate_lt by exact H. rewrite wrn_t. apply G.
  - rewrite Rmin_right, Rmax_left by lra. rewrite integrate_gt by exact H. rewrite wrn_t. apply G.
Qed.

(** ** No abscissa is evaluated twice *)
Lemma NoDup_app_disj {A} (l1 l2 : list A) :
  NoDup l1 -> NoDup l2 -> (forall x, In x l1 -> In x l2 -> False) -> NoDup (l1 ++ l2).
Proof.
  induction l1 as [|x l1 IH]; intros N1 N2 D; [exact N2|].
  inversion N1; subst. cbn. constructor.
  - intros I. apply in_app_or in I. destruct I as [I|I]; [contradiction|]. apply (D x); [now left|exact I].
  - apply IH; try assumption. intros y I1 I2. apply (D y); [now right|exact I2].
Qed.

Lemma core_strict f n : forall a b eps, a < b ->
  List.Forall (fun x => a < x < b /\ x <> (a + b) / 2) (trc (core f a b eps n)) /\ NoDup (trc (core f a b eps n)).
Proof.
  induction n as [|n IH]; intros a b eps H.
  - rewrite core_O, trc_t. split.
    + repeat (apply List.Forall_cons; [split; lra|]). apply List.Forall_nil.
    + constructor; [|constructor; [|constructor]]; cbn; intros I; [destruct I as [I|[]]|destruct I]; lra.
  - rewrite core_S. destruct (Rleb _ _).
    + rewrite trc_t. split.
      * repeat (apply List.Forall_cons; [split; lra|]). apply List.Forall_nil.
      * constructor; [|constructor; [|constructor]]; cbn; intros I; [destruct I as [I|[]]|destruct I]; lra.
    + cbv zeta. rewrite trc_t.
      destruct (IH a ((a + b) / 2) (eps / 2) ltac:(lra)) as [F1 N1].
      destruct (IH ((a + b) / 2) b (eps / 2) ltac:(lra)) as [F2 N2].
      rewrite Forall_forall in F1, F2.
      split.
      * apply List.Forall_cons; [split; lra|]. apply List.Forall_cons; [split; lra|].
        apply Forall_forall. intros x I. apply in_app_or in I. destruct I as [I|I].
        -- destruct (F1 x I). split; lra.
        -- destruct (F2 x I). split; lra.
      * constructor; [|constructor].
        -- cbn. intros [I|I]; [lra|]. apply in_app_or in I. destruct I as [I|I].
           ++ destruct (F1 _ I) as [_ Q]. apply Q. reflexivity.
           ++ destruct (F2 _ I). lra.
        -- intros I. apply in_app_or in I. destruct I as [I|I].
           ++ destruct (F1 _ I). lra.
           ++ destruct (F2 _ I) as [_ Q]. apply Q. field.
        -- apply NoDup_app_disj; try assumption.
           intros x I1 I2. destruct (F1 x I1), (F2 x I2). lra.
Qed.

Theorem eval_points_distinct (f : R -> R) (a b eps : R) (depth : Z) :
  NoDup (trc (integrate ROps f a b eps depth)).
Proof.
  assert (G : forall x y, x < y -> NoDup (x :: y :: (x + y) / 2 :: trc (core f x y (Rabs eps) (Z.to_nat depth)))).
  { intros x y H. destruct (core_strict f (Z.to_nat depth) x y (Rabs eps) H) as [F N].
    rewrite Forall_forall in F.
    constructor; [|constructor; [|constructor]].
    - cbn. intros [I|[I|I]]; [lra|lra|]. destruct (F _ I). lra.
    - cbn. intros [I|I]; [lra|]. destruct (F _ I). lra.
    - intros I. destruct (F _ I) as [_ Q]. apply Q. reflexivity.
    - exact N. }
  destruct (Rtotal_order a b) as [H|[H|H]].
  - rewrite integrate_lt by exact H. rewrite trc_t. apply G. exact H.
  - subst b. rewrite integrate_eq. constructor.
  - rewrite integrate_gt by exact H. rewrite trc_t. apply G. exact H.
Qed.

(** ** Find_Epsilon: precision times Simpson's estimate; exact (precision times the integral) on cubics; antisymmetric *)
Lemma find_epsilon_simp (f : R -> R) (a b p : R) : find_epsilon ROps f a b p = p * simp f a b.
Proof. unfold find_epsilon, simp. cbn. reflexivity. Qed.

Theorem find_epsilon_cubic (c0 c1 c2 c3 a b p : R) :
  find_epsilon ROps (fun x => c0 + c1 * x + c2 * x ^ 2 + c3 * x ^ 3) a b p
  = p * RInt (fun x => c0 + c1 * x + c2 * x ^ 2 + c3 * x ^ 3) a b.
Proof.
  rewrite find_epsilon_simp. f_equal.
  pose proof (P5_is_RInt c0 c1 c2 c3 0 0 a b) as HI.
  assert (E : RInt (fun x => c0 + c1 * x + c2 * x ^ 2 + c3 * x ^ 3) a b = P5 c0 c1 c2 c3 0 0 b - P5 c0 c1 c2 c3 0 0 a).
  { assert (X : forall x : R, p5 c0 c1 c2 c3 0 0 x = c0 + c1 * x + c2 * x ^ 2 + c3 * x ^ 3) by (intros x; unfold p5; ring).
    apply is_RInt_unique. apply (is_RInt_ext (p5 c0 c1 c2 c3 0 0)); [|exact HI]. intros x _. apply X. }
  rewrite E. unfold simp, P5. field.
Qed.

Theorem find_epsilon_swap (f : R -> R) (a b p : R) :
  find_epsilon ROps f b a p = - find_epsilon ROps f a b p.
Proof. rewrite !find_epsilon_simp. unfold simp. replace ((b + a) / 2) with ((a + b) / 2) by field. field. Qed.

(** non-vacuity of [sufficient_depth]: x^4 on [0,1] (m = 24) with epsilon 1/100 already at depth 0: 24 <= 108 *)
Example sufficient_depth_x4 :
  wrn (integrate ROps x4 0 1 (1 / 100) 0) = false /\
  Rabs (val (integrate ROps x4 0 1 (1 / 100) 0) - RInt x4 0 1) <= 4 * Rabs (1 / 100).
Proof.
  apply (sufficient_depth x4 (fun x => 4 * x ^ 3) (fun x => 12 * x ^ 2) (fun x => 24 * x) (fun _ => 24) (-1) 2 0 1 24 1).
  - rewrite Rmin_left; lra.
  - rewrite Rmax_right; lra.
  - intros; unfold x4; auto_derive; auto; ring.
  - intros; auto_derive; auto; ring.
  - intros; auto_derive; auto; ring.
  - intros; auto_derive; auto; ring.
  - now left.
  - lra.
  - intros; lra.
  - rewrite Rmin_left, Rmax_right by lra. rewrite (Rabs_right (1 / 100)) by lra. cbn [Z.to_nat pow]. lra.
Qed.

(** non-vacuity of [warning_iff_forced_failure] / [eval_points_distinct]: the forced panel of x^4 on [0,1], depth 0, eps 0 *)
Example forced_fail_x4 : forced_fail x4 0 0 1 0 = [(0, 1, 0)].
Proof.
  cbn [forced_fail]. destruct (Rltb_spec (15 * 0) (Rabs (S2of x4 0 1 - simp x4 0 1))) as [_|N]; [reflexivity|exfalso].
  apply N. rewrite Rmult_0_r. unfold S2of, simp, x4. replace ((0 + 1) / 2) with (1 / 2) by field.
  match goal with |- 0 < Rabs ?e => replace e with (- (1 / 128)) by field end.
  rewrite Rabs_Ropp, Rabs_right; lra.
Qed.

(** ** The error clause read literally (no proviso about the warning) is false of the rule: x^6 on [1,2] (fourth derivative
    360 x^2, between 360 and 1440 = 4 * 360), epsilon 1e-6, depth 0.  The only panel is forced, the warning is raised, the value
    is 48769/2688, the integral 127/7, the error 1/2688 > 4e-6.  (C++: Integrate(x^6,1,2,1e-6,0) = 18.143229166666664, prints the warning.) *)
Definition x6 (x : R) : R := x ^ 6.

Lemma x6_RInt : RInt x6 1 2 = 127 / 7.
Proof.
  apply is_RInt_unique.
  replace (127 / 7) with ((fun x => x ^ 7 / 7) 2 - (fun x => x ^ 7 / 7) 1) by (cbv beta; field).
  apply (is_RInt_derive (fun x => x ^ 7 / 7) x6).
  - intros x _. unfold x6. auto_derive; auto. field.
  - intros x _. apply (ex_derive_continuous x6). unfold x6. auto_derive. auto.
Qed.

Theorem error_bound_without_warning_refuted :
  exists (f f1 f2 f3 f4 : R -> R) (lo' hi' a b eps m sg : R) (depth : Z),
    lo' < Rmin a b /\ Rmax a b < hi' /\
    (forall x, lo' < x < hi' -> is_derive f x (f1 x)) /\
    (forall x, lo' < x < hi' -> is_derive f1 x (f2 x)) /\
    (forall x, lo' < x < hi' -> is_derive f2 x (f3 x)) /\
    (forall x, lo' < x < hi' -> is_derive f3 x (f4 x)) /\
    (sg = 1 \/ sg = -1) /\ 0 < m /\
    (forall x, Rmin a b <= x <= Rmax a b -> m <= sg * f4 x <= 4 * m) /\
    wrn (integrate ROps f a b eps depth) = true /\
    ~ Rabs (val (integrate ROps f a b eps depth) - RInt f a b) <= 4 * Rabs eps.
Proof.
  exists x6, (fun x => 6 * x ^ 5), (fun x => 30 * x ^ 4), (fun x => 120 * x ^ 3), (fun x => 360 * x ^ 2).
  exists 0, 3, 1, 2, (1 / 1000000), 360, 1, 0%Z.
  rewrite Rmin_left, Rmax_right by lra.
  split; [lra|]. split; [lra|].
  split; [intros; unfold x6; auto_derive; auto; ring|].
  split; [intros; auto_derive; auto; ring|].
  split; [intros; auto_derive; auto; ring|].
  split; [intros; auto_derive; auto; ring|].
  split; [now left|]. split; [lra|].
  split; [intros x Hx; nra|].
  rewrite integrate_lt by lra. rewrite wrn_t, val_t. cbn [Z.to_nat]. rewrite core_O, wrn_t, val_t.
  rewrite (Rabs_right (1 / 1000000)) by lra. split.
  - apply Rltb_true. unfold S2of, simp, x6.
    rewrite Rabs_left by lra. lra.
  - rewrite x6_RInt. replace (leafval x6 1 2) with (48769 / 2688) by (unfold leafval, S2of, simp, x6; field).
    rewrite Rabs_right by lra. lra.
Qed.

(** ** Where the constants come from: the error bound for a general ratio.
    If the fourth derivative keeps one sign and varies by at most a factor r, 1 <= r < 16, over the interval
    (m <= sg f4 <= r m), an accepted panel is within 16 (r-1)/(16-r) eps of its integral; r = 4 gives the 4 eps of the property,
    r = 1 (constant fourth derivative) gives 0. *)
Lemma leaf_gen_pos K m r phi1 phib I S S2 eps :
  0 <= K -> 0 < m -> 1 <= r < 16 -> m <= phi1 <= r * m -> m <= phib <= r * m ->
  I - S = - K * phi1 -> I - S2 = - K * phib / 16 ->
  Rabs (S2 - S) <= 15 * eps ->
  Rabs (S2 + (S2 - S) / 15 - I) <= 16 * (r - 1) / (16 - r) * eps.
Proof.
  intros HK Hm Hr H1 Hb E1 E2 Hacc.
  assert (D : S2 - S = K * (phib / 16 - phi1)) by lra.
  assert (R : S2 + (S2 - S) / 15 - I = - (K * (phi1 - phib) / 15)) by lra.
  rewrite R, Rabs_Ropp. rewrite D in Hacc.
  set (X := K * m). assert (HX : 0 <= X) by (unfold X; nra).
  assert (Hneg : K * (phib / 16 - phi1) <= - (X * ((16 - r) / 16))) by (unfold X; nra).
  assert (B : X * (16 - r) <= 240 * eps).
  { rewrite Rabs_left1 in Hacc by nra. lra. }
  assert (A : Rabs (K * (phi1 - phib) / 15) <= X * (r - 1) / 15).
  { apply Rabs_le. unfold X. split; nra. }
  eapply Rle_trans; [exact A|].
  apply Rmult_le_reg_r with (16 - r); [lra|].
  replace (16 * (r - 1) / (16 - r) * eps * (16 - r)) with (16 * (r - 1) * eps) by (field; lra).
  nra.
Qed.

Lemma leaf_gen sg K m r phi1 phib I S S2 eps :
  sg = 1 \/ sg = -1 ->
  0 <= K -> 0 < m -> 1 <= r < 16 -> m <= sg * phi1 <= r * m -> m <= sg * phib <= r * m ->
  I - S = - K * phi1 -> I - S2 = - K * phib / 16 ->
  Rabs (S2 - S) <= 15 * eps ->
  Rabs (S2 + (S2 - S) / 15 - I) <= 16 * (r - 1) / (16 - r) * eps.
Proof.
  intros [->| ->] HK Hm Hr H1 Hb E1 E2 Hacc.
  - apply (leaf_gen_pos K m r phi1 phib); try assumption; lra.
  - replace (S2 + (S2 - S) / 15 - I) with (- ((- S2) + ((- S2) - (- S)) / 15 - (- I))) by lra.
    rewrite Rabs_Ropp.
    apply (leaf_gen_pos K m r (- phi1) (- phib)); try assumption; try lra.
    replace (- S2 - - S) with (- (S2 - S)) by lra. rewrite Rabs_Ropp. exact Hacc.
Qed.

Section ErrorRatio.
Variable f : R -> R.
Variable Iab : R -> R -> R.
Variables lo hi m r sg : R.
Hypothesis Hsg : sg = 1 \/ sg = -1.
Hypothesis Hm : 0 < m.
Hypothesis Hr : 1 <= r < 16.
Hypothesis Hadd : forall u v, lo <= u -> u < v -> v <= hi -> Iab u v = Iab u ((u + v) / 2) + Iab ((u + v) / 2) v.
Hypothesis Hrem : forall u v, lo <= u -> u < v -> v <= hi ->
  exists phi, m <= sg * phi <= r * m /\ Iab u v - simp f u v = - ((v - u) ^ 5 / 2880) * phi.

Let C := 16 * (r - 1) / (16 - r).
Lemma C_nonneg : 0 <= C.
Proof. unfold C. apply Rmult_le_pos; [lra|]. left. apply Rinv_0_lt_compat. lra. Qed.

Lemma leaf_err_ratio a b eps : lo <= a -> a < b -> b <= hi ->
  Rabs (S2of f a b - simp f a b) <= 15 * eps -> Rabs (leafval f a b - Iab a b) <= C * eps.
Proof.
  intros Ha Hab Hb Hacc. set (c := (a + b) / 2).
  destruct (Hrem a b Ha Hab Hb) as (p1 & B1 & E1).
  destruct (Hrem a c) as (pl & Bl & El); [lra|unfold c; lra|unfold c; lra|].
  destruct (Hrem c b) as (pr & Br & Er); [unfold c; lra|unfold c; lra|lra|].
  pose proof (Hadd a b Ha Hab Hb) as A. fold c in A.
  unfold leafval, C.
  apply (leaf_gen sg ((b - a) ^ 5 / 2880) m r p1 ((pl + pr) / 2) (Iab a b) (simp f a b) (S2of f a b) eps); try assumption.
  - apply Rmult_le_pos; [|lra]. apply pow_le. lra.
  - destruct Hsg as [->| ->]; lra.
  - unfold S2of. fold c. rewrite A.
    replace (Iab a c + Iab c b - (simp f a c + simp f c b)) with ((Iab a c - simp f a c) + (Iab c b - simp f c b)) by ring.
    rewrite El, Er. unfold c. field.
Qed.

Lemma core_err_ratio n : forall a b eps, lo <= a -> a < b -> b <= hi ->
  wrn (core f a b eps n) = false -> Rabs (val (core f a b eps n) - Iab a b) <= C * eps.
Proof.
  induction n as [|n IH]; intros a b eps Ha Hab Hb.
  - rewrite core_O. unfold wrn, val. cbn [fst snd]. intros W. apply Rltb_false in W.
    apply leaf_err_ratio; assumption.
  - rewrite core_S. destruct (Rleb_spec (Rabs (S2of f a b - simp f a b)) (15 * eps)) as [Hacc|Hacc].
    + unfold wrn, val. cbn [fst snd]. intros _. apply leaf_err_ratio; assumption.
    + cbv zeta. rewrite wrn_t, val_t. intros W. apply orb_false_iff in W. destruct W as [W1 W2].
      pose proof (IH a ((a + b) / 2) (eps / 2)) as I1. pose proof (IH ((a + b) / 2) b (eps / 2)) as I2.
      specialize (I1 ltac:(lra) ltac:(lra) ltac:(lra) W1). specialize (I2 ltac:(lra) ltac:(lra) ltac:(lra) W2).
      rewrite (Hadd a b Ha Hab Hb).
      match goal with |- Rabs ?e <= _ =>
        replace e with ((val (core f a ((a + b) / 2) (eps / 2) n) - Iab a ((a + b) / 2)) +
                        (val (core f ((a + b) / 2) b (eps / 2) n) - Iab ((a + b) / 2) b)) by ring end.
      eapply Rle_trans; [apply Rabs_triang|]. lra.
Qed.
End ErrorRatio.

(** Simpson's remainder for a general ratio *)
Lemma simpson_remainder_ratio (f f1 f2 f3 f4 : R -> R) (lo' hi' lo hi m r sg : R) :
  lo' < lo -> hi < hi' ->
  (forall x, lo' < x < hi' -> is_derive f x (f1 x)) ->
  (forall x, lo' < x < hi' -> is_derive f1 x (f2 x)) ->
  (forall x, lo' < x < hi' -> is_derive f2 x (f3 x)) ->
  (forall x, lo' < x < hi' -> is_derive f3 x (f4 x)) ->
  sg = 1 \/ sg = -1 ->
  (forall x, lo <= x <= hi -> m <= sg * f4 x <= r * m) ->
  forall u v, lo <= u -> u < v -> v <= hi ->
  exists phi, m <= sg * phi <= r * m /\ RInt f u v - simp f u v = - ((v - u) ^ 5 / 2880) * phi.
Proof.
  intros Hlo Hhi D0 D1 D2 D3 Hsg Hb u v Hu Huv Hv.
  set (K := (v - u) ^ 5 / 2880).
  assert (HK : 0 < K). { unfold K. apply Rdiv_lt_0_compat; [apply pow_lt; lra|lra]. }
  exists ((simp f u v - RInt f u v) / K).
  split; [|field; lra].
  destruct Hsg as [->| ->].
  - pose proof (simpson_error_bounds f f1 f2 f3 f4 lo' hi' D0 D1 D2 D3 m (r * m) u v ltac:(lra) ltac:(lra) ltac:(lra)) as B.
    fold K in B. destruct B as [B1 B2]. { intros x Hx. specialize (Hb x ltac:(lra)). lra. }
    rewrite Rmult_1_l. split.
    + apply Rmult_le_reg_r with K; [exact HK|]. unfold Rdiv. rewrite Rmult_assoc, Rinv_l by lra. lra.
    + apply Rmult_le_reg_r with K; [exact HK|]. unfold Rdiv. rewrite Rmult_assoc, Rinv_l by lra. lra.
  - pose proof (simpson_error_bounds f f1 f2 f3 f4 lo' hi' D0 D1 D2 D3 (- (r * m)) (- m) u v ltac:(lra) ltac:(lra) ltac:(lra)) as B.
    fold K in B. destruct B as [B1 B2]. { intros x Hx. specialize (Hb x ltac:(lra)). lra. }
    replace (-1 * ((simp f u v - RInt f u v) / K)) with ((RInt f u v - simp f u v) / K) by (field; lra).
    split.
    + apply Rmult_le_reg_r with K; [exact HK|]. unfold Rdiv. rewrite Rmult_assoc, Rinv_l by lra. lra.
    + apply Rmult_le_reg_r with K; [exact HK|]. unfold Rdiv. rewrite Rmult_assoc, Rinv_l by lra. lra.
Qed.

Theorem error_bound_ratio (f f1 f2 f3 f4 : R -> R) (lo' hi' a b eps m r sg : R) (depth : Z) :
  lo' < Rmin a b -> Rmax a b < hi' ->
  (forall x, lo' < x < hi' -> is_derive f x (f1 x)) ->
  (forall x, lo' < x < hi' -> is_derive f1 x (f2 x)) ->
  (forall x, lo' < x < hi' -> is_derive f2 x (f3 x)) ->
  (forall x, lo' < x < hi' -> is_derive f3 x (f4 x)) ->
  sg = 1 \/ sg = -1 -> 0 < m -> 1 <= r < 16 ->
  (forall x, Rmin a b <= x <= Rmax a b -> m <= sg * f4 x <= r * m) ->
  wrn (integrate ROps f a b eps depth) = false ->
  Rabs (val (integrate ROps f a b eps depth) - RInt f a b) <= 16 * (r - 1) / (16 - r) * Rabs eps.
Proof.
  intros Hlo Hhi D0 D1 D2 D3 Hsg Hm Hr H4 W.
  assert (Hmm : Rmin a b <= Rmax a b) by apply Rminmax.
  assert (Hex : forall u v, Rmin a b <= u -> u <= v -> v <= Rmax a b -> ex_RInt f u v).
  { intros u v Hu Huv Hv. apply (ex_RInt_continuous (V := R_CompleteNormedModule)).
    intros x Hx. rewrite Rmin_left, Rmax_right in Hx by lra. apply (f_cont f f1 lo' hi' D0). lra. }
  assert (Hadd : forall u v, Rmin a b <= u -> u < v -> v <= Rmax a b ->
             RInt f u v = RInt f u ((u + v) / 2) + RInt f ((u + v) / 2) v).
  { intros u v Hu Huv Hv. symmetry. apply (RInt_Chasles (V := R_CompleteNormedModule)); apply Hex; lra. }
  pose proof (simpson_remainder_ratio f f1 f2 f3 f4 lo' hi' (Rmin a b) (Rmax a b) m r sg Hlo Hhi D0 D1 D2 D3 Hsg H4) as Hrem.
  apply integrate_err_lift.
  - exact Hex.
  - apply Rmult_le_pos; [|apply Rabs_pos]. apply (C_nonneg r Hr).
  - intros Hlt.
    apply (core_err_ratio f (RInt f) (Rmin a b) (Rmax a b) m r sg Hsg Hm Hr Hadd Hrem); try lra.
    destruct (Rtotal_order a b) as [H|[H|H]].
    + rewrite integrate_lt in W by exact H. rewrite wrn_t in W. rewrite Rmin_left, Rmax_right by lra. exact W.
    + subst b. rewrite Rmin_left, Rmax_right in Hlt by lra. lra.
    + rewrite integrate_gt in W by exact H. rewrite wrn_t in W. rewrite Rmin_right, Rmax_left by lra. exact W.
Qed.

(** non-vacuity of [error_bound_ratio] with r = 1: x^4 on [0,1] (fourth derivative constant 24), epsilon 1/100, depth 0 raises no
    warning, and the bound says the value is exact *)
Example error_bound_ratio_x4 :
  Rabs (val (integrate ROps x4 0 1 (1 / 100) 0) - RInt x4 0 1) <= 16 * (1 - 1) / (16 - 1) * Rabs (1 / 100).
Proof.
  apply (error_bound_ratio x4 (fun x => 4 * x ^ 3) (fun x => 12 * x ^ 2) (fun x => 24 * x) (fun _ => 24) (-1) 2 0 1 (1 / 100) 24 1 1 0).
  - rewrite Rmin_left; lra.
  - rewrite Rmax_right; lra.
  - intros; unfold x4; auto_derive; auto; ring.
  - intros; auto_derive; auto; ring.
  - intros; auto_derive; auto; ring.
  - intros; auto_derive; auto; ring.
  - now left.
  - lra.
  - lra.
  - intros; lra.
  - exact (proj1 sufficient_depth_x4).
Qed.
