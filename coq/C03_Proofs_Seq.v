(** * C03 proofs: the other entry points of the adaptive Simpson integrator (default depth, the
    "Adaptive-Simpson" method of the string overload) and sequences of calls, over [ROps]. *)
From Coq Require Import Reals ZArith Lra Lia List Bool.
From Coquelicot Require Import Coquelicot.
From LP Require Import Num NumR C03_Model C03_Proofs.
Import ListNotations.
Local Open Scope R_scope.

(** ** Default depth *)
Lemma default_depth (f : R -> R) a b eps : integrate_default ROps f a b eps = integrate ROps f a b eps 20.
Proof. reflexivity. Qed.

(** ** Integrate(f,a,b,"Adaptive-Simpson") *)
Definition eps_of (f : R -> R) (a b : R) : R := find_epsilon ROps f a b (ndec ROps 1 1000000000).

Lemma method_eq f a : integrate_method ROps f a a = (0, false, []).
Proof. unfold integrate_method. cbn. destruct (Reqb_spec a a); [reflexivity|congruence]. Qed.

Lemma method_lt f a b : a < b ->
  integrate_method ROps f a b =
  (1 * val (integrate ROps f a b (eps_of f a b) 20), wrn (integrate ROps f a b (eps_of f a b) 20),
   a :: b :: (a + b) / 2 :: trc (integrate ROps f a b (eps_of f a b) 20)).
Proof.
  intros H. unfold integrate_method, integrate_default, eps_of, val, wrn, trc.
  change (neqb ROps a b) with (Reqb a b). change (ngtb ROps a b) with (Rltb b a).
  destruct (Reqb_spec a b); [lra|]. destruct (Rltb_spec b a); [lra|].
  destruct (integrate ROps f a b _ 20) as [[v w] t]. reflexivity.
Qed.

Lemma method_gt f a b : b < a ->
  integrate_method ROps f a b =
  (- (1) * val (integrate ROps f b a (eps_of f b a) 20), wrn (integrate ROps f b a (eps_of f b a) 20),
   b :: a :: (b + a) / 2 :: trc (integrate ROps f b a (eps_of f b a) 20)).
Proof.
  intros H. unfold integrate_method, integrate_default, eps_of, val, wrn, trc.
  change (neqb ROps a b) with (Reqb a b). change (ngtb ROps a b) with (Rltb b a).
  destruct (Reqb_spec a b); [lra|]. destruct (Rltb_spec b a); [|lra].
  destruct (integrate ROps f b a _ 20) as [[v w] t]. reflexivity.
Qed.

(** exact on polynomials of degree <= 5, both orientations, equal limits *)
Theorem method_quintic_exact c0 c1 c2 c3 c4 c5 a b :
  val (integrate_method ROps (p5 c0 c1 c2 c3 c4 c5) a b) = RInt (p5 c0 c1 c2 c3 c4 c5) a b.
Proof.
  rewrite (is_RInt_unique _ _ _ _ (P5_is_RInt c0 c1 c2 c3 c4 c5 a b)).
  destruct (Rtotal_order a b) as [H|[H|H]].
  - rewrite method_lt by exact H. rewrite val_t, quintic_exact.
    rewrite (is_RInt_unique _ _ _ _ (P5_is_RInt c0 c1 c2 c3 c4 c5 a b)). ring.
  - subst b. rewrite method_eq. unfold val. cbn. ring.
  - rewrite method_gt by exact H. rewrite val_t, quintic_exact.
    rewrite (is_RInt_unique _ _ _ _ (P5_is_RInt c0 c1 c2 c3 c4 c5 b a)). ring.
Qed.

(** swapping the limits negates the value and leaves warning and evaluation points unchanged *)
Theorem method_swap_negates f a b :
  val (integrate_method ROps f b a) = - val (integrate_method ROps f a b) /\
  wrn (integrate_method ROps f b a) = wrn (integrate_method ROps f a b) /\
  trc (integrate_method ROps f b a) = trc (integrate_method ROps f a b).
Proof.
  destruct (Rtotal_order a b) as [H|[H|H]].
  - rewrite (method_lt f a b) by exact H. rewrite (method_gt f b a) by exact H.
    rewrite !val_t, !wrn_t, !trc_t. repeat split. ring.
  - subst b. rewrite method_eq. unfold val. cbn. repeat split. ring.
  - rewrite (method_gt f a b) by exact H. rewrite (method_lt f b a) by exact H.
    rewrite !val_t, !wrn_t, !trc_t. repeat split. ring.
Qed.

(** every evaluation (the three of Find_Epsilon included) lies in the closed interval; at most 2^22 + 4 of them *)
Theorem method_points_inside f a b :
  List.Forall (fun x => Rmin a b <= x <= Rmax a b) (trc (integrate_method ROps f a b)).
Proof.
  destruct (Rtotal_order a b) as [H|[H|H]].
  - rewrite method_lt by exact H. rewrite trc_t.
    pose proof (eval_points_inside f a b (eps_of f a b) 20) as P.
    rewrite Rmin_left, Rmax_right in * by lra.
    repeat (apply List.Forall_cons; [lra|]). exact P.
  - subst b. rewrite method_eq. apply List.Forall_nil.
  - rewrite method_gt by exact H. rewrite trc_t.
    pose proof (eval_points_inside f b a (eps_of f b a) 20) as P.
    rewrite (Rmin_left b a), (Rmax_right b a) in P by lra.
    rewrite Rmin_right, Rmax_left by lra.
    repeat (apply List.Forall_cons; [lra|]). exact P.
Qed.

Theorem method_count f a b :
  (length (trc (integrate_method ROps f a b)) <= 2 ^ 22 + 4)%nat.
Proof.
  destruct (Rtotal_order a b) as [H|[H|H]].
  - rewrite method_lt by exact H. rewrite trc_t. cbn [length].
    pose proof (eval_count f a b (eps_of f a b) 20) as P. change (Z.to_nat 20 + 2)%nat with 22%nat in P. lia.
  - subst b. rewrite method_eq. cbn [trc snd length]. lia.
  - rewrite method_gt by exact H. rewrite trc_t. cbn [length].
    pose proof (eval_count f b a (eps_of f b a) 20) as P. change (Z.to_nat 20 + 2)%nat with 22%nat in P. lia.
Qed.

(** ** Sequences: every answer is the answer of the call made alone, whatever was called before *)
Lemma run_seq_map (cs : list (call (T := R))) : run_seq ROps tt cs = List.map (run_call ROps) cs.
Proof. induction cs as [|c r IH]; [reflexivity|]. cbn. rewrite IH. reflexivity. Qed.

Theorem history_free (pre post : list (call (T := R))) (c : call (T := R)) :
  List.nth_error (run_seq ROps tt (pre ++ c :: post)) (length pre) = Some (run_call ROps c).
Proof.
  rewrite run_seq_map, List.map_app. rewrite List.nth_error_app2; rewrite List.map_length; [|lia].
  rewrite Nat.sub_diag. reflexivity.
Qed.

(** in particular a request for Find_Epsilon on some reference integrand before Integrate on the same limits
    leaves the polynomial exactness untouched *)
Corollary quintic_exact_after_any_history (pre : list (call (T := R))) c0 c1 c2 c3 c4 c5 a b eps depth :
  option_map val (List.nth_error (run_seq ROps tt (pre ++ [CInt (p5 c0 c1 c2 c3 c4 c5) a b eps depth])) (length pre))
  = Some (RInt (p5 c0 c1 c2 c3 c4 c5) a b).
Proof. rewrite history_free. cbn [option_map run_call]. rewrite quintic_exact. reflexivity. Qed.

(** ** A piecewise-defined function integrated piece by piece: consecutive calls whose limits abut (or are related in
    any other way), each with its own polynomial.  A piece = six coefficients, two limits, epsilon, depth. *)
Definition piece : Type := (R * R * R * R * R * R) * (R * R) * (R * Z).

Definition piece_call (p : piece) : call (T := R) :=
  let '((c0, c1, c2, c3, c4, c5), (a, b), (eps, depth)) := p in CInt (p5 c0 c1 c2 c3 c4 c5) a b eps depth.

Definition piece_integral (p : piece) : R :=
  let '((c0, c1, c2, c3, c4, c5), (a, b), _) := p in RInt (p5 c0 c1 c2 c3 c4 c5) a b.

Theorem piecewise_quintic_exact (ps : list piece) :
  List.map val (run_seq ROps tt (List.map piece_call ps)) = List.map piece_integral ps.
Proof.
  rewrite run_seq_map, !List.map_map. apply List.map_ext.
  intros [[[[[[[c0 c1] c2] c3] c4] c5] [a b]] [eps depth]]. cbn [piece_call piece_integral run_call].
  apply quintic_exact.
Qed.

(** non-vacuity / the shape the check drives: two different polynomials on [0,1] and [1,3], the second call starting
    exactly where the first ended *)
Example piecewise_two_pieces :
  List.map val (run_seq ROps tt
     [CInt (p5 1 0 0 0 0 0) 0 1 (1/10) 3; CInt (p5 0 2 0 0 0 0) 1 3 (1/10) 0]) = [1; 8].
Proof.
  change (List.map val (run_seq ROps tt (List.map piece_call
            [((1, 0, 0, 0, 0, 0), (0, 1), (1/10, 3%Z)); ((0, 2, 0, 0, 0, 0), (1, 3), (1/10, 0%Z))])) = [1; 8]).
  rewrite piecewise_quintic_exact. cbn [List.map piece_integral].
  rewrite (is_RInt_unique _ _ _ _ (P5_is_RInt 1 0 0 0 0 0 0 1)), (is_RInt_unique _ _ _ _ (P5_is_RInt 0 2 0 0 0 0 1 3)).
  unfold P5. f_equal; [|f_equal]; field.
Qed.

(** one polynomial integrated over two abutting pieces (any epsilons and depths, knots in any order): the two answers add
    up to the integral over the union *)
Theorem abutting_pieces_additive c0 c1 c2 c3 c4 c5 a b c eps1 eps2 d1 d2 :
  val (run_call ROps (CInt (p5 c0 c1 c2 c3 c4 c5) a b eps1 d1)) + val (run_call ROps (CInt (p5 c0 c1 c2 c3 c4 c5) b c eps2 d2))
  = RInt (p5 c0 c1 c2 c3 c4 c5) a c.
Proof.
  cbn [run_call]. rewrite !quintic_exact.
  rewrite (is_RInt_unique _ _ _ _ (P5_is_RInt c0 c1 c2 c3 c4 c5 a b)), (is_RInt_unique _ _ _ _ (P5_is_RInt c0 c1 c2 c3 c4 c5 b c)),
    (is_RInt_unique _ _ _ _ (P5_is_RInt c0 c1 c2 c3 c4 c5 a c)). ring.
Qed.

(** ** Re-entrant integrands: an integrand that itself calls the integrator (any of the four entry points, with
    integrand, limits, epsilon, depth depending on the outer abscissa) is an ordinary integrand for the outer call,
    and each inner call is the call made alone. *)
Definition call_limits (c : call (T := R)) : R * R :=
  match c with CInt _ a b _ _ => (a, b) | CDef _ a b _ => (a, b) | CMeth _ a b => (a, b) | CFind _ a b _ => (a, b) end.

Definition call_bound (c : call (T := R)) : nat :=
  match c with
  | CInt _ _ _ _ depth => 2 ^ (Z.to_nat depth + 2) + 1
  | CDef _ _ _ _ => 2 ^ 22 + 1
  | CMeth _ _ _ => 2 ^ 22 + 4
  | CFind _ _ _ _ => 3
  end.

Theorem run_call_count (c : call (T := R)) : (length (trc (run_call ROps c)) <= call_bound c)%nat.
Proof.
  destruct c as [f a b eps d|f a b eps|f a b|f a b p]; cbn [run_call call_bound].
  - apply eval_count.
  - rewrite default_depth. pose proof (eval_count f a b eps 20) as P.
    change (Z.to_nat 20 + 2)%nat with 22%nat in P. exact P.
  - apply method_count.
  - cbn. lia.
Qed.

Theorem run_call_inside (c : call (T := R)) :
  List.Forall (fun x => Rmin (fst (call_limits c)) (snd (call_limits c)) <= x <= Rmax (fst (call_limits c)) (snd (call_limits c)))
    (trc (run_call ROps c)).
Proof.
  destruct c as [f a b eps d|f a b eps|f a b|f a b p]; cbn [run_call call_limits fst snd].
  - apply eval_points_inside.
  - rewrite default_depth. apply eval_points_inside.
  - apply method_points_inside.
  - unfold trc. cbn [snd]. change (nadd ROps a b) with (a + b). change (ndiv ROps (a + b) (nofZ ROps 2)) with ((a + b) / IZR 2).
    unfold Rmin, Rmax. destruct (Rle_dec a b); repeat (apply List.Forall_cons; [lra|]); apply List.Forall_nil.
Qed.

Lemma reentrant_value (mk : R -> call (T := R)) (E : R -> R -> R) x :
  reentrant ROps mk E x = E x (val (run_call ROps (mk x))).
Proof. reflexivity. Qed.

Theorem reentrant_outer (mk : R -> call (T := R)) (E : R -> R -> R) a b eps depth :
  (length (trc (integrate ROps (reentrant ROps mk E) a b eps depth)) <= 2 ^ (Z.to_nat depth + 2) + 1)%nat /\
  List.Forall (fun x => Rmin a b <= x <= Rmax a b) (trc (integrate ROps (reentrant ROps mk E) a b eps depth)) /\
  val (integrate ROps (reentrant ROps mk E) b a eps depth) = - val (integrate ROps (reentrant ROps mk E) a b eps depth) /\
  integrate ROps (reentrant ROps mk E) a b (- eps) depth = integrate ROps (reentrant ROps mk E) a b eps depth.
Proof.
  repeat split.
  - apply eval_count.
  - apply eval_points_inside.
  - apply swap_negates.
  - apply eps_sign_irrelevant.
Qed.

(** a nested integral of a polynomial: the inner integral of c0(x) + c1(x) t + ... + c5(x) t^5 over [lo x, hi x] is
    exact at every outer abscissa, whatever the inner epsilon and depth *)
Theorem reentrant_inner_quintic_exact (c0 c1 c2 c3 c4 c5 lo hi ieps : R -> R) (idepth : R -> Z) (E : R -> R -> R) x :
  reentrant ROps (fun x => CInt (p5 (c0 x) (c1 x) (c2 x) (c3 x) (c4 x) (c5 x)) (lo x) (hi x) (ieps x) (idepth x)) E x
  = E x (RInt (p5 (c0 x) (c1 x) (c2 x) (c3 x) (c4 x) (c5 x)) (lo x) (hi x)).
Proof. rewrite reentrant_value. cbn [run_call]. rewrite quintic_exact. reflexivity. Qed.
