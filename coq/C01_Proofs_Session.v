(** * C01: sessions -- an answer depends only on the table the object holds now
    (coq/C01_Model.v, Section Session).  Generic in the object / request / answer types, so the statements hold for
    Interpolation (answer_1d) and Interpolation_2D (answer_2d) over every arithmetic, the doubles included. *)
From Coq Require Import ZArith List Bool Lia.
From LP Require Import Num C01_Model.
Import ListNotations.

Section SessionProofs.
Context {Obj Q Out : Type} (answer : Obj -> Q -> res Out).
Notation cmd := (@scmd Obj Q).
Notation state := (list (option Obj)).

(** the command changes what slot k holds *)
Definition writes (k : nat) (c : cmd) : Prop :=
  match c with CPut k' _ => k' = k | CCopy d _ => d = k | CAsk _ _ => False end.

Lemma get_set_same : forall (st : state) k o, get_slot (set_slot st k o) k = Ok o.
Proof.
  intros st k; revert st; induction k as [|k IH]; intros [|a r] o; cbn; try reflexivity.
  - exact (IH [] o).
  - exact (IH r o).
Qed.

Lemma get_nil : forall k, @get_slot Obj [] k = OOB.
Proof. intros [|k]; reflexivity. Qed.

Lemma get_set_other : forall (st : state) k k' o, k <> k' -> get_slot (set_slot st k' o) k = get_slot st k.
Proof.
  intros st k k'; revert st k; induction k' as [|k' IH]; intros [|a r] [|k] o Hne; cbn; try congruence; try reflexivity.
  - unfold get_slot; cbn. destruct k; reflexivity.
  - specialize (IH [] k o ltac:(congruence)). unfold get_slot in *; cbn in *. rewrite IH. destruct k; reflexivity.
  - specialize (IH r k o ltac:(congruence)). unfold get_slot in *; cbn in *. exact IH.
Qed.

Lemma step_preserves : forall (st st' : state) c out k,
  ~ writes k c -> session_step answer st c = Ok (st', out) -> get_slot st' k = get_slot st k.
Proof.
  intros st st' c out k Hw H. destruct c as [k' r|d s|k' q]; cbn in *.
  - destruct r; cbn in H; try discriminate. inversion H; subst. apply get_set_other. congruence.
  - destruct (get_slot st s); cbn in H; try discriminate. inversion H; subst. apply get_set_other. congruence.
  - destruct (get_slot st k'); cbn in H; try discriminate. destruct (answer a q); cbn in H; try discriminate.
    inversion H; subst. reflexivity.
Qed.

(** the session with its final state *)
Fixpoint exec (st : state) (cmds : list cmd) : res (state * list Out) :=
  match cmds with
  | [] => Ok (st, [])
  | c :: r =>
      rbind (session_step answer st c) (fun p =>
      rbind (exec (fst p) r) (fun q =>
        Ok (fst q, match snd p with Some v => v :: snd q | None => snd q end)))
  end.

Lemma run_exec : forall cmds st, session_run answer st cmds = rbind (exec st cmds) (fun q => Ok (snd q)).
Proof.
  induction cmds as [|c r IH]; intros st; cbn; [reflexivity|].
  destruct (session_step answer st c) as [p| | |]; cbn; try reflexivity.
  rewrite IH. destruct (exec (fst p) r) as [q| | |]; cbn; reflexivity.
Qed.

Lemma exec_app : forall l1 l2 st,
  exec st (l1 ++ l2) = rbind (exec st l1) (fun a => rbind (exec (fst a) l2) (fun b => Ok (fst b, snd a ++ snd b))).
Proof.
  induction l1 as [|c r IH]; intros l2 st; cbn.
  - destruct (exec st l2) as [[s o]| | |]; cbn; reflexivity.
  - destruct (session_step answer st c) as [p| | |]; cbn; try reflexivity.
    rewrite IH. destruct (exec (fst p) r) as [a| | |]; cbn; try reflexivity.
    destruct (exec (fst a) l2) as [b| | |]; cbn; try reflexivity.
    destruct (snd p); reflexivity.
Qed.

Lemma exec_preserves : forall mid (st st' : state) outs k,
  (forall c, In c mid -> ~ writes k c) -> exec st mid = Ok (st', outs) -> get_slot st' k = get_slot st k.
Proof.
  induction mid as [|c r IH]; intros st st' outs k Hw H; cbn in H.
  - inversion H; subst; reflexivity.
  - destruct (session_step answer st c) as [[s1 o1]| | |] eqn:Hs; cbn in H; try discriminate.
    destruct (exec s1 r) as [[s2 o2]| | |] eqn:He; cbn in H; try discriminate.
    inversion H; subst.
    rewrite (IH s1 st' o2 k (fun c' Hin => Hw c' (or_intror Hin)) He).
    exact (step_preserves st s1 c o1 k (Hw c (or_introl eq_refl)) Hs).
Qed.

(** Whatever happened before ([pre]: any requests, any tables in any slot, the same slot included), and whatever happens
    between the assignment and the request except another assignment to slot k ([mid]: requests to slot k and to other slots,
    tables put into other slots, copies into other slots): when the whole session runs to its end, its last answer is the
    answer of the object [o] that was put into slot k, as computed on its own. *)
Lemma session_last_answer : forall (st : state) pre k o mid q outs,
  (forall c, In c mid -> ~ writes k c) ->
  session_run answer st (pre ++ CPut k (Ok o) :: mid ++ [CAsk k q]) = Ok outs ->
  exists front v, outs = front ++ [v] /\ answer o q = Ok v.
Proof.
  intros st pre k o mid q outs Hw H. rewrite run_exec, exec_app in H.
  destruct (exec st pre) as [[s0 o0]| | |]; cbn in H; try discriminate.
  cbn in H. rewrite exec_app in H.
  destruct (exec (set_slot s0 k o) mid) as [[s1 o1]| | |] eqn:Hm; cbn in H; try discriminate.
  pose proof (exec_preserves mid _ _ _ k Hw Hm) as Hk. rewrite get_set_same in Hk.
  rewrite Hk in H. cbn in H.
  destruct (answer o q) as [v| | |]; cbn in H; try discriminate.
  inversion H; subst. exists (o0 ++ o1), v. split; [|reflexivity].
  rewrite app_assoc. reflexivity.
Qed.

(** the same for a copy: after [CCopy dst src] the slot dst answers as the object held by src at that moment *)
Lemma session_copy_answer : forall (st st0 : state) pre outs0 dst src o mid q outs,
  exec st pre = Ok (st0, outs0) -> get_slot st0 src = Ok o ->
  (forall c, In c mid -> ~ writes dst c) ->
  session_run answer st (pre ++ CCopy dst src :: mid ++ [CAsk dst q]) = Ok outs ->
  exists front v, outs = front ++ [v] /\ answer o q = Ok v.
Proof.
  intros st st0 pre outs0 dst src o mid q outs Hp Hs Hw H. rewrite run_exec, exec_app, Hp in H. cbn in H.
  rewrite Hs in H. cbn in H.
  change (mid ++ [CAsk dst q]) with (mid ++ [CAsk dst q]) in H.
  rewrite exec_app in H.
  destruct (exec (set_slot st0 dst o) mid) as [[s1 o1]| | |] eqn:Hm; cbn in H; try discriminate.
  pose proof (exec_preserves mid _ _ _ dst Hw Hm) as Hk. rewrite get_set_same in Hk.
  rewrite Hk in H. cbn in H.
  destruct (answer o q) as [v| | |]; cbn in H; try discriminate.
  inversion H; subst. exists (outs0 ++ o1), v. split; [|reflexivity].
  rewrite app_assoc. reflexivity.
Qed.
End SessionProofs.

(** 1-D instance: the last Derivative / Interpolate / Locate answer of a session is that of the constructor's object *)
Lemma session_1d_last_answer : forall {T} (Ops : NumOps T) st pre k xs ys xd fd o mid q outs,
  construct Ops xs ys xd fd = Ok o ->
  (forall c, In c mid -> ~ writes k c) ->
  session_run (answer_1d Ops) st (pre ++ CPut k (construct Ops xs ys xd fd) :: mid ++ [CAsk k q]) = Ok outs ->
  exists front v, outs = front ++ [v] /\
    match q with
    | QI x => rbind (interpolate Ops o x) (fun v => Ok (AV v))
    | QD kk x => rbind (derivative Ops o x kk) (fun v => Ok (AV v))
    | QL x => rbind (locate Ops o x) (fun j => Ok (AJ j))
    end = Ok v.
Proof.
  intros T Ops st pre k xs ys xd fd o mid q outs Hc Hw H. rewrite Hc in H.
  destruct (session_last_answer (answer_1d Ops) st pre k o mid q outs Hw H) as [front [v [E A]]].
  exists front, v. split; [exact E|]. destruct q; exact A.
Qed.

(** non-vacuity: a session in which slot 0 answers, receives another object, and answers again *)
Example session_example :
  let answer := fun (o q : nat) => Ok (o + q)%nat in
  session_run answer [] ([CPut 0 (Ok 10%nat); CAsk 0 1%nat] ++ CPut 0 (Ok 20%nat) :: [CPut 1 (Ok 5%nat); CAsk 1 1%nat; CCopy 2 1; CAsk 0 7%nat] ++ [CAsk 0 1%nat])
  = Ok [11; 6; 27; 21]%nat
  /\ (forall c, In c [CPut 1 (Ok 5%nat); CAsk 1 1%nat; CCopy 2 1; CAsk 0 7%nat] -> ~ writes (Q:=nat) 0 c).
Proof.
  split; [reflexivity|]. intros c [E|[E|[E|[E|[]]]]]; subst; cbn; lia.
Qed.
