(** * C20 — start-up order of the unit constants: the generic soundness theorem.
    For ANY classification [st] of the constants into statically / dynamically initialised ones:
    if [safe st ds = true] then after C++ start-up every constant holds its order-free denotation. *)
From Coq Require Import String.
From Coq Require Import ZArith Bool Reals Lia Lra List.
From LP Require Import Num C20_Model.
Import ListNotations.
Local Open Scope list_scope.

Lemma eval_ext e1 e2 b : (forall r, In r (refs b) -> e1 r = e2 r) -> eval e1 b = eval e2 b.
Proof.
  induction b; cbn; intros H; try reflexivity;
    try (rewrite IHb1, IHb2; [reflexivity| |]; intros; apply H; apply in_or_app; auto);
    try (rewrite IHb; auto).
  apply H; left; reflexivity.
Qed.

Lemma existsb_eqb r l : existsb (String.eqb r) l = true <-> In r l.
Proof.
  rewrite existsb_exists. split.
  - intros (y & Hy & E). apply String.eqb_eq in E. subst. auto.
  - intros H. exists r. split; auto. apply String.eqb_refl.
Qed.

(** invariant of phase 2: every static constant and every constant already processed holds its
    denotation; later definitions do not overwrite earlier names (names are distinct). *)
Lemma phase2_inv st den : forall ds seen e,
  safe_from st seen ds = true ->
  (forall x b, In (x, b) ds -> den x = eval den b) ->
  (forall x, st x = true -> e x = den x) -> (forall x, In x seen -> e x = den x) ->
  let e' := phase2 st ds e in
  (forall x, st x = true -> e' x = den x) /\ (forall x, In x seen -> e' x = den x) /\
  (forall x b, In (x, b) ds -> e' x = den x).
Proof.
  induction ds as [|[x b] tl IH]; intros seen e Hs Hsol Hst Hseen; cbn [phase2].
  - repeat split; auto; intros ? ? [].
  - cbn [safe_from] in Hs. apply andb_prop in Hs as [Hs Hs3]. apply andb_prop in Hs as [Hs1 Hs2].
    apply negb_true_iff in Hs2.
    assert (Hnx : ~ In x seen) by (intro C; apply existsb_eqb in C; congruence).
    destruct (st x) eqn:Ex.
    + destruct (IH (x :: seen) e Hs3) as (A & B & C).
      { intros; apply Hsol; right; auto. } { auto. } { intros y [<-|Hy]; auto. }
      repeat split; auto. { intros y Hy; apply B; right; auto. }
      intros y c [E|Hy]; [inversion E; subst; apply B; left; auto|eapply C; eauto].
    + set (e1 := upd e x (eval e b)).
      assert (Hx : e1 x = den x).
      { unfold e1, upd. rewrite String.eqb_refl. rewrite (Hsol x b) by (left; auto). apply eval_ext.
        intros r Hr. rewrite forallb_forall in Hs1. specialize (Hs1 r Hr).
        apply orb_prop in Hs1 as [S|S]; [auto|apply Hseen, existsb_eqb; auto]. }
      assert (Hother : forall y, y <> x -> e1 y = e y).
      { intros y Hy. unfold e1, upd. destruct (String.eqb y x) eqn:E; auto.
        apply String.eqb_eq in E; contradiction. }
      destruct (IH (x :: seen) e1 Hs3) as (A & B & C).
      { intros; apply Hsol; right; auto. }
      { intros y Hy. rewrite Hother; auto. intro; subst; congruence. }
      { intros y [<-|Hy]; auto. rewrite Hother; auto. intro; subst; contradiction. }
      repeat split; auto. { intros y Hy; apply B; right; auto. }
      intros y c [E|Hy]; [inversion E; subst; apply B; left; auto|eapply C; eauto].
Qed.

Theorem init_order_sound st ds den :
  solves den ds -> safe st ds = true ->
  forall x b, In (x, b) ds -> startup st ds den x = den x.
Proof.
  intros Hsol Hsafe x b Hin. unfold startup.
  destruct (phase2_inv st den ds [] (phase1 st den) Hsafe Hsol) as (_ & _ & C).
  - intros y Hy. unfold phase1. rewrite Hy. reflexivity.
  - intros y [].
  - eapply C; eauto.
Qed.

(** [solves] from a list of point-wise equations (used by the generated file) *)
Lemma solves_of_Forall den ds :
  Forall (fun p => den (fst p) = eval den (snd p)) ds -> solves den ds.
Proof.
  intros H x b Hin. rewrite Forall_forall in H. exact (H (x, b) Hin).
Qed.

(** the check is not vacuous and not trivially true: a miniature of Natural_Units.cpp in which Joule
    precedes kg, meter, sec.  Safe for the classification g++ chooses, unsafe when everything but GeV
    is initialised dynamically (which the C++ standard would allow). *)
Local Open Scope string_scope.
Definition mini : defs_t :=
  [("GeV", ELit 1 1);
   ("Joule", EMul (ERef "kg") (EPowZ (EDiv (ERef "meter") (ERef "sec")) 2));
   ("gram", EMul (ELit 5 1) (ERef "GeV")); ("kg", EMul (ELit 1000 1) (ERef "gram"));
   ("cm", EDiv (ELit 7 1) (ERef "GeV")); ("meter", EMul (ELit 100 1) (ERef "cm"));
   ("sec", EMul (ELit 3 1) (ERef "meter")); ("Watt", EDiv (ERef "Joule") (ERef "sec"))].
Example mini_safe_gxx : safe (static_except ["Joule"; "Watt"]) mini = true.
Proof. vm_compute. reflexivity. Qed.
Example mini_unsafe_all_dynamic : safe (fun x => String.eqb x "GeV") mini = false.
Proof. vm_compute. reflexivity. Qed.
(** ... and when it is unsafe the start-up value really differs from the denotation: with everything
    dynamic, Joule is computed from kg = 0 *)
Example mini_all_dynamic_wrong :
  startup (fun _ => false) mini (fun _ => 1%R) "Joule" = 0%R.
Proof.
  unfold startup, mini. cbn [phase2]. cbv [upd phase1 eval String.eqb Ascii.eqb Bool.eqb].
  unfold Rdiv. rewrite Rmult_0_l. cbn [powerRZ]. cbn [Pos.to_nat Pos.iter_op Nat.add pow]. ring.
Qed.
