(** * C07 model: distributions, Poisson likelihoods and the KDE tabulation
    (src/Statistics.cpp sections 1, 2 and 6).

    Hand-written, line by line after the C++ (same operation order, comparisons and literals); tied to
    the code by the differential correspondence check (harness/C07.cpp vs the extraction of this file).

    - [pi_c] stands for the macro M_PI: the driver passes the double 0x1.921fb54442d18p+1, the theorems
      instantiate it with [PI].
    - The functions of Special_Functions.cpp that Statistics.cpp merely calls (GammaQ, GammaP, Inv_GammaQ,
      GammaLn, Inv_Erf, Binomial_Coefficient — property C06/C02 territory) are parameters of the model;
      they return [res T] because each of them can terminate the process through its own guard.
      In the correspondence run they are instantiated with the values the C++ functions return
      (an oracle table in the case line); the theorems take what they need about them as hypotheses.
    - unsigned int / unsigned long arguments are [Z] (the harness passes values in [0, 2^31)). *)
From Coq Require Import ZArith List Bool.
From LP Require Import Num.
Import ListNotations.
Local Open Scope Z_scope.

Section Dist.
Context {T : Type} (Ops : NumOps T).
Variable pi_c : T.
Variables (gammaQ gammaP inv_gammaQ : T -> T -> res T) (gammaLn inv_erf : T -> res T) (binom : Z -> Z -> res T).

Declare Scope num_scope.
Local Notation "x + y" := (nadd Ops x y) : num_scope.
Local Notation "x - y" := (nsub Ops x y) : num_scope.
Local Notation "x * y" := (nmul Ops x y) : num_scope.
Local Notation "x / y" := (ndiv Ops x y) : num_scope.
Delimit Scope num_scope with num.
Local Notation c0 := (n0 Ops).
Local Notation c1 := (n1 Ops).
Local Notation c2 := (nofZ Ops 2).
Local Notation "- x" := (nneg Ops x) : num_scope.
(* unsigned int arithmetic *)
Definition u32 (k : Z) : Z := k mod 4294967296.

(** ** 1.1 Uniform *)
Definition pdf_uniform (x xmin xmax : T) : T :=
  if nltb Ops x xmin || ngtb Ops x xmax then c0 else (c1 / (xmax - xmin))%num.

Definition cdf_uniform (x xmin xmax : T) : T :=
  if nltb Ops x xmin then c0
  else if ngtb Ops x xmax then c1
  else ((x - xmin) / (xmax - xmin))%num.

(** ** 1.2 Normal *)
(* 1.0 / sqrt(2.0 * M_PI) / sigma * exp(-pow((x - mu) / sigma, 2.0) / 2.0) *)
Definition pdf_gauss (x mu sigma : T) : T :=
  (c1 / nsqrt Ops (c2 * pi_c) / sigma * nexp Ops (- (npowi Ops ((x - mu) / sigma) 2) / c2))%num.

(* 0.5 * (1.0 + erf((x - mu) / (sqrt(2) * sigma))) *)
Definition cdf_gauss (x mu sigma : T) : T :=
  (ndec Ops 1 2 * (c1 + nerf Ops ((x - mu) / (nsqrt Ops c2 * sigma))))%num.

(* mu + sqrt(2.0) * sigma * Inv_Erf(2.0 * p - 1.0) *)
Definition quantile_gauss (p mu sigma : T) : res T :=
  rbind (inv_erf (c2 * p - c1)%num) (fun e => Ok (mu + nsqrt Ops c2 * sigma * e)%num).

(* 0.5 / M_PI / sx / sy * exp(-0.5 * (xd * xd / sx / sx + yd * yd / sy / sy)) *)
Definition pdf_gauss_2d (x y mx my sx sy : T) : T :=
  let xd := (x - mx)%num in
  let yd := (y - my)%num in
  (ndec Ops 1 2 / pi_c / sx / sy * nexp Ops (- (ndec Ops 1 2) * (xd * xd / sx / sx + yd * yd / sy / sy)))%num.

(** ** 1.3 Binomial *)
(* Binomial_Coefficient(trials, x) * pow(p, x) * pow(1.0 - p, (trials - x));  trials - x is unsigned *)
Definition pmf_binomial (trials : Z) (p : T) (x : Z) : res T :=
  if nltb Ops p c0 || ngtb Ops p c1 then Exit
  else rbind (binom trials x) (fun b =>
       Ok (b * npowi Ops p x * npowi Ops (c1 - p) (u32 (trials - x)))%num).

(* for(unsigned int i = 0; i <= x; i++) cdf += PMF_Binomial(trials, p, i);  n = number of iterations left *)
Fixpoint cdf_binomial_loop (trials : Z) (p : T) (i : Z) (n : nat) (acc : T) : res T :=
  match n with
  | O => Ok acc
  | S n' => rbind (pmf_binomial trials p i) (fun v => cdf_binomial_loop trials p (i + 1) n' (acc + v)%num)
  end.
Definition cdf_binomial (trials : Z) (p : T) (x : Z) : res T :=
  if nltb Ops p c0 || ngtb Ops p c1 then Exit
  else cdf_binomial_loop trials p 0 (Z.to_nat (x + 1)) c0.

(** ** 1.4 Poisson *)
(* for(i = from; ...; i++) acc -= log(i)   (n iterations) *)
Fixpoint sub_logs (i : Z) (n : nat) (acc : T) : T :=
  match n with O => acc | S n' => sub_logs (i + 1) n' (acc - nln Ops (nofZ Ops i))%num end.

Definition pmf_poisson (mu : T) (k : Z) : res T :=
  if nltb Ops mu c0 then Exit
  else if neqb Ops mu c0 && (k =? 0) then Ok c1
  else if neqb Ops mu c0 && (0 <? k) then Ok c0
  else
    (* sum = events * log(mu) - mu;  for(i = 2; i <= events; i++) sum -= log(i);  exp(sum) *)
    Ok (nexp Ops (sub_logs 2 (Z.to_nat (k - 1)) (nofZ Ops k * nln Ops mu - mu)%num)).

Definition cdf_poisson (mu : T) (n : Z) : res T :=
  if nltb Ops mu c0 then Exit
  else rbind (gammaQ mu (nofZ Ops (u32 (n + 1)))) (fun gq =>
       Ok (if ngeb Ops gq c0 then gq else c0)).

Definition inv_cdf_poisson (n : Z) (cdf : T) : res T :=
  if nltb Ops cdf c0 || ngtb Ops cdf c1 then Exit
  else if n =? 0 then Ok (- c1 * nln Ops cdf)%num
  else inv_gammaQ cdf (nofZ Ops (u32 (n + 1))).

(** ** 1.5 Chi-square and chi-bar-square *)
Definition lit_1em6 : T := ndec Ops 1 1000000.

(* exp(-dof / 2.0 * log(2.0) - GammaLn(dof / 2.0) + (dof / 2.0 - 1.0) * log(x) - x / 2.0) *)
Definition pdf_chi_square (x dof : T) : res T :=
  if nleb Ops x c0 || nltb Ops dof lit_1em6 then Ok c0
  else rbind (gammaLn (dof / c2)%num) (fun g =>
       Ok (nexp Ops (- dof / c2 * nln Ops c2 - g + (dof / c2 - c1) * nln Ops x - x / c2)%num)).

Definition cdf_chi_square (x dof : T) : res T :=
  if nltb Ops x c0 then Ok c0
  else if nltb Ops (nabs Ops dof) lit_1em6 then Ok c1
  else gammaP (x / c2)%num (dof / c2)%num.

(* for(dof = from; dof < size; dof++) acc += weights[dof] * f(x, dof);  ws = weights[from..] *)
Fixpoint mix_loop (f : T -> T -> res T) (x : T) (ws : list T) (dof : Z) (acc : T) : res T :=
  match ws with
  | [] => Ok acc
  | w :: r => rbind (f x (nofZ Ops dof)) (fun v => mix_loop f x r (dof + 1) (acc + w * v)%num)
  end.

Definition pdf_chi_bar_square (x : T) (ws : list T) : res T :=
  if nleb Ops x c0 then Ok c0
  else mix_loop pdf_chi_square x (tl ws) 1 c0.    (* start at 1 because of dof = 0 *)

Definition cdf_chi_bar_square (x : T) (ws : list T) : res T :=
  if nltb Ops x c0 then Ok c0
  else rbind (mix_loop cdf_chi_square x ws 0 c0) (fun cdf =>
       Ok (if ngtb Ops cdf c1 then c1 else cdf)).

(** ** 1.6 Exponential *)
Definition pdf_exponential (x mean : T) : res T :=
  if nleb Ops mean c0 then Exit
  else if nltb Ops x c0 then Ok c0
  else Ok (c1 / mean * nexp Ops (- c1 / mean * x))%num.

Definition cdf_exponential (x mean : T) : res T :=
  if nleb Ops mean c0 then Exit
  else if nltb Ops x c0 then Ok c0
  else Ok (c1 - nexp Ops (- c1 / mean * x))%num.

(** ** 1.7 Maxwell-Boltzmann *)
(* sqrt(2.0 / M_PI) * x * x / a / a / a * exp(-x * x / 2.0 / a / a) *)
Definition pdf_maxwell_boltzmann (x a : T) : res T :=
  if nleb Ops a c0 then Exit
  else if nltb Ops x c0 then Ok c0
  else Ok (nsqrt Ops (c2 / pi_c) * x * x / a / a / a * nexp Ops (- x * x / c2 / a / a))%num.

(* erf(x / sqrt(2.0) / a) - sqrt(2.0 / M_PI) * x / a * exp(-x * x / 2.0 / a / a) *)
Definition cdf_maxwell_boltzmann (x a : T) : res T :=
  if nleb Ops a c0 then Exit
  else if nltb Ops x c0 then Ok c0
  else Ok (nerf Ops (x / nsqrt Ops c2 / a) - nsqrt Ops (c2 / pi_c) * x / a * nexp Ops (- x * x / c2 / a / a))%num.

(** ** 2. Likelihoods *)
(* for(j = from; ...; j++) acc += log(j)   (n iterations) *)
Fixpoint add_logs (j : Z) (n : nat) (acc : T) : T :=
  match n with O => acc | S n' => add_logs (j + 1) n' (acc + nln Ops (nofZ Ops j))%num end.

(* N_observed * log(N_prediction + expected_background) - log_N_obs_factorial - (N_prediction + expected_background) *)
Definition log_likelihood_poisson (npred : T) (nobs : Z) (bg : T) : T :=
  let lf := add_logs 1 (Z.to_nat nobs) c0 in
  (nofZ Ops nobs * nln Ops (npred + bg) - lf - (npred + bg))%num.

Definition likelihood_poisson (npred : T) (nobs : Z) (bg : T) : T :=
  nexp Ops (log_likelihood_poisson npred nobs bg).

Definition log_likelihood_poisson_binned (pred : list T) (obs : list Z) (bg : list T) : res T :=
  let nb := length pred in
  let bg := match bg with [] => repeat c0 nb | _ => bg end in
  if negb (Nat.eqb (length obs) nb) || negb (Nat.eqb (length bg) nb) then Exit
  else Ok (fold_left (fun acc t => (acc + log_likelihood_poisson (fst (fst t)) (snd (fst t)) (snd t))%num)
                     (combine (combine pred obs) bg) c0).

Definition likelihood_poisson_binned (pred : list T) (obs : list Z) (bg : list T) : res T :=
  rbind (log_likelihood_poisson_binned pred obs bg) (fun l => Ok (nexp Ops l)).

(** ** 2b. A session: several likelihood requests answered one after the other in one process.
    The likelihood functions of Statistics.cpp keep nothing between two calls (no static variable, no cache, no
    member): the state carried from one request to the next is empty, [lik_step] returns it unchanged and computes
    the answer from the request alone.  This holds for every request, also for those outside the property's ranges
    (total expectation 0 or negative, counts beyond 500), which the library answers with -inf / NaN without
    terminating.  A request that terminates the process (binned size mismatch) ends the session. *)
Inductive lik_req : Type :=
  | ReqLik (npred : T) (nobs : Z) (bg : T)
  | ReqBinned (pred : list T) (obs : list Z) (bg : list T).

Definition lik_answer (q : lik_req) : res (T * T) :=
  match q with
  | ReqLik s n b => Ok (log_likelihood_poisson s n b, likelihood_poisson s n b)
  | ReqBinned p o g =>
      rbind (log_likelihood_poisson_binned p o g) (fun l =>
      rbind (likelihood_poisson_binned p o g) (fun k => Ok (l, k)))
  end.

Definition lik_step (st : unit) (q : lik_req) : unit * res (T * T) := (st, lik_answer q).

Fixpoint lik_session_from (st : unit) (qs : list lik_req) : res (list (T * T)) :=
  match qs with
  | [] => Ok []
  | q :: r => let (st', a) := lik_step st q in
              rbind a (fun a => rbind (lik_session_from st' r) (fun t => Ok (a :: t)))
  end.
Definition lik_session (qs : list lik_req) : res (list (T * T)) := lik_session_from tt qs.

(** ** 6. Kernel density estimation: the table handed to the Interpolation constructor.
    A data point is a pair (value, weight).  std::sort is modelled by its specification (insertion
    sort by value).  The final renormalisation (division by the adaptive-Simpson integral of the
    Steffen interpolant) is not part of this model: the correspondence check compares the tabulated
    ordinates up to that one common factor. *)
Definition gaussian_kernel (x : T) : T := pdf_gauss x c0 c1.

Fixpoint insert_dp (d : T * T) (l : list (T * T)) : list (T * T) :=
  match l with
  | [] => [d]
  | a :: r => if nltb Ops (fst d) (fst a) then d :: l else a :: insert_dp d r
  end.
Definition sort_dp (l : list (T * T)) : list (T * T) := fold_right insert_dp [] l.

(* inner loop over the data for one abscissa x; rest = data[i..] *)
Fixpoint kde_inner (data rest : list (T * T)) (i npseudo : Z) (x xmin bw : T) (kde : T) : res T :=
  match rest with
  | [] => Ok kde
  | d :: r =>
      (* kde += data[i].weight * Gaussian_Kernel((x - data[i].value) / bw) *)
      let kde := (kde + snd d * gaussian_kernel ((x - fst d) / bw))%num in
      if i <? npseudo then
        rbind (getZ data (2 * i)) (fun d2 =>
        rbind (getZ data (3 * i)) (fun d3 =>
          (* 4.0 * xMin - 6.0 * data[i].value + 4.0 * data[2 * i].value - data[3 * i].value *)
          let xp := (nofZ Ops 4 * xmin - nofZ Ops 6 * fst d + nofZ Ops 4 * fst d2 - fst d3)%num in
          let wp := ((snd d + snd d2 + snd d3) / nofZ Ops 3)%num in
          let kde := (kde + wp * gaussian_kernel ((x - xp) / bw))%num in
          kde_inner data r (i + 1) npseudo x xmin bw kde))
      else kde_inner data r (i + 1) npseudo x xmin bw kde
  end.

Fixpoint kde_table (data : list (T * T)) (npseudo : Z) (xmin dx bw wsum : T) (j : Z) (n : nat) : res (list (T * T)) :=
  match n with
  | O => Ok []
  | S n' =>
      let x := (xmin + nofZ Ops j * dx)%num in
      rbind (kde_inner data data 0 npseudo x xmin bw c0) (fun kde =>
      rbind (kde_table data npseudo xmin dx bw wsum (j + 1) n') (fun t =>
        Ok ((x, (kde / (bw * wsum))%num) :: t)))
  end.

(* the Interpolation constructor exits unless the abscissae are strictly increasing *)
Fixpoint strictly_increasing (l : list (T * T)) : bool :=
  match l with
  | [] => true
  | a :: r => match r with [] => true | b :: _ => if nleb Ops (fst b) (fst a) then false else strictly_increasing r end
  end.

Definition kde_bandwidth (data : list (T * T)) (wsum bw : T) : T :=
  if neqb Ops bw c0 then
    let nd := nofZ Ops (Z.of_nat (length data)) in
    let avsum := fold_left (fun acc d => (acc + snd d * fst d)%num) data c0 in
    let av := (avsum / wsum)%num in
    let var := fold_left (fun acc d => (acc + snd d * npowi Ops (fst d - av) 2 / wsum)%num) data c0 in
    (nsqrt Ops var * npow Ops (nofZ Ops 4 / nofZ Ops 3 / nd) (ndec Ops 2 10))%num
  else bw.

Definition kde_points : Z := 150.

Definition perform_kde (data : list (T * T)) (xmin xmax bw : T) : res (list (T * T)) :=
  let nd := Z.of_nat (length data) in
  let wsum := fold_left (fun acc d => (acc + snd d)%num) data c0 in
  let bw := kde_bandwidth data wsum bw in
  let sorted := sort_dp data in
  let npseudo := ntrunc Ops (nofZ Ops nd / nofZ Ops 3)%num in    (* unsigned int N_PseudoData = N_Data / 3.0 *)
  let dx := ((xmax - xmin) / nofZ Ops (kde_points - 1))%num in
  rbind (kde_table sorted npseudo xmin dx bw wsum 0 (Z.to_nat kde_points)) (fun t =>
  if strictly_increasing t then Ok t else Exit).
End Dist.

(** ** Inv_Erf (Special_Functions.cpp:503-525), the function behind Quantile_Gauss: three guards around
    Find_Root(erf(x) - p, -10, 10, 1e-4).  Find_Root (Ridder's method, property C02) is a parameter: it receives the
    function, the bracket and the accuracy, and may terminate the process through its own guards.
       if(fabs(p - 1.0) < 1e-16) return 10.0;  else if(fabs(p + 1.0) < 1e-16) return -10.0;
       else if(fabs(p) >= 1.0) exit;           else return Find_Root([p](x){ return erf(x) - p; }, -10.0, 10.0, 1.0e-4); *)
Section InvErf.
Context {T : Type} (Ops : NumOps T).
Variable find_root : (T -> T) -> T -> T -> T -> res T.

Definition lit_1em16 : T := ndec Ops 1 10000000000000000.
Definition inv_erf_fn (p : T) : res T :=
  if nltb Ops (nabs Ops (nsub Ops p (n1 Ops))) lit_1em16 then Ok (nofZ Ops 10)
  else if nltb Ops (nabs Ops (nadd Ops p (n1 Ops))) lit_1em16 then Ok (nneg Ops (nofZ Ops 10))
  else if ngeb Ops (nabs Ops p) (n1 Ops) then Exit
  else find_root (fun x => nsub Ops (nerf Ops x) p) (nneg Ops (nofZ Ops 10)) (nofZ Ops 10) (ndec Ops 1 10000).

(* Quantile_Gauss with the library's own Inv_Erf *)
Definition quantile_gauss_lib (p mu sigma : T) : res T := quantile_gauss Ops inv_erf_fn p mu sigma.
End InvErf.
