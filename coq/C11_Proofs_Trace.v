(** * C11 proofs: the returned point against EVERY point at which the objective was evaluated (abstract total order;
    arithmetic uninterpreted), and the evaluation budget of Brent's loop *)
From Coq Require Import ZArith List Bool Lia Arith.
From LP Require Import Num OrdLaws C11_Model C11_Proofs C11_Proofs_Hist.
Import ListNotations.

Section Order.
Context {T : Type} (Ops : NumOps T) (OL : OrdLaws Ops).
Local Notation le := (le Ops).
Local Notation lt := (lt Ops).

(** ** Brent: f_min is the least value among all points evaluated by Brent::Minimize, x_min is one of them, and at most
    ITMAX = 100 points are evaluated *)
Section OneD.
Variable f : T -> T.

Lemma brent_step_new_point tol s :
  match brent_step Ops f tol s with
  | BDone _ _ => True
  | BNext s' u => le (s_fx s') (f u)
  end.
Proof.
  unfold brent_step. destruct (brent_done Ops tol s); [exact I|].
  destruct (brent_trial Ops tol s) as [[d e] u].
  destruct s as [a b d0 e0 v w x fv fw fx].
  destruct (nleb Ops (f u) fx) eqn:E1.
  - cbn. apply le_refl; exact OL.
  - apply (nleb_false_lt Ops OL) in E1. apply (lt_le Ops OL) in E1.
    destruct (nleb Ops (f u) fw || neqb Ops w x);
      [|destruct (nleb Ops (f u) fv || neqb Ops v x || neqb Ops v w)]; cbn; exact E1.
Qed.

Lemma brent_loop_best tol : forall fuel s tr xm fm tr',
  SInv f s -> brent_loop Ops f fuel tol s tr = Ok (xm, fm, tr') ->
  exists l, tr' = l ++ tr /\ (forall p, In p l -> le fm (f p)) /\ (In xm l \/ xm = s_x s) /\ (S (length l) <= fuel)%nat.
Proof.
  induction fuel as [|k IH]; intros s tr xm fm tr' HI H; cbn [brent_loop] in H; [discriminate|].
  pose proof (brent_step_descent Ops OL f tol s HI) as HS.
  pose proof (brent_step_new_point tol s) as HN.
  destruct (brent_step Ops f tol s) as [x1 f1|s1 u].
  - inversion H; subst. destruct HS as [-> ->]. exists []. split; [reflexivity|]. split; [intros p []|]. split; [right; reflexivity|cbn; lia].
  - destruct HS as (HI1 & Hle & Hx).
    destruct (brent_loop_descent Ops OL f tol _ _ _ _ _ _ HI1 H) as [_ Hfm].
    destruct (IH _ _ _ _ _ HI1 H) as (l & -> & Hall & Hin & Hlen).
    exists (l ++ [u]). rewrite <- app_assoc. split; [reflexivity|]. split; [|split].
    + intros p Hp. apply in_app_or in Hp. destruct Hp as [Hp|[<-|[]]]; [auto|].
      eapply (le_trans Ops OL); eauto.
    + destruct Hin as [Hin| ->]; [left; apply in_or_app; auto|].
      destruct Hx as [->| ->]; [left; apply in_or_app; right; left; reflexivity|right; reflexivity].
    + rewrite app_length; cbn; lia.
Qed.

Theorem brent_best tol bk tr xm fm tr' : brent Ops f tol bk tr = Ok (xm, fm, tr') ->
  exists l, tr' = l ++ tr /\ fm = f xm /\ In xm l /\ (forall p, In p l -> le fm (f p)) /\ (1 <= length l <= 100)%nat.
Proof.
  unfold brent. destruct bk as [ax bx cx fa fb fc]. intros H.
  assert (HI : SInv f (mkB (if nltb Ops ax cx then ax else cx) (if ngtb Ops ax cx then ax else cx)
                         (zero Ops) (zero Ops) bx bx bx (f bx) (f bx) (f bx))) by (unfold SInv; cbn; auto).
  destruct (brent_loop_descent Ops OL f tol _ _ _ _ _ _ HI H) as [Hfm Hle]. cbn [s_fx] in Hle.
  destruct (brent_loop_best tol _ _ _ _ _ _ HI H) as (l & -> & Hall & Hin & Hlen). cbn [s_x] in Hin.
  exists (l ++ [bx]). rewrite <- app_assoc. split; [reflexivity|]. split; [exact Hfm|]. split; [|split].
  - destruct Hin as [Hin| ->]; apply in_or_app; [left; exact Hin|right; left; reflexivity].
  - intros p Hp. apply in_app_or in Hp. destruct Hp as [Hp|[<-|[]]]; auto.
  - rewrite app_length; cbn. unfold brent_ITMAX in Hlen. lia.
Qed.

(** Find_Minimum: the evaluations are those of Bracket followed by those of Brent (1..100 of them); x_min is one of Brent's
    points and f(x_min) is the least value among them *)
Theorem find_minimum_full_best xl xr tol xm fm tr : find_minimum_full Ops f xl xr tol = Ok (xm, fm, tr) ->
  exists bk lb lm, bracket Ops f xl xr = Ok (bk, rev lb) /\ tr = lb ++ lm /\ fm = f xm /\ In xm lm /\
    (forall p, In p lm -> le (f xm) (f p)) /\ (1 <= length lm <= 100)%nat.
Proof.
  unfold find_minimum_full. destruct (bracket Ops f xl xr) as [[bk tr0]| | |] eqn:EB; cbn [rbind]; try discriminate.
  cbn [fst snd]. destruct (brent Ops f tol bk tr0) as [[[x1 f1] tr1]| | |] eqn:EM; cbn [rbind]; try discriminate.
  cbn [fst snd]. intros H; inversion H; subst.
  destruct (brent_best _ _ _ _ _ _ EM) as (l & -> & Hf & Hin & Hall & Hlen).
  exists bk, (rev tr0), (rev l). rewrite rev_involutive, rev_app_distr. split; [reflexivity|]. split; [reflexivity|].
  split; [exact Hf|]. split; [apply -> in_rev; exact Hin|]. split.
  - intros p Hp. apply in_rev in Hp. rewrite <- Hf. auto.
  - rewrite rev_length. exact Hlen.
Qed.

(** the evaluations begin with the two starting abscissae, in the order given, then the golden-section point cx *)
Lemma bracket_loop_grows : forall fuel s tr s' tr', bracket_loop Ops f fuel s tr = Ok (s', tr') -> exists l, tr' = l ++ tr.
Proof.
  induction fuel as [|k IH]; intros s tr s' tr' H; cbn [bracket_loop] in H; [discriminate|].
  destruct (ngtb Ops (b_fb s) (b_fc s)); [|inversion H; subst; exists []; reflexivity].
  destruct (bracket_body Ops f s) as [s1 ev|s1 ev].
  - inversion H; subst. exists ev; reflexivity.
  - apply IH in H. destruct H as [l ->]. exists (l ++ ev). now rewrite app_assoc.
Qed.

Theorem find_minimum_full_trace_starts xl xr tol xm fm tr : find_minimum_full Ops f xl xr tol = Ok (xm, fm, tr) ->
  exists l, tr = xl :: xr :: nadd Ops (if ngtb Ops (f xr) (f xl) then xl else xr)
                               (nmul Ops (golden Ops) (nsub Ops (if ngtb Ops (f xr) (f xl) then xl else xr) (if ngtb Ops (f xr) (f xl) then xr else xl))) :: l
            /\ l <> [].
Proof.
  unfold find_minimum_full. destruct (bracket Ops f xl xr) as [[bk tr0]| | |] eqn:EB; cbn [rbind]; try discriminate.
  cbn [fst snd]. destruct (brent Ops f tol bk tr0) as [[[x1 f1] tr1]| | |] eqn:EM; cbn [rbind]; try discriminate.
  cbn [fst snd]. intros H; inversion H; subst.
  destruct (brent_best _ _ _ _ _ _ EM) as (l & -> & _ & _ & _ & Hlen).
  unfold bracket in EB. destruct (ngtb Ops (f xr) (f xl)); apply bracket_loop_grows in EB; destruct EB as [l0 ->];
    exists (rev (l ++ l0)); (split; [rewrite app_assoc, rev_app_distr; reflexivity|]);
    intros E; apply (f_equal (@length T)) in E; rewrite rev_length, app_length in E; cbn in E; lia.
Qed.
End OneD.

(** ** Nelder-Mead: fmin is the least value among ALL points at which the objective was evaluated during the call *)
Section ND.
Variable f : list T -> T.
Local Notation yv := (yv Ops).
Local Notation Best := (Best Ops).

Lemma Best_le m m' s : Best m s -> le m m' -> Best m' s.
Proof. intros (i & Hi & H) Hm. exists i. split; [exact Hi|]. eapply (le_trans Ops OL); eauto. Qed.

Lemma Consistent_in_best s p : Consistent f s -> In p (nm_p s) -> Best (f p) s.
Proof.
  intros HC Hp. destruct (In_nth _ _ [] Hp) as (k & Hk & Ek). exists k. rewrite HC, map_length. split; [exact Hk|].
  unfold C11_Proofs.yv, nth0. rewrite HC. rewrite (nth_indep _ (n0 Ops) (f [])) by (rewrite map_length; exact Hk).
  rewrite map_nth, Ek. apply (le_refl Ops OL).
Qed.

(** the trial point of amotry is evaluated, recorded, and afterwards some vertex value is <= its value; the vertex values
    change only at ihi, and only to the trial value *)
Lemma amotry_new s ndim ihi fac : (ihi < length (nm_y s))%nat ->
  let r := amotry Ops f s ndim ihi fac in
  let pt := amotry_point Ops s ndim ihi fac in
  snd r = f pt /\ nm_tr (fst r) = pt :: nm_tr s /\ Best (f pt) (fst r) /\
  (forall k, yv (fst r) k = yv s k \/ yv (fst r) k = f pt).
Proof.
  intros Hi. cbv zeta. unfold amotry. set (pt := amotry_point Ops s ndim ihi fac).
  destruct (nltb Ops (f pt) (nth0 Ops (nm_y s) ihi)) eqn:E; cbn [fst snd nm_tr].
  - split; [reflexivity|]. split; [reflexivity|]. split.
    + exists ihi. cbn [nm_y]. rewrite length_updv. split; [exact Hi|].
      unfold C11_Proofs.yv, nth0; cbn [nm_y]. rewrite nth_updv by exact Hi. rewrite Nat.eqb_refl. apply (le_refl Ops OL).
    + intros k. unfold C11_Proofs.yv, nth0; cbn [nm_y]. rewrite nth_updv by exact Hi.
      destruct (Nat.eqb k ihi); [right|left]; reflexivity.
  - split; [reflexivity|]. split; [reflexivity|]. split; [|intros k; left; reflexivity].
    exists ihi. split; [exact Hi|]. exact E.
Qed.

Lemma shrink_trace_in : forall (rows : list (list T)) i ilo tr p,
  In p (shrink_trace rows i ilo tr) -> In p tr \/ In p rows.
Proof.
  induction rows as [|r rest IH]; intros i ilo tr p H; cbn [shrink_trace] in H; [left; exact H|].
  apply IH in H. destruct (Nat.eqb i ilo).
  - destruct H as [H|H]; [left; exact H|right; right; exact H].
  - destruct H as [[<-|H]|H]; [right; left; reflexivity|left; exact H|right; right; exact H].
Qed.

(** every recorded evaluation point p has some current vertex value <= f p *)
Definition TrB (s : nmst) : Prop := forall p, In p (nm_tr s) -> Best (f p) s.

Lemma nm_iter_trb ftol ndim mpts s : WF mpts s -> Consistent f s -> TrB s ->
  match nm_iter Ops f ftol ndim s with
  | NNext s' => TrB s'
  | NDone o => o_tr o = rev (nm_tr s)
  | NExit => True
  end.
Proof.
  intros HW HC HT. pose proof (nm_iter_spec Ops OL f ftol ndim mpts s HW HC) as HS. revert HS.
  pose proof HW as (H2 & Hy & Hp). unfold nm_iter.
  destruct (nm_extremes Ops (nm_y s)) as [[ilo ihi] inhi] eqn:EX.
  assert (H2' : (2 <= length (nm_y s))%nat) by lia.
  destruct (nm_extremes_spec Ops OL _ _ _ _ H2' EX) as (Hlo & Hhi & Hmin).
  destruct (nltb Ops _ ftol) eqn:Et; [intros _; reflexivity|].
  destruct (Z.geb (nm_nfunc s) nm_NMAX); [auto|].
  set (s0 := mkNM (nm_p s) (nm_y s) (nm_psum s) (nm_nfunc s + 2)%Z (nm_tr s)).
  assert (Hhi0 : (ihi < length (nm_y s0))%nat) by exact Hhi.
  pose proof (amotry_new s0 ndim ihi (nneg Ops (one Ops)) Hhi0) as N1. cbv zeta in N1.
  pose proof (amotry_props Ops OL f s0 ndim ihi (nneg Ops (one Ops)) Hhi0) as A1. cbv zeta in A1.
  destruct (amotry Ops f s0 ndim ihi (nneg Ops (one Ops))) as [s1 ytry]. cbn [fst snd] in N1, A1.
  destruct N1 as (Ey1 & Tr1 & Bp1 & D1). destruct A1 as (_ & L1 & M1 & _).
  change (nm_tr s0) with (nm_tr s) in Tr1.
  assert (Hhi1 : (ihi < length (nm_y s1))%nat) by (rewrite L1; exact Hhi0).
  assert (T1 : TrB s1).
  { intros p Hp'. rewrite Tr1 in Hp'. destruct Hp' as [<-|Hp']; [exact Bp1|].
    apply (Best_mono Ops OL (f p) s0 s1 L1 M1). apply HT; exact Hp'. }
  destruct (nleb Ops ytry (nth0 Ops (nm_y s1) ilo)) eqn:E1.
  { pose proof (amotry_new s1 ndim ihi (two Ops) Hhi1) as N2. cbv zeta in N2.
    pose proof (amotry_props Ops OL f s1 ndim ihi (two Ops) Hhi1) as A2. cbv zeta in A2.
    destruct N2 as (_ & Tr2 & Bp2 & _). destruct A2 as (_ & L2 & M2 & _).
    intros _ p Hp'. rewrite Tr2 in Hp'. destruct Hp' as [<-|Hp']; [exact Bp2|].
    apply (Best_mono Ops OL (f p) s1 _ L2 M2). apply T1; exact Hp'. }
  destruct (ngeb Ops ytry (nth0 Ops (nm_y s1) inhi)); [|intros _; exact T1].
  pose proof (amotry_new s1 ndim ihi (half Ops) Hhi1) as N2. cbv zeta in N2.
  pose proof (amotry_props Ops OL f s1 ndim ihi (half Ops) Hhi1) as A2. cbv zeta in A2.
  destruct (amotry Ops f s1 ndim ihi (half Ops)) as [s2 ytry2]. cbn [fst snd] in N2, A2.
  destruct N2 as (Ey2 & Tr2 & Bp2 & _). destruct A2 as (_ & L2 & M2 & _).
  assert (T2 : TrB s2).
  { intros p Hp'. rewrite Tr2 in Hp'. destruct Hp' as [<-|Hp']; [exact Bp2|].
    apply (Best_mono Ops OL (f p) s1 s2 L2 M2). apply T1; exact Hp'. }
  destruct (ngeb Ops ytry2 (nth0 Ops (nm_y s1) ihi)) eqn:E3; [|intros _; exact T2].
  (* shrink: the best vertex is kept, every other vertex is re-evaluated and recorded *)
  intros (W' & C' & B').
  assert (B0 : Best (yv s ilo) s) by (exists ilo; split; [exact Hlo|apply (le_refl Ops OL)]).
  assert (Hlo0 : le (yv s ilo) ytry).
  { apply (nleb_false_lt Ops OL) in E1. destruct (D1 ilo) as [Eq|Eq]; unfold C11_Proofs.yv in Eq; rewrite Eq in E1.
    - apply (lt_le Ops OL). exact E1.
    - rewrite <- Ey1 in E1. unfold C11_Proofs.lt in E1. rewrite (ol_irrefl Ops OL) in E1. discriminate. }
  assert (Hhi0' : le (yv s ilo) ytry2).
  { apply (ngeb_le Ops OL) in E3. eapply (le_trans Ops OL); [|exact E3].
    destruct (D1 ihi) as [Eq|Eq]; unfold C11_Proofs.yv in Eq; rewrite Eq.
    - apply Hmin; exact Hhi.
    - rewrite <- Ey1. exact Hlo0. }
  intros p Hp'. cbn [nm_tr] in Hp'. apply shrink_trace_in in Hp'. destruct Hp' as [Hp'|Hp'].
  - rewrite Tr2, Tr1 in Hp'. destruct Hp' as [<-|[<-|Hp']].
    + apply (Best_le (yv s ilo)); [apply B'; exact B0|]. rewrite <- Ey2. exact Hhi0'.
    + apply (Best_le (yv s ilo)); [apply B'; exact B0|]. rewrite <- Ey1. exact Hlo0.
    + apply B', HT, Hp'.
  - apply Consistent_in_best; [exact C'|exact Hp'].
Qed.

Lemma nm_loop_best ftol ndim mpts : forall fuel s o, WF mpts s -> Consistent f s -> TrB s ->
  nm_loop Ops f fuel ftol ndim s = Ok o -> forall p, In p (o_tr o) -> le (o_fmin o) (f p).
Proof.
  induction fuel as [|k IH]; intros s o HW HC HT H; cbn [nm_loop] in H; [discriminate|].
  pose proof (nm_iter_spec Ops OL f ftol ndim mpts s HW HC) as HS.
  pose proof (nm_iter_trb ftol ndim mpts s HW HC HT) as HB.
  destruct (nm_iter Ops f ftol ndim s) as [o1|s1|]; try discriminate.
  - inversion H; subst. destruct HS as (_ & _ & _ & _ & _ & _ & A7). intros p Hp. rewrite HB in Hp.
    apply in_rev in Hp. apply A7, HT, Hp.
  - destruct HS as (W1 & C1 & _). exact (IH s1 o W1 C1 HB H).
Qed.

Theorem minimize_general_best ftol pp o : minimize_general Ops f ftol pp = Ok o ->
  forall p, In p (o_tr o) -> le (o_fmin o) (f p).
Proof.
  unfold minimize_general. destruct pp as [|r0 rest] eqn:Epp; [discriminate|]. rewrite <- Epp.
  destruct (Nat.ltb (length pp) 2) eqn:E2; [discriminate|]. apply Nat.ltb_ge in E2.
  destruct (negb _); [discriminate|]. intros H.
  refine (nm_loop_best ftol (length r0) (length pp) _ _ _ _ _ _ H).
  - unfold WF; cbn [nm_y nm_p]. rewrite map_length. auto.
  - reflexivity.
  - intros p Hp. cbn [nm_tr] in Hp. apply in_rev in Hp. apply Consistent_in_best; [reflexivity|exact Hp].
Qed.

(** *** every vertex of the simplex is a point at which the objective has been evaluated *)
Lemma in_updv {A} (l : list A) : forall i v r, In r (updv l i v) -> r = v \/ In r l.
Proof.
  induction l as [|a l IH]; intros [|i] v r H; cbn in *; auto.
  - destruct H as [<-|H]; auto.
  - destruct H as [<-|H]; auto. destruct (IH i v r H); auto.
Qed.

Definition RI (s : @nmst T) : Prop := forall r, In r (nm_p s) -> In r (nm_tr s).

Lemma amotry_rows s ndim ihi fac : RI s -> RI (fst (amotry Ops f s ndim ihi fac)).
Proof.
  intros HR. unfold amotry. destruct (nltb _ _ _); cbn [fst]; intros r Hr; cbn [nm_p nm_tr] in *.
  - apply in_updv in Hr. destruct Hr as [->|Hr]; [left; reflexivity|right; apply HR; exact Hr].
  - right. apply HR; exact Hr.
Qed.

Lemma shrink_trace_keeps : forall (rows : list (list T)) i ilo tr r, In r tr -> In r (shrink_trace rows i ilo tr).
Proof.
  induction rows as [|r0 rest IH]; intros i ilo tr r H; cbn [shrink_trace]; [exact H|].
  apply IH. destruct (Nat.eqb i ilo); [exact H|right; exact H].
Qed.

Lemma shrink_rows_in : forall (rows : list (list T)) i ilo plo tr r, In r (shrink_rows Ops rows i ilo plo) ->
  In r rows \/ In r (shrink_trace (shrink_rows Ops rows i ilo plo) i ilo tr).
Proof.
  induction rows as [|r0 rest IH]; intros i ilo plo tr r H; cbn [shrink_rows shrink_trace] in *; [destruct H|].
  destruct (Nat.eqb i ilo); destruct H as [<-|H].
  - left; left; reflexivity.
  - destruct (IH (S i) ilo plo tr r H) as [H1|H1]; [left; right; exact H1|right; exact H1].
  - right. apply shrink_trace_keeps. left; reflexivity.
  - destruct (IH (S i) ilo plo (midrow Ops r0 plo :: tr) r H) as [H1|H1]; [left; right; exact H1|right; exact H1].
Qed.

Lemma nm_iter_rows ftol ndim mpts s : WF mpts s -> RI s ->
  match nm_iter Ops f ftol ndim s with
  | NNext s' => RI s'
  | NDone o => forall r, In r (o_simplex o) -> In r (o_tr o)
  | NExit => True
  end.
Proof.
  intros (H2 & Hy & Hp) HR. unfold nm_iter.
  destruct (nm_extremes Ops (nm_y s)) as [[ilo ihi] inhi] eqn:EX.
  assert (H2' : (2 <= length (nm_y s))%nat) by lia.
  destruct (nm_extremes_spec Ops OL _ _ _ _ H2' EX) as (Hlo & Hhi & Hmin).
  destruct (nltb Ops _ ftol).
  - cbn [o_simplex o_tr]. intros r Hr. apply -> in_rev. apply HR. unfold swapv in Hr.
    apply in_updv in Hr. destruct Hr as [->|Hr]; [apply nth_In; lia|].
    apply in_updv in Hr. destruct Hr as [->|Hr]; [apply nth_In; lia|exact Hr].
  - destruct (Z.geb (nm_nfunc s) nm_NMAX); [exact I|].
    set (s0 := mkNM (nm_p s) (nm_y s) (nm_psum s) (nm_nfunc s + 2)%Z (nm_tr s)).
    assert (R0 : RI s0) by exact HR.
    pose proof (amotry_rows s0 ndim ihi (nneg Ops (one Ops)) R0) as R1.
    destruct (amotry Ops f s0 ndim ihi (nneg Ops (one Ops))) as [s1 ytry]. cbn [fst] in R1.
    destruct (nleb Ops ytry _); [apply amotry_rows; exact R1|].
    destruct (ngeb Ops ytry _); [|exact R1].
    pose proof (amotry_rows s1 ndim ihi (half Ops) R1) as R2.
    destruct (amotry Ops f s1 ndim ihi (half Ops)) as [s2 ytry2]. cbn [fst] in R2.
    destruct (ngeb Ops ytry2 _); [|exact R2].
    intros r Hr. cbn [nm_p nm_tr] in *.
    destruct (shrink_rows_in _ _ _ _ (nm_tr s2) _ Hr) as [H1|H1]; [|exact H1].
    apply shrink_trace_keeps. apply R2; exact H1.
Qed.

Lemma nm_loop_rows ftol ndim mpts : forall fuel s o, WF mpts s -> Consistent f s -> RI s ->
  nm_loop Ops f fuel ftol ndim s = Ok o -> forall r, In r (o_simplex o) -> In r (o_tr o).
Proof.
  induction fuel as [|k IH]; intros s o HW HC HR H; cbn [nm_loop] in H; [discriminate|].
  pose proof (nm_iter_spec Ops OL f ftol ndim mpts s HW HC) as HS.
  pose proof (nm_iter_rows ftol ndim mpts s HW HR) as HB.
  destruct (nm_iter Ops f ftol ndim s) as [o1|s1|]; try discriminate.
  - inversion H; subst. exact HB.
  - destruct HS as (W1 & C1 & _). exact (IH s1 o W1 C1 HB H).
Qed.

Theorem minimize_general_rows ftol pp o : minimize_general Ops f ftol pp = Ok o ->
  In (o_pmin o) (o_tr o) /\ forall r, In r (o_simplex o) -> In r (o_tr o).
Proof.
  intros H. pose proof (minimize_general_spec Ops OL f ftol pp o H) as (A1 & A2 & _ & A4 & _).
  revert H. unfold minimize_general. destruct pp as [|r0 rest] eqn:Epp; [discriminate|]. rewrite <- Epp in *.
  destruct (Nat.ltb (length pp) 2) eqn:E2; [discriminate|]. apply Nat.ltb_ge in E2.
  destruct (negb _); [discriminate|]. intros H.
  assert (HR : forall r, In r (o_simplex o) -> In r (o_tr o)).
  { refine (nm_loop_rows ftol (length r0) (length pp) _ _ _ _ _ _ H).
    - unfold WF; cbn [nm_y nm_p]. rewrite map_length. auto.
    - reflexivity.
    - intros r Hr. cbn [nm_p nm_tr] in *. apply -> in_rev. exact Hr. }
  split; [|exact HR]. apply HR. rewrite A4. apply nth_In.
  rewrite <- (map_length f), <- A1, A2. lia.
Qed.
End ND.

(** all three overloads *)
Theorem fresh_call_best ftol c o : fresh_call Ops ftol c = Ok o -> forall p, In p (o_tr o) -> le (o_fmin o) (call_f c p).
Proof.
  destruct c as [f pp|f st ds|f st d]; cbn [fresh_call call_f].
  - apply minimize_general_best.
  - unfold minimize_deltas. destruct (negb _); [discriminate|]. apply minimize_general_best.
  - unfold minimize_delta, minimize_deltas. destruct (negb _); [discriminate|]. apply minimize_general_best.
Qed.

Theorem fresh_call_rows ftol c o : fresh_call Ops ftol c = Ok o ->
  In (o_pmin o) (o_tr o) /\ forall r, In r (o_simplex o) -> In r (o_tr o).
Proof.
  destruct c as [f pp|f st ds|f st d]; cbn [fresh_call].
  - apply minimize_general_rows.
  - unfold minimize_deltas. destruct (negb _); [discriminate|]. apply minimize_general_rows.
  - unfold minimize_delta, minimize_deltas. destruct (negb _); [discriminate|]. apply minimize_general_rows.
Qed.
End Order.

(** ** what is NOT true: "f(x_min) <= f at every point Find_Minimum evaluated".  Bracket's early return [cx = u; fc = fu; return]
    (taken when the parabolic point u between bx and cx has f(u) > f(bx)) drops the old cx although f(cx) < f(bx) was seen there, and
    Brent then searches [ax, u] only.  Witness over the integer instance (any instance of the order laws will do for the abstract
    statement; the same shape is replayed on the C++ in doubles, see checks/C11.py LEVEL_TEXT). *)
Local Open Scope Z_scope.
Definition spike (x : Z) : Z := if x =? 0 then 30 else if x =? 10 then 10 else if x =? 20 then 9 else 50.
Theorem find_minimum_best_of_all_refuted : exists (f : Z -> Z) xl xr tol xm fm tr p,
  find_minimum_full ZOps f xl xr tol = Ok (xm, fm, tr) /\ In p tr /\ nltb ZOps (f p) (f xm) = true.
Proof. exists spike, 0, 10, 1, 10, 10, [0; 10; 20; 16; 10], 20. vm_compute. repeat split; auto. Qed.

(** non-vacuity of the positive statements *)
Example ex_find_minimum_best : exists xm fm tr lb lm,
  find_minimum_full ZOps (fun x => (x - 7) * (x - 7)) 0 1 1 = Ok (xm, fm, tr) /\ tr = lb ++ lm /\ In xm lm /\ (1 <= length lm <= 100)%nat.
Proof. exists 7, 0, [0; 1; 2; 7; 13; 7], [0; 1; 2; 7; 13], [7]. vm_compute. repeat split; auto; lia. Qed.
Example ex_minimize_best : exists o,
  minimize_delta ZOps (fun p => nth 0 p 0 * nth 0 p 0 + 3 * (nth 1 p 0 - 3) * (nth 1 p 0 - 3)) 1 [20; -31] 16 = Ok o /\
  length (o_tr o) = 12%nat /\ o_fmin o = 27 /\ In [-32; 16] (o_tr o).
Proof. eexists. vm_compute. repeat split; auto 10. Qed.

(** ** Find_Maximum *)
From Coq Require Import Reals Lra.
From LP Require Import NumR.
Local Close Scope Z_scope.
Local Open Scope R_scope.
(** over the reals: Find_Maximum's result is one of the points evaluated by its Brent phase (the last 1..100 evaluations) and f is
    not higher at any of them *)
Theorem find_maximum_best (f : R -> R) xl xr tol xm tr : find_maximum ROps f xl xr tol = Ok (xm, tr) ->
  exists lb lm, tr = lb ++ lm /\ In xm lm /\ (forall p, In p lm -> f p <= f xm) /\ (1 <= length lm <= 100)%nat.
Proof.
  unfold find_maximum, find_minimum, rmap.
  destruct (find_minimum_full ROps (fun x => nmul ROps (nneg ROps (one ROps)) (f x)) xl xr tol) as [[[x1 f1] tr1]| | |] eqn:E; cbn [rbind]; try discriminate.
  cbn [fst snd]. intros H; inversion H; subst.
  destruct (find_minimum_full_best ROps ROps_OrdLaws _ _ _ _ _ _ _ E) as (bk & lb & lm & _ & -> & _ & Hin & Hall & Hlen).
  exists lb, lm. split; [reflexivity|]. split; [exact Hin|]. split; [|exact Hlen].
  intros p Hp. specialize (Hall p Hp). unfold le in Hall. cbn in Hall. apply Rltb_false in Hall. lra.
Qed.
