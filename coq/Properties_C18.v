(** C18 — property theorems only.  Each is closed by [exact] of a lemma proved in C18_Proofs.v / C18_Proofs_R.v.
    The samplers are functions  stream of canonical uniforms -> res (value * remaining stream):  by the type of the
    model the value and the stream left behind depend on nothing but the stream handed in ("consumes randomness
    only from the generator passed to it; equal generator states give identical outputs and leave equal states
    behind"); the theorems below say how much of the stream each sampler consumes ([consumes us r n]: us = pre ++ r
    with n = length pre), which is what the check compares with the state of the real std::mt19937 after the call. *)
From Coq Require Import ZArith List Reals.
From LP Require Import Num NumR C18_Model C18_Proofs C18_Proofs_R C18_Proofs_St C18_Proofs_StR C18_Proofs_Hist C18_Proofs_HistR C18_Proofs_StR2 C18_Proofs_Supp C18_Proofs_Wall C18_Proofs_Sel C18_Proofs_SelR C18_Model2 C18_Proofs_W C18_Proofs_Gen C18_Proofs_GenR.
Import ListNotations.

(** ** consumption, for an arbitrary number type (control flow only; valid verbatim for doubles) *)
Section AnyNumberType.
Context {T : Type} (Ops : NumOps T).

(** Sample_Uniform: exactly one uniform u, mapped to u * (b - a) + a *)
Theorem C18_consumption_uniform a b us v r :
  sample_uniform Ops a b us = Ok (v, r) -> exists u, us = u :: r /\ v = unif Ops u a b.
Proof. exact (sample_uniform_inv Ops a b us v r). Qed.

(** Sample_Gauss: exactly one uniform, through Quantile_Gauss *)
Theorem C18_consumption_gauss mean sd us v r :
  sample_gauss Ops mean sd us = Ok (v, r) -> exists u, us = u :: r /\ gauss_of Ops u mean sd = Ok v.
Proof. exact (sample_gauss_inv Ops mean sd us v r). Qed.

(** Sample_Poisson: the value k costs k + 1 uniforms; the vector overload the sum over its entries *)
Theorem C18_consumption_poisson lam us k r :
  sample_poisson Ops lam us = Ok (k, r) -> (0 <= k)%Z /\ consumes us r (k + 1).
Proof. exact (sample_poisson_consumes Ops lam us k r). Qed.

Theorem C18_consumption_poisson_list lams us ks r :
  sample_poisson_list Ops lams us = Ok (ks, r) ->
  length ks = length lams /\ Forall (fun k => (0 <= k)%Z) ks /\
  consumes us r (fold_right (fun k s => (k + 1 + s)%Z) 0%Z ks).
Proof. exact (sample_poisson_list_consumes Ops lams us ks r). Qed.

(** Inverse_Transform_Sampling: one uniform xi, then Find_Root on xi - cdf(x) *)
Theorem C18_consumption_inverse_transform cdf a b us v r :
  inverse_transform Ops cdf a b us = Ok (v, r) ->
  exists u, us = u :: r /\
    find_root Ops (fun x => nsub Ops (unif Ops u (n0 Ops) (n1 Ops)) (cdf x)) a b
              (nmul Ops (ndec Ops 1 10000000000) (nsub Ops b a)) = Ok v.
Proof. exact (inverse_transform_inv Ops cdf a b us v r). Qed.

(** Rejection_Sampling: two uniforms per trial, fewer than 10000 trials; the returned x is the first trial whose
    y <= pdf(x) (acceptance rule), every earlier trial was rejected, pdf(x) is neither negative nor NaN *)
Theorem C18_consumption_rejection PDF xMin xMax yMax us x r :
  rejection_sampling Ops PDF xMin xMax yMax us = Ok (x, r) ->
  exists pre u1 u2, us = pre ++ u1 :: u2 :: r /\ all_rejected Ops PDF xMin xMax yMax pre /\
    x = unif Ops u1 xMin xMax /\
    nleb Ops (unif Ops u2 (n0 Ops) yMax) (PDF x) = true /\
    nltb Ops (PDF x) (n0 Ops) = false /\ nisnan Ops (PDF x) = false /\
    let trials := (Z.of_nat (length pre) / 2 + 1)%Z in
    (1 <= trials < 10000)%Z /\ consumes us r (2 * trials).
Proof. exact (rejection_sampling_spec Ops PDF xMin xMax yMax us x r). Qed.

(** Rejection_Sampling_2D: three uniforms per trial *)
Theorem C18_consumption_rejection_2d PDF xMin xMax yMin yMax zMax us xy r :
  rejection_sampling_2d Ops PDF xMin xMax yMin yMax zMax us = Ok (xy, r) ->
  exists pre u1 u2 u3, us = pre ++ u1 :: u2 :: u3 :: r /\ all_rejected2 Ops PDF xMin xMax yMin yMax zMax pre /\
    xy = (unif Ops u1 xMin xMax, unif Ops u2 yMin yMax) /\
    nleb Ops (unif Ops u3 (n0 Ops) zMax) (PDF (fst xy) (snd xy)) = true /\
    let trials := (Z.of_nat (length pre) / 3 + 1)%Z in
    (1 <= trials < 10000)%Z /\ consumes us r (3 * trials).
Proof. exact (rejection_sampling_2d_spec Ops PDF xMin xMax yMin yMax zMax us xy r). Qed.

(** Sample_Metropolis: 1 + 2 i_max uniforms with i_max = (burn_in + thinning * sample) mod 2^32, and as many
    samples as loop indices i < i_max with i >= burn_in and i mod thinning = 0; Sample_Metropolis_2D: 2 + 3 i_max *)
Theorem C18_consumption_metropolis PDF sigma sample thin burn domain us l r :
  sample_metropolis Ops PDF sigma sample thin burn domain us = Ok (l, r) ->
  (domain = [] \/ exists lo hi, domain = [lo; hi]) /\
  consumes us r (metro_consumed burn thin sample) /\
  Z.of_nat (length l) = metro_kept burn thin sample.
Proof. exact (sample_metropolis_spec Ops PDF sigma sample thin burn domain us l r). Qed.

Theorem C18_consumption_metropolis_2d PDF s1 s2 sample thin burn domain us l r :
  sample_metropolis_2d Ops PDF s1 s2 sample thin burn domain us = Ok (l, r) ->
  (domain = [] \/ exists x0 x1 y0 y1, domain = [x0; x1; y0; y1]) /\
  consumes us r (metro2_consumed burn thin sample) /\
  Z.of_nat (length l) = metro_kept burn thin sample.
Proof. exact (sample_metropolis_2d_spec Ops PDF s1 s2 sample thin burn domain us l r). Qed.

(** ** exactly the requested number of samples for every burn-in and thinning >= 1 (no 32-bit overflow) *)
Theorem C18_metropolis_count PDF sigma sample thin burn domain us l r :
  (1 <= thin)%Z -> (0 <= burn)%Z -> (0 <= sample)%Z -> (burn + thin * sample < 4294967296)%Z ->
  sample_metropolis Ops PDF sigma sample thin burn domain us = Ok (l, r) ->
  Z.of_nat (length l) = sample.
Proof. exact (metropolis_count Ops PDF sigma sample thin burn domain us l r). Qed.

Theorem C18_metropolis_2d_count PDF s1 s2 sample thin burn domain us l r :
  (1 <= thin)%Z -> (0 <= burn)%Z -> (0 <= sample)%Z -> (burn + thin * sample < 4294967296)%Z ->
  sample_metropolis_2d Ops PDF s1 s2 sample thin burn domain us = Ok (l, r) ->
  Z.of_nat (length l) = sample.
Proof. exact (metropolis_2d_count Ops PDF s1 s2 sample thin burn domain us l r). Qed.
End AnyNumberType.
Print Assumptions C18_consumption_uniform.
Print Assumptions C18_consumption_gauss.
Print Assumptions C18_consumption_poisson.
Print Assumptions C18_consumption_poisson_list.
Print Assumptions C18_consumption_inverse_transform.
Print Assumptions C18_consumption_rejection.
Print Assumptions C18_consumption_rejection_2d.
Print Assumptions C18_consumption_metropolis.
Print Assumptions C18_consumption_metropolis_2d.
Print Assumptions C18_metropolis_count.
Print Assumptions C18_metropolis_2d_count.

(** the counting fact behind it: [burn, burn + thin * sample) contains exactly [sample] multiples of thin *)
Theorem C18_metro_kept_exact burn thin sample :
  (1 <= thin -> 0 <= burn -> 0 <= sample -> burn + thin * sample < 4294967296 ->
  metro_kept burn thin sample = sample)%Z.
Proof. exact (metro_kept_exact burn thin sample). Qed.
Print Assumptions C18_metro_kept_exact.

(** thinning = 0 (outside the quantifier): i_max = burn_in, `i >= burn_in` never holds, so `i % thinning` is never
    evaluated — no division by zero in the current code — and no sample is returned *)
Theorem C18_metropolis_thinning_zero burn sample :
  (0 <= burn < 4294967296 -> metro_kept burn 0 sample = 0)%Z.
Proof. exact (metro_kept_thin0 burn sample). Qed.
Print Assumptions C18_metropolis_thinning_zero.

Local Open Scope R_scope.
(** ** Sample_Uniform(a,b) returns a point of [a,b] ([a,b) when a < b) *)
Theorem C18_sample_uniform_range a b us v r : a <= b -> Forall (fun u => 0 <= u < 1) us ->
  sample_uniform ROps a b us = Ok (v, r) ->
  consumes us r 1 /\ a <= v <= b /\ (a < b -> v < b).
Proof. exact (sample_uniform_range a b us v r). Qed.
Print Assumptions C18_sample_uniform_range.

(** ** every sample returned by Sample_Metropolis(_2D) on a bounded domain lies in the domain *)
Theorem C18_metropolis_in_domain PDF sigma sample thin burn lo hi us l r :
  lo <= hi -> Forall (fun u => 0 <= u < 1) us ->
  sample_metropolis ROps PDF sigma sample thin burn [lo; hi] us = Ok (l, r) ->
  Forall (fun z => lo <= z <= hi) l.
Proof. exact (metropolis_in_domain PDF sigma sample thin burn lo hi us l r). Qed.
Print Assumptions C18_metropolis_in_domain.

Theorem C18_metropolis_2d_in_domain PDF s1 s2 sample thin burn x0 x1 y0 y1 us l r :
  x0 <= x1 -> y0 <= y1 -> Forall (fun u => 0 <= u < 1) us ->
  sample_metropolis_2d ROps PDF s1 s2 sample thin burn [x0; x1; y0; y1] us = Ok (l, r) ->
  Forall (fun p => x0 <= fst p <= x1 /\ y0 <= snd p <= y1) l.
Proof. exact (metropolis_2d_in_domain PDF s1 s2 sample thin burn x0 x1 y0 y1 us l r). Qed.
Print Assumptions C18_metropolis_2d_in_domain.

(** the step behind it, for EVERY density (also a current point of density 0, where pi(y)/pi(x) is undefined: the code
    sets the probability to 0 without dividing) and EVERY accept deviate u >= 0, the deviate 0 included: a candidate
    outside of the bounded domain has acceptance probability exactly 0 and the test `u < 0` does not take it *)
Theorem C18_acceptance_outside_domain_is_zero PDF lo hi x y : y < lo \/ hi < y ->
  accept1 ROps PDF (Some (lo, hi)) x y = 0.
Proof. exact (accept1_outside_any_density PDF lo hi x y). Qed.
Print Assumptions C18_acceptance_outside_domain_is_zero.

(* 1D and 2D in one theorem (one Print Assumptions: each costs ~1 s of the quick tier) *)
Theorem C18_metropolis_step_rejects_outside :
  (forall PDF lo hi x y u, y < lo \/ hi < y -> 0 <= u ->
     nltb ROps (unif ROps u (n0 ROps) (n1 ROps)) (accept1 ROps PDF (Some (lo, hi)) x y) = false) /\
  (forall PDF x0 x1 y0 y1 x c u, (fst c < x0 \/ x1 < fst c \/ snd c < y0 \/ y1 < snd c) -> 0 <= u ->
     nltb ROps (unif ROps u (n0 ROps) (n1 ROps)) (accept2 ROps PDF (Some (x0, x1, y0, y1)) x c) = false).
Proof. exact (conj metro_step_keeps_outside_candidate_out metro2_step_keeps_outside_candidate_out). Qed.
Print Assumptions C18_metropolis_step_rejects_outside.

(** ** detailed balance of the acceptance probability min(1, pi(y)/pi(x)) the code computes *)
Theorem C18_acceptance_detailed_balance PDF x y : 0 < PDF x -> 0 < PDF y ->
  PDF x * accept1 ROps PDF None x y = PDF y * accept1 ROps PDF None y x.
Proof. exact (acceptance_detailed_balance PDF x y). Qed.
Print Assumptions C18_acceptance_detailed_balance.

Theorem C18_acceptance_detailed_balance_bounded PDF lo hi x y :
  lo <= x <= hi -> lo <= y <= hi -> 0 < PDF x -> 0 < PDF y ->
  PDF x * accept1 ROps PDF (Some (lo, hi)) x y = PDF y * accept1 ROps PDF (Some (lo, hi)) y x.
Proof. exact (acceptance_detailed_balance_bounded PDF lo hi x y). Qed.
Print Assumptions C18_acceptance_detailed_balance_bounded.

Theorem C18_acceptance_detailed_balance_2d PDF x y : 0 < PDF (fst x) (snd x) -> 0 < PDF (fst y) (snd y) ->
  PDF (fst x) (snd x) * accept2 ROps PDF None x y = PDF (fst y) (snd y) * accept2 ROps PDF None y x.
Proof. exact (acceptance_detailed_balance_2d PDF x y). Qed.
Print Assumptions C18_acceptance_detailed_balance_2d.

(** ** rejection sampling: the returned point lies in the box and was accepted by the y drawn with it *)
Theorem C18_rejection_in_domain PDF xMin xMax yMax us x r :
  xMin <= xMax -> Forall (fun u => 0 <= u < 1) us ->
  rejection_sampling ROps PDF xMin xMax yMax us = Ok (x, r) ->
  xMin <= x <= xMax.
Proof. exact (rejection_in_domain PDF xMin xMax yMax us x r). Qed.
Print Assumptions C18_rejection_in_domain.

Theorem C18_rejection_accept_rule PDF xMin xMax yMax us x r :
  rejection_sampling ROps PDF xMin xMax yMax us = Ok (x, r) ->
  exists pre u1 u2, us = pre ++ u1 :: u2 :: r /\
    x = u1 * (xMax - xMin) + xMin /\ u2 * (yMax - 0) + 0 <= PDF x /\ 0 <= PDF x /\
    all_rejected ROps PDF xMin xMax yMax pre /\
    (1 <= Z.of_nat (length pre) / 2 + 1 < 10000)%Z /\
    consumes us r (2 * (Z.of_nat (length pre) / 2 + 1)).
Proof. exact (rejection_accept_rule PDF xMin xMax yMax us x r). Qed.
Print Assumptions C18_rejection_accept_rule.

Theorem C18_rejection_2d_in_domain PDF xMin xMax yMin yMax zMax us xy r :
  xMin <= xMax -> yMin <= yMax -> Forall (fun u => 0 <= u < 1) us ->
  rejection_sampling_2d ROps PDF xMin xMax yMin yMax zMax us = Ok (xy, r) ->
  xMin <= fst xy <= xMax /\ yMin <= snd xy <= yMax.
Proof. exact (rejection_2d_in_domain PDF xMin xMax yMin yMax zMax us xy r). Qed.
Print Assumptions C18_rejection_2d_in_domain.

Theorem C18_rejection_2d_accept_rule PDF xMin xMax yMin yMax zMax us xy r :
  rejection_sampling_2d ROps PDF xMin xMax yMin yMax zMax us = Ok (xy, r) ->
  exists pre u1 u2 u3, us = pre ++ u1 :: u2 :: u3 :: r /\
    xy = (u1 * (xMax - xMin) + xMin, u2 * (yMax - yMin) + yMin) /\
    u3 * (zMax - 0) + 0 <= PDF (fst xy) (snd xy) /\
    all_rejected2 ROps PDF xMin xMax yMin yMax zMax pre /\
    (1 <= Z.of_nat (length pre) / 3 + 1 < 10000)%Z /\
    consumes us r (3 * (Z.of_nat (length pre) / 3 + 1)).
Proof. exact (rejection_2d_accept_rule PDF xMin xMax yMin yMax zMax us xy r). Qed.
Print Assumptions C18_rejection_2d_accept_rule.

(** ** Sample_Poisson(lambda) is Knuth's product rule, for every lambda >= 0: it returns k after k+1 draws, the
    products of the first n <= k draws exceed exp(-lambda) and the product of all k+1 is <= exp(-lambda) — i.e.
    k = min{k : u_1...u_(k+1) <= exp(-lambda)} — the exp(STEP) rescaling being transparent; or (second disjunct)
    the boundary `p < 1.0` / `p > 1` of the rescaling loop was hit: the product equals exp(-500 m) exactly for a
    multiple 500 m < lambda of STEP, where the code stops early. *)
Theorem C18_poisson_is_knuth lambda us k r : 0 <= lambda ->
  sample_poisson ROps lambda us = Ok (k, r) ->
  exists pre, us = pre ++ r /\ Z.of_nat (length pre) = (k + 1)%Z /\
    (forall n, (1 <= n < length pre)%nat -> exp (- lambda) < Rprod (firstn n pre)) /\
    (Rprod pre <= exp (- lambda) \/
     exists m : nat, 500 * INR m < lambda /\ Rprod pre = exp (- (500 * INR m))).
Proof. exact (poisson_is_knuth lambda us k r). Qed.
Print Assumptions C18_poisson_is_knuth.

(** for lambda <= STEP and uniforms in [0,1) the boundary cannot occur *)
Theorem C18_poisson_is_knuth_small lambda us k r : 0 <= lambda <= 500 -> Forall (fun u => 0 <= u < 1) us ->
  sample_poisson ROps lambda us = Ok (k, r) ->
  exists pre, us = pre ++ r /\ Z.of_nat (length pre) = (k + 1)%Z /\
    (forall n, (1 <= n < length pre)%nat -> exp (- lambda) < Rprod (firstn n pre)) /\
    Rprod pre <= exp (- lambda).
Proof. exact (poisson_is_knuth_small lambda us k r). Qed.
Print Assumptions C18_poisson_is_knuth_small.

(** the boundary is real (a null event): lambda = 1000 and a first uniform exp(-500) return 0 after one draw *)
Theorem C18_poisson_boundary r : sample_poisson ROps 1000 (exp (-500) :: r) = Ok (0%Z, r).
Proof. exact (poisson_boundary_example r). Qed.
Print Assumptions C18_poisson_boundary.

(** the sampler returns (no other outcome than running out of stream) as soon as some prefix product of the
    stream has reached exp(-lambda): together with C18_poisson_is_knuth the returned k is the minimum *)
Theorem C18_poisson_total lambda us : 0 <= lambda ->
  (exists n, (1 <= n <= length us)%nat /\ Rprod (firstn n us) <= exp (- lambda)) ->
  exists k r, sample_poisson ROps lambda us = Ok (k, r).
Proof. exact (poisson_total lambda us). Qed.
Print Assumptions C18_poisson_total.

(** ** boundary of the stream: the canonical uniform 0 (in doubles: every canonical uniform <= 2^-55) makes Sample_Gauss
    return mean - 10 sqrt(2) sd — Inv_Erf(-1) returns -10 as Inv_Erf(+1) returns 10 (before the repair it terminated
    the process).  The containment theorems above speak about calls that return ([Ok]). *)
Theorem C18_sample_gauss_at_zero mean sd r : sample_gauss ROps mean sd (0 :: r) = Ok (mean + sqrt 2 * sd * - (10), r).
Proof. exact (sample_gauss_at_zero mean sd r). Qed.
Print Assumptions C18_sample_gauss_at_zero.

(** ** re-entrant use: a target density / user function that itself draws random numbers — from the generator the sampler
    is working on, or from anything else it owns ([A]) — is a function  x -> state -> res (value * state)  (section
    ModelSt of C18_Model.v: the C++ statements with the state threaded through every evaluation of the function).
    "exactly the requested number of samples for every burn-in and thinning setting" does not depend on what the
    density does: *)
Section ReentrantAnyNumberType.
Context {T : Type} (Ops : NumOps T) {A : Type}.
Theorem C18_metropolis_count_reentrant (PDF : @sfun1 T A) sigma sample thin burn domain (s : @st T A) l s' :
  (1 <= thin)%Z -> (0 <= burn)%Z -> (0 <= sample)%Z -> (burn + thin * sample < 4294967296)%Z ->
  sample_metropolis_st Ops PDF sigma sample thin burn domain s = Ok (l, s') ->
  Z.of_nat (length l) = sample.
Proof. exact (metropolis_st_count Ops PDF sigma sample thin burn domain s l s'). Qed.

Theorem C18_metropolis_2d_count_reentrant (PDF : @sfun2 T A) s1 s2 sample thin burn domain (s : @st T A) l s' :
  (1 <= thin)%Z -> (0 <= burn)%Z -> (0 <= sample)%Z -> (burn + thin * sample < 4294967296)%Z ->
  sample_metropolis_2d_st Ops PDF s1 s2 sample thin burn domain s = Ok (l, s') ->
  Z.of_nat (length l) = sample.
Proof. exact (metropolis_2d_st_count Ops PDF s1 s2 sample thin burn domain s l s'). Qed.

(** with a pure function the re-entrant samplers ARE the samplers above, and what the function owns is handed back
    untouched (so every theorem of this file applies to them) *)
Theorem C18_metropolis_reentrant_pure PDF sigma sample thin burn domain us (a : A) l r :
  sample_metropolis Ops PDF sigma sample thin burn domain us = Ok (l, r) ->
  sample_metropolis_st Ops (@lift1 T A PDF) sigma sample thin burn domain (us, a) = Ok (l, (r, a)).
Proof. exact (sample_metropolis_st_pure Ops PDF sigma sample thin burn domain us a l r). Qed.

Theorem C18_metropolis_2d_reentrant_pure PDF s1 s2 sample thin burn domain us (a : A) l r :
  sample_metropolis_2d Ops PDF s1 s2 sample thin burn domain us = Ok (l, r) ->
  sample_metropolis_2d_st Ops (@lift2 T A PDF) s1 s2 sample thin burn domain (us, a) = Ok (l, (r, a)).
Proof. exact (sample_metropolis_2d_st_pure Ops PDF s1 s2 sample thin burn domain us a l r). Qed.

Theorem C18_rejection_reentrant_pure PDF xMin xMax yMax us (a : A) x r :
  rejection_sampling Ops PDF xMin xMax yMax us = Ok (x, r) ->
  rejection_sampling_st Ops (@lift1 T A PDF) xMin xMax yMax (us, a) = Ok (x, (r, a)).
Proof. exact (rejection_sampling_st_pure Ops PDF xMin xMax yMax us a x r). Qed.
End ReentrantAnyNumberType.
Print Assumptions C18_metropolis_count_reentrant.
Print Assumptions C18_metropolis_2d_count_reentrant.
Print Assumptions C18_metropolis_reentrant_pure.
Print Assumptions C18_metropolis_2d_reentrant_pure.
Print Assumptions C18_rejection_reentrant_pure.

(** containment in a bounded domain with a re-entrant density: whatever the density consumes, as long as it leaves
    canonical uniforms (>= 0) in the generator *)
Theorem C18_metropolis_in_domain_reentrant {A : Type} (PDF : @sfun1 R A) sigma sample thin burn lo hi (s : @st R A) l s' :
  keeps_stream PDF -> lo <= hi -> Forall (fun u => 0 <= u < 1) (fst s) ->
  sample_metropolis_st ROps PDF sigma sample thin burn [lo; hi] s = Ok (l, s') ->
  Forall (fun z => lo <= z <= hi) l.
Proof. exact (metropolis_st_in_domain PDF sigma sample thin burn lo hi s l s'). Qed.
Print Assumptions C18_metropolis_in_domain_reentrant.


Theorem C18_metropolis_2d_in_domain_reentrant {A : Type} (PDF : @sfun2 R A) s1 s2 sample thin burn x0 x1 y0 y1 (s : @st R A) l s' :
  keeps_stream2 PDF -> x0 <= x1 -> y0 <= y1 -> Forall (fun u => 0 <= u < 1) (fst s) ->
  sample_metropolis_2d_st ROps PDF s1 s2 sample thin burn [x0; x1; y0; y1] s = Ok (l, s') ->
  Forall (fun p => x0 <= fst p <= x1 /\ y0 <= snd p <= y1) l.
Proof. exact (metropolis_2d_st_in_domain PDF s1 s2 sample thin burn x0 x1 y0 y1 s l s'). Qed.
Print Assumptions C18_metropolis_2d_in_domain_reentrant.
(* the hypothesis is satisfiable by a density that really draws from the sampler's generator *)
Theorem C18_reentrant_2d_density_exists {A : Type} : exists PDF : @sfun2 R A, keeps_stream2 PDF /\
  forall x y u r a, PDF x y (u :: r, a) = Ok (x + y + u, (r, a)).
Proof. exact (ex_intro _ noisy2 (conj noisy2_keeps_stream (fun x y u r a => eq_refl))). Qed.
Print Assumptions C18_reentrant_2d_density_exists.

(** ** "all interleavings of different samplers on one generator": a HISTORY of calls ([run_calls], C18_Model.v: the calls
    one after the other, each on the stream its predecessor left behind; checked against the library on every `seq`
    case).  For histories of ANY length and composition, any number type (so verbatim for doubles): *)
Section Histories.
Context {T : Type} (Ops : NumOps T).

(** every answer of a history is the answer of that call ALONE on the generator state it found, and the calls after it
    start from the state it left behind: nothing but the generator connects the calls *)
Theorem C18_history_every_call (h1 : list (@call T)) c h2 us outs r :
  run_calls Ops (h1 ++ c :: h2) us = Ok (outs, r) ->
  exists o1 r1 a r2 o2, run_calls Ops h1 us = Ok (o1, r1) /\ run_call Ops c r1 = Ok (a, r2) /\
    run_calls Ops h2 r2 = Ok (o2, r) /\ outs = o1 ++ a :: o2 /\ length o1 = length h1.
Proof. exact (history_every_call Ops h1 c h2 us outs r). Qed.

(** a history h1 ++ h2 is h2 run on what h1 left behind (both directions) *)
Theorem C18_history_composition (h1 h2 : list (@call T)) us outs r :
  run_calls Ops (h1 ++ h2) us = Ok (outs, r) <->
  exists o1 r1 o2, run_calls Ops h1 us = Ok (o1, r1) /\ run_calls Ops h2 r1 = Ok (o2, r) /\ outs = o1 ++ o2.
Proof. exact (run_calls_app Ops h1 h2 us outs r). Qed.

(** "equal generator states give identical outputs and leave equal states behind", over histories: two DIFFERENT histories
    (other samplers, other arguments, other initial states) that leave the generator in the same state are followed by the
    same answer and the same state, for every call *)
Theorem C18_history_same_state_same_answer (h1 h2 : list (@call T)) us1 us2 o1 o2 s c a r :
  run_calls Ops h1 us1 = Ok (o1, s) -> run_calls Ops h2 us2 = Ok (o2, s) -> run_call Ops c s = Ok (a, r) ->
  run_calls Ops (h1 ++ [c]) us1 = Ok (o1 ++ [a], r) /\ run_calls Ops (h2 ++ [c]) us2 = Ok (o2 ++ [a], r).
Proof. exact (history_same_state_same_answer Ops h1 h2 us1 us2 o1 o2 s c a r). Qed.

(** the stream a history consumes is the sum of what its calls consume ([call_cost]: 1 for uniform / Gauss / inverse
    transform, k + 1 for a Poisson value k, 2 resp. 3 per rejection trial, 1 + 2 i_max resp. 2 + 3 i_max for Metropolis):
    nothing is drawn between the calls, nothing is put back *)
Theorem C18_history_consumption (cs : list (@call T)) us outs r :
  run_calls Ops cs us = Ok (outs, r) -> exists n, costs cs outs n /\ consumes us r n.
Proof. exact (history_consumption Ops cs us outs r). Qed.

(** ... known before the first call is made when no Poisson / rejection call is among them *)
Theorem C18_history_consumption_fixed (cs : list (@call T)) us outs r n :
  fixed_costs cs = Some n -> run_calls Ops cs us = Ok (outs, r) -> consumes us r n.
Proof. exact (history_consumption_fixed Ops cs us outs r n). Qed.

(** exactly the requested number of samples at EVERY position of EVERY history *)
Theorem C18_history_metropolis_count (cs : list (@call T)) j us outs r PDF sigma sample thin burn domain :
  nth_error cs j = Some (CMetro PDF sigma sample thin burn domain) ->
  (1 <= thin)%Z -> (0 <= burn)%Z -> (0 <= sample)%Z -> (burn + thin * sample < 4294967296)%Z ->
  run_calls Ops cs us = Ok (outs, r) ->
  exists l, nth_error outs j = Some (AReals l) /\ Z.of_nat (length l) = sample.
Proof. exact (history_metropolis_count Ops cs j us outs r PDF sigma sample thin burn domain). Qed.

Theorem C18_history_metropolis_2d_count (cs : list (@call T)) j us outs r PDF s1 s2 sample thin burn domain :
  nth_error cs j = Some (CMetro2 PDF s1 s2 sample thin burn domain) ->
  (1 <= thin)%Z -> (0 <= burn)%Z -> (0 <= sample)%Z -> (burn + thin * sample < 4294967296)%Z ->
  run_calls Ops cs us = Ok (outs, r) ->
  exists l, nth_error outs j = Some (APoints l) /\ Z.of_nat (length l) = sample.
Proof. exact (history_metropolis_2d_count Ops cs j us outs r PDF s1 s2 sample thin burn domain). Qed.

(** the vector overload of Sample_Poisson IS the history of single calls, one per expectation value, in order *)
Theorem C18_poisson_vector_is_history lams us ks r :
  sample_poisson_list Ops lams us = Ok (ks, r) <-> run_calls Ops (map (@CPoisson T) lams) us = Ok (map (@ACount T) ks, r).
Proof. exact (poisson_vector_is_history Ops lams us ks r). Qed.
End Histories.
Print Assumptions C18_history_every_call.
Print Assumptions C18_history_composition.
Print Assumptions C18_history_same_state_same_answer.
Print Assumptions C18_history_consumption.
Print Assumptions C18_history_consumption_fixed.
Print Assumptions C18_history_metropolis_count.
Print Assumptions C18_history_metropolis_2d_count.
Print Assumptions C18_poisson_vector_is_history.

(** non-vacuity: three different samplers interleaved on one stream of four uniforms: first conjunct of C18_examples (end of the file) *)

(** ** "returns values inside the requested domain" for Inverse_Transform_Sampling: Find_Root keeps every iterate inside
    the bracket (the clamp of Ridder's point), so the value returned lies between xMin and xMax -- for EVERY cdf
    (monotone or not, continuous or not), every generator state, limits in either order *)
Theorem C18_inverse_transform_in_range cdf a b us v r :
  inverse_transform ROps cdf a b us = Ok (v, r) -> Rmin a b <= v <= Rmax a b.
Proof. exact (inverse_transform_in_range cdf a b us v r). Qed.
Print Assumptions C18_inverse_transform_in_range.

(** ... and at every position of every history; likewise containment of a bounded Metropolis call *)
Theorem C18_history_inverse_transform_in_range cs j us outs r cdf a b :
  nth_error cs j = Some (CInvT cdf a b) -> run_calls ROps cs us = Ok (outs, r) ->
  exists x, nth_error outs j = Some (AReal x) /\ Rmin a b <= x <= Rmax a b.
Proof. exact (history_inverse_transform_in_range cs j us outs r cdf a b). Qed.
Print Assumptions C18_history_inverse_transform_in_range.

Theorem C18_history_metropolis_in_domain cs j us outs r PDF sigma sample thin burn lo hi :
  nth_error cs j = Some (CMetro PDF sigma sample thin burn [lo; hi]) -> lo <= hi ->
  Forall (fun u => 0 <= u < 1) us -> run_calls ROps cs us = Ok (outs, r) ->
  exists l, nth_error outs j = Some (AReals l) /\ Forall (fun z => lo <= z <= hi) l.
Proof. exact (history_metropolis_in_domain cs j us outs r PDF sigma sample thin burn lo hi). Qed.
Print Assumptions C18_history_metropolis_in_domain.

(** ** the law of Sample_Gauss is TRUNCATED at 10 sqrt(2) standard deviations (Inv_Erf returns values in [-10, 10]); the
    Gaussian mass outside is erfc(10) ~ 2e-45, far below the significance of the distributional clause *)
Theorem C18_sample_gauss_truncated mean sd us v r : 0 <= sd ->
  sample_gauss ROps mean sd us = Ok (v, r) -> Rabs (v - mean) <= 10 * (sqrt 2 * sd).
Proof. exact (sample_gauss_truncated mean sd us v r). Qed.
Print Assumptions C18_sample_gauss_truncated.

(** ** "returns values inside the support" for Sample_Metropolis(_2D): a chain that is at a point of positive density never
    moves to a point of density zero -- bounded and unbounded domain, every non-negative density, every proposal width, every
    (sample, thinning, burn_in), every generator state.  [metro_start]: the start point is uniform in the bounded domain /
    Gaussian around 0; a start point of density zero is outside this theorem (see LEVEL_TEXT). *)
Theorem C18_metropolis_stays_in_support PDF sigma sample thin burn domain u us l r x0 :
  (forall y, 0 <= PDF y) -> Forall (fun v => 0 <= v) us ->
  metro_start sigma domain u x0 -> 0 < PDF x0 ->
  sample_metropolis ROps PDF sigma sample thin burn domain (u :: us) = Ok (l, r) ->
  Forall (fun z => 0 < PDF z) l.
Proof. exact (metropolis_stays_in_support PDF sigma sample thin burn domain u us l r x0). Qed.
Print Assumptions C18_metropolis_stays_in_support.

Theorem C18_metropolis_2d_stays_in_support PDF s1 s2 sample thin burn domain u1 u2 us l r p0 :
  (forall x y, 0 <= PDF x y) -> Forall (fun v => 0 <= v) us ->
  metro2_start s1 s2 domain u1 u2 p0 -> 0 < PDF (fst p0) (snd p0) ->
  sample_metropolis_2d ROps PDF s1 s2 sample thin burn domain (u1 :: u2 :: us) = Ok (l, r) ->
  Forall (fun z => 0 < PDF (fst z) (snd z)) l.
Proof. exact (metropolis_2d_stays_in_support PDF s1 s2 sample thin burn domain u1 u2 us l r p0). Qed.
Print Assumptions C18_metropolis_2d_stays_in_support.

(* the hypotheses are satisfiable: the triangular density 2x on [0,1] (zero outside), domain [-1,2], start deviate 1/2: second conjunct of C18_examples *)

(** the step behind it: a candidate of density zero has acceptance probability exactly 0 from every current point *)
Theorem C18_acceptance_zero_density_candidate PDF dom x cand : PDF cand = 0 -> accept1 ROps PDF dom x cand = 0.
Proof. exact (accept1_zero_density PDF dom x cand). Qed.
Print Assumptions C18_acceptance_zero_density_candidate.

(** detailed balance on a bounded 2D domain (the unbounded 2D and both 1D cases are above) *)
Theorem C18_acceptance_detailed_balance_2d_bounded PDF x0 x1 y0 y1 x y :
  x0 <= fst x <= x1 -> y0 <= snd x <= y1 -> x0 <= fst y <= x1 -> y0 <= snd y <= y1 ->
  0 < PDF (fst x) (snd x) -> 0 < PDF (fst y) (snd y) ->
  PDF (fst x) (snd x) * accept2 ROps PDF (Some (x0, x1, y0, y1)) x y =
  PDF (fst y) (snd y) * accept2 ROps PDF (Some (x0, x1, y0, y1)) y x.
Proof. exact (acceptance_detailed_balance_2d_bounded PDF x0 x1 y0 y1 x y). Qed.
Print Assumptions C18_acceptance_detailed_balance_2d_bounded.

(** ** "returns values inside the ... requested domain": the walls.  The domain test of Sample_Metropolis(_2D) is the plain comparison of the
    number type -- there is NO tolerance band: for EVERY number type (so verbatim for doubles) a candidate that compares below domain[0] or
    above domain[1], by whatever amount (one unit in the last place, a relative 1e-16), has acceptance probability exactly 0; and the domain
    is closed: a candidate on a wall or between the walls is judged by the density alone (the bounded acceptance is the unbounded one). *)
Theorem C18_domain_test_has_no_tolerance {T : Type} (Ops : NumOps T) (PDF : T -> T) lo hi x cand :
  nltb Ops cand lo = true \/ nltb Ops hi cand = true ->
  accept1 Ops PDF (Some (lo, hi)) x cand = n0 Ops.
Proof. exact (accept1_wall_any_ops Ops PDF lo hi x cand). Qed.
Print Assumptions C18_domain_test_has_no_tolerance.

Theorem C18_domain_test_has_no_tolerance_2d {T : Type} (Ops : NumOps T) (PDF : T -> T -> T) x0 x1 y0 y1 x cand :
  nltb Ops (fst cand) x0 = true \/ nltb Ops x1 (fst cand) = true \/
  nltb Ops (snd cand) y0 = true \/ nltb Ops y1 (snd cand) = true ->
  accept2 Ops PDF (Some (x0, x1, y0, y1)) x cand = n0 Ops.
Proof. exact (accept2_wall_any_ops Ops PDF x0 x1 y0 y1 x cand). Qed.
Print Assumptions C18_domain_test_has_no_tolerance_2d.

Theorem C18_domain_is_closed {T : Type} (Ops : NumOps T) (PDF : T -> T) lo hi x cand :
  nltb Ops cand lo = false -> nltb Ops hi cand = false ->
  accept1 Ops PDF (Some (lo, hi)) x cand = accept1 Ops PDF None x cand.
Proof. exact (accept1_inside_any_ops Ops PDF lo hi x cand). Qed.
Print Assumptions C18_domain_is_closed.

Theorem C18_domain_is_closed_2d {T : Type} (Ops : NumOps T) (PDF : T -> T -> T) x0 x1 y0 y1 x cand :
  nltb Ops (fst cand) x0 = false -> nltb Ops x1 (fst cand) = false ->
  nltb Ops (snd cand) y0 = false -> nltb Ops y1 (snd cand) = false ->
  accept2 Ops PDF (Some (x0, x1, y0, y1)) x cand = accept2 Ops PDF None x cand.
Proof. exact (accept2_inside_any_ops Ops PDF x0 x1 y0 y1 x cand). Qed.
Print Assumptions C18_domain_is_closed_2d.

(** over the reals: every eps > 0, however small, beyond either wall; every point of [lo, hi], the walls included *)
Theorem C18_no_tolerance_band PDF lo hi x :
  (forall eps, 0 < eps ->
     accept1 ROps PDF (Some (lo, hi)) x (hi + eps) = 0 /\ accept1 ROps PDF (Some (lo, hi)) x (lo - eps) = 0) /\
  (forall y, lo <= y <= hi -> accept1 ROps PDF (Some (lo, hi)) x y = accept1 ROps PDF None x y).
Proof. exact (conj (accept1_no_tolerance_band PDF lo hi x) (accept1_closed_domain PDF lo hi x)). Qed.
Print Assumptions C18_no_tolerance_band.

(* a wall example: third conjunct of C18_examples *)

(** ** "exactly the requested number of samples for every burn-in and thinning setting" -- and WHICH ones.  Burn-in and thinning are pure
    bookkeeping: the call (sample, thinning, burn_in) runs the SAME chain as the call (i_max, 1, 0), i_max = (burn_in + thinning * sample) mod 2^32
    -- same states, same generator state left behind, same failure ([rmap] maps Exit to Exit, Fuel to Fuel) -- and returns of it exactly the states
    of the loop indices i with i >= burn_in and i mod thinning = 0 ([select]).  No hypothesis: every (sample, thinning, burn_in), thinning = 0 and
    32-bit wrap-around included, every density, domain, generator state, every number type (verbatim for doubles). *)
Theorem C18_metropolis_thinning_is_selection {T : Type} (Ops : NumOps T) :
  (forall PDF sigma sample thin burn domain us,
     sample_metropolis Ops PDF sigma sample thin burn domain us =
     rmap (on_fst (select burn thin 0)) (sample_metropolis Ops PDF sigma (metro_imax burn thin sample) 1 0 domain us)) /\
  (forall PDF s1 s2 sample thin burn domain us,
     sample_metropolis_2d Ops PDF s1 s2 sample thin burn domain us =
     rmap (on_fst (select burn thin 0)) (sample_metropolis_2d Ops PDF s1 s2 (metro_imax burn thin sample) 1 0 domain us)).
Proof. exact (conj (metropolis_thinning_is_selection Ops) (metropolis_2d_thinning_is_selection Ops)). Qed.
Print Assumptions C18_metropolis_thinning_is_selection.

(** readable form inside the quantifier (thinning >= 1, no overflow): sample j is the state of the un-thinned chain at loop index
    thinning * (ceil(burn_in / thinning) + j) -- the loop index is counted from 0, NOT from burn_in: when burn_in is not a multiple of thinning
    the first sample is taken up to thinning - 1 steps after the burn-in ends *)
Theorem C18_metropolis_which_states_are_returned {T : Type} (Ops : NumOps T) sample thin burn :
  (1 <= thin)%Z -> (0 <= burn)%Z -> (0 <= sample)%Z -> (burn + thin * sample < 4294967296)%Z ->
  (forall PDF sigma domain us l r,
     sample_metropolis Ops PDF sigma sample thin burn domain us = Ok (l, r) ->
     exists full, sample_metropolis Ops PDF sigma (burn + thin * sample) 1 0 domain us = Ok (full, r) /\
       Z.of_nat (length full) = (burn + thin * sample)%Z /\
       forall j, (j < length l)%nat ->
         nth_error l j = nth_error full (Z.to_nat (thin * ((burn + thin - 1) / thin + Z.of_nat j)))) /\
  (forall PDF s1 s2 domain us l r,
     sample_metropolis_2d Ops PDF s1 s2 sample thin burn domain us = Ok (l, r) ->
     exists full, sample_metropolis_2d Ops PDF s1 s2 (burn + thin * sample) 1 0 domain us = Ok (full, r) /\
       Z.of_nat (length full) = (burn + thin * sample)%Z /\
       forall j, (j < length l)%nat ->
         nth_error l j = nth_error full (Z.to_nat (thin * ((burn + thin - 1) / thin + Z.of_nat j)))).
Proof.
  exact (fun Ht Hb Hs Ho => conj
    (fun PDF sigma domain us l r => metropolis_sample_j Ops PDF sigma sample thin burn domain us l r Ht Hb Hs Ho)
    (fun PDF s1 s2 domain us l r => metropolis_2d_sample_j Ops PDF s1 s2 sample thin burn domain us l r Ht Hb Hs Ho)).
Qed.
Print Assumptions C18_metropolis_which_states_are_returned.

(** the closed form of the selection, from any loop index i on, for lists of any length *)
Theorem C18_select_closed_form {X : Type} burn thin (l : list X) i j : (1 <= thin)%Z -> (0 <= i)%Z ->
  nth_error (select burn thin i l) j =
  nth_error l (Z.to_nat (thin * ((Z.max i burn + thin - 1) / thin + Z.of_nat j) - i)).
Proof. exact (fun Ht Hi => select_nth burn thin l Ht i j Hi). Qed.
Print Assumptions C18_select_closed_form.

(* non-vacuity (burn-in 3, thinning 2, 2 samples: a chain of 7 states, the loop indices 4 and 6 are returned): fourth conjunct of C18_examples *)

(** ** the proposal of Sample_Metropolis(_2D) is a random walk: Sample_Gauss(x, sigma) = x + sqrt(2) sigma Inv_Erf(2 xi - 1), the displacement
    is a function of the deviate and of sigma alone (every number type); over the reals: the same deviate proposes the same displacement from
    every current point.  (The SYMMETRY of the displacement law, needed with detailed balance of the acceptance for the stationarity of the
    target, is NOT a theorem: Inv_Erf is a root-finder, see LEVEL_TEXT.) *)
Theorem C18_proposal_is_random_walk {T : Type} (Ops : NumOps T) u x sigma c :
  gauss_of Ops u x sigma = Ok c <->
  exists e, inv_erf Ops (nsub Ops (nmul Ops (nofZ Ops 2) (unif Ops u (n0 Ops) (n1 Ops))) (n1 Ops)) = Ok e /\
            c = nadd Ops x (nmul Ops (nmul Ops (nsqrt Ops (nofZ Ops 2)) sigma) e).
Proof. exact (proposal_is_random_walk Ops u x sigma c). Qed.
Print Assumptions C18_proposal_is_random_walk.

(** ** the law of Sample_Uniform(a,b), a < b, as a statement about events: {output <= t} IS {u <= (t - a)/(b - a)}, so a canonical uniform u gives
    the distribution function (t - a)/(b - a); the map u -> output is strictly increasing.  Together with the random-walk property over R. *)
Theorem C18_sample_uniform_law_partial a b : a < b ->
  (forall u t, unif ROps u a b <= t <-> u <= (t - a) / (b - a)) /\
  (forall u v, u < v -> unif ROps u a b < unif ROps v a b) /\
  (forall u sigma x x' c, gauss_of ROps u x sigma = Ok c -> gauss_of ROps u x' sigma = Ok (c - x + x')).
Proof.
  exact (fun H => conj (fun u t => sample_uniform_law a b u t H)
               (conj (fun u v => sample_uniform_increasing a b u v H) proposal_increment_independent)).
Qed.
Print Assumptions C18_sample_uniform_law_partial.

(** ** Rejection_Sampling(_2D) terminates for every density, box and envelope (every number type): a generator that can deliver 2 * 9999 (3 * 9999)
    uniforms is never exhausted ([Fuel] = the call is still drawing) -- the call returns a point or terminates the process (the inefficiency abort at the
    10000th trial, or a guard).  With C18_consumption_rejection(_2d): at most 9999 trials in every call that returns.
    (Streams that long exist: long_stream_ex in C18_Proofs_Sel.v.) *)
Theorem C18_rejection_terminates {T : Type} (Ops : NumOps T) :
  (forall PDF xMin xMax yMax us, (19998 <= Z.of_nat (length us))%Z ->
     rejection_sampling Ops PDF xMin xMax yMax us <> Fuel) /\
  (forall PDF xMin xMax yMin yMax zMax us, (29997 <= Z.of_nat (length us))%Z ->
     rejection_sampling_2d Ops PDF xMin xMax yMin yMax zMax us <> Fuel).
Proof. exact (conj (rejection_sampling_terminates Ops) (rejection_sampling_2d_terminates Ops)). Qed.
Print Assumptions C18_rejection_terminates.

(** ** non-vacuity examples (one theorem, one Print Assumptions): (1) three different samplers interleaved on one stream of four uniforms;
    (2) the hypotheses of C18_metropolis_stays_in_support are satisfiable: the triangular density 2x on [0,1] (zero outside), domain [-1,2], start
    deviate 1/2; (3) a candidate ON the wall is judged by the density, one 2^-60 beyond it has acceptance probability 0; (4) burn-in 3, thinning 2,
    2 samples: of a chain of 7 states the loop indices 4 and 6 are returned, and the arithmetic hypotheses of C18_metropolis_which_states_are_returned
    hold for them; (5) the event identity of C18_sample_uniform_law_partial at a = -1, b = 3, u = 1/4, t = 0 *)
Theorem C18_examples :
  run_calls ROps [CUniform (-1) 3; CRej (fun x => 2 * x) 0 1 2; CMetro (fun x => x) 1 0 1 0 [0; 1]] [/2; /2; /4; /2]
    = Ok ([AReal 1; AReal (/2); AReals []], []) /\
  (let PDF := fun x : R => if Rle_dec 0 x then (if Rle_dec x 1 then 2 * x else 0) else 0 in
   (forall y, 0 <= PDF y) /\ metro_start 1 [-1; 2] (/2) (/2) /\ 0 < PDF (/2)) /\
  (accept1 ROps (fun x => 2 * x) (Some (0, 1)) (1/2) 1 = 1 /\
   accept1 ROps (fun x => 2 * x) (Some (0, 1)) (1/2) (1 + / 2 ^ 60) = 0) /\
  (select 3 2 0 [10; 11; 12; 13; 14; 15; 16]%Z = [14; 16]%Z /\
   Z.to_nat (2 * ((3 + 2 - 1) / 2 + Z.of_nat 0)) = 4%nat /\ Z.to_nat (2 * ((3 + 2 - 1) / 2 + Z.of_nat 1)) = 6%nat) /\
  (unif ROps (/4) (-1) 3 <= 0 /\ / 4 <= (0 - -1) / (3 - -1)).
Proof. exact (conj history_ex (conj stays_in_support_ex (conj wall_example (conj select_ex sample_uniform_law_ex)))). Qed.
Print Assumptions C18_examples.

(** * Seventh pass: code that used to be driven by the harness only (C18_Model2.v) *)

(** ** "consumes randomness only from the generator passed to it ... returns ... exactly the requested number of samples": the acceptance
    statistic of Sample_Metropolis(_2D) (average_acceptance_probability, the efficiency warning) is bookkeeping only -- for EVERY number type the
    sampler with the statistic returns the samples, the residual stream and the failures of the sampler without it. *)
Theorem C18_metropolis_statistic_is_transparent {T : Type} (Ops : NumOps T) PDF sigma sample thin burn domain us :
  forget (sample_metropolis_w Ops PDF sigma sample thin burn domain us) = sample_metropolis Ops PDF sigma sample thin burn domain us.
Proof. exact (sample_metropolis_w_samples Ops PDF sigma sample thin burn domain us). Qed.
Print Assumptions C18_metropolis_statistic_is_transparent.
Theorem C18_metropolis_2d_statistic_is_transparent {T : Type} (Ops : NumOps T) PDF s1 s2 sample thin burn domain us :
  forget (sample_metropolis_2d_w Ops PDF s1 s2 sample thin burn domain us) = sample_metropolis_2d Ops PDF s1 s2 sample thin burn domain us.
Proof. exact (sample_metropolis_2d_w_samples Ops PDF s1 s2 sample thin burn domain us). Qed.
Print Assumptions C18_metropolis_2d_statistic_is_transparent.

(** the reported average acceptance probability of a chain with at least one iteration and a non-negative density is a probability, and the
    warning is printed exactly when it is below 1e-3 or above 1 - 1e-2 (over R; a chain without iterations divides 0.0 by 0: NaN, no warning,
    IEEE behaviour covered by the correspondence) *)
Theorem C18_metropolis_average_is_probability PDF sigma sample thin burn domain us l av w r :
  (forall z, 0 <= PDF z) -> (0 < metro_imax burn thin sample)%Z ->
  sample_metropolis_w ROps PDF sigma sample thin burn domain us = Ok (l, (av, w), r) ->
  0 <= av <= 1 /\ (w = true <-> av < 1 / 1000 \/ 1 - 1 / 100 < av).
Proof. exact (metropolis_average_is_probability PDF sigma sample thin burn domain us l av w r). Qed.
Print Assumptions C18_metropolis_average_is_probability.
Theorem C18_metropolis_2d_average_is_probability PDF s1 s2 sample thin burn domain us l av w r :
  (forall a b, 0 <= PDF a b) -> (0 < metro_imax burn thin sample)%Z ->
  sample_metropolis_2d_w ROps PDF s1 s2 sample thin burn domain us = Ok (l, (av, w), r) ->
  0 <= av <= 1 /\ (w = true <-> av < 1 / 1000 \/ 1 - 1 / 100 < av).
Proof. exact (metropolis_2d_average_is_probability PDF s1 s2 sample thin burn domain us l av w r). Qed.
Print Assumptions C18_metropolis_2d_average_is_probability.
Example C18_metropolis_average_ex :
  (forall z : R, 0 <= (fun _ : R => 1) z) /\ (0 < metro_imax 0 1 1)%Z /\
  exists l av w, sample_metropolis_w ROps (fun _ => 1) 1 1 1 0 [0; 1] [/2; 0; /2] = Ok (l, (av, w), []).
Proof. exact metropolis_average_ex. Qed.

(** ** "all generator seeds and states ... equal generator states give identical outputs and leave equal states behind": the generator itself
    (std::mt19937: seed, _M_gen_rand, tempering; std::generate_canonical<double,53>) is a Gallina function of the state.  Every state reachable from
    a seed consists of 624 32-bit words, every raw output is a 32-bit word ... *)
Theorem C18_generator_seed_state value : mt_wf (mt_seed value).
Proof. exact (mt_seed_wf value). Qed.
Print Assumptions C18_generator_seed_state.
Theorem C18_generator_step g : mt_wf g -> b32 (fst (mt_next g)) /\ mt_wf (snd (mt_next g)).
Proof. exact (mt_next_wf g). Qed.
Print Assumptions C18_generator_step.
(** ... the 10000th output of the default-seeded generator is the value the C++ standard prescribes ([rand.predef]) ... *)
Example C18_generator_is_mt19937 : fst (mt_next (mt_discard 9999 (mt_seed 5489))) = 4123659995%Z.
Proof. vm_compute. reflexivity. Qed.
(** ... the canonical uniforms of every generator state lie in [0,1) (over R: the clamp to nextafter(1,0) is never taken), which is the
    premise of the containment theorems above: they hold for every seed ... *)
Theorem C18_generator_uniforms_in_unit_interval n g : mt_wf g -> Forall (fun u => 0 <= u < 1) (mt_stream ROps n g).
Proof. exact (mt_stream_range n g). Qed.
Print Assumptions C18_generator_uniforms_in_unit_interval.
Theorem C18_metropolis_in_domain_from_seed seed n PDF sigma sample thin burn lo hi l r :
  lo <= hi ->
  sample_metropolis ROps PDF sigma sample thin burn [lo; hi] (mt_stream ROps n (mt_seed seed)) = Ok (l, r) ->
  Forall (fun z => lo <= z <= hi) l.
Proof. exact (metropolis_in_domain_from_seed seed n PDF sigma sample thin burn lo hi l r). Qed.
Print Assumptions C18_metropolis_in_domain_from_seed.
Theorem C18_sample_uniform_range_from_seed seed n a b v r : a <= b ->
  sample_uniform ROps a b (mt_stream ROps n (mt_seed seed)) = Ok (v, r) -> a <= v <= b /\ (a < b -> v < b).
Proof. exact (sample_uniform_range_from_seed seed n a b v r). Qed.
Print Assumptions C18_sample_uniform_range_from_seed.
(** ... and a history of sampler calls run from a generator state (every number type): the answers are those of the stream model on the canonical
    uniforms of that state, the number k of canonical draws is the sum of the calls' costs, the generator left behind is the state advanced by 2k
    raw outputs, and the unread part of the stream IS the stream of the generator left behind (nothing is drawn and put back, nothing else is state) *)
Theorem C18_generator_state_left_behind {T : Type} (Ops : NumOps T) g n cs a k g' :
  run_from Ops g n cs = Ok (a, k, g') ->
  exists j, k = Z.of_nat j /\ (j <= n)%nat /\ g' = mt_discard (2 * j) g /\
            run_calls Ops cs (mt_stream Ops n g) = Ok (a, mt_stream Ops (n - j) g') /\
            exists c, costs cs a c /\ c = k.
Proof. exact (run_from_spec Ops g n cs a k g'). Qed.
Print Assumptions C18_generator_state_left_behind.
Theorem C18_generator_stream_splits {T : Type} (Ops : NumOps T) n m g :
  mt_stream Ops (n + m) g = mt_stream Ops n g ++ mt_stream Ops m (mt_discard (2 * n) g).
Proof. exact (mt_stream_app Ops n m g). Qed.
Print Assumptions C18_generator_stream_splits.
