(** * C18 proofs, part 3: samplers whose user function draws random numbers itself (re-entrant / nested use,
    section [ModelSt] of C18_Model.v).

    - the number of samples returned by Sample_Metropolis(_2D) does not depend on what the target density does
      with the generator (or with anything else it owns): exactly [sample] for every thinning >= 1;
    - with a pure density the stateful samplers are the samplers of section [Model] (so every theorem about those
      applies), and the state the function owns is returned untouched. *)
From Coq Require Import ZArith List Bool Lia Arith.
From LP Require Import Num C18_Model C18_Proofs.
Import ListNotations.
Local Open Scope Z_scope.

Section GenericSt.
Context {T : Type} (Ops : NumOps T) {A : Type}.
Notation st := (@st T A).

Lemma draw_inv (s : st) u s' : draw s = Ok (u, s') -> fst s = u :: fst s' /\ snd s = snd s'.
Proof. destruct s as [[|u0 r] a]; simpl; [discriminate|]. intros H; inversion H; subst. now split. Qed.

Lemma to_nat_step (imax i : Z) : i < imax -> Z.to_nat (imax - i) = S (Z.to_nat (imax - (i + 1))).
Proof. intros. rewrite <- Z2Nat.inj_succ by lia. f_equal. lia. Qed.

(** ** Sample_Metropolis: the length of the result is a function of (sample, thinning, burn_in) only *)
Section MetroSt.
Variables (PDF : @sfun1 T A) (sigma : T) (dom : option (T * T)) (burn thin imax : Z).

Lemma metro_loop_st_count fuel : forall (s : st) i x acc l s',
  metro_loop_st Ops fuel PDF sigma dom burn thin imax s i x acc = Ok (l, s') ->
  Z.of_nat (length l) = Z.of_nat (length acc) + count_loop (Z.to_nat (imax - i)) burn thin i 0.
Proof.
  induction fuel as [|fuel IH]; intros s i x acc l s'; simpl metro_loop_st;
    destruct (i <? imax) eqn:Hi.
  - discriminate.
  - apply Z.ltb_ge in Hi. replace (Z.to_nat (imax - i)) with O by lia.
    intros H; inversion H; subst. rewrite rev_length. simpl. lia.
  - apply Z.ltb_lt in Hi.
    destruct (draw s) as [[u1 s1]| | |]; try discriminate; cbn [rbind fst snd].
    destruct (gauss_of Ops u1 x sigma) as [cand| | |]; try discriminate; cbn [rbind fst snd].
    destruct (accept1_st Ops PDF dom x cand s1) as [[a s2]| | |]; try discriminate; cbn [rbind fst snd].
    destruct (draw s2) as [[u2 s3]| | |]; try discriminate; cbn [rbind fst snd].
    intros H. apply IH in H. rewrite H. rewrite (to_nat_step imax i Hi). cbn [count_loop].
    destruct (metro_keep burn thin i).
    + rewrite (count_loop_acc _ burn thin (i + 1) (0 + 1)). simpl length. lia.
    + lia.
  - apply Z.ltb_ge in Hi. replace (Z.to_nat (imax - i)) with O by lia.
    intros H; inversion H; subst. rewrite rev_length. simpl. lia.
Qed.
End MetroSt.

Theorem sample_metropolis_st_kept PDF sigma sample thin burn domain (s : st) l s' :
  sample_metropolis_st Ops PDF sigma sample thin burn domain s = Ok (l, s') ->
  Z.of_nat (length l) = metro_kept burn thin sample.
Proof.
  unfold sample_metropolis_st, metro_kept.
  set (imax := metro_imax burn thin sample).
  destruct domain as [|lo [|hi [|? ?]]]; try discriminate.
  - destruct (draw s) as [[u s1]| | |]; try discriminate; cbn [rbind fst snd].
    destruct (gauss_of Ops u (n0 Ops) sigma) as [x0| | |]; try discriminate; cbn [rbind fst snd].
    intros H. apply metro_loop_st_count in H. rewrite H. simpl length. rewrite Z.sub_0_r. lia.
  - destruct (draw s) as [[u s1]| | |]; try discriminate; cbn [rbind fst snd].
    intros H. apply metro_loop_st_count in H. rewrite H. simpl length. rewrite Z.sub_0_r. lia.
Qed.

Theorem metropolis_st_count PDF sigma sample thin burn domain (s : st) l s' :
  1 <= thin -> 0 <= burn -> 0 <= sample -> burn + thin * sample < 4294967296 ->
  sample_metropolis_st Ops PDF sigma sample thin burn domain s = Ok (l, s') ->
  Z.of_nat (length l) = sample.
Proof.
  intros Ht Hb Hs Hov H. apply sample_metropolis_st_kept in H. rewrite H. now apply metro_kept_exact.
Qed.

Section Metro2St.
Variables (PDF : @sfun2 T A) (s1 s2 : T) (dom : option (T * T * T * T)) (burn thin imax : Z).

Lemma metro2_loop_st_count fuel : forall (s : st) i x acc l s',
  metro2_loop_st Ops fuel PDF s1 s2 dom burn thin imax s i x acc = Ok (l, s') ->
  Z.of_nat (length l) = Z.of_nat (length acc) + count_loop (Z.to_nat (imax - i)) burn thin i 0.
Proof.
  induction fuel as [|fuel IH]; intros s i x acc l s'; simpl metro2_loop_st;
    destruct (i <? imax) eqn:Hi.
  - discriminate.
  - apply Z.ltb_ge in Hi. replace (Z.to_nat (imax - i)) with O by lia.
    intros H; inversion H; subst. rewrite rev_length. simpl. lia.
  - apply Z.ltb_lt in Hi.
    destruct (draw s) as [[u1 t1]| | |]; try discriminate; cbn [rbind fst snd].
    destruct (gauss_of Ops u1 (fst x) s1) as [ca| | |]; try discriminate; cbn [rbind fst snd].
    destruct (draw t1) as [[u2 t2]| | |]; try discriminate; cbn [rbind fst snd].
    destruct (gauss_of Ops u2 (snd x) s2) as [cb| | |]; try discriminate; cbn [rbind fst snd].
    destruct (accept2_st Ops PDF dom x (ca, cb) t2) as [[a t3]| | |]; try discriminate; cbn [rbind fst snd].
    destruct (draw t3) as [[u3 t4]| | |]; try discriminate; cbn [rbind fst snd].
    intros H. apply IH in H. rewrite H. rewrite (to_nat_step imax i Hi). cbn [count_loop].
    destruct (metro_keep burn thin i).
    + rewrite (count_loop_acc _ burn thin (i + 1) (0 + 1)). simpl length. lia.
    + lia.
  - apply Z.ltb_ge in Hi. replace (Z.to_nat (imax - i)) with O by lia.
    intros H; inversion H; subst. rewrite rev_length. simpl. lia.
Qed.
End Metro2St.

Theorem sample_metropolis_2d_st_kept PDF s1 s2 sample thin burn domain (s : st) l s' :
  sample_metropolis_2d_st Ops PDF s1 s2 sample thin burn domain s = Ok (l, s') ->
  Z.of_nat (length l) = metro_kept burn thin sample.
Proof.
  unfold sample_metropolis_2d_st, metro_kept.
  set (imax := metro_imax burn thin sample).
  destruct domain as [|x0 [|x1 [|y0 [|y1 [|? ?]]]]]; try discriminate.
  - destruct (draw s) as [[u1 t1]| | |]; try discriminate; cbn [rbind fst snd].
    destruct (gauss_of Ops u1 (n0 Ops) s1) as [a| | |]; try discriminate; cbn [rbind fst snd].
    destruct (draw t1) as [[u2 t2]| | |]; try discriminate; cbn [rbind fst snd].
    destruct (gauss_of Ops u2 (n0 Ops) s2) as [b| | |]; try discriminate; cbn [rbind fst snd].
    intros H. apply metro2_loop_st_count in H. rewrite H. simpl length. rewrite Z.sub_0_r. lia.
  - destruct (draw s) as [[u1 t1]| | |]; try discriminate; cbn [rbind fst snd].
    destruct (draw t1) as [[u2 t2]| | |]; try discriminate; cbn [rbind fst snd].
    intros H. apply metro2_loop_st_count in H. rewrite H. simpl length. rewrite Z.sub_0_r. lia.
Qed.

Theorem metropolis_2d_st_count PDF s1 s2 sample thin burn domain (s : st) l s' :
  1 <= thin -> 0 <= burn -> 0 <= sample -> burn + thin * sample < 4294967296 ->
  sample_metropolis_2d_st Ops PDF s1 s2 sample thin burn domain s = Ok (l, s') ->
  Z.of_nat (length l) = sample.
Proof.
  intros Ht Hb Hs Hov H. apply sample_metropolis_2d_st_kept in H. rewrite H. now apply metro_kept_exact.
Qed.

(** ** a pure density: the stateful sampler is the sampler of section [Model]; the other component is untouched *)
Lemma accept1_st_pure PDF dom x cand (s : st) :
  accept1_st Ops (lift1 PDF) dom x cand s = Ok (accept1 Ops PDF dom x cand, s).
Proof.
  unfold accept1_st, inside1, accept1, lift1. destruct dom as [[lo hi]|]; simpl.
  - destruct (nltb Ops cand lo || ngtb Ops cand hi); reflexivity.
  - reflexivity.
Qed.

Lemma metro_loop_st_pure PDF sigma dom burn thin imax fuel : forall us (a : A) i x acc l r,
  (length us < fuel)%nat ->
  metro_loop Ops PDF sigma dom burn thin imax us i x acc = Ok (l, r) ->
  metro_loop_st Ops fuel (lift1 PDF) sigma dom burn thin imax (us, a) i x acc = Ok (l, (r, a)).
Proof.
  induction fuel as [|fuel IH]; intros us a i x acc l r Hlen; [lia|].
  destruct us as [|u1 [|u2 us']]; simpl metro_loop; simpl metro_loop_st; destruct (i <? imax); try discriminate;
    try (intros H; inversion H; subst; reflexivity).
  destruct (gauss_of Ops u1 x sigma) as [cand| | |]; try discriminate; cbn [rbind fst snd].
  rewrite accept1_st_pure. cbn [rbind fst snd]. cbn [fst snd].
  intros H. apply IH; [simpl in Hlen; lia|exact H].
Qed.

Theorem sample_metropolis_st_pure PDF sigma sample thin burn domain us (a : A) l r :
  sample_metropolis Ops PDF sigma sample thin burn domain us = Ok (l, r) ->
  sample_metropolis_st Ops (lift1 PDF) sigma sample thin burn domain (us, a) = Ok (l, (r, a)).
Proof.
  unfold sample_metropolis, sample_metropolis_st.
  destruct domain as [|lo [|hi [|? ?]]]; try discriminate.
  - destruct us as [|u us']; [discriminate|]. simpl draw. cbn [rbind fst snd]. cbn [fst snd].
    destruct (gauss_of Ops u (n0 Ops) sigma) as [x0| | |]; try discriminate; cbn [rbind fst snd].
    apply metro_loop_st_pure. simpl. lia.
  - destruct us as [|u us']; [discriminate|]. simpl draw. cbn [rbind fst snd]. cbn [fst snd].
    apply metro_loop_st_pure. simpl. lia.
Qed.

Lemma accept2_st_pure PDF dom x cand (s : st) :
  accept2_st Ops (lift2 PDF) dom x cand s = Ok (accept2 Ops PDF dom x cand, s).
Proof.
  unfold accept2_st, inside2, accept2, lift2. destruct dom as [[[[x0 x1] y0] y1]|]; simpl.
  - destruct (nltb Ops (fst cand) x0 || ngtb Ops (fst cand) x1 || nltb Ops (snd cand) y0 || ngtb Ops (snd cand) y1); reflexivity.
  - reflexivity.
Qed.

Lemma metro2_loop_st_pure PDF s1 s2 dom burn thin imax fuel : forall us (a : A) i x acc l r,
  (length us < fuel)%nat ->
  metro2_loop Ops PDF s1 s2 dom burn thin imax us i x acc = Ok (l, r) ->
  metro2_loop_st Ops fuel (lift2 PDF) s1 s2 dom burn thin imax (us, a) i x acc = Ok (l, (r, a)).
Proof.
  induction fuel as [|fuel IH]; intros us a i x acc l r Hlen; [lia|].
  destruct us as [|u1 [|u2 [|u3 us']]]; simpl metro2_loop; simpl metro2_loop_st; destruct (i <? imax); try discriminate;
    try (intros H; inversion H; subst; reflexivity).
  destruct (gauss_of Ops u1 (fst x) s1) as [ca| | |]; try discriminate; cbn [rbind fst snd].
  destruct (gauss_of Ops u2 (snd x) s2) as [cb| | |]; try discriminate; cbn [rbind fst snd].
  rewrite accept2_st_pure. cbn [rbind fst snd]. cbn [fst snd].
  intros H. apply IH; [simpl in Hlen; lia|exact H].
Qed.

Theorem sample_metropolis_2d_st_pure PDF s1 s2 sample thin burn domain us (a : A) l r :
  sample_metropolis_2d Ops PDF s1 s2 sample thin burn domain us = Ok (l, r) ->
  sample_metropolis_2d_st Ops (lift2 PDF) s1 s2 sample thin burn domain (us, a) = Ok (l, (r, a)).
Proof.
  unfold sample_metropolis_2d, sample_metropolis_2d_st.
  destruct domain as [|x0 [|x1 [|y0 [|y1 [|? ?]]]]]; try discriminate.
  - destruct us as [|u1 [|u2 us']]; try discriminate. simpl draw. cbn [rbind fst snd]. cbn [fst snd].
    destruct (gauss_of Ops u1 (n0 Ops) s1) as [a0| | |]; try discriminate; cbn [rbind fst snd].
    simpl draw. cbn [rbind fst snd].
    destruct (gauss_of Ops u2 (n0 Ops) s2) as [b0| | |]; try discriminate; cbn [rbind fst snd].
    apply metro2_loop_st_pure. simpl. lia.
  - destruct us as [|u1 [|u2 us']]; try discriminate. simpl draw. cbn [rbind fst snd]. cbn [fst snd].
    apply metro2_loop_st_pure. simpl. lia.
Qed.

(** ** Rejection_Sampling / Inverse_Transform_Sampling with a pure function *)
Lemma rejection_loop_st_pure PDF xMin xMax yMax fuel : forall us (a : A) count x r,
  (9999 - count <= Z.of_nat fuel) -> 0 <= count <= 9999 ->
  rejection_loop Ops PDF xMin xMax yMax us count = Ok (x, r) ->
  rejection_loop_st Ops fuel (lift1 PDF) xMin xMax yMax (us, a) count = Ok (x, (r, a)).
Proof.
  induction fuel as [|fuel IH]; intros us a count x r Hf Hc.
  - assert (count = 9999) by lia. subst count.
    destruct us as [|u1 [|u2 us']]; simpl; discriminate.
  - destruct us as [|u1 [|u2 us']]; simpl rejection_loop; simpl rejection_loop_st; rewrite exit_test;
      destruct (Z.eqb_spec ((count + 1) mod 10000) 0) as [E|E]; try discriminate.
    assert (Hc' : count + 1 <= 9999).
    { destruct (Z.eq_dec (count + 1) 10000) as [E1|E1]; [rewrite E1 in E; exfalso; apply E; reflexivity|lia]. }
    unfold lift1 at 1; cbn [rbind fst snd].
    destruct (nltb Ops (PDF (unif Ops u1 xMin xMax)) (n0 Ops) || nisnan Ops (PDF (unif Ops u1 xMin xMax))
              || nisnan Ops (nsub Ops (PDF (unif Ops u1 xMin xMax)) (PDF (unif Ops u1 xMin xMax)))); try discriminate.
    destruct (ngtb Ops (PDF (unif Ops u1 xMin xMax)) yMax &&
              ngtb Ops (relative_difference Ops (PDF (unif Ops u1 xMin xMax)) yMax) (ndec Ops 1 100)); try discriminate.
    destruct (nleb Ops (unif Ops u2 (n0 Ops) yMax) (PDF (unif Ops u1 xMin xMax))).
    + intros H; inversion H; subst; reflexivity.
    + intros H; apply IH; [lia|lia|exact H].
Qed.

Theorem rejection_sampling_st_pure PDF xMin xMax yMax us (a : A) x r :
  rejection_sampling Ops PDF xMin xMax yMax us = Ok (x, r) ->
  rejection_sampling_st Ops (lift1 PDF) xMin xMax yMax (us, a) = Ok (x, (r, a)).
Proof.
  unfold rejection_sampling, rejection_sampling_st. apply rejection_loop_st_pure; [|lia].
  rewrite Z2Nat.id; lia.
Qed.
End GenericSt.
