From Coq Require Import Extraction ExtrOcamlBasic ZArith List String.
From LP Require Import Num C13_Model C13_Model2.
Extraction Language OCaml.
Extraction "C13_m.ml" parse_method gl_rule gl_integrate gl_sum_rows gl_fun_rows gl_rows integrate_eps find_epsilon integrate_named reentrant_integrand integrate_reentrant
  integrate_2d integrate_3d integrate_3d_spherical run_call run_session run_process mc_region_2d mc_region_3d mc_ncalls boost_gauss30 boost_trapezoidal with_modelled_backends Z.of_nat Z.to_nat.
