(** * C05 model, second part: Matrix::Inverse() (src/Linear_Algebra.cpp:680-751) statement by statement.
    C05_Model.v describes every loop nest of Inverse() by the table it leaves behind ([tab2] of a closed expression per
    entry).  Here the same loop nests are written as the code writes them: the work array  Matrix A(N, 2.0 * N, 0.0)  is
    created filled with 0.0 and then CHANGED IN PLACE, one assignment  A[i][j] = ...  after the other in the order of the
    loops; the row exchange is std::swap of two rows; the first N columns are removed by N calls of Delete_Column(0)
    (C04_Model.delete_column).  [inverse_lbl] is extracted and is the term whose result is compared with the library for
    every request 'inverse'; the driver also checks on every case that it agrees with [inverse], and
    C05_Proofs_Lbl.v proves  inverse_lbl = inverse  for every arithmetic and every size.
    Indices: every row index used below is a loop variable bounded by N = A.Rows(), every column index is bounded by
    2N = A.Columns(); the test  i >= rows  of the non-const Matrix::operator[] can therefore not fire and is not
    represented (a write outside the table would leave it unchanged: [upd]). *)
From Coq Require Import ZArith List Bool Arith.
From LP Require Import Num C04_Model C05_Model.
Import ListNotations.

(** v[k] = x  (std::vector<..>::operator[] as an lvalue) *)
Fixpoint upd {A} (l : list A) (k : nat) (x : A) : list A :=
  match l, k with
  | [], _ => []
  | _ :: r, O => x :: r
  | y :: r, S k' => y :: upd r k' x
  end.

Section Model2.
Context {T : Type} (Ops : NumOps T).
Declare Scope num_scope.
Local Notation "x - y" := (nsub Ops x y) : num_scope.
Local Notation "x * y" := (nmul Ops x y) : num_scope.
Local Notation "x / y" := (ndiv Ops x y) : num_scope.
Delimit Scope num_scope with num.
Local Notation zero := (n0 Ops).
Local Notation one := (n1 Ops).
Local Open Scope res_scope.

(** A[i][j] = x *)
Definition wr (A : list (list T)) (i j : nat) (x : T) : list (list T) := upd A i (upd (nth i A []) j x).

(** Matrix A(N, 2.0 * N, 0.0);
    for i < N: for j < N: { A[i][j] = components[i][j]; if(i == j) A[i][j + N] = 1.0; else A[i][j + N] = 0.0; } *)
Definition augment_lbl (M : mat T) : list (list T) :=
  let N := mrows M in
  fold_left (fun A i =>
    fold_left (fun A j =>
      let A1 := wr A i j (ment Ops M i j) in
      if i =? j then wr A1 i (j + N) one else wr A1 i (j + N) zero)
      (seq 0 N) A)
    (seq 0 N) (mcomps (mat_fill N (2 * N) zero)).

(** std::swap(A[i], A[i_pivot]) *)
Definition swap_lbl (A : list (list T)) (i p : nat) : list (list T) :=
  upd (upd A i (nth p A [])) p (nth i A []).

(** for j < N: if(i != j) { double ratio = A[j][i] / A[i][i]; for k < A.Columns(): A[j][k] = A[j][k] - ratio * A[i][k]; } *)
Definition eliminate_lbl (N : nat) (A : list (list T)) (i : nat) : list (list T) :=
  fold_left (fun A j =>
    if negb (i =? j) then
      let ratio := (tent Ops A j i / tent Ops A i i)%num in
      fold_left (fun A k => wr A j k (tent Ops A j k - ratio * tent Ops A i k)%num) (seq 0 (2 * N)) A
    else A)
    (seq 0 N) A.

(** one pass of the elimination loop: pivot search (C05_Model.pivot_row is already the loop of the code), row exchange,
    zero test with its diagnostic, elimination *)
Definition gj_step_lbl (N : nat) (A : list (list T)) (i : nat) : res (list (list T)) :=
  let p := pivot_row Ops N A i in
  let A1 := if negb (p =? i) then swap_lbl A i p else A in
  if neqb Ops (tent Ops A1 i i) zero then Exit      (* "Matrix is singular." *)
  else Ok (eliminate_lbl N A1 i).
Definition gauss_jordan_lbl (N : nat) (A : list (list T)) : res (list (list T)) :=
  fold_left (fun acc i => let* A := acc in gj_step_lbl N A i) (seq 0 N) (Ok A).

(** for i < N: for j = N .. 2N-1: A[i][j] = A[i][j] / A[i][i]; *)
Definition scale_lbl (N : nat) (A : list (list T)) : list (list T) :=
  fold_left (fun A i =>
    fold_left (fun A j => wr A i j (tent Ops A i j / tent Ops A i i)%num) (seq N N) A)
    (seq 0 N) A.

(** for i < N: A.Delete_Column(0); *)
Definition strip_lbl (N : nat) (A : mat T) : res (mat T) :=
  fold_left (fun acc _ => let* A := acc in delete_column A 0) (seq 0 N) (Ok A).

Definition inverse_lbl (M : mat T) : res (mat T) :=
  if negb (square M) then Exit
  else
    let* inv := invertible Ops M in
    if negb inv then Exit
    else
      let N := mrows M in
      let* A := gauss_jordan_lbl N (augment_lbl M) in
      strip_lbl N (mkMat N (2 * N) (scale_lbl N A)).
End Model2.
