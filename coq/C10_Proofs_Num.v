(** * C10 proofs, part 2: guards that compare or compute with numbers.
    Section [Abstract]: only the comparison operations of an arbitrary [NumOps] are used (with [OrdLaws] where an
    order law is needed), so the statements hold verbatim for IEEE doubles without NaN.
    Section [Reals]: the statements that need arithmetic (1 % tolerance, products, literals) are over [ROps]. *)
From Coq Require Import ZArith String List Bool Lia Reals Lra.
From LP Require Import Num NumR OrdLaws C10_Model C10_Proofs.
Import ListNotations.
Local Open Scope Z_scope.

Lemma bind_ok {B} (g1 : res unit) (g2 : res B) : g1 = Ok tt -> rbind g1 (fun _ => g2) = g2.
Proof. intros ->; reflexivity. Qed.

Lemma bounded_forall_dec (Q : Z -> Prop) lo hi : (forall i, lo <= i < hi -> Q i \/ ~ Q i) ->
  (forall i, lo <= i < hi -> Q i) \/ ~ (forall i, lo <= i < hi -> Q i).
Proof.
  intros Hd. destruct (Z.le_gt_cases hi lo) as [Hle|Hgt]; [left; intros; lia|].
  remember (Z.to_nat (hi - lo)) as n eqn:En. revert hi Hd Hgt En. induction n as [|n IH]; intros hi Hd Hgt En; [lia|].
  destruct (Z.eq_dec hi (lo + 1)) as [->|Hne].
  - destruct (Hd lo ltac:(lia)) as [q|nq]; [left; intros i Hi; replace i with lo by lia; assumption|right; intros H; apply nq, H; lia].
  - destruct (IH (hi - 1)) as [A|A]; try lia.
    + intros; apply Hd; lia.
    + destruct (Hd (hi - 1) ltac:(lia)) as [q|nq].
      * left; intros i Hi. destruct (Z.eq_dec i (hi - 1)) as [->|]; [assumption|apply A; lia].
      * right; intros H; apply nq, H; lia.
    + right; intros H; apply A; intros; apply H; lia.
Qed.

Section Abstract.
Context {T : Type} (Ops : NumOps T).
Definition xv (xs : list T) (i : Z) : T := nth (Z.to_nat i) xs (n0 Ops).
Definition increasing (xs : list T) : Prop := forall i, 1 <= i < zlen xs -> nltb Ops (xv xs (i - 1)) (xv xs i) = true.

Lemma getZ_xv xs i : 0 <= i < zlen xs -> getZ xs i = Ok (xv xs i).
Proof. intros; unfold xv. now apply getZ_nth. Qed.

Lemma increasing_dec xs : increasing xs \/ ~ increasing xs.
Proof.
  apply bounded_forall_dec. intros i _. destruct (nltb Ops (xv xs (i - 1)) (xv xs i)); [left; reflexivity|right; discriminate].
Qed.

Lemma steffen_indices_ok N : 2 <= N < 4294967296 -> steffen_indices N = Ok tt.
Proof.
  intros H. unfold steffen_indices. rewrite !(u32_id (N - 1)) by lia.
  rewrite bind_ok by (apply for_range_ok; intros i Hi; idx; reflexivity).
  rewrite bind_ok; [loops|].
  apply for_range_ok; intros i Hi. idx.
  destruct (Z.eqb_spec N 2); [idx; reflexivity|].
  destruct (Z.eqb_spec i 0); [subst; idx; reflexivity|].
  destruct (Z.eqb_spec i (N - 1)); [rewrite !u32_id by lia; idx; reflexivity|].
  rewrite u32_id by lia. idx. reflexivity.
Qed.

(** Interpolation(x, f): equal lengths, at least two points, strictly increasing abscissae *)
Lemma interpolation_spec (L : OrdLaws Ops) xs nf : zlen xs < 4294967296 ->
  decides (guard_interpolation Ops xs nf) (zlen xs = nf /\ 2 <= zlen xs /\ increasing xs).
Proof.
  intros Hlen. unfold guard_interpolation. set (N := zlen xs) in *.
  destruct (Z.eqb_spec N nf) as [E|E]; cbn [negb]; [|split; [tauto|reflexivity]].
  destruct (Z.ltb_spec N 2) as [L2|L2]; [split; [lia|reflexivity]|].
  eapply decides_iff with (P := increasing xs /\ True); [tauto|].
  apply decides_bind; [apply increasing_dec| |].
  - apply for_range_decides.
    + intros i Hi. rewrite !getZ_xv by (fold N; lia). cbn [rbind].
      eapply decides_iff; [|apply decides_exit_if]. rewrite (ol_le _ L).
      destruct (nltb Ops (xv xs (i - 1)) (xv xs i)); cbn; split; congruence.
    + intros i _. destruct (nltb Ops (xv xs (i - 1)) (xv xs i)); [left; reflexivity|right; discriminate].
  - intros _. apply decides_true. rewrite u32_id by lia. idx. apply steffen_indices_ok; lia.
Qed.

(** Interpolation(data): every row holds exactly two numbers, then as above on the first column *)
Lemma interpolation_table_spec (L : OrdLaws Ops) (data : list (list T)) : zlen data < 4294967296 ->
  let xs := map (fun row => nth 0 row (n0 Ops)) data in
  decides (guard_interpolation_table Ops data)
    ((forall i, 0 <= i < zlen data -> zlen (nth (Z.to_nat i) data []) = 2) /\ 2 <= zlen data /\ increasing xs).
Proof.
  intros Hlen xs. unfold guard_interpolation_table. fold xs.
  assert (Hx : zlen xs = zlen data) by (unfold xs, zlen; now rewrite map_length).
  apply decides_bind.
  - apply bounded_forall_dec. intros i _. destruct (Z.eq_dec (zlen (nth (Z.to_nat i) data [])) 2); tauto.
  - apply for_range_decides.
    + intros i Hi. rewrite (getZ_nth data i []) by lia. cbn [rbind]. set (row := nth (Z.to_nat i) data []).
      destruct (Z.eqb_spec (zlen row) 2) as [E|E]; cbn [negb]; [|split; [tauto|reflexivity]].
      split; [intros _|tauto]. rewrite E. reflexivity.
    + intros i _. destruct (Z.eq_dec (zlen (nth (Z.to_nat i) data [])) 2); tauto.
  - intros _. eapply decides_iff; [|apply (interpolation_spec L xs (zlen data)); lia]. rewrite Hx. tauto.
Qed.

(** Bisection stays inside [jl, jr) and terminates within the fuel *)
Lemma bisection_range fuel xs x jl jr :
  0 <= jl -> jl < jr -> jr <= zlen xs - 1 -> jr - jl <= Z.of_nat fuel + 1 ->
  exists j, bisection Ops fuel xs x jl jr = Ok j /\ jl <= j < jr.
Proof.
  revert jl jr; induction fuel as [|f IH]; intros jl jr H0 H1 H2 H3.
  - cbn [bisection]. destruct (Z.gtb_spec (jr - jl) 1); [lia|]. exists jl; split; [reflexivity|lia].
  - cbn [bisection]. destruct (Z.gtb_spec (jr - jl) 1) as [G|G]; [|exists jl; split; [reflexivity|lia]].
    rewrite Z.shiftr_div_pow2 by lia. change (2 ^ 1) with 2.
    assert (jl < (jr + jl) / 2 < jr) by (pose proof (Z.div_mod (jr + jl) 2 ltac:(lia)); pose proof (Z.mod_pos_bound (jr + jl) 2 ltac:(lia)); lia).
    rewrite getZ_xv by lia. cbn [rbind].
    destruct (ngeb Ops x (xv xs ((jr + jl) / 2))).
    + destruct (IH ((jr + jl) / 2) jr) as (j & E & Hj); try lia. exists j; split; [exact E|lia].
    + destruct (IH jl ((jr + jl) / 2)) as (j & E & Hj); try lia. exists j; split; [exact E|lia].
Qed.

(** Locate(x): an accepted argument yields a segment index j <= N-2, so a[j] and x_values[j+1] exist *)
Definition out_of_domain xs x : bool := nltb Ops x (xv xs 0) || nltb Ops (xv xs (zlen xs - 1)) x.
Definition within_left xs x : bool :=
  nltb Ops (nabs Ops (nsub Ops x (xv xs 0))) (nmul Ops (ndec Ops 1 100) (nsub Ops (xv xs 1) (xv xs 0))).
Definition within_right xs x : bool :=
  nltb Ops (nabs Ops (nsub Ops x (xv xs (zlen xs - 1))))
           (nmul Ops (ndec Ops 1 100) (nsub Ops (xv xs (zlen xs - 1)) (xv xs (zlen xs - 2)))).

Lemma locate_cases xs x : 2 <= zlen xs < 4294967296 ->
  (locate Ops xs x = Exit /\
   (nisnan Ops x = true \/ (out_of_domain xs x = true /\ within_left xs x = false /\ within_right xs x = false))) \/
  (exists j, locate Ops xs x = Ok j /\ 0 <= j <= zlen xs - 2 /\ nisnan Ops x = false /\
             (out_of_domain xs x = false \/ within_left xs x = true \/ within_right xs x = true)).
Proof.
  intros HN. unfold locate. set (N := zlen xs) in *.
  destruct (nisnan Ops x); [left; split; [reflexivity|left; reflexivity]|].
  rewrite !(u32_id (N - 1)), !(u32_id (N - 2)) by lia.
  rewrite !getZ_xv by (fold N; lia). cbn [rbind].
  unfold out_of_domain, within_left, within_right. fold N.
  destruct (nltb Ops x (xv xs 0) || nltb Ops (xv xs (N - 1)) x) eqn:Eo.
  - destruct (nltb Ops (nabs Ops (nsub Ops x (xv xs 0))) _) eqn:El.
    + right. exists 0. split; [reflexivity|]. split; [lia|]. split; [reflexivity|]. right; left; reflexivity.
    + destruct (nltb Ops (nabs Ops (nsub Ops x (xv xs (N - 1)))) _) eqn:Er.
      * right. exists (N - 2). split; [reflexivity|]. split; [lia|]. split; [reflexivity|]. right; right; reflexivity.
      * left. split; [reflexivity|]. right. repeat split; reflexivity.
  - right. destruct (bisection_range (Z.to_nat N) xs x 0 (N - 1)) as (j & E & Hj); try (fold N; lia).
    rewrite E. cbn [rbind]. destruct (Z.ltb_spec j (N - 2)).
    + rewrite getZ_xv by (fold N; lia). cbn [rbind].
      destruct (neqb Ops x (xv xs (j + 1))); [exists (j + 1)|exists j]; (split; [reflexivity|]; split; [lia|]; split; [reflexivity|]; left; reflexivity).
    + exists j. split; [reflexivity|]. split; [lia|]. split; [reflexivity|]. left; reflexivity.
Qed.
Lemma locate_range xs x : 2 <= zlen xs < 4294967296 ->
  locate Ops xs x = Exit \/ exists j, locate Ops xs x = Ok j /\ 0 <= j <= zlen xs - 2.
Proof. intros H. destruct (locate_cases xs x H) as [(E & _)|(j & E & Hj & _)]; [left; exact E|right; exists j; auto]. Qed.
Lemma locate_exit_iff xs x : 2 <= zlen xs < 4294967296 ->
  (locate Ops xs x = Exit <->
   nisnan Ops x = true \/ (out_of_domain xs x = true /\ within_left xs x = false /\ within_right xs x = false)).
Proof.
  intros H. destruct (locate_cases xs x H) as [(E & A)|(j & E & Hj & Hn & A)]; rewrite E; split; intros Hyp; try tauto; try discriminate.
  destruct Hyp as [Hyp|(B1 & B2 & B3)]; [congruence|]. destruct A as [A|[A|A]]; congruence.
Qed.
Lemma locate_nan xs x : nisnan Ops x = true -> locate Ops xs x = Exit.
Proof. intros H. unfold locate. now rewrite H. Qed.

(** Interpolate(x), Integrate(x1,x2), Local_Minimum/Maximum(x1,x2): no out-of-bounds access, and they exit
    exactly when Locate does (or the arguments of Local_* come in the wrong order) *)
Lemma interpolate_spec xs x : 2 <= zlen xs < 4294967296 ->
  (locate Ops xs x = Exit /\ guard_interpolate Ops xs x = Exit) \/ (locate Ops xs x <> Exit /\ guard_interpolate Ops xs x = Ok tt).
Proof.
  intros H. unfold guard_interpolate. destruct (locate_range xs x H) as [E|(j & E & Hj)]; rewrite E; cbn [rbind].
  - left; auto.
  - right. split; [discriminate|]. rewrite u32_id by lia. idx. reflexivity.
Qed.
Lemma interp_integrate_spec xs x1 x2 : 2 <= zlen xs < 4294967296 ->
  let a := if nltb Ops x2 x1 then x2 else x1 in
  let b := if nltb Ops x2 x1 then x1 else x2 in
  ((locate Ops xs a = Exit \/ locate Ops xs b = Exit) /\ guard_interp_integrate Ops xs x1 x2 = Exit) \/
  (locate Ops xs a <> Exit /\ locate Ops xs b <> Exit /\ guard_interp_integrate Ops xs x1 x2 = Ok tt).
Proof.
  intros H a b. unfold guard_interp_integrate. fold a b.
  destruct (locate_range xs a H) as [Ea|(i1 & Ea & H1)]; rewrite Ea; cbn [rbind]; [left; auto|].
  destruct (locate_range xs b H) as [Eb|(i2 & Eb & H2)]; rewrite Eb; cbn [rbind]; [left; auto|].
  right. split; [discriminate|]. split; [discriminate|]. rewrite u32_id by lia.
  apply for_range_ok; intros i Hi. idx. destruct (Z.eqb_spec i (i2 - i1)); cbn [rbind]; idx; reflexivity.
Qed.
Lemma local_extremum_spec xs x1 x2 : 2 <= zlen xs < 4294967296 ->
  ((nltb Ops x2 x1 = true \/ locate Ops xs x1 = Exit \/ locate Ops xs x2 = Exit) /\ guard_local_extremum Ops xs x1 x2 = Exit) \/
  (nltb Ops x2 x1 = false /\ locate Ops xs x1 <> Exit /\ locate Ops xs x2 <> Exit /\ guard_local_extremum Ops xs x1 x2 = Ok tt).
Proof.
  intros H. unfold guard_local_extremum. destruct (nltb Ops x2 x1); [left; auto|].
  destruct (interpolate_spec xs x1 H) as [(E1 & G1)|(E1 & G1)]; rewrite G1; cbn [rbind]; [left; auto|].
  destruct (interpolate_spec xs x2 H) as [(E2 & G2)|(E2 & G2)]; rewrite G2; cbn [rbind]; [left; auto|].
  destruct (locate_range xs x1 H) as [Ea|(i1 & Ea & H1)]; [contradiction|].
  destruct (locate_range xs x2 H) as [Eb|(i2 & Eb & H2)]; [contradiction|].
  rewrite Ea, Eb; cbn [rbind]. right. split; [reflexivity|]. split; [discriminate|]. split; [discriminate|].
  apply for_range_ok; intros i Hi. idx. reflexivity.
Qed.

(** Interpolation_2D(x, y, table): the table must be (number of x) x (number of y); both grids valid *)
Lemma shape_loop lens Ny fuel lo acc : 0 <= lo -> lo + Z.of_nat fuel <= zlen lens ->
  exists b, forb_ fuel lo acc (fun i acc => if acc then rbind (getZ lens i) (fun l => Ok (l =? Ny)) else Ok false) = Ok b /\
            (b = true <-> acc = true /\ forall i, lo <= i < lo + Z.of_nat fuel -> nth (Z.to_nat i) lens 0 = Ny).
Proof.
  revert lo acc; induction fuel as [|f IH]; intros lo acc H0 H1.
  - exists acc; split; [reflexivity|]. split; [intros; split; [assumption|intros; lia]|tauto].
  - cbn [forb_]. destruct acc.
    + rewrite (getZ_nth lens lo 0) by lia. cbn [rbind].
      destruct (IH (lo + 1) (nth (Z.to_nat lo) lens 0 =? Ny)) as (b & E & Hb); try lia.
      exists b; split; [exact E|]. rewrite Hb. rewrite Z.eqb_eq. split.
      * intros [A B]; split; [reflexivity|]. intros i Hi. destruct (Z.eq_dec i lo) as [->|]; [assumption|apply B; lia].
      * intros [_ B]; split; [apply B; lia|intros; apply B; lia].
    + cbn [rbind]. destruct (IH (lo + 1) false) as (b & E & Hb); try lia.
      exists b; split; [exact E|]. rewrite Hb. split; intros [A _]; discriminate.
Qed.
Lemma interpolation_2d_spec (L : OrdLaws Ops) xs ys lens : zlen xs < 4294967296 -> zlen ys < 4294967296 ->
  decides (guard_interpolation_2d Ops xs ys lens)
    ((zlen lens = zlen xs /\ forall i, 0 <= i < zlen lens -> nth (Z.to_nat i) lens 0 = zlen ys) /\
     (2 <= zlen xs /\ increasing xs) /\ (2 <= zlen ys /\ increasing ys)).
Proof.
  intros Hx Hy. unfold guard_interpolation_2d.
  destruct (Z.eqb_spec (zlen lens) (zlen xs)) as [E|E].
  - destruct (shape_loop lens (zlen ys) (Z.to_nat (zlen xs - 0)) 0 true) as (b & Eb & Hb); try (unfold zlen in *; lia).
    unfold forb_range. rewrite Eb. cbn [rbind].
    assert (Hb' : b = true <-> forall i, 0 <= i < zlen lens -> nth (Z.to_nat i) lens 0 = zlen ys).
    { rewrite Hb. split; [intros [_ A] i Hi; apply A; unfold zlen in *; lia|intros A; split; [reflexivity|intros i Hi; apply A; unfold zlen in *; lia]]. }
    destruct b; cbn [negb].
    + assert (Hs : forall i, 0 <= i < zlen lens -> nth (Z.to_nat i) lens 0 = zlen ys) by (now apply Hb').
      eapply decides_iff with (P := (zlen xs = zlen xs /\ 2 <= zlen xs /\ increasing xs) /\ (zlen ys = zlen ys /\ 2 <= zlen ys /\ increasing ys)); [tauto|].
      apply decides_bind; [|apply (interpolation_spec L); lia|intros _; apply (interpolation_spec L); lia].
      destruct (increasing_dec xs); destruct (Z.le_gt_cases 2 (zlen xs)); try tauto; right; intros (_ & ? & ?); try tauto; lia.
    + split; [|reflexivity]. intros ((_ & A) & _). apply Hb' in A. discriminate.
  - cbn [rbind negb]. split; [tauto|reflexivity].
Qed.
Lemma interpolate_2d_safe xs ys x y : 2 <= zlen xs < 4294967296 -> 2 <= zlen ys < 4294967296 ->
  guard_interpolate_2d Ops xs ys x y = Exit \/ guard_interpolate_2d Ops xs ys x y = Ok tt.
Proof.
  intros Hx Hy. unfold guard_interpolate_2d.
  destruct (locate_range xs x Hx) as [E|(i & E & Hi)]; rewrite E; cbn [rbind]; [left; reflexivity|].
  destruct (locate_range ys y Hy) as [E'|(j & E' & Hj)]; rewrite E'; cbn [rbind]; [left; reflexivity|].
  right. idx. reflexivity.
Qed.
(** Interpolation_2D(data_table): rows must hold exactly three numbers (the remaining tests of this
    constructor are covered by the correspondence run only) *)
Lemma interpolation_2d_table_row_guard (data : list (list T)) k :
  0 <= k < zlen data -> zlen (nth (Z.to_nat k) data []) <> 3 ->
  (forall i, 0 <= i < k -> zlen (nth (Z.to_nat i) data []) = 3) ->
  guard_interpolation_2d_table Ops data = Exit.
Proof.
  intros Hk Hbad Hpre. unfold guard_interpolation_2d_table.
  assert (D : decides (for_range 0 (zlen data) (fun i => rbind (getZ data i) (fun row =>
              if negb (zlen row =? 3) then Exit else rbind (at_ (zlen row) 0) (fun _ => at_ (zlen row) 1))))
            (forall i, 0 <= i < zlen data -> zlen (nth (Z.to_nat i) data []) = 3)).
  { apply for_range_decides.
    - intros i Hi. rewrite (getZ_nth data i []) by lia. cbn [rbind]. set (row := nth (Z.to_nat i) data []).
      destruct (Z.eqb_spec (zlen row) 3) as [E|E]; cbn [negb]; [|split; [tauto|reflexivity]].
      split; [intros _|tauto]. rewrite E. reflexivity.
    - intros i _. destruct (Z.eq_dec (zlen (nth (Z.to_nat i) data [])) 3); tauto. }
  destruct D as [_ D2]. rewrite D2; [reflexivity|]. intros H. apply Hbad, H, Hk.
Qed.

(** Locate_Closest_Location: an empty or unsorted list exits; otherwise the index is inside the list *)
Lemma upper_bound_range l t : 0 <= upper_bound Ops l t <= zlen l.
Proof.
  induction l as [|a l IH]; cbn [upper_bound]; [unfold zlen; cbn; lia|].
  unfold zlen in *; cbn [length]. destruct (nltb Ops t a); lia.
Qed.
Lemma closest_spec l t : zlen l < 4294967296 ->
  (zlen l = 0 -> closest_location Ops l t = Exit) /\
  (is_sorted Ops l = false -> closest_location Ops l t = Exit) /\
  (0 < zlen l -> is_sorted Ops l = true -> exists j, closest_location Ops l t = Ok j /\ 0 <= j < zlen l).
Proof.
  intros Hl. unfold closest_location. pose proof (upper_bound_range l t) as Hu.
  split; [intros ->; reflexivity|]. split.
  - intros ->. destruct (zlen l =? 0); reflexivity.
  - intros Hn ->. destruct (Z.eqb_spec (zlen l) 0); [lia|]. cbn [negb].
    destruct (Z.eqb_spec (upper_bound Ops l t) (zlen l)) as [E|E].
    + exists (zlen l - 1). rewrite u32_id by lia. split; [reflexivity|lia].
    + destruct (Z.eqb_spec (upper_bound Ops l t) 0) as [E0|E0]; [exists 0; split; [reflexivity|lia]|].
      rewrite !(getZ_nth l _ (n0 Ops)) by lia. cbn [rbind].
      destruct (nltb Ops _ _); [exists (upper_bound Ops l t - 1); rewrite u32_id by lia|exists (upper_bound Ops l t)]; split; try reflexivity; lia.
Qed.
Lemma is_sorted_iff l : is_sorted Ops l = true <-> forall i, 0 <= i < zlen l - 1 -> nltb Ops (xv l (i + 1)) (xv l i) = false.
Proof.
  induction l as [|a l IH]; [split; [intros _ i Hi; unfold zlen in Hi; cbn in Hi; lia|reflexivity]|].
  destruct l as [|b l]; [split; [intros _ i Hi; unfold zlen in Hi; cbn in Hi; lia|reflexivity]|].
  change (is_sorted Ops (a :: b :: l)) with (if nltb Ops b a then false else is_sorted Ops (b :: l)).
  assert (Hz : zlen (a :: b :: l) = zlen (b :: l) + 1) by (unfold zlen; cbn [length]; lia).
  assert (Hs : forall i, 0 <= i -> xv (a :: b :: l) (i + 1) = xv (b :: l) i).
  { intros i Hi. unfold xv. replace (Z.to_nat (i + 1)) with (S (Z.to_nat i)) by lia. reflexivity. }
  split.
  - intros H i Hi. destruct (nltb Ops b a) eqn:Eb; [discriminate|].
    destruct (Z.eq_dec i 0) as [->|]; [exact Eb|].
    replace i with ((i - 1) + 1) by lia. rewrite (Hs (i - 1 + 1)), (Hs (i - 1)) by lia. apply IH; [exact H|lia].
  - intros H. pose proof (H 0 ltac:(unfold zlen in *; cbn [length] in *; lia)) as H0. change (nltb Ops b a = false) in H0. rewrite H0.
    apply IH. intros i Hi. rewrite <- (Hs (i + 1)), <- (Hs i) by lia. apply H. lia.
Qed.

(** Find_Root: a NaN at either end of the bracket exits *)
Lemma find_root_nan f a b : nisnan Ops (f a) = true \/ nisnan Ops (f b) = true -> guard_find_root Ops f a b = Exit.
Proof.
  intros H. unfold guard_find_root. destruct (nltb Ops b a).
  - destruct H as [H|H]; rewrite H; [rewrite orb_true_r|]; reflexivity.
  - destruct H as [H|H]; rewrite H; [|rewrite orb_true_r]; reflexivity.
Qed.
(** Round(N, digits) *)
Lemma round_spec N digits : decides (guard_round Ops N digits) (digits <= 7).
Proof.
  unfold guard_round. destruct (Z.gtb_spec digits 7); [split; [lia|reflexivity]|].
  split; [intros _|lia]. destruct (neqb Ops N (n0 Ops)); reflexivity.
Qed.
End Abstract.

(** ** Over the reals *)
Section Reals.
Local Open Scope R_scope.
Local Notation RO := ROps.

Ltac rb :=
  repeat match goal with
  | |- context [Rltb ?x ?y] => destruct (Rltb_spec x y)
  | |- context [Rleb ?x ?y] => destruct (Rleb_spec x y)
  | |- context [Reqb ?x ?y] => destruct (Reqb_spec x y)
  end.

Lemma gammaln_spec x : decides (guard_gammaln RO x) (0 < x).
Proof. unfold guard_gammaln; cbn. rb; cbn; split; intros; try reflexivity; lra. Qed.
Lemma positive_parameter_spec a : decides (guard_positive_parameter RO a) (0 < a).
Proof. exact (gammaln_spec a). Qed.
Lemma gammaq_spec x a : decides (guard_gammaq RO x a) (0 <= x /\ 0 < a).
Proof.
  unfold guard_gammaq, guard_gammaln; cbn. rb; cbn; split; intros; try reflexivity; lra.
Qed.
Lemma inv_gammap_spec p a : decides (guard_inv_gammap RO p a) (0 < a).
Proof.
  unfold guard_inv_gammap, guard_gammaln, ngeb; cbn. rb; cbn; split; intros; try reflexivity; lra.
Qed.
Lemma gammaln_Z_ok k : (0 <= k)%Z -> guard_gammaln RO (nadd RO (nofZ RO k) (n1 RO)) = Ok tt.
Proof. intros H. apply gammaln_spec. cbn. apply IZR_le in H. lra. Qed.
(** Binomial_Coefficient(n, k): negative arguments exit; otherwise none of the GammaLn / Factorial calls it makes exits *)
Lemma binomial_coefficient_spec memo n k : decides (guard_binomial_coefficient RO memo n k) (0 <= n /\ 0 <= k)%Z.
Proof.
  unfold guard_binomial_coefficient. destruct (Z.ltb_spec k 0), (Z.ltb_spec n 0); cbn [orb]; try (split; [lia|reflexivity]).
  split; [intros _|lia]. destruct (Z.ltb_spec n k); [reflexivity|].
  destruct (Z.gtb_spec n 170).
  - rewrite !gammaln_Z_ok by lia. reflexivity.
  - rewrite !bind_ok; apply factorial_spec; lia.
Qed.
Lemma i32_id z : (0 <= z < 2147483648)%Z -> i32 z = z.
Proof. intros H. unfold i32. rewrite Z.mod_small by lia. destruct (Z.ltb_spec z 2147483648); lia. Qed.
Lemma pmf_binomial_spec memo trials p x : (0 <= trials < 2147483648)%Z -> (0 <= x < 2147483648)%Z ->
  decides (guard_pmf_binomial RO memo trials p x) (0 <= p <= 1).
Proof.
  intros Ht Hx. unfold guard_pmf_binomial; cbn. rewrite !i32_id by lia.
  rb; cbn [orb]; try (split; [lra|reflexivity]).
  split; [intros _|lra]. apply binomial_coefficient_spec; lia.
Qed.
Lemma cdf_binomial_spec memo trials p x : (0 <= trials < 2147483648)%Z -> (0 <= x < 2147483647)%Z ->
  decides (guard_cdf_binomial RO memo trials p x) (0 <= p <= 1).
Proof.
  intros Ht Hx. unfold guard_cdf_binomial. cbn [nltb n0 n1 ROps].
  rb; cbn [orb]; try (split; [lra|reflexivity]).
  split; [intros _|lra]. apply for_range_ok; intros i Hi. apply pmf_binomial_spec; [lia|lia|lra].
Qed.
Lemma pmf_poisson_spec mu k : (0 <= k)%Z -> decides (guard_pmf_poisson RO mu k) (0 <= mu).
Proof.
  intros Hk. unfold guard_pmf_poisson; cbn. destruct (Z.ltb_spec k 0); [lia|]. rb; cbn; split; intros; try reflexivity; lra.
Qed.
Lemma cdf_poisson_spec mu k : (0 <= k < 4294967295)%Z -> decides (guard_cdf_poisson RO mu k) (0 <= mu).
Proof.
  intros Hk. unfold guard_cdf_poisson. cbn [nltb n0 ROps]. destruct (Z.ltb_spec k 0); [lia|]. rewrite u32_id by lia.
  rb; cbn [orb]; [split; [lra|reflexivity]|]. split; [intros _|lra].
  apply gammaq_spec. cbn. split; [lra|]. apply IZR_lt. lia.
Qed.
Lemma inv_cdf_poisson_spec k c : (0 <= k < 4294967295)%Z -> decides (guard_inv_cdf_poisson RO k c) (0 <= c <= 1).
Proof.
  intros Hk. unfold guard_inv_cdf_poisson. cbn [nltb n0 n1 ROps]. rewrite u32_id by lia.
  rb; cbn [orb]; try (split; [lra|reflexivity]).
  split; [intros _|lra]. destruct (Z.eqb_spec k 0); [reflexivity|].
  apply inv_gammap_spec. cbn. apply IZR_lt. lia.
Qed.

(** Find_Root: the bracket is accepted iff the end values have opposite signs or one of them is zero
    (the source tests Sign(fLeft) * Sign(fRight) >= 0, which is fLeft * fRight >= 0 without forming the product) *)
Lemma sign_prod_geb_R a b : (sign1 RO a * sign1 RO b >=? 0)%Z = Rleb 0 (a * b).
Proof.
  unfold sign1, ngtb. cbn [nltb neqb n0 ROps].
  destruct (Rltb_spec 0 a); destruct (Rltb_spec 0 b); destruct (Reqb_spec a 0); destruct (Reqb_spec b 0);
    cbn; destruct (Rleb_spec 0 (a * b)); try reflexivity; exfalso; subst; nra.
Qed.
Lemma find_root_spec f a b : decides (guard_find_root RO f a b) (f a * f b < 0 \/ f a = 0 \/ f b = 0).
Proof.
  unfold guard_find_root. rewrite !sign_prod_geb_R. cbn [nltb nisnan nmul nleb neqb n0 ROps orb].
  destruct (Rltb_spec b a).
  - destruct (Rleb_spec 0 (f b * f a)); [|split; [reflexivity|intros; lra]].
    destruct (Reqb_spec (f b) 0); [split; [reflexivity|tauto]|]. destruct (Reqb_spec (f a) 0); [split; [reflexivity|tauto]|].
    split; [intros [?|[?|?]]; lra|reflexivity].
  - destruct (Rleb_spec 0 (f a * f b)); [|split; [reflexivity|intros; lra]].
    destruct (Reqb_spec (f a) 0); [split; [reflexivity|tauto]|]. destruct (Reqb_spec (f b) 0); [split; [reflexivity|tauto]|].
    split; [intros [?|[?|?]]; lra|reflexivity].
Qed.
(** Inv_Erf(p): |p| >= 1 exits, except in the 1e-16 neighbourhoods of +1 and -1 where +-10 is returned by design;
    for |p| < 1 outside those neighbourhoods the only remaining test is the nested Find_Root bracket of
    erf(x) - p on [-10, 10] *)
Lemma inv_erf_spec p :
  (Rabs (p - 1) < 1 / 10000000000000000 \/ Rabs (p + 1) < 1 / 10000000000000000 -> guard_inv_erf RO p = Ok tt) /\
  (1 / 10000000000000000 <= Rabs (p - 1) -> 1 / 10000000000000000 <= Rabs (p + 1) -> 1 <= Rabs p -> guard_inv_erf RO p = Exit) /\
  (1 / 10000000000000000 <= Rabs (p - 1) -> 1 / 10000000000000000 <= Rabs (p + 1) -> Rabs p < 1 ->
     guard_inv_erf RO p = guard_find_root RO (fun x => Rerf x - p) (- 10) 10).
Proof.
  unfold guard_inv_erf, lit_1em16, ngeb. cbn [nltb nabs nsub nadd n1 nlit nleb nneg nofZ nerf ROps].
  destruct (Rltb_spec (Rabs (p - 1)) (1 / 10000000000000000));
    destruct (Rltb_spec (Rabs (p + 1)) (1 / 10000000000000000)); (split; [|split]); intros; try lra; try reflexivity.
  - destruct (Rleb_spec 1 (Rabs p)); [reflexivity|lra].
  - destruct (Rleb_spec 1 (Rabs p)); [lra|reflexivity].
Qed.

(** Locate(x) over the reals, on a strictly increasing table: exits iff x lies at or beyond 1 % of the edge
    interval outside the domain *)
Definition xr (xs : list R) (i : Z) : R := nth (Z.to_nat i) xs 0.
Definition increasingR (xs : list R) : Prop := forall i, (1 <= i < zlen xs)%Z -> xr xs (i - 1) < xr xs i.
Lemma increasingR_le xs i j : increasingR xs -> (0 <= i)%Z -> (i <= j)%Z -> (j < zlen xs)%Z -> xr xs i <= xr xs j.
Proof.
  intros Hinc Hi Hij Hj. replace j with (i + Z.of_nat (Z.to_nat (j - i)))%Z by lia.
  assert (Hb : (i + Z.of_nat (Z.to_nat (j - i)) < zlen xs)%Z) by lia. revert Hb.
  induction (Z.to_nat (j - i)) as [|n IH]; intros Hb.
  - rewrite Z.add_0_r. lra.
  - specialize (IH ltac:(lia)). pose proof (Hinc (i + Z.of_nat (S n))%Z ltac:(lia)) as H.
    replace (i + Z.of_nat (S n) - 1)%Z with (i + Z.of_nat n)%Z in H by lia. lra.
Qed.
Lemma locate_exit_iff_R xs x : (2 <= zlen xs < 4294967296)%Z -> increasingR xs ->
  let N := zlen xs in
  let d0 := xr xs 0 in let d1 := xr xs (N - 1) in
  let tol_left := 1 / 100 * (xr xs 1 - xr xs 0) in
  let tol_right := 1 / 100 * (xr xs (N - 1) - xr xs (N - 2)) in
  locate RO xs x = Exit <-> (x <= d0 - tol_left \/ d1 + tol_right <= x).
Proof.
  intros HN Hinc N d0 d1 tl tr. rewrite (locate_exit_iff RO xs x HN). cbn [nisnan ROps].
  assert (forall Q : Prop, (false = true \/ Q) <-> Q) as -> by (intros Q; split; [intros [?|?]; [discriminate|assumption]|auto]).
  unfold out_of_domain, within_left, within_right, ndec. cbn [nltb nabs nsub nmul ndiv nofZ n0 ROps].
  change (xv RO xs) with (xr xs). subst tl tr d0 d1. fold N.
  pose proof (Hinc 1%Z ltac:(lia)) as H01. change (1 - 1)%Z with 0%Z in H01.
  pose proof (Hinc (N - 1)%Z ltac:(unfold N; lia)) as HN1. replace (N - 1 - 1)%Z with (N - 2)%Z in HN1 by lia.
  pose proof (increasingR_le xs 1 (N - 1) Hinc ltac:(lia) ltac:(unfold N; lia) ltac:(unfold N; lia)) as H1N.
  pose proof (increasingR_le xs 0 (N - 2) Hinc ltac:(lia) ltac:(unfold N; lia) ltac:(unfold N; lia)) as H0N.
  generalize dependent (xr xs 0); intros a0. generalize dependent (xr xs 1); intros a1.
  generalize dependent (xr xs (N - 1)); intros b1. generalize dependent (xr xs (N - 2)); intros b0. intros.
  destruct (Rltb_spec x a0); destruct (Rltb_spec b1 x); cbn [orb];
    destruct (Rltb_spec (Rabs (x - a0)) (1 / 100 * (a1 - a0))); destruct (Rltb_spec (Rabs (x - b1)) (1 / 100 * (b1 - b0)));
    (split; [intros (? & ? & ?)|intros Hyp]); try discriminate; try (repeat split; reflexivity);
    try (exfalso; unfold Rabs in *; repeat destruct (Rcase_abs _); lra);
    try (unfold Rabs in *; repeat destruct (Rcase_abs _); lra).
Qed.

(** Inverse(): exits iff the matrix is not square or its (Laplace) determinant is zero; otherwise every index of
    the Gauss-Jordan elimination on the N x 2N augmented matrix is inside it *)
Lemma inverse_spec rows cols (m : list (list R)) : (0 <= rows < 1073741824)%Z ->
  decides (guard_inverse RO rows cols m) (rows = cols /\ laplace_det RO (length m) m <> 0).
Proof.
  intros Hr. unfold guard_inverse. destruct (Z.eqb_spec rows cols) as [<-|]; cbn [negb]; [|split; [tauto|reflexivity]].
  rewrite bind_ok by (apply determinant_spec; lia).
  cbn [neqb n0 ROps]. destruct (Reqb_spec (laplace_det RO (length m) m) 0); [split; [tauto|reflexivity]|].
  split; [intros _|tauto].
  rewrite bind_ok by loops.
  rewrite bind_ok.
  2:{ apply for_range_ok; intros i Hi. rewrite bind_ok by loops. idx.
      apply for_range_ok; intros j Hj. destruct (Z.eqb_spec i j); cbn [negb]; [reflexivity|]. idx. loops. }
  rewrite bind_ok by loops.
  apply for_range_ok; intros t Ht. apply delete_column_spec; lia.
Qed.
End Reals.
