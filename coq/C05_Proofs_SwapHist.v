(** * C05 proofs, part 9: histories of ANY number of row exchanges  std::swap(M[i], M[j])  on one object.
    For every arithmetic the entries after the history are the rows of the start in the order of the composed
    permutation (pure data movement, induction over the history); hence Determinant() asked afterwards is
    (-1)^k det A in exact arithmetic (k = number of exchanges with i <> j) and within 2 E perm|A| of (-1)^k d in rounded
    arithmetic (d = what Determinant() answered before the history). *)
From mathcomp Require Import all_ssreflect all_fingroup all_algebra.
From Coq Require List ZArith.
From LP Require Import Num C04_Model C05_Model C04_Proofs_Struct C04_Proofs_Laws C05_Proofs C05_Proofs_Seq C05_Proofs_Round C05_Proofs_Round2.
Set Implicit Arguments. Unset Strict Implicit. Unset Printing Implicit Defensive.
Arguments tab : simpl never.
Arguments tab2 : simpl never.
Import Order.TTheory GRing.Theory Num.Theory.
Local Open Scope ring_scope.

Section SwapAny.
Context {T : Type} (Ops : NumOps T).
Variable n : nat.
Local Notation ment := (ment Ops).
Definition swap_ops (sw : seq ('I_n.+1 * 'I_n.+1)) : list (@sop T) := map (fun p : 'I_n.+1 * 'I_n.+1 => @USwap T (p.1 : nat) (p.2 : nat)) sw.
Definition swap_perm (sw : seq ('I_n.+1 * 'I_n.+1)) : 'S_n.+1 := foldl (fun t (p : 'I_n.+1 * 'I_n.+1) => (tperm p.1 p.2 * t)%g) 1%g sw.
Definition swap_count (sw : seq ('I_n.+1 * 'I_n.+1)) : nat := count (fun p : 'I_n.+1 * 'I_n.+1 => p.1 != p.2) sw.

Lemma swap_perm_rcons sw p : swap_perm (rcons sw p) = (tperm p.1 p.2 * swap_perm sw)%g.
Proof. by rewrite /swap_perm -cats1 foldl_cat. Qed.
Lemma swap_perm_odd sw : odd_perm (swap_perm sw) = odd (swap_count sw).
Proof.
  elim/last_ind: sw => [|sw p IH]; first by rewrite /swap_perm /= odd_perm1.
  by rewrite swap_perm_rcons odd_permM odd_tperm IH /swap_count -cats1 count_cat /= addn0 oddD addbC; case: (p.1 != p.2).
Qed.

Lemma swaps_run sw (A : mat T) : wf_mat A -> mrows A = n.+1 -> mcols A = n.+1 ->
  exists A', [/\ srun Ops (swap_ops sw) A = Ok (A', map (fun _ => @ONone T) sw), wf_mat A', mrows A' = n.+1, mcols A' = n.+1 &
                 forall a b : 'I_n.+1, ment A' a b = ment A (swap_perm sw a) b].
Proof.
  move=> HA Ar Ac; elim/last_ind: sw => [|sw [i j] [A' [Hrun HA' Ar' Ac' He]]].
    by exists A; split=> // a b; rewrite /swap_perm /= perm1.
  pose A2 := mk_mat n.+1 n.+1 (fun a b => ment A' (if (a == i :> nat) then j : nat else if (a == j :> nat) then i : nat else a) b).
  exists A2; split; rewrite ?wf_mk //.
  - rewrite /swap_ops !map_rcons -!cats1 srun_snoc Hrun /= /sstep /= Ar' !lebE (leqNgt n.+1 i) (leqNgt n.+1 j) !ltn_ord /= Ac'.
    by congr (Ok (_, _)); apply: mk_mat_ext => a b Ha Hb; rewrite !eqbE.
  - move=> a b; rewrite swap_perm_rcons permM ment_mk // -He; congr (ment A' _ _).
    by rewrite permE /= -!val_eqE /=; case: eqP => //; case: eqP.
Qed.
End SwapAny.

Section SwapExact.
Variable F : fieldType.
Variables (absF sqrtF : F -> F) (ltF leF : F -> F -> bool).
Local Notation Ops := (FOps absF sqrtF ltF leF).
Local Notation mx := (@mx_of F (fun x y => x / y) absF sqrtF ltF leF).

Theorem swaps_then_det n (sw : seq ('I_n.+1 * 'I_n.+1)) (A : mat F) : wf_mat A -> mrows A = n.+1 -> mcols A = n.+1 ->
  let d := \det (mx n.+1 n.+1 A) in
  exists A', [/\ wf_mat A', mx n.+1 n.+1 A' = row_perm (swap_perm sw) (mx n.+1 n.+1 A) &
    srun Ops (swap_ops sw ++ [:: @QDet F; @QInvertible F]) A =
    Ok (A', (map (fun _ => @ONone F) sw ++ [:: ODet ((-1) ^+ swap_count sw * d); @OFlag F (d != 0)])%list)].
Proof.
  move=> HA Ar Ac d; have [A' [Hrun HA' Ar' Ac' He]] := swaps_run Ops sw HA Ar Ac.
  have E : mx n.+1 n.+1 A' = row_perm (swap_perm sw) (mx n.+1 n.+1 A) by apply/matrixP => a b; rewrite !mxE He.
  have D : \det (mx n.+1 n.+1 A') = (-1) ^+ swap_count sw * d.
    by rewrite E row_permE det_mulmx det_perm swap_perm_odd signr_odd.
  exists A'; split=> //.
  have H1 := @seq_answer_after_history _ Ops _ (@QDet F) _ _ _ Hrun erefl.
  rewrite /= (@det_is_det F absF sqrtF ltF leF n A' HA' Ar' Ac') /= D in H1.
  have H2 := @seq_answer_after_history _ Ops _ (@QInvertible F) _ _ _ H1 erefl.
  rewrite /= (proj1 (@invertible_iff F absF sqrtF ltF leF n A' HA' Ar' Ac')) /= D mulf_eq0 signr_eq0 /= in H2.
  by rewrite -catA /= -List.app_assoc /= in H2.
Qed.
End SwapExact.

Section SwapRounded.
Variable R : realFieldType.
Variables (fadd fsub fmul fdiv : R -> R -> R) (sqrtF : R -> R) (leF : R -> R -> bool).
Variable u : R.
Hypothesis u0 : 0 <= u.
Hypothesis SM : std_model fadd fsub fmul u.
Local Notation Ops := (XOps fadd fsub fmul fdiv sqrtF leF).
Local Notation mx := (@mxr R fadd fsub fmul fdiv sqrtF leF).

Theorem swaps_then_det_rounded n (sw : seq ('I_n.+1 * 'I_n.+1)) (A : mat R) : wf_mat A -> mrows A = n.+1 -> mcols A = n.+1 ->
  exists A' d d', [/\ determinant Ops A = Ok d,
    srun Ops (swap_ops sw ++ [:: @QDet R]) A = Ok (A', (map (fun _ => @ONone R) sw ++ [:: ODet d'])%list) &
    `|d' - (-1) ^+ swap_count sw * d| <= 2%:R * ((1 + u) ^+ det_err_exp n.+1 - 1) * pm (mx n.+1 A)].
Proof.
  move=> HA Ar Ac; have [A' [Hrun HA' Ar' Ac' He]] := swaps_run Ops sw HA Ar Ac.
  have [d [d' [H1 H2 H3]]] := @det_round_row_perm R fadd fsub fmul fdiv sqrtF leF u u0 SM n A A' (swap_perm sw) HA Ar Ac HA' Ar' Ac' He.
  exists A', d, d'; split=> //.
  - by rewrite (@seq_answer_after_history _ Ops _ (@QDet R) _ _ _ Hrun erefl) /= H2.
  - by move: H3; rewrite swap_perm_odd signr_odd.
Qed.
End SwapRounded.
