(** * C20 — In_Units with round = true: Round(q/dim, digits) is q/dim rounded half-up to [digits]
    significant digits (over the reals; digits 1..7). *)
From Coq Require Import Reals Lra Lia ZArith Psatz.
From LP Require Import Num NumR C20_Model.
Local Open Scope R_scope.

Lemma floor_spec x : IZR (Int_part x) <= x < IZR (Int_part x) + 1.
Proof. pose proof (base_Int_part x). lra. Qed.

Lemma ln10_pos : 0 < ln 10.
Proof. rewrite <- ln_1. apply ln_increasing; lra. Qed.

(** decade of a positive number: 10^k <= N < 10^(k+1) with k = floor(log10 N) *)
Lemma decade N : 0 < N -> let k := Int_part (ln N / ln 10) in powerRZ 10 k <= N < powerRZ 10 (k + 1).
Proof.
  intros HN k. pose proof (floor_spec (ln N / ln 10)) as [H1 H2]. fold k in H1, H2.
  pose proof ln10_pos as L.
  rewrite !powerRZ_Rpower by lra. unfold Rpower. rewrite plus_IZR.
  assert (A : IZR k * ln 10 <= ln N).
  { apply Rmult_le_reg_r with (/ ln 10). apply Rinv_0_lt_compat; lra. rewrite Rmult_assoc, Rinv_r by lra. unfold Rdiv in H1. lra. }
  assert (B : ln N < (IZR k + 1) * ln 10).
  { apply Rmult_lt_reg_r with (/ ln 10). apply Rinv_0_lt_compat; lra. rewrite Rmult_assoc, Rinv_r by lra. unfold Rdiv in H2. lra. }
  split.
  - apply Rle_trans with (exp (ln N)); [|right; apply exp_ln; lra].
    destruct A as [A|A]; [left; apply exp_increasing; exact A|right; rewrite A; reflexivity].
  - apply Rle_lt_trans with (exp (ln N)); [right; symmetry; apply exp_ln; lra|]. apply exp_increasing. exact B.
Qed.

(** Round for N > 0, d significant digits, as the source computes it *)
Definition round_pos (N : R) (d : Z) : R :=
  let k := Int_part (ln N / ln 10) in
  let pre := N * powerRZ 10 (- k) in
  let pre2 := IZR (Int_part (pre * powerRZ 10 (d - 1) + / 2)) in
  pre2 * powerRZ 10 (-1 * d + 1) * powerRZ 10 k.

Lemma round_pos_form N d : 0 < N -> let k := Int_part (ln N / ln 10) in let q := powerRZ 10 (k - d + 1) in
  round_pos N d = IZR (Int_part (N / q + / 2)) * q.
Proof.
  intros HN k q. unfold round_pos. fold k.
  assert (T10 : (10 : R) <> 0) by lra.
  replace (N * powerRZ 10 (- k) * powerRZ 10 (d - 1)) with (N / q).
  - rewrite Rmult_assoc, <- powerRZ_add by lra. unfold q. f_equal. f_equal. lia.
  - unfold q, Rdiv. rewrite Rmult_assoc, <- powerRZ_add by lra. rewrite <- powerRZ_neg'. f_equal. f_equal. lia.
Qed.

Lemma round_pos_half_unit N d : 0 < N -> let k := Int_part (ln N / ln 10) in let q := powerRZ 10 (k - d + 1) in
  Rabs (round_pos N d - N) <= q / 2 /\ exists m : Z, round_pos N d = IZR m * q.
Proof.
  intros HN k q. rewrite round_pos_form by assumption. fold k q. split; [|eexists; reflexivity].
  assert (Hq : 0 < q) by (apply powerRZ_lt; lra).
  clearbody q. clear k.
  assert (E : N = (N / q) * q) by (field; lra).
  set (t := N / q) in *. pose proof (floor_spec (t + / 2)) as [F1 F2]. set (n := IZR (Int_part (t + / 2))) in *.
  clearbody t n. rewrite E. apply Rabs_le. split; nra.
Qed.

(** bridge: the model at the real instance is [round_pos] of |N| with the sign restored *)
Lemma Rpower10 z : Rpower 10 (IZR z) = powerRZ 10 z.
Proof. symmetry. apply powerRZ_Rpower. lra. Qed.

Lemma round_m_R_pos N d : 0 < N -> (1 <= d <= 7)%Z -> round_m ROps N d = Ok (round_pos N d).
Proof.
  intros HN Hd. unfold round_m.
  replace (7 <? d)%Z with false by (symmetry; apply Z.ltb_ge; lia).
  cbn [neqb ROps n0]. destruct (Reqb_spec N 0) as [E|_]; [lra|].
  assert (S1 : sign1 ROps N = 1%Z).
  { unfold sign1, ngtb. cbn [nltb ROps n0]. destruct (Rltb_spec 0 N); [reflexivity|lra]. }
  rewrite S1. cbn [nofZ nmul nadd nfloor nlog10 npow nneg ndec ndiv ROps]. f_equal.
  unfold u32. rewrite Z.mod_small by lia.
  rewrite Rmult_1_r, Rmult_1_l. unfold round_pos.
  rewrite <- opp_IZR, !Rpower10. rewrite <- mult_IZR, <- plus_IZR, Rpower10.
  replace (1 / 2) with (/ 2) by lra. reflexivity.
Qed.

Lemma round_m_R_neg N d : N < 0 -> (1 <= d <= 7)%Z -> round_m ROps N d = Ok (- round_pos (- N) d).
Proof.
  intros HN Hd. unfold round_m.
  replace (7 <? d)%Z with false by (symmetry; apply Z.ltb_ge; lia).
  cbn [neqb ROps n0]. destruct (Reqb_spec N 0) as [E|_]; [lra|].
  assert (S1 : sign1 ROps N = (-1)%Z).
  { unfold sign1, ngtb. cbn [nltb neqb ROps n0]. destruct (Rltb_spec 0 N); [lra|]. destruct (Reqb_spec N 0); [lra|reflexivity]. }
  rewrite S1. cbn [nofZ nmul nadd nfloor nlog10 npow nneg ndec ndiv ROps]. f_equal.
  unfold u32. rewrite Z.mod_small by lia.
  replace (N * -1) with (- N) by ring. unfold round_pos.
  rewrite <- opp_IZR, !Rpower10. rewrite <- mult_IZR, <- plus_IZR, Rpower10.
  replace (1 / 2) with (/ 2) by lra. ring.
Qed.

(** In_Units(q, dim, true, digits): for digits 1..7 and a non-zero quotient the result is a multiple of
    10^(k-digits+1), k = floor(log10 |q/dim|), at distance at most half that unit from q/dim; zero gives 0 *)
Theorem in_units_rounds (q dim : R) (d : Z) : (1 <= d <= 7)%Z ->
  let v := q / dim in
  (v = 0 -> in_units ROps q dim true d = Ok 0) /\
  (v <> 0 ->
   let k := Int_part (ln (Rabs v) / ln 10) in
   let unit := powerRZ 10 (k - d + 1) in
   exists r, in_units ROps q dim true d = Ok r /\ Rabs (r - v) <= unit / 2 /\ exists m : Z, r = IZR m * unit).
Proof.
  intros Hd v.
  assert (Hu : u32 d = d) by (unfold u32; apply Z.mod_small; lia).
  assert (Hi : in_units ROps q dim true d = round_m ROps v d) by (unfold in_units; cbn [negb ndiv ROps]; rewrite Hu; reflexivity).
  split.
  - intros E. rewrite Hi, E. unfold round_m. replace (7 <? d)%Z with false by (symmetry; apply Z.ltb_ge; lia).
    cbn [neqb ROps n0]. destruct (Reqb_spec 0 0); [reflexivity|lra].
  - intros Hv k unit. rewrite Hi. destruct (Rtotal_order v 0) as [Hn|[E|Hp]]; [|contradiction|].
    + assert (Ea : Rabs v = - v) by (apply Rabs_left; exact Hn).
      destruct (round_pos_half_unit (- v) d) as [B [m Hm]]; [lra|].
      exists (- round_pos (- v) d). split; [apply round_m_R_neg; auto|].
      unfold unit, k. rewrite Ea. split.
      * replace (- round_pos (- v) d - v) with (- (round_pos (- v) d - - v)) by ring. rewrite Rabs_Ropp. exact B.
      * exists (- m)%Z. rewrite Hm, opp_IZR. ring.
    + assert (Ea : Rabs v = v) by (apply Rabs_right; lra).
      destruct (round_pos_half_unit v d) as [B [m Hm]]; [lra|].
      exists (round_pos v d). split; [apply round_m_R_pos; auto|].
      unfold unit, k. rewrite Ea. split; [exact B|exists m; exact Hm].
Qed.
