(** * C01 model, part 2 (seventh pass): the default constructors of Interpolation / Interpolation_2D and the call
    operators, line by line; tied to the code by the correspondence run (case types d1 / d2, queries G / C). *)
From Coq Require Import ZArith List Bool.
From LP Require Import Num C01_Model.
Import ListNotations.

Section Model2.
Context {T : Type} (Ops : NumOps T).

(* the default arguments  x_dim = -1.0, f_dim = -1.0  of the constructors *)
Definition dim_default : T := nneg Ops (n1 Ops).

(* Interpolation::Interpolation()
     std::vector<double> x_val = {-1.0, 0.0, 1.0};
     std::vector<double> y_val = {0.0, 0.0, 0.0};
     *this = Interpolation(x_val, y_val); *)
Definition default_axis : list T := [nneg Ops (n1 Ops); n0 Ops; n1 Ops].
Definition default1 : res itab :=
  construct Ops default_axis [n0 Ops; n0 Ops; n0 Ops] dim_default dim_default.

(* Interpolation_2D::Interpolation_2D()
     x_val = {-1.0, 0.0, 1.0};  y_val = {-1.0, 0.0, 1.0};
     std::vector<std::vector<double>> f_val(3, std::vector<double>(3, 0.0));
     *this = Interpolation_2D(x_val, y_val, f_val); *)
Definition default2 : res itab2 :=
  construct2 Ops default_axis default_axis (repeat (repeat (n0 Ops) 3) 3) dim_default dim_default dim_default.

(* double operator()(double x) { return Interpolate(x); }   (Numerics.hpp, both classes) *)
Definition call1 (o : itab) (x : T) : res T := interpolate Ops o x.
Definition call2 (o : itab2) (x y : T) : res T := interpolate2 Ops o x y.
End Model2.
