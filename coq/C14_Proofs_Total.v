(** * C14, seventh pass: Miser and plain Monte Carlo come to an end, stay inside their containers and spend exactly their budget.
    For EVERY integrand and EVERY stream (no premise on either), in >= 1 dimensions:
    - the model's fuel ncall/15 + 2 suffices, the split dimension jb (from the pre-sample or from the counter iran) is a valid index,
      every recursion level hands 15 <= nptl, nptr <= npts - 30 points to its halves, iran stays in 0..174999;
    - the stream position after the call is ncall * dim: the integrand is evaluated exactly ncall times;
    - hence "integrates constants exactly" holds unconditionally (the outcome is [Ok]). *)
From Coq Require Import Reals ZArith NArith Nnat List Lia Lra Bool.
From LP Require Import Num NumR C13_Model C14_Model C14_Proofs.
Import ListNotations.
Local Open Scope R_scope.

Lemma iter_pos {A} (step : Z * A -> Z * A) (d : Z) : (forall p a, fst (step (p, a)) = (p + d)%Z) ->
  forall (n : nat) p a, fst (Nat.iter n step (p, a)) = (p + Z.of_nat n * d)%Z.
Proof.
  intros H n. induction n as [| n IH]; intros p a.
  - cbn. lia.
  - change (Nat.iter (S n) step (p, a)) with (step (Nat.iter n step (p, a))).
    specialize (IH p a). destruct (Nat.iter n step (p, a)) as [p' a']. cbn [fst] in IH. rewrite H, IH. lia.
Qed.

Lemma Niter_pos {A} (step : Z * A -> Z * A) (d : Z) : (forall p a, fst (step (p, a)) = (p + d)%Z) ->
  forall (n : Z) p a, (0 <= n)%Z -> fst (N.iter (Z.to_N n) step (p, a)) = (p + n * d)%Z.
Proof.
  intros H n p a Hn. rewrite N2Nat.inj_iter, (iter_pos step d H). rewrite N_nat_Z, Z2N.id by assumption. reflexivity.
Qed.

Section Total.
Variable us : Z -> R.

Lemma random_point_aux_pos lo : forall hi pos, length lo = length hi ->
  snd (random_point_aux ROps us lo hi pos) = (pos + Z.of_nat (length lo))%Z /\
  length (fst (random_point_aux ROps us lo hi pos)) = length lo.
Proof.
  induction lo as [| l lo IH]; intros [| h hi] pos H; cbn [length] in H; try discriminate.
  - cbn. split; [lia | reflexivity].
  - cbn [random_point_aux]. specialize (IH hi (pos + 1)%Z ltac:(lia)).
    destruct (random_point_aux ROps us lo hi (pos + 1)) as [pt p']. cbn [fst snd length] in *. destruct IH as [E1 E2].
    split; [rewrite E1; lia | rewrite E2; reflexivity].
Qed.

Lemma random_point_pos lo hi pos : length lo = length hi ->
  snd (random_point ROps us (lo ++ hi) pos) = (pos + Z.of_nat (length lo))%Z /\
  length (fst (random_point ROps us (lo ++ hi) pos)) = length lo.
Proof. intros H. unfold random_point. rewrite (lows_app lo hi H), (highs_app lo hi H). apply random_point_aux_pos; assumption. Qed.

Lemma leaf_step_pos f lo hi : length lo = length hi ->
  forall p a, fst (miser_leaf_step ROps us f (lo ++ hi) (p, a)) = (p + Z.of_nat (length lo))%Z.
Proof.
  intros H p a. unfold miser_leaf_step. destruct (random_point_pos lo hi p H) as [E _].
  destruct (random_point ROps us (lo ++ hi) p) as [pt p']. exact E.
Qed.

Lemma presample_step_pos f lo hi rmid : length lo = length hi ->
  forall p b, fst (miser_presample_step ROps us f (lo ++ hi) rmid (p, b)) = (p + Z.of_nat (length lo))%Z.
Proof.
  intros H p b. unfold miser_presample_step. destruct (random_point_pos lo hi p H) as [E _].
  destruct (random_point ROps us (lo ++ hi) p) as [pt p']. exact E.
Qed.

Lemma brute_step_pos f lo hi v : length lo = length hi ->
  forall p a, fst (brute_force_step ROps us f (lo ++ hi) v (p, a)) = (p + Z.of_nat (length lo))%Z.
Proof.
  intros H p a. unfold brute_force_step. destruct (random_point_pos lo hi p H) as [E _].
  destruct (random_point ROps us (lo ++ hi) p) as [pt p']. exact E.
Qed.

Lemma miser_bounds_length pt : forall rmid (b : list (R * R * R * R)) fval, length pt = length b -> length rmid = length b ->
  length (miser_bounds ROps pt rmid b fval) = length b.
Proof.
  induction pt as [| p pt IH]; intros [| m rmid] [| [[[a1 a2] a3] a4] b] fval H1 H2; cbn [length] in *; try discriminate; try reflexivity.
  cbn [miser_bounds length]. f_equal. apply IH; lia.
Qed.

Lemma presample_len f lo hi rmid n pos b : length lo = length hi -> length rmid = length lo -> length b = length lo ->
  length (snd (N.iter n (miser_presample_step ROps us f (lo ++ hi) rmid) (pos, b))) = length lo.
Proof.
  intros H Hm Hb. apply (N.iter_invariant n _ _ (fun st => length (snd st) = length lo)); [| exact Hb].
  intros [p b'] Hb'. cbn [snd] in Hb'. unfold miser_presample_step. destruct (random_point_pos lo hi p H) as [_ E].
  destruct (random_point ROps us (lo ++ hi) p) as [pt p']. cbn [fst snd] in *.
  rewrite miser_bounds_length; lia.
Qed.

Lemma miser_rmid_iran lo : forall hi iran, (0 <= iran < 175000)%Z -> (0 <= snd (miser_rmid ROps lo hi iran) < 175000)%Z.
Proof.
  induction lo as [| l lo IH]; intros [| h hi] iran H; try exact H.
  cbn [miser_rmid].
  assert (H' : (0 <= Z.rem (iran * 2661 + 36979) 175000 < 175000)%Z) by (apply Z.rem_bound_pos; lia).
  specialize (IH hi _ H'). destruct (miser_rmid ROps lo hi _) as [r ir]. exact IH.
Qed.

Lemma tiny_pos : 0 < tiny ROps.
Proof. unfold tiny. cbn. apply Rdiv_lt_0_compat; apply IZR_lt; reflexivity. Qed.
Lemma nmax_tiny_pos x : 0 < nmax ROps (tiny ROps) x.
Proof. pose proof tiny_pos. unfold nmax. change (nltb ROps) with Rltb. destruct (Rltb_spec (tiny ROps) x); lra. Qed.

Definition sel_ok (j : Z) (st : R * Z * R * R) : Prop :=
  let '(_, jb, sl, sr) := st in ((jb = -1 \/ 0 <= jb < j)%Z) /\ 0 < sl /\ 0 < sr.

Lemma miser_select_ok b : forall j st, (0 <= j)%Z -> sel_ok j st -> sel_ok (j + Z.of_nat (length b)) (miser_select ROps j b st).
Proof.
  induction b as [| [[[fminl fmaxl] fminr] fmaxr] b IH]; intros j st Hj Hst.
  - cbn [miser_select length]. replace (j + Z.of_nat 0)%Z with j by lia. exact Hst.
  - cbn [miser_select length]. destruct st as [[[sumb jb] siglb] sigrb].
    replace (j + Z.of_nat (S (length b)))%Z with ((j + 1) + Z.of_nat (length b))%Z by lia.
    apply IH; [lia |].
    assert (Hkeep : sel_ok (j + 1) (sumb, jb, siglb, sigrb)).
    { unfold sel_ok in *. destruct Hst as (H1 & H2 & H3). repeat split; try assumption. lia. }
    destruct (ngtb ROps fmaxl fminl && ngtb ROps fmaxr fminr); [| exact Hkeep].
    destruct (nleb ROps _ sumb); [| exact Hkeep].
    unfold sel_ok. repeat split; try apply nmax_tiny_pos. right. lia.
Qed.

(** one level of the recursion comes to an end with [Ok], spends exactly npts points, and keeps iran in range, provided its halves do *)
Lemma miser_level_total rec f lo hi npts iran pos :
  length lo = length hi -> (1 <= length lo)%nat -> (0 <= npts)%Z -> (0 <= iran < 175000)%Z ->
  ((60 <= npts)%Z -> forall lo' hi' n i p, length lo' = length hi' -> length lo' = length lo -> (15 <= n <= npts - 30)%Z -> (0 <= i < 175000)%Z ->
      exists ave i', rec (lo' ++ hi') n i p = Ok (ave, i', (p + n * Z.of_nat (length lo))%Z) /\ (0 <= i' < 175000)%Z) ->
  exists ave i', miser_level ROps us rec f (lo ++ hi) npts iran pos = Ok (ave, i', (pos + npts * Z.of_nat (length lo))%Z) /\ (0 <= i' < 175000)%Z.
Proof.
  intros Hlen Hd Hn Hiran Hrec. unfold miser_level.
  rewrite (lows_app lo hi Hlen), (highs_app lo hi Hlen), (rdim_app lo hi Hlen).
  destruct (npts <? MNBS)%Z eqn:Eleaf.
  - pose proof (Niter_pos _ _ (leaf_step_pos f lo hi Hlen) npts pos (n0 ROps) Hn) as Hp.
    destruct (N.iter _ _ _) as [p' s]. cbn [fst] in Hp. subst p'. eexists _, _. split; [reflexivity | assumption].
  - apply Z.ltb_ge in Eleaf. unfold MNBS in Eleaf. specialize (Hrec Eleaf).
    pose proof (miser_rmid_mids lo hi iran) as Hm. pose proof (miser_rmid_iran lo hi iran Hiran) as Hi1.
    destruct (miser_rmid ROps lo hi iran) as [rmid iran1]. cbn [fst snd] in Hm, Hi1. subst rmid.
    set (npre := Z.max (ntrunc ROps (nmul ROps (nofZ ROps npts) (PFAC ROps))) MNPT).
    assert (Hnpre : (15 <= npre)%Z /\ (15 <= npts - npre - 2 * MNPT)%Z).
    { unfold npre, MNPT. destruct (trunc_bounds (nmul ROps (nofZ ROps npts) (PFAC ROps))) as [T1 T2].
      { cbn. unfold ndec; cbn. apply IZR_le in Eleaf. lra. }
      set (t := ntrunc ROps _) in *. clearbody t.
      change (nmul ROps (nofZ ROps npts) (PFAC ROps)) with (IZR npts * (1 / 10)) in T1.
      assert (10 * t <= npts)%Z by (apply le_IZR; rewrite mult_IZR; lra). lia. }
    set (b0 := repeat _ (length lo)).
    assert (Hb0 : length b0 = length lo) by (unfold b0; apply repeat_length).
    assert (Hml : length (mids lo hi) = length lo) by (apply mids_length; assumption).
    pose proof (Niter_pos _ _ (presample_step_pos f lo hi (mids lo hi) Hlen) npre pos b0 ltac:(lia)) as Hp1.
    pose proof (presample_len f lo hi (mids lo hi) (Z.to_N npre) pos b0 Hlen Hml Hb0) as Hbl.
    destruct (N.iter (Z.to_N npre) _ (pos, b0)) as [pos1 b]. cbn [fst snd] in Hp1, Hbl.
    pose proof (miser_select_ok b 0%Z (big ROps, (-1)%Z, n1 ROps, n1 ROps) ltac:(lia)) as Hsel.
    destruct (miser_select ROps 0 b _) as [[[sumb jb0] siglb] sigrb].
    assert (Hsel' : ((jb0 = -1 \/ 0 <= jb0 < Z.of_nat (length lo))%Z) /\ 0 < siglb /\ 0 < sigrb).
    { rewrite Hbl in Hsel. apply Hsel. unfold sel_ok. cbn. repeat split; try lra. left; reflexivity. }
    clear Hsel. destruct Hsel' as (Hjb0 & Hsl & Hsr).
    set (jb := if (jb0 =? -1)%Z then _ else jb0).
    assert (Hjb : (0 <= jb < Z.of_nat (length lo))%Z).
    { unfold jb. destruct (jb0 =? -1)%Z eqn:E.
      - split; [apply Z.quot_pos; nia | apply Z.quot_lt_upper_bound; nia].
      - apply Z.eqb_neq in E. lia. }
    clearbody jb.
    rewrite (getZ_nth (lo ++ hi) jb) by (rewrite app_length; lia).
    rewrite (getZ_nth (mids lo hi) jb) by lia.
    rewrite (getZ_nth (lo ++ hi) (Z.of_nat (length lo) + jb)) by (rewrite app_length; lia).
    cbn [rbind].
    replace (Z.to_nat (Z.of_nat (length lo) + jb)) with (length lo + Z.to_nat jb)%nat by lia.
    rewrite app_nth2_plus. rewrite (app_nth1 lo hi) by lia. rewrite nth_mids by (try assumption; lia).
    set (l := nth (Z.to_nat jb) lo 0). set (h := nth (Z.to_nat jb) hi 0). set (rgm := (l + h) / 2).
    set (fracl := nabs ROps (ndiv ROps (nsub ROps rgm l) (nsub ROps h l))).
    assert (Hfr : 0 <= fracl <= 1 / 2).
    { unfold fracl, rgm. cbn.
      destruct (Req_dec (h - l) 0) as [Hz | Hnz].
      - rewrite Hz. unfold Rdiv. rewrite Rinv_0, Rmult_0_r, Rabs_R0. lra.
      - replace ((l + h) / 2 - l) with ((h - l) / 2) by field. replace ((h - l) / 2 / (h - l)) with (1 / 2) by (field; assumption).
        rewrite Rabs_pos_eq; lra. }
    clearbody fracl. clearbody rgm.
    set (M := (npts - npre - 2 * MNPT)%Z) in *.
    set (x := nadd ROps (nofZ ROps MNPT) _).
    assert (Hx : 15 <= x <= 15 + IZR M).
    { unfold x. cbn. unfold MNPT. destruct Hnpre as [_ HM]. apply IZR_le in HM.
      set (den := fracl * siglb + (1 - fracl) * sigrb).
      assert (Hden : 0 < den) by (unfold den; nra).
      set (q := IZR M * fracl * siglb / den).
      assert (Hq : q * den = IZR M * fracl * siglb) by (unfold q; field; lra).
      assert (0 <= IZR M * fracl * siglb) by (apply Rmult_le_pos; [apply Rmult_le_pos |]; lra).
      assert (IZR M * fracl * siglb <= IZR M * den).
      { unfold den. rewrite Rmult_assoc. apply Rmult_le_compat_l; [lra |]. nra. }
      assert (0 <= q) by (unfold q; apply Rmult_le_pos; [assumption | left; apply Rinv_0_lt_compat; assumption]).
      assert (q <= IZR M) by nra.
      lra. }
    destruct (trunc_bounds x ltac:(lra)) as [T1 T2].
    set (nptl := ntrunc ROps x) in *.
    assert (Hl : (15 <= nptl)%Z) by (apply Z.lt_succ_r, lt_IZR; rewrite succ_IZR; lra).
    assert (Hl2 : (nptl <= 15 + M)%Z) by (apply le_IZR; rewrite plus_IZR; lra).
    clearbody nptl. clear T1 T2 Hx. clearbody x.
    unfold M, MNPT in *. destruct Hnpre as [Hnp1 Hnp2].
    assert (Hfull : firstn (2 * length lo) (lo ++ hi) = lo ++ hi) by (apply firstn_all2; rewrite app_length; lia).
    rewrite Hfull. rewrite set_nth_app_r.
    destruct (Hrec lo (set_nth hi (Z.to_nat jb) rgm) nptl iran1 pos1) as (avel & iran2 & E1 & Hi2);
      [rewrite set_nth_length; assumption | reflexivity | lia | assumption |].
    rewrite E1. cbn [rbind].
    rewrite (set_nth_app_l lo _ (Z.to_nat jb) rgm) by lia.
    replace (length lo + Z.to_nat jb)%nat with (length (set_nth lo (Z.to_nat jb) rgm) + Z.to_nat jb)%nat by (rewrite set_nth_length; reflexivity).
    rewrite set_nth_app_r.
    match goal with |- context [rec (?l' ++ ?h') ?n ?i ?p] =>
      destruct (Hrec l' h' n i p) as (aver & iran3 & E2 & Hi3);
        [rewrite !set_nth_length; assumption | rewrite set_nth_length; reflexivity | lia | assumption |]; rewrite E2 end.
    cbn [rbind]. eexists _, _. split; [| exact Hi3]. f_equal. f_equal. subst pos1. ring.
Qed.

Lemma miser_total fuel : forall f lo hi npts iran pos,
  length lo = length hi -> (1 <= length lo)%nat -> (0 <= npts)%Z -> (npts < 30 + 30 * Z.of_nat fuel)%Z -> (1 <= fuel)%nat -> (0 <= iran < 175000)%Z ->
  exists ave i', miser ROps us fuel f (lo ++ hi) npts iran pos = Ok (ave, i', (pos + npts * Z.of_nat (length lo))%Z) /\ (0 <= i' < 175000)%Z.
Proof.
  induction fuel as [| fu IH]; intros f lo hi npts iran pos Hlen Hd Hn Hfu H1 Hiran; [lia |].
  cbn [miser]. apply miser_level_total; try assumption.
  intros H60 lo' hi' n i p Hlen' Hll Hnn Hi. rewrite <- Hll. apply IH; try assumption; lia.
Qed.

(** Integrate_MC_Miser: [Ok] for every integrand and stream; exactly ncall evaluations (stream position ncall * dim) *)
Theorem integrate_miser_total f region ncall :
  length region = (2 * rdim region)%nat -> (1 <= rdim region)%nat -> (0 <= ncall)%Z ->
  exists ave iran', miser ROps us (Z.to_nat (ncall / 15 + 2)) f region ncall 0 0 = Ok (ave, iran', (ncall * Z.of_nat (rdim region))%Z) /\
                    integrate_miser ROps us f region ncall = Ok (mc_volume ROps region * ave).
Proof.
  intros Hlen Hd Hn.
  assert (Hq : (0 <= ncall / 15)%Z) by (apply Z.div_pos; lia).
  assert (Hq2 : (ncall < 15 * (ncall / 15) + 15)%Z) by (pose proof (Z.mod_pos_bound ncall 15 ltac:(lia)); pose proof (Z.div_mod ncall 15 ltac:(lia)); lia).
  destruct (miser_total (Z.to_nat (ncall / 15 + 2)) f (lows region) (highs region) ncall 0%Z 0%Z) as (ave & i' & E & _);
    try lia; [rewrite lows_length, highs_length; reflexivity | rewrite lows_length; assumption |].
  rewrite <- (region_split region Hlen) in E. rewrite lows_length in E. cbn [Z.add] in E.
  exists ave, i'. split; [exact E |]. unfold integrate_miser. rewrite E. reflexivity.
Qed.

(** the same through Integrate_MC, from any statics (Miser neither reads nor writes them) *)
Theorem integrate_mc_miser_total (s : @vstate R) f region ncall :
  length region = (2 * rdim region)%nat -> (1 <= rdim region)%nat -> (0 <= ncall)%Z ->
  exists ave iran', miser ROps us (Z.to_nat (ncall / 15 + 2)) f region ncall 0 0 = Ok (ave, iran', (ncall * Z.of_nat (rdim region))%Z) /\
                    integrate_mc ROps us s M_Miser f region ncall = Ok (mc_volume ROps region * ave, s).
Proof.
  intros Hlen Hd Hn. destruct (integrate_miser_total f region ncall Hlen Hd Hn) as (ave & i' & E1 & E2).
  exists ave, i'. split; [exact E1 |]. unfold integrate_mc. rewrite E2. reflexivity.
Qed.

(** "integrate constants exactly", Miser, without the proviso "whenever the fuel suffices" *)
Theorem integrate_miser_constant_total c region ncall :
  length region = (2 * rdim region)%nat -> (1 <= rdim region)%nat -> (15 <= ncall)%Z -> - big ROps <= c <= big ROps ->
  integrate_miser ROps us (fun _ => c) region ncall = Ok (volume (lows region) (highs region) * c).
Proof.
  intros Hlen Hd Hn Hc.
  destruct (integrate_miser_total (fun _ => c) region ncall Hlen Hd ltac:(lia)) as (ave & i' & _ & E).
  pose proof (integrate_miser_constant_exact us c region ncall Hlen Hn Hc) as H. rewrite E in H |- *. rewrite H. reflexivity.
Qed.

(** plain Monte Carlo: the loop of Integrate_MC_Brute_Force leaves the stream at position ncall * dim: exactly ncall evaluations *)
Theorem brute_force_budget f region ncall :
  length region = (2 * rdim region)%nat -> (0 <= ncall)%Z ->
  fst (N.iter (Z.to_N ncall) (brute_force_step ROps us f region (mc_volume ROps region)) (0%Z, n0 ROps)) = (ncall * Z.of_nat (rdim region))%Z.
Proof.
  intros Hlen Hn. rewrite (region_split region Hlen) at 1.
  rewrite (Niter_pos _ _ (brute_step_pos f (lows region) (highs region) (mc_volume ROps region) ltac:(rewrite lows_length, highs_length; reflexivity)) ncall 0%Z (n0 ROps) Hn).
  rewrite lows_length. lia.
Qed.
End Total.

(** non-vacuity: the hypotheses hold for a 2-dimensional region and the budget 1000 *)
Example miser_total_example :
  length [0; 2; 1; 5] = (2 * rdim [0; 2; 1; 5])%nat /\ (1 <= rdim [0; 2; 1; 5])%nat /\ (15 <= 1000)%Z /\ - big ROps <= 3 <= big ROps.
Proof.
  assert (Hb : big ROps = 1000000000000000000000000000000) by (unfold big; cbn; field).
  repeat split; try (cbn; lia); rewrite Hb; lra.
Qed.
