(** * C17 proofs, part 2: the vector-spherical-harmonics coefficient tables (translated from the source on
    every run, Gen_C17_Formulas.v) and the summation loops, for ALL l >= 0 and |m| <= l. *)
From Coq Require Import Reals ZArith Lra Lia Bool List Psatz.
From Coquelicot Require Import Coquelicot.
From LP Require Import Num NumR Gen_C17_Formulas C17_Model.
Import ListNotations.
Local Open Scope Z_scope.

Definition cscale (r : R) (z : R * R) : R * R := (r * fst z, r * snd z)%R.

Lemma sqrt_LL (L x : R) : (0 <= L)%R -> sqrt (L * L * x) = (L * sqrt x)%R.
Proof.
  intros HL. destruct (Rle_dec 0 x) as [Hx|Hx].
  - rewrite sqrt_mult; [|nra|lra]. rewrite sqrt_square by lra. reflexivity.
  - assert (x < 0)%R by lra. rewrite (sqrt_neg_0 x) by lra. rewrite sqrt_neg_0 by nra. ring.
Qed.

(** ** Every Psi coefficient is -l (for l_hat = l+1) or l+1 (for l_hat = l-1) times the Y coefficient:
    for every component (also the ones that exit), every l >= 0 and every m, l_hat, m_hat. *)
Theorem psi_table_relation component l m l_hat m_hat : 0 <= l ->
  g_VSH_Psi_Component ROps component l m l_hat m_hat =
  rmap (cscale (if l_hat =? l + 1 then - IZR l else IZR (l + 1))) (g_VSH_Y_Component ROps component l m l_hat m_hat).
Proof.
  intros Hl. unfold g_VSH_Psi_Component, g_VSH_Y_Component.
  destruct (component =? 0) eqn:C0; [|destruct (component =? 1) eqn:C1; [|destruct (component =? 2) eqn:C2]];
  cbn [rmap rbind].
  all: repeat match goal with |- context [Z.eqb ?a ?b] => let E := fresh "E" in destruct (Z.eqb a b) eqn:E end;
       cbn [andb orb negb rmap rbind cscale fst snd cneg cmul_r cdiv_r ROps nmul ndiv nneg nsqrt nofZ nlit n0 nadd nsub];
       try reflexivity.
  all: try (repeat match goal with H : (_ =? _) = true |- _ => apply Z.eqb_eq in H | H : (_ =? _) = false |- _ => apply Z.eqb_neq in H end; lia).
  all: unfold cscale; cbn [fst snd]; f_equal; f_equal; rewrite ?opp_IZR, ?plus_IZR; try (field; fail); try lra.
  all: assert (HL: (0 <= IZR l)%R) by (apply IZR_le; lia).
  all: match goal with |- context [sqrt (1 / 1 * ?L * ?L * ?a * ?b / ?c / ?d)] =>
         replace (1 / 1 * L * L * a * b / c / d)%R with (L * L * (1 / 1 * a * b / c / d))%R by (unfold Rdiv; ring);
         rewrite sqrt_LL by lra end.
  all: unfold cmul_r, cdiv_r, cneg; cbn [fst snd ROps nmul ndiv nneg]; f_equal; field.
Qed.

(** ** The summation loop of Vector_Spherical_Harmonics_Y equals rhat * Y_lm, for every l >= 0, |m| <= l,
    under the three classical recurrences of the scalar harmonics (premises; [Y] is any function that
    satisfies them at the direction (theta, phi) - boost's spherical_harmonic in the library).  The terms the
    loop skips (|m_hat| > l_hat) carry coefficients that vanish, so nothing is lost. *)
Local Open Scope R_scope.

(* sqrt(a b / (2l+3) / (2l+1)) and sqrt(a b / (2l-1) / (2l+1)): the Clebsch-Gordan-like coefficients *)
Definition cup (a b l : Z) : R := sqrt (IZR a * IZR b / IZR (2 * l + 3) / IZR (2 * l + 1)).
Definition cdn (a b l : Z) : R := sqrt (IZR a * IZR b / IZR (2 * l - 1) / IZR (2 * l + 1)).

Lemma sqrt_coef_zero (a b : Z) (c d : R) : (a = 0 \/ b = 0)%Z -> sqrt (1 / 1 * IZR a * IZR b / c / d) = 0.
Proof.
  intros [-> | ->]; (replace (1 / 1 * _ * _ / c / d) with 0 by (unfold Rdiv; ring)); apply sqrt_0.
Qed.
Lemma sqrt_coef_1 (a b : Z) (c d : R) : sqrt (1 / 1 * IZR a * IZR b / c / d) = sqrt (IZR a * IZR b / c / d).
Proof. f_equal. unfold Rdiv. rewrite Rinv_1. ring. Qed.

Lemma guard_drop (G : bool) (a c y : R * R) :
  (G = false -> fst c = 0 /\ snd c = 0) ->
  (if G then Ok (cadd ROps a (cmul ROps c y)) else Ok a) = Ok (cadd ROps a (cmul ROps c y)).
Proof.
  destruct G; [reflexivity|]. intros H. destruct (H eq_refl) as [H1 H2].
  f_equal. destruct a as [a1 a2], c as [c1 c2], y as [y1 y2]. cbn [fst snd] in *. subst.
  unfold cadd, cmul. cbn [fst snd ROps nadd nmul nsub]. f_equal; ring.
Qed.

Ltac zeqb_resolve :=
  repeat match goal with
  | |- context [Z.eqb ?a ?b] =>
      first [ replace (Z.eqb a b) with true by (symmetry; apply Z.eqb_eq; lia)
            | replace (Z.eqb a b) with false by (symmetry; apply Z.eqb_neq; lia) ]
  end.

Ltac guard_side :=
  let Hg := fresh "Hg" in
  intros Hg; apply Z.leb_gt in Hg; cbn [fst snd cmul_r cdiv_r cneg ROps nmul ndiv nneg nsqrt nofZ nlit n0];
  try rewrite sqrt_coef_zero by lia; split; unfold Rdiv; ring.

Section VSH_Y.
Variables (Y : Z -> Z -> R * R) (theta phi : R).
Local Open Scope C_scope.

(** cos(theta) Y_lm = sqrt((l-m+1)(l+m+1)/((2l+1)(2l+3))) Y_{l+1,m} + sqrt((l-m)(l+m)/((2l-1)(2l+1))) Y_{l-1,m} *)
Hypothesis Rec_cos : forall l m, (0 <= l)%Z -> (Z.abs m <= l)%Z ->
  RtoC (cos theta) * Y l m =
  RtoC (cup (l - m + 1) (l + m + 1) l) * Y (l + 1)%Z m + RtoC (cdn (l - m) (l + m) l) * Y (l - 1)%Z m.
(** sin(theta) e^{i phi} Y_lm = - sqrt((l+m+1)(l+m+2)/..) Y_{l+1,m+1} + sqrt((l-m-1)(l-m)/..) Y_{l-1,m+1} *)
Hypothesis Rec_plus : forall l m, (0 <= l)%Z -> (Z.abs m <= l)%Z ->
  RtoC (sin theta) * (cos phi, sin phi) * Y l m =
  - RtoC (cup (l + m + 1) (l + m + 2) l) * Y (l + 1)%Z (m + 1)%Z + RtoC (cdn (l - m - 1) (l - m) l) * Y (l - 1)%Z (m + 1)%Z.
(** sin(theta) e^{-i phi} Y_lm = sqrt((l-m+1)(l-m+2)/..) Y_{l+1,m-1} - sqrt((l+m-1)(l+m)/..) Y_{l-1,m-1} *)
Hypothesis Rec_minus : forall l m, (0 <= l)%Z -> (Z.abs m <= l)%Z ->
  RtoC (sin theta) * (cos phi, (- sin phi)%R) * Y l m =
  RtoC (cup (l - m + 1) (l - m + 2) l) * Y (l + 1)%Z (m - 1)%Z - RtoC (cdn (l + m - 1) (l + m) l) * Y (l - 1)%Z (m - 1)%Z.

Ltac vsh_open :=
  unfold vsh_sum, vsh_term; cbn [rbind nofZ ROps];
  unfold g_VSH_Y_Component; zeqb_resolve; cbn [andb orb negb rbind];
  repeat (rewrite guard_drop by guard_side; cbn [rbind]);
  f_equal; unfold cup, cdn in *; rewrite !sqrt_coef_1.

Ltac vsh_hyp H H1 H2 :=
  unfold cup, cdn in H; unfold Cminus, Cplus, Copp, Cmult, RtoC in H; cbn [fst snd] in H;
  assert (H1 := f_equal fst H); assert (H2 := f_equal snd H); cbn [fst snd] in H1, H2; clear H.

Ltac vsh_close :=
  unfold Cminus, Cplus, Copp, Cmult, RtoC; cbn [fst snd];
  unfold cadd, cmul, cmul_r, cdiv_r, cneg; cbn [fst snd ROps nadd nsub nmul ndiv nneg nsqrt nofZ nlit n0].

Lemma vsh_sum_Y_x l m : (0 <= l)%Z -> (Z.abs m <= l)%Z ->
  vsh_sum ROps (g_VSH_Y_Component ROps) Y 0 l m = Ok (RtoC (sin theta * cos phi) * Y l m).
Proof.
  intros Hl Hm. vsh_open.
  pose proof (Rec_plus l m Hl Hm) as HP. pose proof (Rec_minus l m Hl Hm) as HM.
  vsh_hyp HP HP1 HP2. vsh_hyp HM HM1 HM2. vsh_close.
  f_equal; lra.
Qed.

Lemma vsh_sum_Y_y l m : (0 <= l)%Z -> (Z.abs m <= l)%Z ->
  vsh_sum ROps (g_VSH_Y_Component ROps) Y 1 l m = Ok (RtoC (sin theta * sin phi) * Y l m).
Proof.
  intros Hl Hm. vsh_open.
  pose proof (Rec_plus l m Hl Hm) as HP. pose proof (Rec_minus l m Hl Hm) as HM.
  vsh_hyp HP HP1 HP2. vsh_hyp HM HM1 HM2. vsh_close.
  f_equal; lra.
Qed.

Lemma vsh_sum_Y_z l m : (0 <= l)%Z -> (Z.abs m <= l)%Z ->
  vsh_sum ROps (g_VSH_Y_Component ROps) Y 2 l m = Ok (RtoC (cos theta) * Y l m).
Proof.
  intros Hl Hm. vsh_open.
  pose proof (Rec_cos l m Hl Hm) as HC.
  vsh_hyp HC HC1 HC2. vsh_close.
  f_equal; lra.
Qed.

(** Vector_Spherical_Harmonics_Y(l,m,theta,phi) = rhat(theta,phi) * Y_lm(theta,phi), component by component *)
Theorem vsh_y_is_rhat_times_Y l m : (0 <= l)%Z -> (Z.abs m <= l)%Z ->
  vector_spherical_harmonics_Y ROps Y l m =
  Ok [RtoC (sin theta * cos phi) * Y l m; RtoC (sin theta * sin phi) * Y l m; RtoC (cos theta) * Y l m].
Proof.
  intros Hl Hm. unfold vector_spherical_harmonics_Y, vsh_vector.
  rewrite vsh_sum_Y_x, vsh_sum_Y_y, vsh_sum_Y_z by assumption. reflexivity.
Qed.
End VSH_Y.

(** ** Vector_Spherical_Harmonics_Psi: from the table relation, the Psi summation is
    (l+1) * [lower half of the Y summation] - l * [upper half of the Y summation]; with the classical
    identity  r grad Y_lm = -l [rhat Y_lm]_(l+1) + (l+1) [rhat Y_lm]_(l-1)  (premise) it is r grad Y_lm,
    and it is tangential because the gradient on the sphere is (premise). *)
Section VSH_Psi.
Variables (Y : Z -> Z -> R * R).
Local Open Scope Z_scope.

(* p + s * a on pairs *)
Definition axpy (p : R * R) (s : R) (a : R * R) : R * R := (fst p + s * fst a, snd p + s * snd a)%R.

(* the three terms of one l_hat, starting from the accumulator [acc] *)
Definition half comp (i l m lh : Z) (acc : res (R * R)) : res (R * R) :=
  let t := vsh_term ROps comp Y i l m in t lh (m + 1) (t lh m (t lh (m - 1) acc)).

Lemma vsh_sum_halves comp i l m :
  vsh_sum ROps comp Y i l m = half comp i l m (l + 1) (half comp i l m (l - 1) (Ok (0%R, 0%R))).
Proof. reflexivity. Qed.

Lemma term_rel comp comp' i l m lh mh s p :
  comp' i l m lh mh = rmap (cscale s) (comp i l m lh mh) ->
  forall acc, vsh_term ROps comp' Y i l m lh mh (rmap (axpy p s) acc) = rmap (axpy p s) (vsh_term ROps comp Y i l m lh mh acc).
Proof.
  intros H acc. unfold vsh_term. destruct acc as [a| | |]; cbn [rmap rbind]; try reflexivity.
  destruct (Z.abs mh <=? lh); [|reflexivity].
  rewrite H. destruct (comp i l m lh mh) as [c| | |]; cbn [rmap rbind]; try reflexivity.
  f_equal. destruct a as [a1 a2], c as [c1 c2], p as [p1 p2], (Y lh mh) as [y1 y2].
  unfold axpy, cscale, cadd, cmul. cbn [fst snd ROps nadd nsub nmul]. f_equal; ring.
Qed.

Lemma half_rel comp comp' i l m lh s p :
  (forall mh, comp' i l m lh mh = rmap (cscale s) (comp i l m lh mh)) ->
  forall acc, half comp' i l m lh (rmap (axpy p s) acc) = rmap (axpy p s) (half comp i l m lh acc).
Proof. intros H acc. unfold half. rewrite !(term_rel comp comp') by apply H. reflexivity. Qed.

Theorem psi_sum_relation i l m d u : 0 <= l ->
  half (g_VSH_Y_Component ROps) i l m (l - 1) (Ok (0, 0)%R) = Ok d ->
  half (g_VSH_Y_Component ROps) i l m (l + 1) (Ok (0, 0)%R) = Ok u ->
  vsh_sum ROps (g_VSH_Psi_Component ROps) Y i l m = Ok (axpy (axpy (0, 0)%R (IZR (l + 1)) d) (- IZR l) u).
Proof.
  intros Hl Hd Hu. rewrite vsh_sum_halves.
  assert (E0 : forall p : R * R, Ok p = rmap (axpy p (IZR (l + 1))) (Ok (0, 0)%R)).
  { intros [p1 p2]. cbn. unfold axpy. cbn. f_equal. f_equal; ring. }
  rewrite (E0 (0, 0)%R).
  rewrite (half_rel (g_VSH_Y_Component ROps)).
  2:{ intros mh. rewrite psi_table_relation by assumption.
      replace (l - 1 =? l + 1) with false by (symmetry; apply Z.eqb_neq; lia). reflexivity. }
  rewrite Hd. cbn [rmap rbind].
  assert (E1 : forall p : R * R, Ok p = rmap (axpy p (- IZR l)) (Ok (0, 0)%R)).
  { intros [p1 p2]. cbn. unfold axpy. cbn. f_equal. f_equal; ring. }
  rewrite (E1 (axpy _ _ d)).
  rewrite (half_rel (g_VSH_Y_Component ROps)).
  2:{ intros mh. rewrite psi_table_relation by assumption. rewrite Z.eqb_refl. reflexivity. }
  rewrite Hu. reflexivity.
Qed.

(** the table always returns for components 0, 1, 2, hence so do the half sums *)
Lemma ycomp_ok i l m lh mh : (i = 0 \/ i = 1 \/ i = 2) -> exists c, g_VSH_Y_Component ROps i l m lh mh = Ok c.
Proof.
  intros [-> | [-> | ->]]; unfold g_VSH_Y_Component; cbn [Z.eqb];
  repeat match goal with |- context [Z.eqb ?a ?b] => destruct (Z.eqb a b) end; cbn [andb orb negb]; eexists; reflexivity.
Qed.

Lemma half_ok i l m lh a : (i = 0 \/ i = 1 \/ i = 2) -> exists r, half (g_VSH_Y_Component ROps) i l m lh (Ok a) = Ok r.
Proof.
  intros Hi. unfold half.
  assert (T: forall mh acc, (exists a, acc = Ok a) -> exists r, vsh_term ROps (g_VSH_Y_Component ROps) Y i l m lh mh acc = Ok r).
  { intros mh acc [b ->]. unfold vsh_term. cbn [rbind]. destruct (Z.abs mh <=? lh); [|eexists; reflexivity].
    destruct (ycomp_ok i l m lh mh Hi) as [c ->]. cbn [rbind]. eexists; reflexivity. }
  apply T, T, T. eexists; reflexivity.
Qed.

(** [G i l m]: the i-th Cartesian component of r grad Y_lm at the direction in question; [n i]: of rhat *)
Variables (G : Z -> Z -> Z -> R * R) (n : Z -> R).
Hypothesis Grad_identity : forall i l m d u, 0 <= l -> Z.abs m <= l -> (i = 0 \/ i = 1 \/ i = 2) ->
  half (g_VSH_Y_Component ROps) i l m (l - 1) (Ok (0, 0)%R) = Ok d ->
  half (g_VSH_Y_Component ROps) i l m (l + 1) (Ok (0, 0)%R) = Ok u ->
  G i l m = axpy (axpy (0, 0)%R (IZR (l + 1)) d) (- IZR l) u.
Hypothesis Grad_tangential : forall l m, 0 <= l -> Z.abs m <= l ->
  axpy (axpy (axpy (0, 0)%R (n 0) (G 0 l m)) (n 1) (G 1 l m)) (n 2) (G 2 l m) = (0, 0)%R.

Theorem psi_is_r_grad_Y l m : 0 <= l -> Z.abs m <= l ->
  vector_spherical_harmonics_Psi ROps Y l m = Ok [G 0 l m; G 1 l m; G 2 l m].
Proof.
  intros Hl Hm. unfold vector_spherical_harmonics_Psi, vsh_vector.
  assert (S: forall i, (i = 0 \/ i = 1 \/ i = 2) -> vsh_sum ROps (g_VSH_Psi_Component ROps) Y i l m = Ok (G i l m)).
  { intros i Hi. destruct (half_ok i l m (l - 1) (0, 0)%R Hi) as [d Hd]. destruct (half_ok i l m (l + 1) (0, 0)%R Hi) as [u Hu].
    rewrite (psi_sum_relation i l m d u Hl Hd Hu). f_equal. symmetry. apply Grad_identity; assumption. }
  rewrite !S by lia. reflexivity.
Qed.

Theorem psi_tangential l m p0 p1 p2 : 0 <= l -> Z.abs m <= l ->
  vector_spherical_harmonics_Psi ROps Y l m = Ok [p0; p1; p2] ->
  axpy (axpy (axpy (0, 0)%R (n 0) p0) (n 1) p1) (n 2) p2 = (0, 0)%R.
Proof.
  intros Hl Hm H. rewrite psi_is_r_grad_Y in H by assumption. injection H as <- <- <-. apply Grad_tangential; assumption.
Qed.
End VSH_Psi.

(** non-vacuity of the premises: they are satisfiable (trivially by the zero function; by the spherical harmonics
    in the intended reading), and (l, m) = (2, 1) lies in the range of the theorems *)
Example recurrences_satisfiable theta phi : let Y := fun (_ _ : Z) => (0, 0)%R in
  (forall l m, (RtoC (cos theta) * Y l m =
     RtoC (cup (l - m + 1) (l + m + 1) l) * Y (l + 1)%Z m + RtoC (cdn (l - m) (l + m) l) * Y (l - 1)%Z m)%C) /\
  (forall l m, (RtoC (sin theta) * (cos phi, sin phi) * Y l m =
     - RtoC (cup (l + m + 1) (l + m + 2) l) * Y (l + 1)%Z (m + 1)%Z + RtoC (cdn (l - m - 1) (l - m) l) * Y (l - 1)%Z (m + 1)%Z)%C) /\
  (0 <= 2)%Z /\ (Z.abs 1 <= 2)%Z.
Proof.
  cbn zeta. repeat split; try lia; intros l m; unfold Cmult, Cplus, Copp, RtoC; cbn [fst snd]; f_equal; ring.
Qed.
