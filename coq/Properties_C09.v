(** C09 — interpolation results do not depend on the history of earlier calls.
    Property theorems only; each is closed by [exact] of a lemma proved in C09_Proofs.v.

    All theorems are stated for an arbitrary number type [T] with operations [Ops] of which only
    [OrdLaws Ops] is assumed (the comparison is a strict total order; arithmetic is uninterpreted):
    they hold verbatim for IEEE doubles without NaN, rounding included.  The table is the index
    function [xv] on [0, N); [increasing] is what the constructor checks; [size_ok N] is 2 <= N <= 2^30
    (no overflow in the C++ int arithmetic of the searches).  [inv N st] is jLast <= N-2.
    [le], [lt] are the order of [Ops]; [canon x j] says xs[j] <= x < xs[j+1], or j = N-2 and
    x <= xs[N-1]; [seg x j] says xs[j] <= x <= xs[j+1]. *)
From Coq Require Import ZArith List Reals.
From LP Require Import Num NumR OrdLaws C09_Model C09_Model2 C09_Proofs C09_Proofs_Ctor C09_Proofs_Session C09_Proofs_Table C09_Proofs_Save C09_Proofs_Integ C09_Proofs_Eval.
Import ListNotations.
Local Open Scope Z_scope.

(** "Bisection over [jLeft,jRight]": for any bracket inside the table that encloses x, the loop ends
    within its fuel jRight-jLeft, reads only inside the table (result [Ok]) and returns an index of the
    bracket whose closed segment contains x; x < xs[j+1] unless j+1 is the right end of the bracket. *)
Theorem C09_bisection_spec :
  forall (T : Type) (Ops : NumOps T), OrdLaws Ops -> forall (N : Z) (xv : Z -> T), size_ok N ->
  forall (fuel : nat) (x : T) (jl jr : Z),
    0 <= jl -> jl < jr -> jr <= N - 1 -> Z.of_nat fuel >= jr - jl ->
    le Ops (xv jl) x -> le Ops x (xv jr) ->
    exists j, bisection Ops N xv fuel x jl jr = Ok j /\ jl <= j < jr /\
              le Ops (xv j) x /\ le Ops x (xv (j + 1)) /\ (lt Ops x (xv (j + 1)) \/ j + 1 = jr).
Proof. exact @bisection_spec. Qed.
Print Assumptions C09_bisection_spec.

(** "Hunt: geometric expansion up/down from jLast with range clamps, then bisection": from every cached
    index jLast <= N-2 and every x in the domain, no out-of-bounds read, no exhausted loop, and the result
    is a segment j <= N-2 with xs[j] <= x <= xs[j+1]. *)
Theorem C09_hunt_spec :
  forall (T : Type) (Ops : NumOps T), OrdLaws Ops -> forall (N : Z) (xv : Z -> T),
  increasing Ops N xv -> size_ok N ->
  forall (x : T) (jLast : Z), 0 <= jLast <= N - 2 -> le Ops (xv 0) x -> le Ops x (xv (N - 1)) ->
    exists j, hunt Ops N xv x jLast = Ok j /\ seg Ops N xv x j.
Proof. exact @hunt_spec. Qed.
Print Assumptions C09_hunt_spec.

(** THE segment of x is unique. *)
Theorem C09_canonical_segment_unique :
  forall (T : Type) (Ops : NumOps T), OrdLaws Ops -> forall (N : Z) (xv : Z -> T), increasing Ops N xv ->
  forall (x : T) (i j : Z), canon Ops N xv x i -> canon Ops N xv x j -> i = j.
Proof. exact @canon_unique. Qed.
Print Assumptions C09_canonical_segment_unique.

(** "Locate: domain/tolerance test, search selection, cache update": whatever the cache holds
    (any jLast <= N-2, either value of correlated_calls), Locate either returns an index j <= N-2 — THE
    segment of x whenever x lies in the domain, tabulated abscissae and both ends included — or ends the
    process, which happens only for x outside the domain or NaN.  Never out of bounds, never out of fuel. *)
Theorem C09_locate_canonical :
  forall (T : Type) (Ops : NumOps T), OrdLaws Ops -> forall (N : Z) (xv : Z -> T),
  increasing Ops N xv -> size_ok N ->
  forall (st : state T) (x : T), inv N st ->
    (exists j, locate_index Ops N xv st x = Ok j /\ 0 <= j <= N - 2 /\
               (in_domain Ops N xv x -> canon Ops N xv x j) /\ nisnan Ops x = false) \/
    (locate_index Ops N xv st x = Exit /\ (nisnan Ops x = true \/ ~ in_domain Ops N xv x)).
Proof. exact @locate_index_spec. Qed.
Print Assumptions C09_locate_canonical.

(** The index Locate returns does not depend on the cache, for EVERY argument: in the domain by
    uniqueness of the segment, outside because that branch does not read the cache. *)
Theorem C09_locate_history_free :
  forall (T : Type) (Ops : NumOps T), OrdLaws Ops -> forall (N : Z) (xv : Z -> T),
  increasing Ops N xv -> size_ok N ->
  forall (st1 st2 : state T) (x : T), inv N st1 -> inv N st2 ->
    locate_index Ops N xv st1 x = locate_index Ops N xv st2 x.
Proof. exact @locate_index_indep. Qed.
Print Assumptions C09_locate_history_free.

(** The cache left by a Locate after any history: jLast is the returned index, and the next call hunts
    iff jLast_before <= j < jLast_before + 10 (the unsigned wrap-around of fabs(j - jLast) < 10). *)
Theorem C09_cache_after_locate :
  forall (T : Type) (Ops : NumOps T), OrdLaws Ops -> forall (N : Z) (xv : Z -> T),
  increasing Ops N xv -> size_ok N ->
  forall (E : evals T) (h : list (op T)) (x : T),
    let st := runE Ops N xv E h (init Ops) in
    forall s j, stepE Ops N xv E st (OpLocate x) = (s, OIndex j) ->
      jLast s = j /\ 0 <= j <= N - 2 /\ prefactor s = prefactor st /\
      correlated s = ((jLast st <=? j) && (j <? jLast st + 10))%bool.
Proof. intros T Ops OL N xv Hi Hn E. exact (cache_after_locate Ops OL N xv Hi Hn _ _ _ _ _). Qed.
Print Assumptions C09_cache_after_locate.

(** The state invariant jLast <= N-2 holds after every history of operations. *)
Theorem C09_invariant :
  forall (T : Type) (Ops : NumOps T), OrdLaws Ops -> forall (N : Z) (xv : Z -> T),
  increasing Ops N xv -> size_ok N ->
  forall (E : evals T) (h : list (op T)), inv N (runE Ops N xv E h (init Ops)).
Proof.
  intros T Ops OL N xv Hi Hn E h.
  exact (inv_run Ops OL N xv Hi Hn _ _ _ _ _ h (init Ops) (inv_fresh N Hn (n1 Ops))).
Qed.
Print Assumptions C09_invariant.

(** "After any sequence of evaluations, derivatives, integrals, extremum queries, index look-ups, copies
    and assignments ..., each further query returns what a freshly constructed object returns for that
    single query": for every history h and every operation q, the output on the used object — located
    indices and value — is the same term as on a fresh object whose prefactor is the one determined by
    the Set_Prefactor / Multiply calls of h.  For doubles: bit-identical, at tabulated abscissae too. *)
Theorem C09_history_free :
  forall (T : Type) (Ops : NumOps T), OrdLaws Ops -> forall (N : Z) (xv : Z -> T),
  increasing Ops N xv -> size_ok N ->
  forall (E : evals T) (h : list (op T)) (q : op T),
    snd (stepE Ops N xv E (runE Ops N xv E h (init Ops)) q) =
    snd (stepE Ops N xv E (fresh (prefactor_after Ops h (n1 Ops))) q).
Proof. intros T Ops OL N xv Hi Hn E. exact (history_free Ops OL N xv Hi Hn _ _ _ _ _). Qed.
Print Assumptions C09_history_free.

(** "... nothing else alters the object's observable behaviour": two objects whose histories contain
    the same prefactor calls cannot be told apart by any continuation of calls. *)
Theorem C09_histories_indistinguishable :
  forall (T : Type) (Ops : NumOps T), OrdLaws Ops -> forall (N : Z) (xv : Z -> T),
  increasing Ops N xv -> size_ok N ->
  forall (E : evals T) (h1 h2 rest : list (op T)) (q : op T),
    prefactor_after Ops h1 (n1 Ops) = prefactor_after Ops h2 (n1 Ops) ->
    snd (stepE Ops N xv E (runE Ops N xv E rest (runE Ops N xv E h1 (init Ops))) q) =
    snd (stepE Ops N xv E (runE Ops N xv E rest (runE Ops N xv E h2 (init Ops))) q).
Proof. intros T Ops OL N xv Hi Hn E. exact (histories_indistinguishable Ops OL N xv Hi Hn _ _ _ _ _). Qed.
Print Assumptions C09_histories_indistinguishable.

(** No operation of any history reads outside the table or runs a search loop beyond its bound. *)
Theorem C09_no_out_of_bounds :
  forall (T : Type) (Ops : NumOps T), OrdLaws Ops -> forall (N : Z) (xv : Z -> T),
  increasing Ops N xv -> size_ok N ->
  forall (E : evals T) (h : list (op T)) (q : op T),
    snd (stepE Ops N xv E (runE Ops N xv E h (init Ops)) q) <> OOOB /\
    snd (stepE Ops N xv E (runE Ops N xv E h (init Ops)) q) <> OFuel.
Proof.
  intros T Ops OL N xv Hi Hn E h q.
  exact (no_oob_no_fuel Ops OL N xv Hi Hn _ _ _ _ _ _ q
           (inv_run Ops OL N xv Hi Hn _ _ _ _ _ h (init Ops) (inv_fresh N Hn (n1 Ops)))).
Qed.
Print Assumptions C09_no_out_of_bounds.

(** "Set_Prefactor and Multiply change all outputs by exactly the stated factor and nothing else
    alters the object's observable behaviour": the prefactor after a history is computed from its
    Set_Prefactor (p := f) and Multiply (p := p * f) calls alone ... *)
Theorem C09_prefactor_only_scales :
  forall (T : Type) (Ops : NumOps T), OrdLaws Ops -> forall (N : Z) (xv : Z -> T),
  increasing Ops N xv -> size_ok N ->
  forall (E : evals T) (h : list (op T)),
    prefactor (runE Ops N xv E h (init Ops)) = prefactor_after Ops h (n1 Ops).
Proof.
  intros T Ops OL N xv Hi Hn E h.
  exact (prefactor_run Ops OL N xv Hi Hn _ _ _ _ _ h (init Ops) (inv_fresh N Hn (n1 Ops))).
Qed.
Print Assumptions C09_prefactor_only_scales.

(** ... and after any history Interpolate(x) is exactly that prefactor times the prefactor-free value
    of THE segment of x (one multiplication), likewise Derivative(x, 1..3). *)
Theorem C09_interpolate_after_history :
  forall (T : Type) (Ops : NumOps T), OrdLaws Ops -> forall (N : Z) (xv : Z -> T),
  increasing Ops N xv -> size_ok N ->
  forall (E : evals T) (h : list (op T)) (x : T), nisnan Ops x = false -> in_domain Ops N xv x ->
    exists j, snd (stepE Ops N xv E (runE Ops N xv E h (init Ops)) (OpInterpolate x)) =
                OValue [j] (nmul Ops (prefactor_after Ops h (n1 Ops)) (ev_seg E j x)) /\
              canon Ops N xv x j.
Proof. intros T Ops OL N xv Hi Hn E. exact (interpolate_after_history Ops OL N xv Hi Hn _ _ _ _ _). Qed.
Print Assumptions C09_interpolate_after_history.

Theorem C09_derivative_after_history :
  forall (T : Type) (Ops : NumOps T), OrdLaws Ops -> forall (N : Z) (xv : Z -> T),
  increasing Ops N xv -> size_ok N ->
  forall (E : evals T) (h : list (op T)) (x : T) (k : Z), nisnan Ops x = false -> in_domain Ops N xv x -> 1 <= k <= 3 ->
    exists j, snd (stepE Ops N xv E (runE Ops N xv E h (init Ops)) (OpDerivative x k)) =
                OValue [j] (nmul Ops (prefactor_after Ops h (n1 Ops)) (ev_deriv E j x k)) /\
              canon Ops N xv x j.
Proof. intros T Ops OL N xv Hi Hn E. exact (derivative_after_history Ops OL N xv Hi Hn _ _ _ _ _). Qed.
Print Assumptions C09_derivative_after_history.

(** Interpolation_2D ("1D or 2D"): with its two helper objects the same holds — after any history of
    Interpolate(x,y) / Set_Prefactor / Multiply / copies, every operation answers as on a fresh object with
    the prefactor of the history; no out-of-bounds read of either axis or of the value table. *)
Theorem C09_history_free_2d :
  forall (T : Type) (Ops : NumOps T), OrdLaws Ops ->
  forall (Nx : Z) (xv : Z -> T) (Ny : Z) (yv : Z -> T) (fv : Z -> Z -> T),
  increasing Ops Nx xv -> increasing Ops Ny yv -> size_ok Nx -> size_ok Ny ->
  forall (h : list (op2 T)) (q : op2 T),
    snd (step2 Ops Nx xv Ny yv fv (run2 Ops Nx xv Ny yv fv h (init2 Ops)) q) =
    snd (step2 Ops Nx xv Ny yv fv (mkState2 (init Ops) (init Ops) (prefactor2_after Ops h (n1 Ops))) q).
Proof. exact @history_free2. Qed.
Print Assumptions C09_history_free_2d.

Theorem C09_no_out_of_bounds_2d :
  forall (T : Type) (Ops : NumOps T), OrdLaws Ops ->
  forall (Nx : Z) (xv : Z -> T) (Ny : Z) (yv : Z -> T) (fv : Z -> Z -> T),
  increasing Ops Nx xv -> increasing Ops Ny yv -> size_ok Nx -> size_ok Ny ->
  forall (h : list (op2 T)) (q : op2 T),
    snd (step2 Ops Nx xv Ny yv fv (run2 Ops Nx xv Ny yv fv h (init2 Ops)) q) <> O2OOB /\
    snd (step2 Ops Nx xv Ny yv fv (run2 Ops Nx xv Ny yv fv h (init2 Ops)) q) <> O2Fuel.
Proof. exact @no_oob_no_fuel2. Qed.
Print Assumptions C09_no_out_of_bounds_2d.

(** The premise [increasing] is what the constructor enforces: it exits when
    x_values[i] <= x_values[i-1] for some 1 <= i < N. *)
Theorem C09_increasing_of_constructor_check :
  forall (T : Type) (Ops : NumOps T), OrdLaws Ops -> forall (N : Z) (xv : Z -> T),
  (forall i, 1 <= i < N -> nleb Ops (xv i) (xv (i - 1)) = false) -> increasing Ops N xv.
Proof. exact @increasing_of_adjacent. Qed.
Print Assumptions C09_increasing_of_constructor_check.

(** Arguments that are NaN (outside [OrdLaws]; [nisnan] is the std::isnan test that Locate makes first):
    in every state of the object, whatever the table, Locate / Interpolate / Derivative end the process —
    on used and fresh objects alike.  (Before the fix of K-C09-1 Locate(NaN) returned the cached index.)
    The history theorems above need no NaN premise: they hold for NaN arguments too, by this exit. *)
Theorem C09_nan_argument_exits :
  forall (T : Type) (Ops : NumOps T) (N : Z) (xv : Z -> T) (E : evals T) (st : state T) (x : T),
    nisnan Ops x = true ->
    locate_index Ops N xv st x = Exit /\
    snd (stepE Ops N xv E st (OpLocate x)) = OExit /\
    snd (stepE Ops N xv E st (OpInterpolate x)) = OExit /\
    (forall k, snd (stepE Ops N xv E st (OpDerivative x k)) = OExit).
Proof. exact @nan_argument_exits. Qed.
Print Assumptions C09_nan_argument_exits.

(** The constructors, every overload, with the unit arguments x_dim / y_dim / f_dim ("Set_Prefactor and
    Multiply change all outputs by exactly the stated factor" must hold for objects built with units too):
    a unit argument > 0 multiplies the table it belongs to and NOTHING else — the constructed object
    starts with prefactor 1, jLast 0, correlated_calls false whatever the unit arguments are; the public
    [domain] is the pair of the first and last scaled abscissa; the strict-increase test has passed on the
    abscissae the object HOLDS (after the unit conversion). *)
Theorem C09_constructor_units_scale_tables_only :
  forall (T : Type) (Ops : NumOps T) (xs fs : list T) (x_dim f_dim : T) (o : object1 T),
    construct1 Ops xs fs x_dim f_dim = Ok o ->
    o_state o = init Ops /\
    o_xs o = scale_units Ops x_dim xs /\ o_fs o = scale_units Ops f_dim fs /\
    o_dom o = (nth0 Ops (o_xs o) 0, nth0 Ops (o_xs o) (length xs - 1)) /\
    length xs = length fs /\ (2 <= length xs)%nat /\ strictly_increasing Ops (o_xs o) = true.
Proof. exact @construct1_spec. Qed.
Print Assumptions C09_constructor_units_scale_tables_only.

(** a unit argument that is not > 0 (the default -1.0, zero, negative values) leaves the table alone *)
Theorem C09_unit_argument_inactive :
  forall (T : Type) (Ops : NumOps T) (dim : T) (l : list T),
    ngtb Ops dim (n0 Ops) = false -> scale_units Ops dim l = l.
Proof. exact @scale_units_inactive. Qed.
Print Assumptions C09_unit_argument_inactive.

Theorem C09_constructor_rows_initial_state :
  forall (T : Type) (Ops : NumOps T) (data : list (list T)) (x_dim f_dim : T) (o : object1 T),
    construct1_rows Ops data x_dim f_dim = Ok o -> o_state o = init Ops.
Proof. exact @construct1_rows_state. Qed.
Print Assumptions C09_constructor_rows_initial_state.

Theorem C09_constructor_2d_units_scale_tables_only :
  forall (T : Type) (Ops : NumOps T) (xs ys : list T) (f : list (list T)) (x_dim y_dim f_dim : T) (o : object2 T),
    construct2 Ops xs ys f x_dim y_dim f_dim = Ok o ->
    o2_state o = init2 Ops /\
    o2_xs o = scale_units Ops x_dim xs /\ o2_ys o = scale_units Ops y_dim ys /\
    o2_f o = (if ngtb Ops f_dim (n0 Ops) then map (map (fun v => nmul Ops v f_dim)) f else f).
Proof. exact @construct2_spec. Qed.
Print Assumptions C09_constructor_2d_units_scale_tables_only.

Theorem C09_constructor_2d_rows_initial_state :
  forall (T : Type) (Ops : NumOps T) (data : list (list T)) (x_dim y_dim f_dim : T) (o : object2 T),
    construct2_rows Ops data x_dim y_dim f_dim = Ok o -> o2_state o = init2 Ops.
Proof. exact @construct2_rows_state. Qed.
Print Assumptions C09_constructor_2d_rows_initial_state.

(** Consequently, on an object built with ANY unit arguments, after any history the prefactor is the one
    determined by the Set_Prefactor / Multiply calls of the history alone (the unit f_dim is not part of
    it and cannot be lost by Set_Prefactor), and every further operation answers as on a fresh object of
    the same (scaled) table carrying that prefactor. *)
Theorem C09_units_do_not_enter_prefactor :
  forall (T : Type) (Ops : NumOps T), OrdLaws Ops ->
  forall (xs fs : list T) (x_dim f_dim : T) (o : object1 T),
    construct1 Ops xs fs x_dim f_dim = Ok o ->
    let N := Z.of_nat (length (o_xs o)) in
    let xv := table_of Ops (o_xs o) in
    increasing Ops N xv -> size_ok N ->
    forall (E : evals T) (h : list (op T)) (q : op T),
      prefactor (runE Ops N xv E h (o_state o)) = prefactor_after Ops h (n1 Ops) /\
      snd (stepE Ops N xv E (runE Ops N xv E h (o_state o)) q) =
      snd (stepE Ops N xv E (fresh (prefactor_after Ops h (n1 Ops))) q).
Proof. exact @units_not_in_prefactor. Qed.
Print Assumptions C09_units_do_not_enter_prefactor.

(** "copies and assignments ...; copies taken at arbitrary points of the sequence": sessions of SEVERAL objects
    alive in one process, holding possibly different tables (table number t: size tabN t, abscissae tabx t,
    evaluation parameters E t), in numbered slots.  A session is any list of: a member call on the object in a
    slot, construction of an object of some table in a slot (or assignment from a temporary), copy
    construction / copy assignment from slot a to slot b, std::swap, destruction.  [pf_session1 h] is the
    bookkeeping that ignores every query: which table each slot holds and which prefactor, as moved by the
    constructions / copies / swaps / destructions and changed by Set_Prefactor / Multiply alone.  After ANY
    session, the object in slot k answers ANY call exactly as a fresh object of the table t it holds according
    to the bookkeeping, with the prefactor p of the bookkeeping: whatever happened to the source of a copy after
    the copy was taken (further calls, another table assigned in place, destruction) or to the copies of an
    object is invisible on it; and a slot that is empty in the bookkeeping is empty. *)
Theorem C09_session_history_free :
  forall (T : Type) (Ops : NumOps T), OrdLaws Ops ->
  forall (tabN : nat -> Z) (tabx : nat -> Z -> T) (E : nat -> evals T),
  (forall t, increasing Ops (tabN t) (tabx t)) -> (forall t, size_ok (tabN t)) ->
  forall (h : list (sop (op T))) (k : nat) (q : op T),
    let step_of := fun t => stepE Ops (tabN t) (tabx t) (E t) in
    let s := srun _ _ _ step_of (init Ops) (@ONone T) h [] in
    (forall t p, get_slot T k (pf_session1 Ops h) = Some (mkSobj t p) ->
       snd (sstep _ _ _ step_of (init Ops) (@ONone T) s (SQuery k q)) = snd (step_of t (fresh p) q)) /\
    (get_slot T k (pf_session1 Ops h) = None -> get_slot _ k s = None).
Proof. intros T Ops OL tabN tabx E Hi Hn. exact (session_history_free Ops OL tabN tabx E Hi Hn). Qed.
Print Assumptions C09_session_history_free.

(** the same for Interpolation_2D objects (with their two helper objects each) *)
Theorem C09_session_history_free_2d :
  forall (T : Type) (Ops : NumOps T), OrdLaws Ops ->
  forall (tNx : nat -> Z) (tx : nat -> Z -> T) (tNy : nat -> Z) (ty : nat -> Z -> T) (tf : nat -> Z -> Z -> T),
  (forall t, increasing Ops (tNx t) (tx t)) -> (forall t, increasing Ops (tNy t) (ty t)) ->
  (forall t, size_ok (tNx t)) -> (forall t, size_ok (tNy t)) ->
  forall (h : list (sop (op2 T))) (k : nat) (q : op2 T),
    let step_of := fun t => step2 Ops (tNx t) (tx t) (tNy t) (ty t) (tf t) in
    let s := srun _ _ _ step_of (init2 Ops) (@O2None T) h [] in
    (forall t p, get_slot T k (pf_session2 Ops h) = Some (mkSobj t p) ->
       snd (sstep _ _ _ step_of (init2 Ops) (@O2None T) s (SQuery k q)) = snd (step_of t (mkState2 (init Ops) (init Ops) p) q)) /\
    (get_slot T k (pf_session2 Ops h) = None -> get_slot _ k s = None).
Proof.
  intros T Ops OL tNx tx tNy ty tf Hx Hy Hnx Hny.
  exact (session_history_free2 Ops OL tNx tx tNy ty tf Hx Hy Hnx Hny).
Qed.
Print Assumptions C09_session_history_free_2d.

(** ** From the constructor's checks to the premise [increasing] of the theorems above.

    "on tables of 3..2000 points": the 1-D constructor converts the units first and tests x_values[i] <= x_values[i-1] on
    the CONVERTED abscissae, the table the searches run on (since the repair F45 of the former finding K-C09-2).  Every
    object a 1-D constructor call returns — whatever the unit arguments, whatever the multiplication does (for doubles:
    rounding included) — holds a strictly increasing table of at least two points, from the order laws alone.  A unit
    argument whose rounding multiplication maps two abscissae to one ends the process in the constructor. *)
Theorem C09_constructor_table_increasing :
  forall (T : Type) (Ops : NumOps T), OrdLaws Ops ->
  forall (xs fs : list T) (x_dim f_dim : T) (o : object1 T),
    construct1 Ops xs fs x_dim f_dim = Ok o ->
    increasing Ops (Z.of_nat (length (o_xs o))) (table_of Ops (o_xs o)) /\
    2 <= Z.of_nat (length (o_xs o)) /\ length (o_xs o) = length xs.
Proof. exact @ctor1_table. Qed.
Print Assumptions C09_constructor_table_increasing.

(** the same for the data-table overload Interpolation(data, x_dim, f_dim) and the default constructor *)
Theorem C09_constructor_rows_table_increasing :
  forall (T : Type) (Ops : NumOps T), OrdLaws Ops ->
  forall (data : list (list T)) (x_dim f_dim : T) (o : object1 T),
    construct1_rows Ops data x_dim f_dim = Ok o ->
    increasing Ops (Z.of_nat (length (o_xs o))) (table_of Ops (o_xs o)) /\ 2 <= Z.of_nat (length (o_xs o)).
Proof. exact @ctor1_rows_table. Qed.
Print Assumptions C09_constructor_rows_table_increasing.

Theorem C09_constructor_default_table_increasing :
  forall (T : Type) (Ops : NumOps T), OrdLaws Ops -> forall (o : object1 T),
    construct1_default Ops = Ok o ->
    increasing Ops (Z.of_nat (length (o_xs o))) (table_of Ops (o_xs o)) /\ 2 <= Z.of_nat (length (o_xs o)).
Proof. exact @ctor1_default_table. Qed.
Print Assumptions C09_constructor_default_table_increasing.

(** ... so that for EVERY constructed object (at most 2^30 points) the history theorem needs no premise on the table:
    after any history every operation answers as on a fresh object with the prefactor of the history, without
    out-of-bounds reads or exhausted loops. *)
Theorem C09_constructed_history_free :
  forall (T : Type) (Ops : NumOps T), OrdLaws Ops ->
  forall (xs fs : list T) (x_dim f_dim : T) (o : object1 T),
    construct1 Ops xs fs x_dim f_dim = Ok o ->
    Z.of_nat (length xs) <= 1073741824 ->
    let N := Z.of_nat (length (o_xs o)) in
    let xv := table_of Ops (o_xs o) in
    forall (E : evals T) (h : list (op T)) (q : op T),
      prefactor (runE Ops N xv E h (o_state o)) = prefactor_after Ops h (n1 Ops) /\
      snd (stepE Ops N xv E (runE Ops N xv E h (o_state o)) q) =
      snd (stepE Ops N xv E (fresh (prefactor_after Ops h (n1 Ops))) q) /\
      snd (stepE Ops N xv E (runE Ops N xv E h (o_state o)) q) <> @OOOB T /\
      snd (stepE Ops N xv E (runE Ops N xv E h (o_state o)) q) <> @OFuel T.
Proof. exact @constructed_history_free. Qed.
Print Assumptions C09_constructed_history_free.

(** (The witness of the old defect — a number type with the order laws and a monotone rounding multiplication on which
    the constructor with the OLD order, test before conversion, returned a history-dependent object — is kept as the
    lemma [old_order_history_dependent] about [construct1_old_order] in C09_Proofs_Table.v; it is not a property of the
    code any more: the repaired constructor exits on that input, [cx_exits].) *)

(** Interpolation_2D scales its abscissae first and builds the helper objects x_int, y_int from the scaled lists with the
    DEFAULT unit arguments -1.0, so the helpers' check sees the tables the searches run on: every object a 2-D constructor
    call returns (grid overload and data-table overload, any unit arguments) has strictly increasing axes of at least two
    points — from the order laws and the fact that the default -1.0 is not > 0.0 (first premise; the arithmetic of [Ops] is
    uninterpreted, so this fact about the literal has to be stated: it holds for doubles, reals, integers —
    [dflt_inactive_examples]; it says that the helper constructors do not scale a second time).  A unit argument that
    collapses two abscissae ends the process in the constructor. *)
Theorem C09_constructor_2d_tables_increasing :
  forall (T : Type) (Ops : NumOps T), OrdLaws Ops ->
  forall (xs ys : list T) (f : list (list T)) (x_dim y_dim f_dim : T) (o : object2 T),
    ngtb Ops (dflt_dim Ops) (n0 Ops) = false ->
    construct2 Ops xs ys f x_dim y_dim f_dim = Ok o ->
    increasing Ops (Z.of_nat (length (o2_xs o))) (table_of Ops (o2_xs o)) /\
    increasing Ops (Z.of_nat (length (o2_ys o))) (table_of Ops (o2_ys o)) /\
    2 <= Z.of_nat (length (o2_xs o)) /\ 2 <= Z.of_nat (length (o2_ys o)) /\
    length (o2_xs o) = length xs /\ length (o2_ys o) = length ys.
Proof. exact @ctor2_tables. Qed.
Print Assumptions C09_constructor_2d_tables_increasing.

Theorem C09_constructor_2d_rows_tables_increasing :
  forall (T : Type) (Ops : NumOps T), OrdLaws Ops ->
  forall (data : list (list T)) (x_dim y_dim f_dim : T) (o : object2 T),
    ngtb Ops (dflt_dim Ops) (n0 Ops) = false ->
    construct2_rows Ops data x_dim y_dim f_dim = Ok o ->
    increasing Ops (Z.of_nat (length (o2_xs o))) (table_of Ops (o2_xs o)) /\
    increasing Ops (Z.of_nat (length (o2_ys o))) (table_of Ops (o2_ys o)) /\
    2 <= Z.of_nat (length (o2_xs o)) /\ 2 <= Z.of_nat (length (o2_ys o)).
Proof. exact @ctor2_rows_tables. Qed.
Print Assumptions C09_constructor_2d_rows_tables_increasing.

(** the 2-D history theorem for a CONSTRUCTED object, at full strength: no premise on the tables (only the size bound and
    the fact about the default unit argument) *)
Theorem C09_constructed_2d_history_free :
  forall (T : Type) (Ops : NumOps T), OrdLaws Ops ->
  forall (xs ys : list T) (f : list (list T)) (x_dim y_dim f_dim : T) (o : object2 T),
    ngtb Ops (dflt_dim Ops) (n0 Ops) = false ->
    construct2 Ops xs ys f x_dim y_dim f_dim = Ok o ->
    Z.of_nat (length xs) <= 1073741824 -> Z.of_nat (length ys) <= 1073741824 ->
    let Nx := Z.of_nat (length (o2_xs o)) in let xv := table_of Ops (o2_xs o) in
    let Ny := Z.of_nat (length (o2_ys o)) in let yv := table_of Ops (o2_ys o) in
    forall (fv : Z -> Z -> T) (h : list (op2 T)) (q : op2 T),
      snd (step2 Ops Nx xv Ny yv fv (run2 Ops Nx xv Ny yv fv h (o2_state o)) q) =
      snd (step2 Ops Nx xv Ny yv fv (mkState2 (init Ops) (init Ops) (prefactor2_after Ops h (n1 Ops))) q) /\
      snd (step2 Ops Nx xv Ny yv fv (run2 Ops Nx xv Ny yv fv h (o2_state o)) q) <> @O2OOB T /\
      snd (step2 Ops Nx xv Ny yv fv (run2 Ops Nx xv Ny yv fv h (o2_state o)) q) <> @O2Fuel T.
Proof. exact @constructed2_history_free. Qed.
Print Assumptions C09_constructed_2d_history_free.

(** Interpolation_2D::Global_Minimum / Global_Maximum (operations of [op2] since this pass: C09_history_free_2d,
    C09_no_out_of_bounds_2d and the session theorem cover them): they read the value table and the prefactor, neither
    helper object; the row-wise min_element / max_element scans end on the least and the greatest entry of the WHOLE
    table (for any Nx x Ny table, by induction over the rows), and the result is std::min resp. std::max of the two
    products with the prefactor. *)
Theorem C09_global_extrema_2d_spec :
  forall (T : Type) (Ops : NumOps T), OrdLaws Ops ->
  forall (Nx Ny : Z) (fv : Z -> Z -> T), size_ok Nx -> size_ok Ny ->
  forall (mx : bool) (p : T),
    exists f_min f_max,
      glob2 Ops Nx Ny fv mx p = Ok ((if mx then nmax Ops else nmin Ops) (nmul Ops p f_min) (nmul Ops p f_max)) /\
      attained Nx Ny fv f_min /\ (forall i j, 0 <= i < Nx -> 0 <= j < Ny -> le Ops f_min (fv i j)) /\
      attained Nx Ny fv f_max /\ (forall i j, 0 <= i < Nx -> 0 <= j < Ny -> le Ops (fv i j) f_max).
Proof. exact @glob2_spec. Qed.
Print Assumptions C09_global_extrema_2d_spec.

(** "Set_Prefactor and Multiply change all outputs by exactly the stated factor", for the 2-D extrema: if the
    multiplication by the prefactor p is monotone (p >= 0) or antitone (p <= 0) — IEEE multiplication is, rounding
    included, and so is the real one — then Global_Minimum is the least and Global_Maximum the greatest of the products
    p * f[i][j], and is one of them (also for negative p, where minimum and maximum change places). *)
Theorem C09_global_extrema_2d_scaled :
  forall (T : Type) (Ops : NumOps T), OrdLaws Ops ->
  forall (Nx Ny : Z) (fv : Z -> Z -> T), size_ok Nx -> size_ok Ny ->
  forall (mx : bool) (p : T),
    ((forall a b, le Ops a b -> le Ops (nmul Ops p a) (nmul Ops p b)) \/
     (forall a b, le Ops a b -> le Ops (nmul Ops p b) (nmul Ops p a))) ->
    exists v, glob2 Ops Nx Ny fv mx p = Ok v /\
      (exists i j, 0 <= i < Nx /\ 0 <= j < Ny /\ v = nmul Ops p (fv i j)) /\
      (forall i j, 0 <= i < Nx -> 0 <= j < Ny ->
         if mx then le Ops (nmul Ops p (fv i j)) v else le Ops v (nmul Ops p (fv i j))).
Proof. exact @glob2_scaled. Qed.
Print Assumptions C09_global_extrema_2d_scaled.

(** "each further query ...": not only ONE further query but every CONTINUATION of calls — each issued on the object the
    previous ones left behind — is answered, call by call, as on a fresh object carrying the prefactor of the history
    ([traceE rest st]: the list of the outputs of the calls [rest] started on the object [st]). *)
Theorem C09_continuation_history_free :
  forall (T : Type) (Ops : NumOps T), OrdLaws Ops -> forall (N : Z) (xv : Z -> T),
  increasing Ops N xv -> size_ok N ->
  forall (E : evals T) (h rest : list (op T)),
    traceE Ops N xv E rest (runE Ops N xv E h (init Ops)) =
    traceE Ops N xv E rest (fresh (prefactor_after Ops h (n1 Ops))).
Proof. intros T Ops OL N xv Hi Hn E. exact (continuation_free Ops OL N xv Hi Hn _ _ _ _ _). Qed.
Print Assumptions C09_continuation_history_free.

(** Save_Function(filename, points) is Interpolate(x) for every x of Linear_Space(domain[0], domain[1], points), in order,
    on the object itself: WHATEVER the list of arguments is, the values written after any history are those a fresh object
    (with the prefactor of the history) writes — an instance of the theorem above; and by C09_history_free applied to the
    history extended by these calls, the object Save_Function leaves behind answers like a fresh one again.
    (The text formatting of the file is not modelled; the check runs Save_Function and reads the file back, see below.) *)
Theorem C09_save_function_history_free :
  forall (T : Type) (Ops : NumOps T), OrdLaws Ops -> forall (N : Z) (xv : Z -> T),
  increasing Ops N xv -> size_ok N ->
  forall (E : evals T) (h : list (op T)) (points : list T),
    traceE Ops N xv E (map (fun x => OpInterpolate x) points) (runE Ops N xv E h (init Ops)) =
    traceE Ops N xv E (map (fun x => OpInterpolate x) points) (fresh (prefactor_after Ops h (n1 Ops))).
Proof. intros T Ops OL N xv Hi Hn E h points. exact (continuation_free Ops OL N xv Hi Hn _ _ _ _ _ h _). Qed.
Print Assumptions C09_save_function_history_free.

(** The file Save_Function writes is an OUTPUT of the object ("Set_Prefactor and Multiply change all outputs by exactly the stated
    factor").  [save_ops N xv points] are the member calls Save_Function(filename, points) makes: Interpolate at every point of
    Linear_Space(domain[0], domain[1], points), in order; a row of the file is the argument and the value of one call.
    History clause: the rows written after any history are the rows a fresh object with the prefactor of the history writes. *)
Theorem C09_save_function_file_history_free :
  forall (T : Type) (Ops : NumOps T), OrdLaws Ops -> forall (N : Z) (xv : Z -> T),
  increasing Ops N xv -> size_ok N ->
  forall (E : evals T) (h : list (op T)) (points : Z),
    traceE Ops N xv E (save_ops Ops N xv points) (runE Ops N xv E h (init Ops)) =
    traceE Ops N xv E (save_ops Ops N xv points) (fresh (prefactor_after Ops h (n1 Ops))).
Proof. intros T Ops OL N xv Hi Hn E h points. exact (continuation_free Ops OL N xv Hi Hn _ _ _ _ _ h _). Qed.
Print Assumptions C09_save_function_file_history_free.

(** Prefactor clause for the file: row number k, written after ANY history h (and after the k rows before it), holds exactly the
    prefactor of the history — determined by its Set_Prefactor / Multiply calls alone — times the prefactor-free value of THE
    segment of the k-th point (one multiplication, as Interpolate itself), for every point inside the domain. *)
Theorem C09_save_function_rows_scaled :
  forall (T : Type) (Ops : NumOps T), OrdLaws Ops -> forall (N : Z) (xv : Z -> T),
  increasing Ops N xv -> size_ok N ->
  forall (E : evals T) (h : list (op T)) (points : Z) (k : nat) (x0 : T),
  let pts := linear_space Ops (xv 0) (xv (N - 1)) points in
  (k < length pts)%nat ->
  let x := nth k pts x0 in
  nisnan Ops x = false -> in_domain Ops N xv x ->
  exists j, nth k (traceE Ops N xv E (save_ops Ops N xv points) (runE Ops N xv E h (init Ops))) ONone =
              OValue [j] (nmul Ops (prefactor_after Ops h (n1 Ops)) (ev_seg E j x)) /\
            canon Ops N xv x j.
Proof. exact @save_function_rows. Qed.
Print Assumptions C09_save_function_rows_scaled.

(** "... and nothing else alters the object's observable behaviour": writing a file leaves the prefactor of the history in place
    (with C09_history_free for the history extended by the calls of Save_Function: the object answers like a fresh one again). *)
Theorem C09_save_function_keeps_prefactor :
  forall (T : Type) (Ops : NumOps T), OrdLaws Ops -> forall (N : Z) (xv : Z -> T),
  increasing Ops N xv -> size_ok N ->
  forall (E : evals T) (h : list (op T)) (points : Z),
    prefactor (runE Ops N xv E (h ++ save_ops Ops N xv points) (init Ops)) = prefactor_after Ops h (n1 Ops).
Proof. exact @save_function_keeps_prefactor. Qed.
Print Assumptions C09_save_function_keeps_prefactor.

(** Interpolation_2D::Save_Function(filename, x_points, y_points = 0): the member calls [save_ops2] (x outer, y inner; y_points = 0
    stands for x_points); the rows written after any history are those a fresh object with the prefactor of the history writes. *)
Theorem C09_save_function_2d_file_history_free :
  forall (T : Type) (Ops : NumOps T), OrdLaws Ops ->
  forall (Nx : Z) (xv : Z -> T) (Ny : Z) (yv : Z -> T) (fv : Z -> Z -> T),
  increasing Ops Nx xv -> increasing Ops Ny yv -> size_ok Nx -> size_ok Ny ->
  forall (h : list (op2 T)) (x_points y_points : Z),
    trace2 Ops Nx xv Ny yv fv (save_ops2 Ops Nx xv Ny yv x_points y_points) (run2 Ops Nx xv Ny yv fv h (init2 Ops)) =
    trace2 Ops Nx xv Ny yv fv (save_ops2 Ops Nx xv Ny yv x_points y_points) (mkState2 (init Ops) (init Ops) (prefactor2_after Ops h (n1 Ops))).
Proof. intros T Ops OL Nx xv Ny yv fv Hx Hy Hnx Hny h xp yp. exact (continuation_free2 Ops OL Nx xv Ny yv fv Hx Hy Hnx Hny h _). Qed.
Print Assumptions C09_save_function_2d_file_history_free.

Theorem C09_continuation_history_free_2d :
  forall (T : Type) (Ops : NumOps T), OrdLaws Ops ->
  forall (Nx : Z) (xv : Z -> T) (Ny : Z) (yv : Z -> T) (fv : Z -> Z -> T),
  increasing Ops Nx xv -> increasing Ops Ny yv -> size_ok Nx -> size_ok Ny ->
  forall (h rest : list (op2 T)),
    trace2 Ops Nx xv Ny yv fv rest (run2 Ops Nx xv Ny yv fv h (init2 Ops)) =
    trace2 Ops Nx xv Ny yv fv rest (mkState2 (init Ops) (init Ops) (prefactor2_after Ops h (n1 Ops))).
Proof. exact @continuation_free2. Qed.
Print Assumptions C09_continuation_history_free_2d.

(** "After any sequence of ... integrals ..., each further query returns what a freshly constructed object returns":
    Integrate made explicit.  After ANY history, Integrate(x_1, x_2) with both limits in the domain locates THE segments
    of the ordered limits (int_lo / int_hi: the smaller / larger limit; int_sign: -1 when x_1 > x_2, else 1) and returns
    the sign times the value of the summation loop for those two segments, the ordered limits and the prefactor that the
    Set_Prefactor / Multiply calls of the history alone determine — nothing else of the history enters. *)
Theorem C09_integrate_after_history :
  forall (T : Type) (Ops : NumOps T), OrdLaws Ops -> forall (N : Z) (xv : Z -> T),
  increasing Ops N xv -> size_ok N ->
  forall (E : evals T) (h : list (op T)) (x1 x2 : T),
    nisnan Ops x1 = false -> nisnan Ops x2 = false -> in_domain Ops N xv x1 -> in_domain Ops N xv x2 ->
    exists i1 i2, snd (stepE Ops N xv E (runE Ops N xv E h (init Ops)) (OpIntegrate x1 x2)) =
                    OValue [i1; i2] (nmul Ops (int_sign Ops x1 x2)
                       (ev_integ E i1 i2 (int_lo Ops x1 x2) (int_hi Ops x1 x2) (prefactor_after Ops h (n1 Ops)))) /\
                  canon Ops N xv (int_lo Ops x1 x2) i1 /\ canon Ops N xv (int_hi Ops x1 x2) i2.
Proof. intros T Ops OL N xv Hi Hn E. exact (integrate_after_history Ops OL N xv Hi Hn _ _ _ _ _). Qed.
Print Assumptions C09_integrate_after_history.

(** The order of the limits: for a < b in the domain, Integrate(a, b) after any history h and Integrate(b, a) after any
    history h' with the same prefactor calls (in particular: later on the same object, the first request being part of
    h') locate the same two segments and return 1 * v and (-1) * v for the SAME loop value v: a value computed for one
    order of the limits is never handed out for the other order, whatever was asked in between (whole-domain ranges,
    limits bit-equal to the domain ends, included). *)
Theorem C09_integrate_reversed_after_history :
  forall (T : Type) (Ops : NumOps T), OrdLaws Ops -> forall (N : Z) (xv : Z -> T),
  increasing Ops N xv -> size_ok N ->
  forall (E : evals T) (h h' : list (op T)) (a b : T),
    nisnan Ops a = false -> nisnan Ops b = false -> in_domain Ops N xv a -> in_domain Ops N xv b ->
    nltb Ops a b = true -> prefactor_after Ops h (n1 Ops) = prefactor_after Ops h' (n1 Ops) ->
    exists i1 i2 v,
      snd (stepE Ops N xv E (runE Ops N xv E h (init Ops)) (OpIntegrate a b)) = OValue [i1; i2] (nmul Ops (n1 Ops) v) /\
      snd (stepE Ops N xv E (runE Ops N xv E h' (init Ops)) (OpIntegrate b a)) = OValue [i1; i2] (nmul Ops (nneg Ops (n1 Ops)) v) /\
      v = ev_integ E i1 i2 a b (prefactor_after Ops h (n1 Ops)) /\ canon Ops N xv a i1 /\ canon Ops N xv b i2.
Proof. intros T Ops OL N xv Hi Hn E. exact (integrate_reversed_after_history Ops OL N xv Hi Hn _ _ _ _ _). Qed.
Print Assumptions C09_integrate_reversed_after_history.

(** Interpolation_2D::Interpolate made explicit ("1D or 2D"): after ANY history of Interpolate(x,y) / Set_Prefactor /
    Multiply / Global_* / copies, Interpolate(x, y) with both arguments in the domain returns the prefactor of the history
    (Set_Prefactor / Multiply calls alone) times the bilinear expression [bilinear_cell] evaluated on THE cell of (x, y) —
    i is THE segment of x, j THE segment of y — never on a cell remembered from an earlier call or from the constructor. *)
Theorem C09_interpolate_2d_after_history :
  forall (T : Type) (Ops : NumOps T), OrdLaws Ops ->
  forall (Nx : Z) (xv : Z -> T) (Ny : Z) (yv : Z -> T) (fv : Z -> Z -> T),
  increasing Ops Nx xv -> increasing Ops Ny yv -> size_ok Nx -> size_ok Ny ->
  forall (h : list (op2 T)) (x y : T),
    nisnan Ops x = false -> nisnan Ops y = false -> in_domain Ops Nx xv x -> in_domain Ops Ny yv y ->
    exists i j, snd (step2 Ops Nx xv Ny yv fv (run2 Ops Nx xv Ny yv fv h (init2 Ops)) (Op2Interpolate x y)) =
                  O2Value i j (nmul Ops (prefactor2_after Ops h (n1 Ops)) (bilinear_cell Ops xv yv fv i j x y)) /\
                canon Ops Nx xv x i /\ canon Ops Ny yv y j.
Proof. exact @interpolate2_after_history. Qed.
Print Assumptions C09_interpolate_2d_after_history.

(** ** Seventh pass: the VALUE computations of the 1-D queries are part of the model (coq/C09_Model2.v: seg_value,
    deriv_value, integ_loop / integ_value, ext_scan / ext_value, glob_value, written after the bodies of Interpolate,
    Derivative, Integrate, Local_Minimum / Local_Maximum, Global_Minimum / Global_Maximum; [step_full] / [run_full] are
    step / run of C09_Model.v with them plugged in, the term the correspondence run compares with the library).
    Tables: x_values = xv, function_values = fv on [0, N); a, b, c, d = av, bv, cv, dv on [0, N-1). *)

(** "each further query returns what a freshly constructed object returns", for the full model (indices and values). *)
Theorem C09_full_model_history_free :
  forall (T : Type) (Ops : NumOps T), OrdLaws Ops -> forall (N : Z) (xv fv av bv cv dv : Z -> T),
  2 <= N -> increasing Ops N xv -> N <= 1073741824 ->
  forall (h : list (op T)) (q : op T),
    snd (step_full Ops N xv fv av bv cv dv (run_full Ops N xv fv av bv cv dv h (init Ops)) q) =
    snd (step_full Ops N xv fv av bv cv dv (fresh (prefactor_after Ops h (n1 Ops))) q).
Proof. exact @full_history_free. Qed.
Print Assumptions C09_full_model_history_free.

(** No value computation reads outside x_values, function_values or a coefficient vector, for every index Locate can
    return (0 <= j <= N-2): the polynomial and its derivatives, the Integrate loop over ANY number of segments (it reads
    x_values[j + 1] except in its last round), the knot scan of Local_* (it reads x_values[i_2 + 1] and
    function_values[i_2 + 1], the last entries when i_2 = N-2), the global extrema.  Induction over the loops. *)
Theorem C09_values_no_out_of_bounds :
  forall (T : Type) (Ops : NumOps T), OrdLaws Ops -> forall (N : Z) (xv fv av bv cv dv : Z -> T), 2 <= N ->
  (forall j x, 0 <= j <= N - 2 -> exists v, seg_value Ops N xv av bv cv dv j x = Ok v) /\
  (forall j x k, 0 <= j <= N - 2 -> exists v, deriv_value Ops N xv av bv cv j x k = Ok v) /\
  (forall i1 i2 x1 x2 p, 0 <= i1 -> i2 <= N - 2 -> exists v, integ_value Ops N xv av bv cv dv i1 i2 x1 x2 p = Ok v) /\
  (forall mx fl fr i1 i2 x1 x2 p, 0 <= i1 <= N - 2 -> i2 <= N - 2 -> exists v, ext_value Ops N xv fv mx fl fr i1 i2 x1 x2 p = Ok v) /\
  (forall mx p, exists v, glob_value Ops N fv mx p = Ok v).
Proof. exact @values_no_oob. Qed.
Print Assumptions C09_values_no_out_of_bounds.

(** The knot scan of Local_Minimum: for located segments i_1, i_2 the loop returns one of its candidates — f_left,
    f_right, prefactor * function_values[k] for a tabulated abscissa i_1 <= k <= i_2 + 1 with x_1 <= x_values[k] <= x_2
    ([candidate]) — and it is <= every candidate.  For every number of knots (induction), from the order laws alone. *)
Theorem C09_local_minimum_scan :
  forall (T : Type) (Ops : NumOps T), OrdLaws Ops -> forall (N : Z) (xv fv : Z -> T) (fl fr : T) (i1 i2 : Z) (x1 x2 p : T),
  0 <= i1 <= N - 2 -> i2 <= N - 2 ->
  exists r, ext_value Ops N xv fv false fl fr i1 i2 x1 x2 p = Ok r /\
            candidate Ops xv fv fl fr i1 i2 x1 x2 p r /\
            forall c, candidate Ops xv fv fl fr i1 i2 x1 x2 p c -> le Ops r c.
Proof. exact @local_minimum_value. Qed.
Print Assumptions C09_local_minimum_scan.

Theorem C09_local_maximum_scan :
  forall (T : Type) (Ops : NumOps T), OrdLaws Ops -> forall (N : Z) (xv fv : Z -> T) (fl fr : T) (i1 i2 : Z) (x1 x2 p : T),
  0 <= i1 <= N - 2 -> i2 <= N - 2 ->
  exists r, ext_value Ops N xv fv true fl fr i1 i2 x1 x2 p = Ok r /\
            candidate Ops xv fv fl fr i1 i2 x1 x2 p r /\
            forall c, candidate Ops xv fv fl fr i1 i2 x1 x2 p c -> le Ops c r.
Proof. exact @local_maximum_value. Qed.
Print Assumptions C09_local_maximum_scan.

(** "After any sequence of ... extremum queries ..., each further query returns what a freshly constructed object
    returns", Local_Minimum / Local_Maximum made explicit for EVERY choice of the value computations: after any history,
    for x_1 <= x_2 in the domain, the four internal Locate calls return THE segments i_1, i_2 of x_1, x_2 (twice each), and
    the value is the knot scan started from prefactor * S_i1(x_1) and prefactor * S_i2(x_2) with the prefactor of the
    Set_Prefactor / Multiply calls alone. *)
Theorem C09_local_extremum_after_history :
  forall (T : Type) (Ops : NumOps T), OrdLaws Ops -> forall (N : Z) (xv : Z -> T),
  increasing Ops N xv -> size_ok N ->
  forall (E : evals T) (mx : bool) (h : list (op T)) (x1 x2 : T),
    nisnan Ops x1 = false -> nisnan Ops x2 = false -> in_domain Ops N xv x1 -> in_domain Ops N xv x2 ->
    nltb Ops x2 x1 = false ->
    exists i1 i2, snd (stepE Ops N xv E (runE Ops N xv E h (init Ops)) (if mx then OpLocalMax x1 x2 else OpLocalMin x1 x2)) =
                    OValue [i1; i2; i1; i2]
                      (ev_ext E mx (nmul Ops (prefactor_after Ops h (n1 Ops)) (ev_seg E i1 x1))
                                   (nmul Ops (prefactor_after Ops h (n1 Ops)) (ev_seg E i2 x2)) i1 i2 x1 x2
                                   (prefactor_after Ops h (n1 Ops))) /\
                  canon Ops N xv x1 i1 /\ canon Ops N xv x2 i2.
Proof. intros T Ops OL N xv Hi Hn E. exact (local_after_history Ops OL N xv Hi Hn _ _ _ _ _). Qed.
Print Assumptions C09_local_extremum_after_history.

(** Interpolate of the full model after ANY history: the prefactor of the Set_Prefactor / Multiply calls alone times
    a[j] (x - x_j)^3 + b[j] (x - x_j)^2 + c[j] (x - x_j) + d[j] ([seg_poly], the expression of the source with its
    operation order) on THE segment j of x — down to the table entries, nothing of the history. *)
Theorem C09_full_interpolate_after_history :
  forall (T : Type) (Ops : NumOps T), OrdLaws Ops -> forall (N : Z) (xv fv av bv cv dv : Z -> T),
  increasing Ops N xv -> size_ok N ->
  forall (h : list (op T)) (x : T), nisnan Ops x = false -> in_domain Ops N xv x ->
  exists j, snd (step_full Ops N xv fv av bv cv dv (run_full Ops N xv fv av bv cv dv h (init Ops)) (OpInterpolate x)) =
              OValue [j] (nmul Ops (prefactor_after Ops h (n1 Ops)) (seg_poly Ops xv av bv cv dv j x)) /\
            canon Ops N xv x j.
Proof. exact @full_interpolate_after_history. Qed.
Print Assumptions C09_full_interpolate_after_history.

(** Integrate of the full model after ANY history: sign times the value v of the summation loop, which ends without
    an out-of-bounds read, over THE segments of the ordered limits with the prefactor of the history. *)
Theorem C09_full_integrate_after_history :
  forall (T : Type) (Ops : NumOps T), OrdLaws Ops -> forall (N : Z) (xv fv av bv cv dv : Z -> T),
  increasing Ops N xv -> size_ok N ->
  forall (h : list (op T)) (x1 x2 : T),
  nisnan Ops x1 = false -> nisnan Ops x2 = false -> in_domain Ops N xv x1 -> in_domain Ops N xv x2 ->
  exists i1 i2 v,
    snd (step_full Ops N xv fv av bv cv dv (run_full Ops N xv fv av bv cv dv h (init Ops)) (OpIntegrate x1 x2)) =
      OValue [i1; i2] (nmul Ops (int_sign Ops x1 x2) v) /\
    integ_value Ops N xv av bv cv dv i1 i2 (int_lo Ops x1 x2) (int_hi Ops x1 x2) (prefactor_after Ops h (n1 Ops)) = Ok v /\
    canon Ops N xv (int_lo Ops x1 x2) i1 /\ canon Ops N xv (int_hi Ops x1 x2) i2.
Proof. exact @full_integrate_after_history. Qed.
Print Assumptions C09_full_integrate_after_history.

(** Local_Minimum(x_1, x_2) of the full model, x_1 <= x_2 in the domain, after ANY history: the result r is the least of
    prefactor * S_i1(x_1), prefactor * S_i2(x_2) and prefactor * function_values[k] over the tabulated abscissae
    i_1 <= k <= i_2 + 1 with x_1 <= x_values[k] <= x_2, and one of them; i_1, i_2 THE segments of x_1, x_2; the prefactor
    that of the Set_Prefactor / Multiply calls alone.  (Valid for doubles, rounding included.) *)
Theorem C09_full_local_minimum_after_history :
  forall (T : Type) (Ops : NumOps T), OrdLaws Ops -> forall (N : Z) (xv fv av bv cv dv : Z -> T),
  increasing Ops N xv -> size_ok N ->
  forall (h : list (op T)) (x1 x2 : T),
  nisnan Ops x1 = false -> nisnan Ops x2 = false -> in_domain Ops N xv x1 -> in_domain Ops N xv x2 ->
  nltb Ops x2 x1 = false ->
  let p := prefactor_after Ops h (n1 Ops) in
  exists i1 i2 r,
    snd (step_full Ops N xv fv av bv cv dv (run_full Ops N xv fv av bv cv dv h (init Ops)) (OpLocalMin x1 x2)) =
      OValue [i1; i2; i1; i2] r /\
    canon Ops N xv x1 i1 /\ canon Ops N xv x2 i2 /\
    candidate Ops xv fv (nmul Ops p (seg_poly Ops xv av bv cv dv i1 x1)) (nmul Ops p (seg_poly Ops xv av bv cv dv i2 x2)) i1 i2 x1 x2 p r /\
    forall c, candidate Ops xv fv (nmul Ops p (seg_poly Ops xv av bv cv dv i1 x1)) (nmul Ops p (seg_poly Ops xv av bv cv dv i2 x2)) i1 i2 x1 x2 p c ->
              le Ops r c.
Proof. exact @full_local_minimum_after_history. Qed.
Print Assumptions C09_full_local_minimum_after_history.

Theorem C09_full_local_maximum_after_history :
  forall (T : Type) (Ops : NumOps T), OrdLaws Ops -> forall (N : Z) (xv fv av bv cv dv : Z -> T),
  increasing Ops N xv -> size_ok N ->
  forall (h : list (op T)) (x1 x2 : T),
  nisnan Ops x1 = false -> nisnan Ops x2 = false -> in_domain Ops N xv x1 -> in_domain Ops N xv x2 ->
  nltb Ops x2 x1 = false ->
  let p := prefactor_after Ops h (n1 Ops) in
  exists i1 i2 r,
    snd (step_full Ops N xv fv av bv cv dv (run_full Ops N xv fv av bv cv dv h (init Ops)) (OpLocalMax x1 x2)) =
      OValue [i1; i2; i1; i2] r /\
    canon Ops N xv x1 i1 /\ canon Ops N xv x2 i2 /\
    candidate Ops xv fv (nmul Ops p (seg_poly Ops xv av bv cv dv i1 x1)) (nmul Ops p (seg_poly Ops xv av bv cv dv i2 x2)) i1 i2 x1 x2 p r /\
    forall c, candidate Ops xv fv (nmul Ops p (seg_poly Ops xv av bv cv dv i1 x1)) (nmul Ops p (seg_poly Ops xv av bv cv dv i2 x2)) i1 i2 x1 x2 p c ->
              le Ops c r.
Proof. exact @full_local_maximum_after_history. Qed.
Print Assumptions C09_full_local_maximum_after_history.

(** Global_Minimum / Global_Maximum of the full model after ANY history: min / max of prefactor * f_min and
    prefactor * f_max, where f_min / f_max are entries of function_values below / above every entry (for every N:
    induction over the min_element / max_element scans) and the prefactor is that of the Set_Prefactor / Multiply calls. *)
Theorem C09_full_global_extrema_after_history :
  forall (T : Type) (Ops : NumOps T), OrdLaws Ops -> forall (N : Z) (xv fv av bv cv dv : Z -> T),
  increasing Ops N xv -> size_ok N ->
  forall (mx : bool) (h : list (op T)),
  let p := prefactor_after Ops h (n1 Ops) in
  exists f_min f_max,
    snd (step_full Ops N xv fv av bv cv dv (run_full Ops N xv fv av bv cv dv h (init Ops)) (if mx then OpGlobalMax else OpGlobalMin)) =
      OValue [] ((if mx then nmax Ops else nmin Ops) (nmul Ops p f_min) (nmul Ops p f_max)) /\
    (exists k, 0 <= k < N /\ f_min = fv k) /\ (forall k, 0 <= k < N -> le Ops f_min (fv k)) /\
    (exists k, 0 <= k < N /\ f_max = fv k) /\ (forall k, 0 <= k < N -> le Ops (fv k) f_max).
Proof. exact @full_global_after_history. Qed.
Print Assumptions C09_full_global_extrema_after_history.

(** "Set_Prefactor and Multiply change all outputs by exactly the stated factor", for Integrate, over the reals: the
    summation loop with prefactor p returns p times what it returns with prefactor 1 (every number of segments).  In
    doubles this holds up to the rounding of the loop (bounded a priori by the S4 stage), not exactly. *)
Theorem C09_integrate_linear_in_prefactor_real :
  forall (N : Z) (xv av bv cv dv : Z -> R) (i1 i2 : Z) (x1 x2 p v : R),
  integ_value ROps N xv av bv cv dv i1 i2 x1 x2 1%R = Ok v ->
  integ_value ROps N xv av bv cv dv i1 i2 x1 x2 p = Ok (p * v)%R.
Proof. exact integ_value_linear. Qed.
Print Assumptions C09_integrate_linear_in_prefactor_real.
