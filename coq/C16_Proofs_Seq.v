(** * C16 proofs, part 3: histories of CALLS in one process.
    [call] / [call_answer] / [calls_run] are the terms of C16_Model.v that the driver runs for the `seq ...` cases: several
    calls of Rotation_Matrix (2-D, 3-D, default axis), of both Spherical_Coordinates and of Angle, one after the other in
    one process.  The model - like the source - keeps nothing between two calls; the theorems say what that means for
    the property: the answer to a call is the answer it gets on its own, whatever was called before (same |alpha| with the
    other sign, the same angle again, another dimension, another axis ...), and every clause holds at every position. *)
From Coq Require Import Reals ZArith List Lra Lia Psatz Bool.
From Coquelicot Require Import Coquelicot.
From LP Require Import Num NumR C16_Model C16_Proofs C16_Proofs_Hist.
Import ListNotations.
Local Open Scope R_scope.

(** ** Every number type: a history answers each call as the call alone is answered *)
Lemma calls_run_cons {T} (Ops : NumOps T) hyp (c : @call T) cs answers :
  calls_run Ops hyp (c :: cs) = Ok answers ->
  exists a l, call_answer Ops hyp c = Ok a /\ calls_run Ops hyp cs = Ok l /\ answers = a :: l.
Proof.
  cbn [calls_run]. destruct (call_answer Ops hyp c) as [a| | |]; cbn [rbind]; try discriminate.
  destruct (calls_run Ops hyp cs) as [l| | |]; cbn [rbind]; try discriminate.
  intros [= <-]. exists a, l. auto.
Qed.

Lemma calls_run_each {T} (Ops : NumOps T) hyp (cs : list (@call T)) : forall answers,
  calls_run Ops hyp cs = Ok answers ->
  length answers = length cs /\
  forall i c, nth_error cs i = Some c -> exists a, nth_error answers i = Some a /\ call_answer Ops hyp c = Ok a.
Proof.
  induction cs as [|c0 cs IH]; intros answers H.
  - cbn in H. injection H as <-. split; [reflexivity|]. intros [|i] c; discriminate.
  - apply calls_run_cons in H as (a & l & Ha & Hl & ->). destruct (IH l Hl) as [Len Each]. split.
    + cbn. now rewrite Len.
    + intros [|i] c; cbn [nth_error].
      * intros [= <-]. exists a. auto.
      * intros Hc. exact (Each i c Hc).
Qed.

(** the answer inside a history is the answer of a process that makes this one call only *)
Lemma calls_run_as_alone {T} (Ops : NumOps T) hyp (cs : list (@call T)) answers i c :
  calls_run Ops hyp cs = Ok answers -> nth_error cs i = Some c ->
  exists a, nth_error answers i = Some a /\ calls_run Ops hyp [c] = Ok [a].
Proof.
  intros H Hc. destruct (calls_run_each Ops hyp cs answers H) as [_ Each].
  destruct (Each i c Hc) as (a & Ha & E). exists a. split; [exact Ha|]. cbn [calls_run]. rewrite E. reflexivity.
Qed.

Lemma calls_run_answered_as_alone {T} (Ops : NumOps T) hyp (cs : list (@call T)) answers :
  calls_run Ops hyp cs = Ok answers ->
  length answers = length cs /\
  forall i c, nth_error cs i = Some c ->
    exists a, nth_error answers i = Some a /\ call_answer Ops hyp c = Ok a /\ calls_run Ops hyp [c] = Ok [a].
Proof.
  intros H. destruct (calls_run_each Ops hyp cs answers H) as [Len Each]. split; [exact Len|].
  intros i c Hc. destruct (Each i c Hc) as (a & Ha & E). exists a. split; [exact Ha|]. split; [exact E|].
  cbn [calls_run]. rewrite E. reflexivity.
Qed.

(** the same call at two positions of a history (with anything in between) gets the same answer *)
Lemma calls_run_repeatable {T} (Ops : NumOps T) hyp (cs : list (@call T)) answers i j c :
  calls_run Ops hyp cs = Ok answers -> nth_error cs i = Some c -> nth_error cs j = Some c ->
  exists a, nth_error answers i = Some a /\ nth_error answers j = Some a.
Proof.
  intros H Hi Hj. destruct (calls_run_each Ops hyp cs answers H) as [_ Each].
  destruct (Each i c Hi) as (a & Ha & E). destruct (Each j c Hj) as (b & Hb & E').
  exists a. split; [exact Ha|]. rewrite Hb. congruence.
Qed.

(** a history in which every call answers on its own answers as a whole *)
Lemma calls_run_returns {T} (Ops : NumOps T) hyp (cs : list (@call T)) :
  List.Forall (fun c => exists a, call_answer Ops hyp c = Ok a) cs -> exists answers, calls_run Ops hyp cs = Ok answers.
Proof.
  intros F. induction F as [|c cs Hc _ IH].
  - exists (@nil (@answer T)). reflexivity.
  - destruct Hc as [a Ha]. destruct IH as [l Hl].
    exists (a :: l). cbn [calls_run]. rewrite Ha. cbn [rbind]. rewrite Hl. reflexivity.
Qed.

(** ** Over the reals: the clauses of the property at every position of every history *)
Lemma call_rot_answer alpha dim axis a :
  call_answer ROps Rhypot (CRot alpha dim axis) = Ok a -> exists Rm, a = AMat Rm /\ rotation_matrix ROps alpha dim axis = Ok Rm.
Proof.
  cbn [call_answer]. destruct (rotation_matrix ROps alpha dim axis) as [Rm| | |]; cbn [rbind]; try discriminate.
  intros [= <-]. exists Rm. auto.
Qed.

(** a 3-D rotation anywhere in a history is the proper rotation about its axis by ITS angle, in the right-handed sense *)
Lemma calls_rotation3_proper (cs : list (@call R)) answers i alpha a0 a1 a2 :
  calls_run ROps Rhypot cs = Ok answers -> nth_error cs i = Some (CRot alpha 3 [a0; a1; a2]) -> nonzero3 a0 a1 a2 ->
  exists Rm, nth_error answers i = Some (AMat Rm) /\
    mmul ROps (mtr Rm) Rm = I3 /\ mmul ROps Rm (mtr Rm) = I3 /\ det3 Rm = 1 /\
    mvec ROps Rm [a0; a1; a2] = [a0; a1; a2] /\
    forall v0 v1 v2, dot3 [a0; a1; a2] [v0; v1; v2] = 0 ->
      mvec ROps Rm [v0; v1; v2] =
      vplus (vscal (cos alpha) [v0; v1; v2]) (vscal (sin alpha) (cross3 (nhat [a0; a1; a2]) [v0; v1; v2])).
Proof.
  intros H Hc Hnz. destruct (calls_run_each ROps Rhypot cs answers H) as [_ Each].
  destruct (Each i _ Hc) as (a & Ha & E). apply call_rot_answer in E as (Rm & -> & E).
  exists Rm. split; [exact Ha|].
  destruct (rot3_orthogonal alpha a0 a1 a2 Hnz Rm E) as [O1 O2].
  repeat split; auto.
  - exact (rot3_det alpha a0 a1 a2 Hnz Rm E).
  - exact (rot3_axis_itself_fixed alpha a0 a1 a2 Hnz Rm E).
  - intros v0 v1 v2 Hp. exact (rot3_perpendicular alpha a0 a1 a2 Hnz Rm v0 v1 v2 E Hp).
Qed.

(** a 2-D rotation anywhere in a history is [[cos, -sin], [sin, cos]] of ITS angle *)
Lemma calls_rotation2_entries (cs : list (@call R)) answers i alpha axis :
  calls_run ROps Rhypot cs = Ok answers -> nth_error cs i = Some (CRot alpha 2 axis) ->
  nth_error answers i = Some (AMat [[cos alpha; - sin alpha]; [sin alpha; cos alpha]]).
Proof.
  intros H Hc. destruct (calls_run_each ROps Rhypot cs answers H) as [_ Each].
  destruct (Each i _ Hc) as (a & Ha & E). apply call_rot_answer in E as (Rm & -> & E).
  rewrite rot2_eq in E. injection E as <-. exact Ha.
Qed.

(** R(-alpha) = R(alpha)^T about the same axis *)
Lemma rot3_opposite alpha a0 a1 a2 Ra Rb :
  rotation_matrix ROps alpha 3 [a0; a1; a2] = Ok Ra -> rotation_matrix ROps (- alpha) 3 [a0; a1; a2] = Ok Rb -> Rb = mtr Ra.
Proof.
  rewrite !rotation3_eq. intros [= <-] [= <-]. cbv zeta. rewrite cos_neg, sin_neg.
  unfold rodrigues, mtr. cbn. list_eq; ring.
Qed.

(** alpha, then -alpha, then alpha again (anywhere in a history, anything in between): the second answer is the transpose = inverse
    of the first, the third is the first again - "rotations about the same axis compose by adding angles" with beta = -alpha *)
Lemma calls_back_and_forth (cs : list (@call R)) answers i j k alpha a0 a1 a2 :
  calls_run ROps Rhypot cs = Ok answers -> nonzero3 a0 a1 a2 ->
  nth_error cs i = Some (CRot alpha 3 [a0; a1; a2]) -> nth_error cs j = Some (CRot (- alpha) 3 [a0; a1; a2]) ->
  nth_error cs k = Some (CRot alpha 3 [a0; a1; a2]) ->
  exists Ra Rb, nth_error answers i = Some (AMat Ra) /\ nth_error answers j = Some (AMat Rb) /\ nth_error answers k = Some (AMat Ra) /\
    Rb = mtr Ra /\ mmul ROps Ra Rb = I3 /\ mmul ROps Rb Ra = I3.
Proof.
  intros H Hnz Hi Hj Hk. destruct (calls_run_each ROps Rhypot cs answers H) as [_ Each].
  destruct (Each i _ Hi) as (a & Ha & Ea). apply call_rot_answer in Ea as (Ra & -> & Ea).
  destruct (Each j _ Hj) as (b & Hb & Eb). apply call_rot_answer in Eb as (Rb & -> & Eb).
  destruct (Each k _ Hk) as (c & Hc & Ec). apply call_rot_answer in Ec as (Rc & -> & Ec).
  assert (Rc = Ra) as -> by congruence.
  pose proof (rot3_opposite alpha a0 a1 a2 Ra Rb Ea Eb) as ->.
  destruct (rot3_orthogonal alpha a0 a1 a2 Hnz Ra Ea) as [O1 O2].
  exists Ra, (mtr Ra). repeat split; auto.
Qed.

(** the same in 2-D *)
Lemma calls_back_and_forth_2d (cs : list (@call R)) answers i j k alpha ax1 ax2 ax3 :
  calls_run ROps Rhypot cs = Ok answers ->
  nth_error cs i = Some (CRot alpha 2 ax1) -> nth_error cs j = Some (CRot (- alpha) 2 ax2) -> nth_error cs k = Some (CRot alpha 2 ax3) ->
  exists Ra Rb, nth_error answers i = Some (AMat Ra) /\ nth_error answers j = Some (AMat Rb) /\ nth_error answers k = Some (AMat Ra) /\
    Rb = mtr Ra /\ mmul ROps Ra Rb = I2.
Proof.
  intros H Hi Hj Hk.
  pose proof (calls_rotation2_entries cs answers i alpha ax1 H Hi) as Ea.
  pose proof (calls_rotation2_entries cs answers j (- alpha) ax2 H Hj) as Eb.
  pose proof (calls_rotation2_entries cs answers k alpha ax3 H Hk) as Ec.
  rewrite cos_neg, sin_neg in Eb.
  eexists; eexists. split; [exact Ea|]. split; [exact Eb|]. split; [exact Ec|].
  pose proof (cs1 alpha). unfold mtr, mmul, mcol, vdot, nth0, I2. cbn. split; list_eq; try ring; nra.
Qed.

(** spherical coordinates about a non-zero axis anywhere in a history: norm r, component r cos(theta) along the axis *)
Lemma calls_spherical_axis (cs : list (@call R)) answers i r theta phi a0 a1 a2 :
  calls_run ROps Rhypot cs = Ok answers -> nth_error cs i = Some (CSphAxis r theta phi [a0; a1; a2]) -> nonzero3 a0 a1 a2 ->
  exists u, nth_error answers i = Some (AVec u) /\ dot3 u u = r * r /\ dot3 u (nhat [a0; a1; a2]) = r * cos theta.
Proof.
  intros H Hc Hnz. destruct (calls_run_each ROps Rhypot cs answers H) as [_ Each].
  destruct (Each i _ Hc) as (a & Ha & E). cbn [call_answer] in E.
  destruct (spherical_axis ROps Rhypot r theta phi [a0; a1; a2]) as [u| | |] eqn:Eu; cbn [rbind] in E; try discriminate.
  injection E as <-. exists u. split; [exact Ha|]. split.
  - exact (proj1 (spherical_axis_norm a0 a1 a2 Hnz r theta phi u Eu)).
  - exact (spherical_axis_polar a0 a1 a2 Hnz r theta phi u Eu).
Qed.

(** Non-vacuity: a history with a sign change of the angle between two equal calls, a call in another dimension and a
    spherical-coordinates call in between, answers *)
Example ex_calls_history :
  exists answers, calls_run ROps Rhypot
    [CRot 1 3 [1; 2; 2]; CRot (- 1) 3 [1; 2; 2]; CRot 1 2 []; CSph 2 1 1; CRot 1 3 [1; 2; 2]] = Ok answers.
Proof.
  apply calls_run_returns. repeat constructor.
  - destruct (rot3_returns 1 1 2 2) as [Rm E]. exists (AMat Rm). cbn [call_answer]. rewrite E. reflexivity.
  - destruct (rot3_returns (- 1) 1 2 2) as [Rm E]. exists (AMat Rm). cbn [call_answer]. rewrite E. reflexivity.
  - eexists. cbn [call_answer]. rewrite rot2_eq. reflexivity.
  - eexists. reflexivity.
  - destruct (rot3_returns 1 1 2 2) as [Rm E]. exists (AMat Rm). cbn [call_answer]. rewrite E. reflexivity.
Qed.
