From Coq Require Import Reals Lra.
From Coquelicot Require Import Coquelicot.
From Interval Require Import Tactic.
From LP Require Import NumR C17_Defs.
Open Scope R_scope.
Lemma s3_4 : Rabs (dawson_def (IZR (3602879701896397) * powerRZ 2 (-53)) - (IZR (1621041352292135) * powerRZ 2 (-52))) <= 2 / 10000000.
Proof. unfold dawson_def. integral with (i_prec 60). Qed.
Lemma s3_14 : Rabs (dawson_def (IZR (310828176363405) * powerRZ 2 (-47)) - (IZR (2369921440224135) * powerRZ 2 (-53))) <= 2 / 10000000.
Proof. unfold dawson_def. integral with (i_prec 60). Qed.
Lemma s3_24 : Rabs (dawson_def (IZR (1173489600267437) * powerRZ 2 (-49)) - (IZR (2564836488539697) * powerRZ 2 (-53))) <= 2 / 10000000.
Proof. unfold dawson_def. integral with (i_prec 60). Qed.
Lemma s3_34 : Rabs (dawson_def (IZR (1032608399804981) * powerRZ 2 (-45)) - (IZR (4913336008499809) * powerRZ 2 (-58))) <= 2 / 10000000.
Proof. unfold dawson_def. integral with (i_prec 60). Qed.
Lemma s3_44 : Rabs ((IZR (1325283043661731) * powerRZ 2 (965)) - erfi_def (IZR (3743617190251725) * powerRZ 2 (-47))) <= 1 / 1000000 * Rabs (erfi_def (IZR (3743617190251725) * powerRZ 2 (-47))).
Proof. apply rel_error_from_enclosure; [lra|interval|]. unfold erfi_def. split; integral with (i_prec 80). Qed.
Lemma s3_54 : Rerf ((IZR (2838412831352323) * powerRZ 2 (-49)) - 1 / 10000) < (IZR (9007199254731985) * powerRZ 2 (-53)) < Rerf ((IZR (2838412831352323) * powerRZ 2 (-49)) + 1 / 10000).
Proof. unfold Rerf. split; integral with (i_prec 80). Qed.
