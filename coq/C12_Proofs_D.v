(** * C12 proofs, part D (seventh pass):
    1. the mirrored assignment for every number type (doubles verbatim): closed form of both halves, identical weights;
    2. why the mirrored assignment is right: parity of the Legendre polynomial of the source's recurrence and of its
       derivative, Newton's map commutes with the reflection, the weight formula is even; the end points are never roots;
       the middle root of an odd order is exactly 0;
    3. exactness on the odd part: the assembled rule integrates every function that is odd about the midpoint to 0. *)
From Coq Require Import Reals ZArith List Bool Lia Lra Arith.
From Coquelicot Require Import Coquelicot.
From LP Require Import Num NumR C12_Model C12_Proofs C12_Proofs_B.
Import ListNotations.

(** ** 1. every number type *)
Section GenericD.
Context {T : Type} (Ops : NumOps T).

Theorem assemble_mirror_generic n a b zs : (1 <= n)%nat -> length zs = gl_m n ->
  length (gl_assemble Ops n a b zs) = n /\
  two_col (rows_of (gl_assemble Ops n a b zs)) = true /\
  (forall i d, (i < n)%nat ->
     snd (nth i (gl_assemble Ops n a b zs) d) = snd (nth (n - 1 - i) (gl_assemble Ops n a b zs) d)) /\
  (forall i d dz, (i < n - gl_m n)%nat ->
     nth i (gl_assemble Ops n a b zs) d = row_lo Ops (gl_mid Ops a b) (gl_hw Ops a b) (nth i zs dz) /\
     nth (n - 1 - i) (gl_assemble Ops n a b zs) d = row_hi Ops (gl_mid Ops a b) (gl_hw Ops a b) (nth i zs dz)) /\
  (forall d dz, Nat.odd n = true ->
     nth (gl_m n - 1) (gl_assemble Ops n a b zs) d = row_hi Ops (gl_mid Ops a b) (gl_hw Ops a b) (nth (gl_m n - 1) zs dz)).
Proof.
  intros Hn Hl. destruct (gl_m_bounds n Hn) as (H1 & H2 & H3).
  split; [apply length_gl_assemble|]. split; [apply two_col_rows_of|]. split; [|split].
  - intros i d Hi.
    rewrite (gl_assemble_nth Ops n a b zs i d (n0 Ops, n0 Ops)), (gl_assemble_nth Ops n a b zs (n - 1 - i) d (n0 Ops, n0 Ops)) by (auto; lia).
    replace (n - 1 - (n - 1 - i))%nat with i by lia.
    destruct (Nat.ltb_spec (n - 1 - i) (gl_m n)), (Nat.ltb_spec i (gl_m n)); try lia; try reflexivity.
    replace (n - 1 - i)%nat with i by lia. reflexivity.
  - intros i d dz Hi.
    rewrite (gl_assemble_nth Ops n a b zs i d dz), (gl_assemble_nth Ops n a b zs (n - 1 - i) d dz) by (auto; lia).
    replace (n - 1 - (n - 1 - i))%nat with i by lia.
    assert (Nat.ltb (n - 1 - i) (gl_m n) = false) as -> by (apply Nat.ltb_ge; lia).
    assert (Nat.ltb i (gl_m n) = true) as -> by (apply Nat.ltb_lt; lia).
    split; reflexivity.
  - intros d dz Hodd. apply Nat.odd_spec in Hodd. destruct Hodd as [q Hq].
    assert (Hm : gl_m n = S q).
    { unfold gl_m. subst n. replace (2 * q + 1 + 1)%nat with (S q * 2)%nat by lia. now rewrite Nat.div_mul by lia. }
    rewrite (gl_assemble_nth Ops n a b zs (gl_m n - 1) d dz) by (auto; lia).
    replace (n - 1 - (gl_m n - 1))%nat with (gl_m n - 1)%nat by lia.
    assert (Nat.ltb (gl_m n - 1) (gl_m n) = true) as -> by (apply Nat.ltb_lt; lia). reflexivity.
Qed.
End GenericD.

Local Open Scope R_scope.

(** ** 2. parity *)
Lemma LegP_parity k z :
  fst (LegP k (- z)) = (-1) ^ k * fst (LegP k z) /\ snd (LegP k (- z)) = - (-1) ^ k * snd (LegP k z).
Proof.
  induction k as [|k [IH1 IH2]].
  - cbn. split; ring.
  - pose proof (INR_pos1 k) as Hk. cbn [LegP fst snd]. rewrite IH1, IH2. split.
    + rewrite <- tech_pow_Rmult. field. exact Hk.
    + rewrite <- tech_pow_Rmult. ring.
Qed.

Lemma dLegP_parity k z :
  fst (dLegP k (- z)) = - (-1) ^ k * fst (dLegP k z) /\ snd (dLegP k (- z)) = (-1) ^ k * snd (dLegP k z).
Proof.
  induction k as [|k [IH1 IH2]].
  - cbn. split; ring.
  - pose proof (INR_pos1 k) as Hk. destruct (LegP_parity k z) as [P1 P2].
    cbn [dLegP fst snd]. rewrite IH1, IH2, P1. split.
    + rewrite <- tech_pow_Rmult. field. exact Hk.
    + rewrite <- tech_pow_Rmult. ring.
Qed.

Lemma pow_m1_sq k : (-1) ^ k * (-1) ^ k = 1.
Proof. rewrite <- Rpow_mult_distr. replace (-1 * -1) with 1 by ring. apply pow1. Qed.
Lemma pow_m1_neq0 k : (-1) ^ k <> 0.
Proof. apply pow_nonzero. lra. Qed.

Theorem legendre_parity n z :
  Leg n (- z) = (-1) ^ n * Leg n z /\
  dLeg n (- z) = - (-1) ^ n * dLeg n z /\
  (Leg n z = 0 -> Leg n (- z) = 0) /\
  wref (- z, dLeg n (- z)) = wref (z, dLeg n z) /\
  (dLeg n z <> 0 -> newton_next n (- z) = - newton_next n z).
Proof.
  destruct (LegP_parity n z) as [P1 _]. destruct (dLegP_parity n z) as [D1 _]. fold (Leg n (-z)) (Leg n z) in P1. fold (dLeg n (-z)) (dLeg n z) in D1.
  pose proof (pow_m1_sq n) as Hs. pose proof (pow_m1_neq0 n) as Hs0.
  split; [exact P1|]. split; [exact D1|]. split; [|split].
  - intros H. rewrite P1, H. ring.
  - unfold wref. cbn [fst snd]. rewrite D1.
    replace ((1 - - z * - z) * (- (-1) ^ n * dLeg n z) * (- (-1) ^ n * dLeg n z))
      with ((1 - z * z) * dLeg n z * dLeg n z * ((-1) ^ n * (-1) ^ n)) by ring.
    rewrite Hs, Rmult_1_r. reflexivity.
  - intros Hd. unfold newton_next. rewrite P1, D1. field. split; assumption.
Qed.

(** the end points are never roots: P_n(1) = 1, P_n(-1) = (-1)^n *)
Lemma LegP_at_1 k : fst (LegP k 1) = 1 /\ ((1 <= k)%nat -> snd (LegP k 1) = 1).
Proof.
  induction k as [|k [IH1 IH2]].
  - cbn. split; [reflexivity|lia].
  - pose proof (INR_pos1 k) as Hk. cbn [LegP fst snd]. split; [|intros _; exact IH1].
    rewrite IH1. destruct k as [|k].
    + cbn. field.
    + rewrite IH2 by lia. field. exact Hk.
Qed.

Theorem legendre_endpoints n : Leg n 1 = 1 /\ Leg n (-1) = (-1) ^ n /\ Leg n 1 <> 0 /\ Leg n (-1) <> 0.
Proof.
  assert (H1 : Leg n 1 = 1) by exact (proj1 (LegP_at_1 n)).
  assert (H2 : Leg n (-1) = (-1) ^ n).
  { pose proof (proj1 (legendre_parity n 1)) as H2. replace (- (1)) with (-1) in H2 by lra. rewrite H2, H1. ring. }
  repeat split; try assumption; [rewrite H1; lra | rewrite H2; apply pow_m1_neq0].
Qed.

(** the middle root of an odd order is exactly 0 *)
Theorem legendre_odd_root_0 n : Nat.odd n = true -> Leg n 0 = 0.
Proof.
  intros Hodd. pose proof (proj1 (legendre_parity n 0)) as H. rewrite Ropp_0 in H.
  apply Nat.odd_spec in Hodd. destruct Hodd as [q ->].
  replace (2 * q + 1)%nat with (S (2 * q)) in * by lia.
  rewrite <- tech_pow_Rmult, pow_1_even in H. lra.
Qed.

(** ** 3. exactness on the odd part *)
Lemma rs_app f l1 l2 : rs f (l1 ++ l2) = rs f l1 + rs f l2.
Proof. induction l1 as [|r l1 IH]; simpl; [lra|]. rewrite IH. lra. Qed.
Lemma rs_rev f l : rs f (rev l) = rs f l.
Proof. induction l as [|r l IH]; simpl; [reflexivity|]. rewrite rs_app, IH. simpl. lra. Qed.
Lemma rs_map_reflect_nodes f s rw : rs f (map (fun r => (s - fst r, snd r)) rw) = rs (fun x => f (s - x)) rw.
Proof. induction rw as [|r rw IH]; simpl; [reflexivity|]. now rewrite IH. Qed.

(** a table whose middle node (odd n) is the midpoint is its own reflection read backwards *)
Lemma assemble_rev_reflect n a b zs : (1 <= n)%nat -> length zs = gl_m n ->
  (Nat.odd n = true -> (b - a) * zval zs ((n - 1) / 2) = 0) ->
  rev (gl_assemble ROps n a b zs) = map (fun r => (a + b - fst r, snd r)) (gl_assemble ROps n a b zs).
Proof.
  intros Hn Hl Hmid.
  destruct (nodes_weights_symmetric n a b zs Hn Hl) as (HL & HN & HW & HM).
  apply (nth_ext _ _ (0, 0) (a + b - fst (0, 0), snd (0, 0))).
  - now rewrite rev_length, map_length.
  - intros i Hi. rewrite rev_length, HL in Hi.
    rewrite rev_nth by (rewrite HL; exact Hi). rewrite HL.
    rewrite (map_nth (fun r => (a + b - fst r, snd r))).
    replace (n - S i)%nat with (n - 1 - i)%nat by lia.
    rewrite (surjective_pairing (nth (n - 1 - i) _ _)).
    fold (node n a b zs (n - 1 - i)) (weight n a b zs (n - 1 - i)) (node n a b zs i) (weight n a b zs i).
    rewrite <- (HW i Hi). f_equal.
    destruct (Nat.eq_dec i (n - 1 - i)) as [E|NE].
    + assert (Hodd : Nat.odd n = true) by (apply Nat.odd_spec; exists i; lia).
      destruct (HM Hodd) as (_ & _ & Hiff).
      assert (Ei : ((n - 1) / 2 = i)%nat).
      { replace (n - 1)%nat with (i * 2)%nat by lia. apply Nat.div_mul. lia. }
      rewrite Ei in Hiff, Hmid. rewrite <- E in Hiff. rewrite <- E.
      pose proof (proj2 Hiff (Hmid Hodd)). lra.
    + pose proof (HN i Hi NE). lra.
Qed.

Theorem odd_part_exact f n a b zs : (1 <= n)%nat -> length zs = gl_m n ->
  (Nat.odd n = true -> (b - a) * zval zs ((n - 1) / 2) = 0) ->
  (forall x, f (a + b - x) = - f x) ->
  rule_sum f (gl_assemble ROps n a b zs) = 0.
Proof.
  intros Hn Hl Hmid Hf. rewrite rule_sum_rs.
  pose proof (rs_rev f (gl_assemble ROps n a b zs)) as H1.
  rewrite (assemble_rev_reflect n a b zs Hn Hl Hmid), rs_map_reflect_nodes in H1.
  rewrite (rs_ext _ (fun x => -1 * f x + 0)) in H1 by (intros t; rewrite Hf; ring).
  rewrite rs_lin, rs_zero in H1. lra.
Qed.

(** ... and 0 is the integral of such a function: the rule is EXACT on every integrable function that is odd about the midpoint
    (every odd centred monomial (x - mid)^(2k+1) of every degree, in particular), for every order n *)
Lemma RInt_odd_about_mid f a b : ex_RInt f a b -> (forall x, f (a + b - x) = - f x) -> RInt f a b = 0.
Proof.
  intros Hex Hf.
  assert (Hex' : ex_RInt f (-1 * a + (a + b)) (-1 * b + (a + b))).
  { replace (-1 * a + (a + b)) with b by ring. replace (-1 * b + (a + b)) with a by ring. apply ex_RInt_swap, Hex. }
  pose proof (@RInt_comp_lin R_CompleteNormedModule f (-1) (a + b) a b Hex') as H.
  replace (-1 * a + (a + b)) with b in H by ring. replace (-1 * b + (a + b)) with a in H by ring.
  match type of H with ?L = _ => assert (E : L = RInt f a b) end.
  { apply RInt_ext. intros x _. replace (-1 * x + (a + b)) with (a + b - x) by ring. rewrite Hf. unfold scal; cbn; unfold mult; cbn. ring. }
  rewrite E in H. pose proof (opp_RInt_swap f a b Hex) as Hs. rewrite <- Hs in H.
  set (I := RInt f a b) in *. change (I = - I) in H. lra.
Qed.

Theorem odd_part_exact_RInt f n a b zs : (1 <= n)%nat -> length zs = gl_m n ->
  (Nat.odd n = true -> (b - a) * zval zs ((n - 1) / 2) = 0) ->
  ex_RInt f a b -> (forall x, f (a + b - x) = - f x) ->
  rule_sum f (gl_assemble ROps n a b zs) = RInt f a b.
Proof.
  intros Hn Hl Hmid Hex Hf. rewrite (odd_part_exact f n a b zs Hn Hl Hmid Hf). symmetry. now apply RInt_odd_about_mid.
Qed.

(** the same for an even function about the midpoint: the two halves contribute equally (no premise on the middle node is
    needed beyond the one above) -- stated as: the rule sees only the even part of f *)
Theorem even_part_only f n a b zs : (1 <= n)%nat -> length zs = gl_m n ->
  (Nat.odd n = true -> (b - a) * zval zs ((n - 1) / 2) = 0) ->
  rule_sum f (gl_assemble ROps n a b zs) = rule_sum (fun x => (f x + f (a + b - x)) / 2) (gl_assemble ROps n a b zs).
Proof.
  intros Hn Hl Hmid. rewrite !rule_sum_rs.
  pose proof (rs_rev f (gl_assemble ROps n a b zs)) as H1.
  rewrite (assemble_rev_reflect n a b zs Hn Hl Hmid), rs_map_reflect_nodes in H1.
  rewrite (rs_ext (fun x => (f x + f (a + b - x)) / 2) (fun x => / 2 * f x + (fun y => / 2 * f (a + b - y) + 0) x)) by (intros t; field).
  rewrite rs_lin. rewrite (rs_lin (fun x => f (a + b - x)) (fun _ => 0)), rs_zero, H1. lra.
Qed.

(** non-vacuity: the exact middle root z_mid = 0 of the three-point table of ex_roots_ok_3 and an odd function *)
Example ex_odd_part : (1 <= 3)%nat /\ length [(3/4, 1); (0, 2)] = gl_m 3 /\
  (Nat.odd 3 = true -> (5 - 1) * zval [(3/4, 1); (0, 2)] ((3 - 1) / 2) = 0) /\ (forall x, (fun t => t - 3) (1 + 5 - x) = - (fun t => t - 3) x).
Proof. repeat split; [lia | intros _; cbn; ring | intros x; ring]. Qed.
