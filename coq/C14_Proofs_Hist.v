(** * C14 proofs, call histories: every call of Integrate_MC — run to its end or brought to an end early by an exception
    thrown from its integrand — leaves statics behind that are well formed ([wf_statics]); hence, by
    [integrate_mc_forgets], the observed call after any history returns what it returns in a fresh process.

    The facts needed are about container sizes only (the grid keeps its MXDIM rows, no row becomes empty), so they are
    proved for every number type and then read at [ROps]. *)
From Coq Require Import Reals ZArith NArith Nnat List Lra Lia Bool.
From LP Require Import Num NumR C13_Model C14_Model C14_Proofs.
Import ListNotations.

Section Sizes.
Context {T : Type} (Ops : NumOps T).
Variable us : Z -> T.

Definition nonempty (row : list T) : Prop := row <> [].
(** the grid: at least MXDIM = 10 rows, none empty *)
Definition wfx (xi : list (list T)) : Prop := (10 <= length xi)%nat /\ Forall nonempty xi.

Lemma Forall_skipn' {A} (P : A -> Prop) n : forall l, Forall P l -> Forall P (skipn n l).
Proof. induction n; intros l H; [exact H |]. destruct l; [constructor |]. inversion H; subst. cbn. auto. Qed.

Lemma set_nth_nonempty (row : list T) i v : nonempty row -> nonempty (set_nth row i v).
Proof. unfold nonempty. destruct row; [congruence |]. destruct i; cbn; discriminate. Qed.

(** *** Rebin *)
Lemma rebin_nonempty rc nd r row row' : rebin Ops rc nd r row = Ok row' -> nonempty row'.
Proof.
  unfold rebin. destruct (rebin_loop Ops _ rc r row 0 (n0 Ops) (n0 Ops)) as [xin | | |]; cbn [rbind]; try discriminate.
  intros H. injection H as <-. unfold nonempty. destruct xin; discriminate.
Qed.

Lemma rebin_rows_spec rc nd r : forall rows rows',
  rebin_rows Ops rc nd r rows = Ok rows' -> length rows' = length rows /\ Forall nonempty rows'.
Proof.
  induction rows as [| row rows IH]; intros rows' H; cbn in H.
  - injection H as <-. split; [reflexivity | constructor].
  - destruct (rebin Ops rc nd r row) as [row' | | |] eqn:E; cbn [rbind] in H; try discriminate.
    destruct (rebin_rows Ops rc nd r rows) as [rest | | |] eqn:E2; cbn [rbind] in H; try discriminate.
    injection H as <-. destruct (IH rest eq_refl) as [L F]. split; [cbn; lia |].
    constructor; [exact (rebin_nonempty _ _ _ _ _ E) | exact F].
Qed.

Lemma wfx_replace_head (xi rows : list (list T)) n :
  wfx xi -> length rows = length (firstn n xi) -> Forall nonempty rows -> wfx (rows ++ skipn n xi).
Proof.
  intros [L F] Hl Fr. split.
  - rewrite app_length, Hl, <- app_length, firstn_skipn. exact L.
  - apply Forall_app. split; [exact Fr | apply Forall_skipn'; exact F].
Qed.

Lemma grid_reset_wfx nd ndo xnd nd_ xi xi' ndo' :
  vegas_grid_reset Ops nd ndo xnd nd_ xi = Ok (xi', ndo') -> wfx xi -> wfx xi'.
Proof.
  unfold vegas_grid_reset. destruct (negb (nd =? ndo)%Z).
  - destruct (rebin_rows Ops _ nd _ (firstn nd_ xi)) as [rows | | |] eqn:E; cbn [rbind]; try discriminate.
    intros H W. injection H as <- _. destruct (rebin_rows_spec _ _ _ _ _ E) as [L F].
    apply wfx_replace_head; assumption.
  - intros H W. injection H as <- _. exact W.
Qed.

(** *** The initialisation blocks *)
Lemma init_head_wfx nd_ (xi : list (list T)) :
  wfx xi -> wfx (map (fun row => set_nth row 0 (n1 Ops)) (firstn nd_ xi) ++ skipn nd_ xi).
Proof.
  intros W. apply wfx_replace_head; [exact W | apply map_length |].
  destruct W as [_ F]. apply Forall_forall. intros row Hin. apply in_map_iff in Hin. destruct Hin as (row0 & <- & Hin).
  apply set_nth_nonempty. apply (proj1 (Forall_forall _ _) (Forall_firstn' _ nd_ _ F)). exact Hin.
Qed.

Lemma vegas_init_wfx s region init ncall s1 :
  vegas_init Ops s region init ncall = Ok s1 -> wfx (v_xi s) -> wfx (v_xi s1).
Proof.
  unfold vegas_init. intros H W.
  assert (W0 : wfx (let '(_, _, xi) :=
                      if (init <=? 0)%Z then (1%Z, 1%Z, map (fun row => set_nth row 0 (n1 Ops)) (firstn (rdim region) (v_xi s)) ++ skipn (rdim region) (v_xi s))
                      else (v_mds s, v_ndo s, v_xi s) in xi)).
  { destruct (init <=? 0)%Z; [apply init_head_wfx; exact W | exact W]. }
  destruct (if (init <=? 0)%Z then _ else _) as [[mds ndo] xi0]. cbv beta iota zeta in W0.
  destruct (if (init <=? 1)%Z then _ else _) as [[si swgt] schi].
  destruct (init <=? 2)%Z.
  - destruct (if negb (mds =? 0)%Z then _ else _) as [[ng mds'] nd].
    destruct (dx_jac Ops (lows region) (highs region) _) as [dx xjac].
    destruct (vegas_grid_reset Ops nd ndo _ (rdim region) xi0) as [[xi1 ndo1] | | |] eqn:E; cbn [rbind] in H; try discriminate.
    injection H as <-. cbn [v_xi]. exact (grid_reset_wfx _ _ _ _ _ _ _ E W0).
  - injection H as <-. cbn [v_xi]. exact W0.
Qed.

(** with init = 0 the number of bins in use is at least 1 (50, or ng / (ng / 50 + 1) with ng >= 25) *)
Lemma vegas_init0_nd s region ncall s1 : vegas_init Ops s region 0 ncall = Ok s1 -> (1 <= v_nd s1)%Z.
Proof.
  unfold vegas_init.
  change (0 <=? 0)%Z with true. change (0 <=? 1)%Z with true. change (0 <=? 2)%Z with true. cbv beta iota zeta.
  change (negb (1 =? 0)%Z) with true. cbv beta iota zeta.
  set (ng0 := ntrunc Ops _).
  destruct (2 * ng0 - NDMX >=? 0)%Z eqn:G; cbv beta iota zeta.
  all: destruct (dx_jac Ops (lows region) (highs region) _) as [dx xjac].
  all: match goal with |- context [vegas_grid_reset Ops ?nd 1 ?x ?n ?xi] => destruct (vegas_grid_reset Ops nd 1 x n xi) as [[xi1 ndo1] | | |] end;
       cbn [rbind]; try discriminate; intros H; injection H as <-; cbn [v_nd].
  - unfold NDMX in *. apply Z.geb_le in G.
    assert (P : (25 <= ng0)%Z) by lia.
    rewrite (Z.quot_div_nonneg ng0 50) by lia.
    assert (Q : (0 <= ng0 / 50)%Z) by (apply Z.div_pos; lia).
    rewrite Z.quot_div_nonneg by lia.
    apply Z.div_le_lower_bound; [lia |].
    assert (ng0 / 50 <= ng0 / 2)%Z by (apply Z.div_le_compat_l; lia).
    assert (2 * (ng0 / 2) <= ng0)%Z by (apply Z.mul_div_le; lia).
    lia.
  - unfold NDMX. lia.
Qed.

(** *** The iterations: the part of the grid in use keeps its number of rows, and no row becomes empty *)
Lemma d_add_length : forall (d : list (list T)) ias v d', d_add Ops d ias v = Ok d' -> length d' = length d.
Proof.
  induction d as [| col d IH]; intros ias v d' H.
  - destruct ias; cbn in H; injection H as <-; reflexivity.
  - destruct ias as [| ia ias]; [cbn in H; injection H as <-; reflexivity |].
    cbn [d_add] in H.
    destruct (if (ia <? 1)%Z then OOB else add_at Ops col (Z.to_nat (ia - 1)) v) as [c | | |]; cbn [rbind] in H; try discriminate.
    destruct (d_add Ops d ias v) as [rest | | |] eqn:E; cbn [rbind] in H; try discriminate.
    injection H as <-. cbn. rewrite (IH _ _ _ E). reflexivity.
Qed.

Lemma vegas_cell_length f s rows region kgs : forall n fb f2b d ias pos fb' f2b' d' ias' pos',
  vegas_cell Ops us n f s rows region kgs fb f2b d ias pos = Ok (fb', f2b', d', ias', pos') -> length d' = length d.
Proof.
  induction n as [| n IH]; intros fb f2b d ias pos fb' f2b' d' ias' pos' H; cbn [vegas_cell] in H.
  - injection H as _ _ <- _ _. reflexivity.
  - destruct (vegas_sample Ops us kgs rows (lows region) (v_dx s) (v_dxg s) (v_xnd s) (v_xjac s) pos) as [[[[x ias1] wgt] pos1] | | |];
      cbn [rbind] in H; try discriminate.
    destruct (if (v_mds s >=? 0)%Z then _ else _) as [d1 | | |] eqn:E; cbn [rbind] in H; try discriminate.
    rewrite (IH _ _ _ _ _ _ _ _ _ _ H).
    destruct (v_mds s >=? 0)%Z; [exact (d_add_length _ _ _ _ E) | injection E as <-; reflexivity].
Qed.

Definition cells_inv (n : nat) (st : res (bool * list Z * T * T * list (list T) * Z)) : Prop :=
  match st with Ok (_, _, _, _, d, _) => length d = n | _ => True end.

Lemma vegas_cells_step_inv f s rows region n st : cells_inv n st -> cells_inv n (vegas_cells_step Ops us f s rows region st).
Proof.
  unfold vegas_cells_step. destruct st as [[[[[[dn kgs] ti] tsi] d] pos] | | |]; cbn [rbind cells_inv]; try exact (fun _ => I).
  intros L. destruct dn; [exact L |].
  destruct (vegas_cell Ops us _ f s rows region kgs (n0 Ops) (n0 Ops) d [] pos) as [[[[[fb f2b] d1] ias] pos'] | | |] eqn:E;
    cbn [rbind cells_inv]; try exact I.
  pose proof (vegas_cell_length _ _ _ _ _ _ _ _ _ _ _ _ _ _ _ _ E) as L1.
  match goal with |- context [if (v_mds s <? 0)%Z then ?a else ?b] => destruct (if (v_mds s <? 0)%Z then a else b) as [d2 | | |] eqn:E2 end;
    cbn [rbind cells_inv]; try exact I.
  destruct (kg_advance _ _) as [kg' dn']. cbn [cells_inv].
  destruct (v_mds s <? 0)%Z; [rewrite (d_add_length _ _ _ _ E2) | injection E2 as <-]; lia.
Qed.

Lemma vegas_cells_length f s rows region d pos ti tsi d' pos' :
  vegas_cells Ops us f s rows region d pos = Ok (ti, tsi, d', pos') -> length d' = length d.
Proof.
  unfold vegas_cells.
  pose proof (N.iter_invariant (Z.to_N (zpow (v_ng s) (rdim region))) _ (vegas_cells_step Ops us f s rows region) (cells_inv (length d))
               (fun st => vegas_cells_step_inv f s rows region (length d) st)
               (Ok (false, repeat 1%Z (rdim region), n0 Ops, n0 Ops, d, pos)) eq_refl) as Inv.
  destruct (N.iter _ _ _) as [[[[[[dn kgs] ti1] tsi1] d1] pos1] | | |]; cbn [rbind]; try discriminate.
  cbn [cells_inv] in Inv. destruct dn; [| discriminate]. intros H. injection H as _ _ <- _. exact Inv.
Qed.

Lemma vegas_refine_spec s : forall d rows rows', vegas_refine Ops s d rows = Ok rows' ->
  length d = length rows -> Forall nonempty rows -> length rows' = length rows /\ Forall nonempty rows'.
Proof.
  induction d as [| col d IH]; intros rows rows' H L F.
  - destruct rows; [| discriminate L]. cbn in H. injection H as <-. split; [reflexivity | constructor].
  - destruct rows as [| row rows]; [discriminate L |]. cbn [vegas_refine] in H.
    destruct (smooth_col Ops col) as [[col' dt] | | |]; cbn [rbind] in H; try discriminate.
    match type of H with rbind ?a _ = _ => destruct a as [row' | | |] eqn:E end; cbn [rbind] in H; try discriminate.
    destruct (vegas_refine Ops s d rows) as [rest | | |] eqn:E2; cbn [rbind] in H; try discriminate.
    injection H as <-. inversion F as [| ? ? Fr Frs]; subst.
    destruct (IH rows rest E2 ltac:(cbn in L; lia) Frs) as [L' F']. split; [cbn; lia |].
    constructor; [| exact F'].
    destruct (nleb Ops dt (n0 Ops)).
    + injection E as <-. exact Fr.
    + destruct (refine_r Ops col' dt (n0 Ops)) as [r rc]. exact (rebin_nonempty _ _ _ _ _ E).
Qed.

Definition live_ok (n : nat) (s : @vstate T) : Prop := length (v_xi s) = n /\ Forall nonempty (v_xi s).

Lemma vegas_iterations_live f region : forall itmx s integral pos v s' pos',
  vegas_iterations Ops us itmx f s region integral pos = Ok (v, s', pos') ->
  live_ok (rdim region) s -> live_ok (rdim region) s'.
Proof.
  induction itmx as [| itmx IH]; intros s integral pos v s' pos' H [L F]; cbn [vegas_iterations] in H.
  - injection H as _ <- _. split; assumption.
  - destruct (vegas_cells Ops us f s (v_xi s) region _ pos) as [[[[ti tsi] d] pos1] | | |] eqn:E; cbn [rbind] in H; try discriminate.
    pose proof (vegas_cells_length _ _ _ _ _ _ _ _ _ _ E) as Ld. rewrite repeat_length in Ld.
    destruct (nisnan Ops _); [discriminate |].
    destruct (vegas_refine Ops s d (v_xi s)) as [rows' | | |] eqn:E2; cbn [rbind] in H; try discriminate.
    destruct (vegas_refine_spec s d (v_xi s) rows' E2 ltac:(lia) F) as [L' F'].
    apply (IH _ _ _ _ _ _ H). split; cbn [v_xi]; [lia | exact F'].
Qed.

(** *** The part in use and the write-back *)
Lemma firstn_nonempty (row : list T) n : nonempty row -> (1 <= n)%nat -> nonempty (firstn n row).
Proof. unfold nonempty. destruct row; [congruence |]. destruct n; [lia |]. cbn. discriminate. Qed.

Lemma vegas_live_ok region s : wfx (v_xi s) -> (rdim region <= 10)%nat -> (1 <= v_nd s)%Z -> live_ok (rdim region) (vegas_live region s).
Proof.
  intros [L F] Hd Hn. unfold vegas_live, live_ok. cbn [v_xi]. split.
  - rewrite map_length, firstn_length. lia.
  - apply Forall_forall. intros row Hin. apply in_map_iff in Hin. destruct Hin as (row0 & <- & Hin).
    apply firstn_nonempty; [| lia]. apply (proj1 (Forall_forall _ _) (Forall_firstn' _ (rdim region) _ F)). exact Hin.
Qed.

Lemma combine_merge_spec (g : list T -> list T -> list T) : (forall a b, nonempty a -> nonempty (g a b)) ->
  forall (l1 l2 : list (list T)), Forall nonempty l1 ->
  length (map (fun p => g (fst p) (snd p)) (combine l1 l2)) = Nat.min (length l1) (length l2) /\
  Forall nonempty (map (fun p => g (fst p) (snd p)) (combine l1 l2)).
Proof.
  intros Hg. induction l1 as [| a l1 IH]; intros l2 F; [split; [reflexivity | constructor] |].
  destruct l2 as [| b l2]; [split; [reflexivity | constructor] |].
  inversion F; subst. destruct (IH l2 ltac:(assumption)) as [L F']. cbn. split; [lia |]. constructor; [apply Hg; assumption | exact F'].
Qed.

Lemma vegas_merge_wfx region full live :
  wfx (v_xi full) -> (rdim region <= 10)%nat -> live_ok (rdim region) live -> wfx (v_xi (vegas_merge region full live)).
Proof.
  intros W Hd [L F]. unfold vegas_merge. cbn [v_xi].
  set (ndn := Z.to_nat (v_nd live)).
  destruct (combine_merge_spec (fun a b => a ++ skipn ndn b)
              ltac:(intros a b Ha; unfold nonempty in *; destruct a; [congruence | discriminate])
              (v_xi live) (firstn (rdim region) (v_xi full)) F) as [Lm Fm].
  apply wfx_replace_head; [exact W | | exact Fm].
  rewrite Lm, L, firstn_length. destruct W as [Lw _]. lia.
Qed.

(** *** A call of Vegas, run to its end or brought to an end early by its integrand, leaves a well-formed grid *)
Lemma vegas_throwing_wfx s f region ncall itmx n o s' :
  vegas_throwing Ops us s f region 0 ncall itmx n = Ok (o, s') -> wfx (v_xi s) -> (rdim region <= 10)%nat -> wfx (v_xi s').
Proof.
  unfold vegas_throwing. intros H W Hd.
  destruct (vegas_init Ops s region 0 ncall) as [s1 | | |] eqn:E; cbn [rbind] in H; try discriminate.
  pose proof (vegas_init_wfx _ _ _ _ _ E W) as W1. pose proof (vegas_init0_nd _ _ _ _ E) as N1.
  pose proof (vegas_live_ok region s1 W1 Hd N1) as Lv.
  destruct ((n <=? 0)%Z || _).
  - destruct (vegas_iterations Ops us itmx f _ region (n0 Ops) 0) as [[[integral s2] pos] | | |] eqn:E2; cbn [rbind] in H; try discriminate.
    injection H as _ <-. apply vegas_merge_wfx; [assumption .. |]. exact (vegas_iterations_live _ _ _ _ _ _ _ _ _ E2 Lv).
  - destruct (vegas_iterations Ops us _ f _ region (n0 Ops) 0) as [[[integral s2] pos] | | |] eqn:E2; cbn [rbind] in H; try discriminate.
    injection H as _ <-. apply vegas_merge_wfx; [assumption .. |]. exact (vegas_iterations_live _ _ _ _ _ _ _ _ _ E2 Lv).
Qed.

(** an integrand that never throws (n <= 0): the call is the ordinary one *)
Lemma vegas_throwing_never s f region init ncall itmx n : (n <= 0)%Z ->
  vegas_throwing Ops us s f region init ncall itmx n = rmap (fun r => (Some (fst r), snd r)) (vegas Ops us s f region init ncall itmx).
Proof.
  intros Hn. unfold vegas_throwing, vegas, rmap.
  destruct (vegas_init Ops s region init ncall) as [s1 | | |]; cbn [rbind]; try reflexivity.
  replace (n <=? 0)%Z with true by (symmetry; apply Z.leb_le; exact Hn). cbn [orb].
  destruct (vegas_iterations Ops us itmx f _ region (n0 Ops) 0) as [[[integral s2] pos] | | |]; reflexivity.
Qed.

Lemma integrate_mc_throwing_never s m f region ncalls n : (n <= 0)%Z ->
  integrate_mc_throwing Ops us s m f region ncalls n = rmap (fun r => (Some (fst r), snd r)) (integrate_mc Ops us s m f region ncalls).
Proof.
  intros Hn. unfold integrate_mc_throwing, integrate_mc.
  assert (B : ((1 <=? n)%Z && (n <=? ncalls)%Z) = false) by (apply andb_false_iff; left; apply Z.leb_gt; lia).
  destruct m; try reflexivity.
  - rewrite B. reflexivity.
  - apply vegas_throwing_never. exact Hn.
  - rewrite B. unfold rmap. destruct (integrate_miser Ops us f region ncalls); reflexivity.
Qed.

Lemma integrate_mc_throwing_wfx s m f region ncalls n o s' :
  integrate_mc_throwing Ops us s m f region ncalls n = Ok (o, s') -> wfx (v_xi s) -> (rdim region <= 10)%nat -> wfx (v_xi s').
Proof.
  unfold integrate_mc_throwing. intros H W Hd. destruct m; try discriminate.
  - destruct ((1 <=? n)%Z && (n <=? ncalls)%Z); injection H as _ <-; exact W.
  - exact (vegas_throwing_wfx _ _ _ _ _ _ _ _ H W Hd).
  - destruct ((1 <=? n)%Z && (n <=? ncalls)%Z); [injection H as _ <-; exact W |].
    destruct (integrate_miser Ops us f region ncalls); cbn [rbind] in H; try discriminate. injection H as _ <-. exact W.
Qed.
End Sizes.

(** ** At the reals *)
Local Open Scope R_scope.

Lemma wf_statics_wfx (s : @vstate R) : wf_statics s <-> wfx (v_xi s).
Proof. unfold wf_statics, wfx, nonempty. tauto. Qed.

(** plain Monte Carlo and Miser are brought to an end exactly when the integrand throws within the budget, and leave the statics alone;
    Vegas brought to an end in its first iteration has written the re-initialised statics only *)
Lemma throwing_plain_and_miser us s f region ncalls n : (1 <= n <= ncalls)%Z ->
  integrate_mc_throwing ROps us s M_MonteCarlo f region ncalls n = Ok (None, s) /\
  integrate_mc_throwing ROps us s M_Miser f region ncalls n = Ok (None, s).
Proof.
  intros [H1 H2]. unfold integrate_mc_throwing.
  replace ((1 <=? n)%Z && (n <=? ncalls)%Z) with true; [split; reflexivity |].
  symmetry. apply andb_true_iff. split; apply Z.leb_le; assumption.
Qed.

(** every call, ended early or not, leaves well-formed statics *)
Theorem integrate_mc_throwing_wf us s m f region ncalls n o s' :
  wf_statics s -> (rdim region <= 10)%nat ->
  integrate_mc_throwing ROps us s m f region ncalls n = Ok (o, s') -> wf_statics s'.
Proof.
  intros W Hd H. apply wf_statics_wfx. apply wf_statics_wfx in W. exact (integrate_mc_throwing_wfx ROps us _ _ _ _ _ _ _ _ H W Hd).
Qed.

Theorem integrate_mc_wf us s m f region ncalls v s' :
  wf_statics s -> (rdim region <= 10)%nat ->
  integrate_mc ROps us s m f region ncalls = Ok (v, s') -> wf_statics s'.
Proof.
  intros W Hd H.
  pose proof (integrate_mc_throwing_never ROps us s m f region ncalls 0 ltac:(lia)) as E. rewrite H in E. cbn in E.
  exact (integrate_mc_throwing_wf us s m f region ncalls 0 _ _ W Hd E).
Qed.

(** a history: calls in at most MXDIM = 10 dimensions *)
Definition history_ok (h : list (@hcall R)) : Prop := Forall (fun c => (rdim (h_region c) <= 10)%nat) h.

Theorem run_history_wf : forall h s s', wf_statics s -> history_ok h -> run_history ROps s h = Ok s' -> wf_statics s'.
Proof.
  induction h as [| c h IH]; intros s s' W Hh H; cbn [run_history] in H.
  - injection H as <-. exact W.
  - inversion Hh as [| ? ? Hc Hh']; subst.
    destruct (integrate_mc_throwing ROps (h_us c) s (h_m c) (h_f c) (h_region c) (h_ncalls c) (h_n c)) as [[o s1] | | |] eqn:E;
      cbn [rbind] in H; try discriminate.
    cbn [snd] in H. apply (IH s1 s'); [| exact Hh' | exact H].
    exact (integrate_mc_throwing_wf _ _ _ _ _ _ _ _ _ W Hc E).
Qed.

(** the observed call after a history (started in a fresh process) returns what it returns in a fresh process *)
Theorem observed_call_forgets_history us h s m f region ncalls :
  history_ok h -> run_history ROps (vstate0 ROps) h = Ok s -> (rdim region <= 10)%nat ->
  rmap fst (integrate_mc ROps us s m f region ncalls) = rmap fst (integrate_mc ROps us (vstate0 ROps) m f region ncalls).
Proof.
  intros Hh H Hd. apply integrate_mc_forgets; [| exact wf_statics_fresh_process | exact Hd].
  exact (run_history_wf h _ _ wf_statics_fresh_process Hh H).
Qed.

(** non-vacuity: a history of three calls, the second one brought to an end at its 7th evaluation *)
Example history_example :
  let c1 := mkH (fun _ => 1 / 2) M_Miser (fun _ => 1) [0; 1] 100%Z 0%Z in
  let c2 := mkH (fun _ => 1 / 4) M_MonteCarlo (fun _ => 2) [0; 0; 1; 1] 50%Z 7%Z in
  history_ok [c1; c2] /\ exists o, integrate_mc_throwing ROps (h_us c2) (vstate0 ROps) (h_m c2) (h_f c2) (h_region c2) (h_ncalls c2) (h_n c2) = Ok (o, vstate0 ROps) /\ o = None.
Proof.
  cbn zeta. split; [repeat constructor; cbn; lia |]. exists None. split; reflexivity.
Qed.

(** ** Histories that also use the sampling facility the integrators draw from *)

(** Sample_Uniform(PRNG, a, b) with a < b lies in [a, b) for every draw of the generator in [0,1); with the default limits it is the draw itself *)
Lemma sample_uniform_in_range (us : Z -> R) pos a b : 0 <= us pos < 1 -> a < b -> a <= sample_uniform ROps us pos a b < b.
Proof. intros [H0 H1] Hab. unfold sample_uniform. cbn. split; nra. Qed.

Lemma sample_uniform_default (us : Z -> R) pos : sample_uniform ROps us pos 0 1 = us pos.
Proof. unfold sample_uniform. cbn. ring. Qed.

Lemma sample_uniforms_length (us : Z -> R) : forall ranges pos, length (sample_uniforms ROps us ranges pos) = length ranges.
Proof. induction ranges as [| [a b] r IH]; intros pos; cbn; [reflexivity | now rewrite IH]. Qed.

(** the integrations among the events *)
Fixpoint calls_of (h : list (@hevent R)) : list (@hcall R) :=
  match h with
  | [] => []
  | E_call c :: h' => c :: calls_of h'
  | E_draws _ _ :: h' => calls_of h'
  end.

(** draws leave the statics of the integrators alone: the statics after the events are those after the integrations among them *)
Lemma run_events_calls : forall h s, run_events ROps s h = run_history ROps s (calls_of h).
Proof.
  induction h as [| e h IH]; intros s; [reflexivity |].
  destruct e as [c | dus ranges]; cbn [run_events run_event calls_of run_history].
  - destruct (integrate_mc_throwing ROps (h_us c) s (h_m c) (h_f c) (h_region c) (h_ncalls c) (h_n c)) as [[o s1] | | |]; cbn [rbind fst snd]; [apply IH | reflexivity ..].
  - cbn [rbind fst]. apply IH.
Qed.

Definition events_ok (h : list (@hevent R)) : Prop := history_ok (calls_of h).

Theorem run_events_wf h s s' : wf_statics s -> events_ok h -> run_events ROps s h = Ok s' -> wf_statics s'.
Proof. intros W Hh H. rewrite run_events_calls in H. exact (run_history_wf _ _ _ W Hh H). Qed.

(** the observed call after any such events returns what it returns in a fresh process *)
Theorem observed_call_forgets_events us h s m f region ncalls :
  events_ok h -> run_events ROps (vstate0 ROps) h = Ok s -> (rdim region <= 10)%nat ->
  rmap fst (integrate_mc ROps us s m f region ncalls) = rmap fst (integrate_mc ROps us (vstate0 ROps) m f region ncalls).
Proof. intros Hh H Hd. rewrite run_events_calls in H. exact (observed_call_forgets_history us _ s m f region ncalls Hh H Hd). Qed.

(** non-vacuity: an isotropic direction drawn before the observed call *)
Example events_example :
  let e := E_draws (fun _ => 1 / 2) [(0, 2 * PI); (-1, 1)] in
  events_ok [e] /\ run_events ROps (vstate0 ROps) [e] = Ok (vstate0 ROps) /\
  run_event ROps (vstate0 ROps) e = Ok (vstate0 ROps, [1 / 2 * (2 * PI - 0) + 0; 1 / 2 * (1 - -1) + -1]).
Proof. cbn zeta. split; [constructor | split; reflexivity]. Qed.
