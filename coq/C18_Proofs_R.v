(** * C18 proofs, part 2: theorems over the real-number instance [ROps]:
    ranges/domains, detailed balance of the acceptance rule, the Poisson sampler is Knuth's product rule. *)
From Coq Require Import ZArith List Bool Lia Arith Reals Lra Psatz.
From LP Require Import Num NumR C18_Model C18_Proofs.
Import ListNotations.
Local Open Scope R_scope.

(** ** Sample_Uniform *)
Lemma unif_R u a b : unif ROps u a b = u * (b - a) + a.
Proof. reflexivity. Qed.
Lemma unif01_R u : unif ROps u (n0 ROps) (n1 ROps) = u.
Proof. unfold unif; cbn. ring. Qed.

Theorem unif_range u a b : a <= b -> 0 <= u < 1 ->
  a <= unif ROps u a b <= b /\ (a < b -> unif ROps u a b < b) /\ (a = b -> unif ROps u a b = a).
Proof. intros Hab Hu. rewrite unif_R. repeat split; try nra. Qed.

(** Sample_Uniform(PRNG,a,b) consumes one uniform and returns a point of [a,b] (of [a,b) when a < b) *)
Theorem sample_uniform_range a b us v r : a <= b -> Forall (fun u => 0 <= u < 1) us ->
  sample_uniform ROps a b us = Ok (v, r) ->
  consumes us r 1 /\ a <= v <= b /\ (a < b -> v < b).
Proof.
  intros Hab Hus H. apply sample_uniform_inv in H. destruct H as (u & -> & ->).
  inversion Hus as [|? ? Hu Hus']; subst. split; [exists [u]; now split|].
  destruct (unif_range u a b Hab Hu) as (G1 & G2 & _); auto.
Qed.

Example sample_uniform_range_ex : sample_uniform ROps (-1) 3 [/2; /4] = Ok (1, [/4]).
Proof. unfold sample_uniform. rewrite unif_R. do 2 f_equal. lra. Qed.

(** ** Acceptance rule of Sample_Metropolis: min(1, pi(y)/pi(x)) satisfies detailed balance *)
Lemma nmin_R a b : nmin ROps a b = Rmin a b.
Proof.
  unfold nmin; cbn. unfold Rmin. destruct (Rltb_spec b a), (Rle_dec a b); try reflexivity; lra.
Qed.

Theorem detailed_balance_R px py : 0 < px -> 0 < py -> px * Rmin 1 (py / px) = py * Rmin 1 (px / py).
Proof.
  intros Hx Hy. destruct (Rle_dec py px) as [H|H].
  - rewrite (Rmin_right 1 (py / px)), (Rmin_left 1 (px / py)).
    + field. lra.
    + apply (Rmult_le_reg_r py); [lra|]. unfold Rdiv. rewrite Rmult_assoc, Rinv_l by lra. lra.
    + apply (Rmult_le_reg_r px); [lra|]. unfold Rdiv. rewrite Rmult_assoc, Rinv_l by lra. lra.
  - rewrite (Rmin_left 1 (py / px)), (Rmin_right 1 (px / py)).
    + field. lra.
    + apply (Rmult_le_reg_r py); [lra|]. unfold Rdiv. rewrite Rmult_assoc, Rinv_l by lra. lra.
    + apply (Rmult_le_reg_r px); [lra|]. unfold Rdiv. rewrite Rmult_assoc, Rinv_l by lra. lra.
Qed.

Lemma accept1_unbounded PDF x y : accept1 ROps PDF None x y = Rmin 1 (PDF y / PDF x).
Proof. unfold accept1. now rewrite nmin_R. Qed.

Lemma accept1_bounded_inside PDF lo hi x y : lo <= y <= hi ->
  accept1 ROps PDF (Some (lo, hi)) x y = Rmin 1 (PDF y / PDF x).
Proof.
  intros Hy. unfold accept1. cbn [nltb ngtb ROps].
  destruct (Rltb_spec y lo); [lra|]. unfold ngtb; cbn [nltb ROps]. destruct (Rltb_spec hi y); [lra|].
  simpl orb. now rewrite nmin_R.
Qed.

Lemma accept1_bounded_outside PDF lo hi x y : y < lo \/ hi < y ->
  accept1 ROps PDF (Some (lo, hi)) x y = 0.
Proof.
  intros Hy. unfold accept1, ngtb. cbn [nltb ROps n0].
  destruct (Rltb_spec y lo), (Rltb_spec hi y); simpl orb; try reflexivity; lra.
Qed.

(** pi(x) a(x -> y) = pi(y) a(y -> x) for the acceptance probability the code computes, with a positive
    target density; on a bounded domain for any two points of the domain *)
Theorem acceptance_detailed_balance PDF x y : 0 < PDF x -> 0 < PDF y ->
  PDF x * accept1 ROps PDF None x y = PDF y * accept1 ROps PDF None y x.
Proof. intros. rewrite !accept1_unbounded. now apply detailed_balance_R. Qed.

Theorem acceptance_detailed_balance_bounded PDF lo hi x y :
  lo <= x <= hi -> lo <= y <= hi -> 0 < PDF x -> 0 < PDF y ->
  PDF x * accept1 ROps PDF (Some (lo, hi)) x y = PDF y * accept1 ROps PDF (Some (lo, hi)) y x.
Proof. intros. rewrite !accept1_bounded_inside by assumption. now apply detailed_balance_R. Qed.

Theorem acceptance_detailed_balance_2d PDF x y : 0 < PDF (fst x) (snd x) -> 0 < PDF (fst y) (snd y) ->
  PDF (fst x) (snd x) * accept2 ROps PDF None x y = PDF (fst y) (snd y) * accept2 ROps PDF None y x.
Proof. intros. unfold accept2. rewrite !nmin_R. now apply detailed_balance_R. Qed.

Example detailed_balance_ex : 2 * Rmin 1 (1 / 2) = 1 * Rmin 1 (2 / 1).
Proof. apply detailed_balance_R; lra. Qed.

(** ** Sample_Metropolis on a bounded domain: every returned sample lies in the domain *)
Lemma metro_loop_in_domain PDF sigma lo hi burn thin imax n : forall us i x acc l r,
  (length us <= n)%nat -> Forall (fun u => 0 <= u) us ->
  lo <= x <= hi -> Forall (fun z => lo <= z <= hi) acc ->
  metro_loop ROps PDF sigma (Some (lo, hi)) burn thin imax us i x acc = Ok (l, r) ->
  Forall (fun z => lo <= z <= hi) l.
Proof.
  induction n as [|n IH]; intros us i x acc l r Hlen Hus Hx Hacc.
  - destruct us; [|simpl in Hlen; lia]. simpl. destruct (i <? imax)%Z; [discriminate|].
    intros H; inversion H; subst. apply Forall_rev; assumption.
  - destruct us as [|u1 [|u2 us']]; simpl metro_loop; destruct (i <? imax)%Z; try discriminate;
      try (intros H; inversion H; subst; apply Forall_rev; assumption).
    destruct (gauss_of ROps u1 x sigma) as [cand| | |]; try discriminate.
    inversion Hus as [|? ? Hu1 Hus1]; subst. inversion Hus1 as [|? ? Hu2 Hus2]; subst.
    set (a := accept1 ROps PDF (Some (lo, hi)) x cand).
    set (x' := if nltb ROps (unif ROps u2 (n0 ROps) (n1 ROps)) a then cand else x).
    assert (Hx' : lo <= x' <= hi).
    { unfold x'. rewrite unif01_R. cbn [nltb ROps]. destruct (Rltb_spec u2 a) as [Hlt|]; [|assumption].
      destruct (Rlt_dec cand lo) as [H1|H1]; [unfold a in Hlt; rewrite accept1_bounded_outside in Hlt by lra; lra|].
      destruct (Rlt_dec hi cand) as [H2|H2]; [unfold a in Hlt; rewrite accept1_bounded_outside in Hlt by lra; lra|].
      lra. }
    apply IH; auto; [simpl in Hlen; lia|]. destruct (metro_keep burn thin i); [constructor|]; assumption.
Qed.

Theorem metropolis_in_domain PDF sigma sample thin burn lo hi us l r :
  lo <= hi -> Forall (fun u => 0 <= u < 1) us ->
  sample_metropolis ROps PDF sigma sample thin burn [lo; hi] us = Ok (l, r) ->
  Forall (fun z => lo <= z <= hi) l.
Proof.
  intros Hd Hus. unfold sample_metropolis. destruct us as [|u us']; [discriminate|].
  inversion Hus as [|? ? Hu Hus']; subst.
  apply (metro_loop_in_domain _ _ _ _ _ _ _ (length us')); auto.
  - eapply Forall_impl; [|exact Hus']. intros; simpl in *; lra.
  - destruct (unif_range u lo hi Hd Hu) as (H & _). exact H.
Qed.

Lemma accept2_outside PDF x0 x1 y0 y1 x c :
  (fst c < x0 \/ x1 < fst c \/ snd c < y0 \/ y1 < snd c) -> accept2 ROps PDF (Some (x0, x1, y0, y1)) x c = 0.
Proof.
  intros H. unfold accept2, ngtb. cbn [nltb ROps n0].
  destruct (Rltb_spec (fst c) x0), (Rltb_spec x1 (fst c)), (Rltb_spec (snd c) y0), (Rltb_spec y1 (snd c));
    simpl orb; try reflexivity; lra.
Qed.

Definition in_box (x0 x1 y0 y1 : R) (p : R * R) : Prop := x0 <= fst p <= x1 /\ y0 <= snd p <= y1.

Lemma metro2_loop_in_domain PDF s1 s2 x0 x1 y0 y1 burn thin imax n : forall us i x acc l r,
  (length us <= n)%nat -> Forall (fun u => 0 <= u) us ->
  in_box x0 x1 y0 y1 x -> Forall (in_box x0 x1 y0 y1) acc ->
  metro2_loop ROps PDF s1 s2 (Some (x0, x1, y0, y1)) burn thin imax us i x acc = Ok (l, r) ->
  Forall (in_box x0 x1 y0 y1) l.
Proof.
  induction n as [|n IH]; intros us i x acc l r Hlen Hus Hx Hacc.
  - destruct us; [|simpl in Hlen; lia]. simpl. destruct (i <? imax)%Z; [discriminate|].
    intros H; inversion H; subst. apply Forall_rev; assumption.
  - destruct us as [|u1 [|u2 [|u3 us']]]; simpl metro2_loop; destruct (i <? imax)%Z; try discriminate;
      try (intros H; inversion H; subst; apply Forall_rev; assumption).
    destruct (gauss_of ROps u1 (fst x) s1) as [ca| | |]; try discriminate.
    destruct (gauss_of ROps u2 (snd x) s2) as [cb| | |]; try discriminate.
    inversion Hus as [|? ? Hu1 Hus1]; subst. inversion Hus1 as [|? ? Hu2 Hus2]; subst.
    inversion Hus2 as [|? ? Hu3 Hus3]; subst.
    set (a := accept2 ROps PDF (Some (x0, x1, y0, y1)) x (ca, cb)).
    set (x' := if nltb ROps (unif ROps u3 (n0 ROps) (n1 ROps)) a then (ca, cb) else x).
    assert (Hx' : in_box x0 x1 y0 y1 x').
    { unfold x'. rewrite unif01_R. cbn [nltb ROps]. destruct (Rltb_spec u3 a) as [Hlt|]; [|assumption].
      unfold in_box; simpl fst; simpl snd.
      destruct (Rlt_dec ca x0) as [H1|H1]; [unfold a in Hlt; rewrite accept2_outside in Hlt by (simpl; lra); lra|].
      destruct (Rlt_dec x1 ca) as [H2|H2]; [unfold a in Hlt; rewrite accept2_outside in Hlt by (simpl; lra); lra|].
      destruct (Rlt_dec cb y0) as [H3|H3]; [unfold a in Hlt; rewrite accept2_outside in Hlt by (simpl; lra); lra|].
      destruct (Rlt_dec y1 cb) as [H4|H4]; [unfold a in Hlt; rewrite accept2_outside in Hlt by (simpl; lra); lra|].
      lra. }
    apply IH; auto; [simpl in Hlen; lia|]. destruct (metro_keep burn thin i); [constructor|]; assumption.
Qed.

Theorem metropolis_2d_in_domain PDF s1 s2 sample thin burn x0 x1 y0 y1 us l r :
  x0 <= x1 -> y0 <= y1 -> Forall (fun u => 0 <= u < 1) us ->
  sample_metropolis_2d ROps PDF s1 s2 sample thin burn [x0; x1; y0; y1] us = Ok (l, r) ->
  Forall (in_box x0 x1 y0 y1) l.
Proof.
  intros Hdx Hdy Hus. unfold sample_metropolis_2d. destruct us as [|u1 [|u2 us']]; try discriminate.
  inversion Hus as [|? ? Hu1 Hus1]; subst. inversion Hus1 as [|? ? Hu2 Hus2]; subst.
  apply (metro2_loop_in_domain _ _ _ _ _ _ _ _ _ _ (length us')); auto.
  - eapply Forall_impl; [|exact Hus2]. intros; simpl in *; lra.
  - destruct (unif_range u1 x0 x1 Hdx Hu1) as (H1 & _). destruct (unif_range u2 y0 y1 Hdy Hu2) as (H2 & _).
    split; simpl; assumption.
Qed.

(** ** Rejection sampling: the returned point lies in the box and satisfies the acceptance rule *)
Theorem rejection_in_domain PDF xMin xMax yMax us x r :
  xMin <= xMax -> Forall (fun u => 0 <= u < 1) us ->
  rejection_sampling ROps PDF xMin xMax yMax us = Ok (x, r) ->
  xMin <= x <= xMax.
Proof.
  intros Hd Hus H. apply rejection_sampling_spec in H.
  destruct H as (pre & u1 & u2 & -> & _ & -> & _).
  apply Forall_app in Hus. destruct Hus as [_ Hus]. inversion Hus; subst.
  destruct (unif_range u1 xMin xMax Hd) as (H & _); auto.
Qed.

(** the returned x was accepted by the y drawn with it: y <= pdf(x), pdf(x) >= 0, all earlier trials were
    rejected (y > pdf), 2 uniforms per trial and fewer than 10000 trials *)
Theorem rejection_accept_rule PDF xMin xMax yMax us x r :
  rejection_sampling ROps PDF xMin xMax yMax us = Ok (x, r) ->
  exists pre u1 u2, us = pre ++ u1 :: u2 :: r /\
    x = u1 * (xMax - xMin) + xMin /\ u2 * (yMax - 0) + 0 <= PDF x /\ 0 <= PDF x /\
    all_rejected ROps PDF xMin xMax yMax pre /\
    (1 <= Z.of_nat (length pre) / 2 + 1 < 10000)%Z /\
    consumes us r (2 * (Z.of_nat (length pre) / 2 + 1)).
Proof.
  intros H. apply rejection_sampling_spec in H.
  destruct H as (pre & u1 & u2 & Hus & Hrej & Hx & Hy & Hg & _ & Ht & Hc).
  exists pre, u1, u2. split; [exact Hus|]. split; [exact Hx|]. cbn in Hy, Hg.
  apply Rleb_true in Hy. apply Rltb_false in Hg. repeat split; auto; lia.
Qed.

Theorem rejection_2d_in_domain PDF xMin xMax yMin yMax zMax us xy r :
  xMin <= xMax -> yMin <= yMax -> Forall (fun u => 0 <= u < 1) us ->
  rejection_sampling_2d ROps PDF xMin xMax yMin yMax zMax us = Ok (xy, r) ->
  xMin <= fst xy <= xMax /\ yMin <= snd xy <= yMax.
Proof.
  intros Hdx Hdy Hus H. apply rejection_sampling_2d_spec in H.
  destruct H as (pre & u1 & u2 & u3 & -> & _ & -> & _).
  apply Forall_app in Hus. destruct Hus as [_ Hus]. inversion Hus as [|? ? Hu1 Hus1]; subst.
  inversion Hus1 as [|? ? Hu2 Hus2]; subst. simpl fst; simpl snd.
  destruct (unif_range u1 xMin xMax Hdx Hu1) as (H1 & _). destruct (unif_range u2 yMin yMax Hdy Hu2) as (H2 & _).
  split; assumption.
Qed.

Theorem rejection_2d_accept_rule PDF xMin xMax yMin yMax zMax us xy r :
  rejection_sampling_2d ROps PDF xMin xMax yMin yMax zMax us = Ok (xy, r) ->
  exists pre u1 u2 u3, us = pre ++ u1 :: u2 :: u3 :: r /\
    xy = (u1 * (xMax - xMin) + xMin, u2 * (yMax - yMin) + yMin) /\
    u3 * (zMax - 0) + 0 <= PDF (fst xy) (snd xy) /\
    all_rejected2 ROps PDF xMin xMax yMin yMax zMax pre /\
    (1 <= Z.of_nat (length pre) / 3 + 1 < 10000)%Z /\
    consumes us r (3 * (Z.of_nat (length pre) / 3 + 1)).
Proof.
  intros H. apply rejection_sampling_2d_spec in H.
  destruct H as (pre & u1 & u2 & u3 & Hus & Hrej & Hx & Hy & Ht & Hc).
  exists pre, u1, u2, u3. split; [exact Hus|]. split; [exact Hx|]. cbn in Hy.
  apply Rleb_true in Hy. repeat split; auto; lia.
Qed.

(* non-vacuity: one accepted trial *)
Example rejection_ex : rejection_sampling ROps (fun x => 2 * x) 0 1 2 [/2; /4; /3] = Ok (/2, [/3]).
Proof.
  unfold rejection_sampling. simpl rejection_loop. unfold unif, ngtb.
  cbn [nadd nsub nmul ndiv nltb nleb nisnan n0 n1 ROps].
  replace (/ 2 * (1 - 0) + 0) with (/2) by lra.
  destruct (Rltb_spec (2 * / 2) 0); [lra|]. simpl orb.
  destruct (Rltb_spec 2 (2 * / 2)); [lra|]. simpl andb.
  destruct (Rleb_spec (/ 4 * (2 - 0) + 0) (2 * / 2)); [reflexivity|lra].
Qed.

(** ** Sample_Poisson is Knuth's product rule; the exp(STEP) rescaling is transparent *)
Definition Rprod (l : list R) : R := fold_right Rmult 1 l.

Lemma STEP_R : STEP ROps = 500.
Proof. reflexivity. Qed.

(* the remaining rescaling exponent is either used up or the original lambda minus a multiple of STEP *)
Definition lam_inv (lambda lam : R) : Prop := lam = 0 \/ exists m : nat, lam = lambda - 500 * INR m /\ 0 < lam.

Lemma poisson_inner_R lambda : forall fuel p lam, 0 <= lam -> lam <= 500 * INR fuel ->
  exists lam', poisson_inner ROps fuel p lam = Ok (p * exp (lam - lam'), lam') /\
    0 <= lam' <= lam /\ (1 <= p * exp (lam - lam') \/ lam' = 0) /\
    (lam_inv lambda lam -> lam_inv lambda lam').
Proof.
  induction fuel as [|f IH]; intros p lam H0 Hf.
  - simpl INR in Hf. assert (lam = 0) by lra. subst. exists 0. cbn.
    destruct (Rltb 0 0) eqn:E; [apply Rltb_true in E; lra|]. rewrite andb_false_r.
    rewrite Rminus_0_r, exp_0, Rmult_1_r. repeat split; auto; lra.
  - cbn [poisson_inner]. cbn [nltb ngtb ROps n0 n1]. unfold ngtb. cbn [nltb ROps].
    destruct (Rltb_spec p 1) as [Hp|Hp]; [destruct (Rltb_spec 0 lam) as [Hl|Hl]|]; simpl andb.
    + rewrite STEP_R. destruct (Rltb_spec 500 lam) as [Hs|Hs].
      * destruct (IH (nmul ROps p (nexp ROps 500)) (nsub ROps lam 500)) as (lam' & E & Hb & Hc & Hi).
        { cbn. lra. } { cbn. rewrite S_INR in Hf. lra. }
        exists lam'. cbn in E, Hb, Hc, Hi |- *. rewrite E.
        assert (Ee : p * exp 500 * exp (lam - 500 - lam') = p * exp (lam - lam')).
        { rewrite Rmult_assoc, <- exp_plus. f_equal. f_equal. ring. }
        rewrite Ee in *. split; [reflexivity|]. split; [lra|]. split; [exact Hc|].
        intros Hinv. apply Hi. right. destruct Hinv as [->|(m & -> & Hm)]; [lra|].
        exists (S m). rewrite S_INR. split; lra.
      * destruct (IH (nmul ROps p (nexp ROps lam)) (n0 ROps)) as (lam' & E & Hb & Hc & _).
        { cbn. lra. } { cbn. apply Rmult_le_pos; [lra|apply pos_INR]. }
        cbn in E, Hb, Hc. assert (lam' = 0) by lra. subst lam'. exists 0. cbn. rewrite E.
        rewrite !Rminus_0_r, exp_0, Rmult_1_r. split; [reflexivity|]. split; [lra|]. split; [now right|].
        intros _. now left.
    + exists lam. rewrite Rminus_diag_eq, exp_0, Rmult_1_r by reflexivity.
      split; [reflexivity|]. split; [lra|]. split; [right; lra|auto].
    + exists lam. rewrite Rminus_diag_eq, exp_0, Rmult_1_r by reflexivity.
      split; [reflexivity|]. split; [lra|]. split; [left; lra|auto].
Qed.

Lemma poisson_fuel_R lambda : 0 <= lambda -> lambda <= 500 * INR (poisson_fuel ROps lambda).
Proof.
  intros H. unfold poisson_fuel. cbn [ntrunc ROps ndiv]. rewrite STEP_R.
  assert (Hx : 0 <= lambda / 500) by (apply Rmult_le_pos; lra).
  destruct (Rle_dec 0 (lambda / 500)) as [_|C]; [|contradiction].
  destruct (base_Int_part (lambda / 500)) as [B1 B2].
  assert (Hz : (0 <= Int_part (lambda / 500))%Z).
  { apply le_IZR. apply Rnot_lt_le. intros C.
    assert (IZR (Int_part (lambda / 500)) <= -1) by (apply IZR_le; apply lt_IZR in C; lia). lra. }
  rewrite plus_INR, INR_IZR_INZ, Z2Nat.id by exact Hz. simpl INR. lra.
Qed.

(** state of the outer loop: p = P * exp (lambda - lam), P the product of the uniforms drawn so far *)
Lemma poisson_loop_R lambda fin : 0 <= lambda -> lambda <= 500 * INR fin ->
  forall us k p lam P k' r,
  p = P * exp (lambda - lam) -> 0 <= lam <= lambda -> lam_inv lambda lam ->
  poisson_loop ROps fin us k p lam = Ok (k', r) ->
  exists pre, us = pre ++ r /\ Z.of_nat (length pre) = (k' - k + 1)%Z /\
    (forall n, (1 <= n < length pre)%nat -> exp (- lambda) < P * Rprod (firstn n pre)) /\
    (P * Rprod pre <= exp (- lambda) \/
     exists m : nat, 500 * INR m < lambda /\ P * Rprod pre = exp (- (500 * INR m))).
Proof.
  intros Hl Hfin. induction us as [|u0 us IH]; intros k p lam P k' r Hp Hlam Hinv; [discriminate|].
  cbn [poisson_loop]. rewrite unif01_R.
  destruct (poisson_inner_R lambda fin (nmul ROps p u0) lam) as (lam2 & E & Hb & Hc & Hi); [lra|lra|].
  rewrite E. cbn [nmul ROps] in *. set (p2 := p * u0 * exp (lam - lam2)) in *.
  assert (Ep2 : p2 = P * u0 * exp (lambda - lam2)).
  { unfold p2. rewrite Hp. rewrite (Rmult_comm _ u0), <- Rmult_assoc, (Rmult_comm u0 P), Rmult_assoc, Rmult_assoc.
    rewrite <- exp_plus. rewrite <- Rmult_assoc. f_equal. f_equal. ring. }
  unfold ngtb. cbn [nltb ROps n1]. destruct (Rltb_spec 1 p2) as [Hgt|Hle].
  - intros H. apply (IH _ _ _ (P * u0)) in H; [|exact Ep2|lra|apply Hi; exact Hinv].
    destruct H as (pre & -> & Hlen & Hcont & Hstop).
    (* the loop continued after u0: P * u0 > exp (- lambda) *)
    assert (Hu0 : exp (- lambda) < P * u0).
    { assert (Hpos : 0 < P * u0).
      { destruct (Rlt_dec 0 (P * u0)) as [?|C]; [assumption|]. exfalso.
        assert (P * u0 * exp (lambda - lam2) <= 0); [|lra].
        assert (0 < exp (lambda - lam2)) by apply exp_pos. nra. }
      assert (exp (lambda - lam2) <= exp lambda).
      { destruct (Req_dec lam2 0) as [->|Hne]; [rewrite Rminus_0_r; lra|]. left. apply exp_increasing. lra. }
      assert (1 < P * u0 * exp lambda) by nra.
      apply (Rmult_lt_reg_r (exp lambda)); [apply exp_pos|]. rewrite <- exp_plus.
      replace (- lambda + lambda) with 0 by ring. rewrite exp_0. lra. }
    exists (u0 :: pre). split; [reflexivity|]. split; [simpl length; lia|]. split.
    + intros n Hn. destruct n as [|n]; [lia|]. cbn [firstn Rprod fold_right].
      destruct n as [|n].
      * cbn. rewrite Rmult_1_r. exact Hu0.
      * rewrite <- Rmult_assoc. apply Hcont. simpl length in Hn. lia.
    + cbn [Rprod fold_right]. rewrite <- Rmult_assoc. exact Hstop.
  - intros H. inversion H; subst k' r. exists [u0]. split; [reflexivity|]. split; [simpl; lia|]. split.
    + intros n Hn. simpl in Hn. lia.
    + cbn [Rprod fold_right]. rewrite Rmult_1_r.
      destruct (Req_dec lam2 0) as [Hz|Hnz].
      * left. rewrite Hz, Rminus_0_r in Ep2.
        apply (Rmult_le_reg_r (exp lambda)); [apply exp_pos|]. rewrite <- exp_plus.
        replace (- lambda + lambda) with 0 by ring. rewrite exp_0. lra.
      * right. destruct Hc as [Hc|Hc]; [|contradiction].
        assert (Hone : p2 = 1) by (fold p2 in Hc; lra).
        destruct (Hi Hinv) as [?|(m & Hm & Hpos)]; [contradiction|].
        exists m. split; [lra|].
        rewrite Ep2, Hm in Hone. replace (lambda - (lambda - 500 * INR m)) with (500 * INR m) in Hone by ring.
        apply (Rmult_eq_reg_r (exp (500 * INR m))); [|apply Rgt_not_eq, exp_pos].
        rewrite <- exp_plus. replace (- (500 * INR m) + 500 * INR m) with 0 by ring. rewrite exp_0. exact Hone.
Qed.

(** Sample_Poisson(lambda) on the stream u_1 u_2 ... returns k after k+1 draws, where k+1 is the first n with
    u_1...u_n <= exp(-lambda) (Knuth), for every lambda >= 0: the products of the first n <= k draws exceed
    exp(-lambda), and the product of the k+1 draws is <= exp(-lambda) — or, second disjunct, the boundary of the
    rescaling loop: `while(p < 1.0 && lambda_left > 0)` stops at p == 1.0 with rescaling still pending and
    `while(p > 1)` then ends the sampling: this happens exactly when the product equals exp(-500 m) for a
    multiple 500 m < lambda of STEP (a null event for continuous uniforms; impossible for lambda <= 500 with
    uniforms below 1, see [poisson_is_knuth_small]). *)
Theorem poisson_is_knuth lambda us k r : 0 <= lambda ->
  sample_poisson ROps lambda us = Ok (k, r) ->
  exists pre, us = pre ++ r /\ Z.of_nat (length pre) = (k + 1)%Z /\
    (forall n, (1 <= n < length pre)%nat -> exp (- lambda) < Rprod (firstn n pre)) /\
    (Rprod pre <= exp (- lambda) \/
     exists m : nat, 500 * INR m < lambda /\ Rprod pre = exp (- (500 * INR m))).
Proof.
  intros Hl H. unfold sample_poisson in H.
  apply (poisson_loop_R lambda _ Hl (poisson_fuel_R lambda Hl) us 0%Z (n1 ROps) lambda 1) in H.
  - destruct H as (pre & Hus & Hlen & Hc & Hs). exists pre. split; [exact Hus|]. split; [lia|]. split.
    + intros n Hn. specialize (Hc n Hn). lra.
    + destruct Hs as [Hs|(m & Hm & Hs)]; [left; lra|right; exists m; split; [exact Hm|lra]].
  - cbn. rewrite Rminus_diag_eq, exp_0 by reflexivity. ring.
  - lra.
  - destruct (Req_dec lambda 0) as [->|Hne]; [now left|]. right. exists 0%nat. simpl INR. split; lra.
Qed.

Lemma Rprod_lt_1 l : l <> [] -> Forall (fun u => 0 <= u < 1) l -> 0 <= Rprod l < 1.
Proof.
  induction l as [|a l IH]; intros Hne Hf; [contradiction|]. inversion Hf as [|? ? Ha Hl]; subst.
  cbn [Rprod fold_right]. destruct l as [|b l'].
  - cbn. lra.
  - assert (0 <= Rprod (b :: l') < 1) by (apply IH; [discriminate|assumption]). unfold Rprod in *. nra.
Qed.

(** for lambda <= 500 (one rescaling step) and uniforms in [0,1) the boundary cannot occur: exactly Knuth *)
Theorem poisson_is_knuth_small lambda us k r : 0 <= lambda <= 500 -> Forall (fun u => 0 <= u < 1) us ->
  sample_poisson ROps lambda us = Ok (k, r) ->
  exists pre, us = pre ++ r /\ Z.of_nat (length pre) = (k + 1)%Z /\
    (forall n, (1 <= n < length pre)%nat -> exp (- lambda) < Rprod (firstn n pre)) /\
    Rprod pre <= exp (- lambda).
Proof.
  intros Hl Hus H. destruct (poisson_is_knuth lambda us k r) as (pre & Hpre & Hlen & Hc & Hs); [lra|exact H|].
  exists pre. repeat split; auto. destruct Hs as [Hs|(m & Hm & Hs)]; [exact Hs|].
  assert (m = 0%nat). { destruct m; [reflexivity|]. rewrite S_INR in Hm. pose proof (pos_INR m). lra. }
  subst m. simpl INR in Hs. rewrite Rmult_0_r, Ropp_0, exp_0 in Hs.
  assert (pre <> []) by (intros ->; simpl in Hlen; apply sample_poisson_consumes in H; lia).
  subst us. apply Forall_app in Hus. destruct Hus as [Hp _].
  destruct (Rprod_lt_1 pre) as [_ Hlt]; auto. lra.
Qed.

(** the boundary is real: with lambda = 1000 and a first uniform exp(-500) the code returns 0 after one draw,
    although exp(-500) > exp(-1000) (Knuth would continue) *)
Example poisson_boundary_example r : sample_poisson ROps 1000 (exp (-500) :: r) = Ok (0%Z, r).
Proof.
  unfold sample_poisson, poisson_fuel. rewrite Nat.add_comm. cbn [Nat.add poisson_loop]. rewrite unif01_R.
  cbn [nmul ROps n1]. rewrite Rmult_1_l. cbn [poisson_inner]. unfold ngtb. cbn [nltb ROps n0 n1]. rewrite STEP_R.
  assert (H1 : exp (-500) < 1) by (rewrite <- exp_0; apply exp_increasing; lra).
  destruct (Rltb_spec (exp (-500)) 1); [|lra]. destruct (Rltb_spec 0 1000); [|lra]. simpl andb.
  destruct (Rltb_spec 500 1000); [|lra]. cbn [nmul nsub nexp ROps].
  assert (H2 : exp (-500) * exp 500 = 1) by (rewrite <- exp_plus; replace (-500 + 500) with 0 by ring; apply exp_0).
  rewrite H2. destruct (Rltb_spec 1 1); [lra|]. simpl andb. cbv iota beta.
  destruct (Rltb_spec 1 1); [lra|]. reflexivity.
Qed.

(* non-vacuity of poisson_is_knuth_small: lambda = 0 returns 0 after one draw *)
Example poisson_zero_example r : sample_poisson ROps 0 (/2 :: r) = Ok (0%Z, r).
Proof.
  unfold sample_poisson, poisson_fuel. rewrite Nat.add_comm. cbn [Nat.add poisson_loop]. rewrite unif01_R.
  cbn [nmul ROps n1]. rewrite Rmult_1_l. cbn [poisson_inner]. unfold ngtb. cbn [nltb ROps n0 n1].
  destruct (Rltb_spec 0 0); [lra|]. rewrite andb_false_r.
  destruct (Rltb_spec 1 (/2)); [lra|reflexivity].
Qed.

(* non-vacuity of the Metropolis theorems: a run with an empty loop on a bounded domain *)
Example metropolis_ex : sample_metropolis ROps (fun x => x) 1 0 1 0 [0; 1] [/2] = Ok ([], []).
Proof. reflexivity. Qed.

(** ** boundary of the stream: the canonical uniform 0 (in doubles: every canonical uniform <= 2^-55, for which 2u - 1
    rounds to -1) makes Sample_Gauss return mean - 10 sqrt(2) sd: Inv_Erf(-1) returns -10 like Inv_Erf(1) returns 10
    (it used to take the `|p| >= 1` exit and terminate the process) *)
Theorem sample_gauss_at_zero mean sd r : sample_gauss ROps mean sd (0 :: r) = Ok (mean + sqrt 2 * sd * - (10), r).
Proof.
  unfold sample_gauss, gauss_of, quantile_gauss. rewrite unif01_R. unfold inv_erf.
  cbn [nmul nsub nadd nabs nltb nlit nofZ n1 nneg nsqrt ROps]. unfold ngeb. cbn [nleb nabs n1 ROps].
  replace (2 * 0 - 1 - 1) with (-2) by ring. replace (2 * 0 - 1 + 1) with 0 by ring.
  assert (Rabs (-2) = 2) as -> by (unfold Rabs; destruct (Rcase_abs (-2)); lra).
  rewrite Rabs_R0.
  destruct (Rltb_spec 2 (1 / 10000000000000000)); [lra|].
  destruct (Rltb_spec 0 (1 / 10000000000000000)); [|lra].
  cbn [rbind]. reflexivity.
Qed.

(** ** totality of the Poisson sampler: the stream runs out ([Fuel]) only if no prefix product has reached
    exp(-lambda); no other outcome is possible *)
Lemma continue_gt lambda P u0 lam2 : 0 <= lam2 -> 1 < P * u0 * exp (lambda - lam2) -> exp (- lambda) < P * u0.
Proof.
  intros Hl Hgt.
  assert (Hpos : 0 < P * u0).
  { destruct (Rlt_dec 0 (P * u0)) as [?|C]; [assumption|]. exfalso.
    assert (0 < exp (lambda - lam2)) by apply exp_pos. nra. }
  assert (exp (lambda - lam2) <= exp lambda).
  { destruct (Req_dec lam2 0) as [->|Hne]; [rewrite Rminus_0_r; lra|]. left. apply exp_increasing. lra. }
  assert (1 < P * u0 * exp lambda) by nra.
  apply (Rmult_lt_reg_r (exp lambda)); [apply exp_pos|]. rewrite <- exp_plus.
  replace (- lambda + lambda) with 0 by ring. rewrite exp_0. lra.
Qed.

Lemma poisson_loop_R_total lambda fin : 0 <= lambda -> lambda <= 500 * INR fin ->
  forall us k p lam P,
  p = P * exp (lambda - lam) -> 0 <= lam <= lambda -> lam_inv lambda lam ->
  (exists k' r, poisson_loop ROps fin us k p lam = Ok (k', r)) \/
  (poisson_loop ROps fin us k p lam = Fuel /\
   forall n, (1 <= n <= length us)%nat -> exp (- lambda) < P * Rprod (firstn n us)).
Proof.
  intros Hl Hfin. induction us as [|u0 us IH]; intros k p lam P Hp Hlam Hinv.
  - right. split; [reflexivity|]. intros n Hn. simpl in Hn. lia.
  - cbn [poisson_loop]. rewrite unif01_R.
    destruct (poisson_inner_R lambda fin (nmul ROps p u0) lam) as (lam2 & E & Hb & Hc & Hi); [lra|lra|].
    rewrite E. cbn [nmul ROps] in *. set (p2 := p * u0 * exp (lam - lam2)) in *.
    assert (Ep2 : p2 = P * u0 * exp (lambda - lam2)).
    { unfold p2. rewrite Hp. rewrite (Rmult_comm _ u0), <- Rmult_assoc, (Rmult_comm u0 P), Rmult_assoc, Rmult_assoc.
      rewrite <- exp_plus. rewrite <- Rmult_assoc. f_equal. f_equal. ring. }
    unfold ngtb. cbn [nltb ROps n1]. destruct (Rltb_spec 1 p2) as [Hgt|Hle].
    + destruct (IH (k + 1)%Z p2 lam2 (P * u0)) as [Hok|[Hfu Hall]]; [exact Ep2|lra|apply Hi; exact Hinv|left; exact Hok|].
      right. split; [exact Hfu|]. intros n Hn. destruct n as [|[|n]]; [lia| |].
      * cbn. rewrite Rmult_1_r. apply (continue_gt lambda P u0 lam2); [lra|rewrite <- Ep2; exact Hgt].
      * change (firstn (S (S n)) (u0 :: us)) with (u0 :: firstn (S n) us).
        change (Rprod (u0 :: firstn (S n) us)) with (u0 * Rprod (firstn (S n) us)).
        rewrite <- Rmult_assoc. apply Hall. simpl length in Hn. lia.
    + left. eauto.
Qed.

Theorem poisson_total lambda us : 0 <= lambda ->
  (exists n, (1 <= n <= length us)%nat /\ Rprod (firstn n us) <= exp (- lambda)) ->
  exists k r, sample_poisson ROps lambda us = Ok (k, r).
Proof.
  intros Hl (n & Hn & Hle). unfold sample_poisson.
  destruct (poisson_loop_R_total lambda _ Hl (poisson_fuel_R lambda Hl) us 0%Z (n1 ROps) lambda 1) as [Hok|[_ Hall]].
  - cbn. rewrite Rminus_diag_eq, exp_0 by reflexivity. ring.
  - lra.
  - destruct (Req_dec lambda 0) as [->|Hne]; [now left|]. right. exists 0%nat. simpl INR. split; lra.
  - exact Hok.
  - specialize (Hall n Hn). lra.
Qed.

(** ** One Metropolis step with a candidate outside of the bounded domain: the acceptance probability is exactly 0
    whatever the densities are (also at a current point of density 0, where pi(y)/pi(x) is not defined: the code
    does not divide), and the accept test `u < 0` fails for every deviate u >= 0, the deviate 0 included. *)
Theorem accept1_outside_any_density PDF lo hi x y : y < lo \/ hi < y ->
  accept1 ROps PDF (Some (lo, hi)) x y = 0.
Proof. exact (accept1_bounded_outside PDF lo hi x y). Qed.

Theorem metro_step_keeps_outside_candidate_out PDF lo hi x y u : y < lo \/ hi < y -> 0 <= u ->
  nltb ROps (unif ROps u (n0 ROps) (n1 ROps)) (accept1 ROps PDF (Some (lo, hi)) x y) = false.
Proof.
  intros Hy Hu. rewrite accept1_bounded_outside by assumption. rewrite unif01_R. cbn [nltb ROps n0].
  destruct (Rltb_spec u 0); [lra|reflexivity].
Qed.

Theorem metro2_step_keeps_outside_candidate_out PDF x0 x1 y0 y1 x c u :
  (fst c < x0 \/ x1 < fst c \/ snd c < y0 \/ y1 < snd c) -> 0 <= u ->
  nltb ROps (unif ROps u (n0 ROps) (n1 ROps)) (accept2 ROps PDF (Some (x0, x1, y0, y1)) x c) = false.
Proof.
  intros Hc Hu. rewrite accept2_outside by assumption. rewrite unif01_R. cbn [nltb ROps n0].
  destruct (Rltb_spec u 0); [lra|reflexivity].
Qed.

Example metro_step_keeps_outside_candidate_out_ex :
  nltb ROps (unif ROps 0 (n0 ROps) (n1 ROps)) (accept1 ROps (fun _ => 0) (Some (0, 1)) (/2) 2) = false.
Proof. apply metro_step_keeps_outside_candidate_out; lra. Qed.
