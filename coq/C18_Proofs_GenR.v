(** * C18 proofs, seventh pass: the canonical uniforms of the modelled generator lie in [0,1) (over R), so the
      premise [Forall (fun u => 0 <= u < 1) us] of the containment theorems is discharged for every generator state. *)
From Coq Require Import ZArith List Bool Lia Reals Lra.
From LP Require Import Num NumR C18_Model C18_Model2 C18_Proofs C18_Proofs_R C18_Proofs_Gen.
Import ListNotations.
Local Open Scope R_scope.

Lemma canon_range r1 r2 : b32 r1 -> b32 r2 -> 0 <= canon ROps r1 r2 < 1.
Proof.
  intros [A1 A2] [B1 B2]. apply IZR_le in A1, B1. apply IZR_lt in A2, B2.
  unfold canon, ngeb. cbn.
  destruct (Rleb_spec 1 ((0 + IZR r1 * 1 + IZR r2 * (1 * 4294967296)) / (1 * 4294967296 * 4294967296))) as [H|H].
  - lra.
  - split; [|lra]. apply Rmult_le_pos; [lra|]. left. apply Rinv_0_lt_compat. lra.
Qed.

Theorem mt_stream_range n : forall g, mt_wf g -> Forall (fun u => 0 <= u < 1) (mt_stream ROps n g).
Proof.
  induction n as [|n IH]; intros g Hg; [constructor|].
  cbn [mt_stream]. unfold mt_canon.
  destruct (mt_next_wf g Hg) as [H1 Hg1]. destruct (mt_next g) as [r1 g1]. cbn [fst snd] in *.
  destruct (mt_next_wf g1 Hg1) as [H2 Hg2]. destruct (mt_next g1) as [r2 g2]. cbn [fst snd] in *.
  constructor; [apply canon_range; assumption|apply IH; assumption].
Qed.

Theorem metropolis_in_domain_from_seed seed n PDF sigma sample thin burn lo hi l r :
  lo <= hi ->
  sample_metropolis ROps PDF sigma sample thin burn [lo; hi] (mt_stream ROps n (mt_seed seed)) = Ok (l, r) ->
  Forall (fun z => lo <= z <= hi) l.
Proof.
  intros Hl H. eapply metropolis_in_domain; [exact Hl| |exact H]. apply mt_stream_range, mt_seed_wf.
Qed.

Theorem sample_uniform_range_from_seed seed n a b v r : a <= b ->
  sample_uniform ROps a b (mt_stream ROps n (mt_seed seed)) = Ok (v, r) -> a <= v <= b /\ (a < b -> v < b).
Proof.
  intros Hab H. eapply sample_uniform_range in H; [|exact Hab|apply mt_stream_range, mt_seed_wf]. tauto.
Qed.
