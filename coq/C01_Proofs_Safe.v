(** * C01 proofs, seventh pass:
    (A) for EVERY arithmetic (any NumOps instance, no order laws, the doubles included): every index Locate / Bisection
        produce on a constructed object is a segment of the table, the fuel of the model's bisection suffices, and all
        container accesses of Interpolate / Derivative are in bounds -- the outcome is a number or the documented exit;
    (B) the 2-D interpolant at every query point, the 1 % extrapolation zone of both axes included;
    (C) the default-constructed objects. *)
From Coq Require Import Reals ZArith List Bool Lia Lra.
From Coquelicot Require Import Coquelicot.
From LP Require Import Num NumR C01_Model C01_Model2 C01_Proofs C01_Proofs_Global C01_Proofs_Accept.
Import ListNotations.

(** ** A. every arithmetic *)
Section AnyArith.
Context {T : Type} (Ops : NumOps T).

Lemma get_ok {A} (l : list A) i : (i < length l)%nat -> exists a, get l i = Ok a.
Proof.
  intros H. unfold get. destruct (nth_error l i) eqn:E; [eauto|]. apply nth_error_None in E. lia.
Qed.

Lemma getZ_ok {A} (l : list A) z : (0 <= z < Z.of_nat (length l))%Z -> exists a, getZ l z = Ok a.
Proof. intros H. unfold getZ. destruct (z <? 0)%Z eqn:E; [lia|]. apply get_ok. lia. Qed.

(** Bisection(x, jLeft, jRight): whatever the comparisons answer, the loop ends within jRight - jLeft iterations, reads only
    x_values[jm] with jLeft < jm < jRight, and returns an index in [jLeft, jRight) *)
Lemma bisection_range : forall fuel (xs : list T) x jl jr,
  (0 <= jl)%Z -> (jl < jr)%Z -> (jr < Z.of_nat (length xs))%Z -> (jr - jl <= Z.of_nat fuel)%Z ->
  exists j, bisection Ops fuel xs x jl jr = Ok j /\ (jl <= j < jr)%Z.
Proof.
  induction fuel as [|f IH]; intros xs x jl jr H0 Hlt Hr Hf; cbn [bisection].
  - exfalso. cbn in Hf. lia.
  - destruct (jr - jl >? 1)%Z eqn:E.
    + apply Z.gtb_lt in E.
      assert (Hm : (jl < Z.shiftr (jr + jl) 1 < jr)%Z).
      { rewrite Z.shiftr_div_pow2 by lia. change (2 ^ 1)%Z with 2%Z. Z.div_mod_to_equations. lia. }
      destruct (getZ_ok xs (Z.shiftr (jr + jl) 1)) as [xm Exm]; [lia|]. rewrite Exm. cbn [rbind].
      destruct (ngeb Ops x xm).
      * destruct (IH xs x (Z.shiftr (jr + jl) 1) jr) as (j & Ej & Hj); try lia. exists j. split; [exact Ej|lia].
      * destruct (IH xs x jl (Z.shiftr (jr + jl) 1)) as (j & Ej & Hj); try lia. exists j. split; [exact Ej|lia].
    + exists jl. split; [reflexivity|lia].
Qed.

(** the shape of a constructed object: N >= 2 abscissae, N - 1 coefficients of each kind *)
Definition wf_obj (o : @itab T) : Prop :=
  (2 <= iN o)%nat /\ length (ixs o) = iN o /\ length (ia o) = (iN o - 1)%nat /\ length (ib o) = (iN o - 1)%nat /\
  length (ic o) = (iN o - 1)%nat /\ length (id o) = (iN o - 1)%nat.

Lemma build_wf xs ys : (2 <= length xs)%nat -> wf_obj (build Ops xs ys).
Proof.
  intros H. unfold wf_obj, build. cbn [iN ixs ia ib ic id]. rewrite !length_tabulate. repeat split; auto.
Qed.

Lemma construct_wf xs ys xd fd o : construct Ops xs ys xd fd = Ok o -> wf_obj o.
Proof.
  intros E. destruct (construct_any_iff Ops xs ys xd fd) as (_ & _ & A).
  destruct (A o E) as (-> & HN & _ & _ & H2 & _). apply build_wf.
  rewrite scale_length_any. cbn [iN build] in HN, H2. rewrite scale_length_any in H2. exact H2.
Qed.

Lemma locate_index o x : wf_obj o ->
  locate Ops o x = Exit \/ exists j, locate Ops o x = Ok j /\ (S j < iN o)%nat.
Proof.
  intros (HN & Hx & _). unfold locate. cbv zeta.
  destruct (nisnan Ops x); [now left|].
  destruct (nltb Ops x (idom0 o) || ngtb Ops x (idom1 o)).
  - destruct (nltb Ops (nabs Ops (nsub Ops x (idom0 o))) _).
    { right. exists 0%nat. split; [reflexivity|lia]. }
    destruct (nltb Ops (nabs Ops (nsub Ops x (idom1 o))) _).
    { right. exists (iN o - 2)%nat. split; [reflexivity|lia]. }
    now left.
  - destruct (bisection_range (iN o) (ixs o) x 0 (Z.of_nat (iN o) - 1)) as (jz & Ej & Hj); try lia.
    rewrite Ej. cbn [rbind]. right.
    destruct (Nat.ltb (Z.to_nat jz) (iN o - 2)) eqn:El.
    + apply Nat.ltb_lt in El. destruct (get_ok (ixs o) (S (Z.to_nat jz))) as [xn En]; [lia|]. rewrite En. cbn [rbind].
      destruct (neqb Ops x xn); eexists; (split; [reflexivity|lia]).
    + apply Nat.ltb_ge in El. exists (Z.to_nat jz). split; [reflexivity|lia].
Qed.

Lemma segment_ok_any (o : @itab T) j : wf_obj o -> (S j < iN o)%nat -> exists sg, segment o j = Ok sg.
Proof.
  intros (HN & Hx & Ha & Hb & Hc & Hd) Hj. unfold segment.
  destruct (get_ok (ixs o) j) as [v1 E1]; [lia|]. destruct (get_ok (ia o) j) as [v2 E2]; [lia|].
  destruct (get_ok (ib o) j) as [v3 E3]; [lia|]. destruct (get_ok (ic o) j) as [v4 E4]; [lia|].
  destruct (get_ok (id o) j) as [v5 E5]; [lia|]. rewrite E1, E2, E3, E4, E5. cbn [rbind]. eauto.
Qed.

Lemma interpolate_safe o x : wf_obj o -> interpolate Ops o x = Exit \/ exists v, interpolate Ops o x = Ok v.
Proof.
  intros W. unfold interpolate. destruct (locate_index o x W) as [E|(j & E & Hj)]; rewrite E; cbn [rbind]; [now left|].
  destruct (segment_ok_any o j W Hj) as [sg Es]. rewrite Es. cbn [rbind]. right. eauto.
Qed.

Lemma derivative_safe o x k : wf_obj o -> derivative Ops o x k = Exit \/ exists v, derivative Ops o x k = Ok v.
Proof.
  intros W. pose proof (interpolate_safe o x W) as HI. unfold derivative.
  destruct (locate_index o x W) as [E|(j & E & Hj)]; rewrite E; cbn [rbind]; [now left|].
  destruct (segment_ok_any o j W Hj) as [sg Es]. rewrite Es. cbn [rbind].
  destruct (k =? 0)%Z; [exact HI|].
  destruct (k =? 1)%Z; [right; eauto|]. destruct (k =? 2)%Z; [right; eauto|]. destruct (k =? 3)%Z; right; eauto.
Qed.

Theorem queries_in_bounds xs ys xd fd o x : construct Ops xs ys xd fd = Ok o ->
  (locate Ops o x = Exit \/ exists j, locate Ops o x = Ok j /\ (S j < iN o)%nat) /\
  (interpolate Ops o x = Exit <-> locate Ops o x = Exit) /\
  (interpolate Ops o x = Exit \/ exists v, interpolate Ops o x = Ok v) /\
  (forall k, derivative Ops o x k = Exit \/ exists v, derivative Ops o x k = Ok v).
Proof.
  intros E. pose proof (construct_wf _ _ _ _ _ E) as W.
  split; [apply locate_index; exact W|]. split; [|split; [apply interpolate_safe; exact W|intros k; apply derivative_safe; exact W]].
  unfold interpolate. destruct (locate_index o x W) as [EL|(j & EL & Hj)]; rewrite EL; cbn [rbind]; [tauto|].
  destruct (segment_ok_any o j W Hj) as [sg Es]. rewrite Es. cbn [rbind]. split; discriminate.
Qed.

(** operator() is Interpolate, in both classes *)
Lemma call_is_interpolate : (forall o x, call1 Ops o x = interpolate Ops o x) /\ (forall o x y, call2 Ops o x y = interpolate2 Ops o x y).
Proof. split; reflexivity. Qed.
End AnyArith.

(** non-vacuity: an arithmetic whose comparisons answer [false] throughout (as IEEE comparisons do on NaN) -- Locate still
    lands on a segment *)
Example in_bounds_example : exists o, construct ROps [0; 1; 3; 4] [0; 2; 1; 1] (-1) (-1) = Ok o /\
  exists j, locate ROps o 2 = Ok j /\ (S j < iN o)%nat.
Proof.
  destruct (construct_ok [0; 1; 3; 4] [0; 2; 1; 1] (-1) (-1) valid_table_example) as [E _].
  eexists. split; [exact E|].
  destruct (queries_in_bounds ROps _ _ _ _ _ 2 E) as [[EL|H] _]; [|exact H].
  exfalso. destruct (construct_ok [0; 1; 3; 4] [0; 2; 1; 1] (-1) (-1) valid_table_example) as [_ HV].
  destruct (locate_total _ _ HV 2) as [A _]. destruct A as (j & Ej & _).
  { unfold tolL, tolR. rewrite !scale_nth. rewrite scale_length. destruct (Rltb_spec 0 (-1)); [lra|]. cbn [nth length Nat.sub]. lra. }
  rewrite EL in Ej. discriminate.
Qed.

(** ** B. 2-D: every query point.  For grids with at least three abscissae on each axis (so that each axis is a valid 1-D table) *)
Section Grid3.
Variables xs ys : list R.
Variable f : list (list R).
Hypothesis HG : valid_grid xs ys f.
Hypothesis H3x : (3 <= length xs)%nat.
Hypothesis H3y : (3 <= length ys)%nat.
Notation Nx := (length xs).
Notation Ny := (length ys).
Notation X i := (nth i xs 0).
Notation Yy j := (nth j ys 0).

Lemma axis_valid_x : valid_table xs (repeat 0 Nx).
Proof. split; [now rewrite repeat_length|]. split; [exact H3x|exact (proj1 (proj2 (proj2 HG)))]. Qed.
Lemma axis_valid_y : valid_table ys (repeat 0 Ny).
Proof. split; [now rewrite repeat_length|]. split; [exact H3y|exact (proj1 (proj2 (proj2 (proj2 HG))))]. Qed.

Definition in_zone (l : list R) (x : R) : Prop := nth 0 l 0 - tolL l < x < nth (length l - 1) l 0 + tolR l.

Theorem interpolate2_total x y :
  (in_zone xs x /\ in_zone ys y ->
     exists i j, (S i < Nx)%nat /\ (S j < Ny)%nat /\ interpolate2 ROps (grid xs ys f) x y = Ok (BIL xs ys f i j x y) /\
       (x < X 0 -> i = 0%nat) /\ (X (Nx - 1) < x -> i = (Nx - 2)%nat) /\ (X 0 <= x <= X (Nx - 1) -> X i <= x <= X (S i)) /\
       (y < Yy 0 -> j = 0%nat) /\ (Yy (Ny - 1) < y -> j = (Ny - 2)%nat) /\ (Yy 0 <= y <= Yy (Ny - 1) -> Yy j <= y <= Yy (S j))) /\
  (~ (in_zone xs x /\ in_zone ys y) -> interpolate2 ROps (grid xs ys f) x y = Exit).
Proof.
  destruct (locate_total xs _ axis_valid_x x) as [Ax Bx]. destruct (locate_total ys _ axis_valid_y y) as [Ay By].
  split.
  - intros [Hx Hy]. destruct (Ax Hx) as (i & Ei & Hi & P1 & P2 & P3). destruct (Ay Hy) as (j & Ej & Hj & Q1 & Q2 & Q3).
    exists i, j. split; [exact Hi|]. split; [exact Hj|]. split; [apply (interpolate2_located xs ys f HG); auto|].
    repeat split; auto; try (apply P3; assumption); try (apply Q3; assumption).
  - intros H. unfold interpolate2. cbn [grid jxint jyint].
    destruct (Rlt_le_dec (X 0 - tolL xs) x) as [H1|H1]; [destruct (Rlt_le_dec x (X (Nx - 1) + tolR xs)) as [H2|H2]|].
    + destruct (Ax (conj H1 H2)) as (i & Ei & _). rewrite Ei. cbn [rbind].
      rewrite By; [reflexivity|]. intros Hy. apply H. split; [split; assumption|exact Hy].
    + rewrite Bx; [reflexivity|]. intros [_ C]. lra.
    + rewrite Bx; [reflexivity|]. intros [C _]. lra.
Qed.
End Grid3.

(** ** C. the default-constructed objects *)
Lemma default_axis_valid : valid_table (default_axis ROps) [0; 0; 0].
Proof.
  split; [reflexivity|]. split; [cbn; lia|]. intros i Hi. cbn in Hi.
  destruct i as [|[|i]]; cbn; try lra; lia.
Qed.

Lemma default_zone x : in_zone (default_axis ROps) x <-> - (101 / 100) < x < 101 / 100.
Proof. unfold in_zone, tolL, tolR. cbn. lra. Qed.

Theorem default1_zero : exists o, default1 ROps = Ok o /\ forall x,
  (- (101 / 100) < x < 101 / 100 ->
     interpolate ROps o x = Ok 0 /\ derivative ROps o x 1 = Ok 0 /\ derivative ROps o x 2 = Ok 0 /\ derivative ROps o x 3 = Ok 0) /\
  (~ (- (101 / 100) < x < 101 / 100) -> interpolate ROps o x = Exit).
Proof.
  pose proof default_axis_valid as HV.
  destruct (construct_ok _ _ (dim_default ROps) (dim_default ROps) HV) as [E _].
  unfold dim_default in E. rewrite !scale_m1 in E.
  eexists. split; [exact E|]. intros x.
  assert (Hline : forall i, (i < length (default_axis ROps))%nat -> nth i [0; 0; 0] 0 = 0 * nth i (default_axis ROps) 0 + 0).
  { intros i Hi. destruct i as [|[|[|i]]]; cbn; try lra. cbn in Hi. lia. }
  destruct (linear_exact_everywhere _ _ HV 0 0 Hline x) as [A B]. fold (in_zone (default_axis ROps) x) in A, B.
  rewrite default_zone in A, B. split; [|exact B].
  intros Hx. destruct (A Hx) as (A0 & A1 & A2 & A3). replace (0 * x + 0) with 0 in A0 by ring. auto.
Qed.

Lemma scale2_m1 (g : list (list R)) : scale2 ROps (nneg ROps (n1 ROps)) g = g.
Proof. unfold scale2, ngtb. cbn [nltb nneg n0 n1 ROps]. destruct (Rltb_spec 0 (Ropp 1)); [lra|reflexivity]. Qed.

Lemma default_grid_valid : valid_grid (default_axis ROps) (default_axis ROps) (repeat (repeat 0 3) 3).
Proof.
  pose proof default_axis_valid as (_ & _ & Hinc).
  split; [cbn; lia|]. split; [cbn; lia|]. split; [exact Hinc|]. split; [exact Hinc|]. split; [reflexivity|].
  intros i Hi. cbn in Hi. destruct i as [|[|[|i]]]; try reflexivity. lia.
Qed.

Theorem default2_zero : exists o, default2 ROps = Ok o /\ forall x y,
  (- (101 / 100) < x < 101 / 100 /\ - (101 / 100) < y < 101 / 100 -> interpolate2 ROps o x y = Ok 0) /\
  (~ (- (101 / 100) < x < 101 / 100 /\ - (101 / 100) < y < 101 / 100) -> interpolate2 ROps o x y = Exit).
Proof.
  pose proof default_grid_valid as HG.
  destruct (construct2_ok _ _ _ (dim_default ROps) (dim_default ROps) (dim_default ROps) HG) as [E _].
  unfold dim_default in E. rewrite !scale_m1, scale2_m1 in E.
  eexists. split; [exact E|]. intros x y.
  destruct (interpolate2_total _ _ _ HG ltac:(cbn; lia) ltac:(cbn; lia) x y) as [A B].
  rewrite !default_zone in A, B. split; [|exact B].
  intros H. destruct (A H) as (i & j & Hi & Hj & EI & _). rewrite EI. f_equal.
  cbn in Hi, Hj. unfold BIL.
  destruct i as [|[|i]]; try lia; destruct j as [|[|j]]; try lia; cbn [nth repeat]; ring.
Qed.
