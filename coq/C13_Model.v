(** * C13 model: named one-dimensional methods and nested multi-dimensional integrals
    (src/Integration.cpp sections 1.3 and 2.1: Integrate(func,a,b,method,method_parameter),
    Integrate_2D, both Integrate_3D overloads; with local copies of the library's own back ends
    Integrate_Gauss_Legendre (section 1.2) and the adaptive Simpson Integrate (section 1.1)).
    Hand-written, line by line; tied to the code by the differential correspondence check
    (harness/C13.cpp vs the extraction of this file).

    Conventions.  The user's integrand is a total function.  The integrands the library builds itself
    (the nested lambdas) call Integrate again, which may terminate the process; they therefore have type
    [T -> res T] and every quadrature is written monadically.  The four boost quadratures are external
    code: they are the Section variable [I].  The Monte-Carlo integrators (property C14) enter the
    2-D/3-D front ends as the Section variable [MC]. *)
From Coq Require Import ZArith List Bool String.
From LP Require Import Num.
Import ListNotations.
Local Open Scope Z_scope.
Local Open Scope res_scope.

(** The method names: the six strings Integrate accepts, the three Integrate_MC accepts. *)
Inductive method :=
| M_Trapezoidal | M_GaussLegendre | M_GaussKronrod | M_TanhSinh | M_GaussLegendre2 | M_AdaptiveSimpson
| M_MonteCarlo | M_Vegas | M_Miser
| M_Unknown.

Definition parse_method (s : string) : method :=
  if String.eqb s "Trapezoidal" then M_Trapezoidal
  else if String.eqb s "Gauss-Legendre" then M_GaussLegendre
  else if String.eqb s "Gauss-Kronrod" then M_GaussKronrod
  else if String.eqb s "Tanh-Sinh" then M_TanhSinh
  else if String.eqb s "Gauss-Legendre_2" then M_GaussLegendre2
  else if String.eqb s "Adaptive-Simpson" then M_AdaptiveSimpson
  else if String.eqb s "Monte-Carlo" then M_MonteCarlo
  else if String.eqb s "Vegas" then M_Vegas
  else if String.eqb s "Miser" then M_Miser
  else M_Unknown.

(** The external (boost) quadratures a method name can select:
    trapezoidal(func,a,b); gauss<double,30>::integrate(func,a,b);
    gauss_kronrod<double,31>::integrate(func,a,b,max_depth,1e-9); tanh_sinh<double>().integrate(func,a,b). *)
Inductive backend :=
| B_trapezoidal | B_gauss30 | B_kronrod31 (max_depth : Z) | B_tanh_sinh.

Definition is_nested_method (m : method) : bool :=
  match m with
  | M_Trapezoidal | M_GaussLegendre | M_GaussKronrod | M_TanhSinh | M_AdaptiveSimpson | M_GaussLegendre2 => true
  | _ => false
  end.
Definition is_mc_method (m : method) : bool :=
  match m with M_MonteCarlo | M_Vegas | M_Miser => true | _ => false end.

Fixpoint set_nth {A} (l : list A) (i : nat) (a : A) : list A :=
  match l, i with
  | [], _ => []
  | _ :: r, O => a :: r
  | b :: r, S i' => b :: set_nth r i' a
  end.

Fixpoint mapM {A B} (f : A -> res B) (l : list A) : res (list B) :=
  match l with
  | [] => Ok []
  | a :: r => let* b := f a in let* bs := mapM f r in Ok (b :: bs)
  end.

Section Model.
Context {T : Type} (Ops : NumOps T).
Declare Scope num_scope.
Local Notation "x + y" := (nadd Ops x y) : num_scope.
Local Notation "x - y" := (nsub Ops x y) : num_scope.
Local Notation "x * y" := (nmul Ops x y) : num_scope.
Local Notation "x / y" := (ndiv Ops x y) : num_scope.
Delimit Scope num_scope with num.
Local Notation "'#' k" := (nofZ Ops k) (at level 1, format "'#' k").

(** ** Section 1.2: Compute_Gauss_Legendre_Roots_and_Weights(n, x_min, x_max), local copy.
<<
	double eps = 1.0e-14;  int m = (n + 1) / 2;
	double x_middle = 0.5 * x_max + 0.5 * x_min;  double x_half_width = 0.5 * x_max - 0.5 * x_min;
	for(int i = 0; i < m; i++)
	{	double pp;  double z = cos(M_PI * (i + 0.75) / (n + 0.5));
		while(true)
		{	double p1 = 1.0;  double p2 = 0.0;
			for(unsigned int j = 0; j < n; j++)
			{ double p3 = p2;  p2 = p1;  p1 = ((2.0 * j + 1.0) * z * p2 - j * p3) / (j + 1.0); }
			pp = n * (z * p1 - p2) / (z * z - 1.0);
			double z1 = z;  z = z1 - p1 / pp;
			if(std::fabs(z - z1) <= eps) break;
		}
		roots_and_weights[i][0]         = x_middle - x_half_width * z;
		roots_and_weights[n - i - 1][0] = x_middle + x_half_width * z;
		roots_and_weights[i][1]         = 2.0 * x_half_width / ((1.0 - z * z) * pp * pp);
		roots_and_weights[n - i - 1][1] = roots_and_weights[i][1];
	}
>>
    The Newton loop has no bound in the source; the model gives it fuel 100 and the outcome [Fuel]. *)
Definition m_pi : T := nlit Ops 314159265358979323846 100000000000000000000 7074237752028440 (-51).
Definition gl_eps : T := ndec Ops 1 100000000000000.

Fixpoint legendre (cnt : nat) (j : Z) (z p1 p2 : T) : T * T :=
  match cnt with
  | O => (p1, p2)
  | S c =>
      let p3 := p2 in
      let p2' := p1 in
      let p1' := (((#2 * #j + #1) * z * p2' - #j * p3) / (#j + #1))%num in
      legendre c (j + 1) z p1' p2'
  end.

Fixpoint gl_newton (fuel : nat) (n : Z) (z : T) : res (T * T) :=
  match fuel with
  | O => Fuel
  | S fu =>
      let '(p1, p2) := legendre (Z.to_nat n) 0 z (n1 Ops) (n0 Ops) in
      let pp := (#n * (z * p1 - p2) / (z * z - #1))%num in
      let z1 := z in
      let z' := (z1 - p1 / pp)%num in
      if nleb Ops (nabs Ops (z' - z1)%num) gl_eps then Ok (z', pp) else gl_newton fu n z'
  end.

Fixpoint gl_fill (cnt : nat) (i : Z) (n : Z) (xm xh : T) (rw : list (T * T)) : res (list (T * T)) :=
  match cnt with
  | O => Ok rw
  | S c =>
      let z0 := ncos Ops (m_pi * (#i + ndec Ops 3 4) / (#n + ndec Ops 1 2))%num in
      let* zp := gl_newton 100 n z0 in
      let '(z, pp) := zp in
      let w := (#2 * xh / ((#1 - z * z) * pp * pp))%num in
      let rw1 := set_nth rw (Z.to_nat i) ((xm - xh * z)%num, snd (nth (Z.to_nat i) rw (n0 Ops, n0 Ops))) in
      let k := Z.to_nat (n - i - 1) in
      let rw2 := set_nth rw1 k ((xm + xh * z)%num, snd (nth k rw1 (n0 Ops, n0 Ops))) in
      let rw3 := set_nth rw2 (Z.to_nat i) (fst (nth (Z.to_nat i) rw2 (n0 Ops, n0 Ops)), w) in
      let rw4 := set_nth rw3 k (fst (nth k rw3 (n0 Ops, n0 Ops)), snd (nth (Z.to_nat i) rw3 (n0 Ops, n0 Ops))) in
      gl_fill c (i + 1) n xm xh rw4
  end.

Definition gl_rule (n : Z) (xmin xmax : T) : res (list (T * T)) :=
  let m := (n + 1) / 2 in
  let xm := (ndec Ops 1 2 * xmax + ndec Ops 1 2 * xmin)%num in
  let xh := (ndec Ops 1 2 * xmax - ndec Ops 1 2 * xmin)%num in
  gl_fill (Z.to_nat m) 0 n xm xh (repeat (n0 Ops, n0 Ops) (Z.to_nat n)).

(** Integrate_Gauss_Legendre(func, a, b, sample_points): function values at the roots in order, then
    integral += function_values[i] * roots_and_weights[i][1] starting from 0.0 *)
Definition gl_integrate (f : T -> res T) (a b : T) (n : Z) : res T :=
  let* rw := gl_rule n a b in
  let* fv := mapM f (map fst rw) in
  Ok (fold_left (fun acc p => (acc + fst p * snd p)%num) (combine fv (map snd rw)) (n0 Ops)).

(** The two overloads the first one ends in (public entry points of their own), with their std::exit branches:
<<
	double Integrate_Gauss_Legendre(std::function<double(double)> func, std::vector<std::vector<double>> roots_and_weights)
	{	std::vector<double> function_values(roots_and_weights.size(), 0.0);
		for(unsigned int i = 0; i < roots_and_weights.size(); i++) function_values[i] = func(roots_and_weights[i][0]);
		return Integrate_Gauss_Legendre(function_values, roots_and_weights); }
	double Integrate_Gauss_Legendre(std::vector<double> function_values, std::vector<std::vector<double>> roots_and_weights)
	{	if(function_values.size() != roots_and_weights.size()) { std::cerr << ...; std::exit(EXIT_FAILURE); }
		for(unsigned int i = 0; i < roots_and_weights.size(); i++)
			if(roots_and_weights[i].size() != 2) { std::cerr << ...; std::exit(EXIT_FAILURE); }
		double integral = 0.0;
		for(unsigned int i = 0; i < function_values.size(); i++) integral += function_values[i] * roots_and_weights[i][1];
		return integral; }
>>
    [gl_integrate] above is the first overload with the table it has just built; C13_Proofs_GL.v shows that it equals the chain through
    these two for every input (their exit branches are unreachable from it). *)
Definition gl_sum_rows (fv : list T) (rows : list (list T)) : res T :=
  if negb (Nat.eqb (List.length fv) (List.length rows)) then Exit
  else if negb (forallb (fun row => Nat.eqb (List.length row) 2) rows) then Exit
  else Ok (fold_left (fun acc p => (acc + fst p * nth 1 (snd p) (n0 Ops))%num) (combine fv rows) (n0 Ops)).

Definition gl_fun_rows (f : T -> res T) (rows : list (list T)) : res T :=
  let* fv := mapM f (map (fun row => nth 0 row (n0 Ops)) rows) in
  gl_sum_rows fv rows.

Definition gl_rows (rw : list (T * T)) : list (list T) := map (fun p => [fst p; snd p]) rw.

(** ** Section 1.1: Find_Epsilon, Adaptive_Simpson_Integration, Integrate(func,a,b,epsilon,maxRecursionDepth), local copy *)
Definition find_epsilon (f : T -> res T) (a b precision : T) : res T :=
  let c := ((a + b) / #2)%num in
  let h := (b - a)%num in
  let* fa := f a in
  let* fb := f b in
  let* fc := f c in
  let S := ((h / #6) * (fa + #4 * fc + fb))%num in
  Ok (precision * S)%num.

Fixpoint asimp (f : T -> res T) (bottom : nat) (a b eps S fa fb fc : T) {struct bottom} : res T :=
  let c := ((a + b) / #2)%num in
  let h := (b - a)%num in
  let d := ((a + c) / #2)%num in
  let e := ((b + c) / #2)%num in
  let* fd := f d in
  let* fe := f e in
  let Sleft := ((h / #12) * (fa + #4 * fd + fc))%num in
  let Sright := ((h / #12) * (fc + #4 * fe + fb))%num in
  let S2 := (Sleft + Sright)%num in
  match bottom with
  | O => Ok (S2 + (S2 - S) / #15)%num
  | S bot =>
      if nleb Ops (nabs Ops (S2 - S)%num) (#15 * eps)%num then Ok (S2 + (S2 - S) / #15)%num
      else
        let* l := asimp f bot a c (eps / #2)%num Sleft fa fc fd in
        let* r := asimp f bot c b (eps / #2)%num Sright fc fb fe in
        Ok (l + r)%num
  end.

(** Check_Integration_Limits(a, b, sign): a > b swaps the limits and sets sign = -1.0 (it prints a warning to
    cerr; it does not terminate). *)
Definition check_limits (a b : T) : T * T * T :=
  if ngtb Ops a b then (b, a, nneg Ops (n1 Ops)) else (a, b, n1 Ops).

Definition integrate_eps (f : T -> res T) (a b eps : T) (depth : nat) : res T :=
  if neqb Ops a b then Ok (n0 Ops)
  else
    let '(a, b, sign) := check_limits a b in
    let c := ((a + b) / #2)%num in
    let h := (b - a)%num in
    let* fa := f a in
    let* fb := f b in
    let* fc := f c in
    let S := ((h / #6) * (fa + #4 * fc + fb))%num in
    let* result := asimp f depth a b (nabs Ops eps) S fa fb fc in
    Ok (sign * result)%num.

(** ** Section 1.3: Integrate(func, a, b, method, method_parameter)
<<
	double sign = 1.0;
	if(method != "Trapezoidal" && method != "Gauss-Legendre" && method != "Gauss-Kronrod" && method != "Tanh-Sinh"
	   && method != "Gauss-Legendre_2" && method != "Adaptive-Simpson") { std::cerr << ...; std::exit(EXIT_FAILURE); }
	if(a == b) return 0.0; else Check_Integration_Limits(a, b, sign);
	if(method == "Trapezoidal")          return sign * trapezoidal(func, a, b);
	else if(method == "Gauss-Legendre")  return sign * gauss<double, 30>::integrate(func, a, b);
	else if(method == "Gauss-Kronrod")   { int max_depth = method_parameter == 0 ? 5 : method_parameter;
	                                       return sign * gauss_kronrod<double, 31>::integrate(func, a, b, max_depth, 1e-9); }
	else if(method == "Tanh-Sinh")       { tanh_sinh<double> integrator; return sign * integrator.integrate(func, a, b); }
	else if(method == "Gauss-Legendre_2"){ int evaluation_points = method_parameter == 0 ? 30 : method_parameter;
	                                       return sign * Integrate_Gauss_Legendre(func, a, b, evaluation_points); }
	else if(method == "Adaptive-Simpson"){ double eps = Find_Epsilon(func, a, b, 1e-9);
	                                       return sign * Integrate(func, a, b, eps); }
	else { std::cerr << ...; std::exit(EXIT_FAILURE); }
>> *)
Section Named.
Variable I : backend -> (T -> res T) -> T -> T -> res T.

Definition integrate_named (m : method) (f : T -> res T) (a b : T) (p : Z) : res T :=
  if negb (is_nested_method m) then Exit
  else if neqb Ops a b then Ok (n0 Ops)
  else
    let '(a, b, sign) := check_limits a b in
    match m with
    | M_Trapezoidal => let* r := I B_trapezoidal f a b in Ok (sign * r)%num
    | M_GaussLegendre => let* r := I B_gauss30 f a b in Ok (sign * r)%num
    | M_GaussKronrod =>
        let max_depth := if p =? 0 then 5 else p in
        let* r := I (B_kronrod31 max_depth) f a b in Ok (sign * r)%num
    | M_TanhSinh => let* r := I B_tanh_sinh f a b in Ok (sign * r)%num
    | M_GaussLegendre2 =>
        let evaluation_points := if p =? 0 then 30 else p in
        let* r := gl_integrate f a b evaluation_points in Ok (sign * r)%num
    | M_AdaptiveSimpson =>
        let* eps := find_epsilon f a b (ndec Ops 1 1000000000) in
        let* r := integrate_eps f a b eps 20 in Ok (sign * r)%num
    | _ => Exit
    end.

(** ** An integrand that is itself defined through an integral (a call of Integrate made while Integrate is
    evaluating its integrand: the library is re-entered, possibly with another method name and another
    method_parameter):
<<
	auto g = [&](double x) {
		auto h = [&](double t) { return inner(x, t); };
		return outer(x, Integrate(h, lo(x), hi(x), inner_method, inner_parameter)); };
	Integrate(g, a, b, method, method_parameter);
>>
    The library keeps no state between or during calls, so the inner call is an ordinary call. *)
Definition reentrant_integrand (mi : method) (q : Z) (outer inner : T -> T -> T) (lo hi : T -> T) : T -> res T :=
  fun x => let* i := integrate_named mi (fun t => Ok (inner x t)) (lo x) (hi x) q in Ok (outer x i).

Definition integrate_reentrant (m : method) (p : Z) (mi : method) (q : Z) (outer inner : T -> T -> T) (lo hi : T -> T)
    (a b : T) : res T :=
  integrate_named m (reentrant_integrand mi q outer inner lo hi) a b p.

(** ** Section 2.1: nesting.  [J] is the one-dimensional integrator, [nest_2d]/[nest_3d] the lambdas:
<<
	auto integrand_x = [&func, y1, y2, method, method_parameter](double x) {
		auto integrand_y = [&func, x](double y) { return func(x, y); };
		return Integrate(integrand_y, y1, y2, method, method_parameter); };
	return Integrate(integrand_x, x1, x2, method, method_parameter);
>> *)
Definition nest_2d (J : (T -> res T) -> T -> T -> res T) (f : T -> T -> T) (x1 x2 y1 y2 : T) : res T :=
  J (fun x => J (fun y => Ok (f x y)) y1 y2) x1 x2.

Definition nest_3d (J : (T -> res T) -> T -> T -> res T) (f : T -> T -> T -> T) (x1 x2 y1 y2 z1 z2 : T) : res T :=
  J (fun x => J (fun y => J (fun z => Ok (f x y z)) z1 z2) y1 y2) x1 x2.

(** Nesting to any depth.  A user's integrand may itself call Integrate_2D/Integrate_3D (a normalisation computed by an integral inside an
    integrand, whose own integrand does the same again): the lambdas above are then stacked, 3D in 3D in 3D has nine levels of Integrate active at
    once.  Sections 1.1-1.3 and 2.1 keep no object that outlives a call and no count of the calls that are active (function_values of
    Integrate_Gauss_Legendre(func, rule) and the table of roots and weights are locals of each activation; the recursion of the adaptive
    Simpson rule carries its depth and tolerance in its arguments), so level k of a stack is the same function J of its own integrand and limits
    whatever k is: [nest_nd] is [nest_2d]/[nest_3d] continued to a list of limit pairs, outermost first; [pt] collects the variables of the
    enclosing levels in order. *)
Fixpoint nest_nd (J : (T -> res T) -> T -> T -> res T) (lims : list (T * T)) (f : list T -> res T) (pt : list T) : res T :=
  match lims with
  | [] => f pt
  | (a, b) :: rest => J (fun x => nest_nd J rest f (pt ++ [x])) a b
  end.

(** Monte-Carlo branch: region = {x1, y1, x2, y2} resp. {x1, y1, z1, x2, y2, z2},
    ncalls = method_parameter == 0 ? 30000 : method_parameter, integrand func(args[0], args[1] (, args[2])). *)
Variable MC : method -> (list T -> T) -> list T -> Z -> res T.

Definition mc_region_2d (x1 x2 y1 y2 : T) : list T := [x1; y1; x2; y2].
Definition mc_region_3d (x1 x2 y1 y2 z1 z2 : T) : list T := [x1; y1; z1; x2; y2; z2].
Definition mc_ncalls (p : Z) : Z := if p =? 0 then 30000 else p.

Definition integrate_2d (m : method) (f : T -> T -> T) (x1 x2 y1 y2 : T) (p : Z) : res T :=
  if is_nested_method m then nest_2d (fun g u v => integrate_named m g u v p) f x1 x2 y1 y2
  else if is_mc_method m then
    MC m (fun args => f (nth0 Ops args 0) (nth0 Ops args 1)) (mc_region_2d x1 x2 y1 y2) (mc_ncalls p)
  else Exit.

Definition integrate_3d (m : method) (f : T -> T -> T -> T) (x1 x2 y1 y2 z1 z2 : T) (p : Z) : res T :=
  if is_nested_method m then nest_3d (fun g u v => integrate_named m g u v p) f x1 x2 y1 y2 z1 z2
  else if is_mc_method m then
    MC m (fun args => f (nth0 Ops args 0) (nth0 Ops args 1) (nth0 Ops args 2))
       (mc_region_3d x1 x2 y1 y2 z1 z2) (mc_ncalls p)
  else Exit.

(** Spherical overload:
<<
	auto integrand = [&func](double r, double cos_theta, double phi) {
		Vector rVec = Spherical_Coordinates(r, acos(cos_theta), phi);
		return r * r * func(rVec); };
	return Integrate_3D(integrand, r1, r2, costheta_1, costheta_2, phi_1, phi_2, method, method_parameter);
>>
    with Spherical_Coordinates(r, theta, phi) = {r * sin(theta) * cos(phi), r * sin(theta) * sin(phi), r * cos(theta)}.
    The user's function of a Vector is a function of its three components. *)
Definition spherical_coordinates (r theta phi : T) : T * T * T :=
  ((r * nsin Ops theta * ncos Ops phi)%num, (r * nsin Ops theta * nsin Ops phi)%num, (r * ncos Ops theta)%num).

Definition spherical_integrand (F : T -> T -> T -> T) (r cos_theta phi : T) : T :=
  let '(vx, vy, vz) := spherical_coordinates r (nacos Ops cos_theta) phi in
  (r * r * F vx vy vz)%num.

Definition integrate_3d_spherical (m : method) (F : T -> T -> T -> T) (r1 r2 c1 c2 phi1 phi2 : T) (p : Z) : res T :=
  integrate_3d m (spherical_integrand F) r1 r2 c1 c2 phi1 phi2 p.

(** ** Call histories.  Sections 1.1-1.3 and 2.1 of Integration.cpp declare no static and no global object (the statics of the
    file belong to the Monte-Carlo integrators of section 2.2, property C14), and Compute_Gauss_Legendre_Roots_and_Weights builds its
    table of roots and weights anew in every call.  A process that makes several calls one after the other therefore answers
    each of them by the function above of that call's own arguments; a call that terminates the process is the last one. *)
Inductive call :=
| Call_1d (m : method) (p : Z) (f : T -> res T) (a b : T)
| Call_2d (m : method) (p : Z) (f : T -> T -> T) (x1 x2 y1 y2 : T)
| Call_3d (m : method) (p : Z) (f : T -> T -> T -> T) (x1 x2 y1 y2 z1 z2 : T)
| Call_spherical (m : method) (p : Z) (F : T -> T -> T -> T) (r1 r2 c1 c2 phi1 phi2 : T).

Definition run_call (c : call) : res T :=
  match c with
  | Call_1d m p f a b => integrate_named m f a b p
  | Call_2d m p f x1 x2 y1 y2 => integrate_2d m f x1 x2 y1 y2 p
  | Call_3d m p f x1 x2 y1 y2 z1 z2 => integrate_3d m f x1 x2 y1 y2 z1 z2 p
  | Call_spherical m p F r1 r2 c1 c2 phi1 phi2 => integrate_3d_spherical m F r1 r2 c1 c2 phi1 phi2 p
  end.

Fixpoint run_session (cs : list call) : list (res T) :=
  match cs with
  | [] => []
  | c :: rest =>
      match run_call c with
      | Exit => [Exit]
      | r => r :: run_session rest
      end
  end.

(** The life of a process: the calls made while the namespace-scope objects of the translation units linked in front of the library
    are initialised (before main, and before the namespace-scope objects of Integration.cpp would be initialised), then the calls made
    from main.  Sections 1.1-1.3 and 2.1 of Integration.cpp declare no namespace-scope object, initialised statically or dynamically
    (the method names are string literals compared in place, the defaults of method_parameter are the literals 5 and 30 in the branches):
    a call made before main is answered like any other. *)
Definition run_process (before_main in_main : list call) : list (res T) := run_session (before_main ++ in_main).

End Named.
End Model.
