(** * C14 proofs: the Monte-Carlo integrators sample inside the region, integrate constants exactly and forget
    earlier calls.  Over the real-number instance [ROps]; the uniform stream is any [us : Z -> R] with values in [0,1). *)
From Coq Require Import Reals ZArith NArith Nnat List Lra Lia Bool Psatz FunctionalExtensionality.
From LP Require Import Num NumR C13_Model C14_Model.
Import ListNotations.
Local Open Scope R_scope.

(** ** Boxes *)
(** [ordered lo hi]: a hyper-rectangle with lower corner lo and upper corner hi *)
Fixpoint ordered (lo hi : list R) : Prop :=
  match lo, hi with
  | l :: lo', h :: hi' => l <= h /\ ordered lo' hi'
  | _, _ => True
  end.
(** [inbox lo hi pt]: pt has one coordinate per axis and lo_j <= pt_j <= hi_j, with pt_j < hi_j on every axis of positive width *)
Fixpoint inbox (lo hi pt : list R) : Prop :=
  match lo, hi with
  | l :: lo', h :: hi' =>
      match pt with
      | p :: pt' => (l <= p <= h /\ (l < h -> p < h)) /\ inbox lo' hi' pt'
      | [] => False
      end
  | _, _ => pt = []
  end.

Section Stream.
Variable us : Z -> R.
Hypothesis us_range : forall k, 0 <= us k < 1.

(** ** Random_Point *)
Lemma random_point_aux_inbox lo : forall hi pos, ordered lo hi -> inbox lo hi (fst (random_point_aux ROps us lo hi pos)).
Proof.
  induction lo as [| l lo IH]; intros hi pos Ho; [reflexivity |].
  destruct hi as [| h hi]; [reflexivity |]. destruct Ho as [Hlh Ho]. cbn.
  specialize (IH hi (pos + 1)%Z Ho).
  destruct (random_point_aux ROps us lo hi (pos + 1)) as [pt pos'] eqn:E. cbn in *.
  pose proof (us_range pos) as [U0 U1].
  repeat split; try assumption; nra.
Qed.

Lemma random_point_inside region pos :
  ordered (lows region) (highs region) ->
  inbox (lows region) (highs region) (fst (random_point ROps us region pos)).
Proof. intros H. apply random_point_aux_inbox; assumption. Qed.

(** ** MC_Volume *)
Fixpoint volume (lo hi : list R) : R :=
  match lo, hi with l :: lo', h :: hi' => (h - l) * volume lo' hi' | _, _ => 1 end.
Lemma mc_volume_aux_spec lo : forall hi v, mc_volume_aux ROps lo hi v = v * volume lo hi.
Proof.
  induction lo as [| l lo IH]; intros hi v; cbn; [ring |].
  destruct hi as [| h hi]; cbn; [ring |]. rewrite IH. ring.
Qed.
Lemma mc_volume_spec region : mc_volume ROps region = volume (lows region) (highs region).
Proof. unfold mc_volume. rewrite mc_volume_aux_spec. cbn. ring. Qed.

(** ** Plain Monte Carlo *)
(** the integrand is evaluated only at points of the region: two integrands that agree there give the same result *)
Lemma brute_force_points_inside f f' region ncall :
  ordered (lows region) (highs region) ->
  (forall pt, inbox (lows region) (highs region) pt -> f pt = f' pt) ->
  brute_force ROps us f region ncall = brute_force ROps us f' region ncall.
Proof.
  intros Ho Hff. unfold brute_force.
  assert (E : brute_force_step ROps us f region (mc_volume ROps region) = brute_force_step ROps us f' region (mc_volume ROps region)).
  { apply functional_extensionality; intros [pos sum]. unfold brute_force_step.
    pose proof (random_point_inside region pos Ho) as Hin.
    destruct (random_point ROps us region pos) as [args pos']. cbn in Hin. rewrite (Hff _ Hin). reflexivity. }
  rewrite E. reflexivity.
Qed.

Lemma brute_force_iter_const c region v (n : nat) pos sum :
  exists pos', Nat.iter n (brute_force_step ROps us (fun _ => c) region v) (pos, sum) = (pos', sum + INR n * (v * c)).
Proof.
  induction n as [| n IH].
  - exists pos. cbn. f_equal. ring.
  - destruct IH as [p' IH]. cbn [Nat.iter nat_rect]. unfold Nat.iter in IH |- *. cbn [nat_rect]. rewrite IH. unfold brute_force_step at 1.
    destruct (random_point ROps us region p') as [args p'']. exists p''. rewrite S_INR. cbn. f_equal. ring.
Qed.

(** a constant is integrated exactly: volume * c *)
Lemma brute_force_constant_exact c region ncall :
  (0 < ncall)%Z ->
  brute_force ROps us (fun _ => c) region ncall = volume (lows region) (highs region) * c.
Proof.
  intros Hn. unfold brute_force. rewrite N2Nat.inj_iter.
  destruct (brute_force_iter_const c region (mc_volume ROps region) (N.to_nat (Z.to_N ncall)) 0%Z 0) as [p' E].
  change (n0 ROps) with 0. rewrite E. rewrite mc_volume_spec. cbn -[volume lows highs INR N.to_nat Z.to_N].
  replace (INR (N.to_nat (Z.to_N ncall))) with (IZR ncall).
  - field. apply not_0_IZR. lia.
  - rewrite INR_IZR_INZ. f_equal. rewrite N_nat_Z. rewrite Z2N.id; lia.
Qed.

End Stream.

(** ** Vegas: the re-initialisation with init = 0 *)
Lemma getZ_0 {A} (a : A) l : getZ (a :: l) 0 = Ok a.
Proof. reflexivity. Qed.

Lemma rebin_while_stop fu rc r k dr : ~ (dr < rc) -> rebin_while ROps (S fu) rc r k dr = Ok (k, dr).
Proof. intros H. cbn. unfold ngtb; cbn. destruct (Rltb_spec dr rc); [contradiction | reflexivity]. Qed.

Lemma rebin_while_step fu rc r k dr rk : dr < rc -> getZ r k = Ok rk ->
  rebin_while ROps (S fu) rc r k dr = rebin_while ROps fu rc r (k + 1) (dr + rk).
Proof. intros H E. cbn. unfold ngtb; cbn. destruct (Rltb_spec dr rc); [| contradiction]. rewrite E. reflexivity. Qed.

(** the uniform grid: entries (i+1)/nd, (i+2)/nd, ... *)
Fixpoint unif (rc : R) (i : Z) (cnt : nat) : list R :=
  match cnt with O => [] | S c => IZR (i + 1) * rc :: unif rc (i + 1) c end.

Section RebinSingle.
Variable nd : Z.
Hypothesis nd2 : (2 <= nd)%Z.
Let rc := 1 / IZR nd.
Variable m' : nat.
Let r := 1 :: repeat 1 m'.
Variable tl : list R.
Let row := 1 :: tl.

Lemma rc_facts : 0 < rc /\ rc * IZR nd = 1 /\ rc <= 1 / 2.
Proof.
  assert (H : 2 <= IZR nd) by (apply IZR_le in nd2; exact nd2).
  unfold rc. repeat split.
  - apply Rdiv_lt_0_compat; lra.
  - field; lra.
  - apply Rmult_le_reg_r with (IZR nd); [lra |]. replace (1 / IZR nd * IZR nd) with 1 by (field; lra). lra.
Qed.

Lemma rebin_loop_tail : forall cnt i, (1 <= i)%Z -> (i + Z.of_nat cnt <= nd - 1)%Z ->
  rebin_loop ROps cnt rc r row 1 (1 - IZR i * rc) 0 = Ok (unif rc i cnt).
Proof.
  destruct rc_facts as (Hrc0 & Hrc1 & Hrc2).
  induction cnt as [| c IH]; intros i Hi Hle; [reflexivity |].
  cbn [rebin_loop].
  assert (Hi' : IZR i + 1 <= IZR nd - 1).
  { replace (IZR i + 1) with (IZR (i + 1)) by (rewrite plus_IZR; reflexivity).
    replace (IZR nd - 1) with (IZR (nd - 1)) by (rewrite minus_IZR; reflexivity). apply IZR_le. lia. }
  assert (Hi0 : 1 <= IZR i) by (apply IZR_le in Hi; exact Hi).
  rewrite rebin_while_stop by nra.
  cbn [rbind]. change (1 >? 1)%Z with false. cbv iota.
  change (1 - 1)%Z with 0%Z. unfold row at 1, r at 1. rewrite !getZ_0. cbn [rbind].
  replace (nsub ROps (1 - IZR i * rc) rc) with (1 - IZR (i + 1) * rc) by (cbn; rewrite plus_IZR; ring).
  rewrite (IH (i + 1)%Z) by lia.
  cbn [rbind unif]. f_equal. f_equal. cbn. rewrite plus_IZR. field.
Qed.

(** Rebin(1/nd, nd) on a one-bin grid (row[0] = 1, weights r[i] = 1): the uniform grid, whatever the rest of the row holds *)
Lemma rebin_single : rebin ROps rc nd r row = Ok (unif rc 0 (Z.to_nat (nd - 1)) ++ [1] ++ skipn (Z.to_nat nd) row).
Proof.
  destruct rc_facts as (Hrc0 & Hrc1 & Hrc2).
  unfold rebin. destruct (Z.to_nat (nd - 1)) as [| c] eqn:Ec; [lia |].
  cbn [rebin_loop]. change (n0 ROps) with 0.
  rewrite (rebin_while_step _ rc r 0 0 1) by (try assumption; reflexivity).
  change (0 + 1)%Z with 1%Z. cbn [length r]. unfold r at 1. cbn [length].
  rewrite rebin_while_stop by lra.
  cbn [rbind]. change (1 >? 1)%Z with false. cbv iota.
  change (1 - 1)%Z with 0%Z. unfold row at 1, r at 1. rewrite !getZ_0. cbn [rbind].
  replace (nsub ROps (0 + 1) rc) with (1 - IZR 1 * rc) by (cbn; ring).
  rewrite (rebin_loop_tail c 1%Z) by lia.
  cbn [rbind unif]. f_equal. f_equal. f_equal. cbn. field.
Qed.
End RebinSingle.

Lemma unif_length rc i c : length (unif rc i c) = c.
Proof. revert i; induction c; intros i; cbn; [reflexivity | rewrite IHc; reflexivity]. Qed.

(** the part of a freshly reset grid row that a call uses *)
Definition fresh_row (nd : Z) : list R := firstn (Z.to_nat nd) (unif (1 / IZR nd) 0 (Z.to_nat (nd - 1)) ++ [1]).

Lemma firstn_app_exact {A} (l t : list A) : firstn (length l) (l ++ t) = l.
Proof. rewrite <- (Nat.add_0_r (length l)), firstn_app_2. cbn. apply app_nil_r. Qed.

Lemma firstn_app_len {A} n (l t : list A) : length l = n -> firstn n (l ++ t) = l.
Proof. intros <-. apply firstn_app_exact. Qed.

Lemma rebin_one_bin_live nd m' a tl : exists row',
  rebin ROps (IZR 1 / IZR nd) nd (1 :: repeat 1 m') (set_nth (a :: tl) 0 1) = Ok row' /\ firstn (Z.to_nat nd) row' = fresh_row nd.
Proof.
  cbn [set_nth]. destruct (Z_lt_le_dec nd 2) as [Hlt | Hge].
  - (* nd <= 1: no iteration of the loop *)
    unfold rebin. replace (Z.to_nat (nd - 1)) with O by lia. cbn [rebin_loop rbind app].
    eexists; split; [reflexivity |]. unfold fresh_row. replace (Z.to_nat (nd - 1)) with O by lia. cbn [unif app].
    destruct (Z.to_nat nd) as [| [| k]] eqn:E; try lia; reflexivity.
  - rewrite (rebin_single nd Hge m' tl). eexists; split; [reflexivity |].
    unfold fresh_row. rewrite app_assoc.
    assert (L : Z.to_nat nd = length (unif (1 / IZR nd) 0 (Z.to_nat (nd - 1)) ++ [1])).
    { rewrite app_length, unif_length. cbn. lia. }
    rewrite L at 1 3. rewrite firstn_app_exact. rewrite firstn_all. reflexivity.
Qed.

Lemma rebin_rows_one_bin_live nd m' rows0 : Forall (fun row => row <> []) rows0 -> exists rows',
  rebin_rows ROps (IZR 1 / IZR nd) nd (1 :: repeat 1 m') (map (fun row => set_nth row 0 1) rows0) = Ok rows' /\
  map (firstn (Z.to_nat nd)) rows' = repeat (fresh_row nd) (length rows0).
Proof.
  induction rows0 as [| row rows0 IH]; intros Hne.
  - exists []. split; reflexivity.
  - inversion Hne as [| ? ? Hrow Hrest]; subst. destruct row as [| a tl]; [congruence |].
    destruct (IH Hrest) as (rows' & E1 & E2).
    destruct (rebin_one_bin_live nd m' a tl) as (row' & F1 & F2).
    exists (row' :: rows'). cbn [map rebin_rows]. rewrite F1. cbn [rbind]. rewrite E1. cbn [rbind].
    split; [reflexivity |]. cbn [map length repeat]. rewrite F2, E2. reflexivity.
Qed.

Lemma Forall_firstn' {A} (P : A -> Prop) n : forall l, Forall P l -> Forall P (firstn n l).
Proof. induction n; intros l H; [constructor |]. destruct l; [constructor |]. inversion H; subst. cbn. constructor; auto. Qed.

(** the grid after  if(init <= 0) xi[j][0] = 1  and the reset through Rebin: its part in use does not depend on the old grid *)
Lemma grid_reset_live nd nd_ xi0 :
  (nd_ <= length xi0)%nat -> Forall (fun row => row <> []) xi0 -> exists xi1,
  vegas_grid_reset ROps nd 1 (nofZ ROps nd) nd_ (map (fun row => set_nth row 0 (n1 ROps)) (firstn nd_ xi0) ++ skipn nd_ xi0) = Ok (xi1, nd) /\
  map (firstn (Z.to_nat nd)) (firstn nd_ xi1) = repeat (fresh_row nd) nd_.
Proof.
  change (nofZ ROps nd) with (IZR nd). change (n1 ROps) with 1.
  intros Hlen Hne.
  assert (Hf : Forall (fun row : list R => row <> []) (firstn nd_ xi0)).
  { apply Forall_firstn'; assumption. }
  assert (Lf : length (map (fun row : list R => set_nth row 0 1) (firstn nd_ xi0)) = nd_).
  { rewrite map_length, firstn_length. lia. }
  unfold vegas_grid_reset. destruct (nd =? 1)%Z eqn:E1; cbn [negb].
  - apply Z.eqb_eq in E1. subst nd. eexists; split; [reflexivity |].
    rewrite (firstn_app_len nd_ _ _ Lf). rewrite map_map.
    assert (forall l, Forall (fun row : list R => row <> []) l -> map (fun x => firstn (Z.to_nat 1) (set_nth x 0 1)) l = repeat (fresh_row 1) (length l)) as G.
    { clear. induction l as [| row l IH]; intros H; [reflexivity |]. inversion H; subst. destruct row; [congruence |].
      cbn [map length repeat]. rewrite IH by assumption. reflexivity. }
    rewrite G by assumption. f_equal. rewrite firstn_length. lia.
  - replace (Z.to_nat (Z.max nd 1)) with (S (Z.to_nat (Z.max nd 1) - 1)) by lia. cbn [repeat].
    rewrite (firstn_app_len nd_ _ _ Lf).
    destruct (rebin_rows_one_bin_live nd (Z.to_nat (Z.max nd 1) - 1) (firstn nd_ xi0) Hf) as (rows' & F1 & F2).
    change (ndiv ROps (nofZ ROps 1) (IZR nd)) with (IZR 1 / IZR nd). change (n1 ROps) with 1.
    rewrite F1. cbn [rbind]. eexists; split; [reflexivity |].
    assert (Lr : length rows' = nd_).
    { apply (f_equal (@length _)) in F2. rewrite map_length, repeat_length, firstn_length in F2. lia. }
    rewrite (firstn_app_len nd_ _ _ Lr). rewrite F2. f_equal. rewrite firstn_length. lia.
Qed.

(** the statics are containers of fixed size (Matrix xi(MXDIM = 10, NDMX = 50)); all that is needed here: *)
Definition wf_statics (s : @vstate R) : Prop := (10 <= length (v_xi s))%nat /\ Forall (fun row => row <> []) (v_xi s).

Lemma rdim_le (region : list R) : (2 * rdim region <= length region)%nat.
Proof. unfold rdim. apply Nat.mul_div_le. lia. Qed.
Lemma lows_length (region : list R) : length (lows region) = rdim region.
Proof. unfold lows. rewrite firstn_length. pose proof (rdim_le region). lia. Qed.
Lemma highs_length (region : list R) : length (highs region) = rdim region.
Proof. unfold highs. rewrite firstn_length, skipn_length. pose proof (rdim_le region). lia. Qed.
Lemma dx_jac_length lo : forall hi x, length lo = length hi -> length (fst (dx_jac ROps lo hi x)) = length lo.
Proof.
  induction lo as [| l lo IH]; intros hi x H; [reflexivity |]. destruct hi as [| h hi]; [discriminate |].
  assert (H' : length lo = length hi) by (cbn in H; lia).
  cbn. specialize (IH hi (x * (h - l)) H'). cbn in IH.
  destruct (dx_jac ROps lo hi (x * (h - l))). cbn in *. lia.
Qed.

(** With init = 0 the part of the statics that the call goes on to use is a function of (region, ncall) only. *)
Theorem vegas_init_forgets s s' region ncall :
  wf_statics s -> wf_statics s' -> (rdim region <= 10)%nat ->
  rmap (vegas_live region) (vegas_init ROps s region 0 ncall) = rmap (vegas_live region) (vegas_init ROps s' region 0 ncall).
Proof.
  intros [L1 N1] [L2 N2] Hd.
  unfold vegas_init.
  change (0 <=? 0)%Z with true. change (0 <=? 1)%Z with true. change (0 <=? 2)%Z with true. cbv beta iota zeta.
  change (negb (1 =? 0)%Z) with true. cbv beta iota zeta.
  set (ng0 := ntrunc ROps _).
  destruct (2 * ng0 - NDMX >=? 0)%Z; cbv beta iota zeta.
  all: match goal with |- context [vegas_grid_reset ROps ?nd 1 _ _ _] =>
    destruct (grid_reset_live nd (rdim region) (v_xi s) ltac:(lia) N1) as (xa & Ea & Fa);
    destruct (grid_reset_live nd (rdim region) (v_xi s') ltac:(lia) N2) as (xb & Eb & Fb) end.
  all: destruct (dx_jac ROps (lows region) (highs region) _) as [dx xjac] eqn:Edx.
  all: assert (Ldx : length dx = rdim region) by
        (apply (f_equal fst) in Edx; cbn [fst] in Edx; rewrite <- Edx, dx_jac_length; [apply lows_length | rewrite lows_length, highs_length; reflexivity]).
  all: rewrite Ea, Eb; cbn [rbind rmap]; unfold vegas_live; cbn [v_mds v_ndo v_nd v_ng v_npg v_calls v_dv2g v_dxg v_xnd v_xjac v_si v_swgt v_schi v_dx v_xi].
  all: rewrite Fa, Fb, !(firstn_app_len (rdim region) dx _ Ldx); reflexivity.
Qed.

(** ** History independence *)
Section History.
Variable us : Z -> R.

(** Vegas with init = 0: the value returned does not depend on the statics left behind by earlier calls *)
Theorem vegas_forgets s s' f region ncall itmx :
  wf_statics s -> wf_statics s' -> (rdim region <= 10)%nat ->
  rmap fst (vegas ROps us s f region 0 ncall itmx) = rmap fst (vegas ROps us s' f region 0 ncall itmx).
Proof.
  intros W W' Hd. pose proof (vegas_init_forgets s s' region ncall W W' Hd) as E.
  unfold vegas.
  destruct (vegas_init ROps s region 0 ncall) as [s1 | | |]; destruct (vegas_init ROps s' region 0 ncall) as [s1' | | |];
    unfold rmap, rbind in E; try discriminate E; try reflexivity.
  assert (E' : vegas_live region s1 = vegas_live region s1')
    by (apply (f_equal (fun r => match r with Ok x => x | _ => vegas_live region s1 end)) in E; exact E).
  cbn [rbind]. rewrite E'.
  destruct (vegas_iterations ROps us itmx f (vegas_live region s1') region (n0 ROps) 0) as [[[integral s2] pos] | | |]; reflexivity.
Qed.

(** Integrate_MC: for each of the three methods the value is a function of (arguments, stream) only *)
Theorem integrate_mc_forgets s s' m f region ncalls :
  wf_statics s -> wf_statics s' -> (rdim region <= 10)%nat ->
  rmap fst (integrate_mc ROps us s m f region ncalls) = rmap fst (integrate_mc ROps us s' m f region ncalls).
Proof.
  intros W W' Hd. destruct m; try reflexivity.
  - apply vegas_forgets; assumption.
  - cbn. destruct (integrate_miser ROps us f region ncalls); reflexivity.
Qed.

(** plain Monte Carlo and Miser neither read nor write the statics; Miser's counter iran is local to the call *)
Lemma plain_and_miser_stateless s f region ncalls :
  integrate_mc ROps us s M_MonteCarlo f region ncalls = Ok (brute_force ROps us f region ncalls, s) /\
  integrate_mc ROps us s M_Miser f region ncalls = rmap (fun r => (r, s)) (integrate_miser ROps us f region ncalls).
Proof. split; reflexivity. Qed.
End History.

(** ** Miser *)
(** closed boxes *)
Fixpoint cbox (lo hi pt : list R) : Prop :=
  match lo, hi with
  | l :: lo', h :: hi' => match pt with p :: pt' => l <= p <= h /\ cbox lo' hi' pt' | [] => False end
  | _, _ => pt = []
  end.
Lemma inbox_cbox lo : forall hi pt, inbox lo hi pt -> cbox lo hi pt.
Proof.
  induction lo as [| l lo IH]; intros hi pt H; [exact H |]. destruct hi as [| h hi]; [exact H |].
  destruct pt as [| p pt]; [exact H |]. cbn in *. destruct H as [[H1 _] H2]. split; [exact H1 | apply IH; exact H2].
Qed.

Lemma set_nth_length {A} (l : list A) : forall i v, length (set_nth l i v) = length l.
Proof. induction l; intros [| i] v; cbn; try reflexivity. rewrite IHl. reflexivity. Qed.
Lemma set_nth_app_r {A} (a b : list A) i v : set_nth (a ++ b) (length a + i) v = a ++ set_nth b i v.
Proof. induction a; cbn; [reflexivity | rewrite IHa; reflexivity]. Qed.
Lemma set_nth_app_l {A} (a : list A) : forall b i v, (i < length a)%nat -> set_nth (a ++ b) i v = set_nth a i v ++ b.
Proof. induction a; intros b [| i] v H; cbn in *; try lia; try reflexivity. rewrite IHa by lia. reflexivity. Qed.
Lemma nth_set_nth_same (l : list R) : forall j v, (j < length l)%nat -> nth j (set_nth l j v) 0 = v.
Proof. induction l; intros [| j] v H; cbn in *; try lia; [reflexivity | apply IHl; lia]. Qed.
Lemma set_nth_twice {A} (l : list A) : forall j a b, set_nth (set_nth l j a) j b = set_nth l j b.
Proof. induction l; intros [| j] x y; cbn; try reflexivity. rewrite IHl. reflexivity. Qed.
Lemma set_nth_nth_id (l : list R) : forall j, set_nth l j (nth j l 0) = l.
Proof. induction l; intros [| j]; cbn; try reflexivity. rewrite IHl. reflexivity. Qed.

Lemma cbox_set_hi lo : forall hi pt j v, cbox lo (set_nth hi j v) pt -> v <= nth j hi 0 -> cbox lo hi pt.
Proof.
  induction lo as [| l lo IH]; intros hi pt j v H Hv; [exact H |].
  destruct hi as [| h hi]; [exact H |]. destruct pt as [| p pt]; [destruct j; exact H |].
  destruct j as [| j]; cbn in *.
  - destruct H as [H1 H2]. split; [lra | exact H2].
  - destruct H as [H1 H2]. split; [exact H1 | eapply IH; eauto].
Qed.
Lemma cbox_set_lo lo : forall hi pt j v, cbox (set_nth lo j v) hi pt -> nth j lo 0 <= v -> cbox lo hi pt.
Proof.
  induction lo as [| l lo IH]; intros hi pt j v H Hv; [destruct j; exact H |].
  destruct j as [| j]; cbn in *.
  - destruct hi as [| h hi]; [exact H |]. destruct pt as [| p pt]; [exact H |]. destruct H as [H1 H2]. split; [lra | exact H2].
  - destruct hi as [| h hi]; [exact H |]. destruct pt as [| p pt]; [exact H |]. destruct H as [H1 H2]. split; [exact H1 | eapply IH; eauto].
Qed.
Lemma ordered_set_hi lo : forall hi j v, ordered lo hi -> nth j lo 0 <= v -> ordered lo (set_nth hi j v).
Proof.
  induction lo as [| l lo IH]; intros hi j v H Hv; [exact I |].
  destruct hi as [| h hi]; [destruct j; exact I |]. destruct j as [| j]; cbn in *.
  - split; [lra | tauto].
  - split; [tauto | apply IH; tauto].
Qed.
Lemma ordered_set_lo lo : forall hi j v, ordered lo hi -> v <= nth j hi 0 -> (j < length hi)%nat -> ordered (set_nth lo j v) hi.
Proof.
  induction lo as [| l lo IH]; intros hi j v H Hv Hj; [destruct j; exact I |].
  destruct hi as [| h hi]; [cbn in Hj; lia |]. destruct j as [| j]; cbn in *.
  - split; [lra | tauto].
  - split; [tauto | apply IH; try tauto; lia].
Qed.

Lemma rdim_app (lo hi : list R) : length lo = length hi -> rdim (lo ++ hi) = length lo.
Proof. intros H. unfold rdim. rewrite app_length, <- H. replace (length lo + length lo)%nat with (length lo * 2)%nat by lia. apply Nat.div_mul. lia. Qed.
Lemma lows_app (lo hi : list R) : length lo = length hi -> lows (lo ++ hi) = lo.
Proof. intros H. unfold lows. rewrite rdim_app by assumption. apply firstn_app_exact. Qed.
Lemma highs_app (lo hi : list R) : length lo = length hi -> highs (lo ++ hi) = hi.
Proof.
  intros H. unfold highs. rewrite rdim_app by assumption.
  rewrite skipn_app, skipn_all, Nat.sub_diag. cbn. rewrite H. apply firstn_all.
Qed.

Lemma getZ_Ok (l : list R) j v : getZ l j = Ok v -> (0 <= j)%Z /\ (Z.to_nat j < length l)%nat /\ nth (Z.to_nat j) l 0 = v.
Proof.
  unfold getZ, get. destruct (j <? 0)%Z eqn:E; [discriminate |]. apply Z.ltb_ge in E.
  destruct (nth_error l (Z.to_nat j)) eqn:F; [| discriminate]. intros H; injection H as <-.
  split; [assumption |]. split; [apply nth_error_Some; congruence | apply nth_error_nth; assumption].
Qed.

(** over the reals Sign(0.0, y) = 0 and the split point is the midpoint *)
Lemma sign2_zero y : sign2 ROps (dith ROps) y = 0.
Proof. unfold sign2, dith. destruct (Z.eqb _ _); cbn; ring. Qed.

Fixpoint mids (lo hi : list R) : list R :=
  match lo, hi with l :: lo', h :: hi' => (l + h) / 2 :: mids lo' hi' | _, _ => [] end.
Lemma miser_rmid_mids lo : forall hi iran, fst (miser_rmid ROps lo hi iran) = mids lo hi.
Proof.
  induction lo as [| l lo IH]; intros hi iran; [reflexivity |]. destruct hi as [| h hi]; [reflexivity |].
  cbn [miser_rmid mids]. specialize (IH hi (Z.rem (iran * 2661 + 36979) 175000)).
  destruct (miser_rmid ROps lo hi (Z.rem (iran * 2661 + 36979) 175000)) as [r ir]. cbn [fst] in *.
  rewrite sign2_zero, IH. f_equal. unfold half, ndec. cbn. field.
Qed.
Lemma mids_length lo : forall hi, length lo = length hi -> length (mids lo hi) = length lo.
Proof. induction lo; intros [| h hi] H; cbn in *; try lia. rewrite IHlo; lia. Qed.
Lemma nth_mids lo : forall hi j, (j < length lo)%nat -> length lo = length hi -> nth j (mids lo hi) 0 = (nth j lo 0 + nth j hi 0) / 2.
Proof.
  induction lo as [| l lo IH]; intros [| h hi] j Hj H; cbn in *; try lia.
  destruct j; [reflexivity | apply IH; lia].
Qed.
Lemma ordered_nth lo : forall hi j, ordered lo hi -> (j < length lo)%nat -> length lo = length hi -> nth j lo 0 <= nth j hi 0.
Proof.
  induction lo as [| l lo IH]; intros [| h hi] j Ho Hj H; cbn in *; try lia.
  destruct j; [tauto | apply IH; try tauto; lia].
Qed.

Section Miser.
Variable us : Z -> R.
Hypothesis us_range : forall k, 0 <= us k < 1.

Lemma leaf_step_ext f f' region :
  ordered (lows region) (highs region) ->
  (forall pt, cbox (lows region) (highs region) pt -> f pt = f' pt) ->
  miser_leaf_step ROps us f region = miser_leaf_step ROps us f' region.
Proof.
  intros Ho Hff. apply functional_extensionality; intros [pos summ]. unfold miser_leaf_step.
  pose proof (random_point_inside us us_range region pos Ho) as Hin.
  destruct (random_point ROps us region pos) as [pt pos']. cbn in Hin. rewrite (Hff _ (inbox_cbox _ _ _ Hin)). reflexivity.
Qed.
Lemma presample_step_ext f f' region rmid :
  ordered (lows region) (highs region) ->
  (forall pt, cbox (lows region) (highs region) pt -> f pt = f' pt) ->
  miser_presample_step ROps us f region rmid = miser_presample_step ROps us f' region rmid.
Proof.
  intros Ho Hff. apply functional_extensionality; intros [pos b]. unfold miser_presample_step.
  pose proof (random_point_inside us us_range region pos Ho) as Hin.
  destruct (random_point ROps us region pos) as [pt pos']. cbn in Hin. rewrite (Hff _ (inbox_cbox _ _ _ Hin)). reflexivity.
Qed.

(** one level: if the recursive calls agree on every sub-box, the level agrees *)
Lemma miser_level_ext rec rec' f f' lo hi npts iran pos :
  length lo = length hi -> ordered lo hi ->
  (forall pt, cbox lo hi pt -> f pt = f' pt) ->
  (forall lo' hi' n i p, length lo' = length hi' -> ordered lo' hi' -> (forall pt, cbox lo' hi' pt -> cbox lo hi pt) ->
     rec (lo' ++ hi') n i p = rec' (lo' ++ hi') n i p) ->
  miser_level ROps us rec f (lo ++ hi) npts iran pos = miser_level ROps us rec' f' (lo ++ hi) npts iran pos.
Proof.
  intros Hlen Ho Hff Hrec. unfold miser_level.
  rewrite (lows_app lo hi Hlen), (highs_app lo hi Hlen), (rdim_app lo hi Hlen).
  assert (Ho' : ordered (lows (lo ++ hi)) (highs (lo ++ hi))) by (rewrite lows_app, highs_app; assumption).
  assert (Hff' : forall pt, cbox (lows (lo ++ hi)) (highs (lo ++ hi)) pt -> f pt = f' pt) by (rewrite lows_app, highs_app; assumption).
  rewrite (leaf_step_ext f f' (lo ++ hi) Ho' Hff').
  destruct (npts <? MNBS)%Z; [reflexivity |].
  pose proof (miser_rmid_mids lo hi iran) as Hm.
  destruct (miser_rmid ROps lo hi iran) as [rmid iran1]. cbn [fst] in Hm. subst rmid.
  rewrite (presample_step_ext f f' (lo ++ hi) (mids lo hi) Ho' Hff').
  destruct (N.iter _ _ _) as [pos1 b].
  destruct (miser_select ROps 0 b _) as [[[sumb jb0] siglb] sigrb].
  set (jb := if (jb0 =? -1)%Z then _ else jb0).
  destruct (getZ (lo ++ hi) jb) as [rgl | | |] eqn:E1; try reflexivity.
  destruct (getZ (mids lo hi) jb) as [rgm | | |] eqn:E2; try reflexivity.
  destruct (getZ (lo ++ hi) (Z.of_nat (length lo) + jb)) as [rgr | | |] eqn:E3; try reflexivity.
  cbn [rbind].
  apply getZ_Ok in E2. destruct E2 as (Hjb0 & Hjb1 & Hrgm). rewrite mids_length in Hjb1 by assumption.
  apply getZ_Ok in E3. destruct E3 as (_ & _ & Hrgr).
  replace (Z.to_nat (Z.of_nat (length lo) + jb)) with (length lo + Z.to_nat jb)%nat in * by lia.
  rewrite app_nth2_plus in Hrgr.
  rewrite nth_mids in Hrgm by assumption.
  pose proof (ordered_nth lo hi (Z.to_nat jb) Ho Hjb1 Hlen) as Hord.
  assert (Hfull : firstn (2 * length lo) (lo ++ hi) = lo ++ hi) by (apply firstn_all2; rewrite app_length; lia).
  rewrite Hfull. rewrite set_nth_app_r.
  (* left sub-region: lo ++ set_nth hi jb rgm *)
  rewrite (Hrec lo (set_nth hi (Z.to_nat jb) rgm)).
  2:{ rewrite set_nth_length; assumption. }
  2:{ apply ordered_set_hi; [assumption | lra]. }
  2:{ intros pt Hpt. eapply cbox_set_hi; [exact Hpt | lra]. }
  destruct (rec' _ _ _ _) as [[[avel iran2] pos2] | | |]; try reflexivity. cbn [rbind].
  (* right sub-region *)
  rewrite (set_nth_app_l lo _ (Z.to_nat jb) rgm Hjb1).
  replace (length lo + Z.to_nat jb)%nat with (length (set_nth lo (Z.to_nat jb) rgm) + Z.to_nat jb)%nat by (rewrite set_nth_length; reflexivity).
  rewrite set_nth_app_r, set_nth_twice. rewrite <- Hrgr, set_nth_nth_id.
  rewrite (Hrec (set_nth lo (Z.to_nat jb) rgm) hi).
  2:{ rewrite set_nth_length; assumption. }
  2:{ apply ordered_set_lo; [assumption | lra | lia]. }
  2:{ intros pt Hpt. eapply cbox_set_lo; [exact Hpt | lra]. }
  reflexivity.
Qed.

(** Miser evaluates the integrand only at points of the region: integrands that agree there give the same run *)
Lemma miser_points_inside fuel : forall f f' lo hi npts iran pos,
  length lo = length hi -> ordered lo hi ->
  (forall pt, cbox lo hi pt -> f pt = f' pt) ->
  miser ROps us fuel f (lo ++ hi) npts iran pos = miser ROps us fuel f' (lo ++ hi) npts iran pos.
Proof.
  induction fuel as [| fu IH]; intros f f' lo hi npts iran pos Hlen Ho Hff; [reflexivity |].
  cbn [miser]. apply miser_level_ext; try assumption.
  intros lo' hi' n i p Hlen' Ho' Hsub. apply IH; try assumption. intros pt Hpt. apply Hff, Hsub, Hpt.
Qed.
End Miser.

Section MiserConstant.
Variable us : Z -> R.
Variable c : R.
Hypothesis c_range : - big ROps <= c <= big ROps.
Let fc : list R -> R := fun _ => c.

Lemma leaf_iter_const region (n : nat) pos summ :
  exists pos', Nat.iter n (miser_leaf_step ROps us fc region) (pos, summ) = (pos', summ + INR n * c).
Proof.
  induction n as [| n IH].
  - exists pos. cbn. f_equal. ring.
  - destruct IH as [p' IH]. unfold Nat.iter in IH |- *. cbn [nat_rect]. rewrite IH. unfold miser_leaf_step at 1.
    destruct (random_point ROps us region p') as [args p'']. exists p''. rewrite S_INR. cbn. f_equal. unfold fc. ring.
Qed.

Definition bounds_inv (b : list (R * R * R * R)) : Prop :=
  Forall (fun q => let '(fminl, fmaxl, fminr, fmaxr) := q in (fmaxl <= c <= fminl) /\ (fmaxr <= c <= fminr)) b.

Lemma nmin_ge a : c <= a -> c <= nmin ROps a c.
Proof. intros H. unfold nmin; cbn. destruct (Rltb_spec c a); lra. Qed.
Lemma nmax_le a : a <= c -> nmax ROps a c <= c.
Proof. intros H. unfold nmax; cbn. destruct (Rltb_spec a c); lra. Qed.

Lemma miser_bounds_inv pt : forall rmid b, bounds_inv b -> bounds_inv (miser_bounds ROps pt rmid b c).
Proof.
  induction pt as [| p pt IH]; intros rmid b Hb; [constructor |].
  destruct rmid as [| m rmid]; [constructor |]. destruct b as [| [[[fminl fmaxl] fminr] fmaxr] b]; [constructor |].
  inversion Hb as [| ? ? Hq Hrest]; subst. cbv beta iota in Hq. destruct Hq as [H1 H2]. cbn [miser_bounds].
  constructor; [| apply IH; assumption].
  destruct (nleb ROps p m); cbv beta iota; repeat split; try lra; try (apply nmax_le; lra); try (apply nmin_ge; lra).
Qed.

Lemma presample_inv region rmid n pos b : bounds_inv b ->
  bounds_inv (snd (N.iter n (miser_presample_step ROps us fc region rmid) (pos, b))).
Proof.
  intros Hb. apply (N.iter_invariant n _ _ (fun st => bounds_inv (snd st))); [| exact Hb].
  intros [p b'] H. unfold miser_presample_step. destruct (random_point ROps us region p) as [pt p']. cbn [snd] in *.
  apply miser_bounds_inv; assumption.
Qed.

Lemma select_none b : bounds_inv b -> forall j st, miser_select ROps j b st = st.
Proof.
  induction b as [| [[[fminl fmaxl] fminr] fmaxr] b IH]; intros Hb j st; [reflexivity |].
  inversion Hb as [| ? ? Hq Hrest]; subst. cbv beta iota in Hq. destruct Hq as [H1 H2]. cbn [miser_select]. destruct st as [[[sumb jb] siglb] sigrb].
  replace (ngtb ROps fmaxl fminl) with false by (unfold ngtb; cbn; destruct (Rltb_spec fminl fmaxl); [lra | reflexivity]).
  cbn [andb]. apply IH; assumption.
Qed.

Lemma trunc_bounds x : 0 <= x -> IZR (ntrunc ROps x) <= x < IZR (ntrunc ROps x) + 1.
Proof.
  intros H. cbn. destruct (Rle_dec 0 x); [| contradiction]. pose proof (base_Int_part x). lra.
Qed.

Lemma miser_level_const rec lo hi npts iran pos :
  length lo = length hi -> (15 <= npts)%Z ->
  (forall lo' hi' n i p, length lo' = length hi' -> (15 <= n)%Z -> match rec (lo' ++ hi') n i p with Ok (ave, _, _) => ave = c | _ => True end) ->
  match miser_level ROps us rec fc (lo ++ hi) npts iran pos with Ok (ave, _, _) => ave = c | _ => True end.
Proof.
  intros Hlen Hn Hrec. unfold miser_level.
  rewrite (lows_app lo hi Hlen), (highs_app lo hi Hlen), (rdim_app lo hi Hlen).
  destruct (npts <? MNBS)%Z eqn:Eleaf.
  - rewrite N2Nat.inj_iter.
    destruct (leaf_iter_const (lo ++ hi) (N.to_nat (Z.to_N npts)) pos (n0 ROps)) as [p' E]. rewrite E.
    replace (INR (N.to_nat (Z.to_N npts))) with (IZR npts) by (rewrite INR_IZR_INZ; f_equal; rewrite N_nat_Z, Z2N.id; lia).
    cbn. field. apply not_0_IZR. lia.
  - apply Z.ltb_ge in Eleaf. unfold MNBS in Eleaf.
    pose proof (miser_rmid_mids lo hi iran) as Hm.
    destruct (miser_rmid ROps lo hi iran) as [rmid iran1]. cbn [fst] in Hm. subst rmid.
    set (npre := Z.max (ntrunc ROps (nmul ROps (nofZ ROps npts) (PFAC ROps))) MNPT).
    assert (Hnpre : (15 <= npre)%Z /\ (15 <= npts - npre - 2 * MNPT)%Z).
    { unfold npre, MNPT. destruct (trunc_bounds (nmul ROps (nofZ ROps npts) (PFAC ROps))) as [T1 T2].
      { cbn. unfold ndec; cbn. apply IZR_le in Eleaf. lra. }
      set (t := ntrunc ROps _) in *. clearbody t.
      change (nmul ROps (nofZ ROps npts) (PFAC ROps)) with (IZR npts * (1 / 10)) in T1.
      assert (10 * t <= npts)%Z by (apply le_IZR; rewrite mult_IZR; lra). lia. }
    pose proof (presample_inv (lo ++ hi) (mids lo hi) (Z.to_N npre) pos
                  (repeat (big ROps, nneg ROps (big ROps), big ROps, nneg ROps (big ROps)) (length lo))) as Hinv.
    destruct (N.iter _ _ _) as [pos1 b]. cbn [snd] in Hinv.
    rewrite select_none.
    2:{ apply Hinv. apply Forall_forall. intros q Hq. apply repeat_spec in Hq. subst q. cbv beta iota. change (nneg ROps (big ROps)) with (- big ROps). lra. }
    set (jb := if (-1 =? -1)%Z then _ else _).
    destruct (getZ (lo ++ hi) jb) as [rgl | | |] eqn:E1; try exact I.
    destruct (getZ (mids lo hi) jb) as [rgm | | |] eqn:E2; try exact I.
    destruct (getZ (lo ++ hi) (Z.of_nat (length lo) + jb)) as [rgr | | |] eqn:E3; try exact I.
    cbn [rbind].
    apply getZ_Ok in E2. destruct E2 as (Hjb0 & Hjb1 & Hrgm). rewrite mids_length in Hjb1 by assumption.
    apply getZ_Ok in E1. destruct E1 as (_ & _ & Hrgl). rewrite app_nth1 in Hrgl by assumption.
    apply getZ_Ok in E3. destruct E3 as (_ & _ & Hrgr).
    replace (Z.to_nat (Z.of_nat (length lo) + jb)) with (length lo + Z.to_nat jb)%nat in * by lia.
    rewrite app_nth2_plus in Hrgr. rewrite nth_mids in Hrgm by assumption.
    set (fracl := nabs ROps (ndiv ROps (nsub ROps rgm rgl) (nsub ROps rgr rgl))).
    assert (Hfr : 0 <= fracl <= 1 / 2).
    { unfold fracl. cbn. rewrite <- Hrgm, <- Hrgl, <- Hrgr.
      set (l := nth (Z.to_nat jb) lo 0). set (h := nth (Z.to_nat jb) hi 0).
      destruct (Req_dec (h - l) 0) as [Hz | Hnz].
      - rewrite Hz. unfold Rdiv. rewrite Rinv_0, Rmult_0_r, Rabs_R0. lra.
      - replace ((l + h) / 2 - l) with ((h - l) / 2) by field. replace ((h - l) / 2 / (h - l)) with (1 / 2) by (field; assumption).
        rewrite Rabs_pos_eq; lra. }
    clearbody fracl.
    set (M := (npts - npre - 2 * MNPT)%Z) in *.
    set (x := nadd ROps (nofZ ROps MNPT) _).
    assert (Hx : 15 <= x <= 15 + IZR M / 2).
    { unfold x. cbn. unfold MNPT.
      replace (fracl * 1 + (1 - fracl) * 1) with 1 by ring. destruct Hnpre as [_ HM]. apply IZR_le in HM.
      replace (IZR M * fracl * 1 / 1) with (IZR M * fracl) by field. nra. }
    destruct (trunc_bounds x ltac:(lra)) as [T1 T2].
    set (nptl := ntrunc ROps x) in *.
    assert (Hl : (15 <= nptl)%Z) by (apply Z.lt_succ_r, lt_IZR; rewrite succ_IZR; lra).
    assert (Hr : (15 <= npts - npre - nptl)%Z).
    { apply le_IZR. unfold M, MNPT in *. destruct Hnpre as [_ HM]. apply IZR_le in HM.
      rewrite !minus_IZR in *. rewrite mult_IZR in *. lra. }
    assert (Hfull : firstn (2 * length lo) (lo ++ hi) = lo ++ hi) by (apply firstn_all2; rewrite app_length; lia).
    rewrite Hfull. rewrite set_nth_app_r.
    pose proof (Hrec lo (set_nth hi (Z.to_nat jb) rgm) nptl iran1 pos1 ltac:(rewrite set_nth_length; assumption) Hl) as R1.
    destruct (rec _ nptl iran1 pos1) as [[[avel iran2] pos2] | | |]; try exact I. cbn [rbind].
    rewrite (set_nth_app_l lo _ (Z.to_nat jb) rgm Hjb1).
    replace (length lo + Z.to_nat jb)%nat with (length (set_nth lo (Z.to_nat jb) rgm) + Z.to_nat jb)%nat by (rewrite set_nth_length; reflexivity).
    rewrite set_nth_app_r.
    match goal with |- match (let* rr := rec (?l' ++ ?h') ?n ?i ?p in _)%res with _ => _ end =>
      pose proof (Hrec l' h' n i p ltac:(rewrite !set_nth_length; assumption) Hr) as R2; destruct (rec (l' ++ h') n i p) as [[[aver iran3] pos3] | | |] end; try exact I.
    cbn [rbind]. subst avel aver. cbn. ring.
Qed.

(** Miser integrates a constant exactly: the average is c at every level of the recursion *)
Lemma miser_const fuel : forall lo hi npts iran pos, length lo = length hi -> (15 <= npts)%Z ->
  match miser ROps us fuel fc (lo ++ hi) npts iran pos with Ok (ave, _, _) => ave = c | _ => True end.
Proof.
  induction fuel as [| fu IH]; intros lo hi npts iran pos Hlen Hn; [exact I |].
  cbn [miser]. apply miser_level_const; assumption.
Qed.
End MiserConstant.

(** ** Top-level statements for Miser *)
Lemma region_split (region : list R) : length region = (2 * rdim region)%nat -> region = lows region ++ highs region.
Proof.
  intros H. unfold lows, highs. rewrite (firstn_all2 (n := rdim region) (skipn (rdim region) region)) by (rewrite skipn_length; lia).
  symmetry. apply firstn_skipn.
Qed.

Theorem integrate_miser_points_inside us (us_range : forall k, 0 <= us k < 1) f f' region ncall :
  length region = (2 * rdim region)%nat ->
  ordered (lows region) (highs region) ->
  (forall pt, cbox (lows region) (highs region) pt -> f pt = f' pt) ->
  integrate_miser ROps us f region ncall = integrate_miser ROps us f' region ncall.
Proof.
  intros Hlen Ho Hff. unfold integrate_miser.
  assert (E : forall fu n i p, miser ROps us fu f region n i p = miser ROps us fu f' region n i p).
  { intros fu n i p. rewrite (region_split region Hlen).
    apply (miser_points_inside us us_range fu f f' (lows region) (highs region)); try assumption.
    rewrite lows_length, highs_length. reflexivity. }
  rewrite E. reflexivity.
Qed.

Theorem integrate_miser_constant_exact us c region ncall :
  length region = (2 * rdim region)%nat -> (15 <= ncall)%Z -> - big ROps <= c <= big ROps ->
  match integrate_miser ROps us (fun _ => c) region ncall with
  | Ok r => r = volume (lows region) (highs region) * c
  | _ => True
  end.
Proof.
  intros Hlen Hn Hc. unfold integrate_miser.
  pose proof (miser_const us c Hc (Z.to_nat (ncall / 15 + 2)) (lows region) (highs region) ncall 0%Z 0%Z
                ltac:(rewrite lows_length, highs_length; reflexivity) Hn) as H.
  rewrite <- (region_split region Hlen) in H.
  destruct (miser ROps us _ _ region ncall 0 0) as [[[ave iran] pos] | | |]; try exact I.
  cbn [rbind]. subst ave. rewrite mc_volume_spec. reflexivity.
Qed.

(** ** Vegas: the sampling map stays inside the region *)
(** a grid row in use: increasing (not necessarily strictly) from >= 0 to <= 1 *)
Definition grid_ok (row : list R) : Prop :=
  (forall i j, (i <= j < length row)%nat -> nth i row 0 <= nth j row 0) /\
  0 <= nth 0 row 0 /\ nth (length row - 1) row 0 <= 1.

Lemma getZ_nth (l : list R) j : (0 <= j < Z.of_nat (length l))%Z -> getZ l j = Ok (nth (Z.to_nat j) l 0).
Proof.
  intros H. unfold getZ, get. destruct (j <? 0)%Z eqn:E; [apply Z.ltb_lt in E; lia |].
  destruct (nth_error l (Z.to_nat j)) eqn:F.
  - f_equal. symmetry. apply nth_error_nth; assumption.
  - apply nth_error_None in F. lia.
Qed.

(** one coordinate: for 1 <= xn < nd + 1 the bin ia = int(xn) is in use and the mapped coordinate rc lies in [0,1] *)
Lemma vegas_map_inside (row : list R) xn :
  grid_ok row -> (1 <= length row <= 50)%nat -> 1 <= xn < INR (length row) + 1 ->
  let ia := Z.max (Z.min (ntrunc ROps xn) NDMX) 1 in
  exists xo rc,
    (if (ia >? 1)%Z
     then rbind (getZ row (ia - 1)) (fun a => rbind (getZ row (ia - 2)) (fun b =>
            let xo := nsub ROps a b in Ok (xo, nadd ROps b (nmul ROps (nsub ROps xn (nofZ ROps ia)) xo))))
     else rbind (getZ row (ia - 1)) (fun a => Ok (a, nmul ROps (nsub ROps xn (nofZ ROps ia)) a)))
    = Ok (xo, rc) /\ 0 <= xo /\ 0 <= rc <= 1 /\ (1 <= ia <= Z.of_nat (length row))%Z.
Proof.
  intros (Hmono & H0 & H1) Hlen Hxn ia.
  destruct (trunc_bounds xn ltac:(lra)) as [T1 T2]. set (t := ntrunc ROps xn) in *. clearbody t.
  assert (Ht1 : (1 <= t)%Z) by (apply Z.lt_succ_r, lt_IZR; rewrite succ_IZR; lra).
  assert (Ht2 : (t <= Z.of_nat (length row))%Z).
  { apply Z.lt_succ_r, lt_IZR. rewrite succ_IZR, <- INR_IZR_INZ. lra. }
  assert (Eia : ia = t) by (unfold ia, NDMX; lia). rewrite Eia. clear ia Eia.
  assert (Hfrac : 0 <= xn - IZR t < 1) by lra.
  destruct (t >? 1)%Z eqn:E.
  - apply Z.gtb_lt in E.
    rewrite !getZ_nth by lia. cbn [rbind].
    set (a := nth (Z.to_nat (t - 1)) row 0). set (b := nth (Z.to_nat (t - 2)) row 0).
    assert (Hab : b <= a) by (apply Hmono; lia).
    assert (Hb0 : 0 <= b) by (eapply Rle_trans; [exact H0 | apply Hmono; lia]).
    assert (Ha1 : a <= 1) by (eapply Rle_trans; [apply (Hmono (Z.to_nat (t - 1)) (length row - 1)%nat); lia | exact H1]).
    eexists; eexists; split; [reflexivity |]. cbn. repeat split; try lia; nra.
  - assert (t = 1%Z) by (rewrite Z.gtb_ltb in E; apply Z.ltb_ge in E; lia). subst t.
    rewrite getZ_nth by lia. cbn [rbind]. change (Z.to_nat (1 - 1)) with 0%nat.
    set (a := nth 0 row 0) in *.
    assert (Ha1 : a <= 1) by (eapply Rle_trans; [apply (Hmono 0%nat (length row - 1)%nat); lia | exact H1]).
    eexists; eexists; split; [reflexivity |]. cbn. repeat split; try lia; nra.
Qed.

(** the argument of the map: kg in 1..ng, 0 < u < 1, dxg = nd/ng  gives  1 <= xn < nd + 1 *)
Lemma vegas_xn_range (kg ng : Z) (u nd : R) : (1 <= kg <= ng)%Z -> 0 < u < 1 -> 0 < nd ->
  1 <= (IZR kg - u) * (1 / IZR ng * nd) + 1 < nd + 1.
Proof.
  intros [Hk1 Hk2] Hu Hnd. apply IZR_le in Hk1, Hk2.
  assert (Hng : 0 < IZR ng) by lra.
  assert (Hq : 0 < 1 / IZR ng * nd) by (apply Rmult_lt_0_compat; [apply Rdiv_lt_0_compat; lra | lra]).
  split; [nra |].
  assert ((IZR kg - u) * (1 / IZR ng * nd) < nd); [| lra].
  replace nd with (IZR ng * (1 / IZR ng * nd)) at 2 by (field; lra). apply Rmult_lt_compat_r; lra.
Qed.

Section VegasSample.
Variable us : Z -> R.
Hypothesis us_open : forall k, 0 < us k < 1.

(** all coordinates: the point handed to the integrand lies in the region *)
Lemma vegas_sample_inside (ng : Z) (n : nat) : (1 <= n <= 50)%nat -> (1 <= ng)%Z ->
  forall kgs rows los dxs wgt pos,
  Forall (fun kg => (1 <= kg <= ng)%Z) kgs ->
  Forall (fun row => grid_ok row /\ length row = n) rows ->
  Forall (fun d => 0 <= d) dxs ->
  length rows = length kgs -> length los = length kgs -> length dxs = length kgs ->
  exists xs ias w p,
    vegas_sample ROps us kgs rows los dxs (1 / IZR ng * INR n) (INR n) wgt pos = Ok (xs, ias, w, p) /\
    cbox los (map (fun q => fst q + snd q) (combine los dxs)) xs /\
    Forall (fun ia => (1 <= ia <= Z.of_nat n)%Z) ias.
Proof.
  intros Hn Hng. induction kgs as [| kg kgs IH]; intros rows los dxs wgt pos Hk Hr Hd L1 L2 L3.
  - destruct rows; [| discriminate]. destruct los; [| discriminate]. exists [], [], wgt, pos. repeat split; constructor.
  - destruct rows as [| row rows]; [discriminate |]. destruct los as [| lo los]; [discriminate |]. destruct dxs as [| dxj dxs]; [discriminate |].
    inversion Hk as [| ? ? Hkg Hk']; subst. inversion Hr as [| ? ? [Hg Hl] Hr']; subst. inversion Hd as [| ? ? Hdx Hd']; subst.
    cbn [vegas_sample].
    assert (Hnd : 0 < INR (length row)) by (apply lt_0_INR; lia).
    pose proof (vegas_xn_range kg ng (us pos) (INR (length row)) Hkg (us_open pos) Hnd) as Hxn.
    destruct (vegas_map_inside row _ Hg Hn Hxn) as (xo & rc & E & Hxo & Hrc & Hia).
    change (nadd ROps (nmul ROps (nsub ROps (nofZ ROps kg) (us pos)) (1 / IZR ng * INR (length row))) (nofZ ROps 1))
      with ((IZR kg - us pos) * (1 / IZR ng * INR (length row)) + 1).
    cbv zeta in E. rewrite E. cbn [rbind].
    destruct (IH rows los dxs (nmul ROps wgt (nmul ROps xo (INR (length row)))) (pos + 1)%Z Hk' Hr' Hd'
                ltac:(cbn in L1; lia) ltac:(cbn in L2; lia) ltac:(cbn in L3; lia)) as (xs & ias & w & p & E2 & Hin & Hias).
    rewrite E2. cbn [rbind]. eexists; eexists; eexists; eexists. split; [reflexivity |].
    split; [| constructor; assumption].
    cbn. split; [nra | exact Hin].
Qed.
End VegasSample.

(** ** The 2-D / 3-D front ends hand the region over in the order {lower corner..., upper corner...} *)
Lemma front_end_regions (x1 x2 y1 y2 z1 z2 : R) :
  lows (mc_region_2d x1 x2 y1 y2) = [x1; y1] /\ highs (mc_region_2d x1 x2 y1 y2) = [x2; y2] /\
  lows (mc_region_3d x1 x2 y1 y2 z1 z2) = [x1; y1; z1] /\ highs (mc_region_3d x1 x2 y1 y2 z1 z2) = [x2; y2; z2].
Proof. repeat split; reflexivity. Qed.

(** ** Non-vacuity of the hypotheses *)
Example stream_example : forall k : Z, 0 <= (fun _ : Z => 1 / 2) k < 1 /\ 0 < (fun _ : Z => 1 / 2) k < 1.
Proof. intros k. lra. Qed.
Example wf_statics_fresh_process : wf_statics (vstate0 ROps).
Proof.
  split; [cbn; lia |]. cbn. repeat constructor; discriminate.
Qed.
Example region_example :
  let region := [0; -1; 3; 1; 2; 5] in
  length region = (2 * rdim region)%nat /\ ordered (lows region) (highs region) /\ (rdim region <= 10)%nat.
Proof. cbn. repeat split; try lra; lia. Qed.
Example grid_ok_example : grid_ok [1 / 4; 1 / 2; 3 / 4; 1].
Proof.
  repeat split; cbn; try lra.
  intros i j H. destruct i as [| [| [| [| i]]]]; destruct j as [| [| [| [| j]]]]; cbn in *; try lia; lra.
Qed.
