(** * C18 proofs, seventh pass: the acceptance statistic of Sample_Metropolis(_2D) (C18_Model2.v). *)
From Coq Require Import ZArith List Bool Lia Reals Lra.
From LP Require Import Num NumR C18_Model C18_Model2 C18_Proofs C18_Proofs_R.
Import ListNotations.
Local Open Scope Z_scope.

(** forgetting the statistic *)
Definition forget {T X Y : Type} (x : res (X * Y * list T)) : res (X * list T) :=
  match x with Ok (l, _, r) => Ok (l, r) | Exit => Exit | OOB => OOB | Fuel => Fuel end.

Section AnyT.
Context {T : Type} (Ops : NumOps T).

Lemma forget_finish {X} imax (x : res (X * T * list T)) : forget (finish_w Ops imax x) = forget x.
Proof. destruct x as [[[l s] r]| | |]; reflexivity. Qed.

Lemma metro_loop_w_samples PDF sigma dom burn thin imax n : forall us i x acc avg, Z.to_nat (imax - i) = n ->
  forget (metro_loop_w Ops PDF sigma dom burn thin imax us i x acc avg) = metro_loop Ops PDF sigma dom burn thin imax us i x acc.
Proof.
  induction n as [|n IH]; intros us i x acc avg Hn.
  - destruct us as [|u1 [|u2 us']]; simpl;
      replace (i <? imax) with false by (symmetry; apply Z.ltb_ge; lia); reflexivity.
  - destruct us as [|u1 [|u2 us']]; simpl;
      replace (i <? imax) with true by (symmetry; apply Z.ltb_lt; lia); try reflexivity.
    destruct (gauss_of Ops u1 x sigma) as [cand| | |]; try reflexivity.
    apply IH. lia.
Qed.

Theorem sample_metropolis_w_samples PDF sigma sample thin burn domain us :
  forget (sample_metropolis_w Ops PDF sigma sample thin burn domain us) = sample_metropolis Ops PDF sigma sample thin burn domain us.
Proof.
  unfold sample_metropolis_w, sample_metropolis.
  destruct domain as [|lo [|hi [|? ?]]]; try reflexivity; rewrite forget_finish; destruct us as [|u us']; try reflexivity.
  - destruct (gauss_of Ops u (n0 Ops) sigma) as [x0| | |]; try reflexivity. simpl rbind.
    eapply metro_loop_w_samples; reflexivity.
  - eapply metro_loop_w_samples; reflexivity.
Qed.

Lemma metro2_loop_w_samples PDF s1 s2 dom burn thin imax n : forall us i x acc avg, Z.to_nat (imax - i) = n ->
  forget (metro2_loop_w Ops PDF s1 s2 dom burn thin imax us i x acc avg) = metro2_loop Ops PDF s1 s2 dom burn thin imax us i x acc.
Proof.
  induction n as [|n IH]; intros us i x acc avg Hn.
  - destruct us as [|u1 [|u2 [|u3 us']]]; simpl;
      replace (i <? imax) with false by (symmetry; apply Z.ltb_ge; lia); reflexivity.
  - destruct us as [|u1 [|u2 [|u3 us']]]; simpl;
      replace (i <? imax) with true by (symmetry; apply Z.ltb_lt; lia); try reflexivity.
    destruct (gauss_of Ops u1 (fst x) s1) as [ca| | |]; try reflexivity.
    destruct (gauss_of Ops u2 (snd x) s2) as [cb| | |]; try reflexivity.
    apply IH. lia.
Qed.

Theorem sample_metropolis_2d_w_samples PDF s1 s2 sample thin burn domain us :
  forget (sample_metropolis_2d_w Ops PDF s1 s2 sample thin burn domain us) = sample_metropolis_2d Ops PDF s1 s2 sample thin burn domain us.
Proof.
  unfold sample_metropolis_2d_w, sample_metropolis_2d.
  destruct domain as [|x0 [|x1 [|y0 [|y1 [|? ?]]]]]; try reflexivity; destruct us as [|u1 [|u2 us']]; try reflexivity; rewrite forget_finish.
  - destruct (gauss_of Ops u1 (n0 Ops) s1) as [a| | |]; try reflexivity. simpl rbind.
    destruct (gauss_of Ops u2 (n0 Ops) s2) as [b| | |]; try reflexivity. simpl rbind.
    eapply metro2_loop_w_samples; reflexivity.
  - eapply metro2_loop_w_samples; reflexivity.
Qed.
End AnyT.

(** ** over the reals: the average is a probability *)
Local Open Scope R_scope.

Lemma min1_ratio_range (p q : R) : 0 <= p -> 0 <= q -> 0 <= nmin ROps 1 (p / q) <= 1.
Proof.
  intros Hp Hq. assert (0 <= p / q).
  { destruct (Req_dec q 0) as [->|Hn]; [unfold Rdiv; rewrite Rinv_0; lra|]. apply Rmult_le_pos; [lra|]. left. apply Rinv_0_lt_compat. lra. }
  unfold nmin. cbn. destruct (Rltb_spec (p / q) 1); lra.
Qed.

Lemma accept1_range PDF dom x cand : (forall z, 0 <= PDF z) -> 0 <= accept1 ROps PDF dom x cand <= 1.
Proof.
  intros H. unfold accept1. destruct dom as [[lo hi]|].
  - destruct (_ || _); [cbn; lra|]. apply (min1_ratio_range (PDF cand) (PDF x)); auto.
  - apply (min1_ratio_range (PDF cand) (PDF x)); auto.
Qed.

Lemma accept2_range PDF dom x cand : (forall a b, 0 <= PDF a b) -> 0 <= accept2 ROps PDF dom x cand <= 1.
Proof.
  intros H. unfold accept2. destruct dom as [[[[x0 x1] y0] y1]|].
  - destruct (_ || _); [cbn; lra|]. apply (min1_ratio_range (PDF _ _) (PDF _ _)); auto.
  - apply (min1_ratio_range (PDF _ _) (PDF _ _)); auto.
Qed.

Lemma metro_loop_w_sum PDF sigma dom burn thin imax n : (forall z, 0 <= PDF z) ->
  forall us i x acc avg l s r, Z.to_nat (imax - i) = n ->
  metro_loop_w ROps PDF sigma dom burn thin imax us i x acc avg = Ok (l, s, r) ->
  avg <= s <= avg + INR n.
Proof.
  intros HP. induction n as [|n IH]; intros us i x acc avg l s r Hn.
  - destruct us as [|u1 [|u2 us']]; simpl metro_loop_w;
      replace (i <? imax)%Z with false by (symmetry; apply Z.ltb_ge; lia); intros H; inversion H; subst; simpl; lra.
  - destruct us as [|u1 [|u2 us']]; simpl metro_loop_w;
      replace (i <? imax)%Z with true by (symmetry; apply Z.ltb_lt; lia); try discriminate.
    destruct (gauss_of ROps u1 x sigma) as [cand| | |]; try discriminate.
    intros H. apply IH in H; [|lia]. pose proof (accept1_range PDF dom x cand HP) as Ha.
    rewrite S_INR. cbn in H. lra.
Qed.

Lemma metro2_loop_w_sum PDF s1 s2 dom burn thin imax n : (forall a b, 0 <= PDF a b) ->
  forall us i x acc avg l s r, Z.to_nat (imax - i) = n ->
  metro2_loop_w ROps PDF s1 s2 dom burn thin imax us i x acc avg = Ok (l, s, r) ->
  avg <= s <= avg + INR n.
Proof.
  intros HP. induction n as [|n IH]; intros us i x acc avg l s r Hn.
  - destruct us as [|u1 [|u2 [|u3 us']]]; simpl metro2_loop_w;
      replace (i <? imax)%Z with false by (symmetry; apply Z.ltb_ge; lia); intros H; inversion H; subst; simpl; lra.
  - destruct us as [|u1 [|u2 [|u3 us']]]; simpl metro2_loop_w;
      replace (i <? imax)%Z with true by (symmetry; apply Z.ltb_lt; lia); try discriminate.
    destruct (gauss_of ROps u1 (fst x) s1) as [ca| | |]; try discriminate.
    destruct (gauss_of ROps u2 (snd x) s2) as [cb| | |]; try discriminate.
    intros H. apply IH in H; [|lia]. pose proof (accept2_range PDF dom x (ca, cb) HP) as Ha.
    rewrite S_INR. cbn in H. lra.
Qed.

Lemma average_range s (imax : Z) : (0 < imax)%Z -> 0 <= s <= 0 + INR (Z.to_nat (imax - 0)) ->
  0 <= metro_average ROps s imax <= 1.
Proof.
  intros Hi Hs. unfold metro_average. cbn. rewrite Z.sub_0_r, INR_IZR_INZ, Z2Nat.id in Hs by lia.
  assert (0 < IZR imax) by (apply IZR_lt; lia). split.
  - apply Rmult_le_pos; [lra|]. left. now apply Rinv_0_lt_compat.
  - apply (Rmult_le_reg_r (IZR imax)); [lra|]. unfold Rdiv. rewrite Rmult_assoc, Rinv_l by lra. lra.
Qed.

Theorem metropolis_average_is_probability PDF sigma sample thin burn domain us l av w r :
  (forall z, 0 <= PDF z) -> (0 < metro_imax burn thin sample)%Z ->
  sample_metropolis_w ROps PDF sigma sample thin burn domain us = Ok (l, (av, w), r) ->
  0 <= av <= 1 /\ (w = true <-> av < 1 / 1000 \/ 1 - 1 / 100 < av).
Proof.
  intros HP Hi. unfold sample_metropolis_w. set (imax := metro_imax burn thin sample) in *.
  assert (G : forall x : res (list R * R * list R), (forall l s r, x = Ok (l, s, r) -> 0 <= s <= 0 + INR (Z.to_nat (imax - 0))) ->
     finish_w ROps imax x = Ok (l, (av, w), r) -> 0 <= av <= 1 /\ (w = true <-> av < 1 / 1000 \/ 1 - 1 / 100 < av)).
  { intros x Hx H. destruct x as [[[l' s] r']| | |]; try discriminate. cbn [finish_w] in H. inversion H; subst. split.
    - apply average_range; [lia|]. eapply Hx; reflexivity.
    - unfold metro_warns, ngtb, ndec. cbn. rewrite orb_true_iff, !Rltb_true. lra. }
  destruct domain as [|lo [|hi [|? ?]]]; try discriminate; apply G; intros l' s r' H; destruct us as [|u us']; try discriminate.
  - destruct (gauss_of ROps u (n0 ROps) sigma) as [x0| | |]; try discriminate. cbn [rbind] in H.
    eapply metro_loop_w_sum in H; eauto.
  - eapply metro_loop_w_sum in H; eauto.
Qed.

Theorem metropolis_2d_average_is_probability PDF s1 s2 sample thin burn domain us l av w r :
  (forall a b, 0 <= PDF a b) -> (0 < metro_imax burn thin sample)%Z ->
  sample_metropolis_2d_w ROps PDF s1 s2 sample thin burn domain us = Ok (l, (av, w), r) ->
  0 <= av <= 1 /\ (w = true <-> av < 1 / 1000 \/ 1 - 1 / 100 < av).
Proof.
  intros HP Hi. unfold sample_metropolis_2d_w. set (imax := metro_imax burn thin sample) in *.
  assert (G : forall x : res (list (R * R) * R * list R), (forall l s r, x = Ok (l, s, r) -> 0 <= s <= 0 + INR (Z.to_nat (imax - 0))) ->
     finish_w ROps imax x = Ok (l, (av, w), r) -> 0 <= av <= 1 /\ (w = true <-> av < 1 / 1000 \/ 1 - 1 / 100 < av)).
  { intros x Hx H. destruct x as [[[l' s] r']| | |]; try discriminate. cbn [finish_w] in H. inversion H; subst. split.
    - apply average_range; [lia|]. eapply Hx; reflexivity.
    - unfold metro_warns, ngtb, ndec. cbn. rewrite orb_true_iff, !Rltb_true. lra. }
  destruct domain as [|x0 [|x1 [|y0 [|y1 [|? ?]]]]]; try discriminate; destruct us as [|u1 [|u2 us']]; try discriminate; apply G; intros l' s r' H.
  - destruct (gauss_of ROps u1 (n0 ROps) s1) as [a| | |]; try discriminate. cbn [rbind] in H.
    destruct (gauss_of ROps u2 (n0 ROps) s2) as [b| | |]; try discriminate. cbn [rbind] in H.
    eapply metro2_loop_w_sum in H; eauto.
  - eapply metro2_loop_w_sum in H; eauto.
Qed.

(* non-vacuity: a bounded chain of one iteration whose proposal deviate is 0 (candidate x - 10 sqrt(2) sigma); the call returns *)
Example metropolis_average_ex :
  (forall z : R, 0 <= (fun _ : R => 1) z) /\ (0 < metro_imax 0 1 1)%Z /\
  exists l av w, sample_metropolis_w ROps (fun _ => 1) 1 1 1 0 [0; 1] [/2; 0; /2] = Ok (l, (av, w), []).
Proof.
  split; [intros; lra|]. split; [reflexivity|].
  pose proof (C18_Proofs_R.sample_gauss_at_zero (unif ROps (/2) 0 1) 1 []) as G. unfold sample_gauss in G.
  unfold sample_metropolis_w. change (metro_imax 0 1 1) with 1%Z. cbn [metro_loop_w Z.ltb Z.compare].
  destruct (gauss_of ROps 0 (unif ROps (/ 2) 0 1) 1) as [cand| | |]; try discriminate.
  cbn [Z.add Z.ltb Z.compare Pos.compare Pos.compare_cont finish_w]. eexists _, _, _. reflexivity.
Qed.
