From Coq Require Import Extraction ExtrOcamlBasic ZArith List.
From LP Require Import Num C19_Model.
Extraction Language OCaml.
Extraction "C19_m.ml" workload range lists_equal combine_lists flatten_list list_contains find_indices
  sub_list transpose_lists linear_space log_space closest_location arithmetic_mean variance
  standard_deviation median weighted_average
  range1 range2 lists_equal2 transpose_lists2 median_twice weighted_average_default
  scale_data shift_data rotate_data scale_values scale_weights shift_values stat_history session
  datapoint datapoint1 datapoint0 dp_lt dp_gt dp_eq Z.of_nat Z.to_nat.
