(** * C18 proofs, part 8 (reals): "returns values inside the support" for Sample_Metropolis(_2D): a chain that is at a point of
    positive density never moves to a point of density zero (the acceptance probability there is min(1, 0/pi(x)) = 0 and no
    accept deviate u >= 0 is below 0), on bounded and unbounded domains, for every non-negative target density, every
    proposal width and every (sample, thinning, burn_in).  The start point is random (uniform in the domain / Gaussian
    around 0) and may have density zero: that part of the clause is NOT a theorem (IEEE: 0/0 and x/0 give acceptance 1,
    the chain walks freely until it finds the support; tested, see ASSUMPTIONS in checks/C18.py). *)
From Coq Require Import ZArith List Bool Lia Arith Reals Lra Psatz.
From LP Require Import Num NumR C18_Model C18_Proofs C18_Proofs_R.
Import ListNotations.
Local Open Scope R_scope.

Lemma Rmin_1_zero_ratio px : Rmin 1 (0 / px) = 0.
Proof. unfold Rdiv. rewrite Rmult_0_l. unfold Rmin. destruct (Rle_dec 1 0); lra. Qed.

(** a candidate of density zero has acceptance probability zero from every current point *)
Lemma accept1_zero_density PDF dom x cand : PDF cand = 0 -> accept1 ROps PDF dom x cand = 0.
Proof.
  intros Hc. unfold accept1. destruct dom as [[lo hi]|].
  - destruct (_ || _); [reflexivity|]. rewrite nmin_R, Hc. cbn [n1 ROps]. apply Rmin_1_zero_ratio.
  - rewrite nmin_R, Hc. cbn [n1 ROps]. apply Rmin_1_zero_ratio.
Qed.

Lemma metro_loop_in_support PDF sigma dom burn thin imax n : (forall y, 0 <= PDF y) -> forall us i x acc l r,
  (length us <= n)%nat -> Forall (fun u => 0 <= u) us ->
  0 < PDF x -> Forall (fun z => 0 < PDF z) acc ->
  metro_loop ROps PDF sigma dom burn thin imax us i x acc = Ok (l, r) ->
  Forall (fun z => 0 < PDF z) l.
Proof.
  intros Hpos. induction n as [|n IH]; intros us i x acc l r Hlen Hus Hx Hacc.
  - destruct us; [|simpl in Hlen; lia]. simpl. destruct (i <? imax)%Z; [discriminate|].
    intros H; inversion H; subst. apply Forall_rev; assumption.
  - destruct us as [|u1 [|u2 us']]; simpl metro_loop; destruct (i <? imax)%Z; try discriminate;
      try (intros H; inversion H; subst; apply Forall_rev; assumption).
    destruct (gauss_of ROps u1 x sigma) as [cand| | |]; try discriminate.
    inversion Hus as [|? ? Hu1 Hus1]; subst. inversion Hus1 as [|? ? Hu2 Hus2]; subst.
    set (a := accept1 ROps PDF dom x cand).
    set (x' := if nltb ROps (unif ROps u2 (n0 ROps) (n1 ROps)) a then cand else x).
    assert (Hx' : 0 < PDF x').
    { unfold x'. rewrite unif01_R. cbn [nltb ROps]. destruct (Rltb_spec u2 a) as [Hlt|]; [|assumption].
      destruct (Rle_lt_or_eq_dec 0 (PDF cand) (Hpos cand)) as [Hc|Hc]; [exact Hc|].
      unfold a in Hlt. rewrite accept1_zero_density in Hlt by (symmetry; exact Hc). lra. }
    apply IH; auto; [simpl in Hlen; lia|]. destruct (metro_keep burn thin i); [constructor|]; assumption.
Qed.

(** the start point of the chain: uniform in a bounded domain, Gaussian around 0 otherwise *)
Definition metro_start (sigma : R) (domain : list R) (u x0 : R) : Prop :=
  match domain with
  | [] => gauss_of ROps u (n0 ROps) sigma = Ok x0
  | [lo; hi] => x0 = unif ROps u lo hi
  | _ => False
  end.

Theorem metropolis_stays_in_support PDF sigma sample thin burn domain u us l r x0 :
  (forall y, 0 <= PDF y) -> Forall (fun v => 0 <= v) us ->
  metro_start sigma domain u x0 -> 0 < PDF x0 ->
  sample_metropolis ROps PDF sigma sample thin burn domain (u :: us) = Ok (l, r) ->
  Forall (fun z => 0 < PDF z) l.
Proof.
  intros Hpos Hus Hst Hx0. unfold sample_metropolis.
  destruct domain as [|lo [|hi [|? ?]]]; cbn [metro_start] in Hst; try contradiction.
  - rewrite Hst. cbn [rbind]. apply (metro_loop_in_support _ _ _ _ _ _ (length us)); auto.
  - subst x0. apply (metro_loop_in_support _ _ _ _ _ _ (length us)); auto.
Qed.

(** ** 2D *)
Lemma accept2_zero_density PDF dom x cand : PDF (fst cand) (snd cand) = 0 -> accept2 ROps PDF dom x cand = 0.
Proof.
  intros Hc. unfold accept2. destruct dom as [[[[x0 x1] y0] y1]|].
  - destruct (_ || _); [reflexivity|]. rewrite nmin_R, Hc. cbn [n1 ROps]. apply Rmin_1_zero_ratio.
  - rewrite nmin_R, Hc. cbn [n1 ROps]. apply Rmin_1_zero_ratio.
Qed.

Lemma metro2_loop_in_support PDF s1 s2 dom burn thin imax n : (forall x y, 0 <= PDF x y) -> forall us i x acc l r,
  (length us <= n)%nat -> Forall (fun u => 0 <= u) us ->
  0 < PDF (fst x) (snd x) -> Forall (fun z => 0 < PDF (fst z) (snd z)) acc ->
  metro2_loop ROps PDF s1 s2 dom burn thin imax us i x acc = Ok (l, r) ->
  Forall (fun z => 0 < PDF (fst z) (snd z)) l.
Proof.
  intros Hpos. induction n as [|n IH]; intros us i x acc l r Hlen Hus Hx Hacc.
  - destruct us; [|simpl in Hlen; lia]. simpl. destruct (i <? imax)%Z; [discriminate|].
    intros H; inversion H; subst. apply Forall_rev; assumption.
  - destruct us as [|u1 [|u2 [|u3 us']]]; simpl metro2_loop; destruct (i <? imax)%Z; try discriminate;
      try (intros H; inversion H; subst; apply Forall_rev; assumption).
    destruct (gauss_of ROps u1 (fst x) s1) as [ca| | |]; try discriminate.
    destruct (gauss_of ROps u2 (snd x) s2) as [cb| | |]; try discriminate.
    inversion Hus as [|? ? Hu1 Hus1]; subst. inversion Hus1 as [|? ? Hu2 Hus2]; subst. inversion Hus2 as [|? ? Hu3 Hus3]; subst.
    set (a := accept2 ROps PDF dom x (ca, cb)).
    set (x' := if nltb ROps (unif ROps u3 (n0 ROps) (n1 ROps)) a then (ca, cb) else x).
    assert (Hx' : 0 < PDF (fst x') (snd x')).
    { unfold x'. rewrite unif01_R. cbn [nltb ROps]. destruct (Rltb_spec u3 a) as [Hlt|]; [|assumption].
      cbn [fst snd]. destruct (Rle_lt_or_eq_dec 0 (PDF ca cb) (Hpos ca cb)) as [Hc|Hc]; [exact Hc|].
      unfold a in Hlt. rewrite accept2_zero_density in Hlt by (symmetry; exact Hc). lra. }
    apply IH; auto; [simpl in Hlen; lia|]. destruct (metro_keep burn thin i); [constructor|]; assumption.
Qed.

Definition metro2_start (s1 s2 : R) (domain : list R) (u1 u2 : R) (p0 : R * R) : Prop :=
  match domain with
  | [] => gauss_of ROps u1 (n0 ROps) s1 = Ok (fst p0) /\ gauss_of ROps u2 (n0 ROps) s2 = Ok (snd p0)
  | [x0; x1; y0; y1] => p0 = (unif ROps u1 x0 x1, unif ROps u2 y0 y1)
  | _ => False
  end.

Theorem metropolis_2d_stays_in_support PDF s1 s2 sample thin burn domain u1 u2 us l r p0 :
  (forall x y, 0 <= PDF x y) -> Forall (fun v => 0 <= v) us ->
  metro2_start s1 s2 domain u1 u2 p0 -> 0 < PDF (fst p0) (snd p0) ->
  sample_metropolis_2d ROps PDF s1 s2 sample thin burn domain (u1 :: u2 :: us) = Ok (l, r) ->
  Forall (fun z => 0 < PDF (fst z) (snd z)) l.
Proof.
  intros Hpos Hus Hst Hp0. unfold sample_metropolis_2d.
  destruct domain as [|x0 [|x1 [|y0 [|y1 [|? ?]]]]]; cbn [metro2_start] in Hst; try contradiction.
  - destruct Hst as [E1 E2]. rewrite E1. cbn [rbind]. rewrite E2. cbn [rbind].
    replace (fst p0, snd p0) with p0 by (destruct p0; reflexivity).
    apply (metro2_loop_in_support _ _ _ _ _ _ _ (length us)); auto.
  - subst p0. apply (metro2_loop_in_support _ _ _ _ _ _ _ (length us)); auto.
Qed.

(** non-vacuity: the triangular density 2x on [0,1] (zero outside), bounded domain [-1,2], start deviate 1/2 -> start point 1/2 *)
Example stays_in_support_ex :
  let PDF := fun x : R => if Rle_dec 0 x then (if Rle_dec x 1 then 2 * x else 0) else 0 in
  (forall y, 0 <= PDF y) /\ metro_start 1 [-1; 2] (/2) (/2) /\ 0 < PDF (/2).
Proof.
  cbv zeta. split; [|split].
  - intros y. destruct (Rle_dec 0 y); [destruct (Rle_dec y 1)|]; lra.
  - cbn [metro_start]. rewrite unif_R. lra.
  - destruct (Rle_dec 0 (/2)); [destruct (Rle_dec (/2) 1)|]; lra.
Qed.

(** ** detailed balance on a bounded 2D domain, for any two points of the box *)
Lemma accept2_bounded_inside PDF x0 x1 y0 y1 x c : x0 <= fst c <= x1 -> y0 <= snd c <= y1 ->
  accept2 ROps PDF (Some (x0, x1, y0, y1)) x c = Rmin 1 (PDF (fst c) (snd c) / PDF (fst x) (snd x)).
Proof.
  intros Hx Hy. unfold accept2, ngtb. cbn [nltb ROps].
  destruct (Rltb_spec (fst c) x0); [lra|]. destruct (Rltb_spec x1 (fst c)); [lra|].
  destruct (Rltb_spec (snd c) y0); [lra|]. destruct (Rltb_spec y1 (snd c)); [lra|].
  simpl orb. now rewrite nmin_R.
Qed.

Theorem acceptance_detailed_balance_2d_bounded PDF x0 x1 y0 y1 x y :
  x0 <= fst x <= x1 -> y0 <= snd x <= y1 -> x0 <= fst y <= x1 -> y0 <= snd y <= y1 ->
  0 < PDF (fst x) (snd x) -> 0 < PDF (fst y) (snd y) ->
  PDF (fst x) (snd x) * accept2 ROps PDF (Some (x0, x1, y0, y1)) x y =
  PDF (fst y) (snd y) * accept2 ROps PDF (Some (x0, x1, y0, y1)) y x.
Proof. intros. rewrite !accept2_bounded_inside by assumption. now apply detailed_balance_R. Qed.
