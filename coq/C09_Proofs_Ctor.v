(** * C09: the constructors.  Whatever the unit arguments x_dim / y_dim / f_dim are, a constructed
    object starts with prefactor 1, jLast 0, correlated_calls false; the unit arguments are found in
    the tables only.  Hence Set_Prefactor / Multiply act on an object built with units exactly as on
    one built without: the prefactor after a history is the one of the history alone. *)
From Coq Require Import ZArith List Bool Lia.
From LP Require Import Num OrdLaws C09_Model C09_Proofs.
Import ListNotations.
Local Open Scope Z_scope.

Section Ctor.
Context {T : Type} (Ops : NumOps T).

Lemma scale_units_inactive (dim : T) (l : list T) :
  ngtb Ops dim (n0 Ops) = false -> scale_units Ops dim l = l.
Proof. intros H. unfold scale_units. rewrite H. reflexivity. Qed.

Lemma scale_units_active (dim : T) (l : list T) :
  ngtb Ops dim (n0 Ops) = true -> scale_units Ops dim l = map (fun v => nmul Ops v dim) l.
Proof. intros H. unfold scale_units. rewrite H. reflexivity. Qed.

Lemma scale_units_length (dim : T) (l : list T) : length (scale_units Ops dim l) = length l.
Proof. unfold scale_units. destruct (ngtb Ops dim (n0 Ops)); [apply map_length|reflexivity]. Qed.

Lemma construct1_spec (xs fs : list T) (x_dim f_dim : T) (o : object1 T) :
  construct1 Ops xs fs x_dim f_dim = Ok o ->
  o_state o = init Ops /\
  o_xs o = scale_units Ops x_dim xs /\ o_fs o = scale_units Ops f_dim fs /\
  o_dom o = (nth0 Ops (o_xs o) 0, nth0 Ops (o_xs o) (length xs - 1)) /\
  length xs = length fs /\ (2 <= length xs)%nat /\ strictly_increasing Ops (o_xs o) = true.
Proof.
  unfold construct1.
  destruct (Nat.eqb (length xs) (length fs)) eqn:E1; cbn [negb]; [|discriminate].
  destruct (Nat.ltb (length xs) 2) eqn:E2; [discriminate|].
  cbv zeta.
  destruct (strictly_increasing Ops (scale_units Ops x_dim xs)) eqn:E3; cbn [negb]; [|discriminate].
  intros H. injection H as <-. cbn.
  apply Nat.eqb_eq in E1. apply Nat.ltb_ge in E2. repeat split; auto.
Qed.

Lemma construct1_rows_state (data : list (list T)) (x_dim f_dim : T) (o : object1 T) :
  construct1_rows Ops data x_dim f_dim = Ok o -> o_state o = init Ops.
Proof.
  unfold construct1_rows. destruct (split_rows2 data) as [xf| | |]; cbn [rbind]; try discriminate.
  intros H. apply construct1_spec in H. tauto.
Qed.

Lemma construct2_spec (xs ys : list T) (f : list (list T)) (x_dim y_dim f_dim : T) (o : object2 T) :
  construct2 Ops xs ys f x_dim y_dim f_dim = Ok o ->
  o2_state o = init2 Ops /\
  o2_xs o = scale_units Ops x_dim xs /\ o2_ys o = scale_units Ops y_dim ys /\
  o2_f o = (if ngtb Ops f_dim (n0 Ops) then map (map (fun v => nmul Ops v f_dim)) f else f).
Proof.
  unfold construct2.
  destruct (negb _); [discriminate|].
  destruct (construct1 Ops (scale_units Ops x_dim xs) _ _ _) as [xi| | |] eqn:Ex; cbn [rbind]; try discriminate.
  destruct (construct1 Ops (scale_units Ops y_dim ys) _ _ _) as [yi| | |] eqn:Ey; cbn [rbind]; try discriminate.
  intros H. injection H as <-. cbn.
  apply construct1_spec in Ex. apply construct1_spec in Ey.
  destruct Ex as (-> & _). destruct Ey as (-> & _). unfold init2. repeat split; reflexivity.
Qed.

Lemma construct2_rows_state (data : list (list T)) (x_dim y_dim f_dim : T) (o : object2 T) :
  construct2_rows Ops data x_dim y_dim f_dim = Ok o -> o2_state o = init2 Ops.
Proof.
  unfold construct2_rows. destruct (cols3 data) as [xy| | |]; cbn [rbind]; try discriminate.
  destruct (negb _); [discriminate|].
  destruct (fill_table _ _ _ _) as [g| | |]; cbn [rbind]; try discriminate.
  intros H. apply construct2_spec in H. tauto.
Qed.
End Ctor.

(** the table of a constructed object as the index function of the search theorems *)
Definition table_of {T} (Ops : NumOps T) (l : list T) : Z -> T := fun i => nth0 Ops l (Z.to_nat i).

Lemma units_not_in_prefactor {T : Type} (Ops : NumOps T) (OL : OrdLaws Ops)
      (xs fs : list T) (x_dim f_dim : T) (o : object1 T) :
  construct1 Ops xs fs x_dim f_dim = Ok o ->
  let N := Z.of_nat (length (o_xs o)) in
  let xv := table_of Ops (o_xs o) in
  increasing Ops N xv -> size_ok N ->
  forall (E : evals T) (h : list (op T)) (q : op T),
    prefactor (runE Ops N xv E h (o_state o)) = prefactor_after Ops h (n1 Ops) /\
    snd (stepE Ops N xv E (runE Ops N xv E h (o_state o)) q) =
    snd (stepE Ops N xv E (fresh (prefactor_after Ops h (n1 Ops))) q).
Proof.
  intros H N xv Hi Hn E h q. apply construct1_spec in H. destruct H as (-> & _).
  split.
  - exact (prefactor_run Ops OL N xv Hi Hn _ _ _ _ _ h (init Ops) (inv_fresh N Hn (n1 Ops))).
  - exact (history_free Ops OL N xv Hi Hn _ _ _ _ _ h q).
Qed.

(** non-vacuity: the model computes on the integers; units 3 (abscissae) and 2 (values) *)
Example construct1_example :
  construct1 ZOps [1; 2; 4] [5; 6; 7] 3 2 = Ok (mkObject1 [3; 6; 12] [10; 12; 14] (3, 12) (mkState 0 false 1)) /\
  construct1 ZOps [1; 2; 4] [5; 6; 7] (-1) (-1) = Ok (mkObject1 [1; 2; 4] [5; 6; 7] (1, 4) (mkState 0 false 1)) /\
  construct1_rows ZOps [[1; 5]; [2; 6]; [4; 7]] (-1) 2 = Ok (mkObject1 [1; 2; 4] [10; 12; 14] (1, 4) (mkState 0 false 1)).
Proof. repeat split; reflexivity. Qed.

Example construct2_rows_example :
  construct2_rows ZOps [[1; 10; 5]; [1; 20; 6]; [3; 10; 7]; [3; 20; 8]] 2 (-1) 10 =
  Ok (mkObject2 [2; 6] [10; 20] [[50; 60]; [70; 80]] ((2, 6), (10, 20))
                (mkState2 (mkState 0 false 1) (mkState 0 false 1) 1)) /\
  construct2 ZOps [1; 3] [10; 20] [[5; 6]; [7; 8]] 2 (-1) 10 =
  construct2_rows ZOps [[1; 10; 5]; [1; 20; 6]; [3; 10; 7]; [3; 20; 8]] 2 (-1) 10 /\
  construct2_rows ZOps [[1; 20; 6]; [1; 10; 5]; [3; 10; 7]; [3; 20; 8]] 2 (-1) 10 = Exit.
Proof. repeat split; reflexivity. Qed.
